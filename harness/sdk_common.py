"""Shared by checks C05 and C14: translation of what the real SDK did into Coq terms
(fail-closed), vm_compute case files over coq/Sdk/SdkCheck.v, the implementation-side
oracles, and the long-sequence runner of C14."""
import os
import re

import sdk_ast as sa


class Untranslatable(Exception):
    """the builder emitted something the model has no constructor for"""


BANK = {"R": "BR", "C": "BC", "Q": "BQ", "M": "BM"}
QOPS = {"qalloc": "QAlloc", "init": "QInit", "qfree": "QFree"}
BRANCH2 = {"beq": "CEq", "bne": "CNe", "blt": "CLt", "bge": "CGe"}
BRANCH1 = {"bez": "CEz", "bnz": "CNz"}


def c_reg(o):
    if o[0] != "reg":
        raise Untranslatable(f"register expected: {o}")
    return f"(Rg {BANK[o[1]]} {o[2]})"


def c_rop(o):
    if o[0] == "int":
        return f"(PImm {sa.cz(o[1])})"
    if o[0] == "reg":
        return f"(PReg {c_reg(o)})"
    raise Untranslatable(f"register or immediate expected: {o}")


def c_entry(o):
    if o[0] != "entry":
        raise Untranslatable(f"array entry expected: {o}")
    return f"{o[1]} {c_rop(o[2])}"


def canon_labels(cmds):
    """label name -> k where the definition is the k-th label definition of the list;
    names must be unique and every reference must resolve"""
    m = {}
    for c in cmds:
        if c[0] == "label":
            if c[1] in m:
                raise Untranslatable(f"label {c[1]} defined twice")
            m[c[1]] = len(m)
    return m


def to_fcmds(cmds):
    lab = canon_labels(cmds)

    def L(o):
        if o[0] != "label" or o[1] not in lab:
            raise Untranslatable(f"unresolved label {o}")
        return str(lab[o[1]])

    out = []
    for c in cmds:
        if c[0] == "label":
            out.append(f"FLab {lab[c[1]]}")
            continue
        _, mn, ops = c
        n = len(ops)
        if mn == "set" and n == 2 and ops[1][0] == "int":
            out.append(f"FI (ISet {c_reg(ops[0])} {sa.cz(ops[1][1])})")
        elif mn in QOPS and n == 1:
            out.append(f"FI (IQ {QOPS[mn]} {c_reg(ops[0])})")
        elif mn in sa.GATES1 and n == 1:
            out.append(f"FI (IQ (QG G{mn.upper()}) {c_reg(ops[0])})")
        elif mn in ("rot_x", "rot_y", "rot_z") and n == 3 and ops[1][0] == "int" and ops[2][0] == "int":
            out.append(f"FI (IRot A{mn[-1].upper()} {c_reg(ops[0])} {sa.cz(ops[1][1])} {sa.cz(ops[2][1])})")
        elif mn in ("cnot", "cphase") and n == 2:
            out.append(f"FI (ITwo T{mn.capitalize()} {c_reg(ops[0])} {c_reg(ops[1])})")
        elif mn == "meas" and n == 2:
            out.append(f"FI (IMeas {c_reg(ops[0])} {c_reg(ops[1])})")
        elif mn == "store" and n == 2:
            out.append(f"FI (IStore {c_rop(ops[0])} {c_entry(ops[1])})")
        elif mn == "load" and n == 2:
            out.append(f"FI (ILoad {c_reg(ops[0])} {c_entry(ops[1])})")
        elif mn == "add" and n == 3:
            out.append(f"FI (IAdd {c_reg(ops[0])} {c_reg(ops[1])} {c_rop(ops[2])})")
        elif mn == "addm" and n == 4 and ops[3][0] == "int":
            out.append(f"FI (IAddm {c_reg(ops[0])} {c_reg(ops[1])} {c_rop(ops[2])} {sa.cz(ops[3][1])})")
        elif mn == "array" and n == 2 and ops[0][0] == "int" and ops[1][0] == "addr":
            out.append(f"FI (IArray {sa.cz(ops[0][1])} {ops[1][1]})")
        elif mn == "ret_arr" and n == 1 and ops[0][0] == "addr":
            out.append(f"FI (IRetArr {ops[0][1]})")
        elif mn == "ret_reg" and n == 1:
            out.append(f"FI (IRetReg {c_reg(ops[0])})")
        elif mn in BRANCH2 and n == 3:
            out.append(f"FBr {BRANCH2[mn]} {c_rop(ops[0])} {c_rop(ops[1])} {L(ops[2])}")
        elif mn in BRANCH1 and n == 2:
            out.append(f"FBr {BRANCH1[mn]} {c_rop(ops[0])} (PImm 0) {L(ops[1])}")
        elif mn == "jmp" and n == 1:
            out.append(f"FJmp {L(ops[0])}")
        else:
            raise Untranslatable(f"{mn} {ops}")
    return out


def probe_free_deactivates(repo):
    """does Qubit.free() release the virtual id for re-use?  (behaviour owned by C09)"""
    from sdk_pipeline import Pipeline
    from netqasm.sdk.qubit import Qubit

    pipe = Pipeline(repo)
    conn = pipe.connection()
    q = Qubit(conn)
    q.free()
    q2 = Qubit(conn)
    return q2.qubit_id == 0


# ------------------------------------------------------------------ Coq terms of an observation
def c_optz(v):
    # a handle whose read raised ("exc:<type>") carries no value; bcase_coq marks the run as failed
    return "None" if v is None or isinstance(v, str) else f"(Some {sa.cz(v)})"


def read_failures(obs):
    """handle reads that raised on the host -> list of descriptions"""
    out = []
    for k, s in enumerate(obs.get("flushes") or []):
        for key, v in list(s.get("futs", {}).items()) + [("reg " + str(r), v) for r, v in s.get("regs", {}).items()]:
            if isinstance(v, str):
                out.append(f"flush {k}: reading handle {key} raised {v[4:]}")
        for a, l in s.get("arrays", {}).items():
            if isinstance(l, str) or any(isinstance(x, str) for x in (l or [])):
                out.append(f"flush {k}: reading array {a} raised")
    return out


def c_optlist(l):
    return sa.coq_list(c_optz(v) for v in l)


def c_arrays(d):
    return sa.coq_list(f"({int(a)}%nat, {c_optlist(v)})" for a, v in sorted((int(a), v) for a, v in d.items()))


def c_tev(ev):
    mn, ids, imm = ev
    if any(i < 0 for i in ids):
        raise Untranslatable(f"gate on a qubit that was never initialised: {ev}")
    if mn == "init":
        return f"TInit {ids[0]}"
    if mn in sa.GATES1:
        return f"TG1 G{mn.upper()} {ids[0]}"
    if mn in ("rot_x", "rot_y", "rot_z"):
        return f"TRot A{mn[-1].upper()} {ids[0]} {sa.cz(imm[0])} {sa.cz(imm[1])}"
    if mn in ("cnot", "cphase"):
        return f"TG2 T{mn.capitalize()} {ids[0]} {ids[1]}"
    if mn == "meas":
        return f"TMeas {ids[0]} {sa.cz(imm[0])}"
    raise Untranslatable(f"trace event {ev}")


def c_reads(snap):
    out = []
    for a, l in sorted(snap["arrays"].items(), key=lambda kv: int(kv[0])):
        out.append(f"HArr {int(a)} {c_optlist(l)}")
    for key, v in sorted(snap["futs"].items()):
        a, i = key.split(",")
        out.append(f"HFut {a} {i} {c_optz(v)}")
    for r, v in sorted(snap["regs"].items(), key=lambda kv: int(kv[0])):
        out.append(f"HReg {int(r)} {c_optz(v)}")
    return sa.coq_list(out)


def bcase_coq(prog, script, obs):
    ok = obs["status"] == "ok" and not read_failures(obs)
    fl = sa.coq_list(f"mkF {c_reads(s)} {c_arrays(s.get('ctrl_arrays', {}))}" for s in obs["flushes"])
    final = c_arrays(obs["final_arrays"] or {})
    tr = sa.coq_list(c_tev(e) for e in obs["trace"])
    return (f"mkB {sa.coq_block(prog)} {sa.coq_list(sa.cz(x) for x in script)} {sa.coq_bool(ok)} "
            f"{tr} {fl} {final}")


def scase_coq(fd, prog, obs):
    if obs["status"] != "ok":
        blocks = "None"
    else:
        bl = []
        for p in obs["protos"]:
            bl.append("None" if p is None else "(Some " + sa.coq_list(to_fcmds(p)) + ")")
        blocks = "(Some " + sa.coq_list(bl) + ")"
    return f"mkS {sa.coq_bool(fd)} {sa.coq_block(prog)} {blocks}"


def acase_coq(fd, prog, steps, peaks, mused=None, mscr=None):
    mused = mused if mused is not None else getattr(run_sequence, "mused", [])
    mscr = mscr if mscr is not None else getattr(run_sequence, "mscr", [])
    st = sa.coq_list("AErr" if s is None else "AOk " + sa.coq_list(f"{i}%nat" for i in s) + f" {peaks[j]} "
                     + sa.coq_list(f"{i}%nat" for i in mused[j]) + " " + sa.coq_list(f"{i}%nat" for i in mscr[j])
                     for j, s in enumerate(steps))
    return f"mkA {sa.coq_bool(fd)} {sa.coq_block(prog)} {st}"


HEADER = """From Coq Require Import ZArith List Bool.
From NQ Require Import Sdk.SdkAst Sdk.Target Sdk.Eval Sdk.MemMgr Sdk.Lower Sdk.Flatten Sdk.SdkCheck.
Import ListNotations.
Open Scope Z_scope.
"""


def write_case_file(path, scases=None, bcases=None, acases=None):
    with open(path, "w") as f:
        f.write(HEADER)
        if scases is not None:
            f.write("Definition scases : list scase :=\n [" + ";\n  ".join(scases) + "].\n")
            f.write("Eval vm_compute in (failing check_scase scases).\n")
        if bcases is not None:
            f.write("Definition bcases : list bcase :=\n [" + ";\n  ".join(bcases) + "].\n")
            f.write("Eval vm_compute in (bfailing bcases).\n")
        if acases is not None:
            f.write("Definition acases : list acase :=\n [" + ";\n  ".join(acases) + "].\n")
            f.write("Eval vm_compute in (failing check_acase acases).\n")


def parse_lists(out):
    parts = re.findall(r"=\s*(\[[^\]]*\]|nil)\s*:\s*list Z", out.replace("\n", " "))
    return [[int(x) for x in re.findall(r"-?\d+", p)] for p in parts]


# ------------------------------------------------------------------ implementation-side oracle (no model involved)
def host_equals_controller(obs):
    """After each flush every Future / Array handle read on the host equals the controller's
    value; a register future equals the controller's register at the flush that returned it.
    -> list of discrepancies"""
    bad = []
    seen_regs = set()
    for k, s in enumerate(obs["flushes"]):
        ctrl = s.get("ctrl_arrays", {})
        for a, l in s["arrays"].items():
            if ctrl.get(int(a)) != l:
                bad.append(dict(flush=k, handle=f"Array {a}", host=l, controller=ctrl.get(int(a))))
        for key, v in s["futs"].items():
            a, i = (int(x) for x in key.split(","))
            cv = ctrl.get(a)
            cv = None if cv is None or i >= len(cv) else cv[i]
            if isinstance(v, str) or cv != v:
                bad.append(dict(flush=k, handle=f"Future @{a}[{i}]", host=v, controller=cv))
        for r, v in ([] if obs.get("late_reads") else s["regs"].items()):
            if r in seen_regs:
                continue
            seen_regs.add(r)
            name = s["reg_names"][r]
            idx = int(name[1:])
            cm = s["ctrl_M"] if name[0] == "M" else s["ctrl_R"]
            cv = cm[idx] if idx < len(cm) else None
            if isinstance(v, str) or (v is not None and v != cv):
                bad.append(dict(flush=k, handle=f"RegFuture {r} ({name})", host=v, controller=cv))
    return bad


# ------------------------------------------------------------------ running batches through Coq
def run_batch(ctx, tag, items, shard=60):
    """items: list of dict(prog, script, obs, fd).  Writes sharded case files with the
    structural and the behavioural case of every item, evaluates them, returns
    (structural mismatch indices, {index: behaviour code}, untranslatable [(index, why)])."""
    files, meta = [], {}
    untrans = []
    for k in range(0, len(items), shard):
        sl = items[k:k + shard]
        sc, bc, idx = [], [], []
        for j, it in enumerate(sl):
            try:
                s_ = scase_coq(it["fd"], it["prog"], it["obs"])
                b_ = bcase_coq(it["prog"], it["script"], it["obs"])
            except Untranslatable as e:
                untrans.append((k + j, str(e)))
                continue
            sc.append(s_)
            bc.append(b_)
            idx.append(k + j)
        fn = f"cases_{tag}_{k // shard}.v"
        write_case_file(os.path.join(ctx.build, fn), scases=sc, bcases=bc)
        files.append(fn)
        meta[fn] = idx
    results = ctx.run_case_files(files)
    s_bad, b_bad = [], {}
    for fn, res in results.items():
        if not res.ok:
            ctx.gen_obligation(f"correspondence file {fn} evaluates", False, res.err[-400:])
            continue
        ls = parse_lists(res.out)
        if len(ls) != 2:
            ctx.gen_obligation(f"correspondence file {fn} output parsed", False, res.out[-300:])
            continue
        idx = meta[fn]
        for i in ls[0]:
            s_bad.append(idx[i])
        for i, code in zip(ls[1][0::2], ls[1][1::2]):
            b_bad[idx[i]] = code
    # programs outside Sdk.Lower (marked by the caller): behavioural oracle only
    s_bad = [i for i in s_bad if not items[i].get("no_struct")]
    return sorted(s_bad), b_bad, untrans


BCODE = {1: "the specification gives the program no meaning (generator produced an ill-formed program)",
         2: "the SDK/controller failed on a well-formed program",
         3: "gate trace differs from direct execution",
         4: "a handle read after a flush / the controller arrays at a flush differ from direct execution",
         5: "final arrays differ from direct execution",
         6: "the controller faults at ret_reg: a measurement into a register future was not reached at run time"}


# ------------------------------------------------------------------ C14: long sequences on one connection
def run_sequence(repo, prog, compile_only=True, max_qubits=64, assemble=True, mode="compile", block=True):
    """every top-level statement on ONE real connection; after each: the sorted active
    register indices, or None when the SDK raised (the run stops there).
    mode "compile": the harness connection, a flush = pop + assemble + builder reset (nothing sent);
    mode "debug":   the SDK's own DebugConnection (no controller answers: no value ever becomes readable
                    on the host) and the real conn.flush(block=..) path; `block` is a bool or "alternate".
    No handle is ever read by the harness here."""
    from sdk_pipeline import Pipeline

    pipe = Pipeline(repo, max_qubits=max_qubits)
    sock = pipe.epr_socket()
    if mode == "debug":
        from netqasm.sdk.build_types import GenericHardwareConfig

        conn = pipe.cls["DebugConnection"]("Alice", epr_sockets=[sock], max_qubits=max_qubits,
                                           hardware_config=GenericHardwareConfig(max_qubits))
    else:
        conn = pipe.connection(epr_sockets=[sock])
    it = sa.Interp(conn, pipe)
    n_flush = [0]

    def real_flush():
        n_flush[0] += 1
        blk = (n_flush[0] % 2 == 0) if block == "alternate" else bool(block)
        proto = conn._builder.subrt_pop_pending_subroutine()
        if proto is None:
            return
        try:
            conn.commit_protosubroutine(protosubroutine=proto, block=blk)
        except RuntimeError as e:
            if "no registers left" not in str(e):
                raise
            # the assembler's own scratch registers (C03): depends on this one block only
            it.asm_failures = getattr(it, "asm_failures", 0) + 1
            conn._builder._pending_reg_futures = []
            conn._builder._reset()
    it.sock = sock
    steps, err = [], None
    peak = [0]
    mm = conn._builder._mem_mgr
    orig_add = mm.add_active_register

    def add(reg):
        orig_add(reg)
        peak[0] = max(peak[0], len(mm._active_registers))

    mm.add_active_register = add
    peaks = []
    mused = []         # per step: M registers marked in use
    mscr = []          # per step: M registers remembered as scratch of array measurements
    user = []          # per step: registers claimed by builder.new_register() so far (legitimately live)
    newregs = set()
    for i, s in enumerate(prog):
        try:
            if s[0] == "flush" and mode == "debug":
                real_flush()
            elif s[0] == "flush" and compile_only:
                it.compile_only(assemble=assemble)
            else:
                it.stmt(s)
        except sa.IllFormed:
            raise
        except Exception as e:  # noqa
            err = dict(at=i, exc=type(e).__name__, msg=str(e)[:160])
            steps.append(None)
            break
        steps.append(sa.active_regs(conn))
        peaks.append(peak[0])
        mused.append(_reg_indices(getattr(mm, "_used_meas_registers", ())))
        mscr.append(_reg_indices(getattr(mm, "_scratch_meas_registers", ())))
        collect_newregs([s], newregs)
        user.append(sorted(it.reg[r].reg.index for r in newregs if r in it.reg))
    # no conn.close(): it would execute what is still pending
    run_sequence.user = user
    run_sequence.mused = mused
    run_sequence.mscr = mscr
    run_sequence.asm_failures = getattr(it, "asm_failures", 0)
    return steps, err, peaks


def _reg_indices(container):
    """Indices of the registers a bookkeeping container of the memory manager marks: a dict register -> bool
    (the shape at the pinned commit), or any collection of registers / indices (a refactored manager)."""
    try:
        if isinstance(container, dict):
            items = [k for k, v in container.items() if v]
        else:
            items = list(container)
        return sorted(int(getattr(r, "index", r)) for r in items)
    except Exception:
        return []


def collect_newregs(stmts, acc):
    for s in stmts:
        if s[0] == "newreg":
            acc.add(s[1])
        for b in sa.bodies(s):
            collect_newregs(b, acc)
