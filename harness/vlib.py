"""vlib — shared machinery of every check (see DESIGN.md section 2.3).

A check module harness/checks/<id>.py defines  run(ctx) -> None  and uses:
  ctx.gen(script, out, *args)      run a translator from gen/ (fail-closed)
  ctx.coqc(vfile)                  compile a file of build/<id>/ against the static library
  ctx.props(name, deps)            copy coq/props/<name>.v to build/<id>/, compile, record obligations
  ctx.cases(...)                   evaluate generated case files with vm_compute (correspondence)
  ctx.violation(replay, ...)       record a violation (a replay file is written)
  ctx.finish(...)                  write evidence, print verdict lines, exit

Verdict rules: exit 0 iff no violation that is not listed in known_findings.json.
"""
import fcntl
import json
import os
import random
import re
import shutil
import subprocess
import sys
import time

VERIF = os.path.dirname(os.path.dirname(os.path.abspath(__file__)))
COQ = os.path.join(VERIF, "coq")
GEN = os.path.join(VERIF, "gen")
PY = "/venv/bin/python"

FORBIDDEN = re.compile(
    r"\b(Admitted|admit|Axiom|Axioms|Parameter|Parameters|Conjecture|Conjectures"
    r"|Unset\s+Guard|bypass_check|Admit\s+Obligations|type-in-type|impredicative-set|native_compute)\b"
)
SECTION_ONLY = re.compile(r"^\s*(Hypothesis|Hypotheses|Variable|Variables|Context)\b")


def lint_text(txt):
    """Forbidden constructs in Coq source text (comments stripped).  Variable /
    Hypothesis / Context are allowed only inside a Section."""
    txt = re.sub(r"\(\*.*?\*\)", "", txt, flags=re.S)
    bad = [m.group(0) for m in FORBIDDEN.finditer(txt)]
    depth = 0
    for line in txt.splitlines():
        if re.match(r"^\s*Section\b", line):
            depth += 1
        elif re.match(r"^\s*End\b", line) and depth > 0:
            depth -= 1
        elif depth == 0 and SECTION_ONLY.match(line):
            bad.append(line.strip())
    return bad

TRUSTED_COMMON = [
    "Coq 8.16.1 kernel (coqc; vm_compute reduction; no native_compute)",
    "Print Assumptions output parsed per theorem (recorded under 'assumptions_printed')",
    "CPython 3.12 + ctypes + numpy as the platform of the implementation under test",
    "harness/vlib.py (verdict logic, evidence writer)",
]


# where build/, evidence/ and replays/ go (default: /verif itself; set VERIF_OUT to run a
# check against a modified tree without touching the committed evidence)
OUT = os.environ.get("VERIF_OUT", VERIF)


def repo_path():
    return os.environ.get("VERIF_REPO", "/repo")


class CoqResult:
    def __init__(self, ok, out, err, vfile):
        self.ok, self.out, self.err, self.vfile = ok, out, err, vfile

    def failing_line(self):
        m = re.search(r'File "[^"]*", line (\d+)', self.err)
        return int(m.group(1)) if m else None

    def failing_theorem(self):
        ln = self.failing_line()
        if ln is None:
            return None
        name = None
        try:
            for i, line in enumerate(open(self.vfile), 1):
                if i > ln:
                    break
                m = re.match(r"\s*(Theorem|Lemma|Corollary|Example|Definition|Fact)\s+(\w+)", line)
                if m:
                    name = m.group(2)
        except OSError:
            pass
        return name


class Ctx:
    def __init__(self, pid, tier, seed):
        self.id = pid
        self.tier = tier
        self.seed = seed
        self.repo = repo_path()
        self.build = os.path.join(OUT, "build", pid)
        self.t0 = time.time()
        self.rng = random.Random(seed)
        self.obligations = []  # (name, discharged: bool)
        self.assumptions_printed = {}
        self.violations = []  # dicts
        self.known = []
        self.coverage = {}
        self.samples = []
        self.evaluations = 0
        self.distinct = set()
        self.rule = ""
        self.trusted = list(TRUSTED_COMMON)
        self.assume = []
        self.notes = []
        self.checker_cmds = []
        self.broken = []  # names of theorems / correspondences that no longer check
        if os.path.isdir(self.build):
            shutil.rmtree(self.build)
        os.makedirs(self.build)
        os.makedirs(os.path.join(OUT, "evidence"), exist_ok=True)
        os.makedirs(os.path.join(OUT, "replays", pid), exist_ok=True)

    # ------------------------------------------------------------ helpers
    def log(self, *a):
        print(f"[{self.id} {time.time() - self.t0:6.1f}s]", *a, flush=True)

    def env(self):
        e = dict(os.environ)
        e["PYTHONPATH"] = self.repo + os.pathsep + GEN + os.pathsep + os.path.join(VERIF, "harness")
        e["PYTHONHASHSEED"] = "0"
        e["VERIF_REPO"] = self.repo
        e["NETQASM_VERIF"] = "1"
        return e

    def ensure_lib(self):
        """Full .vo build of the static library (no-op when up to date)."""
        lock = open(os.path.join(VERIF, ".build.lock"), "w")
        fcntl.flock(lock, fcntl.LOCK_EX)
        try:
            r = subprocess.run([os.path.join(VERIF, "bin", "setup")], capture_output=True, text=True)
            if r.returncode != 0:
                print(r.stdout[-3000:], r.stderr[-3000:])
                raise SystemExit("static Coq library does not build")
        finally:
            fcntl.flock(lock, fcntl.LOCK_UN)
        self.lint()

    def lint(self):
        bad = []
        for root, _, files in os.walk(COQ):
            for f in files:
                if f.endswith(".v"):
                    p = os.path.join(root, f)
                    for m in lint_text(open(p).read()):
                        bad.append(f"{p}: {m}")
        cp = open(os.path.join(COQ, "_CoqProject")).read()
        if re.search(r"-vos|-vok|type-in-type|impredicative", cp):
            bad.append("_CoqProject uses a forbidden flag")
        if bad:
            raise SystemExit("lint: forbidden constructs in the Coq development:\n" + "\n".join(bad))

    def gen(self, script, out, *args, timeout=600):
        """Run a translator; returns (ok, stderr)."""
        outp = os.path.join(self.build, out)
        r = subprocess.run(["timeout", str(timeout), PY, os.path.join(GEN, script), self.repo, outp, *args],
                           capture_output=True, text=True, env=self.env(), cwd=self.build)
        if r.returncode != 0:
            self.log(f"translator {script} failed: {r.stderr.strip()[-800:]}")
            return False, r.stderr
        return True, r.stderr

    def coqc(self, vfile, timeout=600):
        path = os.path.join(self.build, vfile)
        # memory cap (a runaway vm_compute, e.g. a huge unary nat, must not take the machine down)
        cmd = ["bash", "-c", "ulimit -v 25000000; exec timeout %d coqc -Q %s NQ -Q %s Gen %s"
               % (timeout, COQ, self.build, path)]
        r = subprocess.run(cmd, capture_output=True, text=True, cwd=self.build)
        self.checker_cmds.append("coqc -Q coq NQ -Q build/%s Gen %s" % (self.id, vfile))
        return CoqResult(r.returncode == 0, r.stdout, r.stderr, path)

    def coqchk(self, name, timeout=1500):
        """Re-check build/<id>/<name>.vo and everything it depends on with the independent
        checker; records the axioms it reports.  Thorough tier only (about a minute)."""
        cmd = ["timeout", str(timeout), "coqchk", "-silent", "-o", "-Q", COQ, "NQ", "-Q", self.build, "Gen", "Gen." + name]
        r = subprocess.run(cmd, capture_output=True, text=True, cwd=self.build)
        self.checker_cmds.append(f"coqchk -silent -o -Q coq NQ -Q build/{self.id} Gen Gen.{name}")
        m = re.search(r"\* Axioms:(.*?)\n\s*\* Constants", r.stdout, flags=re.S)
        axioms = " ".join(m.group(1).split()) if m else "?"
        ok = r.returncode == 0
        self.assumptions_printed.setdefault("coqchk", {})[name] = dict(ok=ok, axioms=axioms)
        self.gen_obligation(f"coqchk accepts Gen.{name} and its dependencies", ok, (r.stdout + r.stderr)[-300:])
        if ok and "<none>" not in axioms:
            self.notes.append(f"coqchk reports axioms for {name}: {axioms}")
        return ok

    def theorem_names(self, path):
        names = []
        for line in open(path):
            m = re.match(r"\s*(Theorem|Corollary|Example)\s+(\w+)", line)
            if m:
                names.append(m.group(2))
        return names

    def props(self, name, src_dir=None):
        """Compile coq/props/<name>.v inside build/<id>/ (so that it sees the
        regenerated Gen_*.v).  Each Theorem/Corollary/Example is an obligation."""
        src = os.path.join(src_dir or os.path.join(COQ, "props"), name + ".v")
        dst = os.path.join(self.build, name + ".v")
        shutil.copy(src, dst)
        m = lint_text(open(dst).read())
        if m:
            raise SystemExit(f"lint: {name}.v contains {m}")
        names = self.theorem_names(dst)
        res = self.coqc(name + ".v")
        if res.ok:
            for n in names:
                self.obligations.append((n, True))
            self._parse_assumptions(res.out)
            if self.tier == "thorough" and os.environ.get("VERIF_NO_COQCHK") != "1":
                self.coqchk(name)
        else:
            bad = res.failing_theorem()
            seen_bad = False
            for n in names:
                if n == bad:
                    seen_bad = True
                # theorems before the failing one were accepted; the failing one and the
                # ones after it are not discharged in this run
                self.obligations.append((n, not seen_bad and bad is not None))
            self.broken.append(f"theorem {bad} in props/{name}.v: " + res.err.strip().replace("\n", " ")[-400:])
            self.log(f"coqc {name}.v FAILED at {bad}: {res.err.strip()[-500:]}")
        return res

    def gen_obligation(self, name, ok, detail=""):
        self.obligations.append((name, bool(ok)))
        if not ok:
            self.broken.append(f"{name}: {detail}")

    def _parse_assumptions(self, out):
        # coqc prints, per Print Assumptions, either "Closed under the global context" or "Axioms:\n name : type ..."
        blocks = re.split(r"(?=Closed under the global context|Axioms:)", out)
        axioms = []
        closed = 0
        for b in blocks:
            if b.startswith("Closed under"):
                closed += 1
            elif b.startswith("Axioms:"):
                for line in b.splitlines()[1:]:
                    # "name : type" on one line, or the name alone with the type on continuation lines
                    m = re.match(r"^([A-Za-z_][\w.']*)\s*(:|$)", line)
                    if m:
                        axioms.append(m.group(1))
        self.assumptions_printed.setdefault("closed", 0)
        self.assumptions_printed["closed"] += closed
        self.assumptions_printed.setdefault("axioms", [])
        for a in axioms:
            if a not in self.assumptions_printed["axioms"]:
                self.assumptions_printed["axioms"].append(a)

    # ------------------------------------------------------------ correspondence via vm_compute
    def run_case_files(self, files, timeout=900, jobs=12):
        """Compile each generated case file (they print 'RESULT <name> <payload>' lines
        through Eval vm_compute / Redirect-free printing).  Returns {file: CoqResult}."""
        from concurrent.futures import ThreadPoolExecutor

        def one(f):
            return f, self.coqc(f, timeout=timeout)

        with ThreadPoolExecutor(max_workers=jobs) as ex:
            return dict(ex.map(one, files))

    # ------------------------------------------------------------ verdict
    def note_case(self, key, nontrivial=True):
        self.evaluations += 1
        if nontrivial:
            self.distinct.add(key)

    def violation(self, what, replay, key=None, found_input=True):
        """replay: JSON-serialisable description (input / history / schedule)."""
        n = len(self.violations)
        if n >= 25:
            # keep counting, stop writing replay files
            self.violations.append(dict(what=what, key=key, path=self.violations[24]["path"], found_input=found_input))
            return
        path = os.path.join(OUT, "replays", self.id, f"{self.tier}_{self.seed}_{n}.json")
        rec = dict(property=self.id, what=what, key=key, found_failing_input=found_input, replay=replay,
                   broken=self.broken, repo=self.repo)
        json.dump(rec, open(path, "w"), indent=1, default=str)
        self.violations.append(dict(what=what, key=key, path=path, found_input=found_input))

    def load_known(self):
        p = os.path.join(VERIF, "known_findings.json")
        entries = []
        if os.path.exists(p):
            entries += json.load(open(p)).get("entries", [])
        fd = os.path.join(VERIF, "findings")  # per-property fragments (merged into known_findings.json by hand)
        if os.path.isdir(fd):
            for f in sorted(os.listdir(fd)):
                if f.endswith(".json"):
                    for e in json.load(open(os.path.join(fd, f))).get("entries", []):
                        if not any(x.get("key") == e.get("key") for x in entries):
                            entries.append(e)
        return [e for e in entries if e.get("property") == self.id]

    def finish(self, level="proof", extra_cov=None):
        known = [e for e in self.load_known() if e.get("kind") == "finding"]
        known_keys = {e["key"] for e in known}
        real = []
        reported_known = set()
        for v in self.violations:
            if v["key"] is not None and v["key"] in known_keys:
                reported_known.add(v["key"])
            else:
                real.append(v)
        # a broken obligation with no concrete violation recorded is itself a violation
        undis = [n for n, ok in self.obligations if not ok]
        if (undis or self.broken) and not real:
            self.violation("obligation no longer checks: " + "; ".join(self.broken or undis),
                           dict(broken=self.broken, undischarged=undis), key=None, found_input=False)
            real.append(self.violations[-1])
        cov = dict(
            obligations=len(self.obligations),
            discharged=sum(1 for _, ok in self.obligations if ok),
            obligation_names=[n for n, _ in self.obligations],
            checker_cmd="; ".join(dict.fromkeys(re.sub(r"cases_\w+\.v", "cases_*.v", c) for c in self.checker_cmds)) or "coqc",
            trusted_base=self.trusted,
            assumptions_printed=self.assumptions_printed,
            evaluations=self.evaluations,
            distinct_nontrivial=len(self.distinct),
            rule=self.rule,
            samples=self.samples[:8] if self.samples else [n for n, _ in self.obligations][:8],
            known_findings_reported=sorted(reported_known),
            notes=self.notes,
        )
        cov.update(self.coverage)
        if extra_cov:
            cov.update(extra_cov)
        ev = dict(property_id=self.id, tier=self.tier, seed=self.seed, level=level, coverage=cov,
                  assumptions=self.assume, wall_s=round(time.time() - self.t0, 2), violations=len(real))
        json.dump(ev, open(os.path.join(OUT, "evidence", self.id + ".json"), "w"), indent=1, default=str)
        for e in known:
            if e["key"] in reported_known:
                print(f"KNOWN-FINDING: property={self.id} {e['what']}")
        for v in real[:5]:
            tail = "" if v["found_input"] else " no-failing-input-found"
            print(f"VIOLATION property={self.id} replay={v['path']}{tail}")
        if len(real) > 5:
            print(f"... and {len(real) - 5} further violations (replays under replays/{self.id}/)")
        self.log(f"obligations {cov['discharged']}/{cov['obligations']}, cases {self.evaluations}, "
                 f"violations {len(real)}, known {len(reported_known)}")
        sys.stdout.flush()
        sys.exit(1 if real else 0)


def main():
    import argparse
    import importlib

    ap = argparse.ArgumentParser()
    ap.add_argument("pid")
    ap.add_argument("--tier", default=os.environ.get("VERIF_TIER", "quick"))
    ap.add_argument("--replay", default=None)
    a = ap.parse_args()
    seed = int(os.environ.get("VERIF_SEED", "20260925"))
    ctx = Ctx(a.pid, a.tier, seed)
    sys.path.insert(0, ctx.repo)
    sys.path.insert(1, GEN)
    sys.path.insert(1, os.path.join(VERIF, "harness"))
    os.environ["NETQASM_VERIF"] = "1"
    ctx.ensure_lib()
    mod = importlib.import_module("checks." + a.pid.lower())
    try:
        if a.replay:
            mod.replay(ctx, a.replay)
        else:
            mod.run(ctx)
    except SystemExit:
        raise
    except BaseException as e:  # noqa: a harness crash must not swallow what was found so far
        import traceback
        tb = traceback.format_exc()
        print(tb[-2000:])
        ctx.broken.append(f"harness crashed while checking (the implementation behaved in a way the harness "
                          f"cannot canonicalise): {type(e).__name__}: {str(e)[:300]}")
        ctx.finish()


if __name__ == "__main__":
    main()
