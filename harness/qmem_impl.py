"""C13 harness: drives the REAL Executor / QNodeController through the message-level
lifecycle (handle_netqasm_message with InitNewApp / Subroutine / StopApp messages, a
scripted link layer for keep responses), observes the executor's own maps after every
operation, runs the property oracle on them, and emits the observations as Coq terms
for Exec/QmemCheck.v.

Nothing of netqasm is re-implemented here: the only overrides are the documented
extension points (node_id, _do_wait, _wait_to_handle_epr_responses, abstract methods of
QNodeController / BaseNetworkStack)."""
import copy

from coqemit import z, lst, nat

NODE_NAMES = {0: "Alice", 1: "Bob"}
BANKS = "RCQM"
EXC_CLASS = {"KeyError": 0, "ValueError": 1, "IndexError": 2, "RuntimeError": 3, "AssertionError": 4}


GATE = "harness-gate-marker"
YIELD_REG = (2, 15)          # Q15: operand of the gate used as yield point


class Deferred(Exception):
    """raised by the harness's _do_wait when the scripted response was delivered and the
    awaited array is still undefined: the executor deferred the response"""


def load(repo):
    """import the live modules (sys.path[0] is ctx.repo)"""
    import importlib
    m = {}
    for name in ["netqasm.backend.executor", "netqasm.backend.qnodeos", "netqasm.backend.network_stack",
                 "netqasm.backend.messages", "netqasm.lang.parsing", "netqasm.sdk.shared_memory",
                 "netqasm.qlink_compat", "netqasm.lang.encoding"]:
        m[name.split(".")[-1]] = importlib.import_module(name)
    import logging
    logging.getLogger().setLevel(logging.CRITICAL)
    return m


def make_classes(m):
    Executor = m["executor"].Executor
    QNodeController = m["qnodeos"].QNodeController
    BaseNetworkStack = m["network_stack"].BaseNetworkStack

    class Stack(BaseNetworkStack):
        def __init__(self):
            self.requests = []

        def put(self, request):
            self.requests.append(request)

        def setup_epr_socket(self, epr_socket_id, remote_node_id, remote_epr_socket_id, timeout=1.0):
            pass

        def get_purpose_id(self, remote_node_id, epr_socket_id):
            return epr_socket_id

    class Ex(Executor):
        _nid = 0
        script = None

        @property
        def node_id(self):
            return self._nid

        def _wait_to_handle_epr_responses(self):
            # yield point of the back end (the base class recurses forever)
            pass

        def _do_single_qubit_instr(self, instr, subroutine_id, address):
            # yield point inside a gate: the subroutine is suspended here while the harness
            # runs other subroutines (back ends yield to their event loop in gates)
            yield GATE

        def _do_wait(self):
            if self.script:
                self._handle_epr_response(self.script.pop(0))
            else:
                raise Deferred("deferred")
            yield None

    class Ctrl(QNodeController):
        @classmethod
        def _get_executor_class(cls, flavour=None):
            return Ex

        def stop(self):
            pass

        def _mark_message_finished(self, msg_id, msg):
            pass

    return Stack, Ex, Ctrl


def reg_txt(r):
    return f"{BANKS[r[0]]}{r[1]}"


def op_pid(op):
    return None if op[0] in ("Reserve", "ResetMem") else (op[1], op[2])


class World:
    """one or two controllers sharing the process-global SharedMemoryManager"""

    def __init__(self, m, classes):
        self.m = m
        self.Stack, self.Ex, self.Ctrl = classes
        m["shared_memory"].SharedMemoryManager.reset_memories()
        self.ctrls = {}
        self.reserved = set()       # harness's own record: (nd, p) handed out by Reserve, not delivered yet
        self._reserved_before = set()
        self.registered = set()     # harness's own record of the lifecycle: (nd, app) currently registered
        self.msg_id = 0
        self.live = {}              # label -> dict(gen, nd, app, blocks, next): suspended interleaved subroutines
        self.recent_free = {}       # nd -> physical ids released lately (generation bias only)
        self.last_model_ops = []
        self.anomalies = []
        self._all_regs = None
        self.expected_reg = set()   # (nd, app) whose shared memory the manager should hold
        self.stopping = {}          # (nd, app) -> its physical qubits when the stepped stop began

    def ctrl(self, nd):
        if nd not in self.ctrls:
            c = self.Ctrl(NODE_NAMES[nd])
            c.network_stack = self.Stack()
            c._executor._nid = nd
            self.ctrls[nd] = c
        return self.ctrls[nd]

    # ------------------------------------------------------------------ driving
    def _send(self, nd, msg):
        self.msg_id += 1
        list(self.ctrl(nd).handle_netqasm_message(self.msg_id, msg))

    def _sub(self, nd, app, body):
        sub = self.m["parsing"].parse_text_subroutine(f"# NETQASM 1.0\n# APPID {app}\n" + body)
        self._send(nd, self.m["messages"].SubroutineMessage(sub))

    @staticmethod
    def block_text(op):
        kind = op[0]
        if kind == "QAlloc":
            return f"set Q0 {op[3]}\nqalloc Q0\n"
        if kind == "QFree":
            return f"set Q0 {op[3]}\nqfree Q0\n"
        if kind == "SetReg":
            return f"set {reg_txt(op[3])} {op[4]}\n"
        if kind == "NewArr":
            return f"set R0 {op[4]}\narray R0 @{op[3]}\n"
        if kind == "Store":
            return f"set R0 {op[5]}\nset R1 {op[4]}\nstore R0 @{op[3]}[R1]\n"
        if kind == "RetReg":
            return f"ret_reg {reg_txt(op[3])}\n"
        if kind == "RetArr":
            return f"ret_arr @{op[3]}\n"
        raise AssertionError(kind)

    def _note_free(self, nd, before_used):
        ex = self.ctrl(nd)._executor
        gone = [p for p in before_used if p not in ex._used_physical_qubit_addresses]
        if gone:
            self.recent_free.setdefault(nd, [])
            self.recent_free[nd] = (self.recent_free[nd] + gone)[-4:]

    def _advance(self, label):
        """run the suspended subroutine to its next yield point (inside a gate) or to its end"""
        sub = self.live[label]
        if sub.get("stop"):
            # a StopAppMessage handled step by step: one resumption = up to the next yield of
            # stop_application (the base _clear_phys_qubit_in_memory yields once per released qubit)
            self.last_model_ops = [("XStopBegin" if sub.pop("fresh", False) else "XStopStep", sub["nd"], sub["app"])]
            try:
                next(sub["gen"])
            except StopIteration:
                del self.live[label]
                self.stopping.pop((sub["nd"], sub["app"]), None)
            except BaseException:
                del self.live[label]
                self.stopping.pop((sub["nd"], sub["app"]), None)
                raise
            return
        j = sub["next"]
        blocks = sub["blocks"]
        setq = ("SetReg", sub["nd"], sub["app"], YIELD_REG, 0)
        sub["next"] = j + 1
        if j >= len(blocks):
            # the program has len(blocks) - 1 gates: it cannot be suspended a len(blocks)-th time
            self.last_model_ops = []
            self.anomalies.append(f"subroutine {label} of application {(sub['nd'], sub['app'])} with {len(blocks)} blocks "
                                  f"was still suspended after {j} resumptions: it is not executing its own program")
            blocks = blocks + [None] * (j + 1)
        else:
            self.last_model_ops = [blocks[j]] + ([setq] if j < len(blocks) - 1 else [])
        try:
            while True:
                if next(sub["gen"]) == GATE:
                    return
        except StopIteration:
            del self.live[label]
        except BaseException:
            del self.live[label]
            self.last_model_ops = [blocks[j]] if blocks[j] is not None else []
            raise

    def apply(self, op):
        """returns outcome code: 0 done, 1 deferred, 10+class fault.  For Start / Step the model
        operations that ran between the two yield points are left in self.last_model_ops."""
        self._reserved_before = set(self.reserved)
        M = self.m["messages"]
        kind = op[0]
        ex = self.ctrl(op[1])._executor
        used_before = set(ex._used_physical_qubit_addresses)
        self.last_model_ops = [op]
        try:
            if kind == "Init":
                self._send(op[1], M.InitNewAppMessage(op[2], op[3]))
            elif kind == "Stop":
                self._send(op[1], M.StopAppMessage(op[2]))
            elif kind in ("QAlloc", "QFree", "SetReg", "NewArr", "Store", "RetReg", "RetArr"):
                self._sub(op[1], op[2], self.block_text(op))
            elif kind == "Start":
                _, nd, app, label, blocks = op
                text = ""
                for i, b in enumerate(blocks):
                    text += self.block_text(b)
                    if i < len(blocks) - 1:
                        text += f"set {reg_txt(YIELD_REG)} 0\nh {reg_txt(YIELD_REG)}\n"
                sub = self.m["parsing"].parse_text_subroutine(f"# NETQASM 1.0\n# APPID {app}\n" + text)
                self.msg_id += 1
                g = self.ctrl(nd).handle_netqasm_message(self.msg_id, M.SubroutineMessage(sub))
                self.live[label] = dict(gen=g, nd=nd, app=app, blocks=list(blocks), next=0)
                self._advance(label)
            elif kind == "StopStart":
                _, nd, app, label = op
                um = ex._qubit_unit_modules.get(app)
                self.msg_id += 1
                g = self.ctrl(nd).handle_netqasm_message(self.msg_id, M.StopAppMessage(app))
                self.live[label] = dict(gen=g, nd=nd, app=app, stop=True, fresh=True)
                if um is not None:
                    self.stopping[(nd, app)] = {(nd, p) for p in um if p is not None}
                    self.registered.discard((nd, app))
                    self.expected_reg.discard((nd, app))
                self._advance(label)
            elif kind == "ResetMem":
                self.m["shared_memory"].SharedMemoryManager.reset_memories()
                self.expected_reg = set()
            elif kind == "Step":
                self._advance(op[3])
            elif kind == "Reserve":
                p = ex._get_unused_physical_qubit()
                self.reserved.add((op[1], p))
            elif kind == "Keep":
                _, nd, app, v, qa, ra, info = op
                Q = self.m["qlink_compat"]
                assert info[0] == Q.ReturnType.OK_K.value and len(info) == 10
                resp = Q.LinkLayerOKTypeK(Q.ReturnType.OK_K, info[1], info[2], info[3], info[4], info[5], info[6],
                                          info[7], info[8], Q.BellState(info[9]))
                assert info[3] == 1  # we are the receiver
                ex.script = [resp]
                remote, sock = info[6], info[5]
                delivered = False
                deferred = False
                try:
                    self._sub(nd, app,
                              f"set R0 1\narray R0 @{qa}\nset R0 {v}\nset R4 0\nstore R0 @{qa}[R4]\nset R0 10\narray R0 @{ra}\n"
                              f"set R0 {remote}\nset R1 {sock}\nset R2 {qa}\nset R3 {ra}\n"
                              f"recv_epr R0 R1 R2 R3\nset R4 0\nset R5 10\nwait_all @{ra}[R4:R5]\n")
                    delivered = True
                    self.reserved.discard((nd, info[2]))
                except Deferred:
                    deferred = True
                    raise
                finally:
                    # C13 does not model outstanding requests (C12 does): the undelivered
                    # response and its request are withdrawn by the harness
                    ex.script = None
                    pending = list(ex._pending_epr_responses)
                    ex._pending_epr_responses.clear()
                    ex._epr_recv_requests.clear()
                    ex._epr_create_requests.clear()
                    if not delivered and not deferred and pending and info[2] in ex._used_physical_qubit_addresses \
                            and not any(info[2] in um for um in ex._qubit_unit_modules.values()):
                        # a mapping attempt that FAULTED marked the qubit in use, not mapped: the response
                        # stays pending, the qubit is still in flight.  (A merely deferred response must not
                        # have marked anything: the oracle sees such a mark as in-use != mapped.)
                        self.reserved.add((nd, info[2]))
            else:
                raise AssertionError(kind)
        except Deferred:
            return 1
        except Exception as e:  # noqa
            self._note_free(op[1], used_before)
            return 10 + EXC_CLASS.get(type(e).__name__, 9)
        self._note_free(op[1], used_before)
        if kind == "Init":
            self.registered.add((op[1], op[2]))
            self.expected_reg.add((op[1], op[2]))
        elif kind == "Stop":
            self.registered.discard((op[1], op[2]))
            self.expected_reg.discard((op[1], op[2]))
        return 0

    # ------------------------------------------------------------------ observing
    def _regs_effective(self, ex, app):
        """the registers as the application's subroutines see them: through Executor._get_register
        (not by reading _registers: an implementation may keep them elsewhere)"""
        if self._all_regs is None:
            Register = self.m["executor"].operand.Register
            RegisterName = self.m["encoding"].RegisterName
            self._all_regs = [(name.value, i, Register(name, i)) for name in RegisterName for i in range(16)]
        out = {}
        for bank, i, reg in self._all_regs:
            try:
                v = ex._get_register(app, reg)
            except KeyError:
                return {}
            if v is not None:
                out[(bank, i)] = v
        return out

    @staticmethod
    def _regs(groups):
        out = {}
        for name, grp in groups.items():
            for idx, val in grp._register.items():
                if val is not None:
                    out[(name.value, idx)] = val
        return out

    def observe(self):
        apps = {}
        used = set()
        keysets = {}
        for nd, c in self.ctrls.items():
            ex = c._executor
            ks = dict(um=set(ex._qubit_unit_modules), regs=set(ex._registers), arrs=set(ex._app_arrays),
                      shm=set(ex._shared_memories), active=set(c._active_app_ids))
            keysets[nd] = ks
            for app in sorted(set().union(*ks.values())):
                um = list(ex._qubit_unit_modules.get(app, []))
                regs = self._regs_effective(ex, app) if app in ex._registers else {}
                arrs = {a: list(l) for a, l in ex._app_arrays[app]._arrays.items()} if app in ex._app_arrays else {}
                if app in ex._shared_memories:
                    sh = ex._shared_memories[app]
                    shr = self._regs(sh._registers)
                    sha = {a: list(l) for a, l in sh._arrays._arrays.items()}
                else:
                    shr, sha = {}, {}
                apps[(nd, app)] = dict(um=um, regs=regs, arrs=arrs, shr=shr, sha=sha)
            for p in ex._used_physical_qubit_addresses:
                used.add((nd, p))
        image = [(k[0], p) for k, a in apps.items() for p in a["um"] if p is not None]
        names = {v: k for k, v in NODE_NAMES.items()}
        shreg = sorted((names.get(n, -1), -1 if a is None else a)
                       for (n, a), mem in self.m["shared_memory"].SharedMemoryManager._MEMORIES.items()
                       if mem is not None)
        return dict(apps=apps, used=sorted(used), image=image, resv=sorted(used - set(image)), shreg=shreg,
                    keysets=keysets)

    # ------------------------------------------------------------------ the property, checked directly
    def oracle(self, before, op, out, after, contract_ok=True):
        """before/after: observe() results around op.  Returns a list of failure strings."""
        bad = list(self.anomalies)
        self.anomalies = []
        img = after["image"]
        if len(img) != len(set(img)):
            dup = sorted(x for x in set(img) if img.count(x) > 1)
            bad.append(f"two allocated virtual qubits map to the same physical qubit {dup}")
        releasing = set().union(*self.stopping.values()) if self.stopping else set()
        if contract_ok:
            extra = set(after["used"]) - set(img) - self.reserved
            missing = (set(img) | self.reserved) - set(after["used"])
            # while a stop is suspended at a yield its not yet released qubits are still marked
            if missing or not extra <= releasing:
                bad.append(f"marked in use {after['used']} != mapped {sorted(set(img))} + reserved in flight "
                           f"{sorted(self.reserved)}" + (f" (+ being released {sorted(releasing)})" if releasing else ""))
        for nd, ks in after["keysets"].items():
            halted = {a for (n, a) in self.stopping if n == nd}      # stop in progress: partly cleared by design
            sets = [ks[x] - halted for x in ("um", "regs", "arrs", "shm", "active")]
            if not all(x == sets[0] for x in sets):
                bad.append(f"per-application state of node {nd} is not keyed consistently: "
                           + str({k: sorted(v) for k, v in ks.items()}))
            reg = {a for (n, a) in after["shreg"] if n == nd} - halted
            exp = {a for (n, a) in self.expected_reg if n == nd}
            if reg != exp:
                bad.append(f"shared memories held by the manager for node {nd} {sorted(reg)} != those of the applications "
                           f"registered since the last reset {sorted(exp)}")
            if {(nd, a) for a in ks["um"]} != {k for k in self.registered if k[0] == nd}:
                bad.append(f"registered applications of node {nd} {sorted(ks['um'])} != lifecycle "
                           f"{sorted(k[1] for k in self.registered if k[0] == nd)}")
        # isolation: every other application's projection is unchanged
        me = op_pid(op)
        for k, a in before["apps"].items():
            if k != me and after["apps"].get(k) != a:
                bad.append(f"operation {op[0]} of {me} changed application {k}: {a} -> {after['apps'].get(k)}")
        for k in after["apps"]:
            if k != me and k not in before["apps"]:
                bad.append(f"operation {op[0]} of {me} created application {k}")
        nd = op[1]
        if [x for x in before["used"] if x[0] != nd] != [x for x in after["used"] if x[0] != nd]:
            bad.append(f"operation on node {nd} changed the in-use set of another node")
        # lifecycle
        if op[0] == "Init" and me in before["apps"] and (out == 0 or after["apps"].get(me) != before["apps"][me]):
            bad.append(f"registering application id {me} that IS registered was accepted or changed its state "
                       f"(outcome {out}): {before['apps'][me]} -> {after['apps'].get(me)}")
        if op[0] == "Init" and me not in before["apps"] and out == 0:
            a = after["apps"].get(me, {})
            stale = {k: v for k, v in a.items() if k != "um" and v}
            if stale or any(p is not None for p in a.get("um", [])):
                bad.append(f"application {me} registered (again) does not start with fresh memory: it sees {stale or a.get('um')} "
                           "(state of a stopped application with that id was not released)")
        if op[0] == "Keep" and contract_ok and me in before["apps"] and me not in self.stopping:
            _, nd_, app_, v, qa, ra, info = op
            um0 = before["apps"][me]["um"]
            legal_p = (nd_, info[2]) in self._reserved_before or (nd_, info[2]) not in before["used"]
            if 0 <= v < len(um0) and um0[v] is None and legal_p and qa != ra:
                um1 = after["apps"].get(me, {}).get("um", [])
                if out != 0 or um1[v:v + 1] != [info[2]]:
                    bad.append(f"entanglement delivery of physical qubit {info[2]} (reserved from the pool / not in use) to the "
                               f"unallocated virtual qubit {v} of {me} was not carried out (outcome {out}, unit module {um1})")
        if op[0] == "Init" and me not in before["apps"] and out != 0:
            bad.append(f"registering application id {me} that is not registered failed (outcome {out})")
        if op[0] == "Stop" and me in before["apps"]:
            if out != 0:
                bad.append(f"stopping registered application {me} failed (outcome {out})")
            mine = {(me[0], p) for p in before["apps"][me]["um"] if p is not None}
            if mine & set(after["used"]):
                bad.append(f"stop of {me} left its physical qubits {sorted(mine & set(after['used']))} marked in use")
            if me in after["apps"] or me in after["shreg"]:
                bad.append(f"stop of {me} left state behind")
        return bad


# ---------------------------------------------------------------------- Coq emission
def coq_opt(v):
    return "None" if v is None else f"(Some {z(v)})"


def coq_arr(l):
    return lst(coq_opt(v) for v in l)


def coq_pair(p):
    return f"({z(p[0])}, {z(p[1])})"


def coq_regs(d):
    return lst(f"({coq_pair(k)}, {z(v)})" for k, v in sorted(d.items()))


def coq_arrs(d):
    return lst(f"({z(k)}, {coq_arr(v)})" for k, v in sorted(d.items()))


def coq_obs(out, ob):
    if ob is None:
        return "(mkObs (-1) [] [] [] [])"
    apps = lst(f"({coq_pair(k)}, ({coq_arr(a['um'])}, {coq_regs(a['regs'])}, {coq_arrs(a['arrs'])}, "
               f"({coq_regs(a['shr'])}, {coq_arrs(a['sha'])})))" for k, a in sorted(ob["apps"].items()))
    return (f"(mkObs {z(out)} {apps} {lst(coq_pair(p) for p in ob['used'])} "
            f"{lst(coq_pair(p) for p in ob['resv'])} {lst(coq_pair(p) for p in ob['shreg'])})")


def coq_op(op):
    k = op[0]
    if k == "XStopBegin":
        return f"(XStopBegin {z(op[1])} {z(op[2])})"
    if k == "XStopStep":
        return f"(XStopStep {z(op[1])} {z(op[2])})"
    return "(XOp " + coq_plain_op(op) + ")"


def coq_plain_op(op):
    k = op[0]
    if k == "Init":
        return f"(Init {z(op[1])} {z(op[2])} {nat(op[3])})"
    if k in ("Stop",):
        return f"(Stop {z(op[1])} {z(op[2])})"
    if k in ("QAlloc", "QFree"):
        return f"({k} {z(op[1])} {z(op[2])} {z(op[3])})"
    if k == "SetReg":
        return f"(SetReg {z(op[1])} {z(op[2])} {coq_pair(op[3])} {z(op[4])})"
    if k == "NewArr":
        return f"(NewArr {z(op[1])} {z(op[2])} {z(op[3])} {z(op[4])})"
    if k == "Store":
        return f"(Store {z(op[1])} {z(op[2])} {z(op[3])} {nat(op[4])} {z(op[5])})"
    if k == "RetReg":
        return f"(RetReg {z(op[1])} {z(op[2])} {coq_pair(op[3])})"
    if k == "RetArr":
        return f"(RetArr {z(op[1])} {z(op[2])} {z(op[3])})"
    if k == "Reserve":
        return f"(Reserve {z(op[1])})"
    if k == "ResetMem":
        return "ResetMem"
    if k == "Keep":
        return f"(Keep {z(op[1])} {z(op[2])} {z(op[3])} {z(op[4])} {z(op[5])} {lst(z(x) for x in op[6])})"
    raise AssertionError(op)


CASE_HEADER = """From Coq Require Import ZArith List.
From NQ Require Import Exec.Qmem Exec.QmemStop Exec.QmemCheck.
Import ListNotations.
Open Scope Z_scope.
"""


def coq_tree(node):
    """node = dict(id, op, out, obs, kids)"""
    return (f"(T {z(node['id'])} {coq_op(node['op'])} {coq_obs(node['out'], node['obs'])}\n "
            f"{lst((coq_tree(k) for k in node['kids']), sep=';')})")


def write_case_file(path, trees):
    with open(path, "w") as f:
        f.write(CASE_HEADER)
        f.write("Definition cases : list tcase :=\n [" + ";\n  ".join(coq_tree(t) for t in trees) + "].\n")
        f.write("Eval vm_compute in (failing cases).\n")


def parse_failing(out):
    import re
    parts = re.findall(r"=\s*(\[[^\]]*\]|nil)\s*:\s*list Z", out.replace("\n", " "))
    return [[int(x) for x in re.findall(r"-?\d+", p)] for p in parts]


def snapshot(ob):
    return copy.deepcopy(ob)
