"""sdk_pipeline — the in-process SDK -> controller pipeline (DESIGN.md 2.1).

Real builder -> real assembler -> real bytes(Subroutine) -> real deserialize ->
real Executor.  Nothing of netqasm is re-implemented here: the classes below only
fill in the repository's documented extension points.

    pipe = Pipeline(repo)                       # generic hardware, vanilla flavour, 5 qubits
    pipe = Pipeline(repo, hardware="nv", max_qubits=3)   # NV config + NV transpiler + NV flavour
    with pipe.connection() as conn:             # a real BaseNetQASMConnection subclass
        q = Qubit(conn); q.H(); m = q.measure(); conn.flush(); int(m)
    pipe.gate_trace()         -> [(mnemonic, (virtual ids...), (immediates...)), ...]
    pipe.unit_module(app_id)  -> controller's virtual->physical list
    pipe.subroutines          -> every Subroutine the controller executed (deserialized)
    pipe.requests             -> link-layer requests put() on the scripted stack

Executors:
    RecExecutor  records gates after checking every operand is allocated; measurement
                 outcomes come from pipe.meas_script (list, default 0s).
    SvExecutor   additionally keeps a dense numpy state vector (see class doc).
EPR: pipe.responses is a list of link-layer response objects (or callables
    executor -> response) delivered one per wait-poll at the `_do_wait` hook.
"""
import sys
from types import GeneratorType

import numpy as np


def _imports(repo):
    if sys.path[0] != repo:
        sys.path.insert(0, repo)
    import netqasm  # noqa

    assert netqasm.__file__.startswith(repo), (netqasm.__file__, repo)


class WaitDeadlock(RuntimeError):
    """a wait instruction polls but the script has no response left to deliver"""


def make_classes(repo):
    _imports(repo)
    from netqasm.backend.executor import Executor
    from netqasm.backend.messages import deserialize_host_msg
    from netqasm.backend.network_stack import BaseNetworkStack
    from netqasm.backend.qnodeos import QNodeController
    from netqasm.sdk.connection import BaseNetQASMConnection, DebugConnection, DebugNetworkInfo

    class ScriptStack(BaseNetworkStack):
        def __init__(self, pipe):
            self.pipe = pipe

        def put(self, request):
            self.pipe.requests.append(request)

        def setup_epr_socket(self, epr_socket_id, remote_node_id, remote_epr_socket_id, timeout=1.0):
            self.pipe.sockets.append((epr_socket_id, remote_node_id, remote_epr_socket_id))
            return None

        def get_purpose_id(self, remote_node_id, epr_socket_id):
            return epr_socket_id

    class RecExecutor(Executor):
        pipe = None  # set per instance by the controller

        @property
        def node_id(self):
            return self.pipe.node_id

        # ---- gates
        def _chk(self, subroutine_id, address):
            return self._get_position(subroutine_id=subroutine_id, address=address)

        def _do_single_qubit_instr(self, instr, subroutine_id, address):
            self._chk(subroutine_id, address)
            self.pipe.trace.append((instr.mnemonic, (address,), ()))
            self.on_gate(instr, subroutine_id, (address,), None)

        def _do_single_qubit_rotation(self, instr, subroutine_id, address, angle):
            self._chk(subroutine_id, address)
            self.pipe.trace.append((instr.mnemonic, (address,), (instr.angle_num.value, instr.angle_denom.value)))
            self.on_gate(instr, subroutine_id, (address,), (instr.angle_num.value, instr.angle_denom.value))

        def _do_controlled_qubit_rotation(self, instr, subroutine_id, address1, address2, angle):
            self._chk(subroutine_id, address1)
            self._chk(subroutine_id, address2)
            self.pipe.trace.append((instr.mnemonic, (address1, address2),
                                    (instr.angle_num.value, instr.angle_denom.value)))
            self.on_gate(instr, subroutine_id, (address1, address2),
                         (instr.angle_num.value, instr.angle_denom.value))

        def _do_two_qubit_instr(self, instr, subroutine_id, address1, address2):
            self._chk(subroutine_id, address1)
            self._chk(subroutine_id, address2)
            self.pipe.trace.append((instr.mnemonic, (address1, address2), ()))
            self.on_gate(instr, subroutine_id, (address1, address2), None)

        def _do_meas(self, subroutine_id, q_address):
            self._chk(subroutine_id, q_address)
            forced = self.pipe.meas_script.pop(0) if self.pipe.meas_script else None
            outcome = self.on_meas(subroutine_id, q_address, forced)
            self.pipe.trace.append(("meas", (q_address,), (outcome,)))
            return outcome

        # hooks for subclasses
        def on_gate(self, instr, subroutine_id, addresses, nd):
            pass

        def on_meas(self, subroutine_id, q_address, forced):
            return 0 if forced is None else forced

        # ---- EPR environment
        def _wait_to_handle_epr_responses(self):
            # yield point of the environment contract (the base class recurses forever)
            return None

        def _do_wait(self):
            n_before = len(self._pending_epr_responses)
            self._handle_pending_epr_responses()
            if len(self._pending_epr_responses) < n_before:
                return None  # a deferred response became handleable: let the wait re-check
            if not self.pipe.responses:
                if self._pending_epr_responses:
                    raise WaitDeadlock("wait polls, responses pending but not handleable, script empty")
                raise WaitDeadlock("wait polls but no scripted response is left")
            resp = self.pipe.responses.pop(0)
            if callable(resp):
                resp = resp(self)
            self.on_response(resp)
            self._handle_epr_response(resp)
            return None

        def on_response(self, resp):
            pass

    class SvExecutor(RecExecutor):
        """Dense state vector over the qubits touched so far.  A qubit is keyed by
        (app_id, virtual address); `init` (re)sets it to |0>; gates use matrices
        written here from the mnemonics' definitions (NOT instr.to_matrix());
        measurement projects (outcome forced by the script if given and possible,
        else sampled from pipe.rng); qfree drops the qubit (it must be in a product
        state, which holds after a measurement).  EPR halves: `pipe.bell_pairs`
        maps a delivered K response's sequence number to the remote partner key
        ('remote', seq); the pair is created in the Bell state named by the response."""

        def __init__(self, *a, **k):
            super().__init__(*a, **k)
            self.keys = []  # position -> key
            self.psi = np.array([1.0 + 0j])

        # -- state vector primitives (qubit 0 = most significant)
        def _ensure(self, key):
            if key not in self.keys:
                self.keys.append(key)
                self.psi = np.kron(self.psi, np.array([1.0 + 0j, 0.0]))
            return self.keys.index(key)

        def _apply(self, mat, poss):
            n = len(self.keys)
            k = len(poss)
            psi = self.psi.reshape([2] * n)
            psi = np.moveaxis(psi, poss, list(range(k)))
            shp = psi.shape
            psi = (mat @ psi.reshape(2 ** k, -1)).reshape(shp)
            psi = np.moveaxis(psi, list(range(k)), poss)
            self.psi = psi.reshape(-1)

        def _project(self, pos, forced):
            n = len(self.keys)
            psi = np.moveaxis(self.psi.reshape([2] * n), pos, 0).reshape(2, -1)
            p1 = float(np.sum(np.abs(psi[1]) ** 2))
            if forced is not None and ((forced == 1 and p1 > 1e-12) or (forced == 0 and p1 < 1 - 1e-12)):
                out = forced
            else:
                out = 1 if self.pipe.rng.random() < p1 else 0
            keep = psi[out] / np.sqrt(p1 if out else 1 - p1)
            new = np.zeros_like(psi)
            new[out] = keep
            self.psi = np.moveaxis(new.reshape([2] * n), 0, pos).reshape(-1)
            return out

        def _drop(self, key):
            if key not in self.keys:
                return
            pos = self.keys.index(key)
            n = len(self.keys)
            psi = np.moveaxis(self.psi.reshape([2] * n), pos, 0).reshape(2, -1)
            n0, n1 = np.linalg.norm(psi[0]), np.linalg.norm(psi[1])
            # product-state check is the caller's business; keep the dominant branch
            rest = psi[0] / n0 if n0 >= n1 else psi[1] / n1
            self.keys.pop(pos)
            self.psi = rest.reshape(-1)

        def key(self, subroutine_id, address):
            return (self._get_app_id(subroutine_id), address)

        def on_gate(self, instr, subroutine_id, addresses, nd):
            mn = instr.mnemonic
            ks = [self.key(subroutine_id, a) for a in addresses]
            if mn == "init":
                pos = self._ensure(ks[0])
                out = self._project(pos, 0)
                if out == 1:
                    self._apply(GATES["x"], [pos])
                return
            poss = [self._ensure(k) for k in ks]
            if mn in GATES:
                self._apply(GATES[mn], poss)
            elif mn in ("rot_x", "rot_y", "rot_z"):
                self._apply(rot(mn[-1], nd[0], nd[1]), poss)
            elif mn in ("crot_x", "crot_y"):
                r = rot(mn[-1], nd[0], nd[1])
                rm = rot(mn[-1], -nd[0], nd[1])
                z = np.zeros((2, 2))
                self._apply(np.block([[r, z], [z, rm]]), poss)
            else:
                raise RuntimeError(f"SvExecutor: no operator for mnemonic {mn}")

        def on_meas(self, subroutine_id, q_address, forced):
            pos = self._ensure(self.key(subroutine_id, q_address))
            return self._project(pos, forced)

        def _clear_phys_qubit_in_memory(self, physical_address):
            yield None

        def _instr_qfree(self, subroutine_id, instr):
            app_id = self._get_app_id(subroutine_id)
            addr = self._get_register(app_id=app_id, register=instr.reg)
            out = super()._instr_qfree(subroutine_id, instr)
            if isinstance(out, GeneratorType):
                yield from out
            self._drop((app_id, addr))

        def on_response(self, resp):
            self._last_resp = resp

        def _handle_epr_ok_k_response(self, epr_cmd_data, response, pair_index):
            ok = super()._handle_epr_ok_k_response(epr_cmd_data, response, pair_index)
            if ok:
                app_id = self._get_app_id(epr_cmd_data.subroutine_id)
                v = self._get_virtual_address_from_epr_data(epr_cmd_data, pair_index, app_id)
                lk, rk = (app_id, v), ("remote", len(self.pipe.bell_pairs))
                self.pipe.bell_pairs.append((lk, rk, response.bell_state))
                self._drop(lk)
                self.keys += [lk, rk]
                self.psi = np.kron(self.psi, bell_vector(response.bell_state))
            return ok

        def state_of(self, keys):
            """state vector reordered so that `keys` come first (others must be absent)"""
            assert sorted(map(str, keys)) == sorted(map(str, self.keys)), (keys, self.keys)
            n = len(self.keys)
            perm = [self.keys.index(k) for k in keys]
            return np.transpose(self.psi.reshape([2] * n), perm).reshape(-1)

    class HarnessController(QNodeController):
        executor_class = RecExecutor

        def __init__(self, pipe, name, flavour):
            self._pipe = pipe
            super().__init__(name=name, flavour=flavour)
            self._executor.pipe = pipe
            self._executor.network_stack = ScriptStack(pipe)

        @classmethod
        def _get_executor_class(cls, flavour=None):
            return cls.executor_class

        def stop(self):
            pass

        def _mark_message_finished(self, msg_id, msg):
            pass

        def _handle_subroutine(self, msg):
            from netqasm.lang.parsing import deserialize

            sub = deserialize(msg.subroutine, flavour=self.flavour)
            self._pipe.subroutines.append(sub)
            yield from self._execute_subroutine(subroutine=sub)

    class HarnessConnection(BaseNetQASMConnection):
        def __init__(self, pipe, *args, **kwargs):
            self._pipe = pipe
            self._msg_id = 0
            super().__init__(*args, **kwargs)

        def _get_network_info(self):
            return DebugNetworkInfo

        def _commit_serialized_message(self, raw_msg, block=True, callback=None):
            self._pipe.raw_messages.append(bytes(raw_msg))
            msg = deserialize_host_msg(raw_msg)
            self._msg_id += 1
            list(self._pipe.ctrl.handle_netqasm_message(self._msg_id, msg))

    return dict(ScriptStack=ScriptStack, RecExecutor=RecExecutor, SvExecutor=SvExecutor,
                HarnessController=HarnessController, HarnessConnection=HarnessConnection,
                DebugConnection=DebugConnection)


# ---- operators from the mnemonics' definitions
_S2 = 1 / np.sqrt(2)
GATES = {
    "x": np.array([[0, 1], [1, 0]], dtype=complex),
    "y": np.array([[0, -1j], [1j, 0]], dtype=complex),
    "z": np.array([[1, 0], [0, -1]], dtype=complex),
    "h": _S2 * np.array([[1, 1], [1, -1]], dtype=complex),
    "k": _S2 * np.array([[1, -1j], [1j, -1]], dtype=complex),
    "s": np.array([[1, 0], [0, 1j]], dtype=complex),
    "t": np.array([[1, 0], [0, np.exp(1j * np.pi / 4)]], dtype=complex),
    "cnot": np.array([[1, 0, 0, 0], [0, 1, 0, 0], [0, 0, 0, 1], [0, 0, 1, 0]], dtype=complex),
    "cphase": np.diag([1, 1, 1, -1]).astype(complex),
}


def rot(axis, n, d):
    theta = n * np.pi / 2 ** d
    sig = GATES[axis]
    return np.cos(theta / 2) * np.eye(2) - 1j * np.sin(theta / 2) * sig


def bell_vector(bell_state):
    """|B> as a 4-vector (local qubit first), by the state's name."""
    name = getattr(bell_state, "name", str(bell_state))
    v = {
        "PHI_PLUS": [1, 0, 0, 1],
        "PHI_MINUS": [1, 0, 0, -1],
        "PSI_PLUS": [0, 1, 1, 0],
        "PSI_MINUS": [0, 1, -1, 0],
    }[name]
    return np.array(v, dtype=complex) / np.sqrt(2)


class Pipeline:
    def __init__(self, repo, max_qubits=5, hardware="generic", use_transpiler=None, executor="rec",
                 node_name="Alice", node_id=0, peers=None, seed=0, num_comm=None):
        import random

        self.repo = repo
        self.cls = make_classes(repo)
        from netqasm.lang.instr.flavour import NVFlavour, VanillaFlavour
        from netqasm.sdk.shared_memory import SharedMemoryManager

        self.hardware = hardware
        self.max_qubits = max_qubits
        self.node_name = node_name
        self.node_id = node_id
        self.rng = random.Random(seed)
        self.trace, self.meas_script, self.responses = [], [], []
        self.requests, self.sockets, self.subroutines, self.raw_messages, self.bell_pairs = [], [], [], [], []
        if use_transpiler is None:
            use_transpiler = hardware == "nv"
        self.use_transpiler = use_transpiler
        flavour = NVFlavour() if use_transpiler else VanillaFlavour()
        SharedMemoryManager.reset_memories()
        self.cls["HarnessConnection"]._app_ids.clear()
        ids = {node_name: node_id}
        ids.update(peers or {"Bob": 1})
        self.cls["DebugConnection"].node_ids = ids
        ctrl_cls = self.cls["HarnessController"]
        ctrl_cls = type("Ctrl", (ctrl_cls,), dict(executor_class=self.cls["SvExecutor" if executor == "sv" else "RecExecutor"]))
        self.ctrl = ctrl_cls(self, node_name, flavour)
        self.num_comm = num_comm

    @property
    def executor(self):
        return self.ctrl._executor

    def connection(self, app_name=None, epr_sockets=None, **kw):
        from netqasm.sdk.build_types import GenericHardwareConfig, NVHardwareConfig

        if "hardware_config" not in kw:
            if self.hardware == "nv":
                kw["hardware_config"] = NVHardwareConfig(self.max_qubits)
            else:
                kw["hardware_config"] = GenericHardwareConfig(self.max_qubits)
        if self.use_transpiler and "compiler" not in kw:
            from netqasm.sdk.transpile import NVSubroutineTranspiler

            kw["compiler"] = NVSubroutineTranspiler
        kw.setdefault("max_qubits", self.max_qubits)
        return self.cls["HarnessConnection"](self, app_name or self.node_name, node_name=self.node_name,
                                             epr_sockets=epr_sockets, **kw)

    def epr_socket(self, remote="Bob", **kw):
        from netqasm.sdk.epr_socket import EPRSocket

        return EPRSocket(remote, **kw)

    # ---- observations
    def gate_trace(self):
        return list(self.trace)

    def unit_module(self, app_id=0):
        um = self.executor._qubit_unit_modules.get(app_id)
        return None if um is None else list(um)

    def allocated(self, app_id=0):
        um = self.unit_module(app_id) or []
        return [v for v, p in enumerate(um) if p is not None]

    def registers(self, app_id=0):
        out = {}
        for name, grp in self.executor._registers[app_id].items():
            reg = grp._register
            out[name.name] = [reg[i] for i in range(len(reg))] if not isinstance(reg, dict) else [reg[k] for k in sorted(reg)]
        return out

    def arrays(self, app_id=0):
        return {a: list(v) for a, v in self.executor._app_arrays[app_id]._arrays.items()}
