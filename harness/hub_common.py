"""C18 — shared pieces: extracted-model driver, configuration generator, canonical
outcomes, the property oracle on the implementation."""
import json
import os
import shutil
import subprocess

import hub_sched as hs

VERIF = os.path.dirname(os.path.dirname(os.path.abspath(__file__)))

EXTRACT_V = """From Coq Require Import Extraction ExtrOcamlBasic.
From NQ Require Import Net.Hub Net.Bcast.
Extraction "hubm.ml" stepl init observe erase run_labels finished binit brun_labels bobserve.
"""


# ------------------------------------------------------------------ payloads
# The model's messages are numbers; on the implementation message m travels as pay(m).  Every second id gets a
# payload that is falsy / looks like "nothing" in Python ("" and "0", whitespace, ...): the hub must treat the
# payload as opaque — "no message" and "a message with an empty payload" are different outcomes
# (["msg", ""] vs "empty").  pay is injective, unpay its inverse (-1 for a payload nobody sent).
SPECIAL = ["", "0", " ", "\n", "00", "\t", "False", "None", "0.0", "[]", "{}", "null", "  ", "-0", "0x0"]


def pay(m):
    if m % 2 == 0 and 0 < m // 2 <= len(SPECIAL):
        return SPECIAL[m // 2 - 1]
    return str(m)


UNPAY = {pay(m): m for m in range(1, 200)}


def unpay(x):
    """message id of a payload; a queued structured message (raw JSON on the unchanged tree, possibly an object on a
    changed one) is identified by its header "h:<payload>" """
    try:
        if isinstance(x, str) and x.startswith('{"header"'):
            x = json.loads(x).get("header", "")[2:]
        elif not isinstance(x, str) and hasattr(x, "header"):
            x = str(x.header)[2:]
        return UNPAY.get(x, -1)
    except Exception:
        return -1


# ------------------------------------------------------------------ configurations
# thread: dict(key=[a, b, i] (ints), cb=bool, ops=[["connect"] | ["send", m:int] | ["recv"] | ["recvnb"] | ["disconnect"]])
def impl_cfg(cfg):
    """the same configuration with the names / message strings the implementation wants"""
    out = []
    for th in cfg:
        a, b, i = th["key"]
        ops = [[o[0], pay(o[1])] if o[0] == "send" else list(o) for o in th["ops"]]
        d = dict(key=[f"n{a}", f"n{b}", i], cb=th["cb"], ops=ops)
        if th.get("cls"):
            d["cls"] = th["cls"]
        if th.get("structured"):
            d["structured"] = True
        out.append(d)
    return out


def model_cfg(cfg):
    """The configuration as the model sees it: `setcb` (the use_callbacks setter on an existing socket) touches no
    shared state in the unchanged code — the hub reads socket.use_callbacks only inside connect — so the op is
    erased (the generator places it only after the thread's last connect)."""
    return [dict(th, ops=[o for o in th["ops"] if o[0] != "setcb"]) for th in cfg]


def cfg_line(cfg, variant="fixed"):
    parts = [f"CFG {variant}"]
    for th in model_cfg(cfg):
        a, b, i = th["key"]
        ops = []
        for o in th["ops"]:
            ops.append({"connect": "C", "recv": "R", "recvnb": "N", "disconnect": "D"}.get(o[0]) or f"S{o[1]}")
        parts.append(f"{a} {b} {i} {1 if th['cb'] else 0} " + " ".join(ops))
    return " ; ".join(parts)


def rkey(k):
    return [k[1], k[0], k[2]]


def socket_classes():
    """names of the socket classes socket.py exports, and whether each lets the caller choose use_callbacks"""
    import importlib
    import inspect
    sm = importlib.import_module("netqasm.sdk.classical_communication.thread_socket.socket")
    return {c.__name__: ("use_callbacks" in inspect.signature(c.__init__).parameters)
            for c in vars(sm).values() if isinstance(c, type) and issubclass(c, sm.ThreadSocket)}


def gen_cfg(rng, family=None):
    family, cfg = _gen_cfg(rng, family)
    # endpoints of every exported socket class: a class that forces callback delivery (StorageThreadSocket)
    # stands for a callback endpoint
    forced = [n for n, takes in socket_classes().items() if not takes]
    if forced:
        for th in cfg:
            if th.get("cb") and rng.random() < 0.5:
                th["cls"] = rng.choice(forced)
    return family, cfg


def gen_two_runs(rng):
    """Two configurations on the same names / socket id for one process: the first leaves something behind
    (unreceived messages, endpoints that never disconnect), then reset_socket_hub(), then the second."""
    cb = rng.random() < 0.3
    n1 = rng.randint(1, 3)
    first = [dict(key=[0, 1, 0], cb=False, ops=[["connect"]] + [["send", 20 + 2 * i + 1] for i in range(n1)] +
                                           ([["disconnect"]] if rng.random() < 0.3 else [])),
             dict(key=[1, 0, 0], cb=cb, ops=[["connect"]] + ([] if cb else [["recv"] for _ in range(rng.randint(0, n1 - 1))]) +
                                        ([["disconnect"]] if rng.random() < 0.2 else []))]
    n2 = rng.randint(0, 2)
    cb2 = rng.random() < 0.3
    rops = [["connect"]] + ([] if cb2 else [["recvnb"]] * rng.randint(1, 2) + [["recv"] for _ in range(n2)])
    second = [dict(key=[0, 1, 0], cb=False, ops=[["connect"]] + [["send", 2 * i + 1] for i in range(n2)]),
              dict(key=[1, 0, 0], cb=cb2, ops=rops)]
    if rng.random() < 0.5:
        second.reverse()
    return first, second


def run_two(cfg1, cfg2, ch1, ch2):
    """run cfg1, reset_socket_hub(), run cfg2 — on the hub object the exported socket classes are bound to.
    Everything that reads the hub is computed before the next phase touches it."""
    out = {}
    r1 = hs.Run(impl_cfg(cfg1), live=True)
    try:
        r1.execute(ch1, mode="line")
        if not r1.harness_errors:
            out["bad1"], out["ci1"] = oracle(r1, cfg1), canon_impl(r1, cfg1)
        r2 = hs.Run(impl_cfg(cfg2), live=True, reset_api=True)
        r2.execute(ch2, mode="line")
        if not r2.harness_errors:
            out["bad2"], out["ci2"] = oracle(r2, cfg2), canon_impl(r2, cfg2)
    finally:
        r1.cleanup_live()
    out["r1"], out["r2"] = r1, r2
    return out


def _gen_cfg(rng, family=None):
    """Small configurations: 2-4 threads, <= 4 ops each between connect and disconnect."""
    family = family or rng.choice(["pair", "pair", "pair", "paircb", "paircb", "twosock", "threenode",
                                   "reinc", "reinc", "lone", "shared", "reconn", "reconn", "reconn", "switch", "switch", "switch",
                                   "structured", "structured"])
    mid = [0]

    def fresh():
        mid[0] += 1
        return mid[0]

    def script(n_send, n_recv, nb_frac, disc, connect=True):
        body = [["send", fresh()] for _ in range(n_send)] + \
               [["recvnb"] if rng.random() < nb_frac else ["recv"] for _ in range(n_recv)]
        rng.shuffle(body)
        # sends keep increasing message ids in program order (readability only)
        ids = sorted(o[1] for o in body if o[0] == "send")
        it = iter(ids)
        body = [["send", next(it)] if o[0] == "send" else o for o in body]
        return ([["connect"]] if connect else []) + body + ([["disconnect"]] if disc else [])

    def pair(i, cba, cbb, a=0, b=1, budget=4):
        sa = rng.randint(0, 3)
        sb = rng.randint(0, 2)
        # receivers mostly ask for no more than was sent (so runs usually complete)
        ra = 0 if cba else min(budget - sa, max(0, sb + rng.choice([0, 0, 0, -1, 1])))
        rb = 0 if cbb else min(budget - sb, max(0, sa + rng.choice([0, 0, 0, -1, 1])))
        nb = rng.choice([0.0, 0.0, 0.3, 1.0])
        return [dict(key=[a, b, i], cb=cba, ops=script(sa, max(ra, 0), nb, rng.random() < 0.6)),
                dict(key=[b, a, i], cb=cbb, ops=script(sb, max(rb, 0), nb, rng.random() < 0.6))]

    if family == "pair":
        cfg = pair(0, False, False)
    elif family == "paircb":
        cfg = pair(0, rng.random() < 0.5, True)
    elif family == "twosock":
        cfg = pair(0, False, rng.random() < 0.3, budget=2) + pair(1, False, False, budget=2)
    elif family == "threenode":
        cfg = pair(0, False, False, 0, 1, budget=2) + pair(0, False, rng.random() < 0.3, 1, 2, budget=2)
    elif family == "reinc":
        # A, B and a later endpoint A' with A's key (short scripts)
        cb = rng.random() < 0.3
        cfg = [dict(key=[0, 1, 0], cb=False, ops=script(rng.randint(0, 1), 0, 0, True)),
               dict(key=[1, 0, 0], cb=cb, ops=script(rng.randint(0, 1), 0 if cb else rng.randint(0, 1), 1.0,
                                                      rng.random() < 0.8)),
               dict(key=[0, 1, 0], cb=False, ops=script(rng.randint(0, 1), 0, 0, rng.random() < 0.3))]
    elif family == "reconn":
        # a receiver (mostly in callback mode) that stays connected, and a sender that disconnects,
        # reconnects with the same socket id (same thread, or a later endpoint in another thread) and sends again
        cb = rng.random() < 0.75
        n1, n2 = rng.randint(0, 2), rng.randint(1, 2)
        first = [["connect"]] + [["send", fresh()] for _ in range(n1)] + [["disconnect"]]
        second = [["connect"]] + [["send", fresh()] for _ in range(n2)] + ([["disconnect"]] if rng.random() < 0.3 else [])
        nrecv = 0 if cb else rng.randint(0, n1 + n2)
        recv_ops = [["recvnb"] if rng.random() < 0.4 else ["recv"] for _ in range(nrecv)]
        rcv = dict(key=[1, 0, 0], cb=cb, ops=[["connect"]] + recv_ops + ([["disconnect"]] if rng.random() < 0.15 else []))
        if rng.random() < 0.6:
            cfg = [rcv, dict(key=[0, 1, 0], cb=False, ops=first + second)]
        else:
            cfg = [rcv, dict(key=[0, 1, 0], cb=False, ops=first), dict(key=[0, 1, 0], cb=False, ops=second)]
    elif family == "switch":
        # the receiver flips use_callbacks on its CONNECTED socket (possibly with messages pending) while the
        # peer keeps sending; before / after the switch it may receive explicitly
        cb0 = rng.random() < 0.3
        nsend = rng.randint(2, 4)
        rops = [["connect"]]
        rops += [["recvnb"] if rng.random() < 0.5 else ["recv"] for _ in range(rng.choice([0, 0, 1]))] if not cb0 else []
        rops.append(["setcb", not cb0])
        if rng.random() < 0.35:
            rops += [["recvnb"] for _ in range(rng.randint(1, 2))]
        if rng.random() < 0.25:
            rops.append(["setcb", cb0])
            if cb0 is False and rng.random() < 0.5:
                rops.append(["recvnb"])
        cfg = [dict(key=[1, 0, 0], cb=cb0, ops=rops),
               dict(key=[0, 1, 0], cb=False, ops=[["connect"]] + [["send", fresh()] for _ in range(nsend)])]
    elif family == "structured":
        # send_structured / recv_structured: the sender keeps re-using (and changing in place) the object it sent
        cfg = pair(0, False, False)
        for th in cfg:
            th["structured"] = True
    elif family == "lone":
        cfg = pair(0, False, False, budget=2) + [dict(key=[2, 0, 0], cb=False, ops=script(1, 0, 0, False))]
    else:  # shared: two threads use endpoints with one and the same key (two receivers on one queue)
        cfg = [dict(key=[0, 1, 0], cb=False, ops=script(2, 0, 0, False)),
               dict(key=[1, 0, 0], cb=False, ops=script(0, 1, rng.choice([0.0, 1.0]), False)),
               dict(key=[1, 0, 0], cb=False, ops=script(0, 1, rng.choice([0.0, 1.0]), False))]
    return family, cfg


# ------------------------------------------------------------------ canonical outcome
def canon_impl(run, cfg):
    o = run.outcome()
    ths = []
    for t, th in enumerate(o["threads"]):
        res = []
        done = 0
        for j, r in enumerate(th["res"]):
            if r == "blocked":
                continue
            if cfg[t]["ops"][run.results[t][j][0]][0] == "setcb":
                continue        # erased in the model
            done += 1
            res.append(["msg", unpay(r[1])] if isinstance(r, list) else r)
        ths.append(dict(res=res, left=len([o for o in cfg[t]["ops"] if o[0] != "setcb"]) - done, store=[unpay(x) for x in th["store"]], lost=th["lost"]))

    def k3(k):
        return [int(k[0][1:]), int(k[1][1:]), k[2]]

    q = sorted([[k3(json.loads(k.replace("'", '"'))), [unpay(x) for x in v]] for k, v in o["queues"].items()])
    return dict(threads=ths, queues=q, open=sorted(k3(k) for k in o["open"]), rem=sorted(k3(k) for k in o["rem"]))


def canon_model(o):
    return dict(threads=o["threads"], queues=sorted(o["queues"]), open=sorted(o["open"]), rem=sorted(o["rem"]))


def okey(o):
    return json.dumps(o, sort_keys=True)


# ------------------------------------------------------------------ extracted model
class Driver:
    def __init__(self, ctx):
        self.ctx = ctx
        b = ctx.build
        open(os.path.join(b, "extract_hub.v"), "w").write(EXTRACT_V)
        r = ctx.coqc("extract_hub.v")
        self.ok = r.ok
        self.err = r.err
        if not r.ok:
            return
        shutil.copy(os.path.join(VERIF, "ocaml", "hub_driver.ml"), b)
        p = subprocess.run(["timeout", "300", "ocamlfind", "ocamlopt", "-w", "-a", "hubm.mli", "hubm.ml", "hub_driver.ml",
                            "-o", "hubd"], cwd=b, capture_output=True, text=True)
        if p.returncode != 0:
            self.ok = False
            self.err = p.stderr
            return
        self.proc = subprocess.Popen([os.path.join(b, "hubd")], stdin=subprocess.PIPE, stdout=subprocess.PIPE,
                                     text=True, bufsize=1)

    def _send(self, line):
        self.proc.stdin.write(line + "\n")
        self.proc.stdin.flush()

    def set_cfg(self, cfg, variant="fixed"):
        self._send(cfg_line(cfg, variant))

    def run(self, sched):
        self._send("RUN " + " ".join(map(str, sched)))
        line = self.proc.stdout.readline()
        assert line.startswith("RUN "), line
        return json.loads(line[4:])

    def explore(self, maxstates):
        self._send(f"EXPLORE {maxstates}")
        outs = []
        while True:
            line = self.proc.stdout.readline()
            if line.startswith("OUTCOME "):
                o, _, sch = line[8:].rpartition(" | ")
                outs.append((canon_model(json.loads(o)), [int(x) for x in sch.split()]))
            elif line.startswith("STATS "):
                w = line.split()
                return outs, dict(states=int(w[1]), transitions=int(w[2]), complete=(w[3] == "true"))
            else:
                raise RuntimeError("driver: " + line)

    def close(self):
        try:
            self.proc.stdin.close()
            self.proc.wait(timeout=5)
        except Exception:
            pass


# ------------------------------------------------------------------ oracle on the implementation
def where_blocked(run, t):
    w = run.away_where.get(t)
    return f" (blocked for real in {w}: a wait the scheduler cannot see)" if w else ""


def oracle(run, cfg):
    """The property itself, checked on one execution of the real hub.
    cfg is the int-keyed configuration; run is the finished hub_sched.Run.
    Returns a list of (kind, description)."""
    bad = []
    for e in run.errors:
        bad.append(("lock-discipline", e))
    n = len(cfg)
    for (t, got, want) in getattr(run, "altered", []):
        bad.append(("structured-altered", f"thread {t} {cfg[t]['key']} received the structured message {got} but the message "
                                          f"with that header was {want} when it was sent (deep copy at send time): the "
                                          f"sender's later in-place changes reached the receiver"))
    # an operation must end with its documented outcome: ok / message / ConnectionError / "nothing to
    # receive" for a non-blocking receive; never IndexError, KeyError or another RuntimeError
    for t in range(n):
        for z in run.results[t]:
            if z[1] in ("indexerr", "keyerr", "runtime") or (isinstance(z[1], str) and z[1].startswith("crash:")):
                bad.append(("op-crashed", f"thread {t} {cfg[t]['key']} op {z[0]} {cfg[t]['ops'][z[0]]} raised {z[1]}"))
    by_key = {}
    for t, th in enumerate(cfg):
        by_key.setdefault(tuple(th["key"]), []).append(t)
    res = run.results          # per thread: (op index, result, start stamp, end stamp, start log, end log)
    final_q = {}
    for k, v in run.raw_queues().items():
        final_q[(int(k[0][1:]), int(k[1][1:]), k[2])] = [unpay(x) for x in v]
    final_open = {(int(k[0][1:]), int(k[1][1:]), k[2]) for k in run.raw_keys("_open_sockets")}

    for k, rts in by_key.items():
        sts = by_key.get(tuple(rkey(list(k))), [])
        if len(rts) != 1 or len(sts) != 1:
            continue
        r, s = rts[0], sts[0]
        sends = [(cfg[s]["ops"][i][1], st, en) for (i, x, st, en, *_r) in res[s] if cfg[s]["ops"][i][0] == "send" and x == "ok"]
        sent = [m for m, _, _ in sends]
        # what the receiver observed, in observation order: callback deliveries (when the callback ran) merged
        # with explicit receives (when the message was popped), across any switch of use_callbacks
        log = run.log
        obs = [(idx, unpay(m)) for (idx, tid, m) in run.cb_events if tid == r]
        for z in res[r]:
            if isinstance(z[1], list) and len(z) == 6:
                pops = [idx for idx in range(max(z[4], 0), z[5]) if log[idx][0] == r and log[idx][1].startswith("q_pop")]
                obs.append((pops[-1] if pops else z[5], unpay(z[1][1])))
        obs.sort()
        got = [m for _, m in obs]
        polled = [unpay(x[1]) for (_i, x, *_r) in res[r] if isinstance(x, list)]
        stored = [unpay(x) for x in run.storage[r]]
        if got != sent[:len(got)]:
            bad.append(("fifo", f"receiver {list(k)} (thread {r}) observed {got} (callback {stored}, explicit recv {polled}), "
                                f"sender (thread {s}) sent {sent}"))
            continue
        left = final_q.get(k, [])
        # (only when no operation can be in flight: the run ended by completion or quiescence)
        if run.end_reason in ("done", "quiescent") and got + left != sent:
            bad.append(("exactly-once", f"receiver {list(k)}: received {got} + still queued {left} != sent {sent}"))
        # a non-blocking receive must not report emptiness while a message was available all along
        nrecv = 0
        for (i, x, st, en, *_r) in res[r]:
            if isinstance(x, list):
                nrecv += 1
            elif x == "empty" and not cfg[r]["cb"] and not stored:
                avail = sum(1 for (_m, _s, e2) in sends if e2 < st)
                if avail > nrecv:
                    bad.append(("nb-empty", f"receiver {list(k)} op {i} reported empty although {avail} messages "
                                            f"had been sent and only {nrecv} received before it started"))
        # blocked although it could proceed
        if run.status[r] == "blocked" and run.end_reason == "quiescent":
            i = res[r][-1][0]
            kind = cfg[r]["ops"][i][0]
            if kind == "recv" and left:
                bad.append(("blocked", f"blocking receive does not return although a message is queued: thread {r} "
                                       f"blocked in recv with {left} queued" + where_blocked(run, r)))
    # an endpoint whose receive callback is registered in the hub at the end (it is listening in callback mode) and
    # that never disconnected must have nothing left in its queue (also after a switch of use_callbacks)
    if run.end_reason in ("done", "quiescent"):
        registered = {(int(k[0][1:]), int(k[1][1:]), k[2]) for k in run.raw_keys("_recv_callbacks")}
        for k, rts in by_key.items():
            if len(rts) == 1 and k in registered and final_q.get(k) \
                    and not any(o[0] == "disconnect" for o in cfg[rts[0]]["ops"]):
                bad.append(("stranded", f"endpoint {list(k)} (thread {rts[0]}) is registered for callbacks, its callback got "
                                        f"{[unpay(x) for x in run.storage[rts[0]]]} but {final_q[k]} sit undelivered in the hub queue"))
    # a callback receiver that never disconnects must be handed every message: nothing may sit in its queue
    for k, rts in by_key.items():
        if len(rts) != 1:
            continue
        th = cfg[rts[0]]
        if th["cb"] and not any(o[0] in ("recv", "recvnb", "disconnect", "setcb") for o in th["ops"]) and final_q.get(k):
            bad.append(("stranded", f"callback receiver {list(k)} (thread {rts[0]}) never disconnected, its callback got "
                                    f"{[unpay(x) for x in run.storage[rts[0]]]} but {final_q[k]} sit undelivered in the hub queue"))
    for t, th in enumerate(cfg):
        if run.status[t] == "blocked" and run.end_reason == "quiescent":
            i = res[t][-1][0]
            if th["ops"][i][0] == "connect" and tuple(rkey(th["key"])) in final_open:
                bad.append(("blocked", f"thread {t} blocked in connect although the peer is open" + where_blocked(run, t)))
            if th["ops"][i][0] not in ("connect", "recv"):
                bad.append(("blocked", f"thread {t} blocked in {th['ops'][i][0]}" + where_blocked(run, t)))
    # rendezvous: connect returns only after the peer has opened (and that opening is not used up)
    log = run.log
    for t, th in enumerate(cfg):
        a, b, i3 = th["key"]
        rk = [f"n{b}", f"n{a}", i3]
        for (i, x, st, en, ls, le) in [z for z in res[t] if len(z) == 6]:
            if th["ops"][i][0] != "connect" or x != "ok":
                continue
            # the return was decided at this thread's last access inside the op (the op's
            # bookkeeping may finish later, after other threads have moved)
            mine_idx = [idx for idx in range(ls, le) if log[idx][0] == t]
            le = (mine_idx[-1] + 1) if mine_idx else ls
            j = None
            for idx in range(le - 1, -1, -1):
                if log[idx][1] == "open_add" and log[idx][2] == rk:
                    j = idx
                    break
            if j is None:
                bad.append(("rendezvous", f"thread {t} {th['key']}: connect returned but the peer never opened"))
                continue
            closed = any(log[idx][1] in ("open_del", "open_discard") and log[idx][2] == rk for idx in range(j, le))
            mine = False
            for t2 in by_key[tuple(th["key"])]:
                if t2 == t:
                    continue
                for z in res[t2]:
                    if len(z) == 6 and cfg[t2]["ops"][z[0]][0] == "disconnect" and z[4] > j and z[5] <= ls:
                        mine = True
            if closed and mine:
                bad.append(("rendezvous", f"thread {t} {th['key']}: connect returned on a stale entry: the peer's last "
                                          f"opening (log {j}) was closed and this side disconnected since"))
    return bad


def run_impl(cfg, chooser, mode="line", trace_socket_py=False):
    r = hs.Run(impl_cfg(cfg), trace_socket_py=trace_socket_py)
    r.execute(chooser, mode=mode)
    return r


# ------------------------------------------------------------------ broadcast channels (implementation side only)
# thread: dict(kind="bc", app=a, remotes=[...], ops=[["bconnect"] | ["bsend", m] | ["brecv"] | ["bclose"]])
#      or a plain thread-socket thread as above (key=[a, b, 0]).  No model counterpart: a broadcast endpoint is
#      several sockets driven by one thread; its executions are judged by the oracle only.
def gen_bcast(rng):
    mid = [0]

    def fresh():
        mid[0] += 1
        return mid[0]

    shape = rng.choice(["all", "all", "peers", "peers", "peers"])
    if shape == "all":
        n = rng.choice([2, 2, 3])
        sends = [rng.randint(0, 2) for _ in range(n)]
        cfg = []
        for a in range(n):
            incoming = sum(sends[b] for b in range(n) if b != a)
            nrecv = max(0, min(3, incoming + rng.choice([0, 0, -1, 1])))
            body = [["bsend", None] for _ in range(sends[a])] + [["brecv"] for _ in range(nrecv)]
            rng.shuffle(body)
            body = [["bsend", fresh()] if o[0] == "bsend" else o for o in body]
            cfg.append(dict(kind="bc", app=a, remotes=[b for b in range(n) if b != a],
                            ops=[["bconnect"]] + body + ([["bclose"]] if rng.random() < 0.5 else [])))
    else:
        # a broadcast receiver polling 1-2 peers that are plain sockets: they send and (mostly) close
        npeer = rng.choice([1, 1, 2])
        total = 0
        cfg = [None]
        for p in range(1, npeer + 1):
            k = rng.randint(1, 2)
            total += k
            cfg.append(dict(key=[p, 0, 0], cb=False,
                            ops=[["connect"]] + [["send", fresh()] for _ in range(k)] +
                                ([["disconnect"]] if rng.random() < 0.8 else [])))
        nrecv = max(1, min(4, total + rng.choice([0, 0, 0, -1, 1])))
        cfg[0] = dict(kind="bc", app=0, remotes=list(range(1, npeer + 1)),
                      ops=[["bconnect"]] + [["brecv"] for _ in range(nrecv)])
    return shape, cfg


def impl_cfg_bc(cfg):
    out = []
    for th in cfg:
        if th.get("kind") == "bc":
            ops = [[o[0], pay(o[1])] if o[0] == "bsend" else [o[0]] for o in th["ops"]]
            out.append(dict(kind="bc", app=f"n{th['app']}", remotes=[f"n{b}" for b in th["remotes"]], cb=False, ops=ops))
        else:
            out += impl_cfg([th])
    return out


def run_impl_bc(cfg, chooser, trace_socket_py=False):
    r = hs.Run(impl_cfg_bc(cfg), trace_socket_py=trace_socket_py, max_steps=12000)
    r.execute(chooser, mode="line")
    return r


def oracle_bcast(run, cfg):
    """Every message handed to the hub for a receiver is received exactly once, per-sender order preserved;
    a receiver that is still listening (blocked in a receive) has nothing pending."""
    bad = [("lock-discipline", e) for e in run.errors]
    for t in range(len(cfg)):
        for z in run.results[t]:
            if z[1] in ("indexerr", "keyerr", "runtime") or (isinstance(z[1], str) and z[1].startswith("crash:")):
                bad.append(("op-crashed", f"thread {t} op {z[0]} {cfg[t]['ops'][z[0]]} raised {z[1]}"))
    final_q = {}
    for k, v in run.raw_queues().items():
        final_q[(k[0], k[1], k[2])] = list(v)
    complete = run.end_reason in ("done", "quiescent")
    for t, th in enumerate(cfg):
        res = run.results[t]
        blocked_in_recv = (run.status[t] == "blocked" and run.end_reason == "quiescent"
                           and th["ops"][res[-1][0]][0] in ("brecv", "recv"))
        if th.get("kind") == "bc":
            streams = {b: [x[2] for (_i, x, *_r) in res if isinstance(x, list) and x[0] == "bmsg" and x[1] == f"n{b}"]
                       for b in th["remotes"]}
            me = th["app"]
        else:
            me, b0, _ = th["key"]
            streams = {b0: [x[1] for (_i, x, *_r) in res if isinstance(x, list) and x[0] == "msg"]}
        for b, got in streams.items():
            key = (f"n{me}", f"n{b}", 0)
            sent = run.appended.get(key, [])
            left = final_q.get(key, [])
            show = lambda l: [unpay(x) for x in l]
            if got != sent[:len(got)]:
                bad.append(("bcast-order", f"node {me} received {show(got)} from node {b}, which sent {show(sent)}"))
            elif complete and got + left != sent:
                bad.append(("bcast-exactly-once", f"node {me}: received {show(got)} + queued {show(left)} != sent by node {b} {show(sent)}"))
            elif blocked_in_recv and left:
                bad.append(("bcast-listening", f"node {me} (thread {t}) is still blocked in its receive although "
                                               f"{show(left)} from node {b} is pending in the hub: it will never be received"
                                               + where_blocked(run, t)))
    return bad


# ---- broadcast endpoints through the model (Net/Bcast.v): step-level correspondence
def bcfg_line(cfg):
    parts = ["BCFG"]
    for th in cfg:
        if th.get("kind") == "bc":
            ops = [{"bconnect": "C", "brecv": "R", "bclose": "D"}.get(o[0]) or f"S{o[1]}" for o in th["ops"]]
            parts.append(f"B {th['app']} {','.join(map(str, th['remotes']))} " + " ".join(ops))
        else:
            a, b, i = th["key"]
            ops = [{"connect": "C", "recv": "R", "recvnb": "N", "disconnect": "D"}.get(o[0]) or f"S{o[1]}"
                   for o in th["ops"] if o[0] != "setcb"]
            parts.append(f"R {a} {b} {i} " + " ".join(ops))
    return " ; ".join(parts)


def canon_impl_bc(run, cfg):
    ps = []
    for t, th in enumerate(cfg):
        bres, res, done = [], [], 0
        for (_i, r, *_rest) in run.results[t]:
            if r == "blocked":
                continue
            done += 1
            if th.get("kind") == "bc":
                bres.append(["bmsg", int(r[1][1:]), unpay(r[2])] if isinstance(r, list) else r)
            else:
                res.append(["msg", unpay(r[1])] if isinstance(r, list) else r)
        ps.append(dict(bres=bres, left=len(th["ops"]) - done, res=res))

    def k3(k):
        return [int(k[0][1:]), int(k[1][1:]), k[2]]

    q = sorted([k3(k), [unpay(x) for x in v]] for k, v in run.raw_queues().items() if v)
    return dict(parties=ps, queues=q, open=sorted(k3(k) for k in run.raw_keys("_open_sockets")),
                rem=sorted(k3(k) for k in run.raw_keys("_remote_sockets")))


def canon_model_bc(o):
    return dict(parties=o["parties"], queues=sorted(o["queues"]), open=sorted(o["open"]), rem=sorted(o["rem"]))


def brun_model(drv, cfg, sched):
    drv._send(bcfg_line(cfg))
    drv._send("BRUN " + " ".join(map(str, sched)))
    line = drv.proc.stdout.readline()
    assert line.startswith("BRUN "), line
    return json.loads(line[5:])


# ------------------------------------------------------------------ free-running executions (oracle only)
# No scheduler, no proxies, no tracing: real threads on a fresh real hub, every blocking call with a timeout, the
# whole run under a wall-clock watchdog.  Used when the harness could not drive the hub (and as a last resort of
# the search): only what the threads themselves observe is judged.
def free_run(cfg, rng, t_recv=0.35, t_conn=1.0, t_total=3.0):
    import importlib
    import threading
    import time
    hubmod = importlib.import_module("netqasm.sdk.classical_communication.thread_socket.socket_hub")
    sockmod = importlib.import_module("netqasm.sdk.classical_communication.thread_socket.socket")
    Hub = type("FastHub", (hubmod._SocketHub,), {"_CONNECT_SLEEP_TIME": 0.002, "_RECV_SLEEP_TIME": 0.002})
    hub = Hub()
    n = len(cfg)
    results = [[] for _ in cfg]
    storage = [[] for _ in cfg]
    socks = [None] * n
    jit = [[rng.random() * 0.004 for _ in th["ops"]] for th in cfg]
    icfg = impl_cfg(cfg)

    class S(sockmod.ThreadSocket):
        _SOCKET_HUB = hub

        def __init__(s, tid, *a, **kw):
            s._tid = tid
            super().__init__(*a, **kw)

        def recv_callback(s, msg):
            storage[s._tid].append(msg)

        def conn_lost_callback(s):
            pass

        def __del__(s):
            pass

    def work(t):
        th = icfg[t]
        k = th["key"]
        for i, op in enumerate(th["ops"]):
            time.sleep(jit[t][i])
            t_op = time.time()
            try:
                if op[0] == "connect":
                    s = S.__new__(S)
                    socks[t] = s
                    s.__init__(t, k[0], k[1], socket_id=k[2], use_callbacks=bool(th["cb"]), timeout=t_conn)
                    r = "ok"
                elif socks[t] is None:
                    r = "connerr"
                elif op[0] == "send":
                    socks[t].send(op[1]); r = "ok"
                elif op[0] == "recv":
                    r = ["msg", socks[t].recv(timeout=t_recv)]
                elif op[0] == "recvnb":
                    r = ["msg", socks[t].recv(block=False)]
                elif op[0] == "disconnect":
                    hub.disconnect(socks[t]); r = "ok"
                elif op[0] == "setcb":
                    socks[t].use_callbacks = bool(op[1]); r = "ok"
                else:
                    r = "?"
            except ConnectionError:
                r = "connerr"
            except TimeoutError:
                r = "timeout"
            except RuntimeError:
                r = "empty" if op[0] == "recvnb" else "crash:RuntimeError"
            except Exception as e:     # noqa
                r = "crash:" + type(e).__name__
            results[t].append((i, r, t_op, time.time()))

    ths = [threading.Thread(target=work, args=(t,), daemon=True) for t in range(n)]
    for t in ths:
        t.start()
    t_end = time.time() + t_total
    for t in ths:
        t.join(max(0.0, t_end - time.time()))
    alive = [t.is_alive() for t in ths]
    queues = {}
    try:
        for k, v in list(hub._messages.items()):
            queues[(int(k[0][1:]), int(k[1][1:]), k[2])] = [unpay(x) for x in list(v)]
    except Exception:
        queues = None
    return dict(results=results, storage=storage, alive=alive, queues=queues)


def oracle_free(fr, cfg):
    bad = []
    by_key = {}
    for t, th in enumerate(cfg):
        by_key.setdefault(tuple(th["key"]), []).append(t)
    for t, th in enumerate(cfg):
        for (i, r, *_t) in fr["results"][t]:
            if isinstance(r, str) and (r.startswith("crash:")):
                bad.append(("op-crashed", f"thread {t} {th['key']} op {i} {th['ops'][i]} raised {r}"))
        if fr["alive"][t]:
            i = len(fr["results"][t])
            bad.append(("blocked-for-real", f"thread {t} {th['key']} did not finish op {i} {th['ops'][i] if i < len(th['ops']) else ''} "
                                            f"within the wall-clock bound although every blocking call has a timeout"))
    if any(fr["alive"]):
        return bad
    for k, rts in by_key.items():
        sts = by_key.get(tuple(rkey(list(k))), [])
        if len(rts) != 1 or len(sts) != 1:
            continue
        r, s = rts[0], sts[0]
        if any(o[0] == "setcb" for o in cfg[r]["ops"]):
            continue
        sends = [(cfg[s]["ops"][i][1], t1) for (i, x, t0, t1) in fr["results"][s] if cfg[s]["ops"][i][0] == "send" and x == "ok"]
        sent = [m for m, _ in sends]
        polled = [unpay(x[1]) for (_i, x, *_t) in fr["results"][r] if isinstance(x, list)]
        stored = [unpay(x) for x in fr["storage"][r]]
        if stored and polled:
            continue
        got = stored if cfg[r]["cb"] else polled
        if got != sent[:len(got)]:
            bad.append(("fifo", f"receiver {list(k)} got {got}, sender sent {sent}"))
            continue
        if fr["queues"] is not None:
            left = fr["queues"].get(k, [])
            if got + left != sent:
                bad.append(("exactly-once", f"receiver {list(k)}: received {got} + still queued {left} != sent {sent}"))
        # a blocking receive that gave up although a message had been sent before it even started
        nrecv = 0
        for (i, x, t0, t1) in fr["results"][r]:
            if isinstance(x, list):
                nrecv += 1
            elif x == "timeout" and cfg[r]["ops"][i][0] == "recv" and not cfg[r]["cb"]:
                avail = sum(1 for (_m, te) in sends if te < t0)
                if avail > nrecv:
                    bad.append(("blocked", f"blocking receive of {list(k)} (op {i}) timed out although {avail} messages had "
                                           f"been sent and only {nrecv} received before it started"))
    return bad
