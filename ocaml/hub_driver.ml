(* Driver for the extracted hub model (coq/Net/Hub.v -> hubm.ml).
   Line protocol on stdin, one request per line, answers on stdout:
     CFG <fixed|orig> ; <a> <b> <i> <cb 0|1> <op>* ; ...     set the configuration
         ops:  C   S<m>   R   N   D
     RUN t t t ...        -> "RUN {json: labels, outcome}"      (entries that cannot move are skipped)
     BCFG ; B <app> <r1,r2,..> <bop>* ; R <a> <b> <i> <op>* ; ...   broadcast configuration (bops: C S<m> R D)
     BRUN p p p ...       -> "BRUN {json: labels, outcome}"     (schedule of party indices, Net/Bcast.v)
     EXPLORE <maxstates>  -> "OUTCOME {json outcome} | t t t ..." for every quiescent outcome
                             (with one witness schedule), then "STATS states transitions complete"
   Only conversion nat<->int, printing and the graph search live here; stepl,
   init, observe, erase are the extracted Coq functions. *)
open Hubm

let rec nat_of_int n = if n <= 0 then O else S (nat_of_int (n - 1))
let rec int_of_nat = function O -> 0 | S n -> 1 + int_of_nat n

let parse_op s =
  match s.[0] with
  | 'C' -> Connect
  | 'S' -> Send (nat_of_int (int_of_string (String.sub s 1 (String.length s - 1))))
  | 'R' -> Recv false
  | 'N' -> Recv true
  | 'D' -> Disconnect
  | _ -> failwith ("bad op " ^ s)

let words s = List.filter (fun x -> x <> "") (String.split_on_char ' ' s)

let parse_cfg line =
  match String.split_on_char ';' line with
  | hd :: ths ->
      let v = match words hd with [ _; "orig" ] -> Orig | _ -> Fixed in
      let th s =
        match words s with
        | a :: b :: i :: cb :: ops ->
            ( ( ((nat_of_int (int_of_string a), nat_of_int (int_of_string b)), nat_of_int (int_of_string i)),
                cb = "1" ),
              List.map parse_op ops )
        | _ -> failwith "bad thread"
      in
      (v, List.map th (List.filter (fun s -> words s <> []) ths))
  | [] -> failwith "bad cfg"

let jkey ((a, b), i) = Printf.sprintf "[%d,%d,%d]" (int_of_nat a) (int_of_nat b) (int_of_nat i)
let jlist f l = "[" ^ String.concat "," (List.map f l) ^ "]"
let jnat n = string_of_int (int_of_nat n)

let jres = function
  | ROk -> "\"ok\""
  | RConnErr -> "\"connerr\""
  | RMsg m -> Printf.sprintf "[\"msg\",%d]" (int_of_nat m)
  | REmpty -> "\"empty\""
  | RIndexErr -> "\"indexerr\""

let joutcome s =
  let (((ths, q), op), rm) = observe s in
  let jth (((out, left), store), lost) =
    Printf.sprintf "{\"res\":%s,\"left\":%d,\"store\":%s,\"lost\":%d}" (jlist jres out) (int_of_nat left)
      (jlist jnat store) (int_of_nat lost)
  in
  Printf.sprintf "{\"threads\":%s,\"queues\":%s,\"open\":%s,\"rem\":%s}" (jlist jth ths)
    (jlist (fun (k, l) -> "[" ^ jkey k ^ "," ^ jlist jnat l ^ "]") q)
    (jlist jkey op) (jlist jkey rm)

let jlabel = function
  | LAcq -> "acq" | LRel -> "rel" | LSleep -> "sleep"
  | LOpenHas _ -> "open_has" | LOpenAdd _ -> "open_add" | LOpenDel _ -> "open_del"
  | LRemHas _ -> "rem_has" | LRemAdd _ -> "rem_add" | LRemDel _ -> "rem_del"
  | LQRef _ -> "q_ref" | LQLen _ -> "q_len" | LQApp _ -> "q_app" | LQPop _ -> "q_pop"
  | LRcbGet _ -> "rcb_get" | LRcbSet _ -> "rcb_set" | LRcbPop _ -> "rcb_pop"
  | LLcbGet _ -> "lcb_get" | LLcbSet _ -> "lcb_set" | LLcbPop _ -> "lcb_pop"
  | LCallRecv _ -> "call_recv" | LCallLost _ -> "call_lost"

let label_key = function
  | LOpenHas (k, _) | LOpenAdd k | LOpenDel k | LRemHas (k, _) | LRemAdd k | LRemDel k | LQRef k
  | LQLen (k, _) | LQApp (k, _) | LQPop k | LRcbGet (k, _) | LRcbSet k | LRcbPop k | LLcbGet (k, _)
  | LLcbSet k | LLcbPop k -> jkey k
  | LCallRecv (t, _) | LCallLost t -> jnat t
  | _ -> "null"

(* ---- broadcast endpoints (Net/Bcast.v) *)
let parse_bop s =
  match s.[0] with
  | 'C' -> BConnect
  | 'S' -> BSend (nat_of_int (int_of_string (String.sub s 1 (String.length s - 1))))
  | 'R' -> BRecv
  | 'D' -> BClose
  | _ -> failwith ("bad bop " ^ s)

(* BCFG ; B <app> <r1,r2,..> <bop>* ; R <a> <b> <i> <op>* ; ... *)
let parse_bcfg line =
  match String.split_on_char ';' line with
  | _ :: ps ->
      let one s =
        match words s with
        | "B" :: a :: rs :: ops ->
            CB (nat_of_int (int_of_string a),
                List.map (fun x -> nat_of_int (int_of_string x)) (List.filter (fun x -> x <> "") (String.split_on_char ',' rs)),
                List.map parse_bop ops)
        | "R" :: a :: b :: i :: ops ->
            CRaw (((nat_of_int (int_of_string a), nat_of_int (int_of_string b)), nat_of_int (int_of_string i)),
                  List.map parse_op ops)
        | _ -> failwith "bad party"
      in
      List.map one (List.filter (fun s -> words s <> []) ps)
  | [] -> failwith "bad bcfg"

let jbres = function
  | BOk -> "\"ok\""
  | BConnErr -> "\"connerr\""
  | BMsg (f, m) -> Printf.sprintf "[\"bmsg\",%d,%d]" (int_of_nat f) (int_of_nat m)

let jboutcome s =
  let (((ps, q), op), rm) = bobserve s in
  let jp ((bout, left), out) =
    Printf.sprintf "{\"bres\":%s,\"left\":%d,\"res\":%s}" (jlist jbres bout) (int_of_nat left) (jlist jres out)
  in
  Printf.sprintf "{\"parties\":%s,\"queues\":%s,\"open\":%s,\"rem\":%s}" (jlist jp ps)
    (jlist (fun (k, l) -> "[" ^ jkey k ^ "," ^ jlist jnat l ^ "]") q)
    (jlist jkey op) (jlist jkey rm)

let nthreads s = List.length s.s_th

(* is thread t parked in a poll loop whose condition is false in s?  (running t alone
   leads back to s within one loop iteration) *)
let stuck_poller v s t =
  let rec go cur n =
    if n = 0 then false
    else
      match stepl v cur (nat_of_int t) with
      | None -> false
      | Some (_, s') ->
          let s' = erase s' in
          if s' = s then true else go s' (n - 1)
  in
  go s 10

let quiescent v s =
  let n = nthreads s in
  let rec all t = t >= n || ((finished (List.nth s.s_th t) || stuck_poller v s t) && all (t + 1)) in
  all 0

let explore v cfg maxstates =
  let s0 = erase (init cfg) in
  let keyof s = Digest.string (Marshal.to_string s [ Marshal.No_sharing ]) in
  let seen : (string, int) Hashtbl.t = Hashtbl.create 100003 in
  let parent : (int, int * int) Hashtbl.t = Hashtbl.create 100003 in
  let outcomes : (string, int) Hashtbl.t = Hashtbl.create 101 in
  let order = ref [] in
  let q = Queue.create () in
  Hashtbl.add seen (keyof s0) 0;
  Queue.add (s0, 0) q;
  let nstates = ref 1 and ntrans = ref 0 and complete = ref true in
  let n = nthreads s0 in
  while not (Queue.is_empty q) do
    let s, id = Queue.pop q in
    if quiescent v s then begin
      let o = joutcome s in
      if not (Hashtbl.mem outcomes o) then begin
        Hashtbl.add outcomes o id;
        order := (o, id) :: !order
      end
    end;
    for t = 0 to n - 1 do
      match stepl v s (nat_of_int t) with
      | None -> ()
      | Some (_, s') ->
          incr ntrans;
          let s' = erase s' in
          let k = keyof s' in
          if not (Hashtbl.mem seen k) then
            if !nstates >= maxstates then complete := false
            else begin
              let id' = !nstates in
              incr nstates;
              Hashtbl.add seen k id';
              Hashtbl.add parent id' (id, t);
              Queue.add (s', id') q
            end
    done
  done;
  let rec path id acc = if id = 0 then acc else let p, t = Hashtbl.find parent id in path p (t :: acc) in
  List.iter
    (fun (o, id) ->
      Printf.printf "OUTCOME %s | %s\n" o (String.concat " " (List.map string_of_int (path id []))))
    (List.rev !order);
  Printf.printf "STATS %d %d %b\n" !nstates !ntrans !complete

let () =
  let cfg = ref (Fixed, []) in
  let bcfg = ref [] in
  try
    while true do
      let line = input_line stdin in
      (match words line with
      | "CFG" :: _ -> cfg := parse_cfg line
      | "RUN" :: sch ->
          let v, c = !cfg in
          let ls, s = run_labels v (init c) (List.map (fun x -> nat_of_int (int_of_string x)) sch) in
          Printf.printf "RUN {\"labels\":%s,\"args\":%s,\"outcome\":%s,\"quiescent\":%b}\n"
            (jlist (fun l -> "\"" ^ jlabel l ^ "\"") ls)
            (jlist label_key ls) (joutcome s)
            (quiescent v (erase s))
      | "BCFG" :: _ -> bcfg := parse_bcfg line
      | "BRUN" :: sch ->
          let ls, s = brun_labels (binit !bcfg) (List.map (fun x -> nat_of_int (int_of_string x)) sch) in
          Printf.printf "BRUN {\"labels\":%s,\"outcome\":%s}\n"
            (jlist (fun l -> "\"" ^ jlabel l ^ "\"") ls) (jboutcome s)
      | "EXPLORE" :: m :: _ ->
          let v, c = !cfg in
          explore v c (int_of_string m)
      | [] -> ()
      | _ -> print_endline "ERR bad request");
      flush stdout
    done
  with End_of_file -> ()
