"""nv_blocks.py <repo> <out.v> — regenerate the NV decomposition table used by
coq/Nv/Transpile.v (C08) by RUNNING the real NVSubroutineTranspiler on
single-gate subroutines: gate x qubit placement (electron id 0, carbons 1..3).

Recorded per row: the emitted block with registers abstracted to roles
(RA/RB = the gate's operands, RS = the borrowed scratch register), the leading
`set <scratch> v`, debug pseudo-instructions (debug=True run), and the appended
no-op.  Fail-closed: any shape the block language cannot express raises GenError;
the same block must come out for every choice of carbons / operand registers and
the debug=False block must be the debug=True block minus the pseudo-instructions.
"""
import sys

from coqemit import GenError, lst, s, z


def load(repo):
    if sys.path[0] != repo:
        sys.path.insert(0, repo)
    import netqasm

    assert netqasm.__file__.startswith(repo), netqasm.__file__
    from netqasm.lang.instr import DebugInstruction, core, nv, vanilla
    from netqasm.lang.operand import Immediate, Register, RegisterName
    from netqasm.lang.subroutine import Subroutine
    from netqasm.sdk.transpile import NVSubroutineTranspiler

    return dict(DebugInstruction=DebugInstruction, core=core, nv=nv, vanilla=vanilla, Immediate=Immediate,
                Register=Register, RegisterName=RegisterName, Subroutine=Subroutine, T=NVSubroutineTranspiler)


G1 = [("GX", "GateXInstruction"), ("GY", "GateYInstruction"), ("GZ", "GateZInstruction"), ("GH", "GateHInstruction"),
      ("GK", "GateKInstruction"), ("GS", "GateSInstruction"), ("GT", "GateTInstruction")]
G2 = [("Cnot", "CnotInstruction"), ("Cphase", "CphaseInstruction"), ("Mov", "MovInstruction")]
AX = {"RotXInstruction": "AX", "RotYInstruction": "AY", "RotZInstruction": "AZ",
      "ControlledRotXInstruction": "AX", "ControlledRotYInstruction": "AY"}


def transpile(m, instrs, debug=False):
    sub = m["Subroutine"](instructions=instrs, netqasm_version=(1, 0), app_id=0)
    return list(m["T"](sub, debug=debug).transpile().instructions)


def q(m, i):
    return m["Register"](m["RegisterName"].Q, i)


def g1_row(m, cls):
    rows = None
    for ri in (0, 3, 15):
        out = transpile(m, [getattr(m["vanilla"], cls)(reg=q(m, ri))])
        row = []
        for ins in out:
            n = type(ins).__name__
            if type(ins).__module__ != m["nv"].__name__ or n not in ("RotXInstruction", "RotYInstruction", "RotZInstruction"):
                raise GenError(f"{cls}: unexpected instruction {ins!r}")
            if ins.reg != q(m, ri):
                raise GenError(f"{cls}: rotation on a foreign register {ins!r}")
            row.append((AX[n], ins.angle_num.value, ins.angle_denom.value))
        if rows is not None and rows != row:
            raise GenError(f"{cls}: block depends on the register index")
        rows = row
    return rows


def abstract_block(m, out, ra, rb):
    """out: emitted instructions of ONE two-qubit gate -> (scratch value or None, items)"""
    scratch_reg, scratch_val, items = None, None, []

    def role(r):
        nonlocal scratch_reg
        if r == ra:
            return "RA"
        if r == rb:
            return "RB"
        if scratch_reg is not None and r == scratch_reg:
            return "RS"
        raise GenError(f"block uses register {r} which is neither operand nor scratch")

    for k, ins in enumerate(out):
        n = type(ins).__name__
        if isinstance(ins, m["DebugInstruction"]):
            items.append(("dbg", ins.text))
        elif isinstance(ins, m["core"].SetInstruction):
            if k != 0 or ins.reg.name != m["RegisterName"].Q or ins.reg in (ra, rb):
                raise GenError(f"unexpected set inside a block: {ins!r} at {k}")
            scratch_reg, scratch_val = ins.reg, ins.imm.value
        elif type(ins).__module__ == m["nv"].__name__ and n in ("RotXInstruction", "RotYInstruction", "RotZInstruction"):
            items.append(("rot", AX[n], role(ins.reg), ins.angle_num.value, ins.angle_denom.value))
        elif type(ins).__module__ == m["nv"].__name__ and n in ("ControlledRotXInstruction", "ControlledRotYInstruction"):
            items.append(("crot", AX[n], role(ins.reg0), role(ins.reg1), ins.angle_num.value, ins.angle_denom.value))
        else:
            raise GenError(f"unexpected instruction in a block: {ins!r}")
    return scratch_reg, scratch_val, items


PLACEMENTS = {
    "EC": [(0, 1), (0, 2), (0, 3)],
    "CE": [(1, 0), (2, 0), (3, 0)],
    "CC": [(1, 2), (2, 1), (1, 3), (3, 1), (2, 3), (3, 2)],
}


def g2_row(m, cls, pl):
    """block for gate cls at placement pl, or None when the transpiler refuses with RuntimeError"""
    Set = m["core"].SetInstruction
    Imm = m["Immediate"]
    seen = None
    for (a, b) in PLACEMENTS[pl]:
        for (ia, ib) in ((5, 6), (0, 1), (1, 0), (9, 2)):
            ra, rb = q(m, ia), q(m, ib)
            res = {}
            for debug in (True, False):
                pre = [Set(reg=ra, imm=Imm(a)), Set(reg=rb, imm=Imm(b))]
                try:
                    out = transpile(m, pre + [getattr(m["vanilla"], cls)(reg0=ra, reg1=rb)], debug=debug)
                except RuntimeError:
                    res[debug] = None
                    continue
                if out[:2] != pre:
                    raise GenError(f"{cls}/{pl}: the two leading sets were altered")
                sreg, sval, items = abstract_block(m, out[2:], ra, rb)
                if sreg is not None:
                    exp = next(q(m, i) for i in range(16) if q(m, i) not in (ra, rb))
                    if sreg != exp:
                        raise GenError(f"{cls}/{pl}: scratch register {sreg} is not the first unused one {exp}")
                res[debug] = (sval, items)
            if (res[True] is None) != (res[False] is None):
                raise GenError(f"{cls}/{pl}: refusal depends on debug")
            if res[True] is not None:
                if res[False] != (res[True][0], [i for i in res[True][1] if i[0] != "dbg"]):
                    raise GenError(f"{cls}/{pl}: debug=False block is not the debug=True block minus debug lines")
                if res[True][0] is None and any("RS" in it for it in res[True][1]):
                    raise GenError(f"{cls}/{pl}: scratch role without a leading set")
            if seen is not None and seen[0] != res[True]:
                raise GenError(f"{cls}/{pl}: block depends on the carbon / register choice: {seen[0]} vs {res[True]}")
            seen = (res[True],)
    return seen[0]


def noop(m):
    out = transpile(m, [m["core"].JmpInstruction(imm=m["Immediate"](1))])
    if len(out) != 2 or not isinstance(out[1], m["core"].SetInstruction):
        raise GenError(f"no-op shape not understood: {out}")
    return out[1].reg, out[1].imm.value


def tables(repo):
    m = load(repo)
    t = dict(g1={}, g2={}, noop=None)
    for (cn, cls) in G1:
        t["g1"][cn] = g1_row(m, cls)
    for (cn, cls) in G2:
        for pl in PLACEMENTS:
            t["g2"][(cn, pl)] = g2_row(m, cls, pl)
    r, v = noop(m)
    t["noop"] = (r.name.name, r.index, v)
    return t


def coq_item(it):
    if it[0] == "dbg":
        return f"BDbg {s(it[1])}"
    if it[0] == "rot":
        return f"BRot {it[1]} {it[2]} {z(it[3])} {z(it[4])}"
    return f"BCrot {it[1]} {it[2]} {it[3]} {z(it[4])} {z(it[5])}"


def emit(t, out):
    with open(out, "w") as f:
        f.write("(* GENERATED by gen/nv_blocks.py from the live NVSubroutineTranspiler — do not edit *)\n")
        f.write("From Coq Require Import ZArith List String.\nFrom NQ Require Import Nv.Transpile.\n"
                "Import ListNotations.\nOpen Scope Z_scope.\nOpen Scope string_scope.\n\n")
        f.write("Definition gen_g1 (g : gate1) : list (axis * Z * Z) :=\n  match g with\n")
        for cn, row in t["g1"].items():
            f.write(f"  | {cn} => {lst(f'({a}, {z(n)}, {z(d)})' for a, n, d in row)}\n")
        f.write("  end.\n\n")
        f.write("Definition gen_g2 (g : gate2) (p : placement) : option block :=\n  match g, p with\n")
        for (cn, pl), row in t["g2"].items():
            if row is None:
                f.write(f"  | {cn}, {pl} => None\n")
            else:
                sv = "None" if row[0] is None else f"(Some {z(row[0])})"
                f.write(f"  | {cn}, {pl} => Some (mkBlock {sv}\n      {lst((coq_item(i) for i in row[1]), sep=';' + chr(10) + '       ')})\n")
        f.write("  end.\n\n")
        bn, bi, v = t["noop"]
        f.write(f"Definition gen_noop : reg * Z := (mkReg B{bn} {bi}%nat, {z(v)}).\n")
        f.write("Definition gen_tables : tables := mkTables gen_g1 gen_g2 gen_noop.\n")


if __name__ == "__main__":
    repo, out = sys.argv[1], sys.argv[2]
    emit(tables(repo), out)
