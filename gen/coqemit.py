"""Helpers for emitting Coq source text from Python values (used by every
translator in gen/).  Fail-closed: unknown value shapes raise."""


def z(n):
    n = int(n)
    return f"({n})" if n < 0 else str(n)


def b(x):
    return "true" if x else "false"


def s(x):
    assert isinstance(x, str)
    assert '"' not in x and "\n" not in x, x
    return '"' + x + '"'


def lst(items, sep="; "):
    items = list(items)
    return "[" + sep.join(items) + "]"


def nat(n):
    n = int(n)
    assert 0 <= n < 5000
    return f"{n}%nat"


class GenError(Exception):
    """The source has a shape the translator does not understand."""
