"""gen/codec_tables.py — regenerate the codec tables and layouts from the live
/repo objects (G-tie of C01, C02, C16, C17).

Reads, per flavour: CORE_INSTRUCTIONS + flavour.instrs (source-list order), the
live id_map / name_map dicts, each class's id / mnemonic / operand field types,
the ctypes struct used by serialize() and by deserialize_from() (name taken from
the method source, layout from the ctypes descriptors), and the pairing
operand-leaf -> struct-leaf by one-hot probing of the real serialize() and
deserialize_from().

Emits Gen_Codec.v.  Fail-closed: anything unrecognised raises GenError.
"""
import ctypes
import dataclasses
import inspect
import re
import sys

from coqemit import GenError, b, lst, s, z

SIGNED = (ctypes.c_int8, ctypes.c_int16, ctypes.c_int32, ctypes.c_int64)
UNSIGNED = (ctypes.c_uint8, ctypes.c_uint16, ctypes.c_uint32, ctypes.c_uint64)


def all_fields(struct):
    out = []
    for klass in reversed(struct.__mro__):
        if "_fields_" in klass.__dict__:
            out.extend(klass.__dict__["_fields_"])
    return out


def leaf_fields(struct, base=0, prefix=""):
    """[(path, pos_bits, width_bits, signed)] for every leaf, padding included."""
    out = []
    for fld in all_fields(struct):
        name, typ = fld[0], fld[1]
        desc = getattr(struct, name)
        if len(fld) == 3:
            width = desc.size >> 16
            bitoff = desc.size & 0xFFFF
            if width != fld[2]:
                raise GenError(f"bit-field descriptor of {struct.__name__}.{name} not understood")
            signed = typ in SIGNED
            out.append((prefix + name, base + desc.offset * 8 + bitoff, width, signed))
        elif isinstance(typ, type) and issubclass(typ, ctypes.Structure):
            out.extend(leaf_fields(typ, base + desc.offset * 8, prefix + name + "."))
        elif isinstance(typ, type) and issubclass(typ, ctypes.Array):
            et = typ._type_
            if et not in SIGNED + UNSIGNED:
                raise GenError(f"array element type {et} in {struct.__name__}.{name}")
            w = ctypes.sizeof(et) * 8
            for k in range(typ._length_):
                out.append((f"{prefix}{name}[{k}]", base + desc.offset * 8 + k * w, w, et in SIGNED))
        elif typ in SIGNED + UNSIGNED:
            out.append((prefix + name, base + desc.offset * 8, ctypes.sizeof(typ) * 8, typ in SIGNED))
        elif isinstance(getattr(typ, "_type_", None), str) and typ._type_ in "bBhHiIlLqQ" and ctypes.sizeof(typ) > 1:
            # a byte-swapped (non-native-endian) integer: not expressible as one little-endian bit
            # range.  Recorded with the marker "swapped"; emitted to Coq as an ill-formed field so
            # that every layout obligation about this struct fails and names it.
            out.append((prefix + name, base + desc.offset * 8, ctypes.sizeof(typ) * 8, typ._type_.islower(), "swapped"))
        else:
            raise GenError(f"field type {typ} in {struct.__name__}.{name}")
    return out


def is_padding(path):
    return path.split(".")[-1].split("[")[0] == "padding"


def struct_value_with(struct, leaf_path, value):
    """An instance of struct with one leaf set to value, everything else 0."""
    inst = struct()
    obj = inst
    parts = leaf_path.split(".")
    for p in parts[:-1]:
        obj = getattr(obj, p)
    m = re.fullmatch(r"(\w+)\[(\d+)\]", parts[-1])
    if m:
        getattr(obj, m.group(1))[int(m.group(2))] = value
    else:
        setattr(obj, parts[-1], value)
    return inst


def read_leaf(inst, leaf_path):
    obj = inst
    parts = leaf_path.split(".")
    for p in parts[:-1]:
        obj = getattr(obj, p)
    m = re.fullmatch(r"(\w+)\[(\d+)\]", parts[-1])
    if m:
        return getattr(obj, m.group(1))[int(m.group(2))]
    return getattr(obj, parts[-1])


def load(repo):
    sys.path.insert(0, repo)
    import netqasm
    from netqasm.lang import encoding, operand
    from netqasm.lang.instr import flavour as fl

    if not netqasm.__file__.startswith(repo):
        raise GenError(f"netqasm imported from {netqasm.__file__}, expected under {repo}")
    return encoding, operand, fl


KIND_OF_TYPE = {
    "Register": "KReg",
    "Immediate": "KImm",
    "Address": "KAddr",
    "ArrayEntry": "KEntry",
    "ArraySlice": "KSlice",
}
NLEAVES = {"KReg": 2, "KImm": 1, "KAddr": 1, "KEntry": 3, "KSlice": 5}


def operand_fields(cls):
    flds = [f for f in dataclasses.fields(cls) if f.name not in ("id", "mnemonic", "lineno")]
    kinds = []
    for f in flds:
        t = f.type if isinstance(f.type, str) else getattr(f.type, "__name__", str(f.type))
        t = t.split(".")[-1]
        if t not in KIND_OF_TYPE:
            raise GenError(f"operand type {f.type} of {cls.__name__}.{f.name}")
        kinds.append(KIND_OF_TYPE[t])
    return [f.name for f in flds], kinds


def mk_operand(operand, encoding, kind, leafvals):
    RN = encoding.RegisterName
    if kind == "KReg":
        return operand.Register(RN(leafvals[0]), leafvals[1])
    if kind == "KImm":
        return operand.Immediate(leafvals[0])
    if kind == "KAddr":
        return operand.Address(leafvals[0])
    if kind == "KEntry":
        return operand.ArrayEntry(operand.Address(leafvals[0]), operand.Register(RN(leafvals[1]), leafvals[2]))
    if kind == "KSlice":
        return operand.ArraySlice(
            operand.Address(leafvals[0]),
            operand.Register(RN(leafvals[1]), leafvals[2]),
            operand.Register(RN(leafvals[3]), leafvals[4]),
        )
    raise GenError(kind)


def operand_leaves(operand, op):
    if isinstance(op, operand.Register):
        return [op.name.value, op.index]
    if isinstance(op, operand.Immediate):
        return [op.value]
    if isinstance(op, operand.Address):
        return [op.address]
    if isinstance(op, operand.ArrayEntry):
        return [op.address.address, op.index.name.value, op.index.index]
    if isinstance(op, operand.ArraySlice):
        return [op.address.address, op.start.name.value, op.start.index, op.stop.name.value, op.stop.index]
    raise GenError(f"operand {op!r}")


def struct_of_method(encoding, fn, pattern):
    """The *Command struct a method works with, read off its source: the one struct its text names."""
    src = inspect.getsource(fn)
    names = set(re.findall(pattern, src))
    if len(names) != 1:
        raise GenError(f"cannot identify the command struct of {fn.__qualname__}: {sorted(names)}")
    name = names.pop()
    st = getattr(encoding, name, None)
    if st is None or not issubclass(st, ctypes.Structure):
        raise GenError(f"{name} is not a ctypes struct")
    return st


def traced_structs(encoding, cls, thunk):
    """Behavioural fallback when the source of serialize()/deserialize_from() does not name exactly one
    struct (helper methods, structs imported by name, ...): run `thunk` with every ctypes struct of the
    encoding module replaced -- in the encoding module and in the modules of cls's bases -- by a
    recording subclass of identical layout, and return the command-sized structs with an `id` field
    that were instantiated or read from a buffer."""
    import sys as _sys

    used = []
    structs = [v for v in vars(encoding).values()
               if isinstance(v, type) and issubclass(v, ctypes.Structure) and v is not ctypes.Structure]
    recs = {}
    for S in structs:
        def mk(S=S):
            class Rec(S):
                def __init__(self, *a, **k):
                    used.append(S)
                    super().__init__(*a, **k)

                @classmethod
                def from_buffer_copy(c, *a, **k):
                    used.append(S)
                    return S.from_buffer_copy(*a, **k)

                @classmethod
                def from_buffer(c, *a, **k):
                    used.append(S)
                    return S.from_buffer(*a, **k)
            Rec.__name__, Rec.__qualname__ = S.__name__, S.__qualname__
            return Rec
        try:
            recs[S] = mk()
        except Exception:
            continue
    mods = {encoding}
    for base in cls.__mro__:
        m = _sys.modules.get(getattr(base, "__module__", None))
        if m is not None and getattr(m, "__name__", "").startswith("netqasm."):
            mods.add(m)
    patches = []
    for m in mods:
        for n, v in list(vars(m).items()):
            if isinstance(v, type) and v in recs:
                patches.append((m, n, v))
                setattr(m, n, recs[v])
    try:
        thunk()
    finally:
        for m, n, v in patches:
            setattr(m, n, v)
    out = []
    for S in used:
        try:
            ok = ctypes.sizeof(S) == encoding.COMMAND_BYTES and hasattr(S, "id")
        except Exception:
            ok = False
        if ok and S not in out:
            out.append(S)
    return out


def struct_of(encoding, cls, fn, thunk):
    try:
        return struct_of_method(encoding, fn, r"encoding\.(\w+Command)\b")
    except GenError as e:
        try:
            got = traced_structs(encoding, cls, thunk)
        except Exception as e2:
            raise GenError(f"{e}; tracing failed: {type(e2).__name__}: {e2}")
        if len(got) != 1:
            raise GenError(f"{e}; traced structs: {[g.__name__ for g in got]}")
        return got[0]


def row_of_class(encoding, operand, cls):
    """(name, id, mnemonic, kinds, enc_layout, dec_layout, enc_struct, dec_struct)"""
    names, kinds = operand_fields(cls)
    # the struct a method works with = the one *Command struct its source names (however it is called)
    nleaf = sum(NLEAVES[k] for k in kinds)

    def build(leafvals):
        ops, i = [], 0
        for k in kinds:
            ops.append(mk_operand(operand, encoding, k, leafvals[i : i + NLEAVES[k]]))
            i += NLEAVES[k]
        inst = cls.from_operands(ops)
        if list(inst.operands) != ops:
            raise GenError(f"{cls.__name__}.operands does not return the constructor operands in order")
        return inst

    # the struct a method works with = the one *Command struct its source names (however it is called);
    # if the source does not say, the one it is observed to instantiate / read
    enc_struct = struct_of(encoding, cls, cls.serialize, lambda: bytes(build([0] * nleaf).serialize()))
    zero0 = bytes(build([0] * nleaf).serialize())
    dec_struct = struct_of(encoding, cls, cls.deserialize_from, lambda: cls.deserialize_from(zero0))
    # --- encode pairing: operand leaf j -> struct leaf (one-hot probing of serialize) ---
    enc_leaves = leaf_fields(enc_struct)
    id_leaf = [lf for lf in enc_leaves if lf[0] == "id"]
    if len(id_leaf) != 1:
        raise GenError(f"{enc_struct.__name__} has no unique id field")
    zero = bytes(build([0] * nleaf).serialize())
    if len(zero) != ctypes.sizeof(enc_struct):
        raise GenError(f"{cls.__name__}.serialize() returns {len(zero)} bytes, struct has {ctypes.sizeof(enc_struct)}")
    z_inst = enc_struct.from_buffer_copy(zero)
    if read_leaf(z_inst, "id") != cls.id:
        raise GenError(f"{cls.__name__}.serialize() does not put the class id in the id field")
    enc_layout = [id_leaf[0]]
    for j in range(nleaf):
        vals = [0] * nleaf
        vals[j] = 1
        raw = bytes(build(vals).serialize())
        inst = enc_struct.from_buffer_copy(raw)
        hit = [lf for lf in enc_leaves if lf[0] != "id" and read_leaf(inst, lf[0]) != 0]
        if len(hit) != 1 or read_leaf(inst, hit[0][0]) != 1:
            # operand leaf j is written to no field, to several, or altered: record an impossible
            # field so that row_ok fails and names the class (the oracles then look for the input)
            enc_layout.append((f"<leaf {j} stored in {len(hit)} fields>", -1, 0, False))
        else:
            enc_layout.append(hit[0])

    # --- decode pairing: struct leaf -> operand leaf (one-hot probing of deserialize_from) ---
    dec_leaves = leaf_fields(dec_struct)
    id_leaf_d = [lf for lf in dec_leaves if lf[0] == "id"]
    if len(id_leaf_d) != 1:
        raise GenError(f"{dec_struct.__name__} has no unique id field")
    dec_map = {}
    for lf in dec_leaves:
        if lf[0] == "id" or is_padding(lf[0]):
            continue
        inst = struct_value_with(dec_struct, lf[0], 1)
        inst.id = cls.id
        got = cls.deserialize_from(bytes(inst))
        flat = []
        for op in got.operands:
            flat.extend(operand_leaves(operand, op))
        if len(flat) != nleaf:
            raise GenError(f"{cls.__name__}.deserialize_from yields {len(flat)} operand leaves, expected {nleaf}")
        for j, v in enumerate(flat):
            if v != 0:
                if v != 1:
                    raise GenError(f"{cls.__name__}.deserialize_from alters field {lf[0]}")
                dec_map.setdefault(j, []).append(lf)
    dec_layout = [id_leaf_d[0]]
    for j in range(nleaf):
        src = dec_map.get(j, [])
        if len(src) != 1:
            # operand leaf j is read from no field or from several: record an
            # impossible field so that row_ok fails and names the class
            dec_layout.append((f"<leaf {j} read from {len(src)} fields>", -1, 0, False))
        else:
            dec_layout.append(src[0])
    return dict(
        name=f"{cls.__module__.split('.')[-1]}.{cls.__name__}",
        id=cls.id,
        mnemonic=cls.mnemonic,
        kinds=kinds,
        enc=enc_layout,
        dec=dec_layout,
        enc_struct=enc_struct.__name__,
        dec_struct=dec_struct.__name__,
        cls=cls,
    )


def flavours(fl):
    return [("vanilla", fl.VanillaFlavour()), ("nv", fl.NVFlavour()), ("reids", fl.REIDSFlavour())]


def tables(repo):
    encoding, operand, fl = load(repo)
    cache = {}
    out = {}
    for fname, f in flavours(fl):
        classes = list(fl.CORE_INSTRUCTIONS) + list(f.instrs)
        rows = []
        for cls in classes:
            if cls not in cache:
                cache[cls] = row_of_class(encoding, operand, cls)
            rows.append(cache[cls])
        id_map = sorted((i, f"{c.__module__.split('.')[-1]}.{c.__name__}") for i, c in f.id_map.items())
        name_map = sorted((m, f"{c.__module__.split('.')[-1]}.{c.__name__}") for m, c in f.name_map.items())
        out[fname] = dict(rows=rows, id_map=id_map, name_map=name_map, flavour=f)
    hdr_leaves = [lf for lf in leaf_fields(encoding.Metadata) if not is_padding(lf[0])]
    header = dict(layout=hdr_leaves, nbytes=ctypes.sizeof(encoding.Metadata), names=[lf[0] for lf in hdr_leaves])
    structs = {}
    for name in dir(encoding):
        st = getattr(encoding, name)
        if isinstance(st, type) and issubclass(st, ctypes.Structure) and st is not ctypes.Structure:
            try:
                structs[name] = dict(size=ctypes.sizeof(st), leaves=leaf_fields(st))
            except GenError:
                pass
    return dict(flavours=out, header=header, command_bytes=encoding.COMMAND_BYTES, structs=structs)


def coq_field(lf):
    if len(lf) > 4 and lf[4] == "swapped":
        return f"mkF {z(lf[1])} {z(-lf[2])} {b(lf[3])}"
    return f"mkF {z(lf[1])} {z(lf[2])} {b(lf[3])}"


def emit(t):
    L = []
    L.append("(* GENERATED by gen/codec_tables.py from the live /repo objects. Do not edit. *)")
    L.append("From Coq Require Import ZArith List String.")
    L.append("From NQ Require Import Base.Bits Lang.Codec.")
    L.append("Import ListNotations.")
    L.append("Open Scope Z_scope.")
    L.append("Open Scope string_scope.")
    L.append("")
    L.append(f"Definition gen_command_bytes : nat := {t['command_bytes']}%nat.")
    h = t["header"]
    L.append(f"Definition gen_header : header := mkHdr {lst(coq_field(lf) for lf in h['layout'])} {h['nbytes']}%nat.")
    L.append(f"Definition gen_header_names : list string := {lst(s(n) for n in h['names'])}.")
    emitted = {}
    for fname, ft in t["flavours"].items():
        for r in ft["rows"]:
            ident = "row_" + r["name"].replace(".", "_")
            if ident in emitted:
                continue
            emitted[ident] = True
            L.append(
                f"Definition {ident} : row := mkRow {s(r['name'])} {z(r['id'])} {s(r['mnemonic'])} "
                f"{lst(r['kinds'])}\n  {lst(coq_field(x) for x in r['enc'])}\n  {lst(coq_field(x) for x in r['dec'])}."
            )
    for fname, ft in t["flavours"].items():
        L.append(f"Definition gen_{fname} : list row :=\n  {lst(('row_' + r['name'].replace('.', '_') for r in ft['rows']), sep=';\n   ')}.")
        L.append(f"Definition gen_{fname}_id_map : list (Z * string) :=\n  {lst(f'({z(i)}, {s(n)})' for i, n in ft['id_map'])}.")
        L.append(f"Definition gen_{fname}_name_map : list (string * string) :=\n  {lst(f'({s(m)}, {s(n)})' for m, n in ft['name_map'])}.")
    return "\n".join(L) + "\n"


if __name__ == "__main__":
    repo, out = sys.argv[1], sys.argv[2]
    t = tables(repo)
    open(out, "w").write(emit(t))
