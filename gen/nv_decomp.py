"""gen/nv_decomp.py — regenerate the NV decomposition table (G-tie of C07).

Runs the REAL NVSubroutineTranspiler (netqasm/sdk/transpile.py) on single-gate
vanilla subroutines

    set Q0 <id0> ; [set Q1 <id1> ;] <gate> Q0 [Q1]

for every vanilla gate it accepts x every placement of the operands on an NV node
(electron = virtual qubit 0, carbons = 1..3) x both hardware settings, and
records the emitted NV instruction sequence as a list of QMat.qop over wires
(see coq/Nv/NvSem.v for the wire convention).  Register operands are resolved to
virtual qubit ids by following the `set Q.. imm` instructions of the *emitted*
subroutine (this is how the borrowed electron of the carbon-carbon expansions
is recognised).

Rotations: a sample of (n, d) as table rows (matrix level) and an exhaustive
sweep over all 3 x 256 x 256 immediates in both modes, recorded as
  gen_sim_deviations  (simulation mode: every (axis,n,d) whose output is not the
                       single instruction rot_axis n d on the same register)
  gen_hw_lines        (hardware mode, d = 0..4: the emitted (n', d') for n = 0..255)
  gen_hw_deviations   (hardware mode: every (axis,n,d) whose output is not one rot_axis on the same register)
  gen_hw_accepted_dgt4 (hardware mode, d > 4: every (axis,n,d) NOT rejected)

usage: nv_decomp.py <repo> <out.v> [--json <path>]
Fail-closed: anything unrecognised raises GenError.
"""
import json
import sys

from coqemit import GenError, b, lst, s, z

AXES = ["x", "y", "z"]
AX_COQ = {"x": "AX", "y": "AY", "z": "AZ"}
G1 = ["X", "Y", "Z", "H", "K", "S", "T"]
CARBONS = [1, 2, 3]
ROT_SAMPLE_N = [0, 1, 3, 7, 8, 16, 24, 28, 31, 32, 100, 255]


def load(repo):
    sys.path.insert(0, repo)
    from netqasm.lang.instr import core, nv, vanilla
    from netqasm.lang.operand import Immediate, Register, RegisterName
    from netqasm.lang.subroutine import Subroutine
    from netqasm.runtime import settings
    from netqasm.sdk.transpile import NVSubroutineTranspiler

    class NS:
        pass

    ns = NS()
    ns.core, ns.nv, ns.vanilla = core, nv, vanilla
    ns.Immediate, ns.Register, ns.RegisterName = Immediate, Register, RegisterName
    ns.Subroutine, ns.settings, ns.T = Subroutine, settings, NVSubroutineTranspiler
    ns.g1 = {"X": vanilla.GateXInstruction, "Y": vanilla.GateYInstruction, "Z": vanilla.GateZInstruction,
             "H": vanilla.GateHInstruction, "K": vanilla.GateKInstruction, "S": vanilla.GateSInstruction,
             "T": vanilla.GateTInstruction}
    ns.rot = {"x": vanilla.RotXInstruction, "y": vanilla.RotYInstruction, "z": vanilla.RotZInstruction}
    ns.g2 = {"CNOT": vanilla.CnotInstruction, "CPHASE": vanilla.CphaseInstruction, "MOV": vanilla.MovInstruction}
    ns.nvrot = {nv.RotXInstruction: "x", nv.RotYInstruction: "y", nv.RotZInstruction: "z"}
    ns.nvcrot = {nv.ControlledRotXInstruction: "x", nv.ControlledRotYInstruction: "y"}
    return ns


def transpile(ns, instrs, hw):
    ns.settings.set_is_using_hardware(hw)
    try:
        sub = ns.Subroutine(instructions=instrs, arguments=[])
        return ns.T(sub).transpile().instructions
    finally:
        ns.settings.set_is_using_hardware(False)


def qreg(ns, i):
    return ns.Register(ns.RegisterName.Q, i)


def resolve(ns, out, wire_of_id, unknown_regs=None):
    """Emitted instruction list -> list of ('rot'|'crot', axis, wires..., n, d).
    Register values are followed through the emitted `set` instructions."""
    regval = {}
    ops = []
    for ins in out:
        if type(ins) is ns.core.SetInstruction:
            if ins.reg.name != ns.RegisterName.Q:
                raise GenError(f"set of a non-Q register in a gate expansion: {ins}")
            regval[ins.reg] = ins.imm.value
            continue

        def wire(reg):
            if unknown_regs is not None and reg in unknown_regs:
                return unknown_regs[reg]
            if reg not in regval:
                raise GenError(f"register {reg} used before being set in {ins}")
            v = regval[reg]
            if v not in wire_of_id:
                raise GenError(f"instruction {ins} touches qubit {v} which is not an operand nor the electron")
            return wire_of_id[v]

        if type(ins) in ns.nvrot:
            ops.append(("rot", ns.nvrot[type(ins)], wire(ins.reg), ins.angle_num.value, ins.angle_denom.value))
        elif type(ins) in ns.nvcrot:
            ops.append(("crot", ns.nvcrot[type(ins)], wire(ins.reg0), wire(ins.reg1),
                        ins.angle_num.value, ins.angle_denom.value))
        else:
            raise GenError(f"unexpected instruction {ins!r} ({type(ins).__name__}) in an NV gate expansion")
    return ops


def coq_op(op):
    if op[0] == "rot":
        _, ax, q, n, d = op
        return f"ORot {AX_COQ[ax]} {q} {z(n)} {z(d)}"
    _, ax, c, t, n, d = op
    return f"OCRot {AX_COQ[ax]} {c} {t} {z(n)} {z(d)}"


# ---------------------------------------------------------------- gates outside the frozen table
KNOWN_MNEMONICS = {"x", "y", "z", "h", "k", "s", "t", "rot_x", "rot_y", "rot_z", "cnot", "cphase", "mov"}


def k32_exact(zc, tol=1e-12):
    """Exact representation of a complex number in K32 = Z[1/2][w]/(w^32+1), w = e^{i pi/32}, searched among
    0, +-w^a / 2^m and (w^a +- w^b) / 2^m (entries of gates built from rotations by multiples of pi/16 are of
    this form; sqrt2 = w^8 - w^24).  Returns (32 integer coefficients, exponent of the denominator) or None."""
    import cmath
    import math
    W = [cmath.exp(1j * math.pi * k / 32) for k in range(64)]

    def poly(terms, m):
        c = [0] * 32
        for a, sgn in terms:
            a %= 64
            if a >= 32:
                a, sgn = a - 32, -sgn
            c[a] += sgn
        while m > 0 and all(x % 2 == 0 for x in c):
            c, m = [x // 2 for x in c], m - 1
        if all(x == 0 for x in c):
            m = 0
        return c, m

    if abs(zc) < tol:
        return [0] * 32, 0
    for m in range(0, 4):
        sc = 2 ** m
        for a in range(64):
            if abs(W[a] / sc - zc) < tol:
                return poly([(a, 1)], m)
        for a in range(64):
            for bb in range(a + 1, 64):
                for sb in (1, -1):
                    if abs((W[a] + sb * W[bb]) / sc - zc) < tol:
                        return poly([(a, 1), (bb, sb)], m)
    return None


def coq_k32(c, e):
    while c and c[-1] == 0:
        c = c[:-1]
    return "(mkK " + lst([z(x) for x in c]) + f"%Z {e}%nat)"


def custom_gates(ns):
    """Vanilla gate classes whose mnemonic is not in the frozen specification table: their operator is
    taken from the class's own to_matrix() (exact K32 form searched and verified numerically).  A class
    whose matrix has no exact form of the searched shapes is reported (fail-closed) through `problems`."""
    import inspect

    import numpy as np
    found, problems = [], []
    for name, cls in inspect.getmembers(ns.vanilla, inspect.isclass):
        if cls.__module__ != ns.vanilla.__name__:
            continue
        single = issubclass(cls, ns.core.SingleQubitInstruction)
        two = issubclass(cls, ns.core.TwoQubitInstruction)
        if not (single or two) or cls.mnemonic in KNOWN_MNEMONICS:
            continue
        try:
            ins = cls(reg=qreg(ns, 0)) if single else cls(reg0=qreg(ns, 0), reg1=qreg(ns, 1))
            M = np.asarray(ins.to_matrix(), dtype=complex)
        except Exception as e:  # noqa
            problems.append(f"{name}: to_matrix() raised {type(e).__name__}")
            continue
        dim = 2 if single else 4
        if M.shape != (dim, dim):
            problems.append(f"{name}: to_matrix() has shape {M.shape}")
            continue
        if np.max(np.abs(M.conj().T @ M - np.eye(dim))) > 1e-9:
            problems.append(f"{name}: published matrix is not unitary")
            continue
        exact = [[k32_exact(complex(M[r, c])) for c in range(dim)] for r in range(dim)]
        if any(x is None for row in exact for x in row):
            problems.append(f"{name} ({cls.mnemonic}): no exact K32 form found for its published matrix")
            continue
        if not all(ch.isalnum() or ch == "_" for ch in cls.mnemonic):
            problems.append(f"{name}: mnemonic {cls.mnemonic!r}")
            continue
        found.append(dict(cls=cls, clsname=name, mnemonic=cls.mnemonic, single=single, exact=exact,
                          matrix=[[[float(M[r, c].real), float(M[r, c].imag)] for c in range(dim)] for r in range(dim)]))
    return found, problems


def coq_custom(g):
    rows = lst([lst([coq_k32(list(c), e) for (c, e) in row]) for row in g["exact"]])
    return f"VCustom {s(g['mnemonic'])} {rows}"


def build_rows(ns, customs=()):
    rows = []  # dicts: name, gate(coq), place, hw, ops, meta
    for hw in (False, True):
        h = int(hw)
        # single-qubit fixed gates on the electron and on each carbon
        for g in G1:
            for q in [0] + CARBONS:
                out = transpile(ns, [ns.core.SetInstruction(reg=qreg(ns, 0), imm=ns.Immediate(q)),
                                     ns.g1[g](reg=qreg(ns, 0))], hw)
                ops = resolve(ns, out, {q: 0})
                rows.append(dict(name=f"{g.lower()} q{q} hw={h}", gate=f"VG1 G{g}", place="PSingle", hw=hw, ops=ops,
                                 meta=dict(gate=g, ids=[q], hw=hw)))
        # gates outside the frozen table, specification = their own published matrix
        for g in customs:
            if not g["single"]:
                continue
            for q in [0] + CARBONS:
                try:
                    out = transpile(ns, [ns.core.SetInstruction(reg=qreg(ns, 0), imm=ns.Immediate(q)),
                                         g["cls"](reg=qreg(ns, 0))], hw)
                except ValueError:
                    g["accepted"] = False       # not a gate the NV transpiler accepts: no row
                    break
                g["accepted"] = True
                ops = resolve(ns, out, {q: 0})
                rows.append(dict(name=f"{g['mnemonic']} q{q} hw={h} [spec from to_matrix]", gate=coq_custom(g), place="PSingle",
                                 hw=hw, ops=ops, meta=dict(gate="CUSTOM", mnemonic=g["mnemonic"], cls=g["clsname"],
                                                           matrix=g["matrix"], ids=[q], hw=hw)))
        # rotations (matrix level: sample; the exhaustive sweep is separate)
        for ax in AXES:
            for d in range(0, 5):
                for n in ROT_SAMPLE_N:
                    out = transpile(ns, [ns.core.SetInstruction(reg=qreg(ns, 0), imm=ns.Immediate(1)),
                                         ns.rot[ax](reg=qreg(ns, 0), imm0=ns.Immediate(n), imm1=ns.Immediate(d))], hw)
                    ops = resolve(ns, out, {1: 0})
                    rows.append(dict(name=f"rot_{ax} {n} {d} q1 hw={h}", gate=f"VRot {AX_COQ[ax]} {z(n)} {z(d)}",
                                     place="PSingle", hw=hw, ops=ops, meta=dict(gate="ROT_" + ax.upper(), n=n, d=d, ids=[1], hw=hw)))
        # two-qubit gates
        placements = [(0, c, "PEC") for c in CARBONS] + [(c, 0, "PCE") for c in CARBONS] + \
                     [(a, c, "PCC") for a in CARBONS for c in CARBONS if a != c]
        for g in ["CNOT", "CPHASE", "MOV"]:
            for (a, c, pl) in placements:
                instrs = [ns.core.SetInstruction(reg=qreg(ns, 0), imm=ns.Immediate(a)),
                          ns.core.SetInstruction(reg=qreg(ns, 1), imm=ns.Immediate(c)),
                          ns.g2[g](reg0=qreg(ns, 0), reg1=qreg(ns, 1))]
                try:
                    out = transpile(ns, instrs, hw)
                except RuntimeError as e:
                    if g == "MOV" and pl == "PCC":
                        continue  # carbon -> carbon moves are rejected by the transpiler: not an accepted gate
                    raise GenError(f"transpiler rejected {g} {a} {c}: {e!r}")
                if g == "MOV" and pl == "PCC":
                    raise GenError("carbon-carbon MOV is now accepted: extend the table semantics")
                if pl == "PEC":
                    w = {0: 0, c: 1}
                elif pl == "PCE":
                    w = {0: 0, a: 1}
                else:
                    w = {0: 0, a: 1, c: 2}
                ops = resolve(ns, out, w)
                gate = "VMov" if g == "MOV" else f"VG2 G{g}"
                rows.append(dict(name=f"{g.lower()} q{a} q{c} hw={h}", gate=gate, place=pl, hw=hw, ops=ops,
                                 meta=dict(gate=g, ids=[a, c], hw=hw)))
        for g in customs:
            if g["single"]:
                continue
            for (a, c, pl) in placements:
                instrs = [ns.core.SetInstruction(reg=qreg(ns, 0), imm=ns.Immediate(a)),
                          ns.core.SetInstruction(reg=qreg(ns, 1), imm=ns.Immediate(c)),
                          g["cls"](reg0=qreg(ns, 0), reg1=qreg(ns, 1))]
                try:
                    out = transpile(ns, instrs, hw)
                except (ValueError, RuntimeError, AssertionError):
                    g["accepted"] = False
                    break
                g["accepted"] = True
                w = {0: 0, c: 1} if pl == "PEC" else {0: 0, a: 1} if pl == "PCE" else {0: 0, a: 1, c: 2}
                ops = resolve(ns, out, w)
                rows.append(dict(name=f"{g['mnemonic']} q{a} q{c} hw={h} [spec from to_matrix]", gate=coq_custom(g), place=pl,
                                 hw=hw, ops=ops, meta=dict(gate="CUSTOM", mnemonic=g["mnemonic"], cls=g["clsname"],
                                                           matrix=g["matrix"], ids=[a, c], hw=hw)))
        # MOV whose operand registers are not known at transpile time: the transpiler
        # assumes electron -> carbon (documented in _handle_two_qubit_gate)
        r0, r1 = qreg(ns, 0), qreg(ns, 1)
        out = transpile(ns, [ns.g2["MOV"](reg0=r0, reg1=r1)], hw)
        ops = resolve(ns, out, {}, unknown_regs={r0: 0, r1: 1})
        rows.append(dict(name=f"mov unknown-registers hw={h}", gate="VMov", place="PEC", hw=hw, ops=ops,
                         meta=dict(gate="MOV", ids=None, hw=hw)))
    return rows


def safe_resolve(ns, out, wire_of_id):
    """resolve() that never raises: an instruction it does not understand becomes an
    ('unresolved', text) entry so that the deviation is recorded as data."""
    try:
        return resolve(ns, out, wire_of_id)
    except GenError as e:
        return [("unresolved", str(e)[:200], [str(i) for i in out][:20])]


def rotation_sweep(ns):
    """Exhaustive: all axes x n, d in 0..255 x both modes.  Records WHAT WAS EMITTED for
    every (axis, n, d, mode) - possibly nothing, possibly several instructions - and
    never raises on an unexpected shape:
      sim_dev : simulation mode, emitted list != [rot_axis n d on the same qubit]
      hw_lines: hardware mode, d <= 4: (n', d') when exactly one rot_axis on the same qubit
                was emitted, None when rejected (ValueError) or the shape is different
      hw_dev  : hardware mode, any d: emitted list of a different shape (nothing, several, other axis...)
      hw_acc  : hardware mode, d > 4: accepted with a single rotation (n', d')
    """
    sim_dev, hw_lines, hw_acc, hw_dev = [], [], [], []
    reg = qreg(ns, 0)
    count = 0
    for ax in AXES:
        cls = ns.rot[ax]
        lines = {d: [] for d in range(5)}
        for d in range(256):
            for n in range(256):
                mk = lambda: [ns.core.SetInstruction(reg=reg, imm=ns.Immediate(2)),
                              cls(reg=reg, imm0=ns.Immediate(n), imm1=ns.Immediate(d))]
                # simulation mode
                try:
                    ops = safe_resolve(ns, transpile(ns, mk(), False), {2: 0})
                except Exception as e:  # noqa: the transpiler refused an encodable rotation
                    ops = [("raised", type(e).__name__, str(e)[:200])]
                count += 1
                if ops != [("rot", ax, 0, n, d)]:
                    sim_dev.append((ax, n, d, ops))
                # hardware mode
                res, ops = None, None
                try:
                    ops = safe_resolve(ns, transpile(ns, mk(), True), {2: 0})
                except ValueError:
                    ops = None  # rejected (expected for d > 4)
                except Exception as e:  # noqa
                    ops = [("raised", type(e).__name__, str(e)[:200])]
                if ops is not None:
                    if len(ops) == 1 and ops[0][0] == "rot" and ops[0][1] == ax and ops[0][2] == 0:
                        res = (ops[0][3], ops[0][4])
                    else:
                        hw_dev.append((ax, n, d, ops))
                count += 1
                if d <= 4:
                    lines[d].append(res)
                elif res is not None:
                    hw_acc.append((ax, n, d, res))
        for d in range(5):
            hw_lines.append((ax, d, lines[d]))
    return sim_dev, hw_lines, hw_acc, count, hw_dev


def emit(rows, sweep, path):
    sim_dev, hw_lines, hw_acc, count, hw_dev = sweep
    o = []
    o.append("(* GENERATED by gen/nv_decomp.py from the live NVSubroutineTranspiler - do not edit *)")
    o.append("From Coq Require Import ZArith List Bool String.")
    o.append("From NQ Require Import Base.Cyclo Base.QMat Nv.NvSem.")
    o.append("Import ListNotations.")
    o.append("Open Scope string_scope.")
    o.append("Definition gen_rows : list nvrow := [")
    body = []
    for r in rows:
        ops = lst([coq_op(op) for op in r["ops"]])
        body.append(f"  mkRow {s(r['name'])} ({r['gate']}) {r['place']} {b(r['hw'])} ({ops})%nat")
    o.append(";\n".join(body))
    o.append("].")

    def opt(p):
        return "None" if p is None else f"Some ({z(p[0])}, {z(p[1])})%Z"

    o.append("Definition gen_hw_lines : list (axis * Z * list (option (Z * Z))) := [")
    o.append(";\n".join(f"  ({AX_COQ[ax]}, {z(d)}%Z, {lst([opt(p) for p in line])})" for ax, d, line in hw_lines))
    o.append("].")
    # deviations are rendered as readable strings: the expected value is the empty list
    o.append("Definition gen_sim_deviations : list string := " +
             lst([s(f"rot_{ax} {n} {d} -> {len(ops)} instr") for ax, n, d, ops in sim_dev[:50]]) + ".")
    o.append("Definition gen_hw_deviations : list string := " +
             lst([s(f"rot_{ax} {n} {d} -> {len(ops)} instr") for ax, n, d, ops in hw_dev[:50]]) + ".")
    o.append("Definition gen_hw_accepted_dgt4 : list string := " +
             lst([s(f"rot_{ax} {n} {d} -> {res[0]} {res[1]}") for ax, n, d, res in hw_acc[:50]]) + ".")
    o.append(f"Definition gen_sweep_count : Z := {count}%Z.")
    open(path, "w").write("\n".join(o) + "\n")


def main():
    repo, out = sys.argv[1], sys.argv[2]
    ns = load(repo)
    customs, problems = custom_gates(ns)
    rows = build_rows(ns, customs)
    sweep = rotation_sweep(ns)
    emit(rows, sweep, out)
    if "--json" in sys.argv:
        jp = sys.argv[sys.argv.index("--json") + 1]
        json.dump(dict(derived=[dict(cls=g["clsname"], mnemonic=g["mnemonic"], accepted=g.get("accepted"),
                                     matrix=g["matrix"]) for g in customs],
                       derived_problems=problems,
                       rows=[dict(name=r["name"], place=r["place"], ops=r["ops"], meta=r["meta"]) for r in rows],
                       sim_dev=[(a, n, d, ops) for a, n, d, ops in sweep[0]],
                       hw_dev=[(a, n, d, ops) for a, n, d, ops in sweep[4]],
                       hw_acc=sweep[2], sweep_count=sweep[3],
                       hw_lines=[(a, d, line) for a, d, line in sweep[1]]), open(jp, "w"))


if __name__ == "__main__":
    main()
