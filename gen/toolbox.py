"""gen/toolbox.py — regenerate the SDK-level gate lists of the toolbox (G-tie of C20).

Calls the REAL netqasm.sdk.toolbox functions
    toffoli_gate, t_inverse, parity_meas (every string over {I,X,Y,Z} of length
    1..3, with and without a leading '-'), set_qubit_state
on recording qubit objects (subclass of sdk.qubit.Qubit whose gate methods
record (gate, wire) instead of building commands; measure returns a recording
Future whose add(1, mod=2) is recorded) and emits Gen_Toolbox.v.

Wires are numbered in creation order: the data qubits first (in the order they
are passed), an ancilla created by the toolbox gets the next wire.

usage: toolbox.py <repo> <out.v> [--json <path>]
Fail-closed without crashing: an SDK call the recorder does not know, or a shape the model cannot
express, is recorded as a note and rendered as a row / list that cannot satisfy its Coq obligation.
"""
import itertools
import json
import sys

from coqemit import GenError, b, lst, z


def load(repo):
    sys.path.insert(0, repo)
    import netqasm.sdk.toolbox.measurements as meas_mod
    from netqasm.sdk.futures import Future
    from netqasm.sdk.qubit import Qubit
    from netqasm.sdk.toolbox.gates import t_inverse, toffoli_gate
    from netqasm.sdk.toolbox.state_prep import set_qubit_state

    class RecConn:
        def __init__(self):
            self.log = []
            self.nwires = 0

    class RecFuture(Future):
        def __init__(self, conn, wire):  # noqa: deliberately does not call Future.__init__
            self._rconn = conn
            self._wire = wire

        def add(self, other, mod=None):
            if other != 1 or mod != 2:
                raise GenError(f"Future.add({other!r}, mod={mod!r}) is not a result flip")
            self._rconn.log.append(("flip",))

        def __getattr__(self, name):
            raise GenError(f"toolbox uses Future.{name}, which the recorder does not model")

    class RecQubit(Qubit):
        def __init__(self, conn, *a, **kw):  # noqa: deliberately does not call Qubit.__init__
            if a or kw:
                raise GenError(f"Qubit(conn, {a}, {kw}): unexpected arguments")
            if not isinstance(conn, RecConn):
                raise GenError("qubit created on a foreign connection")
            object.__setattr__(self, "_conn", conn)
            object.__setattr__(self, "_w", conn.nwires)
            conn.nwires += 1
            conn.log.append(("new", self._w))

        def _g1(self, g):
            self._conn.log.append(("g1", g, self._w))

        def X(self): self._g1("X")
        def Y(self): self._g1("Y")
        def Z(self): self._g1("Z")
        def H(self): self._g1("H")
        def K(self): self._g1("K")
        def S(self): self._g1("S")
        def T(self): self._g1("T")

        def _rot(self, ax, n, d, angle):
            if angle is not None:
                self._conn.log.append(("rot_angle", ax, self._w, angle))
            else:
                self._conn.log.append(("rot", ax, self._w, int(n), int(d)))

        def rot_X(self, n=0, d=0, angle=None): self._rot("x", n, d, angle)
        def rot_Y(self, n=0, d=0, angle=None): self._rot("y", n, d, angle)
        def rot_Z(self, n=0, d=0, angle=None): self._rot("z", n, d, angle)

        def cnot(self, target):
            if not isinstance(target, RecQubit):
                raise GenError("cnot target is not a recorded qubit")
            self._conn.log.append(("g2", "CNOT", self._w, target._w))

        def cphase(self, target):
            if not isinstance(target, RecQubit):
                raise GenError("cphase target is not a recorded qubit")
            self._conn.log.append(("g2", "CPHASE", self._w, target._w))

        def measure(self, future=None, inplace=False, store_array=True, **kw):
            if future is not None or kw:
                raise GenError(f"measure(future={future!r}, {kw}) not modelled")
            self._conn.log.append(("meas", self._w, bool(inplace)))
            return RecFuture(self._conn, self._w)

        def __getattr__(self, name):
            raise GenError(f"toolbox uses Qubit.{name}, which the recorder does not model")

    class NS:
        pass

    ns = NS()
    ns.RecConn, ns.RecQubit, ns.RecFuture = RecConn, RecQubit, RecFuture
    ns.meas_mod, ns.t_inverse, ns.toffoli_gate, ns.set_qubit_state = meas_mod, t_inverse, toffoli_gate, set_qubit_state
    return ns


def record_unitary(ns, fn, nq):
    """Never raises: unexpected operations are kept out of the list and noted (the Coq
    obligation about the regenerated list then decides)."""
    conn = ns.RecConn()
    note = None
    try:
        qs = [ns.RecQubit(conn) for _ in range(nq)]
        fn(*qs)
    except Exception as e:  # noqa
        note = f"{type(e).__name__}: {e}"
    ops = [e for e in conn.log if e[0] in ("g1", "g2", "rot")]
    odd = [e for e in conn.log if e[0] not in ("g1", "g2", "rot", "new")]
    if conn.nwires != nq or odd:
        note = (note or "") + f" unexpected operations {odd}, {conn.nwires} qubits"
    return ops, note


def record_parity(ns, bases, negative):
    """Record what parity_meas does on fresh recording qubits.  Never raises: a shape the
    model cannot express is recorded with a note and rendered as a row that cannot check."""
    conn = ns.RecConn()
    nd = len(bases)
    qs = [ns.RecQubit(conn) for _ in range(nd)]
    saved = ns.meas_mod.Qubit
    ns.meas_mod.Qubit = ns.RecQubit  # the ancilla is created through the module-level name
    note, m = None, None
    try:
        m = ns.meas_mod.parity_meas(qs, ("-" if negative else "") + bases)
    except Exception as e:  # noqa
        note = f"parity_meas raised {type(e).__name__}: {e}"
    finally:
        ns.meas_mod.Qubit = saved
    raw = [e for e in conn.log[nd:]]
    news = [e for e in raw if e[0] == "new"]
    anc = news[0][1] if news else None
    if len(news) > 1:
        note = (note or "") + " more than one extra qubit created"
    ops = [e for e in raw if e[0] != "new"]
    # operations touching a wire that belongs to another recording connection cannot be expressed
    for e in ops:
        ws = [e[2]] if e[0] == "g1" else [e[2], e[3]] if e[0] == "g2" else [e[1]] if e[0] == "meas" else []
        if any(w >= conn.nwires for w in ws):
            note = (note or "") + f" operation on a qubit of another connection: {e}"
    meas = [e for e in ops if e[0] == "meas"]
    const = None
    if note is None:
        if not isinstance(m, ns.RecFuture) and isinstance(m, int):
            if meas or any(e[0] == "flip" for e in ops):
                note = "constant result together with a measurement"
            elif m not in (0, 1):
                note = f"constant result {m}"
            else:
                const = m
        elif not isinstance(m, ns.RecFuture) or len(meas) != 1:
            note = f"returned {type(m).__name__} with {len(meas)} measurements"
        elif m._wire != meas[0][1]:
            note = "returned future is not the recorded measurement"
    return dict(bases=bases, neg=negative, nd=nd, anc=anc is not None, ops=ops, const=const, note=note)


def record_state_prep(ns):
    conn = ns.RecConn()
    q = ns.RecQubit(conn)
    PHI, THETA = 0.625, 1.375  # distinct marker values to recognise which angle goes where
    ns.set_qubit_state(q, phi=PHI, theta=THETA)
    out = []
    for e in conn.log[1:]:
        if e[0] != "rot_angle" or e[2] != 0:
            raise GenError(f"set_qubit_state: unexpected operation {e}")
        if e[3] == PHI:
            out.append((e[1], "phi"))
        elif e[3] == THETA:
            out.append((e[1], "theta"))
        else:
            raise GenError(f"set_qubit_state rotates by {e[3]}, neither phi nor theta")
    # default arguments must be (phi=0, theta=0) -> no net rotation markers needed; positional order check
    conn2 = ns.RecConn()
    q2 = ns.RecQubit(conn2)
    ns.set_qubit_state(q2, PHI, THETA)
    pos = [(e[1], "phi" if e[3] == PHI else "theta") for e in conn2.log[1:]]
    if pos != out:
        raise GenError("set_qubit_state positional order is not (qubit, phi, theta)")
    return out


AXC = {"x": "AX", "y": "AY", "z": "AZ"}


def coq_qop(e):
    if e[0] == "g1":
        return f"OG1 G{e[1]} {e[2]}"
    if e[0] == "g2":
        return f"OG2 G{e[1]} {e[2]} {e[3]}"
    if e[0] == "rot":
        return f"ORot {AXC[e[1]]} {e[2]} {z(e[3])} {z(e[4])}"
    raise GenError(f"cannot render {e}")


def coq_tbop(e):
    if e[0] in ("g1", "g2", "rot"):
        return f"TG ({coq_qop(e)})"
    if e[0] == "meas":
        return f"TMeas {e[1]} {b(e[2])}"
    if e[0] == "flip":
        return "TFlip"
    raise GenError(f"cannot render {e}")


def all_strings():
    for n in (1, 2, 3):
        for t in itertools.product("IXYZ", repeat=n):
            yield "".join(t)


def main():
    repo, out = sys.argv[1], sys.argv[2]
    ns = load(repo)
    tof, tof_note = record_unitary(ns, ns.toffoli_gate, 3)
    tinv, tinv_note = record_unitary(ns, ns.t_inverse, 1)
    rows = [record_parity(ns, s, neg) for s in all_strings() for neg in (False, True)]
    try:
        sp, sp_note = record_state_prep(ns), None
    except Exception as e:  # noqa
        sp, sp_note = [], f"{type(e).__name__}: {e}"
    o = ["(* GENERATED by gen/toolbox.py from the live netqasm.sdk.toolbox - do not edit *)",
         "From Coq Require Import ZArith List Bool.",
         "From NQ Require Import Base.Cyclo Base.QMat Toolbox.ToolboxSem.",
         "Import ListNotations.",
         f"Definition gen_toffoli : list qop := ({lst([coq_qop(e) for e in tof])})%nat.",
         f"Definition gen_t_inverse : list qop := ({lst([coq_qop(e) for e in tinv])})%nat.",
         "Definition gen_parity : list pmrow := ["]
    body = []
    for r in rows:
        bases = lst(["P" + c for c in r["bases"]])
        if r["note"] is not None:
            # not expressible: a row without operations and without constant never checks
            body.append(f"  mkPm {bases} {b(r['neg'])} {b(r['anc'])} [] None")
            continue
        const = "None" if r["const"] is None else f"(Some {b(r['const'] == 1)})"
        body.append(f"  mkPm {bases} {b(r['neg'])} {b(r['anc'])} ({lst([coq_tbop(e) for e in r['ops']])})%nat {const}")
    o.append(";\n".join(body))
    o.append("].")
    o.append("Definition gen_state_prep : list sprot := " +
             lst([f"SpRot {AXC[ax]} {'SpPhi' if which == 'phi' else 'SpTheta'}" for ax, which in sp]) + ".")
    open(out, "w").write("\n".join(o) + "\n")
    if "--json" in sys.argv:
        jp = sys.argv[sys.argv.index("--json") + 1]
        json.dump(dict(toffoli=tof, t_inverse=tinv, parity=rows, state_prep=sp,
                       notes=dict(toffoli=tof_note, t_inverse=tinv_note, state_prep=sp_note,
                                  parity=[(("-" if r["neg"] else "") + r["bases"], r["note"]) for r in rows if r["note"]])),
                  open(jp, "w"), default=str)


if __name__ == "__main__":
    main()
