"""gen/epr_tables.py — regenerate the EPR boundary tables from the live /repo
objects (G-tie of C11 and of the finite parts of C10).  Emits Gen_Epr.v.

Reads (live objects, nothing is parsed from source text):
  * netqasm.sdk.build_epr: every SER_CREATE_IDX_* / SER_RESPONSE_KEEP_IDX_* /
    SER_RESPONSE_MEASURE_IDX_* constant and the three *_LEN constants;
  * netqasm.qlink_compat: LinkLayerCreate / LinkLayerOKTypeK / LinkLayerOKTypeM
    `_fields` and `__new__.__defaults__`; members of EPRType, RequestType,
    ReturnType, RandomBasis, Basis, BellState, TimeUnit; members of
    qlink_interface.RandomBasis / BellState; response_from_qlink_1_0 evaluated on a
    ResCreateAndKeep / ResMeasureDirectly per qlink Bell state, given as enum member AND
    as its plain integer value (what value ends up in the results array and how the SDK
    decodes it);
  * netqasm.backend.network_stack CREATE_FIELDS / OK_FIELDS_K / OK_FIELDS_M and the
    OK_FIELDS name the executor module uses for its slice arithmetic;
  * by probing the real functions with an index-echo array: which array index every
    attribute of EprKeepResult / EprMeasureResult / Qubit.entanglement_info of pair i
    reads (deserialize_epr_keep_results, deserialize_epr_measure_results,
    Builder._create_ent_info_k_slices), for n = 1..4; the probe must fit
    i*stride + idx, otherwise GenError;
  * (C10) the Pauli gates `_build_cmds_epr_keep_corrections_single_pair` applies for
    each BellState value: the real builder code is executed by the real executor
    (harness/sdk_pipeline.py) with the Bell-state register preset, gates recorded;
  * (C10) EprMeasureResult.measurement_outcome on all 6 bases x 4 Bell states x 2 raw
    outcomes, basis_to_rotation / rotation_to_basis on all 6 bases.
Fail-closed: anything of an unexpected shape raises GenError.
"""
import enum
import os
import sys

from coqemit import GenError, lst, s, z


def nat(n):
    n = int(n)
    if not 0 <= n < 100000:
        raise GenError(f"index {n} out of the expected range")
    return f"{n}%nat"


# names of the SER_CREATE_IDX_* constants the model's serializer refers to (by role)
SER_ROLES = [
    ("TYPE", "SER_CREATE_IDX_TYPE"),
    ("NUMBER", "SER_CREATE_IDX_NUMBER"),
    ("RBL", "SER_CREATE_IDX_RANDOM_BASIS_LOCAL"),
    ("RBR", "SER_CREATE_IDX_RANDOM_BASIS_REMOTE"),
    ("TU", "SER_CREATE_IDX_TIME_UNIT"),
    ("MT", "SER_CREATE_IDX_MAX_TIME"),
    ("RXL1", "SER_CREATE_IDX_ROTATION_X_LOCAL1"),
    ("RYL", "SER_CREATE_IDX_ROTATION_Y_LOCAL"),
    ("RXL2", "SER_CREATE_IDX_ROTATION_X_LOCAL2"),
    ("RXR1", "SER_CREATE_IDX_ROTATION_X_REMOTE1"),
    ("RYR", "SER_CREATE_IDX_ROTATION_Y_REMOTE"),
    ("RXR2", "SER_CREATE_IDX_ROTATION_X_REMOTE2"),
]


class EchoArray:
    """array stand-in: every future is the index it would read"""

    def __init__(self, n):
        self.n = n

    def __len__(self):
        return self.n

    def get_future_index(self, k):
        if isinstance(k, bool) or not isinstance(k, int):
            raise GenError(f"get_future_index called with {k!r}")
        return k

    def get_future_slice(self, sl):
        if not isinstance(sl, slice) or sl.step not in (None, 1):
            raise GenError(f"get_future_slice called with {sl!r}")
        return list(range(sl.start, sl.stop))


def affine(table, what):
    """table: {i: {attr: index}} for one n.  Returns (stride, {attr: idx}) with
    index == i*stride + idx for all i, or raises."""
    attrs = list(table[0])
    idx = {a: table[0][a] for a in attrs}
    stride = None
    for i, row in table.items():
        if list(row) != attrs:
            raise GenError(f"{what}: attribute sets differ between pairs")
        for a in attrs:
            if i == 0:
                continue
            d, r = divmod(row[a] - idx[a], i)
            if r != 0 or (stride is not None and d != stride):
                raise GenError(f"{what}: index of {a} for pair {i} is {row[a]}, not affine in i")
            stride = d
    return stride, idx


def enum_members(E):
    if not (isinstance(E, type) and issubclass(E, enum.Enum)):
        raise GenError(f"{E!r} is not an Enum")
    out = []
    for name, m in E.__members__.items():  # includes aliases, in definition order
        if not isinstance(m.value, int) or isinstance(m.value, bool):
            raise GenError(f"{E.__name__}.{name} has non-int value {m.value!r}")
        out.append((name, m.value))
    return out


def dflt(v):
    if isinstance(v, enum.Enum):
        return ("enum", type(v).__name__, v.value)
    if isinstance(v, bool) or not isinstance(v, int):
        raise GenError(f"default {v!r} is neither int nor enum member")
    return ("int", v)


class FakeFuture:
    def __init__(self, v):
        self.value = v

    def __int__(self):
        return self.value


def tables(repo):
    if sys.path[0] != repo:
        sys.path.insert(0, repo)
    import netqasm

    if not netqasm.__file__.startswith(repo):
        raise GenError(f"netqasm imported from {netqasm.__file__}, expected under {repo}")
    import qlink_interface as ql
    from netqasm import qlink_compat as qc
    from netqasm.backend import executor as ex_mod
    from netqasm.backend import network_stack as ns
    from netqasm.sdk import build_epr as be

    t = {}
    # ---- SER_* constants
    consts = {k: v for k, v in vars(be).items() if k.startswith("SER_")}
    for k, v in consts.items():
        if isinstance(v, bool) or not isinstance(v, int) or v < 0:
            raise GenError(f"{k} = {v!r}")
    t["ser_create"] = {k[len("SER_CREATE_IDX_"):]: v for k, v in consts.items() if k.startswith("SER_CREATE_IDX_")}
    t["ser_keep"] = {k[len("SER_RESPONSE_KEEP_IDX_"):]: v for k, v in consts.items()
                     if k.startswith("SER_RESPONSE_KEEP_IDX_")}
    t["ser_measure"] = {k[len("SER_RESPONSE_MEASURE_IDX_"):]: v for k, v in consts.items()
                        if k.startswith("SER_RESPONSE_MEASURE_IDX_")}
    for need in ("SER_CREATE_LEN", "SER_RESPONSE_KEEP_LEN", "SER_RESPONSE_MEASURE_LEN"):
        if need not in consts:
            raise GenError(f"{need} missing")
    t["create_len"], t["keep_len"], t["measure_len"] = (consts["SER_CREATE_LEN"], consts["SER_RESPONSE_KEEP_LEN"],
                                                        consts["SER_RESPONSE_MEASURE_LEN"])
    t["roles"] = {}
    for role, cname in SER_ROLES:
        if cname not in consts:
            raise GenError(f"{cname} missing")
        t["roles"][role] = consts[cname]
    # ---- tuples
    for key, cls in (("create", qc.LinkLayerCreate), ("okk", qc.LinkLayerOKTypeK), ("okm", qc.LinkLayerOKTypeM)):
        flds = list(cls._fields)
        d = cls.__new__.__defaults__
        if d is None or len(d) != len(flds):
            raise GenError(f"{cls.__name__}: defaults do not cover all fields")
        t[key + "_fields"] = flds
        t[key + "_defaults"] = [dflt(v) for v in d]
    # ---- enums
    t["enums"] = {E.__name__: enum_members(E) for E in
                  (qc.EPRType, qc.EPRRole, qc.RequestType, qc.ReturnType, qc.RandomBasis, qc.Basis, qc.BellState,
                   qc.TimeUnit, be.EprMeasBasis)}
    t["qlink_enums"] = {"RandomBasis": enum_members(ql.RandomBasis), "BellState": enum_members(ql.BellState)}
    # ---- stride constants
    t["CREATE_FIELDS"], t["OK_FIELDS_K"], t["OK_FIELDS_M"] = ns.CREATE_FIELDS, ns.OK_FIELDS_K, ns.OK_FIELDS_M
    t["EXEC_OK_FIELDS"] = ex_mod.OK_FIELDS
    # ---- qlink 1.0 Bell state through the real conversion (response_from_qlink_1_0) and the array
    # encoding, on ALL inputs of both legitimate kinds: the enum member and its plain integer value
    # (qlink_interface.ResCreate.bell_state is declared int)
    conv = []
    for name, m in ql.BellState.__members__.items():
        for kind, inp in (("enum", m), ("int", m.value)):
            if kind == "int" and (isinstance(inp, bool) or type(inp) is not int):
                raise GenError(f"qlink BellState.{name}.value = {inp!r}")
            for mk in (lambda b: ql.ResCreateAndKeep(bell_state=b), lambda b: ql.ResMeasureDirectly(bell_state=b)):
                try:
                    r = qc.response_from_qlink_1_0(mk(inp))
                    stored = r.bell_state.value if isinstance(r.bell_state, enum.Enum) else r.bell_state
                    back = qc.BellState(stored).name
                    cls = type(r).__name__
                except Exception as e:  # noqa  (a conversion that raises is data for the obligation, not a shape problem)
                    back, cls = "RAISED_" + type(e).__name__, type(mk(inp)).__name__
                conv.append((cls + "/" + kind, name, back))
    t["bell_conv"] = conv
    # ---- handle index probes
    from sdk_pipeline import Pipeline

    pipe = Pipeline(repo)
    conn = pipe.connection()
    builder = conn.builder
    keep, meas, info = {}, {}, {}
    flags = []
    rot_l, rot_r = (1, 2, 3), (4, 5, 6)
    for n in (1, 2, 3, 4):
        req = be.EntRequestParams(remote_node_id=1, epr_socket_id=0, number=n, post_routine=None, sequential=False,
                                  rotations_local=rot_l, rotations_remote=rot_r)
        res = be.deserialize_epr_keep_results(req, EchoArray(n * t["keep_len"]))
        if len(res) != n:
            raise GenError("deserialize_epr_keep_results: wrong number of handles")
        keep[n] = {i: {a: getattr(r, a) for a in ("qubit_id", "remote_node_id", "generation_duration", "raw_bell_state")}
                   for i, r in enumerate(res)}
        for role in (qc.EPRRole.CREATE, qc.EPRRole.RECV):
            res = be.deserialize_epr_measure_results(req, EchoArray(n * t["measure_len"]), role)
            if len(res) != n:
                raise GenError("deserialize_epr_measure_results: wrong number of handles")
            tab = {i: {a: getattr(r, a) for a in ("raw_measurement_outcome", "remote_node_id", "generation_duration",
                                                  "raw_bell_state")} for i, r in enumerate(res)}
            if n in meas and meas[n] != tab:
                raise GenError("measure handles depend on the role")
            meas[n] = tab
            for i, r in enumerate(res):
                # semantic facts are DATA for a Coq obligation (gen_measure_flags), not translator errors: the
                # check must go on to its oracle, which names the concrete call
                flags.append((role.name, True, n, i, bool(r.post_process),
                              tuple(r.measurement_basis_local) == rot_l and tuple(r.measurement_basis_remote) == rot_r))
            req_off = be.EntRequestParams(remote_node_id=1, epr_socket_id=0, number=n, post_routine=None, sequential=False,
                                          expect_phi_plus=False, rotations_local=rot_l, rotations_remote=rot_r)
            for i, r in enumerate(be.deserialize_epr_measure_results(req_off, EchoArray(n * t["measure_len"]), role)):
                flags.append((role.name, False, n, i, bool(r.post_process),
                              tuple(r.measurement_basis_local) == rot_l and tuple(r.measurement_basis_remote) == rot_r))
        sl = builder._create_ent_info_k_slices(num_pairs=n, ent_results_array=EchoArray(n * t["OK_FIELDS_K"]))
        if len(sl) != n or any(type(x).__name__ != "LinkLayerOKTypeK" for x in sl):
            raise GenError("_create_ent_info_k_slices: unexpected result")
        info[n] = {i: dict(zip(x._fields, x)) for i, x in enumerate(sl)}
    out = {}
    for nm, tab in (("keep", keep), ("measure", meas), ("entinfo", info)):
        fits = [affine(tab[n], nm) for n in (2, 3, 4)]
        if any(f != fits[0] for f in fits) or tab[1][0] != fits[0][1]:
            raise GenError(f"{nm}: handle indices depend on n")
        out[nm] = fits[0]
    t["handles"] = out
    t["measure_flags"] = flags
    conn.close()
    # ---- C10: Bell state -> gates actually applied by the emitted correction code
    paulis = []
    for name, val in t["enums"]["BellState"]:
        paulis.append((val, probe_corrections(repo, val)))
    # a value that is no Bell state must apply nothing (the code is a chain of if_eq)
    other = max(v for _, v in t["enums"]["BellState"]) + 1
    if probe_corrections(repo, other) != []:
        raise GenError("correction code applies gates for a value that is not a Bell state")
    t["bell_paulis"] = paulis
    # ---- C10: classical post-processing truth table
    pp = []
    for bname, bval in t["enums"]["EprMeasBasis"]:
        basis = be.EprMeasBasis(bval)
        rot = be.basis_to_rotation(basis)
        if not (isinstance(rot, tuple) and len(rot) == 3 and all(isinstance(x, int) and not isinstance(x, bool) for x in rot)):
            raise GenError(f"basis_to_rotation({bname}) = {rot!r}")
        for _, bell in t["enums"]["BellState"]:
            for m in (0, 1):
                r = be.EprMeasureResult(raw_measurement_outcome=FakeFuture(m), measurement_basis_local=rot,
                                        measurement_basis_remote=rot, post_process=True,
                                        remote_node_id=FakeFuture(1), generation_duration=FakeFuture(0),
                                        raw_bell_state=FakeFuture(bell))
                o = r.measurement_outcome
                if o not in (0, 1):
                    raise GenError(f"post-processed outcome {o!r}")
                r2 = be.EprMeasureResult(raw_measurement_outcome=FakeFuture(m), measurement_basis_local=rot,
                                         measurement_basis_remote=rot, post_process=False,
                                         remote_node_id=FakeFuture(1), generation_duration=FakeFuture(0),
                                         raw_bell_state=FakeFuture(bell))
                pp.append((bval, bell, m, o, r2.measurement_outcome))
    t["postproc"] = pp
    t["basis_rot"] = [(bval, be.basis_to_rotation(be.EprMeasBasis(bval))) for _, bval in t["enums"]["EprMeasBasis"]]
    back = []
    for _, bval in t["enums"]["EprMeasBasis"]:
        r = be.rotation_to_basis(be.basis_to_rotation(be.EprMeasBasis(bval)))
        back.append((bval, r.value if isinstance(r, be.EprMeasBasis) else -1))
    t["basis_back"] = back
    return t


def probe_corrections(repo, bell_value):
    """Run the code emitted by _build_cmds_epr_keep_corrections_single_pair with the
    Bell-state register holding `bell_value`; return [(mnemonic, num, denom)]."""
    from sdk_pipeline import Pipeline

    pipe = Pipeline(repo)
    with pipe.connection() as conn:
        from netqasm.lang.ir import GenericInstr, ICmd
        from netqasm.sdk.qubit import Qubit

        b = conn.builder
        pad = Qubit(conn)  # so that the probed qubit is not virtual ID 0
        q = Qubit(conn)
        bell = b.new_register(init_value=bell_value)
        qreg = b._mem_mgr.get_inactive_register(activate=True)
        b.subrt_add_pending_command(ICmd(instruction=GenericInstr.SET, operands=[qreg, q.qubit_id]))
        b._build_cmds_epr_keep_corrections_single_pair(bell, qreg)
        b._mem_mgr.remove_active_register(qreg)
        conn.flush()
        qid, padid = q.qubit_id, pad.qubit_id
    gates = []
    for mn, ids, imm in pipe.gate_trace():
        if mn in ("init",):
            continue
        if ids != (qid,) or qid == padid:
            raise GenError(f"correction probe: gate {mn} on {ids}, expected qubit {qid}")
        if len(imm) != 2:
            raise GenError(f"correction probe: gate {mn} with immediates {imm}")
        gates.append((mn, imm[0], imm[1]))
    return gates


def cq_dflt(d):
    if d[0] == "int":
        return f"DInt {z(d[1])}"
    return f"DEnum {s(d[1])} {z(d[2])}"


def emit(t):
    L = ["(* GENERATED by gen/epr_tables.py from the live /repo objects. Do not edit. *)",
         "From Coq Require Import ZArith List String.",
         "From NQ Require Import Sdk.EprBoundary.",
         "Import ListNotations.", "Open Scope Z_scope.", "Open Scope string_scope.", ""]
    r = t["roles"]
    L.append("Definition gen_ser_idx : ser_idx := mkSerIdx " + " ".join(nat(r[role]) for role, _ in SER_ROLES)
             + " " + nat(t["create_len"]) + ".")
    for key in ("create", "okk", "okm"):
        L.append(f"Definition gen_{key}_fields : list string := {lst(s(f) for f in t[key + '_fields'])}.")
        L.append(f"Definition gen_{key}_defaults : list dflt := {lst(cq_dflt(d) for d in t[key + '_defaults'])}.")
    for name, mem in t["enums"].items():
        L.append(f"Definition gen_enum_{name} : list (string * Z) := {lst(f'({s(n)}, {z(v)})' for n, v in mem)}.")
    for name, mem in t["qlink_enums"].items():
        L.append(f"Definition gen_qlink_{name} : list (string * Z) := {lst(f'({s(n)}, {z(v)})' for n, v in mem)}.")
    for k in ("CREATE_FIELDS", "OK_FIELDS_K", "OK_FIELDS_M", "EXEC_OK_FIELDS"):
        L.append(f"Definition gen_{k} : nat := {nat(t[k])}.")
    L.append(f"Definition gen_keep_len : nat := {nat(t['keep_len'])}.")
    L.append(f"Definition gen_measure_len : nat := {nat(t['measure_len'])}.")
    for nm in ("create", "keep", "measure"):
        L.append(f"Definition gen_ser_{nm}_names : list (string * nat) := "
                 f"{lst(f'({s(k)}, {nat(v)})' for k, v in t['ser_' + nm].items())}.")
    for nm in ("keep", "measure", "entinfo"):
        stride, idx = t["handles"][nm]
        L.append(f"Definition gen_{nm}_stride : nat := {nat(stride)}.")
        L.append(f"Definition gen_{nm}_handle : list (string * nat) := {lst(f'({s(a)}, {nat(i)})' for a, i in idx.items())}.")
    from coqemit import b as cqb
    L.append("(* (role, expect_phi_plus, n, i, post_process flag of handle i, handle carries the requested rotations) *)")
    L.append("Definition gen_measure_flags : list (string * bool * nat * nat * bool * bool) := "
             + lst(f"({s(a)}, {cqb(e)}, {nat(n)}, {nat(i)}, {cqb(pp)}, {cqb(rot)})" for a, e, n, i, pp, rot in t["measure_flags"])
             + ".")
    L.append("Definition gen_bell_conv : list (string * string * string) := "
             + lst(f"({s(a)}, {s(b_)}, {s(c)})" for a, b_, c in t["bell_conv"]) + ".")
    L.append("Definition gen_bell_paulis : list (Z * list (string * Z * Z)) := "
             + lst(f"({z(v)}, {lst(f'({s(m)}, {z(n)}, {z(d)})' for m, n, d in g)})" for v, g in t["bell_paulis"]) + ".")
    L.append("Definition gen_postproc : list (Z * Z * Z * Z * Z) := "
             + lst(f"({z(a)}, {z(b_)}, {z(c)}, {z(d)}, {z(e)})" for a, b_, c, d, e in t["postproc"]) + ".")
    L.append("Definition gen_basis_rot : list (Z * (Z * Z * Z)) := "
             + lst(f"({z(a)}, ({z(x)}, {z(y)}, {z(w)}))" for a, (x, y, w) in t["basis_rot"]) + ".")
    L.append("Definition gen_basis_back : list (Z * Z) := " + lst(f"({z(a)}, {z(b_)})" for a, b_ in t["basis_back"]) + ".")
    return "\n".join(L) + "\n"


if __name__ == "__main__":
    repo, out = sys.argv[1], sys.argv[2]
    sys.path.insert(1, os.path.join(os.path.dirname(os.path.dirname(os.path.abspath(__file__))), "harness"))
    open(out, "w").write(emit(tables(repo)))
