(* Angle.v — model of netqasm/sdk/toolbox/state_prep.py:get_angle_spec_from_float
   (C19).  Proof-free: definitions only; lemmas are in Proofs/AngleProofs.v.

   The function under study (after the three fix: commits, see design/C19.md):

       angle %= 2 * np.pi                          |
       rest = angle / np.pi                        |  float FRONT END
       if rest >= 2: rest -= 2                     |  (modelled, not proved:
       tol_rest = tol / np.pi                      |   section 3 below)
       while rest > tol_rest:
           d = int(np.floor(np.log2(n_max / rest)))      <- float; see `window`
           n = int(np.floor(rest * 2**d))                <- exact in binary64
           nds.append((n, d)); rest -= n / 2**d          <- exact in binary64
       simplify each (n, d): while n % 2 == 0: n, d = n/2, d-1
       nds = [(n, d) for (n, d) in nds if d < 2**IMMEDIATE_BITS]

   Everything after the front end is exact in binary64 (rest is a double, i.e. a
   dyadic rational; rest * 2**d only changes the exponent; n = floor of that is
   an integer < 2^53; n / 2**d is a correctly rounded division whose result is
   representable; rest - n/2**d is the low part of the significand of rest and
   hence representable).  So the loop is modelled over Q, for ALL rationals.

   The only float operation inside the loop whose rounding matters is the choice
   of d: log2 may round up to an integer when n_max/rest is a few ulps below a
   power of two.  The model therefore does not fix d: a step may use ANY d
   with 127 <= rest * 2^d < 256 (`window`), which contains what exact arithmetic
   gives (127.5 < rest * 2^d <= 255) and what the float code gives.  Theorems
   are proved for every run of that nondeterministic model (`steps`). *)
From Coq Require Import ZArith QArith Qround Qabs List Bool.
Import ListNotations.
Open Scope Q_scope.

(* ------------------------------------------------------------------ 1. loop *)

Definition pow2 (d : Z) : Q := 2 ^ d.        (* Python 2**d, also for d < 0 *)

Definition N_MAX : Z := 255.                 (* 2**IMMEDIATE_BITS - 1, IMMEDIATE_BITS = 8 (G-tie in props/C19.v) *)

(* the d chosen by one loop iteration lies in this window *)
Definition window (rest : Q) (d : Z) : Prop :=
  127 <= rest * pow2 d /\ rest * pow2 d < 256.

Definition in_window (rest : Q) (d : Z) : bool :=
  Qle_bool 127 (rest * pow2 d) && negb (Qle_bool 256 (rest * pow2 d)).

Definition step_n (rest : Q) (d : Z) : Z := Qfloor (rest * pow2 d).
Definition step_rest (rest : Q) (d : Z) : Q := rest - inject_Z (step_n rest d) / pow2 d.

(* all runs of the loop: threshold thr (= tol_rest), start value, raw (n, d)
   list, final remainder *)
Inductive steps (thr : Q) : Q -> list (Z * Z) -> Q -> Prop :=
| steps_stop : forall rest, rest <= thr -> steps thr rest [] rest
| steps_go : forall rest d l rf,
    thr < rest -> window rest d ->
    steps thr (step_rest rest d) l rf ->
    steps thr rest ((step_n rest d, d) :: l) rf.

(* what exact arithmetic gives for floor(log2(255 / rest)), rest > 0 *)
Definition sel_exact (rest : Q) : Z :=
  let d0 := (Z.log2 (255 * Zpos (Qden rest)) - Z.log2 (Qnum rest))%Z in
  if Qle_bool (rest * pow2 d0) 255 then d0 else (d0 - 1)%Z.

Inductive res :=
| Ok (nds : list (Z * Z)) (rf : Q)
| OutOfFuel
| BadSel.          (* the selector left the window: excluded by theorem for sel_exact *)

Fixpoint expand (sel : Q -> Z) (fuel : nat) (thr rest : Q) : res :=
  if Qle_bool rest thr then Ok [] rest else
  match fuel with
  | O => OutOfFuel
  | S f =>
      let d := sel rest in
      if in_window rest d then
        match expand sel f thr (step_rest rest d) with
        | Ok l rf => Ok ((step_n rest d, d) :: l) rf
        | e => e
        end
      else BadSel
  end.

(* every run in which each d is sel_exact or one of its neighbours and lies in
   the window (the window is shorter than two octaves, so no other d can). *)
Fixpoint expand_all (fuel : nat) (thr rest : Q) : list (list (Z * Z) * Q) :=
  if Qle_bool rest thr then [([], rest)] else
  match fuel with
  | O => []
  | S f =>
      let e := sel_exact rest in
      flat_map (fun d =>
                  if in_window rest d then
                    map (fun lr => ((step_n rest d, d) :: fst lr, snd lr))
                        (expand_all f thr (step_rest rest d))
                  else [])
               [e; (e + 1)%Z; (e - 1)%Z]
  end.

(* --------------------------------------------------- 2. simplify and filter *)

(* while (n % 2) == 0: n, d = int(n / 2), d - 1 *)
Fixpoint simp_pos (p : positive) (d : Z) : Z * Z :=
  match p with
  | xO p' => simp_pos p' (d - 1)%Z
  | _ => (Zpos p, d)
  end.

(* None: n = 0, on which the Python loop does not terminate *)
Definition simplify1 (nd : Z * Z) : option (Z * Z) :=
  match fst nd with
  | Zpos p => Some (simp_pos p (snd nd))
  | Zneg p => let r := simp_pos p (snd nd) in Some ((- fst r)%Z, snd r)
  | Z0 => None
  end.

Fixpoint simplify_all (l : list (Z * Z)) : option (list (Z * Z)) :=
  match l with
  | [] => Some []
  | nd :: l' =>
      match simplify1 nd, simplify_all l' with
      | Some x, Some r => Some (x :: r)
      | _, _ => None
      end
  end.

(* nds = [(n, d) for (n, d) in nds if d < D];  D = 2**IMMEDIATE_BITS = 256
   (D = 32 before commit c940bb0) *)
Definition keep (D : Z) (nd : Z * Z) : bool := (snd nd <? D)%Z.
Definition dfilter (D : Z) (l : list (Z * Z)) : list (Z * Z) := filter (keep D) l.

Definition post (D : Z) (raw : list (Z * Z)) : option (list (Z * Z)) :=
  match simplify_all raw with
  | Some s => Some (dfilter D s)
  | None => None
  end.

(* value of a list of steps in half turns (units of pi) *)
Definition term (nd : Z * Z) : Q := inject_Z (fst nd) / pow2 (snd nd).
Fixpoint sumq (l : list (Z * Z)) : Q :=
  match l with
  | [] => 0
  | nd :: l' => term nd + sumq l'
  end.

Definition D_FIELD : Z := 256.      (* 2**IMMEDIATE_BITS *)
Definition D_OLD : Z := 32.         (* the filter before the fix *)

(* ------------------------------------------------------- 3. float front end *)
(* Modelled, not proved: binary64 round-to-nearest-even of a rational (normal
   range only: None outside), C fmod, CPython float %.  Its agreement with the
   implementation is established by the correspondence run only. *)

(* floor(log2 q) for q > 0 *)
Definition ilog2 (q : Q) : Z :=
  let e0 := (Z.log2 (Qnum q) - Z.log2 (Zpos (Qden q)))%Z in
  if Qle_bool (pow2 e0) q then e0 else (e0 - 1)%Z.

Definition rne_int (x : Q) : Z :=          (* round half to even, x >= 0 *)
  let f := Qfloor x in
  let r := x - inject_Z f in
  match Qcompare r (1 # 2) with
  | Lt => f
  | Gt => (f + 1)%Z
  | Eq => if Z.even f then f else (f + 1)%Z
  end.

Definition rne53_pos (q : Q) : option Q :=
  let e := ilog2 q in
  if ((e <? -1022) || (1023 <? e))%Z then None
  else Some (inject_Z (rne_int (q / pow2 (e - 52))) * pow2 (e - 52)).

Definition rne53 (q : Q) : option Q :=
  match Qnum q with
  | Z0 => Some 0
  | Zpos _ => rne53_pos q
  | Zneg _ => match rne53_pos (- q) with Some r => Some (- r) | None => None end
  end.

Definition qtrunc (x : Q) : Z := if Qle_bool 0 x then Qfloor x else Qceiling x.
Definition c_fmod (a m : Q) : Q := a - m * inject_Z (qtrunc (a / m)).   (* exact in binary64 *)

(* CPython float_rem for m > 0:  mod = fmod(a, m); if mod and mod < 0: mod += m *)
Definition py_mod (a m : Q) : option Q :=
  let r := c_fmod a m in
  match Qnum r with
  | Z0 => Some 0
  | Zpos _ => Some r
  | Zneg _ => rne53 (r + m)
  end.

Definition PI_D : Q := 884279719003555 # 281474976710656.     (* the double np.pi, exactly *)
Definition PI_LO : Q := 314159265358979323846 # 100000000000000000000.   (* < pi *)
Definition PI_HI : Q := 314159265358979323847 # 100000000000000000000.   (* > pi *)

(* (rest, tol_rest) as computed by the first four lines; thr_in_radians = false
   is the code before commit 74c0e87 (threshold = tol), guard = false the code
   before commit 2658c5b (no `if rest >= 2`) *)
Definition front_gen (thr_scaled guard : bool) (angle tol : Q) : option (Q * Q) :=
  match py_mod angle (2 * PI_D) with
  | None => None
  | Some a1 =>
      match rne53 (a1 / PI_D) with
      | None => None
      | Some r0 =>
          let r1 := if guard && Qle_bool 2 r0 then r0 - 2 else r0 in
          if thr_scaled then
            match rne53 (tol / PI_D) with
            | None => None
            | Some thr => Some (r1, thr)
            end
          else Some (r1, tol)
      end
  end.

Definition front := front_gen true true.

(* number of whole turns removed by the range reduction: floor(angle / (2*PI_D)) *)
Definition turns (angle : Q) : Z := Qfloor (angle / (2 * PI_D)).

Definition FUEL : nat := 64%nat.

(* all outputs the model allows for the doubles (angle, tol); None = front end
   outside the modelled range, or simplify would not terminate *)
Definition spec_all (angle tol : Q) : option (list (option (list (Z * Z)))) :=
  match front angle tol with
  | None => None
  | Some (rest, thr) => Some (map (fun lr => post D_FIELD (fst lr)) (expand_all FUEL thr rest))
  end.

(* the output exact arithmetic gives *)
Definition spec_exact (angle tol : Q) : option (list (Z * Z)) :=
  match front angle tol with
  | None => None
  | Some (rest, thr) =>
      match expand sel_exact FUEL thr rest with
      | Ok raw _ => post D_FIELD raw
      | _ => None
      end
  end.

(* ------------------------------------------- 4. front-end allowance, checked *)
(* The error of the float front end for one input, in radians, evaluated with the
   rational p standing for pi: distance of rest half turns to the requested
   angle minus k whole turns, plus what thr (half turns) exceeds tol (radians). *)
Definition FE_ALLOW : Q := pow2 (-49).

Definition fe_at (angle tol rest thr : Q) (k : Z) (p : Q) : Q :=
  Qabs (rest * p - (angle - 2 * inject_Z k * p)) +
  (if Qle_bool (thr * p) tol then 0 else thr * p - tol).

(* hypothesis of C19_radians_checked, decided by computation for each case of the
   correspondence stream: at both rational bounds of pi *)
Definition fe_ok (angle tol rest thr : Q) (k : Z) : bool :=
  Qle_bool (fe_at angle tol rest thr k PI_LO) FE_ALLOW &&
  Qle_bool (fe_at angle tol rest thr k PI_HI) FE_ALLOW.

(* the number of whole turns the code's result refers to: turns angle, or one
   more / one less when rounding moved rest across 0 / 2 *)
Definition fe_turns (angle tol rest thr : Q) : option Z :=
  let k := turns angle in
  if fe_ok angle tol rest thr k then Some k
  else if fe_ok angle tol rest thr (k + 1) then Some (k + 1)%Z
  else if fe_ok angle tol rest thr (k - 1) then Some (k - 1)%Z
  else None.

(* ----------------------------------- 5. allowance as a function of the angle *)
(* What the front end may cost for the double `angle`, in radians (proved in
   Proofs/AngleFloatProofs.v: C19_front_general): 2^-49 + 2^-50 for the roundings of
   r + 2*np.pi (negative angles), of / np.pi and of tol / np.pi and for pi - np.pi
   on the reduced angle, plus 2^-51 >= 2 * (pi - np.pi) for every whole turn removed
   by `%` (the recorded finding: the error grows with |angle|). *)
Definition TURN_ALLOW : Q := pow2 (-51).
Definition allow (angle : Q) : Q :=
  FE_ALLOW + pow2 (-50) + inject_Z (Z.abs (turns angle)) * TURN_ALLOW.
