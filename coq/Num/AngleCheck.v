(* AngleCheck.v — executable comparison of the angle model with results
   recorded from get_angle_spec_from_float / the builder (H-tie of C19). *)
From Coq Require Import ZArith QArith List Bool.
From NQ Require Import Num.Angle.
Import ListNotations.

Definition nd_eqb (a b : Z * Z) : bool := Z.eqb (fst a) (fst b) && Z.eqb (snd a) (snd b).

Fixpoint nds_eqb (a b : list (Z * Z)) : bool :=
  match a, b with
  | [], [] => true
  | x :: a', y :: b' => nd_eqb x y && nds_eqb a' b'
  | _, _ => false
  end.

Definition out_eqb (a b : option (list (Z * Z))) : bool :=
  match a, b with
  | None, None => true
  | Some x, Some y => nds_eqb x y
  | _, _ => false
  end.

(* one recorded call: the doubles (angle, tol) as exact rationals and what the
   implementation returned (None = it raised) *)
Record acase := mkA { a_angle : Q; a_tol : Q; a_out : option (list (Z * Z)) }.

(* 0: the implementation returned exactly what exact arithmetic gives
   1: it returned another member of the allowed set (a d chosen differently inside the window)
   2: it returned something the model does not allow
   3: the front end left the modelled range *)
Definition check_case (c : acase) : Z :=
  match spec_all (a_angle c) (a_tol c) with
  | None => 3%Z
  | Some outs =>
      if existsb (out_eqb (a_out c)) outs then
        if out_eqb (spec_exact (a_angle c) (a_tol c)) (a_out c) then 0%Z else 1%Z
      else 2%Z
  end.

Fixpoint failing_from (i : Z) (l : list acase) : list (Z * Z) :=
  match l with
  | [] => []
  | c :: l' =>
      let r := check_case c in
      if Z.eqb r 0 then failing_from (i + 1)%Z l' else (i, r) :: failing_from (i + 1)%Z l'
  end.

Definition failing (l : list acase) : list (Z * Z) := failing_from 0%Z l.
