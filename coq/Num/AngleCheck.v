(* AngleCheck.v — executable comparison of the angle model with results
   recorded from get_angle_spec_from_float / the builder (H-tie of C19). *)
From Coq Require Import ZArith QArith List Bool.
From NQ Require Import Num.Angle.
Import ListNotations.

Definition nd_eqb (a b : Z * Z) : bool := Z.eqb (fst a) (fst b) && Z.eqb (snd a) (snd b).

Fixpoint nds_eqb (a b : list (Z * Z)) : bool :=
  match a, b with
  | [], [] => true
  | x :: a', y :: b' => nd_eqb x y && nds_eqb a' b'
  | _, _ => false
  end.

Definition out_eqb (a b : option (list (Z * Z))) : bool :=
  match a, b with
  | None, None => true
  | Some x, Some y => nds_eqb x y
  | _, _ => false
  end.

(* one recorded call: the doubles (angle, tol) as exact rationals and what the
   implementation returned (None = it raised) *)
Record acase := mkA { a_angle : Q; a_tol : Q; a_out : option (list (Z * Z)) }.

(* 0: the implementation returned exactly what exact arithmetic gives
   1: it returned another member of the allowed set (a d chosen differently inside the window)
   2: it returned something the model does not allow
   3: the front end left the modelled range *)
Definition check_case (c : acase) : Z :=
  match spec_all (a_angle c) (a_tol c) with
  | None => 3%Z
  | Some outs =>
      if existsb (out_eqb (a_out c)) outs then
        if out_eqb (spec_exact (a_angle c) (a_tol c)) (a_out c) then 0%Z else 1%Z
      else 2%Z
  end.

Fixpoint failing_from (i : Z) (l : list acase) : list (Z * Z) :=
  match l with
  | [] => []
  | c :: l' =>
      let r := check_case c in
      if Z.eqb r 0 then failing_from (i + 1)%Z l' else (i, r) :: failing_from (i + 1)%Z l'
  end.

Definition failing (l : list acase) : list (Z * Z) := failing_from 0%Z l.

(* ---- float front end (AngleFloat) *)
From Coq Require Import Floats.PrimFloat.
From NQ Require Import Num.AngleFloat.

(* one recorded call: the doubles (angle, tol) and the values of `rest` and
   `tol_rest` observed inside the implementation when the loop is entered *)
Record fcase := mkF { f_angle : float; f_tol : float; f_rest : float; f_thr : float }.

(* bit 1: PrimFloat front end differs from the observed values
   bit 2: rational front end (Angle.front) differs from the PrimFloat one (not counted when the rational model declines: subnormal range)
   bit 4: the front-end allowance 2^-49 does not hold for this input (expected beyond two turns: recorded finding)
   bit 8: rest outside [0, 2) or thr below 2^-248 *)
Definition check_fcase (c : fcase) : Z :=
  match front_f (f_angle c) (f_tol c) with
  | None => 1%Z
  | Some (r, t) =>
      let qr := f2q r in let qt := f2q t in
      let b1 := if Qeq_bool qr (f2q (f_rest c)) && Qeq_bool qt (f2q (f_thr c)) then 0%Z else 1%Z in
      let b2 := match front (f2q (f_angle c)) (f2q (f_tol c)) with
                | None => 0%Z
                | Some (r', t') => if Qeq_bool r' qr && Qeq_bool t' qt then 0%Z else 2%Z
                end in
      let b4 := match fe_turns (f2q (f_angle c)) (f2q (f_tol c)) qr qt with Some _ => 0%Z | None => 4%Z end in
      let b8 := if Qle_bool 0 qr && negb (Qle_bool 2 qr) && Qle_bool (pow2 (-248)) qt then 0%Z else 8%Z in
      (b1 + b2 + b4 + b8)%Z
  end.

Fixpoint ffailing_from (i : Z) (l : list fcase) : list (Z * Z) :=
  match l with
  | [] => []
  | c :: l' =>
      let r := check_fcase c in
      if Z.eqb r 0 then ffailing_from (i + 1)%Z l' else (i, r) :: ffailing_from (i + 1)%Z l'
  end.

Definition ffailing (l : list fcase) : list (Z * Z) := ffailing_from 0%Z l.
