(* AngleFloat.v — the float front end of get_angle_spec_from_float on Coq's
   primitive binary64 floats (PrimFloat: the hardware operations, evaluated by
   vm_compute; no axioms are imported, so nothing is PROVED about them here):

       angle %= 2 * np.pi ; rest = angle / np.pi ; if rest >= 2: rest -= 2 ; tol_rest = tol / np.pi

   Purpose: a bit-exact second model of the four statements, compared per case
   (a) with the values observed inside the running implementation (float.hex) and
   (b) with the rational model Angle.front (rne53, c_fmod, py_mod), which is the
   one the theorems speak about.  Proof-free. *)
From Coq Require Import ZArith QArith Qreduction Bool.
From Coq Require Import Floats.PrimFloat Numbers.Cyclic.Int63.Uint63.
From NQ Require Import Num.Angle.

Definition PI_F : float := 0x1.921fb54442d18p+1%float.        (* np.pi *)
Definition TWO_PI_F : float := (2 * PI_F)%float.               (* 2 * np.pi, exact *)

Definition finite (x : float) : bool := (PrimFloat.abs x <? infinity)%float.   (* false for nan, +-inf *)

(* exact value of a finite float: x = mant * 2^(e - 2101 - 53) *)
Definition f2q (x : float) : Q :=
  let (m, e) := frshiftexp (PrimFloat.abs x) in
  let mant := Uint63.to_Z (normfr_mantissa m) in
  let v := inject_Z mant * pow2 (Uint63.to_Z e - 2101 - 53) in
  if (x <? 0)%float then - v else v.

(* the float with exactly the value q >= 0, for q = n / 2^k with n < 2^53 (checked:
   None otherwise) *)
Definition q2f_exact (q : Q) : option float :=
  let r := Qred q in
  let n := Qnum r in
  let k := Z.log2 (Zpos (Qden r)) in
  if ((0 <=? n) && (n <? 2 ^ 53) && (Zpos (Qden r) =? 2 ^ k) && (k <? 2000))%Z then
    let f := ldshiftexp (of_uint63 (Uint63.of_Z n)) (Uint63.of_Z (2101 - k)) in
    if Qeq_bool (f2q f) q then Some f else None
  else None.

(* C fmod is exact: computed on the exact values; sign of the dividend *)
Definition fmod_f (a m : float) : option float :=
  let r := c_fmod (f2q a) (f2q m) in
  match Qnum r with
  | Z0 => Some 0%float
  | Zpos _ => q2f_exact r
  | Zneg _ => match q2f_exact (- r) with Some f => Some (- f)%float | None => None end
  end.

(* CPython float_rem, m > 0 *)
Definition py_mod_f (a m : float) : option float :=
  match fmod_f a m with
  | None => None
  | Some r => if (r =? 0)%float then Some 0%float
              else if (r <? 0)%float then Some (r + m)%float else Some r
  end.

Definition front_f (angle tol : float) : option (float * float) :=
  if finite angle && finite tol then
    match py_mod_f angle TWO_PI_F with
    | None => None
    | Some a1 =>
        let r0 := (a1 / PI_F)%float in
        let r1 := if (2 <=? r0)%float then (r0 - 2)%float else r0 in
        Some (r1, (tol / PI_F)%float)
    end
  else None.
