(* SdkAst.v — SDK host programs as data (C05, C14).  Proof-free.
   The Python twin is harness/sdk_ast.py (same constructors, same argument order).
   Names (qubits q, arrays a, register futures r, loop variables v) are naturals
   chosen by the program; array names are the addresses the builder hands out. *)
From Coq Require Import ZArith List Bool.
Import ListNotations.

Inductive cond := CEq | CNe | CLt | CGe | CEz | CNz.
Inductive index := IxC (n : nat) | IxV (v : nat).
(* a classical value usable in a condition: int, Future (array entry), RegFuture of a
   measurement, RegFuture of a loop_body / loop_until register *)
Inductive cval := VInt (z : Z) | VFut (a : nat) (ix : index) | VReg (r : nat) | VLoop (v : nat).
(* second operand of add: int, Future, loop register *)
Inductive addsrc := AInt (z : Z) | AFut (a : nat) (ix : index) | ALoop (v : nat)
  | AReg (r : nat).      (* a register future: fut.add(rf) / rf.add(rf') *)
Inductive gate1 := GX | GY | GZ | GH | GK | GS | GT.
Inductive axis := AX | AY | AZ.
Inductive gate2 := TCnot | TCphase.

(* EPR operations: only their use of classical registers is modelled (C14);
   (transient before the user body, held during the user body, transient after) *)
Inductive eprkind :=          (* narr = arrays the operation allocates (results, qubit ids, request arguments) *)
| EKeep (narr : nat)                 (* create_keep / recv_keep without corrections, measure-type requests: no register *)
| ERecvCorr                          (* recv_keep, expect_phi_plus, wait_all: corrections loop *)
| EPost (corr : bool) (narr : nat)   (* sequential keep with a post routine (body = the routine) *)
| ECtx (narr : nat).                 (* create/recv EPR context (body = the context body) *)

(* trace events: qubits are named by allocation instance (k-th `init`) *)
Inductive tev :=
| TInit (i : nat)
| TG1 (g : gate1) (i : nat)
| TRot (ax : axis) (i : nat) (n d : Z)
| TG2 (t : gate2) (i j : nat)
| TMeas (i : nat) (o : Z).

Inductive stmt :=
| SNewQubit (q : nat)
| SGate (g : gate1) (q : nat)
| SRot (ax : axis) (q : nat) (n d : Z)
| STwo (t : gate2) (q1 q2 : nat)
| SMeasFut (q : nat) (inplace : bool) (a : nat) (ix : index)
| SMeasNew (q : nat) (inplace : bool) (a : nat)
| SMeasReg (q : nat) (inplace : bool) (r : nat)
| SFree (q : nat)
| SNewArray (a : nat) (len : nat) (init : option (list (option Z)))
| SFutAdd (a : nat) (ix : index) (o : addsrc) (m : option Z)
| SRegAdd (r : nat) (o : addsrc) (m : option Z)
| SNewReg (r : nat) (init : Z)               (* rf_r = builder.new_register(init): claimed for the rest of the connection *)
| SUAdd (r : nat) (o : addsrc) (m : option Z)   (* rf_r.add(..) on such a register *)
| SIf (c : cond) (cb : bool) (x y : cval) (body : block)
| SLoop (cb : bool) (v : nat) (oreg : option nat) (start stop step : Z) (body : block)
      (* oreg: loop_register=R_k given by the program *)
| SForeach (enum : bool) (v : nat) (a : nat) (body : block)
| SLoopUntil (v : nat) (maxit : Z) (body : block) (cx : cval) (bound : Z) (cleanup : block)
| SEpr (k : eprkind) (body : block)
| SFlush
(* an array entry addressed through an index that is itself an array entry:
   data_a.get_future_index(where_b.get_future_index(n)) *)
| SFutAddX (a b n : nat) (o : addsrc) (m : option Z)        (* that future .add(o, m) *)
| SMeasFutX (q : nat) (inplace : bool) (a b n : nat)        (* q.measure(future = that future) *)
with block :=
| BNil
| BCons (s : stmt) (b : block).

Scheme stmt_mut := Induction for stmt Sort Prop
  with block_mut := Induction for block Sort Prop.
Combined Scheme stmt_block_ind from stmt_mut, block_mut.

Fixpoint blk (l : list stmt) : block :=
  match l with [] => BNil | s :: r => BCons s (blk r) end.
Fixpoint unblk (b : block) : list stmt :=
  match b with BNil => [] | BCons s r => s :: unblk r end.
Fixpoint bapp (a b : block) : block :=
  match a with BNil => b | BCons s r => BCons s (bapp r b) end.

(* nesting depth of open operations *)
Fixpoint depth (s : stmt) : nat :=
  match s with
  | SIf _ _ _ _ b | SLoop _ _ _ _ _ _ b | SForeach _ _ _ b | SEpr _ b => S (bdepth b)
  | SLoopUntil _ _ b _ _ cl => S (Nat.max (bdepth b) (bdepth cl))
  | _ => 0
  end
with bdepth (b : block) : nat :=
  match b with BNil => 0 | BCons s r => Nat.max (depth s) (bdepth r) end.

(* no flush inside a body *)
Fixpoint noflush (s : stmt) : bool :=
  match s with
  | SFlush => false
  | SIf _ _ _ _ b | SLoop _ _ _ _ _ _ b | SForeach _ _ _ b | SEpr _ b => bnoflush b
  | SLoopUntil _ _ b _ _ cl => bnoflush b && bnoflush cl
  | _ => true
  end
with bnoflush (b : block) : bool :=
  match b with BNil => true | BCons s r => noflush s && bnoflush r end.

(* no builder.new_register(): every register is released by the operation that took it
   (a loop register named by the program, loop_register=R_k, is fine as long as it is inactive) *)
Fixpoint plain (s : stmt) : bool :=
  match s with
  | SNewReg _ _ | SUAdd _ _ _ => false
  | SIf _ _ _ _ b | SLoop _ _ _ _ _ _ b | SForeach _ _ _ b | SEpr _ b => bplain b
  | SLoopUntil _ _ b _ _ cl => bplain b && bplain cl
  | _ => true
  end
with bplain (b : block) : bool :=
  match b with BNil => true | BCons s r => plain s && bplain r end.

Fixpoint noepr (s : stmt) : bool :=
  match s with
  | SEpr _ _ => false
  | SIf _ _ _ _ b | SLoop _ _ _ _ _ _ b | SForeach _ _ _ b => bnoepr b
  | SLoopUntil _ _ b _ _ cl => bnoepr b && bnoepr cl
  | _ => true
  end
with bnoepr (b : block) : bool :=
  match b with BNil => true | BCons s r => noepr s && bnoepr r end.
