(* Decidable comparison of the model's observations with recorded observations
   of the implementation (correspondence cases of C09).  Proof-free. *)
From Coq Require Import List Arith Bool.
From NQ Require Import Sdk.QubitAgree.
Import ListNotations.

Fixpoint list_eqb {A} (eqb : A -> A -> bool) (a b : list A) : bool :=
  match a, b with
  | [], [] => true
  | x :: r, y :: r' => eqb x y && list_eqb eqb r r'
  | _, _ => false
  end.

Definition fault_eqb (a b : fault) : bool :=
  match a, b with
  | NotAllocated, NotAllocated | AlreadyAllocated, AlreadyAllocated
  | OutOfRange, OutOfRange | EprBlocked, EprBlocked => true
  | _, _ => false
  end.

Definition cev_eqb (a b : cev) : bool :=
  match a, b with
  | CAlloc x, CAlloc y | CFree x, CFree y | CEpr x, CEpr y => x =? y
  | CUse x, CUse y => list_eqb Nat.eqb x y
  | _, _ => false
  end.

Definition flt_eqb (a b : option (fault * nat)) : bool :=
  match a, b with
  | None, None => true
  | Some (f, x), Some (g, y) => fault_eqb f g && (x =? y)
  | _, _ => false
  end.

Definition obs_eqb (a b : obs) : bool :=
  match a, b with
  | OStep i, OStep j => list_eqb Nat.eqb i j
  | OFlush i t a f, OFlush j u b g =>
      list_eqb Nat.eqb i j && list_eqb cev_eqb t u && list_eqb Nat.eqb a b && flt_eqb f g
  | OReject, OReject => true
  | _, _ => false      (* OModelErr never equals an observation *)
  end.

Record case := mkCase { c_cfg : cfg; c_ops : list op; c_obs : list obs }.

Definition check_case (c : case) : bool := list_eqb obs_eqb (run0 (c_cfg c) (c_ops c)) (c_obs c).

Fixpoint failing_from (i : nat) (cs : list case) : list nat :=
  match cs with
  | [] => []
  | c :: r => if check_case c then failing_from (S i) r else i :: failing_from (S i) r
  end.
Definition failing (cs : list case) : list nat := failing_from 0 cs.
