(* QubitAgree — model of the virtual-qubit bookkeeping on both sides of the
   SDK / controller boundary (property C09).  Proof-free; proofs are in
   Proofs/QubitAgreeProofs.v.

   SDK side (mirrors netqasm/sdk):
     memmgr.py   MemoryManager._active_qubits (ordered list of handles),
                 get_new_qubit_address (lowest unused virtual ID)
     qubit.py    Qubit.__init__ / _activate / _deactivate, measure, free
     builder.py  _build_cmds_new_qubit / _measure / _qfree / _move_qubit,
                 _build_cmds_free_up_qubit_location (NV relocation of the qubit at
                 ID 0, with the set/qalloc/init peephole), _create_ent_qubits
                 (ID assignment per hardware config), sdk_epr_keep,
                 _build_cmds_wait_move_epr_to_mem, _pre/_post_epr_context
   Controller side (mirrors netqasm/backend/executor.py):
     _allocate_physical_qubit, _free_physical_qubit, _get_position_in_unit_module,
     _handle_epr_ok_k_response (a pair delivered into an ID that is in use waits).

   The instructions of a subroutine are abstracted to the events that touch the
   unit module: alloc / free / use / pair delivery. *)
From Coq Require Import List Arith Bool Lia.
Import ListNotations.

(* ------------------------------------------------------------------ config *)
Record cfg := mkCfg {
  max_q : nat;        (* size of the unit module = HardwareConfig.qubit_count *)
  nv_hw : bool;       (* NVHardwareConfig passed by the application *)
  transp : bool       (* NVSubroutineTranspiler used *)
}.
(* Builder.__init__: an NV compiler forces an NV hardware config *)
Definition nv (k : cfg) : bool := nv_hw k || transp k.
(* HardwareConfig.comm_qubit_count == 1 *)
Definition single_comm (k : cfg) : bool := nv k || (max_q k =? 1).
(* the property's budget: one fewer when relocation needs a free slot *)
Definition budget (k : cfg) : nat := if nv k then max_q k - 1 else max_q k.

(* ------------------------------------------------------------------ events *)
Inductive event :=
| EAlloc (v : nat)          (* qalloc *)
| EFree (v : nat)           (* qfree *)
| EUse (vs : list nat)      (* a gate / init / meas / mov addressing these IDs, in checking order *)
| EEpr (v : nat).           (* the next pair of an EPR request is delivered into ID v *)

Inductive fault := NotAllocated | AlreadyAllocated | OutOfRange | EprBlocked.

(* ------------------------------------------------------------------ controller *)
Record ctrl := mkCtrl { alloc : list nat; cap : nat }.

Definition mem (v : nat) (l : list nat) : bool := existsb (Nat.eqb v) l.
Definition remove_id (v : nat) (l : list nat) : list nat := filter (fun x => negb (x =? v)) l.

Fixpoint first_bad (c : ctrl) (vs : list nat) : option (fault * nat) :=
  match vs with
  | [] => None
  | v :: r => if cap c <=? v then Some (OutOfRange, v)
              else if mem v (alloc c) then first_bad c r
              else Some (NotAllocated, v)
  end.

Definition exec_event (c : ctrl) (e : event) : ctrl + (fault * nat) :=
  match e with
  | EAlloc v => if cap c <=? v then inr (OutOfRange, v)
                else if mem v (alloc c) then inr (AlreadyAllocated, v)
                else inl (mkCtrl (v :: alloc c) (cap c))
  | EEpr v => if mem v (alloc c) then inr (EprBlocked, v)
              else if cap c <=? v then inr (OutOfRange, v)
              else inl (mkCtrl (v :: alloc c) (cap c))
  | EFree v => if cap c <=? v then inr (OutOfRange, v)
               else if mem v (alloc c) then inl (mkCtrl (remove_id v (alloc c)) (cap c))
               else inr (NotAllocated, v)
  | EUse vs => match first_bad c vs with None => inl c | Some f => inr f end
  end.

(* final state, executed prefix, fault *)
Fixpoint exec_events (c : ctrl) (evs : list event) : ctrl * list event * option (fault * nat) :=
  match evs with
  | [] => (c, [], None)
  | e :: r => match exec_event c e with
              | inr f => (c, [], Some f)
              | inl c' => let '(c'', d, f) := exec_events c' r in (c'', e :: d, f)
              end
  end.

(* what pipe.allocated() shows: the allocated addresses in increasing order *)
Definition allocated (c : ctrl) : list nat := filter (fun v => mem v (alloc c)) (seq 0 (cap c)).

(* ------------------------------------------------------------------ SDK *)
Record sdk := mkSdk {
  active : list (nat * nat);   (* _active_qubits: (handle, qubit_id), in list order *)
  next_h : nat;                (* handles handed to the host so far *)
  pending : list event;        (* events of the pending commands, except ... *)
  last_new : option nat        (* ... Some v: the pending commands END with set/qalloc/init of address v *)
}.

Definition ids (s : sdk) : list nat := map snd (active s).
Definition handles (s : sdk) : list nat := map fst (active s).

Definition tail_events (o : option nat) : list event :=
  match o with Some v => [EAlloc v; EUse [v]] | None => [] end.
Definition all_pending (s : sdk) : list event := pending s ++ tail_events (last_new s).

(* further commands follow the allocation triple: it is no longer at the end *)
Definition commit (s : sdk) : sdk :=
  mkSdk (active s) (next_h s) (all_pending s) None.
Definition emit (s : sdk) (evs : list event) : sdk :=
  let s1 := commit s in mkSdk (active s1) (next_h s1) (pending s1 ++ evs) None.

(* get_new_qubit_address: `for address in count(0): if address not in in_use`.
   The search is bounded by |in_use|+1 candidates; None = bound exhausted. *)
Fixpoint find_from (l : list nat) (k fuel : nat) : option nat :=
  match fuel with
  | 0 => None
  | S f => if mem k l then find_from l (S k) f else Some k
  end.
Definition new_id (l : list nat) : option nat := find_from l 0 (S (length l)).

Inductive sdk_err :=
| ErrReject        (* the SDK raises (ValueError / AssertionError) instead of building *)
| ErrFuel          (* new_id search bound exhausted (proved impossible) *)
| ErrDeadHandle    (* the host addresses a handle that is not active: outside the model *)
| ErrUnmodelled.   (* number = 0 *)

Definition res (A : Type) := (A + sdk_err)%type.

Fixpoint id_of (h : nat) (a : list (nat * nat)) : option nat :=
  match a with
  | [] => None
  | (h', v) :: r => if h' =? h then Some v else id_of h r
  end.

(* list.remove(q): first occurrence *)
Fixpoint deact (h : nat) (a : list (nat * nat)) : list (nat * nat) :=
  match a with
  | [] => []
  | (h', v) :: r => if h' =? h then r else (h', v) :: deact h r
  end.

(* q.qubit_id = new for the first handle whose id is `old` *)
Fixpoint reid (old nw : nat) (a : list (nat * nat)) : list (nat * nat) :=
  match a with
  | [] => []
  | (h, v) :: r => if v =? old then (h, nw) :: r else (h, v) :: reid old nw r
  end.

Definition set_active (s : sdk) (a : list (nat * nat)) : sdk :=
  mkSdk a (next_h s) (pending s) (last_new s).

(* _build_cmds_free_up_qubit_location(0) on NV *)
Definition free_up0 (s : sdk) : res sdk :=
  if mem 0 (ids s) then
    match new_id (ids s) with
    | None => inr ErrFuel
    | Some nw =>
      match last_new s with
      | Some 0 =>
          (* the qubit at ID 0 was allocated by the last three pending commands:
             rewrite that allocation to the new address *)
          inl (mkSdk (reid 0 nw (active s)) (next_h s) (pending s) (Some nw))
      | _ =>
          (* _build_cmds_move_qubit: qalloc+init target, mov, qfree source *)
          let s1 := emit s [EAlloc nw; EUse [nw]; EUse [0; nw]; EFree 0] in
          inl (set_active s1 (reid 0 nw (active s1)))
      end
    end
  else inl s.

(* Qubit(conn, add_new_command=False, virtual_address=v): a new host handle *)
Definition add_handle (s : sdk) (v : nat) : sdk :=
  mkSdk (active s ++ [(next_h s, v)]) (S (next_h s)) (pending s) (last_new s).

(* generic hardware, not sequential: each Qubit() takes the lowest unused ID *)
Fixpoint fresh_handles (s : sdk) (n : nat) : res (sdk * list nat) :=
  match n with
  | 0 => inl (s, [])
  | S m => match new_id (ids s) with
           | None => inr ErrFuel
           | Some v => match fresh_handles (add_handle s v) m with
                       | inl (s', vs) => inl (s', v :: vs)
                       | inr e => inr e
                       end
           end
  end.

(* NV, not sequential: the last pair stays in ID 0; the others end in memory qubits
   with the lowest unused IDs other than 0, highest first (n-1 .. 1 when nothing is in the
   way).  pick_ids: those IDs in increasing order (each is the lowest ID that is neither
   0 nor in use nor picked before). *)
Fixpoint pick_ids (l : list nat) (m : nat) : option (list nat) :=
  match m with
  | 0 => Some []
  | S m' => match new_id (0 :: l) with
            | None => None
            | Some v => match pick_ids (v :: l) m' with
                        | None => None
                        | Some r => Some (v :: r)
                        end
            end
  end.

(* Qubit(conn, add_new_command=True, virtual_address=v): qalloc, init, a new host handle *)
Fixpoint alloc_handles (s : sdk) (vs : list nat) : sdk :=
  match vs with
  | [] => s
  | v :: r => alloc_handles (add_handle (emit s [EAlloc v; EUse [v]]) v) r
  end.

Definition nv_handles (s : sdk) (n : nat) : res (sdk * list nat) :=
  match pick_ids (ids s) (n - 1) with
  | None => inr ErrFuel
  | Some asc => let mems := rev asc in
                inl (add_handle (alloc_handles s mems) 0, mems ++ [0])
  end.

(* _create_ent_qubits.  Every EPR operation appends commands after this, so an
   allocation triple that ends the pending commands stops being the end: it is
   committed here (same command order, and no relocation happens later in the
   operation). *)
Definition ent_handles (k : cfg) (s : sdk) (n : nat) : res (sdk * list nat) :=
  if nv k then
    match free_up0 s with
    | inr e => inr e
    | inl s1 => nv_handles (commit s1) n
    end
  else fresh_handles (commit s) n.

(* Bell-state corrections of the receiver: when the link layer reports a state other
   than Phi+ for a pair, Pauli gates are applied to a virtual qubit.  cs = per pair,
   "corrections run" (a shorter list means Phi+ for the remaining pairs). *)
Definition corr_use (b : bool) (v : nat) : list event := if b then [EUse [v]] else [].

(* _build_cmds_wait_move_epr_to_mem: every pair arrives in ID 0, is corrected there,
   and all but the last are moved to their memory qubit and ID 0 is freed.
   vs = final IDs per pair *)
Fixpoint move_loop (vs : list nat) (cs : list bool) : list event :=
  match vs with
  | [] => []
  | [_] => EEpr 0 :: corr_use (hd false cs) 0
  | v :: r => [EEpr 0] ++ corr_use (hd false cs) 0 ++ [EUse [0; v]; EFree 0] ++ move_loop r (tl cs)
  end.

(* _build_cmds_epr_keep_corrections (several communication qubits, after wait_all): one
   round per pair; the loop loads the pair's ID and then overwrites the register with
   0, so the gates address virtual qubit 0 (recorded finding C10:wait-all-loop-corrects-
   qubit-0; for C09 only the addressed ID matters) *)
Fixpoint corr_list (vs : list nat) (cs : list bool) : list event :=
  match vs with
  | [] => []
  | _ :: r => corr_use (hd false cs) 0 ++ corr_list r (tl cs)
  end.

(* what an EPR block / post routine does with its qubit *)
Inductive body :=
| BConsume (use : bool)   (* gets rid of it: measure() (use), gates or measure(inplace=True) then free() (use), free() alone *)
| BKeep.                  (* applies a gate and keeps it *)
Definition keeps (b : body) : bool := match b with BKeep => true | BConsume _ => false end.
Definition body_events (b : body) (v : nat) : list event :=
  match b with
  | BConsume true => [EUse [v]; EFree v]
  | BConsume false => [EFree v]
  | BKeep => [EUse [v]]
  end.

(* pair after pair: delivered into its ID, corrected (post routine path), handled by the body *)
Fixpoint pair_loop (vs : list nat) (cs : list bool) (b : body) : list event :=
  match vs with
  | [] => []
  | v :: r => [EEpr v] ++ corr_use (hd false cs) v ++ body_events b v ++ pair_loop r (tl cs) b
  end.

Definition drop_last_handles (n : nat) (a : list (nat * nat)) : list (nat * nat) :=
  firstn (length a - n) a.

Inductive op :=
| NewQubit
| Gate1 (h : nat)
| Gate2 (h1 h2 : nat)
| MeasureInplace (h : nat)
| MeasureDestructive (h : nat)
| Free (h : nat)
  (* keep without post routine; sq: sequential=True; nonphi: per pair, the link layer reports a state other than Phi+ *)
| EprKeep (n : nat) (recv : bool) (sq : bool) (nonphi : list bool)
| EprContext (n : nat) (recv : bool) (b : body)
  (* keep with a post routine; sq: sequential=True *)
| EprKeepSeq (n : nat) (recv : bool) (sq : bool) (nonphi : list bool) (b : body)
| Flush.

(* sequential keep: every pair gets the same ID (_create_ent_qubits, `sequential`):
   0 on NV after relocation, else the lowest unused one; n handles carry it *)
Fixpoint add_handles (s : sdk) (v n : nat) : sdk :=
  match n with 0 => s | S m => add_handles (add_handle s v) v m end.
Definition seq_handles (k : cfg) (s : sdk) (n : nat) : res (sdk * nat) :=
  if nv k then
    match free_up0 s with
    | inr e => inr e
    | inl s1 => inl (add_handles (commit s1) 0 n, 0)
    end
  else match new_id (ids s) with
       | None => inr ErrFuel
       | Some v => inl (add_handles (commit s) v n, v)
       end.

(* n pairs pass one after the other through one ID, each consumed (measured and
   freed) before the next is delivered; the n reserved handles are deactivated at
   the end (if the body keeps its qubit they stay; legal for one pair only).  zero: the request names ID 0 for every pair (sdk_epr_keep with a single
   communication qubit) rather than the handles' ID. *)
Definition seq_run (k : cfg) (s : sdk) (n : nat) (zero : bool) (cs : list bool) (b : body) : res sdk :=
  match seq_handles k s n with
  | inr e => inr e
  | inl (s1, v) =>
      let s2 := emit s1 (pair_loop (repeat (if zero then 0 else v) n) cs b) in
      (* the body consumed its qubit: the handles are deactivated; else they stay *)
      inl (mkSdk (if keeps b then active s2 else drop_last_handles n (active s2))
                 (next_h s2) (pending s2) (last_new s2))
  end.

(* _build_cmds_measure: on NV a qubit that is not at ID 0 is measured after the
   qubit occupying ID 0 (if any) has been moved away *)
Definition pre_measure (k : cfg) (s : sdk) (v : nat) : res sdk :=
  if nv k && negb (v =? 0) then free_up0 s else inl s.

(* with the NV transpiler a gate between two carbons (IDs other than 0) goes
   through the electron: virtual qubit 0 is addressed first *)
Definition gate2_uses (k : cfg) (a b : nat) : list nat :=
  if transp k && negb (a =? 0) && negb (b =? 0) then [0; a; b] else [a; b].
(* _build_cmds_two_qubit: if no active qubit has ID 0 the builder reserves the electron
   around such a gate (qalloc + init before, qfree after) *)
Definition gate2_events (k : cfg) (l : list nat) (a b : nat) : list event :=
  if transp k && negb (a =? 0) && negb (b =? 0) && negb (mem 0 l)
  then [EAlloc 0; EUse [0]; EUse [0; a; b]; EFree 0]
  else [EUse (gate2_uses k a b)].

(* one host operation other than Flush *)
Definition sdk_step (k : cfg) (s : sdk) (o : op) : res sdk :=
  match o with
  | NewQubit =>
      match new_id (ids s) with
      | None => inr ErrFuel
      | Some v => let s1 := commit s in
                  inl (mkSdk (active s1 ++ [(next_h s1, v)]) (S (next_h s1)) (pending s1) (Some v))
      end
  | Gate1 h =>
      match id_of h (active s) with
      | None => inr ErrDeadHandle
      | Some v => inl (emit s [EUse [v]])
      end
  | Gate2 h1 h2 =>
      match id_of h1 (active s), id_of h2 (active s) with
      | Some a, Some b => inl (emit s (gate2_events k (ids s) a b))
      | _, _ => inr ErrDeadHandle
      end
  | MeasureInplace h =>
      match id_of h (active s) with
      | None => inr ErrDeadHandle
      | Some v => match pre_measure k s v with
                  | inr e => inr e
                  | inl s1 => inl (emit s1 [EUse [v]])
                  end
      end
  | MeasureDestructive h =>
      match id_of h (active s) with
      | None => inr ErrDeadHandle
      | Some v => match pre_measure k s v with
                  | inr e => inr e
                  | inl s1 => let s2 := emit s1 [EUse [v]; EFree v] in
                              inl (set_active s2 (deact h (active s2)))
                  end
      end
  | Free h =>
      match id_of h (active s) with
      | None => inr ErrDeadHandle
      | Some v => let s1 := emit s [EFree v] in inl (set_active s1 (deact h (active s1)))
      end
  | EprKeep n recv sq nonphi =>
      if n =? 0 then inr ErrUnmodelled
      else if sq && (1 <? n) then inr ErrReject        (* _check_epr_args: sequential needs a post routine *)
      else if negb sq && (max_q k <? n) then inr ErrReject   (* _check_epr_args *)
      (* one sequential pair gets the ID a non-sequential one gets *)
      else match ent_handles k s n with
           | inr e => inr e
           | inl (s1, vs) =>
               let cs := if recv then nonphi else [] in   (* expect_phi_plus: only the receiver corrects *)
               inl (emit s1 (if single_comm k then move_loop vs cs else map EEpr vs ++ corr_list vs cs))
           end
  | EprContext n _ b =>
      if n =? 0 then inr ErrUnmodelled
      else if max_q k <? n then inr ErrReject          (* _assert_epr_args *)
      else if single_comm k then
        (* _pre_epr_context: with one communication qubit all pairs get that qubit's ID
           (the `sequential` ID assignment); the handles were never shown to the host *)
        (* a context builds no Bell-state corrections.  Consumed: the handles were never
           shown to the host; kept: they stay active (the check registers them as the
           next host handles) *)
        match seq_run k s n false [] b with
        | inr e => inr e
        | inl s' => inl (mkSdk (active s') (if keeps b then next_h s' else next_h s) (pending s') (last_new s'))
        end
      else match ent_handles k s n with
           | inr e => inr e
           | inl (s1, vs) =>
               (* the pairs go to the handles' own IDs; if the block consumes each pair
                  the reserved handles are deactivated at block exit *)
               let s2 := emit s1 (pair_loop vs [] b) in
               inl (if keeps b then s2
                    else mkSdk (drop_last_handles n (active s2)) (next_h s) (pending s2) (last_new s2))
           end
  | EprKeepSeq n recv sq nonphi b =>
      let cs := if recv then nonphi else [] in
      if n =? 0 then inr ErrUnmodelled
      else if negb sq && (max_q k <? n) then inr ErrReject   (* _check_epr_args *)
      else if sq || single_comm k then
        (* sequential, or one communication qubit: all pairs through one ID.
           _build_cmds_post_epr: pair after pair is delivered, corrected, handed to the
           post routine; if the routine consumed its qubit the n handles handed to the
           host are deactivated (they keep their numbers) *)
        seq_run k s n (single_comm k) cs b
      else
        (* several communication qubits, not sequential: every pair has its own ID *)
        match ent_handles k s n with
        | inr e => inr e
        | inl (s1, vs) =>
            let s2 := emit s1 (pair_loop vs cs b) in
            inl (if keeps b then s2
                 else mkSdk (drop_last_handles n (active s2)) (next_h s2) (pending s2) (last_new s2))
        end
  | Flush => inl s
  end.

Definition after_flush (s : sdk) : sdk := mkSdk (active s) (next_h s) [] None.

Definition init_sdk : sdk := mkSdk [] 0 [] None.
Definition init_ctrl (k : cfg) : ctrl := mkCtrl [] (max_q k).

(* ------------------------------------------------------------------ run *)
(* canonical controller trace: consecutive uses are merged into a set *)
Inductive cev := CAlloc (v : nat) | CFree (v : nat) | CEpr (v : nat) | CUse (vs : list nat).

Fixpoint ins (v : nat) (l : list nat) : list nat :=
  match l with
  | [] => [v]
  | x :: r => if v <? x then v :: l else if v =? x then l else x :: ins v r
  end.
Definition ins_all (vs l : list nat) : list nat := fold_left (fun acc v => ins v acc) vs l.

Fixpoint canon (evs : list event) (cur : option (list nat)) : list cev :=
  let close := match cur with Some u => [CUse u] | None => [] end in
  match evs with
  | [] => close
  | EUse vs :: r => canon r (Some (ins_all vs (match cur with Some u => u | None => [] end)))
  | EAlloc v :: r => close ++ CAlloc v :: canon r None
  | EFree v :: r => close ++ CFree v :: canon r None
  | EEpr v :: r => close ++ CEpr v :: canon r None
  end.

(* after a fault the last (possibly partial) group of uses is not compared *)
Definition strip_last_use (l : list cev) : list cev :=
  match rev l with
  | CUse _ :: r => rev r
  | _ => l
  end.

Inductive obs :=
| OStep (i : list nat)                       (* ids of conn.active_qubits after a building operation *)
| OFlush (i : list nat) (t : list cev) (a : list nat) (f : option (fault * nat))
| OReject
| OModelErr.

Fixpoint run (k : cfg) (s : sdk) (c : ctrl) (ops : list op) : list obs :=
  match ops with
  | [] => []
  | Flush :: r =>
      match exec_events c (all_pending s) with
      | (c', d, None) => OFlush (ids s) (canon d None) (allocated c') None :: run k (after_flush s) c' r
      | (c', d, Some f) => [OFlush (ids s) (strip_last_use (canon d None)) (allocated c') (Some f)]
      end
  | o :: r =>
      match sdk_step k s o with
      | inl s' => OStep (ids s') :: run k s' c r
      | inr ErrReject => [OReject]
      | inr _ => [OModelErr]
      end
  end.

Definition run0 (k : cfg) (ops : list op) : list obs := run k init_sdk (init_ctrl k) ops.

(* ------------------------------------------------------------------ hypotheses on host programs *)
Definition live (s : sdk) (h : nat) : bool := existsb (Nat.eqb h) (handles s).

(* the host keeps at most budget(cfg) qubits alive and addresses live handles *)
Definition in_budget (k : cfg) (s : sdk) (o : op) : bool :=
  match o with
  | NewQubit => length (active s) + 1 <=? budget k
  | Gate1 h | MeasureInplace h | MeasureDestructive h | Free h => live s h
  | Gate2 h1 h2 => live s h1 && live s h2 && negb (h1 =? h2)
    (* sequential=True without a post routine: the API refuses more than one pair *)
  | EprKeep n _ sq _ => (1 <=? n) && (length (active s) + n <=? budget k) && (negb sq || (n =? 1))
    (* a block that keeps its qubit: legal for several pairs only when each pair has its own ID *)
  | EprContext n _ b => (1 <=? n) && (length (active s) + n <=? budget k) &&
                        (negb (keeps b) || negb (single_comm k) || (n =? 1))
  | EprKeepSeq n _ sq _ b =>
      (1 <=? n) &&
      (if sq then length (active s) + 1 <=? budget k     (* one pair alive at a time *)
       else length (active s) + n <=? budget k) &&
      (negb (keeps b) || (n =? 1) || (negb sq && negb (single_comm k)))
  | Flush => true
  end.

(* a predicate holds before every operation of the program (states follow the
   SDK model; the walk ends where the SDK refuses an operation) *)
Fixpoint always (P : cfg -> sdk -> op -> bool) (k : cfg) (s : sdk) (ops : list op) : bool :=
  match ops with
  | [] => true
  | o :: r => P k s o &&
              match o with
              | Flush => always P k (after_flush s) r
              | _ => match sdk_step k s o with
                     | inl s' => always P k s' r
                     | inr _ => true
                     end
              end
  end.

Definition within_budget (k : cfg) (ops : list op) : Prop := always in_budget k init_sdk ops = true.

(* ------------------------------------------------------------------ what C09 excludes *)
Definition is_faultb (o : obs) : bool :=
  match o with
  | OFlush _ _ _ (Some _) => true     (* a flush ended in an allocation fault *)
  | OModelErr => true                 (* the model left its domain *)
  | OReject => true                   (* the SDK refused an operation *)
  | _ => false
  end.
Definition has_fault (l : list obs) : bool := existsb is_faultb l.

(* the SDK states reached by a program (fold of sdk_step; None once the SDK refuses) *)
Fixpoint sdk_after (k : cfg) (s : sdk) (ops : list op) : option sdk :=
  match ops with
  | [] => Some s
  | Flush :: r => sdk_after k (after_flush s) r
  | o :: r => match sdk_step k s o with inl s' => sdk_after k s' r | inr _ => None end
  end.
