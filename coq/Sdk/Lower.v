(* Lower.v — model of the builder (netqasm/sdk/builder.py, futures.py, qubit.py):
   an SDK program is turned, statement by statement, into structured IR while the
   memory manager state (active registers, M registers, qubit ids, array
   addresses) is threaded through exactly in the order the Python code touches it.
   Proof-free.  `fd` = does Qubit.free() deactivate the handle (probed from the
   live code on every run; C09 owns that behaviour). *)
From Coq Require Import ZArith List Bool Arith.
From NQ Require Import Sdk.SdkAst Sdk.Target Sdk.MemMgr.
Import ListNotations.
Local Open Scope nat_scope.

Definition bind {A B} (m : res A) (f : A -> res B) : res B :=
  match m with Ok a => f a | Err e => Err e end.
Notation "'let*' x ':=' m 'in' f" := (bind m (fun x => f))
  (at level 200, x pattern, m at level 100, f at level 200, right associativity).

Definition R (i : nat) : reg := Rg BR i.
Definition M (i : nat) : reg := Rg BM i.
Definition Q0 : reg := Rg BQ 0.
Definition Q1 : reg := Rg BQ 1.

Definition qubit_id (q : nat) (st : lst) : res nat :=
  match alook q (l_q st) with Some i => Ok i | None => Err EIll end.
Definition set_q (r : reg) (id : nat) : sir := XI (ISet r (Z.of_nat id)).

(* the register of a register future usable as an operand NOW: an M register only in the flush
   block that assigned it (M registers are handed out afresh after every flush; afterwards the
   host reads the returned value); a register claimed with new_register at any time *)
Definition rf_lookup (r : nat) (st : lst) : option reg :=
  match alook r (l_rf st) with
  | Some (Rg BM m) => Some (Rg BM m)
  | Some (Rg BR k) => Some (Rg BR k)
  | _ => None                       (* stale: an M register future of an earlier flush block *)
  end.

Definition low_ix (ix : index) (st : lst) : res rop :=
  match ix with
  | IxC n => Ok (PImm (Z.of_nat n))
  | IxV v => match alook v (l_lv st) with Some r => Ok (PReg (R r)) | None => Err EIll end
  end.

(* _get_condition_operand: a Future is loaded into a fresh temporary *)
Definition low_cval (x : cval) (st : lst) : res (list instr * rop * list nat * lst) :=
  match x with
  | VInt z => Ok ([], PImm z, [], st)
  | VFut a ix =>
      let* ix' := low_ix ix st in
      let* (t, st1) := take st in
      Ok ([ILoad (R t) a ix'], PReg (R t), [t], st1)
  | VReg r => match rf_lookup r st with Some m => Ok ([], PReg m, [], st) | None => Err EIll end
  | VLoop v => match alook v (l_lv st) with Some r => Ok ([], PReg (R r), [], st) | None => Err EIll end
  end.

Fixpoint release_all (ts : list nat) (st : lst) : lst :=
  match ts with [] => st | t :: r => release_all r (release t st) end.

(* Future.add / RegFuture.add: the other operand *)
Definition low_src (o : addsrc) (st : lst) : res (list instr * rop * list nat * lst) :=
  match o with
  | AInt z => Ok ([], PImm z, [], st)
  | AFut b jx =>
      let* jx' := low_ix jx st in
      let* (t, st1) := take st in
      Ok ([ILoad (R t) b jx'], PReg (R t), [t], st1)
  | ALoop v => match alook v (l_lv st) with Some r => Ok ([], PReg (R r), [], st) | None => Err EIll end
  | AReg r => match rf_lookup r st with Some m => Ok ([], PReg m, [], st) | None => Err EIll end
  end.

Definition add_instr (d x : reg) (y : rop) (m : option Z) : instr :=
  match m with None => IAdd d x y | Some m => IAddm d x y m end.

Definition deactivate (q : nat) (st : lst) : lst := with_qs st (adel q (l_q st)).

Definition declare (a n : nat) (init : option (list (option Z))) (st : lst) : res lst :=
  if Nat.eqb a (l_next st) then
    Ok (mkL (l_act st) (l_peak st) (l_mused st) (l_q st) (S (l_next st)) (l_decl st ++ [(a, n, init)])
            (l_ret st) (l_rf st) (l_lv st) ((a, n) :: l_len st) (l_mscr st))
  else Err EIll.

(* the arrays of an EPR operation: entanglement results, qubit ids (all equal when the
   pairs are handled sequentially: initialised by a loop at the flush), request arguments *)
Fixpoint epr_arrays_at (i n : nat) (seq : bool) (st : lst) : lst :=
  match n with
  | O => st
  | S n' =>
      let a := l_next st in
      let init := if seq && Nat.eqb i 1 then Some [Some 0%Z; Some 0%Z] else None in
      epr_arrays_at (S i) n' seq
        (mkL (l_act st) (l_peak st) (l_mused st) (l_q st) (S a) (l_decl st ++ [(a, 2, init)])
             (l_ret st) (l_rf st) (l_lv st) ((a, 2) :: l_len st) (l_mscr st))
  end.
Definition epr_arrays (n : nat) (seq : bool) (st : lst) : lst := epr_arrays_at 0 n seq st.

(* names denote handles: a register-future name is bound once (the model rejects re-use) *)
Definition bind_rf (r : nat) (m : reg) (st : lst) : lst :=
  mkL (l_act st) (l_peak st) (l_mused st) (l_q st) (l_next st) (l_decl st) (l_ret st)
      ((r, m) :: l_rf st) (l_lv st) (l_len st) (l_mscr st).

Definition bind_lvr (v r : nat) (st : lst) : lst := with_lvs st ((v, r) :: l_lv st).

(* measurement prefix shared by the three variants *)
Definition low_meas (q : nat) (ip keep : bool) (st : lst) : res (nat * list sir * lst) :=
  let* id := qubit_id q st in
  let* (m, st1) := take_m st keep in
  let st2 := if ip then st1 else deactivate q st1 in
  Ok (m, [set_q Q0 id; XI (IMeas Q0 (M m))] ++ (if ip then [] else [XI (IQ QFree Q0)]), st2).

Definition is_nil {A} (l : list A) : bool := match l with [] => true | _ => false end.

Fixpoint lower_stmt (fd : bool) (s : stmt) (st : lst) {struct s} : res (list sir * lst) :=
  match s with
  | SNewQubit q =>
      match alook q (l_q st) with
      | Some _ => Err EIll
      | None =>
          let id := new_qubit_id st in
          Ok ([set_q Q0 id; XI (IQ QAlloc Q0); XI (IQ QInit Q0)], with_qs st (l_q st ++ [(q, id)]))
      end
  | SGate g q => let* id := qubit_id q st in Ok ([set_q Q0 id; XI (IQ (QG g) Q0)], st)
  | SRot ax q n d => let* id := qubit_id q st in Ok ([set_q Q0 id; XI (IRot ax Q0 n d)], st)
  | STwo t q1 q2 =>
      let* i1 := qubit_id q1 st in
      let* i2 := qubit_id q2 st in
      Ok ([set_q Q0 i1; set_q Q1 i2; XI (ITwo t Q0 Q1)], st)
  | SMeasFut q ip a ix =>
      let* ix' := low_ix ix st in
      let* (m, c, st1) := low_meas q ip false st in
      Ok (c ++ [XI (IStore (PReg (M m)) a ix')], st1)
  | SMeasNew q ip a =>
      let* st0 := declare a 1 None st in
      let* (m, c, st1) := low_meas q ip false st0 in
      Ok (c ++ [XI (IStore (PReg (M m)) a (PImm 0))], st1)
  | SMeasReg q ip r =>
      match alook r (l_rf st) with Some _ => Err EIll | None =>
      let* (m, c, st1) := low_meas q ip true st in
      Ok (c, bind_rf r (M m) st1)
      end
  | SFree q =>
      let* id := qubit_id q st in
      Ok ([set_q Q0 id; XI (IQ QFree Q0)], if fd then deactivate q st else st)
  | SNewArray a n init =>
      let n' := match init with Some l => List.length l | None => n end in
      if Nat.eqb n' 0 then Err EIll else
      let* st1 := declare a n' init st in Ok ([], st1)
  | SFutAdd a ix o m =>
      let* ix' := low_ix ix st in
      let* (t, st1) := take st in
      let* (lo, y, ts, st2) := low_src o st1 in
      Ok (map XI ([ILoad (R t) a ix'] ++ lo ++ [add_instr (R t) (R t) y m; IStore (PReg (R t)) a ix']),
          release_all ts (release t st2))
  | SRegAdd r o m =>
      match rf_lookup r st with
      | Some (Rg BM k) =>
          let* (lo, y, ts, st1) := low_src o st in
          Ok (map XI (lo ++ [add_instr (M k) (M k) y m]), release_all ts st1)
      | _ => Err EIll
      end
  | SUAdd r o m =>
      match alook r (l_rf st) with
      | Some (Rg BR k) =>
          let* (lo, y, ts, st1) := low_src o st in
          Ok (map XI (lo ++ [add_instr (R k) (R k) y m]), release_all ts st1)
      | _ => Err EIll
      end
  | SIf c cb x y body =>
      let* (cbody, st1) := lower_block fd body st in
      if is_nil cbody then Ok ([], st1) else
      let* (lx, px, tx, st2) := low_cval x st1 in
      match c with
      | CEz | CNz => Ok ([XIf lx c px (PImm 0) cbody], release_all tx st2)
      | _ =>
          let* (ly, py, ty, st3) := low_cval y st2 in
          Ok ([XIf (lx ++ ly) c px py cbody], release_all (tx ++ ty) st3)
      end
  | SNewReg r init =>
      match alook r (l_rf st) with Some _ => Err EIll | None =>
      let* (k, st1) := take st in
      Ok ([XI (ISet (R k) init)],
          mkL (l_act st1) (l_peak st1) (l_mused st1) (l_q st1) (l_next st1) (l_decl st1)
              (l_ret st1 ++ [R k]) ((r, R k) :: l_rf st1) (l_lv st1) (l_len st1) (l_mscr st1))
      end
  | SLoop cb v oreg start stop step body =>
      match alook v (l_lv st) with Some _ => Err EIll | None =>
      let* (r, st1) := take_at oreg st in
      let* (cbody, st2) := lower_block fd body (bind_lvr v r st1) in
      let st3 := release r (with_lvs st2 (l_lv st)) in
      if is_nil cbody then Ok ([], st3) else Ok ([XLoop (R r) start stop step cbody], st3)
      end
  | SForeach enum v a body =>
      match alook a (l_len st), alook v (l_lv st) with
      | Some n, None =>
          let* (r, st1) := take st in
          let* (cbody, st2) := lower_block fd body (bind_lvr v r st1) in
          let st3 := release r (with_lvs st2 (l_lv st)) in
          if is_nil cbody then Ok ([], st3) else Ok ([XLoop (R r) 0 (Z.of_nat n) 1 cbody], st3)
      | _, _ => Err EIll
      end
  | SLoopUntil v maxit body cx bound cleanup =>
      match alook v (l_lv st) with Some _ => Err EIll | None =>
      let* (r, st1) := take st in
      let* (cbody, st2) := lower_block fd body (bind_lvr v r st1) in
      if is_nil cbody then Ok ([], release r (with_lvs st2 (l_lv st))) else
      let* (lx, px, tx, st3) := low_cval cx st2 in
      let* (ccl, st4) := lower_block fd cleanup (release_all tx st3) in
      Ok ([XUntil (R r) maxit cbody lx px (bound + 1) ccl], release r (with_lvs st4 (l_lv st)))
      end
  | SEpr k body =>
      match k with
      | EKeep n => match body with BNil => Ok ([XI (IOpaque 0)], epr_arrays n false st) | _ => Err EIll end
      | ERecvCorr =>
          match body with
          | BNil => let* st1 := transient 5 (epr_arrays 2 false st) in Ok ([XI (IOpaque 1)], st1)
          | _ => Err EIll
          end
      | EPost corr n =>
          let* (r1, s1) := take (epr_arrays n true st) in
          let* (r2, s2) := take s1 in
          let* (r3, s3) := take s2 in
          let* s4 := transient 4 s3 in
          let* s5 := (if corr then transient 2 s4 else Ok s4) in
          let* (cb_, s6) := lower_block fd body s5 in
          Ok (XI (IOpaque 2) :: cb_, release r3 (release r2 (release r1 s6)))
      | ECtx n =>
          let* (r1, s1) := take (epr_arrays n false st) in
          let* (cb_, s2) := lower_block fd body s1 in
          let* s3 := transient 4 s2 in
          Ok (XI (IOpaque 3) :: cb_, release r1 s3)
      end
  | SFlush => Err EIll
  | SFutAddX a b n o m =>
      (* Future._get_access_commands with a Future index: the index is loaded into the first
         inactive register (held only while its commands are built), once for the load of self
         and once for the store back, both computed while the temporary of self is held *)
      let* (t, st1) := take st in
      let* (ti, st1i) := take st1 in
      let st1' := release ti st1i in
      let* (lo, y, ts, st2) := low_src o st1' in
      Ok (map XI ([ILoad (R ti) b (PImm (Z.of_nat n)); ILoad (R t) a (PReg (R ti))] ++ lo ++
                  [add_instr (R t) (R t) y m;
                   ILoad (R ti) b (PImm (Z.of_nat n)); IStore (PReg (R t)) a (PReg (R ti))]),
          release_all ts (release t st2))
  | SMeasFutX q ip a b n =>
      let* (m, c, st1) := low_meas q ip false st in
      let* (ti, st1i) := take st1 in
      Ok (c ++ [XI (ILoad (R ti) b (PImm (Z.of_nat n))); XI (IStore (PReg (M m)) a (PReg (R ti)))],
          release ti st1i)
  end
with lower_block (fd : bool) (b : block) (st : lst) {struct b} : res (list sir * lst) :=
  match b with
  | BNil => Ok ([], st)
  | BCons s r =>
      let* (c1, st1) := lower_stmt fd s st in
      let* (c2, st2) := lower_block fd r st1 in
      Ok (c1 ++ c2, st2)
  end.

(* ------------------------------------------------------------------ flush *)
(* the ad-hoc optimisation of _build_cmds_init_array: all values equal (and more than one) *)
Definition loopopt (l : list (option Z)) : option Z :=
  match l with
  | Some v :: _ :: _ =>
      if forallb (fun x => match x with Some w => Z.eqb w v | None => false end) l then Some v else None
  | _ => None
  end.

Fixpoint stores (a i : nat) (l : list (option Z)) : list sir :=
  match l with
  | [] => []
  | None :: r => stores a (S i) r
  | Some v :: r => XI (IStore (PImm v) a (PImm (Z.of_nat i))) :: stores a (S i) r
  end.

(* _build_cmds_allocated_arrays: P = commands pending so far.  The loop variant goes
   through _build_cmds_loop_body, which moves everything pending in front of the loop,
   after this array's own declaration. *)
Fixpoint init_code (ds : list arrdecl) (P : list sir) (st : lst) : res (list sir * lst) :=
  match ds with
  | [] => Ok (P, st)
  | (a, n, init) :: r =>
      let decl := XI (IArray (Z.of_nat n) a) in
      match init with
      | None => init_code r (P ++ [decl]) st
      | Some l =>
          match loopopt l with
          | Some v =>
              let* (t, st1) := take st in
              init_code r ([decl] ++ P ++
                           [XLoop (R t) 0 (Z.of_nat (List.length l)) 1 [XI (IStore (PImm v) a (PReg (R t)))]])
                        (release t st1)
          | None => init_code r (P ++ [decl] ++ stores a 0 l) st
          end
      end
  end.

Definition STALE : reg := Rg BC 0.
Definition stale_rf (l : list (nat * reg)) : list (nat * reg) :=
  map (fun p : nat * reg => match snd p with Rg BM _ => (fst p, STALE) | _ => p end) l.
Definition reset_block (st : lst) : lst :=
  mkL (l_act st) (l_peak st) (repeat false NREGS) (l_q st) (l_next st) [] [] (stale_rf (l_rf st)) (l_lv st) (l_len st)
      (repeat false NREGS).

Definition lower_flush (body : list sir) (st : lst) : res (option (list sir) * lst) :=
  let* (P, st1) := init_code (l_decl st) [] st in
  let full := P ++ body ++ map (fun d : arrdecl => XI (IRetArr (fst (fst d)))) (l_decl st)
                ++ map (fun m => XI (IRetReg m)) (l_ret st) in
  Ok (if is_nil full then None else Some full, reset_block st1).

(* whole program: one entry per flush (None = nothing pending, no subroutine sent) *)
Fixpoint lower_top (fd : bool) (b : block) (acc : list sir) (st : lst)
  : res (list (option (list sir)) * lst) :=
  match b with
  | BNil => Ok ([], st)
  | BCons SFlush r =>
      let* (blk_, st1) := lower_flush acc st in
      let* (rest, st2) := lower_top fd r [] st1 in
      Ok (blk_ :: rest, st2)
  | BCons s r =>
      let* (c, st1) := lower_stmt fd s st in
      lower_top fd r (acc ++ c) st1
  end.

Definition lower_prog (fd : bool) (p : block) := lower_top fd p [] l0.

(* statement by statement (C14 direct run): after each top-level statement either the
   active registers or the error *)
Inductive stepres := StepOk (active : list nat) (peak : nat) (mused mscr : list nat) | StepErr (e : lerr).

Fixpoint lower_steps (fd : bool) (b : block) (acc : list sir) (st : lst) : list stepres :=
  match b with
  | BNil => []
  | BCons SFlush r =>
      match lower_flush acc st with
      | Ok (_, st1) => StepOk (active_list st1) (l_peak st1) (mused_list st1) (mscr_list st1) :: lower_steps fd r [] st1
      | Err e => [StepErr e]
      end
  | BCons s r =>
      match lower_stmt fd s st with
      | Ok (c, st1) => StepOk (active_list st1) (l_peak st1) (mused_list st1) (mscr_list st1) :: lower_steps fd r (acc ++ c) st1
      | Err e => [StepErr e]
      end
  end.
