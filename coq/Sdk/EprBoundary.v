(* EprBoundary.v — model of the SDK/controller boundary for EPR requests and
   results (C11).  Model only; proofs in Proofs/EprBoundaryProofs.v.

   SDK side      netqasm/sdk/build_epr.py  serialize_request, deserialize_epr_*_results
                 netqasm/sdk/builder.py    _create_ent_info_k_slices
   controller    netqasm/backend/executor.py  _get_create_request, _store_ent_info
   link layer    netqasm/qlink_compat.py   request_to_qlink_1_0

   Everything that is data in the code (SER_* indices, tuple field orders, defaults,
   enum numberings) is a parameter (record [tables]); gen/epr_tables.py regenerates the
   instance.  All functions are polymorphic in a type V of *symbolic* values: the code
   only moves parameter values around (it computes on them only through the tests
   collected in [shape]), so the behaviour for all integer parameters is the image of
   the behaviour on symbols (Proofs: [request_roundtrip_all]). *)
From Coq Require Import ZArith List Bool String.
Import ListNotations.
Open Scope string_scope.
Open Scope Z_scope.

(* ------------------------------------------------------------------ values *)
Inductive val (V : Type) : Type := Lit (z : Z) | Sym (v : V).
Arguments Lit {V} z.
Arguments Sym {V} v.
(* a field of a request tuple: a plain integer or an enum member (enum class name, value) *)
Inductive fval (V : Type) : Type := VInt (x : val V) | VEnum (en : string) (z : Z).
Arguments VInt {V} x.
Arguments VEnum {V} en z.
(* a default of a namedtuple *)
Inductive dflt : Type := DInt (z : Z) | DEnum (en : string) (z : Z).
(* no symbols: the concrete instance *)
Inductive novar : Set := .

Definition vmap {V W} (rho : V -> Z) (x : val V) : val W :=
  match x with Lit z => Lit z | Sym v => Lit (rho v) end.
Definition fmap {V W} (rho : V -> Z) (x : fval V) : fval W :=
  match x with VInt a => VInt (vmap rho a) | VEnum en z => VEnum en z end.

(* ------------------------------------------------------------------ tables *)
(* the SER_CREATE_IDX_* constants serialize_request writes to, and SER_CREATE_LEN *)
Record ser_idx := mkSerIdx {
  i_type : nat; i_number : nat; i_rbl : nat; i_rbr : nat; i_tu : nat; i_mt : nat;
  i_rxl1 : nat; i_ryl : nat; i_rxl2 : nat; i_rxr1 : nat; i_ryr : nat; i_rxr2 : nat;
  i_len : nat }.

Record tables := mkT {
  t_idx : ser_idx;
  t_fields : list string;          (* LinkLayerCreate._fields *)
  t_defaults : list dflt;          (* LinkLayerCreate.__new__.__defaults__ *)
  t_eprtype : list (string * Z);   (* EPRType members *)
  t_reqtype : list (string * Z);   (* RequestType members *)
  t_rb : list (string * Z);        (* RandomBasis members *)
  t_timeunit : list (string * Z);  (* TimeUnit members *)
  t_qlink_rb : list (string * Z)   (* qlink_interface.RandomBasis members *)
}.

Fixpoint lookup {A} (k : string) (l : list (string * A)) : option A :=
  match l with
  | [] => None
  | (k', v) :: t => if String.eqb k' k then Some v else lookup k t
  end.
Fixpoint name_of (z : Z) (l : list (string * Z)) : option string :=
  match l with
  | [] => None
  | (k, v) :: t => if v =? z then Some k else name_of z t
  end.
Definition enum_val (name : string) (l : list (string * Z)) : Z :=
  match lookup name l with Some v => v | None => -1 end.   (* -1 is no member of any of the enums (checked: [enums_ok]) *)

(* ------------------------------------------------------------------ parameters *)
(* the tests serialize_request performs on the parameters *)
Record shape := mkShape {
  sh_tp : string;            (* name of the EPRType member *)
  sh_timed : bool;           (* params.max_time != 0 *)
  sh_rotl : bool;            (* params.rotations_local != (0,0,0) *)
  sh_rotr : bool;            (* params.rotations_remote != (0,0,0) *)
  sh_rbl : option string;    (* name of params.random_basis_local, None if not given *)
  sh_rbr : option string }.

Record pvals (V : Type) := mkPV {
  v_number : val V; v_tu : val V; v_mt : val V;
  v_rl1 : val V; v_rl2 : val V; v_rl3 : val V;
  v_rr1 : val V; v_rr2 : val V; v_rr3 : val V;
  v_node : val V; v_sock : val V }.
Arguments mkPV {V}.
Arguments v_number {V}. Arguments v_tu {V}. Arguments v_mt {V}.
Arguments v_rl1 {V}. Arguments v_rl2 {V}. Arguments v_rl3 {V}.
Arguments v_rr1 {V}. Arguments v_rr2 {V}. Arguments v_rr3 {V}.
Arguments v_node {V}. Arguments v_sock {V}.

Definition pvmap {V W} (rho : V -> Z) (p : pvals V) : pvals W :=
  mkPV (vmap rho (v_number p)) (vmap rho (v_tu p)) (vmap rho (v_mt p))
       (vmap rho (v_rl1 p)) (vmap rho (v_rl2 p)) (vmap rho (v_rl3 p))
       (vmap rho (v_rr1 p)) (vmap rho (v_rr2 p)) (vmap rho (v_rr3 p))
       (vmap rho (v_node p)) (vmap rho (v_sock p)).

(* ------------------------------------------------------------------ SDK: serialize_request *)
(* array[k] = x  (k is in range: guarded by [idx_in_range]) *)
Fixpoint upd {A} (k : nat) (x : A) (l : list A) : list A :=
  match l, k with
  | [], _ => []
  | _ :: t, O => x :: t
  | h :: t, S k' => h :: upd k' x t
  end.

Definition idx_in_range (ix : ser_idx) : bool :=
  forallb (fun k => Nat.ltb k (i_len ix))
    [i_type ix; i_number ix; i_rbl ix; i_rbr ix; i_tu ix; i_mt ix;
     i_rxl1 ix; i_ryl ix; i_rxl2 ix; i_rxr1 ix; i_ryr ix; i_rxr2 ix].

Definition is_mr (tp : string) : bool := String.eqb tp "M" || String.eqb tp "R".

Definition serialize {V} (t : tables) (sh : shape) (p : pvals V) : option (list (option (val V))) :=
  let ix := t_idx t in
  if negb (idx_in_range ix) then None   (* IndexError in the Python code *)
  else
    let a0 := repeat None (i_len ix) in
    let a1 := upd (i_type ix) (Some (Lit (enum_val (sh_tp sh) (t_eprtype t)))) a0 in
    let a2 := upd (i_number ix) (Some (v_number p)) a1 in
    let a3 := if sh_timed sh
              then upd (i_mt ix) (Some (v_mt p)) (upd (i_tu ix) (Some (v_tu p)) a2)
              else a2 in
    let a4 :=
      if is_mr (sh_tp sh) then
        let b1 := if sh_rotl sh
                  then upd (i_rxl2 ix) (Some (v_rl3 p)) (upd (i_ryl ix) (Some (v_rl2 p))
                         (upd (i_rxl1 ix) (Some (v_rl1 p)) a3))
                  else a3 in
        let b2 := if sh_rotr sh
                  then upd (i_rxr2 ix) (Some (v_rr3 p)) (upd (i_ryr ix) (Some (v_rr2 p))
                         (upd (i_rxr1 ix) (Some (v_rr1 p)) b1))
                  else b1 in
        let b3 := match sh_rbl sh with
                  | Some r => upd (i_rbl ix) (Some (Lit (enum_val r (t_rb t)))) b2
                  | None => b2 end in
        match sh_rbr sh with
        | Some r => upd (i_rbr ix) (Some (Lit (enum_val r (t_rb t)))) b3
        | None => b3 end
      else a3 in
    Some a4.

(* ------------------------------------------------------------------ controller: _get_create_request *)
Definition pick {V} (a : option (val V)) (d : dflt) : fval V :=
  match a with
  | Some x => VInt x
  | None => match d with DInt z => VInt (Lit z) | DEnum en z => VEnum en z end
  end.

Fixpoint map2 {A B C} (f : A -> B -> C) (l : list A) (m : list B) : list C :=
  match l, m with
  | a :: l', b :: m' => f a b :: map2 f l' m'
  | _, _ => []
  end.

(* E(x) for an Enum class E: an int that is a member value -> the member; a member of E
   -> itself; anything else raises ValueError.  A symbolic value is refused (the
   symbolic run must not depend on it). *)
Definition to_enum {V} (en : string) (members : list (string * Z)) (v : fval V) : option (fval V) :=
  match v with
  | VInt (Lit z) => if existsb (Z.eqb z) (map snd members) then Some (VEnum en z) else None
  | VInt (Sym _) => None
  | VEnum en' z => if String.eqb en' en then Some (VEnum en z) else None
  end.

Fixpoint replace {A} (k : string) (x : A) (l : list (string * A)) : list (string * A) :=
  match l with
  | [] => []
  | (k', v) :: t => if String.eqb k' k then (k', x) :: t else (k', v) :: replace k x t
  end.

Definition conv {V} (f en : string) (members : list (string * Z)) (kw : list (string * fval V))
  : option (list (string * fval V)) :=
  match lookup f kw with
  | None => None                                   (* KeyError *)
  | Some v => match to_enum en members v with
              | None => None                       (* ValueError *)
              | Some v' => Some (replace f v' kw)
              end
  end.

Definition controller {V} (t : tables) (node purpose : val V) (arr : list (option (val V)))
  : option (list (string * fval V)) :=
  let args := Some node :: Some purpose :: arr in
  if negb (Nat.eqb (List.length args) (List.length (t_fields t))) then None   (* "Expected n arguments" *)
  else if negb (Nat.eqb (List.length (t_defaults t)) (List.length (t_fields t))) then None
  else
    let kw := combine (t_fields t) (map2 pick args (t_defaults t)) in
    match conv "type" "RequestType" (t_reqtype t) kw with
    | None => None
    | Some kw1 =>
      match conv "random_basis_local" "RandomBasis" (t_rb t) kw1 with
      | None => None
      | Some kw2 => conv "random_basis_remote" "RandomBasis" (t_rb t) kw2
      end
    end.

(* ------------------------------------------------------------------ spec: what the stack must receive *)
Definition rb_expected (t : tables) (tp : string) (r : option string) : Z :=
  match (if is_mr tp then r else None) with
  | Some n => enum_val n (t_rb t)
  | None => enum_val "NONE" (t_rb t)
  end.

Definition zero {V} : fval V := VInt (Lit 0).

Definition expected {V} (t : tables) (sh : shape) (p : pvals V) : list (string * fval V) :=
  let mr := is_mr (sh_tp sh) in
  let rl x := if mr && sh_rotl sh then VInt x else zero in
  let rr x := if mr && sh_rotr sh then VInt x else zero in
  [ ("remote_node_id", VInt (v_node p));
    ("purpose_id", VInt (v_sock p));
    ("type", VEnum "RequestType" (enum_val (sh_tp sh) (t_reqtype t)));   (* the member of the same name *)
    ("number", VInt (v_number p));
    ("random_basis_local", VEnum "RandomBasis" (rb_expected t (sh_tp sh) (sh_rbl sh)));
    ("random_basis_remote", VEnum "RandomBasis" (rb_expected t (sh_tp sh) (sh_rbr sh)));
    ("minimum_fidelity", zero);
    (* max_time = 0 means "no limit": the unit is then not transmitted and the tuple's
       default unit stands *)
    ("time_unit", if sh_timed sh then VInt (v_tu p) else VInt (Lit (enum_val "MICRO_SECONDS" (t_timeunit t))));
    ("max_time", if sh_timed sh then VInt (v_mt p) else zero);
    ("priority", zero); ("atomic", zero); ("consecutive", zero);
    ("probability_dist_local1", zero); ("probability_dist_local2", zero);
    ("probability_dist_remote1", zero); ("probability_dist_remote2", zero);
    ("rotation_X_local1", rl (v_rl1 p)); ("rotation_Y_local", rl (v_rl2 p)); ("rotation_X_local2", rl (v_rl3 p));
    ("rotation_X_remote1", rr (v_rr1 p)); ("rotation_Y_remote", rr (v_rr2 p)); ("rotation_X_remote2", rr (v_rr3 p)) ].

(* field-by-field agreement (by field name, not by position) *)
Definition req_agree {V} (got exp : list (string * fval V)) : Prop :=
  List.length got = List.length exp /\ forall f v, In (f, v) exp -> lookup f got = Some v.

(* ------------------------------------------------------------------ link layer: request_to_qlink_1_0 *)
Definition base_fields : list string :=
  ["remote_node_id"; "minimum_fidelity"; "time_unit"; "max_time"; "purpose_id"; "number";
   "priority"; "atomic"; "consecutive"].
Definition m_fields : list string :=
  ["rotation_X_local1"; "rotation_Y_local"; "rotation_X_local2";
   "rotation_X_remote1"; "rotation_Y_remote"; "rotation_X_remote2";
   "probability_dist_local1"; "probability_dist_remote1"; "probability_dist_local2"; "probability_dist_remote2"].
Definition r_fields : list string :=
  ["rotation_X_local1"; "rotation_Y_local"; "rotation_X_local2";
   "probability_dist_local1"; "probability_dist_local2"].

Definition has_all {V} (r : list (string * fval V)) (fs : list string) : bool :=
  forallb (fun f => match lookup f r with Some _ => true | None => false end) fs.

(* request.<f>.value must exist (an enum member, not an int) and
   qlink_1_0.RandomBasis(value) must be the member of the same name *)
Definition rb_ok {V} (t : tables) (r : list (string * fval V)) (f : string) : bool :=
  match lookup f r with
  | Some (VEnum en z) =>
      String.eqb en "RandomBasis" &&
      match name_of z (t_rb t), name_of z (t_qlink_rb t) with
      | Some a, Some b => String.eqb a b
      | _, _ => false
      end
  | _ => false
  end.

Definition qlink_accepts {V} (t : tables) (r : list (string * fval V)) : bool :=
  match lookup "type" r with
  | Some (VEnum en z) =>
      String.eqb en "RequestType" &&
      (if z =? enum_val "K" (t_reqtype t) then has_all r base_fields
       else if z =? enum_val "M" (t_reqtype t) then
         has_all r base_fields && has_all r m_fields &&
         rb_ok t r "random_basis_local" && rb_ok t r "random_basis_remote"
       else if z =? enum_val "R" (t_reqtype t) then
         has_all r base_fields && has_all r r_fields && rb_ok t r "random_basis_local"
       else false)
  | _ => false   (* an int never equals a RequestType member: "Cannot convert request" *)
  end.

(* ------------------------------------------------------------------ the symbolic run *)
Inductive tok : Set :=
  KNumber | KTu | KMt | KRl1 | KRl2 | KRl3 | KRr1 | KRr2 | KRr3 | KNode | KSock.
Scheme Equality for tok.

Definition tokvals : pvals tok :=
  mkPV (Sym KNumber) (Sym KTu) (Sym KMt) (Sym KRl1) (Sym KRl2) (Sym KRl3)
       (Sym KRr1) (Sym KRr2) (Sym KRr3) (Sym KNode) (Sym KSock).

Definition val_eqb (a b : val tok) : bool :=
  match a, b with
  | Lit x, Lit y => x =? y
  | Sym x, Sym y => tok_beq x y
  | _, _ => false
  end.
Definition fval_eqb (a b : fval tok) : bool :=
  match a, b with
  | VInt x, VInt y => val_eqb x y
  | VEnum e x, VEnum e' y => String.eqb e e' && (x =? y)
  | _, _ => false
  end.

Definition req_agreeb (got exp : list (string * fval tok)) : bool :=
  Nat.eqb (List.length got) (List.length exp) &&
  forallb (fun fv => match lookup (fst fv) got with
                     | Some v => fval_eqb v (snd fv)
                     | None => false end) exp.

Definition check_shape (t : tables) (sh : shape) : bool :=
  match serialize t sh tokvals with
  | None => false
  | Some arr =>
      match controller t (Sym KNode) (Sym KSock) arr with
      | None => false
      | Some r => req_agreeb r (expected t sh tokvals) && qlink_accepts t r
      end
  end.

Definition bools : list bool := [false; true].
Definition rb_choices (t : tables) : list (option string) := None :: map (fun nv => Some (fst nv)) (t_rb t).

Definition all_shapes (t : tables) : list shape :=
  flat_map (fun tp => flat_map (fun b1 => flat_map (fun b2 => flat_map (fun b3 =>
  flat_map (fun r1 => map (fun r2 => mkShape tp b1 b2 b3 r1 r2) (rb_choices t))
  (rb_choices t)) bools) bools) bools) (map fst (t_eprtype t)).

(* the enum tables are sane: values non-negative (so -1 is never a member), EPRType
   has exactly the three request kinds *)
Definition enums_ok (t : tables) : bool :=
  forallb (fun l => forallb (fun nv => 0 <=? snd nv) l)
          [t_eprtype t; t_reqtype t; t_rb t; t_timeunit t; t_qlink_rb t] &&
  forallb (fun n => match lookup n (t_eprtype t) with Some _ => true | None => false end) ["K"; "M"; "R"] &&
  Nat.eqb (List.length (t_eprtype t)) 3.

Definition all_shapes_ok (t : tables) : bool := enums_ok t && forallb (check_shape t) (all_shapes t).

(* ------------------------------------------------------------------ concrete parameters *)
Record params := mkP {
  p_tp : string; p_number : Z; p_tu : Z; p_mt : Z;
  p_rl : Z * Z * Z; p_rr : Z * Z * Z;
  p_rbl : option string; p_rbr : option string;
  p_node : Z; p_sock : Z }.

Definition triple_zero (x : Z * Z * Z) : bool :=
  let '(a, b, c) := x in (a =? 0) && (b =? 0) && (c =? 0).

Definition shape_of (p : params) : shape :=
  mkShape (p_tp p) (negb (p_mt p =? 0)) (negb (triple_zero (p_rl p))) (negb (triple_zero (p_rr p)))
          (p_rbl p) (p_rbr p).

Definition vals_of (p : params) : pvals novar :=
  let '(a, b, c) := p_rl p in
  let '(d, e, f) := p_rr p in
  mkPV (Lit (p_number p)) (Lit (p_tu p)) (Lit (p_mt p)) (Lit a) (Lit b) (Lit c) (Lit d) (Lit e) (Lit f)
       (Lit (p_node p)) (Lit (p_sock p)).

Definition opt_in (o : option string) (l : list (string * Z)) : Prop :=
  match o with None => True | Some n => In n (map fst l) end.

(* what the API accepts: an EPRType member, RandomBasis members (or nothing) *)
Definition api_ok (t : tables) (p : params) : Prop :=
  In (p_tp p) (map fst (t_eprtype t)) /\ opt_in (p_rbl p) (t_rb t) /\ opt_in (p_rbr p) (t_rb t).

(* ------------------------------------------------------------------ results *)
(* a link-layer response: field name -> value (enum members by their value, as
   _store_ent_info does) *)
Definition resp := string -> Z.
Definition resp_values (fields : list string) (r : resp) : list (option Z) :=
  map (fun f => Some (r f)) fields.

(* _store_ent_info: array[i*OK : (i+1)*OK] = values; Arrays.__setitem__ asserts that the
   slice has the length of the value list *)
Definition store_ent (ok : nat) (arr : list (option Z)) (i : nat) (vals : list (option Z))
  : option (list (option Z)) :=
  if Nat.eqb (List.length vals) ok && Nat.leb ((i + 1) * ok)%nat (List.length arr)
  then Some (firstn (i * ok)%nat arr ++ vals ++ skipn ((i + 1) * ok)%nat arr)%list
  else None.

(* pairs arrive in order: pair_index = tot_pairs - pairs_left *)
Fixpoint store_all (ok : nat) (fields : list string) (arr : list (option Z)) (i : nat) (rs : list resp)
  : option (list (option Z)) :=
  match rs with
  | [] => Some arr
  | r :: rest =>
      match store_ent ok arr i (resp_values fields r) with
      | None => None
      | Some a => store_all ok fields a (S i) rest
      end
  end.

(* the SDK allocates stride*n undefined entries; the controller fills them *)
Definition results_array (ok : nat) (fields : list string) (sdk_stride n : nat) (rs : list resp) :=
  store_all ok fields (repeat None (sdk_stride * n)%nat) 0%nat rs.

(* min_fidelity_all_at_end: the operation is wrapped in a retry loop (sdk_create_epr_keep,
   sdk_recv_epr_keep, sdk_create_epr_rsp, sdk_recv_epr_rsp).  Every attempt first undefines
   the whole results array (_build_cmds_undefine_array), then the controller stores that
   attempt's responses; the loop ends with the first attempt the exit condition accepts
   (a test on the attempt's responses: the last pair's duration against the bound derived from
   the fidelity; the comparison itself is C05's subject and a parameter here) or after
   max_tries attempts (then the results are discarded; no claim is made about them).
   None = the environment delivered too few attempts / a store failed. *)
Definition undefine_all (arr : list (option Z)) : list (option Z) := repeat None (List.length arr).

(* [undef]: the cleanup code of a discarded attempt also undefines the array (keep variants:
   yes; rsp variants: no - there only the next attempt's start does).  Matters only for what is
   left when all tries are used up. *)
Fixpoint retry_run (ok : nat) (fields : list string) (acc : list resp -> bool) (undef : bool) (tries : nat)
         (arr : list (option Z)) (attempts : list (list resp)) : option (list (option Z)) :=
  match tries with
  | O => Some arr
  | S t =>
      match attempts with
      | [] => None
      | rs :: rest =>
          match store_all ok fields (undefine_all arr) 0%nat rs with
          | None => None
          | Some a => if acc rs then Some a
                      else retry_run ok fields acc undef t (if undef then undefine_all a else a) rest
          end
      end
  end.

(* the attempt the loop ends with when it ends successfully: the first accepted one among the
   first [tries] *)
Fixpoint accepted_attempt (acc : list resp -> bool) (tries : nat) (attempts : list (list resp))
  : option (list resp) :=
  match tries with
  | O => None
  | S t =>
      match attempts with
      | [] => None
      | rs :: rest => if acc rs then Some rs else accepted_attempt acc t rest
      end
  end.

(* handle_i.attr is the future for array[i*stride + idx] *)
Definition handle_read (stride idx : nat) (arr : list (option Z)) (i : nat) : option (option Z) :=
  nth_error arr (i * stride + idx)%nat.

(* which response field each handle attribute must show (the property text) *)
Definition keep_spec : list (string * string) :=
  [("qubit_id", "logical_qubit_id"); ("remote_node_id", "remote_node_id");
   ("generation_duration", "goodness"); ("raw_bell_state", "bell_state")].
Definition measure_spec : list (string * string) :=
  [("raw_measurement_outcome", "measurement_outcome"); ("remote_node_id", "remote_node_id");
   ("generation_duration", "goodness"); ("raw_bell_state", "bell_state")].
Definition entinfo_spec : list (string * string) :=
  map (fun f => (f, f))
    ["type"; "create_id"; "logical_qubit_id"; "directionality_flag"; "sequence_number";
     "purpose_id"; "remote_node_id"; "goodness"; "goodness_time"; "bell_state"].

Definition opt_string_eqb (a b : option string) : bool :=
  match a, b with Some x, Some y => String.eqb x y | None, None => true | _, _ => false end.

(* decidable side conditions on the regenerated tables *)
Definition handles_ok (ok : nat) (fields : list string) (stride : nat)
           (handle : list (string * nat)) (spec : list (string * string)) : bool :=
  Nat.eqb (List.length fields) ok && Nat.eqb stride ok &&
  forallb (fun af => match lookup (fst af) handle with
                     | Some idx => opt_string_eqb (nth_error fields idx) (Some (snd af))
                     | None => false end) spec.

(* the SER_RESPONSE_*_IDX_<NAME> constant is the position of the like-named tuple field *)
Definition ser_names_ok (names : list (string * nat)) (fields : list string) (pairs : list (string * string)) : bool :=
  Nat.eqb (List.length names) (List.length fields) &&
  forallb (fun cf => match lookup (fst cf) names with
                     | Some idx => opt_string_eqb (nth_error fields idx) (Some (snd cf))
                     | None => false end) pairs.
