(* EprCheck.v — executable comparison of the EprBoundary model with results observed
   on the implementation (used by the generated cases_*.v files of C11).  No proofs. *)
From Coq Require Import ZArith List Bool String.
From NQ Require Import Sdk.EprBoundary.
Import ListNotations.
Open Scope string_scope.
Open Scope Z_scope.

Definition cval_eqb (a b : val novar) : bool :=
  match a, b with Lit x, Lit y => x =? y | _, _ => false end.
Definition cfval_eqb (a b : fval novar) : bool :=
  match a, b with
  | VInt x, VInt y => cval_eqb x y
  | VEnum e x, VEnum e' y => String.eqb e e' && (x =? y)
  | _, _ => false
  end.
Definition copt_eqb (a b : option (val novar)) : bool :=
  match a, b with Some x, Some y => cval_eqb x y | None, None => true | _, _ => false end.

Fixpoint list_eqb {A} (eqb : A -> A -> bool) (l m : list A) : bool :=
  match l, m with
  | [], [] => true
  | a :: l', b :: m' => eqb a b && list_eqb eqb l' m'
  | _, _ => false
  end.

Definition req_eqb (a b : list (string * fval novar)) : bool :=
  list_eqb (fun x y => String.eqb (fst x) (fst y) && cfval_eqb (snd x) (snd y)) a b.

Definition oreq_eqb (a b : option (list (string * fval novar))) : bool :=
  match a, b with Some x, Some y => req_eqb x y | None, None => true | _, _ => false end.
Definition oarr_eqb (a b : option (list (option (val novar)))) : bool :=
  match a, b with Some x, Some y => list_eqb copt_eqb x y | None, None => true | _, _ => false end.

(* array entries / request fields as observed: None = undefined entry *)
Definition mk_arr (l : list (option Z)) : list (option (val novar)) := map (option_map Lit) l.

(* a full SDK call: parameters, the argument array the real serialize_request built, the
   request the real controller put on the stack (None = it raised), and whether the real
   request_to_qlink_1_0 accepted it *)
Record rcase := mkRC {
  rc_p : params;
  rc_arr : option (list (option Z));
  rc_req : option (list (string * fval novar));
  rc_qlink : bool }.

Definition check_rcase (t : tables) (c : rcase) : bool :=
  let p := rc_p c in
  oarr_eqb (serialize t (shape_of p) (vals_of p)) (option_map mk_arr (rc_arr c)) &&
  match rc_arr c with
  | None => true
  | Some a =>
      let r := controller t (Lit (p_node p)) (Lit (p_sock p)) (mk_arr a) in
      oreq_eqb r (rc_req c) &&
      Bool.eqb (match r with Some x => qlink_accepts t x | None => false end) (rc_qlink c)
  end.

(* the controller alone on an arbitrary argument array *)
Record ccase := mkCC {
  cc_node : Z; cc_purpose : Z;
  cc_arr : list (option Z);
  cc_req : option (list (string * fval novar));
  cc_qlink : bool }.

Definition check_ccase (t : tables) (c : ccase) : bool :=
  let r := controller t (Lit (cc_node c)) (Lit (cc_purpose c)) (mk_arr (cc_arr c)) in
  oreq_eqb r (cc_req c) &&
  Bool.eqb (match r with Some x => qlink_accepts t x | None => false end) (cc_qlink c).

(* results: responses as value lists in tuple order, the array the controller produced *)
Record hcase := mkHC {
  hc_okm : bool;                        (* responses are LinkLayerOKTypeM (else K) *)
  hc_n : nat;
  hc_resps : list (list Z);
  hc_arr : option (list (option Z)) }.

Definition resp_of (fields : list string) (vals : list Z) : resp :=
  fun f => match lookup f (combine fields vals) with Some v => v | None => -1 end.

Definition oz_eqb (a b : option Z) : bool :=
  match a, b with Some x, Some y => x =? y | None, None => true | _, _ => false end.

Definition check_hcase (ok : nat) (fk fm : list string) (sk sm : nat) (c : hcase) : bool :=
  let fields := if hc_okm c then fm else fk in
  let stride := if hc_okm c then sm else sk in
  let model := results_array ok fields stride (hc_n c) (map (resp_of fields) (hc_resps c)) in
  match model, hc_arr c with
  | Some a, Some b => list_eqb oz_eqb a b
  | None, None => true
  | _, _ => false
  end.

(* retry loop: attempts as lists of value lists; accepted when the last pair's `goodness`
   (the duration) is at most the bound *)
Record rtcase := mkRT {
  rt_okm : bool; rt_undef : bool; rt_n : nat; rt_tries : nat; rt_bound : Z;
  rt_attempts : list (list (list Z));
  rt_arr : option (list (option Z)) }.

Definition check_rtcase (ok : nat) (fk fm : list string) (sk sm : nat) (c : rtcase) : bool :=
  let fields := if rt_okm c then fm else fk in
  let stride := if rt_okm c then sm else sk in
  let acc := fun rs : list resp => match List.rev rs with r :: _ => r "goodness" <=? rt_bound c | [] => false end in
  let model := retry_run ok fields acc (rt_undef c) (rt_tries c) (repeat None (stride * rt_n c))
                         (map (map (resp_of fields)) (rt_attempts c)) in
  match model, rt_arr c with
  | Some a, Some b => list_eqb oz_eqb a b
  | None, None => true
  | _, _ => false
  end.

Fixpoint failing_from {A} (f : A -> bool) (l : list A) (i : Z) : list Z :=
  match l with
  | [] => []
  | x :: t => if f x then failing_from f t (i + 1) else i :: failing_from f t (i + 1)
  end.
Definition failing {A} (f : A -> bool) (l : list A) : list Z := failing_from f l 0.
