(* MemMgr.v — model of netqasm/sdk/memmgr.py as used by the builder: the pool of
   classical registers R0..R15 (first inactive wins), the measurement registers
   M0..M15, qubit ids, array addresses.  Proof-free. *)
From Coq Require Import ZArith List Bool Arith.
From NQ Require Import Sdk.SdkAst Sdk.Target.
Import ListNotations.
Local Open Scope nat_scope.

Definition NREGS : nat := 16.          (* 2 ** REG_INDEX_BITS *)

Inductive lerr := EOutOfRegs | EOutOfMeas | EIll.
Inductive res (A : Type) := Ok (a : A) | Err (e : lerr).
Arguments Ok {A} a.
Arguments Err {A} e.

Definition arrdecl := (nat * nat * option (list (option Z)))%type.   (* address, length, init *)

Record lst := mkL {
  l_act : list bool;              (* NREGS entries: R_i is active *)
  l_peak : nat;                   (* largest number of simultaneously active registers so far *)
  l_mused : list bool;            (* NREGS entries: M_i in use *)
  l_q : list (nat * nat);         (* active qubit handle -> virtual id, activation order *)
  l_next : nat;                   (* next array address *)
  l_decl : list arrdecl;          (* arrays to declare and return in this block *)
  l_ret : list reg;               (* registers to return in this block *)
  l_rf : list (nat * reg);        (* register future -> its register (M_k of a measurement, R_k of new_register) *)
  l_lv : list (nat * nat);        (* loop variable in scope -> R index *)
  l_len : list (nat * nat);       (* array -> length *)
  l_mscr : list bool              (* NREGS entries: M_i was used as scratch (array measurement) in this block *)
}.

Definition l0 : lst :=
  mkL (repeat false NREGS) 0 (repeat false NREGS) [] 0 [] [] [] [] [] (repeat false NREGS).

Fixpoint first_false (l : list bool) (i : nat) : option nat :=
  match l with
  | [] => None
  | b :: r => if b then first_false r (S i) else Some i
  end.
Fixpoint set_nth (l : list bool) (i : nat) (v : bool) : list bool :=
  match l, i with
  | [], _ => []
  | _ :: r, O => v :: r
  | b :: r, S i' => b :: set_nth r i' v
  end.
Fixpoint count_true (l : list bool) : nat :=
  match l with [] => 0 | b :: r => (if b then 1 else 0) + count_true r end.

Definition with_act (st : lst) (a : list bool) (p : nat) : lst :=
  mkL a p (l_mused st) (l_q st) (l_next st) (l_decl st) (l_ret st) (l_rf st) (l_lv st) (l_len st) (l_mscr st).
Definition with_lvs (st : lst) (x : list (nat * nat)) : lst :=
  mkL (l_act st) (l_peak st) (l_mused st) (l_q st) (l_next st) (l_decl st) (l_ret st) (l_rf st) x (l_len st) (l_mscr st).
Definition with_qs (st : lst) (x : list (nat * nat)) : lst :=
  mkL (l_act st) (l_peak st) (l_mused st) x (l_next st) (l_decl st) (l_ret st) (l_rf st) (l_lv st) (l_len st) (l_mscr st).

(* get_inactive_register(activate=True): the first inactive register; or, for a register named
   by the program (loop_register=R_k), that register provided it is inactive.  Naming a register
   that is already active is accepted by the SDK (the loop then counts in a live register: the
   caller's business); the model rejects it *)
Definition activate (i : nat) (st : lst) : res (nat * lst) :=
  let a := set_nth (l_act st) i true in
  Ok (i, with_act st a (Nat.max (l_peak st) (count_true a))).
Definition take_at (o : option nat) (st : lst) : res (nat * lst) :=
  match o with
  | None => match first_false (l_act st) 0 with None => Err EOutOfRegs | Some i => activate i st end
  | Some k => match nth_error (l_act st) k with Some false => activate k st | _ => Err EIll end
  end.
Definition take (st : lst) : res (nat * lst) := take_at None st.
(* remove_active_register *)
Definition release (i : nat) (st : lst) : lst := with_act st (set_nth (l_act st) i false) (l_peak st).

(* n registers taken and released again inside an operation whose commands are
   not modelled (well-bracketed, so only the count matters) *)
Definition transient (n : nat) (st : lst) : res lst :=
  let c := count_true (l_act st) + n in
  if Nat.ltb NREGS c then Err EOutOfRegs else Ok (with_act st (l_act st) (Nat.max (l_peak st) c)).

(* get_new_meas_outcome_register(keep): the first M register not in use; one that is kept until
   the end of the block (a RegFuture) is never one that array measurements use as scratch; a
   scratch register is released at once (meas_register_set_unused) and remembered as scratch *)
Fixpoint orb_list (a b : list bool) : list bool :=
  match a, b with
  | x :: a', y :: b' => (x || y) :: orb_list a' b'
  | _, _ => []
  end.
Definition take_m (st : lst) (keep : bool) : res (nat * lst) :=
  if keep then
    match first_false (orb_list (l_mused st) (l_mscr st)) 0 with
    | None => Err EOutOfMeas
    | Some i =>
        Ok (i, mkL (l_act st) (l_peak st) (set_nth (l_mused st) i true) (l_q st) (l_next st) (l_decl st)
                   (l_ret st ++ [Rg BM i]) (l_rf st) (l_lv st) (l_len st) (l_mscr st))
    end
  else
    match first_false (l_mused st) 0 with
    | None => Err EOutOfMeas
    | Some i =>
        Ok (i, mkL (l_act st) (l_peak st) (l_mused st) (l_q st) (l_next st) (l_decl st)
                   (l_ret st) (l_rf st) (l_lv st) (l_len st) (set_nth (l_mscr st) i true))
    end.

Fixpoint alook {A} (k : nat) (l : list (nat * A)) : option A :=
  match l with
  | [] => None
  | (k', v) :: r => if Nat.eqb k k' then Some v else alook k r
  end.
Fixpoint adel {A} (k : nat) (l : list (nat * A)) : list (nat * A) :=
  match l with
  | [] => []
  | (k', v) :: r => if Nat.eqb k k' then r else (k', v) :: adel k r
  end.

(* get_new_qubit_address: the first id not used by an active qubit *)
Fixpoint first_free_id (used : list nat) (fuel i : nat) : nat :=
  match fuel with
  | O => i
  | S f => if existsb (Nat.eqb i) used then first_free_id used f (S i) else i
  end.
Definition new_qubit_id (st : lst) : nat :=
  let used := map snd (l_q st) in first_free_id used (S (List.length used)) 0.

(* M registers in use (kept for a register outcome until the flush) *)
Definition mused_list (st : lst) : list nat :=
  (fix go (l : list bool) (i : nat) : list nat :=
     match l with [] => [] | b :: r => if b then i :: go r (S i) else go r (S i) end) (l_mused st) 0.

(* M registers remembered as scratch of array measurements (until the flush) *)
Definition mscr_list (st : lst) : list nat :=
  (fix go (l : list bool) (i : nat) : list nat :=
     match l with [] => [] | b :: r => if b then i :: go r (S i) else go r (S i) end) (l_mscr st) 0.

Definition active_list (st : lst) : list nat :=
  (fix go (l : list bool) (i : nat) : list nat :=
     match l with [] => [] | b :: r => if b then i :: go r (S i) else go r (S i) end) (l_act st) 0.
