(* EprBuildCheck.v — executable comparison of the EprBuild model with gate traces observed
   on the implementation (generated cases_*.v files of C10).  No proofs. *)
From Coq Require Import ZArith List Bool String.
From NQ Require Import Sdk.EprBuild.
Import ListNotations.
Open Scope string_scope.
Open Scope Z_scope.

Definition ev_eqb (a b : ev) : bool :=
  match a, b with Ev n q x y, Ev n' q' x' y' => String.eqb n n' && (q =? q') && (x =? x') && (y =? y') end.
Fixpoint evs_eqb (l m : list ev) : bool :=
  match l, m with
  | [], [] => true
  | a :: l', b :: m' => ev_eqb a b && evs_eqb l' m'
  | _, _ => false
  end.
Definition not_qfree (e : ev) : bool := match e with Ev n _ _ _ => negb (String.eqb n "qfree") end.

(* variant: 0 = wait-all loop, 1 = post routine / sequential, 2 = move to memory *)
Record tcase := mkTC { tc_variant : Z; tc_expect : bool; tc_ids : list Z; tc_bells : list Z; tc_obs : list ev }.

Definition check_tcase (p : bparams) (ok bpos : nat) (c : tcase) : bool :=
  let n := Z.of_nat (List.length (tc_bells c)) in
  let code := if tc_variant c =? 0 then code_W p (tc_expect c) n
              else if tc_variant c =? 1 then code_P p (tc_expect c) n
              else code_M p (tc_expect c) n in
  match gates_applied (exec_list 64 code (init_st p ok bpos (tc_ids c) (tc_bells c))) with
  | Some tr => evs_eqb (filter not_qfree tr) (tc_obs c)
  | None => false
  end.

Fixpoint failing_from {A} (f : A -> bool) (l : list A) (i : Z) : list Z :=
  match l with
  | [] => []
  | x :: t => if f x then failing_from f t (i + 1) else i :: failing_from f t (i + 1)
  end.
Definition failing {A} (f : A -> bool) (l : list A) : list Z := failing_from f l 0.
