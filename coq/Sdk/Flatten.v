(* Flatten.v — labels and jumps: model of Builder._build_cmds_condition / _loop /
   _loop_until.  Labels are numbered in the order in which their definitions occur
   in the emitted command list (the harness renames the builder's label names the
   same way, after checking that they are unique and that every reference
   resolves).  Proof-free. *)
From Coq Require Import ZArith List Bool Arith.
From NQ Require Import Sdk.SdkAst Sdk.Target.
Import ListNotations.
Local Open Scope Z_scope.

Fixpoint flat1 (b : nat) (s : sir) {struct s} : list fcmd * nat :=
  let fl := fix fl (b : nat) (l : list sir) {struct l} : list fcmd * nat :=
    match l with
    | [] => ([], b)
    | x :: r => let (c1, b1) := flat1 b x in let (c2, b2) := fl b1 r in (c1 ++ c2, b2)
    end in
  match s with
  | XI i => ([FI i], b)
  | XIf pre c x y body =>
      (* operand loads; branch over the body on the NEGATED condition; exit label *)
      let (cb, b1) := fl b body in
      (map FI pre ++ [FBr (flip c) x y b1] ++ cb ++ [FLab b1], S b1)
  | XLoop r a e st body =>
      let (cb, b1) := fl (S b) body in
      ([FI (ISet r a); FLab b; FBr CEq (PReg r) (PImm e) b1] ++ cb ++
       [FI (IAdd r r (PImm st)); FJmp b; FLab b1], S b1)
  | XUntil r mx body pre x lim cl =>
      let (cb, b1) := fl (S b) body in
      let (cc, b2) := fl b1 cl in
      ([FI (ISet r 0); FLab b; FBr CEq (PReg r) (PImm mx) b2] ++ cb ++
       map FI pre ++ [FBr CLt x (PImm lim) b2] ++ cc ++
       [FI (IAdd r r (PImm 1)); FJmp b; FLab b2], S b2)
  end.

Fixpoint flat (b : nat) (l : list sir) {struct l} : list fcmd * nat :=
  match l with
  | [] => ([], b)
  | x :: r => let (c1, b1) := flat1 b x in let (c2, b2) := flat b1 r in (c1 ++ c2, b2)
  end.

Definition flatten (l : list sir) : list fcmd := fst (flat 0 l).
