(* EprBuild.v — model of the Bell-state correction code the builder emits around
   recv_keep / create_keep (C10 b, c), with a small classical + gate-trace interpreter.
   Model only; proofs in Proofs/EprBuildProofs.v.

   Mirrors netqasm/sdk/builder.py:
     _build_cmds_epr_keep_corrections            -> code_W   (wait-all loop; also recv_rsp)
     _build_cmds_post_epr                        -> code_P   (post routine, also sequential)
     _build_cmds_wait_move_epr_to_mem            -> code_M   (single communication qubit)
     _build_cmds_epr_keep_corrections_single_pair-> corr_code
     _get_raw_bell_state                         -> bell_code
     _add_wait_for_ent_info_cmd                  -> wait_code
   The code is one fixed instruction list per variant; the number of pairs n is an
   immediate operand, the qubit IDs and the Bell states are data in two arrays.  The
   model keeps the loop structure (CLoop = `set L 0; L: beq L stop EXIT; body; add L L 1;
   jmp L; EXIT:`, CIfEq = `bne r v EXIT; body; EXIT:`); labels and the assembler's
   constant materialisation are not modelled (C03/C05).  The user's post routine is taken
   to be `q.measure()` (an event "meas" on the pair's qubit). *)
From Coq Require Import ZArith List Bool String.
Import ListNotations.
Open Scope string_scope.
Open Scope Z_scope.

Definition reg := nat.
Inductive opd := R (r : reg) | I (z : Z).

(* an observable quantum event: gate name, virtual qubit id, two immediates
   (rot_*: angle n, d;  "mov": destination id, 0;  "meas"/"qfree": 0, 0) *)
Inductive ev := Ev (name : string) (q : Z) (a b : Z).

Inductive code :=
| CSet (r : reg) (z : Z)
| CAdd (r : reg) (a b : opd)
| CSub (r : reg) (a b : opd)
| CLoad (r : reg) (arr : nat) (ix : reg)
| CWait (arr : nat) (lo hi : reg)        (* responses are already in the array: no-op here (C12) *)
| CGate (name : string) (q : reg) (a b : Z)
| CMov (src dst : reg)
| CQFree (q : reg)
| CMeas (q : reg)
| CIfEq (r : reg) (z : Z) (body : list code)
| CIfNe (r : reg) (z : Z) (body : list code)
| CLoop (l : reg) (stop : opd) (body : list code).

Record st := mkSt { regs : reg -> option Z; arrs : nat -> list (option Z); trace : list ev }.

Inductive res := Ok (s : st) | Fault | OutOfFuel.

Definition setreg (r : reg) (v : Z) (s : st) : st :=
  mkSt (fun r' => if Nat.eqb r r' then Some v else regs s r') (arrs s) (trace s).
Definition emit (e : ev) (s : st) : st := mkSt (regs s) (arrs s) (trace s ++ [e])%list.

Definition eval (o : opd) (s : st) : option Z :=
  match o with R r => regs s r | I z => Some z end.

(* sequence *)
Fixpoint exec_list_with (f : code -> st -> res) (cs : list code) (s : st) : res :=
  match cs with
  | [] => Ok s
  | c :: cs' => match f c s with Ok s' => exec_list_with f cs' s' | r => r end
  end.

(* `L: beq l stop EXIT; body; add l l 1; jmp L` — k bounds the number of iterations *)
Fixpoint loop_iter (bodyf : st -> res) (l : reg) (stop : opd) (k : nat) (s : st) : res :=
  match k with
  | O => OutOfFuel
  | S k' =>
      match regs s l, eval stop s with
      | Some x, Some y =>
          if x =? y then Ok s
          else match bodyf s with
               | Ok s' => match regs s' l with
                          | Some x' => loop_iter bodyf l stop k' (setreg l (x' + 1) s')
                          | None => Fault
                          end
               | r => r
               end
      | _, _ => Fault     (* reading an unset register *)
      end
  end.

(* exec_list_with (exec fuel), written as a local fixpoint so that the guard checker
   sees the structural recursion through the nested lists (Proofs: exec_seq_eq) *)
Fixpoint exec (fuel : nat) (c : code) (s : st) {struct c} : res :=
  match c with
  | CSet r z => Ok (setreg r z s)
  | CAdd r a b => match eval a s, eval b s with
                  | Some x, Some y => Ok (setreg r (x + y) s) | _, _ => Fault end
  | CSub r a b => match eval a s, eval b s with
                  | Some x, Some y => Ok (setreg r (x - y) s) | _, _ => Fault end
  | CLoad r arr ix =>
      match regs s ix with
      | Some i => if i <? 0 then Fault else
                  match nth_error (arrs s arr) (Z.to_nat i) with
                  | Some (Some v) => Ok (setreg r v s)
                  | _ => Fault          (* out of range / undefined entry *)
                  end
      | None => Fault
      end
  | CWait _ _ _ => Ok s
  | CGate nm q a b => match regs s q with Some v => Ok (emit (Ev nm v a b) s) | None => Fault end
  | CMov src dst => match regs s src, regs s dst with
                    | Some x, Some y => Ok (emit (Ev "mov" x y 0) s) | _, _ => Fault end
  | CQFree q => match regs s q with Some v => Ok (emit (Ev "qfree" v 0 0) s) | None => Fault end
  | CMeas q => match regs s q with Some v => Ok (emit (Ev "meas" v 0 0) s) | None => Fault end
  | CIfEq r z body =>
      match regs s r with
      | Some v => if v =? z
                  then (fix el (cs : list code) (s : st) {struct cs} : res :=
                          match cs with
                          | [] => Ok s
                          | c' :: cs' => match exec fuel c' s with Ok s' => el cs' s' | r => r end
                          end) body s
                  else Ok s
      | None => Fault end
  | CIfNe r z body =>
      match regs s r with
      | Some v => if v =? z then Ok s
                  else (fix el (cs : list code) (s : st) {struct cs} : res :=
                          match cs with
                          | [] => Ok s
                          | c' :: cs' => match exec fuel c' s with Ok s' => el cs' s' | r => r end
                          end) body s
      | None => Fault end
  | CLoop l stop body =>
      loop_iter ((fix el (cs : list code) (s : st) {struct cs} : res :=
                    match cs with
                    | [] => Ok s
                    | c' :: cs' => match exec fuel c' s with Ok s' => el cs' s' | r => r end
                    end) body) l stop fuel (setreg l 0 s)
  end.

Definition exec_list (fuel : nat) (cs : list code) (s : st) : res := exec_list_with (exec fuel) cs s.

(* ------------------------------------------------------------------ the emitted code *)
Definition gate3 := (string * Z * Z)%type.

(* data of the builder: array addresses, the SER_RESPONSE_KEEP_* constants, OK_FIELDS_K,
   the Bell state -> gates table *)
Record bparams := mkBP {
  b_ids : nat;        (* address of the qubit-ID array *)
  b_res : nat;        (* address of the entanglement-results array *)
  b_bell_idx : Z;     (* SER_RESPONSE_KEEP_IDX_BELL_STATE *)
  b_len : Z;          (* SER_RESPONSE_KEEP_LEN *)
  b_okf : Z;          (* OK_FIELDS_K *)
  b_table : list (Z * list gate3) }.

(* registers (the builder picks free ones; which ones is immaterial here) *)
Definition rL : reg := 0%nat.    (* loop over pairs *)
Definition rQ : reg := 1%nat.    (* qubit_reg *)
Definition rB : reg := 2%nat.    (* bell_state_reg *)
Definition rI : reg := 3%nat.    (* index_reg of _get_raw_bell_state *)
Definition rJ : reg := 4%nat.    (* its loop register *)
Definition rS : reg := 5%nat.    (* arr_start *)
Definition rT : reg := 6%nat.    (* tmp *)
Definition rE : reg := 7%nat.    (* arr_stop *)
Definition rK : reg := 8%nat.    (* loop register of the multiplications *)
Definition rP : reg := 9%nat.    (* Q register of the post routine's qubit *)
Definition r0 : reg := 10%nat.
Definition r1 : reg := 11%nat.

Definition bell_code (p : bparams) : list code :=
  [CSet rI (b_bell_idx p); CLoop rJ (R rL) [CAdd rI (R rI) (I (b_len p))]; CLoad rB (b_res p) rI].

Definition corr_code (p : bparams) : list code :=
  map (fun vg => CIfEq rB (fst vg) (map (fun g => CGate (fst (fst g)) rQ (snd (fst g)) (snd g)) (snd vg)))
      (b_table p).

Definition wait_code (p : bparams) : list code :=
  [CSet rS 0; CSet rT 0; CSet rE 0;
   CLoop rK (I (b_okf p)) [CAdd rS (R rS) (R rL)];
   CAdd rT (R rL) (I 1);
   CLoop rK (I (b_okf p)) [CAdd rE (R rE) (R rT)];
   CWait (b_res p) rS rE].

(* wait-all variant (after `wait_all` on the whole results array).  `set qubit_reg 0`
   after the load is what the code does (tests pin it); see C10 findings. *)
Definition code_W (p : bparams) (expect : bool) (n : Z) : list code :=
  if expect then
    [CLoop rL (I n) ([CLoad rQ (b_ids p) rL] ++ bell_code p ++ [CSet rQ 0] ++ corr_code p)%list]
  else [].

(* post-routine variant (also sequential): wait for pair L, correct the pair's own qubit
   (ID loaded from the qubit-ID array), run the post routine on it *)
Definition code_P (p : bparams) (expect : bool) (n : Z) : list code :=
  [CLoop rL (I n)
     (wait_code p ++
      (if expect then bell_code p ++ [CLoad rQ (b_ids p) rL] ++ corr_code p else []) ++
      [CLoad rP (b_ids p) rL; CMeas rP])%list].

(* single communication qubit: every pair arrives on virtual qubit 0, is corrected there
   and moved to memory qubit n-1-L unless it is the last one *)
Definition code_M (p : bparams) (expect : bool) (n : Z) : list code :=
  [CLoop rL (I n)
     (wait_code p ++
      (if expect then bell_code p ++ [CSet rQ 0] ++ corr_code p else []) ++
      [CIfNe rL (n - 1) [CSub r0 (I (n - 1)) (R rL); CSet r1 0; CMov r1 r0; CQFree r1]])%list].

(* ------------------------------------------------------------------ initial memory *)
(* one stored response: ok entries, the Bell state at position bpos (other fields 0) *)
Definition resp_row (ok bpos : nat) (b : Z) : list (option Z) :=
  (repeat (Some 0) bpos ++ [Some b] ++ repeat (Some 0) (ok - bpos - 1)%nat)%list.
Definition res_array (ok bpos : nat) (bells : list Z) : list (option Z) :=
  flat_map (resp_row ok bpos) bells.

Definition init_st (p : bparams) (ok bpos : nat) (ids bells : list Z) : st :=
  mkSt (fun _ => None)
       (fun a => if Nat.eqb a (b_ids p) then map Some ids
                 else if Nat.eqb a (b_res p) then res_array ok bpos bells else [])
       [].

Definition gates_applied (r : res) : option (list ev) :=
  match r with Ok s => Some (trace s) | _ => None end.

(* ------------------------------------------------------------------ specification *)
Fixpoint tlookup (b : Z) (t : list (Z * list gate3)) : list gate3 :=
  match t with
  | [] => []
  | (v, g) :: t' => if v =? b then g else tlookup b t'
  end.
Definition paulis_on (t : list (Z * list gate3)) (b q : Z) : list ev :=
  map (fun g => Ev (fst (fst g)) q (snd (fst g)) (snd g)) (tlookup b t).

Fixpoint zip_with {A B C} (f : A -> B -> C) (l : list A) (m : list B) : list C :=
  match l, m with a :: l', b :: m' => f a b :: zip_with f l' m' | _, _ => [] end.

(* pair i's Paulis on pair i's qubit, and nothing else *)
Definition spec_W (t : list (Z * list gate3)) (ids bells : list Z) : list ev :=
  List.concat (zip_with (fun id b => paulis_on t b id) ids bells).
Definition spec_P (t : list (Z * list gate3)) (ids bells : list Z) : list ev :=
  List.concat (zip_with (fun id b => (paulis_on t b id ++ [Ev "meas" id 0 0])%list) ids bells).
(* pair i is corrected on the communication qubit 0 and then moved to n-1-i *)
Fixpoint spec_M_from (t : list (Z * list gate3)) (n : Z) (i : Z) (bells : list Z) : list ev :=
  match bells with
  | [] => []
  | b :: bs => (paulis_on t b 0 ++
               (if i =? n - 1 then [] else [Ev "mov" 0 (n - 1 - i) 0; Ev "qfree" 0 0 0]) ++
               spec_M_from t n (i + 1) bs)%list
  end.
Definition spec_M t (bells : list Z) : list ev := spec_M_from t (Z.of_nat (List.length bells)) 0 bells.

(* what code_W really does: every correction lands on virtual qubit 0 *)
Definition actual_W (t : list (Z * list gate3)) (bells : list Z) : list ev :=
  List.concat (map (fun b => paulis_on t b 0) bells).

Definition is_pauli_ev (e : ev) : bool :=
  match e with Ev nm _ _ _ => String.eqb nm "rot_x" || String.eqb nm "rot_y" || String.eqb nm "rot_z"
                              || String.eqb nm "x" || String.eqb nm "y" || String.eqb nm "z" end.

Fixpoint keys_nodup (t : list (Z * list gate3)) : bool :=
  match t with
  | [] => true
  | (v, _) :: t' => negb (existsb (fun x => fst x =? v) t') && keys_nodup t'
  end.

(* side conditions on the regenerated constants *)
Definition consts_ok (p : bparams) (ok bpos : nat) : bool :=
  (b_bell_idx p =? Z.of_nat bpos) && (b_len p =? Z.of_nat ok) && (b_okf p =? Z.of_nat ok) &&
  Nat.ltb bpos ok && keys_nodup (b_table p) && negb (Nat.eqb (b_ids p) (b_res p)).
