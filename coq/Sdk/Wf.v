(* Wf.v — what `run_pipeline` and `wf_prog` mean in the statement of C05.  Proof-free. *)
From Coq Require Import ZArith List Bool Arith.
From NQ Require Import Sdk.SdkAst Sdk.Target Sdk.Eval Sdk.MemMgr Sdk.Lower Sdk.Flatten Sdk.SdkCheck.
Import ListNotations.

(* three-valued run of flat code: finished / fault at pc / out of fuel *)
Inductive fres := RDone (s : mst) | RFault (pc : nat) | RFuel.

Fixpoint frun3 (fuel : nat) (c : list fcmd) (st : nat * mst) : fres :=
  match fuel with
  | O => RFuel
  | S f =>
      if Nat.eqb (fst st) (List.length c) then RDone (snd st)
      else match fstep c st with Some st' => frun3 f c st' | None => RFault (fst st) end
  end.

(* one subroutine per flush, executed in order on the same controller state *)
Fixpoint run_blocks (fuel : nat) (bs : list (option (list sir))) (s : mst) : fres :=
  match bs with
  | [] => RDone s
  | None :: r => run_blocks fuel r s
  | Some b :: r =>
      match frun3 fuel (flatten b) (0, s) with
      | RDone s' => run_blocks fuel r s'
      | x => x
      end
  end.

(* ---- host-program discipline assumed by the composed theorem of C05 *)
Fixpoint ndel (q : nat) (l : list nat) : list nat :=
  match l with [] => [] | x :: r => if Nat.eqb q x then r else x :: ndel q r end.
Definition memn (q : nat) (l : list nat) : bool := existsb (Nat.eqb q) l.

(* qubits: inside a body, the qubits created there are consumed there and no other qubit is
   consumed (C09 owns host/controller agreement on qubits); loc = created and not yet consumed *)
Fixpoint qs (s : stmt) (loc : list nat) : option (list nat) :=
  match s with
  | SNewQubit q => if memn q loc then None else Some (loc ++ [q])
  | SFree q | SMeasFut q false _ _ | SMeasNew q false _ | SMeasReg q false _ | SMeasFutX q false _ _ _ =>
      if memn q loc then Some (ndel q loc) else None
  | SIf _ _ _ _ b | SLoop _ _ _ _ _ _ b | SForeach _ _ _ b =>
      match qb b [] with Some [] => Some loc | _ => None end
  | SLoopUntil _ _ b _ _ cl =>
      match qb b [], qb cl [] with Some [], Some [] => Some loc | _, _ => None end
  | SEpr _ _ | SFlush | SNewArray _ _ _ | SNewReg _ _ | SUAdd _ _ _ => None
  | _ => Some loc
  end
with qb (b : block) (loc : list nat) : option (list nat) :=
  match b with
  | BNil => Some loc
  | BCons s r => match qs s loc with Some l => qb r l | None => None end
  end.
Definition wf_body (b : block) : bool := match qb b [] with Some [] => true | _ => false end.

(* no measurement into a register future anywhere inside *)
Fixpoint noreg (s : stmt) : bool :=
  match s with
  | SMeasReg _ _ _ => false
  | SIf _ _ _ _ b | SLoop _ _ _ _ _ _ b | SForeach _ _ _ b | SEpr _ b => bnoreg b
  | SLoopUntil _ _ b _ _ cl => bnoreg b && bnoreg cl
  | _ => true
  end
with bnoreg (b : block) : bool :=
  match b with BNil => true | BCons s r => noreg s && bnoreg r end.

(* a block that certainly emits commands (a loop_until whose body emits nothing is dropped by the
   builder together with its cleanup code) *)
Definition emits_stmt (s : stmt) : bool :=
  match s with
  | SNewQubit _ | SGate _ _ | SRot _ _ _ _ | STwo _ _ _ | SMeasFut _ _ _ _ | SMeasNew _ _ _
  | SMeasReg _ _ _ | SFree _ | SFutAdd _ _ _ _ | SRegAdd _ _ _ | SFutAddX _ _ _ _ _ | SMeasFutX _ _ _ _ _ => true
  | _ => false
  end.
Fixpoint emits (b : block) : bool :=
  match b with BNil => false | BCons s r => emits_stmt s || emits r end.

(* statements covered by the composed theorem.  Register futures are measured only where the
   measurement runs whenever the enclosing code runs: not under an `if`, not in a loop that may
   run zero rounds, not in a foreach, not in a loop_until cleanup (the complement contains the
   recorded finding C05:ret_reg-of-unreached-register-measurement) *)
Fixpoint wfs (s : stmt) : bool :=
  match s with
  | SIf _ _ _ _ b => wf_body b && bnoreg b && bwfs b
  | SLoop _ _ _ a e _ b => wf_body b && bwfs b && (negb (Z.eqb a e) || bnoreg b)
  | SForeach _ _ _ b => wf_body b && bnoreg b && bwfs b
  | SLoopUntil _ mx b _ _ cl =>
      wf_body b && wf_body cl && bwfs b && bwfs cl && bnoreg cl && (Z.ltb 0 mx || bnoreg b) && emits b
  | SEpr _ _ | SFlush | SNewReg _ _ | SUAdd _ _ _ => false
  | _ => true
  end
with bwfs (b : block) : bool :=
  match b with BNil => true | BCons s r => wfs s && bwfs r end.

(* whole programs: the same, flushes between top-level statements *)
Fixpoint wf_top (b : block) : bool :=
  match b with
  | BNil => true
  | BCons SFlush r => wf_top r
  | BCons s r => wfs s && wf_top r
  end.
Definition scoped_top := wf_top.

(* every measurement into a register future of a block is reached when the block runs
   (the recorded finding C05:ret_reg-of-unreached-register-measurement is the complement) *)
Definition regs_reached (p : block) (e : est) : bool :=
  negb (unreached_reg (regs_per_flush p []) (rev (e_snaps e))).

Definition wf_prog (fd : bool) (p : block) (script : list Z) (e : est) : Prop :=
  scoped_top p = true /\ eval_prog p script = Some e /\ regs_reached p e = true /\
  (exists bs st, lower_prog fd p = Ok (bs, st)).

(* agreement of a final controller state with the specification's result *)
Definition agrees (s : mst) (e : est) : Prop :=
  rev (m_trace s) = rev (e_trace e) /\ (forall a, m_arr s a = alookup a (e_arr e)).

(* ---- qubit budget: the largest number of simultaneously live qubit handles (= an upper bound of
   the virtual ids the builder hands out: it always picks the lowest unused id) *)
Fixpoint qpk (s : stmt) (n : nat) : nat * nat :=      (* (live after, peak) *)
  match s with
  | SNewQubit _ => (S n, S n)
  | SFree _ | SMeasFut _ false _ _ | SMeasNew _ false _ | SMeasReg _ false _ | SMeasFutX _ false _ _ _ => (Nat.pred n, n)
  | SIf _ _ _ _ b | SLoop _ _ _ _ _ _ b | SForeach _ _ _ b | SEpr _ b => (n, snd (bqpk b n))
  | SLoopUntil _ _ b _ _ cl => (n, Nat.max (snd (bqpk b n)) (snd (bqpk cl n)))
  | _ => (n, n)
  end
with bqpk (b : block) (n : nat) : nat * nat :=
  match b with
  | BNil => (n, n)
  | BCons s r => let (n1, p1) := qpk s n in let (n2, p2) := bqpk r n1 in (n2, Nat.max p1 p2)
  end.
Fixpoint qpeak_segs (segs : list block) (n : nat) : nat :=
  match segs with
  | [] => n
  | s :: r => let (n1, p1) := bqpk s n in Nat.max p1 (qpeak_segs r n1)
  end.
Definition qpeak (segs : list block) : nat := qpeak_segs segs 0.
