(* Wf.v — what `run_pipeline` and `wf_prog` mean in the statement of C05.  Proof-free. *)
From Coq Require Import ZArith List Bool Arith.
From NQ Require Import Sdk.SdkAst Sdk.Target Sdk.Eval Sdk.MemMgr Sdk.Lower Sdk.Flatten Sdk.SdkCheck.
Import ListNotations.

(* three-valued run of flat code: finished / fault at pc / out of fuel *)
Inductive fres := RDone (s : mst) | RFault (pc : nat) | RFuel.

Fixpoint frun3 (fuel : nat) (c : list fcmd) (st : nat * mst) : fres :=
  match fuel with
  | O => RFuel
  | S f =>
      if Nat.eqb (fst st) (List.length c) then RDone (snd st)
      else match fstep c st with Some st' => frun3 f c st' | None => RFault (fst st) end
  end.

(* one subroutine per flush, executed in order on the same controller state *)
Fixpoint run_blocks (fuel : nat) (bs : list (option (list sir))) (s : mst) : fres :=
  match bs with
  | [] => RDone s
  | None :: r => run_blocks fuel r s
  | Some b :: r =>
      match frun3 fuel (flatten b) (0, s) with
      | RDone s' => run_blocks fuel r s'
      | x => x
      end
  end.

(* host-program discipline assumed by C05 (C09 owns qubit bookkeeping): inside a body, the
   qubits created there are consumed there and no outer qubit is consumed; arrays with
   initial values are created at top level only *)
Fixpoint created (b : block) : list nat :=
  match b with BNil => [] | BCons (SNewQubit q) r => q :: created r | BCons _ r => created r end.
Fixpoint consumed (b : block) : list nat :=
  match b with
  | BNil => []
  | BCons (SFree q) r => q :: consumed r
  | BCons (SMeasFut q false _ _) r | BCons (SMeasNew q false _) r | BCons (SMeasReg q false _) r => q :: consumed r
  | BCons _ r => consumed r
  end.
Definition subset (a b : list nat) : bool := forallb (fun x => existsb (Nat.eqb x) b) a.

Definition balanced (b : block) : bool :=
  subset (created b) (consumed b) && subset (consumed b) (created b).

Fixpoint scoped (s : stmt) : bool :=
  match s with
  | SIf _ _ _ _ b | SLoop _ _ _ _ _ _ b | SForeach _ _ _ b => balanced b && scoped_in b
  | SLoopUntil _ _ b _ _ cl => balanced b && scoped_in b && balanced cl && scoped_in cl
  | SEpr _ _ => false
  | _ => true
  end
with scoped_in (b : block) : bool :=
  match b with
  | BNil => true
  | BCons (SNewArray _ _ _) _ => false
  | BCons SFlush _ => false
  | BCons s r => scoped s && scoped_in r
  end.
Fixpoint scoped_top (b : block) : bool :=
  match b with BNil => true | BCons s r => scoped s && scoped_top r end.

(* every measurement into a register future of a block is reached when the block runs
   (the recorded finding C05:ret_reg-of-unreached-register-measurement is the complement) *)
Definition regs_reached (p : block) (e : est) : bool :=
  negb (unreached_reg (regs_per_flush p []) (rev (e_snaps e))).

Definition wf_prog (fd : bool) (p : block) (script : list Z) (e : est) : Prop :=
  scoped_top p = true /\ eval_prog p script = Some e /\ regs_reached p e = true /\
  (exists bs st, lower_prog fd p = Ok (bs, st)).

(* agreement of a final controller state with the specification's result *)
Definition agrees (s : mst) (e : est) : Prop :=
  rev (m_trace s) = rev (e_trace e) /\ (forall a, m_arr s a = alookup a (e_arr e)).
