(* Sdk/Conn.v — model for property C06 (pre-compiled templated subroutines):
   (1) a small model of the assembler's constant replacement (`_replace_constants`
       in netqasm/lang/parsing/text.py) restricted to what matters for templates:
       integer operands in non-exempt positions are moved into a scratch register by a
       preceding `set`, operands in exempt positions (table regenerated from
       `_REPLACE_CONSTANTS_EXCEPTION`) and Template operands are left alone;
       template substitution (`Subroutine.instantiate`) replaces Template operands by
       name;
   (2) the connection / builder bookkeeping relevant to flush / compile /
       instantiate / commit_subroutine: pending commands, arrays to declare and
       return, registers to return, the array address counter, the held compiled
       subroutine and the subroutines sent so far.  The held subroutine is a VALUE:
       every compile() builds a fresh subroutine from the pending commands, so
       instantiating one round never shows in a later round (the real code must not
       alias compiled Subroutine objects, which instantiate() rewrites in place);
       `SInstantiate v` takes the valuation as a value at the time of the call (what the
       host does with its dictionary afterwards cannot change what is committed), and a
       failed instantiate() leaves the held subroutine untouched.
       The model follows the repaired
       code: compile() resets the bookkeeping exactly like a flush
       (`compile_noreset` is the old behaviour, kept for the regression example).
   No proofs here (Proofs/ConnProofs.v). *)
From Coq Require Import ZArith List Bool String.
Import ListNotations.
Open Scope Z_scope.

(* ------------------------------------------------------------ (1) assembler *)
Inductive pop := OInt (v : Z) | OReg (r : nat) | OTmpl (n : string).
Definition pcmd := (string * list pop)%type.
Definition exempt_t := list (string * nat).

Definition is_exempt (ex : exempt_t) (name : string) (j : nat) : bool :=
  existsb (fun e => String.eqb (fst e) name && Nat.eqb (snd e) j) ex.

Definition mem_nat (k : nat) (l : list nat) : bool := existsb (Nat.eqb k) l.

(* first R_k (k < 16) that is neither named in the subroutine nor already taken
   for this command *)
Fixpoint first_free (n k : nat) (cur tmp : list nat) : option nat :=
  match n with
  | O => None
  | S n' => if mem_nat k cur || mem_nat k tmp then first_free n' (S k) cur tmp else Some k
  end.

Fixpoint repl_ops (ex : exempt_t) (name : string) (cur : list nat) (j : nat) (tmp : list nat)
         (ops : list pop) : option (list pcmd * list pop) :=
  match ops with
  | [] => Some ([], [])
  | o :: ops' =>
      match o with
      | OInt v =>
          if is_exempt ex name j then
            match repl_ops ex name cur (S j) tmp ops' with
            | Some (s, r) => Some (s, o :: r) | None => None end
          else
            match first_free 16 0 cur tmp with
            | None => None
            | Some k =>
                match repl_ops ex name cur (S j) (k :: tmp) ops' with
                | Some (s, r) => Some (("set"%string, [OReg k; OInt v]) :: s, OReg k :: r)
                | None => None end
            end
      | _ =>
          match repl_ops ex name cur (S j) tmp ops' with
          | Some (s, r) => Some (s, o :: r) | None => None end
      end
  end.

Definition regs_of_ops (ops : list pop) : list nat :=
  flat_map (fun o => match o with OReg r => [r] | _ => [] end) ops.
Definition regs_of (p : list pcmd) : list nat := flat_map (fun c => regs_of_ops (snd c)) p.

Fixpoint asm_cmds (ex : exempt_t) (cur : list nat) (p : list pcmd) : option (list pcmd) :=
  match p with
  | [] => Some []
  | (name, ops) :: p' =>
      match repl_ops ex name cur 0 [] ops, asm_cmds ex cur p' with
      | Some (s, r), Some rest => Some (s ++ (name, r) :: rest)
      | _, _ => None
      end
  end.

(* None: the assembler runs out of registers *)
Definition assemble (ex : exempt_t) (p : list pcmd) : option (list pcmd) := asm_cmds ex (regs_of p) p.

Definition subst_op (v : string -> Z) (o : pop) : pop := match o with OTmpl n => OInt (v n) | _ => o end.
Definition subst_cmd (v : string -> Z) (c : pcmd) : pcmd := (fst c, map (subst_op v) (snd c)).
Definition subst (v : string -> Z) (p : list pcmd) : list pcmd := map (subst_cmd v) p.
(* Subroutine.instantiate: the same substitution, applied to assembled instructions *)
Definition instantiate (v : string -> Z) (p : option (list pcmd)) : option (list pcmd) := option_map (subst v) p.

Definition templates_only_in_exempt_positions (ex : exempt_t) (p : list pcmd) : Prop :=
  forall name ops j n, In (name, ops) p -> nth_error ops j = Some (OTmpl n) -> is_exempt ex name j = true.

Definition tmpl_exempt_b (ex : exempt_t) (p : list pcmd) : bool :=
  forallb (fun c =>
    forallb (fun jo => match snd jo with OTmpl _ => is_exempt ex (fst c) (fst jo) | _ => true end)
            (combine (seq 0 (List.length (snd c))) (snd c))) p.

(* ------------------------------------------------------- (2) connection state *)
Record sub := mkSub { s_decl : list nat;            (* arrays declared at the top *)
                      s_retarr : list nat;          (* arrays returned at the end *)
                      s_retreg : list nat;          (* registers returned at the end *)
                      s_body : option (list pcmd)   (* assembled body; None = assembly failed *) }.

Record conn := mkConn { pending : list pcmd;
                        arrs_ret : list nat;
                        regs_ret : list nat;
                        next_addr : nat;
                        held : option sub;
                        sent : list sub }.

Inductive sop :=
| SGate (c : pcmd)                 (* any operation that only adds a command *)
| SMeasArr (c : pcmd)              (* measurement into a fresh array (future) *)
| SMeasReg (r : nat) (c : pcmd)    (* measurement into a register that is returned; r is an
                                      abstract id (order of issue since the last reset): which
                                      M register the builder picks is an allocation detail, the
                                      correspondence compares registers up to renaming *)
| SFlush
| SCompile
| SInstantiate (v : string -> Z)
| SInstantiateFail                 (* instantiate() that raises (a template has no value): the
                                      held subroutine must be left exactly as it was, so that a
                                      retry with complete values fills ALL templates *)
| SCommit.

Definition pop_pending (ex : exempt_t) (c : conn) : option sub :=
  match pending c, arrs_ret c, regs_ret c with
  | [], [], [] => None
  | _, _, _ => Some (mkSub (arrs_ret c) (arrs_ret c) (regs_ret c) (assemble ex (pending c)))
  end.

Definition subst_sub (v : string -> Z) (s : sub) : sub :=
  mkSub (s_decl s) (s_retarr s) (s_retreg s) (instantiate v (s_body s)).

Definition apply_op (ex : exempt_t) (c : conn) (o : sop) : conn :=
  match o with
  | SGate cmd => mkConn (pending c ++ [cmd]) (arrs_ret c) (regs_ret c) (next_addr c) (held c) (sent c)
  | SMeasArr cmd =>
      mkConn (pending c ++ [cmd]) (arrs_ret c ++ [next_addr c]) (regs_ret c) (S (next_addr c)) (held c) (sent c)
  | SMeasReg r cmd =>
      mkConn (pending c ++ [cmd]) (arrs_ret c) (regs_ret c ++ [r]) (next_addr c) (held c) (sent c)
  | SFlush =>
      match pop_pending ex c with
      | None => c
      | Some s => mkConn [] [] [] (next_addr c) (held c) (sent c ++ [s])
      end
  | SCompile =>
      match pop_pending ex c with
      | None => mkConn (pending c) (arrs_ret c) (regs_ret c) (next_addr c) None (sent c)
      | Some s => mkConn [] [] [] (next_addr c) (Some s) (sent c)
      end
  | SInstantiate v =>
      mkConn (pending c) (arrs_ret c) (regs_ret c) (next_addr c) (option_map (subst_sub v) (held c)) (sent c)
  | SInstantiateFail => c
  | SCommit =>
      match held c with
      | Some s => mkConn (pending c) (arrs_ret c) (regs_ret c) (next_addr c) None (sent c ++ [s])
      | None => c
      end
  end.

Definition run_ops (ex : exempt_t) (c : conn) (l : list sop) : conn := fold_left (apply_op ex) l c.

Definition conn0 : conn := mkConn [] [] [] 0 None [].

(* what a later operation can observe of the connection *)
Definition conn_state (c : conn) : list pcmd * list nat * list nat * nat :=
  (pending c, arrs_ret c, regs_ret c, next_addr c).

Definition subst_conn (v : string -> Z) (c : conn) : conn :=
  mkConn (subst v (pending c)) (arrs_ret c) (regs_ret c) (next_addr c) (held c) (sent c).

(* no later subroutine declares (and thereby erases) an array that an earlier one returned *)
Definition no_redeclare (l : list sub) : Prop :=
  forall i j si sj a, (i < j)%nat -> nth_error l i = Some si -> nth_error l j = Some sj ->
    In a (s_retarr si) -> ~ In a (s_decl sj).

(* the behaviour before the repair: compile() pops without resetting *)
Definition compile_noreset (ex : exempt_t) (c : conn) : conn :=
  match pop_pending ex c with
  | None => c
  | Some s => mkConn [] (arrs_ret c) (regs_ret c) (next_addr c) (Some s) (sent c)
  end.

(* executable views for the correspondence *)
Definition sub_view (s : sub) : list nat * list nat * list nat := (s_decl s, s_retarr s, s_retreg s).

Fixpoint nats_eqb (a b : list nat) : bool :=
  match a, b with
  | [], [] => true
  | x :: a', y :: b' => Nat.eqb x y && nats_eqb a' b'
  | _, _ => false
  end.
Fixpoint views_eqb (a b : list (list nat * list nat * list nat)) : bool :=
  match a, b with
  | [], [] => true
  | (x1, x2, x3) :: a', (y1, y2, y3) :: b' => nats_eqb x1 y1 && nats_eqb x2 y2 && nats_eqb x3 y3 && views_eqb a' b'
  | _, _ => false
  end.
(* a generated history: the subroutines the real controller received must show the
   same declared / returned arrays and returned registers, and the connection must be
   left with the same number of pending arrays / registers *)
(* numerators of the rotations of a sent subroutine (a Template that was never filled
   shows as -1, an assembly failure as [-2]) *)
Definition rot_nums (s : sub) : list Z :=
  match s_body s with
  | None => [-2]
  | Some b => flat_map (fun c => if String.prefix "rot_" (fst c)
                                 then match snd c with
                                      | [_; OInt n; _] => [n]
                                      | _ => [-1] end
                                 else []) b
  end.
Fixpoint zs_eqb (a b : list Z) : bool :=
  match a, b with
  | [], [] => true
  | x :: a', y :: b' => (x =? y) && zs_eqb a' b'
  | _, _ => false
  end.
Fixpoint zss_eqb (a b : list (list Z)) : bool :=
  match a, b with
  | [], [] => true
  | x :: a', y :: b' => zs_eqb x y && zss_eqb a' b'
  | _, _ => false
  end.
Record ccase := mkC { cc_ops : list sop; cc_views : list (list nat * list nat * list nat);
                      cc_arrs_left : list nat; cc_regs_left : list nat; cc_rots : list (list Z) }.
Definition check_ccase (ex : exempt_t) (k : ccase) : bool :=
  let c := run_ops ex conn0 (cc_ops k) in
  views_eqb (map sub_view (sent c)) (cc_views k) && nats_eqb (arrs_ret c) (cc_arrs_left k)
  && nats_eqb (regs_ret c) (cc_regs_left k) && zss_eqb (map rot_nums (sent c)) (cc_rots k).
Fixpoint failing {A} (chk : A -> bool) (l : list A) (i : Z) : list Z :=
  match l with
  | [] => []
  | x :: l' => if chk x then failing chk l' (i + 1) else i :: failing chk l' (i + 1)
  end.
