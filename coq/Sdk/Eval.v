(* Eval.v — direct evaluation of an SDK host program: the SPEC of C05.
   "Executing that program directly": statements run in order against a store of
   arrays, register futures and loop variables; `if` runs its body iff the
   condition holds on the current values; loops run their body for
   i = start, start+step, ... (stop excluded); foreach/enumerate once per element;
   loop_until runs body, leaves as soon as the watched value is <= the bound
   (at most `maxit` rounds, cleanup only when another round follows); add stores
   self + other (mod m); a measurement takes the next scripted outcome and puts it
   where the program says.  Qubits are named by allocation instance.  A flush
   records what every handle shows.  Proof-free; written from the property text,
   not from the builder. *)
From Coq Require Import ZArith List Bool.
From NQ Require Import Sdk.SdkAst.
Import ListNotations.
Local Open Scope Z_scope.

Definition arrays := list (nat * list (option Z)).
Definition snapshot := (arrays * list (nat * Z))%type.

Record est := mkE {
  e_arr : arrays;                 (* sorted by address *)
  e_reg : list (nat * Z);         (* register futures (measurement outcomes), sorted by name *)
  e_lv : list (nat * Z);          (* loop variables in scope *)
  e_q : list (nat * nat);         (* live qubit handle -> allocation instance *)
  e_n : nat;
  e_script : list Z;
  e_trace : list tev;             (* newest first *)
  e_snaps : list snapshot         (* newest first *)
}.

Definition e0 (script : list Z) : est := mkE [] [] [] [] O script [] [].

Fixpoint alookup {A} (k : nat) (l : list (nat * A)) : option A :=
  match l with
  | [] => None
  | (k', v) :: r => if Nat.eqb k k' then Some v else alookup k r
  end.
Fixpoint aset {A} (k : nat) (v : A) (l : list (nat * A)) : list (nat * A) :=
  match l with
  | [] => [(k, v)]
  | (k', v') :: r =>
      if Nat.eqb k k' then (k, v) :: r
      else if Nat.ltb k k' then (k, v) :: (k', v') :: r
      else (k', v') :: aset k v r
  end.
Fixpoint aremove {A} (k : nat) (l : list (nat * A)) : list (nat * A) :=
  match l with
  | [] => []
  | (k', v) :: r => if Nat.eqb k k' then r else (k', v) :: aremove k r
  end.

Fixpoint lset {A} (l : list A) (i : nat) (v : A) : option (list A) :=
  match l, i with
  | [], _ => None
  | _ :: r, O => Some (v :: r)
  | x :: r, S i' => match lset r i' v with Some r' => Some (x :: r') | None => None end
  end.

Definition cond_true (c : cond) (a b : Z) : bool :=
  match c with
  | CEq => a =? b | CNe => negb (a =? b)
  | CLt => a <? b | CGe => b <=? a
  | CEz => a =? 0 | CNz => negb (a =? 0)
  end.

Definition with_arr (e : est) (x : arrays) : est :=
  mkE x (e_reg e) (e_lv e) (e_q e) (e_n e) (e_script e) (e_trace e) (e_snaps e).
Definition with_reg (e : est) (x : list (nat * Z)) : est :=
  mkE (e_arr e) x (e_lv e) (e_q e) (e_n e) (e_script e) (e_trace e) (e_snaps e).
Definition with_lv (e : est) (x : list (nat * Z)) : est :=
  mkE (e_arr e) (e_reg e) x (e_q e) (e_n e) (e_script e) (e_trace e) (e_snaps e).
Definition with_q (e : est) (x : list (nat * nat)) : est :=
  mkE (e_arr e) (e_reg e) (e_lv e) x (e_n e) (e_script e) (e_trace e) (e_snaps e).
Definition ev_emit (e : est) (t : tev) : est :=
  mkE (e_arr e) (e_reg e) (e_lv e) (e_q e) (e_n e) (e_script e) (t :: e_trace e) (e_snaps e).

Definition ev_index (ix : index) (e : est) : option nat :=
  match ix with
  | IxC n => Some n
  | IxV v => match alookup v (e_lv e) with
             | Some z => if z <? 0 then None else Some (Z.to_nat z)
             | None => None
             end
  end.

Definition ev_entry (a : nat) (ix : index) (e : est) : option Z :=
  match alookup a (e_arr e), ev_index ix e with
  | Some l, Some i => match nth_error l i with Some (Some v) => Some v | _ => None end
  | _, _ => None
  end.

Definition ev_store (a : nat) (ix : index) (v : Z) (e : est) : option est :=
  match alookup a (e_arr e), ev_index ix e with
  | Some l, Some i =>
      match lset l i (Some v) with
      | Some l' => Some (with_arr e (aset a l' (e_arr e)))
      | None => None
      end
  | _, _ => None
  end.

Definition ev_cval (x : cval) (e : est) : option Z :=
  match x with
  | VInt z => Some z
  | VFut a ix => ev_entry a ix e
  | VReg r => alookup r (e_reg e)
  | VLoop v => alookup v (e_lv e)
  end.

Definition ev_src (x : addsrc) (e : est) : option Z :=
  match x with
  | AInt z => Some z
  | AFut a ix => ev_entry a ix e
  | ALoop v => alookup v (e_lv e)
  | AReg r => alookup r (e_reg e)
  end.

Definition ev_sum (v w : Z) (m : option Z) : option Z :=
  match m with
  | None => Some (v + w)
  | Some m => if m <=? 0 then None else Some ((v + w) mod m)
  end.

(* take the next scripted outcome (0 when the script is exhausted), record the event *)
Definition ev_measure (q : nat) (inplace : bool) (e : est) : option (Z * est) :=
  match alookup q (e_q e) with
  | None => None
  | Some i =>
      let o := match e_script e with [] => 0 | o :: _ => o end in
      let e1 := mkE (e_arr e) (e_reg e) (e_lv e) (if inplace then e_q e else aremove q (e_q e)) (e_n e)
                    (tl (e_script e)) (TMeas i o :: e_trace e) (e_snaps e) in
      Some (o, e1)
  end.

Definition loop_count (start stop step : Z) : option nat :=
  (* i = start, start+step, ... until i = stop.  A step that never lands on `stop`
     (zero, wrong direction, or not dividing the distance) has no meaning: the SDK
     documents "looping stops when the index reaches stop" and nothing else *)
  if step =? 0 then None
  else if 0 <? step then
    (if stop <? start then None
     else if negb ((stop - start) mod step =? 0) then None
     else Some (Z.to_nat ((stop - start) / step)))
  else
    (if start <? stop then None
     else if negb ((start - stop) mod (- step) =? 0) then None
     else Some (Z.to_nat ((start - stop) / (- step)))).

(* i = start, start+step, ...: n rounds *)
Fixpoint iter_loop (f : Z -> est -> option est) (n : nat) (i step : Z) (e : est) : option est :=
  match n with
  | O => Some e
  | S n' => match f i e with Some e' => iter_loop f n' (i + step) step e' | None => None end
  end.

(* loop_until: round i: body; leave when watched <= bound; else cleanup and go on *)
Fixpoint iter_until (body : Z -> est -> option est) (watch : est -> option Z) (bound : Z)
         (cleanup : est -> option est) (n : nat) (i : Z) (e : est) : option est :=
  match n with
  | O => Some e
  | S n' =>
      match body i e with
      | None => None
      | Some e1 =>
          match watch e1 with
          | None => None
          | Some w =>
              if w <=? bound then Some e1
              else match cleanup e1 with
                   | Some e2 => iter_until body watch bound cleanup n' (i + 1) e2
                   | None => None
                   end
          end
      end
  end.

Definition bind_lv (v : nat) (i : Z) (e : est) : est := with_lv e ((v, i) :: e_lv e).
Definition drop_lv (v : nat) (e : est) : est := with_lv e (aremove v (e_lv e)).

Fixpoint eval_stmt (s : stmt) (e : est) {struct s} : option est :=
  match s with
  | SNewQubit q =>
      match alookup q (e_q e) with
      | Some _ => None
      | None => Some (mkE (e_arr e) (e_reg e) (e_lv e) ((q, e_n e) :: e_q e) (S (e_n e)) (e_script e)
                          (TInit (e_n e) :: e_trace e) (e_snaps e))
      end
  | SGate g q =>
      match alookup q (e_q e) with Some i => Some (ev_emit e (TG1 g i)) | None => None end
  | SRot ax q n d =>
      match alookup q (e_q e) with Some i => Some (ev_emit e (TRot ax i n d)) | None => None end
  | STwo t q1 q2 =>
      match alookup q1 (e_q e), alookup q2 (e_q e) with
      | Some i, Some j => if Nat.eqb q1 q2 then None else Some (ev_emit e (TG2 t i j))
      | _, _ => None
      end
  | SMeasFut q ip a ix =>
      match ev_measure q ip e with
      | Some (o, e1) => ev_store a ix o e1
      | None => None
      end
  | SMeasNew q ip a =>
      match alookup a (e_arr e), ev_measure q ip e with
      | Some [_], Some (o, e1) => ev_store a (IxC 0) o e1
      | _, _ => None
      end
  | SMeasReg q ip r =>
      match ev_measure q ip e with
      | Some (o, e1) => Some (with_reg e1 (aset r o (e_reg e1)))
      | None => None
      end
  | SFree q =>
      match alookup q (e_q e) with Some _ => Some (with_q e (aremove q (e_q e))) | None => None end
  | SNewArray a n init =>
      (* the array exists since the start of the flush block (hoist_top); a host program cannot
         mention an Array before creating it, so the moment of creation is not observable *)
      match alookup a (e_arr e) with
      | Some l => if Nat.eqb (List.length l) (match init with Some l0 => List.length l0 | None => n end)
                  then Some e else None
      | None => None
      end
  | SFutAdd a ix o m =>
      match ev_entry a ix e, ev_src o e with
      | Some v, Some w => match ev_sum v w m with Some z => ev_store a ix z e | None => None end
      | _, _ => None
      end
  | SRegAdd r o m =>
      match alookup r (e_reg e), ev_src o e with
      | Some v, Some w =>
          match ev_sum v w m with Some z => Some (with_reg e (aset r z (e_reg e))) | None => None end
      | _, _ => None
      end
  | SNewReg r init => Some (with_reg e (aset r init (e_reg e)))
  | SUAdd r o m =>
      match alookup r (e_reg e), ev_src o e with
      | Some v, Some w =>
          match ev_sum v w m with Some z => Some (with_reg e (aset r z (e_reg e))) | None => None end
      | _, _ => None
      end
  | SIf c cb x y body =>
      match ev_cval x e, (match c with CEz | CNz => Some 0 | _ => ev_cval y e end) with
      | Some a, Some b => if cond_true c a b then eval_block body e else Some e
      | _, _ => None
      end
  | SLoop cb v _ start stop step body =>
      match loop_count start stop step with
      | Some n =>
          match iter_loop (fun i e' => eval_block body (bind_lv v i (drop_lv v e'))) n start step e with
          | Some e' => Some (drop_lv v e')
          | None => None
          end
      | None => None
      end
  | SForeach enum v a body =>
      match alookup a (e_arr e) with
      | Some l =>
          match iter_loop (fun i e' => eval_block body (bind_lv v i (drop_lv v e'))) (List.length l) 0 1 e with
          | Some e' => Some (drop_lv v e')
          | None => None
          end
      | None => None
      end
  | SLoopUntil v maxit body cx bound cleanup =>
      if maxit <? 0 then None else
      match iter_until (fun i e' => eval_block body (bind_lv v i (drop_lv v e')))
                       (ev_cval cx) bound (eval_block cleanup) (Z.to_nat maxit) 0 e with
      | Some e' => Some (drop_lv v e')
      | None => None
      end
  | SEpr _ _ => None
  | SFlush => None
  | SFutAddX a b n o m =>
      match ev_entry b (IxC n) e with
      | Some z => if (z <? 0)%Z then None else
          let k := Z.to_nat z in
          match ev_entry a (IxC k) e, ev_src o e with
          | Some v, Some w => match ev_sum v w m with Some s => ev_store a (IxC k) s e | None => None end
          | _, _ => None
          end
      | None => None
      end
  | SMeasFutX q ip a b n =>
      match ev_measure q ip e with
      | Some (o, e1) =>
          match ev_entry b (IxC n) e1 with
          | Some z => if (z <? 0)%Z then None else ev_store a (IxC (Z.to_nat z)) o e1
          | None => None
          end
      | None => None
      end
  end
with eval_block (b : block) (e : est) {struct b} : option est :=
  match b with
  | BNil => Some e
  | BCons s r => match eval_stmt s e with Some e' => eval_block r e' | None => None end
  end.

(* arrays are static objects of a flush block: those created by `q.measure()` exist (undefined)
   and those of conn.new_array exist with their initial values from the start of the block in
   which the statement occurs, whether or not it is reached *)
Fixpoint hoist_stmt (s : stmt) (ar : arrays) : arrays :=
  match s with
  | SMeasNew _ _ a => match alookup a ar with Some _ => ar | None => aset a [None] ar end
  | SNewArray a n init =>
      match alookup a ar with
      | Some _ => ar
      | None =>
          match init with
          | Some l => if Nat.eqb (List.length l) 0 then ar else aset a l ar
          | None => if Nat.eqb n 0 then ar else aset a (repeat None n) ar
          end
      end
  | SIf _ _ _ _ b | SLoop _ _ _ _ _ _ b | SForeach _ _ _ b | SEpr _ b => hoist_block b ar
  | SLoopUntil _ _ b _ _ cl => hoist_block cl (hoist_block b ar)
  | _ => ar
  end
with hoist_block (b : block) (ar : arrays) : arrays :=
  match b with BNil => ar | BCons s r => hoist_block r (hoist_stmt s ar) end.

Fixpoint hoist_top (b : block) (ar : arrays) : arrays :=
  match b with
  | BNil => ar
  | BCons SFlush _ => ar
  | BCons s r => hoist_top r (hoist_stmt s ar)
  end.

Definition snap (e : est) : est :=
  mkE (e_arr e) (e_reg e) (e_lv e) (e_q e) (e_n e) (e_script e) (e_trace e) ((e_arr e, e_reg e) :: e_snaps e).

Fixpoint eval_top (b : block) (e : est) : option est :=
  match b with
  | BNil => Some e
  | BCons SFlush r => let e1 := snap e in eval_top r (with_arr e1 (hoist_top r (e_arr e1)))
  | BCons s r => match eval_stmt s e with Some e' => eval_top r e' | None => None end
  end.

Definition eval_prog (p : block) (script : list Z) : option est :=
  let e := e0 script in eval_top p (with_arr e (hoist_top p (e_arr e))).

(* what is compared with the real pipeline *)
Record observation := mkObs {
  o_trace : list tev;             (* oldest first *)
  o_snaps : list snapshot;        (* one per flush, oldest first *)
  o_arrays : arrays               (* final *)
}.
Definition observe (e : est) : observation := mkObs (rev (e_trace e)) (rev (e_snaps e)) (e_arr e).
