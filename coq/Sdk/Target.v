(* Target.v — the target of the builder model: proto-level NetQASM commands as the
   builder emits them (before the assembler replaces immediates), a structured
   IR (sir), flat code with labels and jumps (fcmd), and a small self-contained
   classical + gate-trace interpreter for both.  Proof-free.
   Prefix-free names are local to NQ.Sdk; nothing here depends on coq/Exec or coq/Lang. *)
From Coq Require Import ZArith List Bool.
From NQ Require Import Sdk.SdkAst.
Import ListNotations.
Local Open Scope Z_scope.

Inductive bank := BR | BC | BQ | BM.
Inductive reg := Rg (b : bank) (i : nat).
Inductive rop := PImm (z : Z) | PReg (r : reg).
Inductive qop := QAlloc | QInit | QFree | QG (g : gate1).

Inductive instr :=
| ISet (r : reg) (z : Z)
| IQ (o : qop) (r : reg)
| IRot (ax : axis) (r : reg) (n d : Z)
| ITwo (t : gate2) (r1 r2 : reg)
| IMeas (q m : reg)
| IStore (v : rop) (a : nat) (ix : rop)
| ILoad (r : reg) (a : nat) (ix : rop)
| IAdd (d x : reg) (y : rop)
| IAddm (d x : reg) (y : rop) (m : Z)
| IArray (n : Z) (a : nat)
| IRetArr (a : nat)
| IRetReg (r : reg)
| IOpaque (k : nat).          (* EPR commands: not modelled, never executed by the theorems *)

(* structured IR produced by Lower.v *)
Inductive sir :=
| XI (i : instr)
| XIf (pre : list instr) (c : cond) (x y : rop) (body : list sir)
      (* pre (operand loads); run body iff c x y holds *)
| XLoop (r : reg) (start stop step : Z) (body : list sir)
| XUntil (r : reg) (maxit : Z) (body : list sir) (pre : list instr) (x : rop) (lim : Z) (cleanup : list sir).
      (* r = 0.. ; body; pre; leave when x < lim; cleanup; r += 1; leave when r = maxit *)

Inductive fcmd :=
| FI (i : instr)
| FBr (c : cond) (x y : rop) (l : nat)      (* jump to l iff c x y holds (y ignored for ez/nz) *)
| FJmp (l : nat)
| FLab (l : nat).

(* ------------------------------------------------------------------ machine *)
Definition bank_eqb (a b : bank) : bool :=
  match a, b with BR, BR | BC, BC | BQ, BQ | BM, BM => true | _, _ => false end.
Definition reg_eqb (a b : reg) : bool :=
  match a, b with Rg x i, Rg y j => bank_eqb x y && Nat.eqb i j end.

Record mst := mkM {
  m_reg : reg -> option Z;       (* None: never written (reading it faults) *)
  m_arr : nat -> option (list (option Z));
  m_alloc : nat -> bool;          (* virtual id allocated *)
  m_inst : nat -> nat;            (* instance currently held by a virtual id *)
  m_n : nat;                      (* instances created *)
  m_script : list Z;              (* outcomes still to be delivered *)
  m_trace : list tev              (* newest first *)
}.

Definition m0 (script : list Z) : mst :=
  mkM (fun _ => None) (fun _ => None) (fun _ => false) (fun _ => O) O script [].

Definition upd_reg (f : reg -> option Z) (r : reg) (v : Z) : reg -> option Z :=
  fun r' => if reg_eqb r' r then Some v else f r'.
Definition upd_nat {A} (f : nat -> A) (k : nat) (v : A) : nat -> A :=
  fun k' => if Nat.eqb k' k then v else f k'.

Definition set_reg (s : mst) (r : reg) (v : Z) : mst :=
  mkM (upd_reg (m_reg s) r v) (m_arr s) (m_alloc s) (m_inst s) (m_n s) (m_script s) (m_trace s).
Definition set_arr (s : mst) (a : nat) (l : list (option Z)) : mst :=
  mkM (m_reg s) (upd_nat (m_arr s) a (Some l)) (m_alloc s) (m_inst s) (m_n s) (m_script s) (m_trace s).
Definition emit (s : mst) (e : tev) : mst :=
  mkM (m_reg s) (m_arr s) (m_alloc s) (m_inst s) (m_n s) (m_script s) (e :: m_trace s).

Definition rop_val (s : mst) (o : rop) : option Z :=
  match o with PImm z => Some z | PReg r => m_reg s r end.

Fixpoint list_set {A} (l : list A) (i : nat) (v : A) : option (list A) :=
  match l, i with
  | [], _ => None
  | _ :: r, O => Some (v :: r)
  | x :: r, S i' => match list_set r i' v with Some r' => Some (x :: r') | None => None end
  end.

Definition zidx (z : option Z) : option nat :=
  match z with Some z => if z <? 0 then None else Some (Z.to_nat z) | None => None end.

Definition qid (s : mst) (r : reg) : option nat :=
  match zidx (m_reg s r) with
  | Some k => if m_alloc s k then Some k else None
  | None => None
  end.

Definition exec_instr (i : instr) (s : mst) : option mst :=
  match i with
  | ISet r z => Some (set_reg s r z)
  | IQ QAlloc r =>
      match zidx (m_reg s r) with
      | Some k => if m_alloc s k then None
                  else Some (mkM (m_reg s) (m_arr s) (upd_nat (m_alloc s) k true) (m_inst s) (m_n s)
                                 (m_script s) (m_trace s))
      | None => None
      end
  | IQ QInit r =>
      match qid s r with
      | Some k => Some (mkM (m_reg s) (m_arr s) (m_alloc s) (upd_nat (m_inst s) k (m_n s)) (S (m_n s))
                            (m_script s) (TInit (m_n s) :: m_trace s))
      | None => None
      end
  | IQ QFree r =>
      match qid s r with
      | Some k => Some (mkM (m_reg s) (m_arr s) (upd_nat (m_alloc s) k false) (m_inst s) (m_n s)
                            (m_script s) (m_trace s))
      | None => None
      end
  | IQ (QG g) r =>
      match qid s r with Some k => Some (emit s (TG1 g (m_inst s k))) | None => None end
  | IRot ax r n d =>
      match qid s r with Some k => Some (emit s (TRot ax (m_inst s k) n d)) | None => None end
  | ITwo t r1 r2 =>
      match qid s r1, qid s r2 with
      | Some k1, Some k2 => Some (emit s (TG2 t (m_inst s k1) (m_inst s k2)))
      | _, _ => None
      end
  | IMeas q m =>
      match qid s q with
      | Some k =>
          let o := match m_script s with [] => 0 | o :: _ => o end in
          Some (mkM (upd_reg (m_reg s) m o) (m_arr s) (m_alloc s) (m_inst s) (m_n s)
                    (tl (m_script s)) (TMeas (m_inst s k) o :: m_trace s))
      | None => None
      end
  | IStore v a ix =>
      match m_arr s a, zidx (rop_val s ix), rop_val s v with
      | Some l, Some k, Some w =>
          match list_set l k (Some w) with
          | Some l' => Some (set_arr s a l')
          | None => None
          end
      | _, _, _ => None
      end
  | ILoad r a ix =>
      match m_arr s a, zidx (rop_val s ix) with
      | Some l, Some k =>
          match nth_error l k with
          | Some (Some v) => Some (set_reg s r v)
          | _ => None
          end
      | _, _ => None
      end
  | IAdd d x y =>
      match m_reg s x, rop_val s y with
      | Some a, Some b => Some (set_reg s d (a + b))
      | _, _ => None
      end
  | IAddm d x y m =>
      match m_reg s x, rop_val s y with
      | Some a, Some b => if m <=? 0 then None else Some (set_reg s d ((a + b) mod m))
      | _, _ => None
      end
  | IArray n a => if n <? 0 then None else Some (set_arr s a (repeat None (Z.to_nat n)))
  | IRetArr a => match m_arr s a with Some _ => Some s | None => None end
  | IRetReg r => match m_reg s r with Some _ => Some s | None => None end   (* returning an unwritten register faults *)
  | IOpaque _ => None
  end.

Fixpoint exec_instrs (l : list instr) (s : mst) : option mst :=
  match l with
  | [] => Some s
  | i :: r => match exec_instr i s with Some s' => exec_instrs r s' | None => None end
  end.

Definition holds (c : cond) (a b : Z) : bool :=
  match c with
  | CEq => a =? b | CNe => negb (a =? b)
  | CLt => a <? b | CGe => a >=? b
  | CEz => a =? 0 | CNz => negb (a =? 0)
  end.
Definition holds_at (c : cond) (x y : rop) (s : mst) : option bool :=
  match rop_val s x, (match c with CEz | CNz => Some 0 | _ => rop_val s y end) with
  | Some a, Some b => Some (holds c a b)
  | _, _ => None
  end.

(* model of netqasm.lang.ir.flip_branch_instr *)
Definition flip (c : cond) : cond :=
  match c with CEq => CNe | CNe => CEq | CLt => CGe | CGe => CLt | CEz => CNz | CNz => CEz end.

(* ------------------------------------------------------------------ big-step semantics of the structured IR *)
Inductive sx : list sir -> mst -> mst -> Prop :=
| sx_nil : forall s, sx [] s s
| sx_cons : forall x r s s1 s2, sx1 x s s1 -> sx r s1 s2 -> sx (x :: r) s s2
with sx1 : sir -> mst -> mst -> Prop :=
| sx_I : forall i s s', exec_instr i s = Some s' -> sx1 (XI i) s s'
| sx_If_true : forall pre c x y body s s1 s2,
    exec_instrs pre s = Some s1 -> holds_at c x y s1 = Some true -> sx body s1 s2 ->
    sx1 (XIf pre c x y body) s s2
| sx_If_false : forall pre c x y body s s1,
    exec_instrs pre s = Some s1 -> holds_at c x y s1 = Some false ->
    sx1 (XIf pre c x y body) s s1
| sx_Loop : forall r a b st body s s',
    sxloop r b st body (set_reg s r a) s' -> sx1 (XLoop r a b st body) s s'
| sx_Until : forall r mx body pre x lim cl s s',
    sxuntil r mx body pre x lim cl (set_reg s r 0) s' -> sx1 (XUntil r mx body pre x lim cl) s s'
with sxloop : reg -> Z -> Z -> list sir -> mst -> mst -> Prop :=
| sxl_done : forall r b st body s, m_reg s r = Some b -> sxloop r b st body s s
| sxl_step : forall r b st body s s1 s2 v v1,
    m_reg s r = Some v -> v <> b -> sx body s s1 -> m_reg s1 r = Some v1 ->
    sxloop r b st body (set_reg s1 r (v1 + st)) s2 ->
    sxloop r b st body s s2
with sxuntil : reg -> Z -> list sir -> list instr -> rop -> Z -> list sir -> mst -> mst -> Prop :=
| sxu_max : forall r mx body pre x lim cl s, m_reg s r = Some mx -> sxuntil r mx body pre x lim cl s s
| sxu_exit : forall r mx body pre x lim cl s s1 s2 v w,
    m_reg s r = Some v -> v <> mx -> sx body s s1 -> exec_instrs pre s1 = Some s2 ->
    rop_val s2 x = Some w -> w <? lim = true ->
    sxuntil r mx body pre x lim cl s s2
| sxu_again : forall r mx body pre x lim cl s s1 s2 s3 s4 v w v3,
    m_reg s r = Some v -> v <> mx -> sx body s s1 -> exec_instrs pre s1 = Some s2 ->
    rop_val s2 x = Some w -> w <? lim = false -> sx cl s2 s3 -> m_reg s3 r = Some v3 ->
    sxuntil r mx body pre x lim cl (set_reg s3 r (v3 + 1)) s4 ->
    sxuntil r mx body pre x lim cl s s4.

Scheme sx_mut := Minimality for sx Sort Prop
  with sx1_mut := Minimality for sx1 Sort Prop
  with sxloop_mut := Minimality for sxloop Sort Prop
  with sxuntil_mut := Minimality for sxuntil Sort Prop.
Combined Scheme sx_all_ind from sx_mut, sx1_mut, sxloop_mut, sxuntil_mut.

(* ------------------------------------------------------------------ flat code: one step, labels resolved by search *)
Fixpoint find_lab (l : nat) (c : list fcmd) (pos : nat) : option nat :=
  match c with
  | [] => None
  | FLab l' :: r => if Nat.eqb l l' then Some pos else find_lab l r (S pos)
  | _ :: r => find_lab l r (S pos)
  end.

Definition fstep (c : list fcmd) (st : nat * mst) : option (nat * mst) :=
  let (pc, s) := st in
  match nth_error c pc with
  | None => None
  | Some (FI i) => match exec_instr i s with Some s' => Some (S pc, s') | None => None end
  | Some (FLab _) => Some (S pc, s)
  | Some (FJmp l) => match find_lab l c 0 with Some p => Some (p, s) | None => None end
  | Some (FBr cnd x y l) =>
      match holds_at cnd x y s with
      | Some true => match find_lab l c 0 with Some p => Some (p, s) | None => None end
      | Some false => Some (S pc, s)
      | None => None
      end
  end.

Inductive fstar (c : list fcmd) : nat * mst -> nat * mst -> Prop :=
| fstar_refl : forall st, fstar c st st
| fstar_step : forall st st1 st2, fstep c st = Some st1 -> fstar c st1 st2 -> fstar c st st2.

(* executable run: Some final state when the pc leaves the code within the fuel;
   None = fault or out of fuel (the theorems never rely on a None) *)
Fixpoint frun (fuel : nat) (c : list fcmd) (st : nat * mst) : option mst :=
  match fuel with
  | O => None
  | S f =>
      if Nat.eqb (fst st) (List.length c) then Some (snd st)
      else match fstep c st with Some st' => frun f c st' | None => None end
  end.
