(* Writes.v — the classical R registers that a piece of lowered code may write
   (statement of the frame property shared by C05 and C14).  Proof-free. *)
From Coq Require Import ZArith List Bool.
From NQ Require Import Sdk.SdkAst Sdk.Target.
Import ListNotations.

Definition rw (r : reg) : list nat := match r with Rg BR k => [k] | _ => [] end.

Definition iw (i : instr) : list nat :=
  match i with
  | ISet r _ | ILoad r _ _ | IAdd r _ _ | IAddm r _ _ _ => rw r
  | IMeas _ m => rw m
  | _ => []
  end.

Fixpoint sw (s : sir) : list nat :=
  match s with
  | XI i => iw i
  | XIf pre _ _ _ body => flat_map iw pre ++ flat_map sw body
  | XLoop r _ _ _ body => rw r ++ flat_map sw body
  | XUntil r _ body pre _ _ cl => rw r ++ flat_map sw body ++ flat_map iw pre ++ flat_map sw cl
  end.

Definition sws (c : list sir) : list nat := flat_map sw c.
