(* SdkCheck.v — executable comparison of the SDK models with results recorded
   from the implementation (H-tie of C05 / C14):
     check_scase  flatten (lower P) = the builder's ProtoSubroutine commands, per flush
     check_bcase  eval P (the spec) = what the real pipeline did (the behavioural oracle)
     check_acase  lower, statement by statement = success / active registers of the real builder *)
From Coq Require Import ZArith List Bool Arith.
From NQ Require Import Sdk.SdkAst Sdk.Target Sdk.Eval Sdk.MemMgr Sdk.Lower Sdk.Flatten.
Import ListNotations.
Local Open Scope Z_scope.

(* ---- decidable equality on emitted commands (transparent, so that it computes) *)
Definition bank_dec (a b : bank) : {a = b} + {a <> b}. Proof. decide equality. Defined.
Definition reg_dec (a b : reg) : {a = b} + {a <> b}.
Proof. decide equality. apply Nat.eq_dec. apply bank_dec. Defined.
Definition rop_dec (a b : rop) : {a = b} + {a <> b}.
Proof. decide equality. apply Z.eq_dec. apply reg_dec. Defined.
Definition gate1_dec (a b : gate1) : {a = b} + {a <> b}. Proof. decide equality. Defined.
Definition gate2_dec (a b : gate2) : {a = b} + {a <> b}. Proof. decide equality. Defined.
Definition axis_dec (a b : axis) : {a = b} + {a <> b}. Proof. decide equality. Defined.
Definition cond_dec (a b : cond) : {a = b} + {a <> b}. Proof. decide equality. Defined.
Definition qop_dec (a b : qop) : {a = b} + {a <> b}.
Proof. decide equality. apply gate1_dec. Defined.
Definition instr_dec (a b : instr) : {a = b} + {a <> b}.
Proof.
  decide equality; try apply Z.eq_dec; try apply reg_dec; try apply rop_dec; try apply Nat.eq_dec;
    try apply qop_dec; try apply axis_dec; try apply gate2_dec.
Defined.
Definition fcmd_dec (a b : fcmd) : {a = b} + {a <> b}.
Proof.
  decide equality; try apply instr_dec; try apply Nat.eq_dec; try apply rop_dec; try apply cond_dec.
Defined.

Fixpoint list_eqb {A} (dec : forall a b : A, {a = b} + {a <> b}) (x y : list A) : bool :=
  match x, y with
  | [], [] => true
  | a :: x', b :: y' => if dec a b then list_eqb dec x' y' else false
  | _, _ => false
  end.

Definition tev_dec (a b : tev) : {a = b} + {a <> b}.
Proof.
  decide equality; try apply Z.eq_dec; try apply Nat.eq_dec; try apply gate1_dec; try apply axis_dec;
    try apply gate2_dec.
Defined.
Definition optz_dec (a b : option Z) : {a = b} + {a <> b}.
Proof. decide equality. apply Z.eq_dec. Defined.
Definition arr_dec (a b : nat * list (option Z)) : {a = b} + {a <> b}.
Proof. decide equality. apply list_eq_dec. apply optz_dec. apply Nat.eq_dec. Defined.

(* ---- structural tie *)
Record scase := mkS {
  s_fd : bool;
  s_prog : block;
  s_blocks : option (list (option (list fcmd)))   (* None: the builder raised *)
}.

Definition model_blocks (fd : bool) (p : block) : option (list (option (list fcmd))) :=
  match lower_prog fd p with
  | Ok (bs, _) => Some (map (option_map flatten) bs)
  | Err _ => None
  end.

Definition optblock_eqb (a b : option (list fcmd)) : bool :=
  match a, b with
  | None, None => true
  | Some x, Some y => list_eqb fcmd_dec x y
  | _, _ => false
  end.

Fixpoint blocks_eqb (a b : list (option (list fcmd))) : bool :=
  match a, b with
  | [], [] => true
  | x :: a', y :: b' => optblock_eqb x y && blocks_eqb a' b'
  | _, _ => false
  end.

Definition check_scase (c : scase) : bool :=
  match model_blocks (s_fd c) (s_prog c), s_blocks c with
  | None, None => true
  | Some a, Some b => blocks_eqb a b
  | _, _ => false
  end.

(* ---- behavioural oracle *)
Inductive hread :=
| HArr (a : nat) (l : list (option Z))       (* Array handle read as a whole *)
| HFut (a i : nat) (v : option Z)            (* Future handle with a constant index *)
| HReg (r : nat) (v : option Z).             (* RegFuture handle *)

Record flushobs := mkF { f_reads : list hread; f_ctrl : arrays }.

Record bcase := mkB {
  b_prog : block;
  b_script : list Z;
  b_ok : bool;                        (* the pipeline ran to the end *)
  b_trace : list tev;
  b_flushes : list flushobs;
  b_final : arrays
}.

Definition check_read (sn : snapshot) (h : hread) : bool :=
  match h with
  | HArr a l =>
      match alookup a (fst sn) with Some l' => if list_eq_dec optz_dec l l' then true else false | None => false end
  | HFut a i v =>
      match alookup a (fst sn) with
      | Some l' => match nth_error l' i with Some v' => if optz_dec v v' then true else false | None => false end
      | None => false
      end
  | HReg r v =>
      (* a register future that was never assigned denotes no value: not compared *)
      match alookup r (snd sn) with Some z => if optz_dec v (Some z) then true else false | None => true end
  end.

Fixpoint check_flushes (sns : list snapshot) (fs : list flushobs) : bool :=
  match sns, fs with
  | [], [] => true
  | sn :: sns', f :: fs' =>
      forallb (check_read sn) (f_reads f) && list_eqb arr_dec (fst sn) (f_ctrl f) && check_flushes sns' fs'
  | _, _ => false
  end.

(* register futures bound by measurements (at any depth) in each flush block *)
Fixpoint regs_stmt (s : stmt) : list nat :=
  match s with
  | SMeasReg _ _ r | SNewReg r _ => [r]
  | SIf _ _ _ _ b | SLoop _ _ _ _ _ _ b | SForeach _ _ _ b | SEpr _ b => regs_block b
  | SLoopUntil _ _ b _ _ cl => regs_block b ++ regs_block cl
  | _ => []
  end
with regs_block (b : block) : list nat :=
  match b with BNil => [] | BCons s r => regs_stmt s ++ regs_block r end.

Fixpoint regs_per_flush (b : block) (acc : list nat) : list (list nat) :=
  match b with
  | BNil => []
  | BCons SFlush r => acc :: regs_per_flush r []
  | BCons s r => regs_per_flush r (acc ++ regs_stmt s)
  end.

(* some measurement into a register future of a block was not reached when the block
   ran: the emitted ret_reg then reads a register that was never written *)
Fixpoint unreached_reg (rs : list (list nat)) (sns : list snapshot) : bool :=
  match rs, sns with
  | r :: rs', sn :: sns' =>
      existsb (fun k => match alookup k (snd sn) with Some _ => false | None => true end) r
      || unreached_reg rs' sns'
  | _, _ => false
  end.

(* 0 = agrees; otherwise the first part that differs *)
Definition check_bcase (c : bcase) : Z :=
  match eval_prog (b_prog c) (b_script c) with
  | None => 1                                   (* the spec gives the program no meaning (generator bug) *)
  | Some e =>
      let o := observe e in
      if negb (b_ok c) then                     (* the implementation failed on a meaningful program *)
        (if unreached_reg (regs_per_flush (b_prog c) []) (o_snaps o) then 6 else 2)
      else if negb (list_eqb tev_dec (o_trace o) (b_trace c)) then 3
      else if negb (check_flushes (o_snaps o) (b_flushes c)) then 4
      else if negb (list_eqb arr_dec (o_arrays o) (b_final c)) then 5
      else 0
  end.

(* ---- C14 direct run *)
Inductive astep := AOk (active : list nat) (peak : nat) (mused mscr : list nat) | AErr.
Record acase := mkA { a_fd : bool; a_prog : block; a_steps : list astep }.

Definition astep_eqb (m : stepres) (a : astep) : bool :=
  match m, a with
  | StepOk act pk mu sc, AOk act' pk' mu' sc' =>
      list_eqb Nat.eq_dec act act' && Nat.eqb pk pk' && list_eqb Nat.eq_dec mu mu' && list_eqb Nat.eq_dec sc sc'
  | StepErr EOutOfRegs, AErr => true
  | _, _ => false
  end.

Fixpoint asteps_eqb (m : list stepres) (a : list astep) : bool :=
  match m, a with
  | [], [] => true
  | x :: m', y :: a' => astep_eqb x y && asteps_eqb m' a'
  | _, _ => false
  end.

Definition check_acase (c : acase) : bool :=
  asteps_eqb (lower_steps (a_fd c) (a_prog c) [] l0) (a_steps c).

Fixpoint failing_from {A} (chk : A -> bool) (i : Z) (l : list A) : list Z :=
  match l with
  | [] => []
  | x :: r => if chk x then failing_from chk (i + 1) r else i :: failing_from chk (i + 1) r
  end.
Definition failing {A} (chk : A -> bool) (l : list A) : list Z := failing_from chk 0 l.

Fixpoint codes_from (i : Z) (l : list bcase) : list Z :=
  match l with
  | [] => []
  | x :: r => let k := check_bcase x in
              if k =? 0 then codes_from (i + 1) r else i :: k :: codes_from (i + 1) r
  end.
Definition bfailing (l : list bcase) : list Z := codes_from 0 l.
