(* SdkSimProofs.v — the composition of C05: for every well-formed statement, executing the code
   the builder model emits for it (structured IR, big-step sx) on a controller state related to
   the specification state yields a controller state related to the specification's result.
   Induction over the SDK AST; the relation is re-established at every loop round. *)
From Coq Require Import ZArith List Bool Arith Lia.
From NQ Require Import Sdk.SdkAst Sdk.Target Sdk.Eval Sdk.MemMgr Sdk.Lower Sdk.Flatten Sdk.SdkCheck Sdk.Wf Sdk.Writes.
From NQ Require Import Proofs.SdkRegProofs Proofs.SdkFrameProofs Proofs.SdkMapLemmas Proofs.SdkInvProofs
  Proofs.SdkWfProofs Proofs.SdkLowerProofs.
Import ListNotations.
Local Open Scope nat_scope.

(* ------------------------------------------------------------------ the relation *)
Record Rel (L : list (nat * nat)) (st : lst) (e : est) (s : mst) : Prop := mkRel {
  r_arr : forall a, m_arr s a = alookup a (e_arr e);
  r_len : forall a n, alook a L = Some n -> exists l, alookup a (e_arr e) = Some l /\ List.length l = n;
  r_q : forall q id, alook q (l_q st) = Some id ->
          m_alloc s id = true /\ alookup q (e_q e) = Some (m_inst s id);
  r_qdom : forall q, alook q (l_q st) = None -> alookup q (e_q e) = None;
  r_qfree : forall id, ~ In id (map snd (l_q st)) -> m_alloc s id = false;
  r_eqnd : NoDup (map fst (e_q e));
  r_rf : forall r m, alook r (l_rf st) = Some (Rg BM m) ->
           forall z, alookup r (e_reg e) = Some z -> m_reg s (Rg BM m) = Some z;
  r_lv : forall v r, alook v (l_lv st) = Some r ->
           exists z, alookup v (e_lv e) = Some z /\ m_reg s (Rg BR r) = Some z;
  r_n : m_n s = e_n e;
  r_script : m_script s = e_script e;
  r_trace : m_trace s = e_trace e;
  (* a register future bound in this block has been assigned (wfs: its measurement ran) *)
  r_rfdef : forall r m, alook r (l_rf st) = Some (Rg BM m) -> alookup r (e_reg e) <> None;
  (* every array of the specification state is known to the lowering of this block *)
  r_dom : forall a, alookup a (e_arr e) <> None -> alook a L <> None
}.

Lemma reg_eqb_true : forall a b, reg_eqb a b = true -> a = b.
Proof.
  intros [x i] [y j] H. cbn in H. apply andb_prop in H. destruct H as [H1 H2].
  apply Nat.eqb_eq in H2. subst. destruct x, y; cbn in H1; try discriminate; reflexivity.
Qed.
Lemma reg_eqb_neq : forall a b, a <> b -> reg_eqb a b = false.
Proof. intros a b H. destruct (reg_eqb a b) eqn:E; [apply reg_eqb_true in E; contradiction|reflexivity]. Qed.
Lemma m_reg_set_same : forall s g z, m_reg (set_reg s g z) g = Some z.
Proof. intros. cbn [set_reg m_reg]. unfold upd_reg. rewrite reg_eqb_same. reflexivity. Qed.
Lemma m_reg_set_other : forall s g g' z, g' <> g -> m_reg (set_reg s g z) g' = m_reg s g'.
Proof. intros. cbn [set_reg m_reg]. unfold upd_reg. rewrite reg_eqb_neq by assumption. reflexivity. Qed.

Definition untracked (st : lst) (g : reg) : Prop :=
  (forall v r, alook v (l_lv st) = Some r -> g <> Rg BR r) /\
  (forall r m, alook r (l_rf st) = Some (Rg BM m) -> g <> Rg BM m).

Lemma Rel_set_reg : forall L st e s g z, Rel L st e s -> untracked st g -> Rel L st e (set_reg s g z).
Proof.
  intros L st e s g z [A B C D E F G H I J K RD1 RD2] [U1 U2]. constructor; try assumption.
  - intros r m Hr z' Hz. rewrite m_reg_set_other; [eauto|]. intro X. symmetry in X. eapply U2; eauto.
  - intros v r Hv. destruct (H _ _ Hv) as (z' & H1 & H2). exists z'. split; [exact H1|].
    rewrite m_reg_set_other; [exact H2|]. intro X. symmetry in X. eapply U1; eauto.
Qed.

Lemma untracked_Q : forall st k, untracked st (Rg BQ k).
Proof. intros. split; intros; discriminate. Qed.
Lemma untracked_free : forall st t, Inv st -> nth_error (l_act st) t = Some false -> untracked st (Rg BR t).
Proof.
  intros st t I Hf. split; [|intros; discriminate].
  intros v r Hv X. inversion X; subst. rewrite (i_lv _ I _ _ Hv) in Hf. discriminate.
Qed.
Lemma untracked_M : forall st m, Inv st -> nth_error (l_mused st) m = Some false -> untracked st (Rg BM m).
Proof.
  intros st m I Hf. split; [intros; discriminate|].
  intros r m' Hr X. inversion X; subst. destruct (i_rf _ I _ _ Hr) as [_ Hu]. rewrite Hu in Hf. discriminate.
Qed.

(* changing the lowering state without touching what the relation reads *)
Lemma Rel_st : forall L st st1 e s, Rel L st e s ->
  l_q st1 = l_q st ->
  (forall v r, alook v (l_lv st1) = Some r -> alook v (l_lv st) = Some r) ->
  (forall r m, alook r (l_rf st1) = Some (Rg BM m) -> alook r (l_rf st) = Some (Rg BM m)) ->
  Rel L st1 e s.
Proof.
  intros L st st1 e s [A B C D E F G H I J K RD1 RD2] Eq Hl Hr. constructor; rewrite ?Eq; eauto.
Qed.

Lemma Rel_sba : forall L st st1 e s, Rel L st e s -> sba st st1 -> Rel L st1 e s.
Proof.
  intros L st st1 e s R (_ & Q & _ & _ & F & V & _). eapply Rel_st; eauto; intros; congruence.
Qed.

Lemma Rel_emit : forall L st e s t, Rel L st e s -> Rel L st (ev_emit e t) (emit s t).
Proof.
  intros L st e s t [A B C D E F G H I J K RD1 RD2]. constructor; cbn; try assumption. congruence.
Qed.

(* ------------------------------------------------------------------ structured code from instruction lists *)
Lemma sx_app : forall a b s s1 s2, sx a s s1 -> sx b s1 s2 -> sx (a ++ b) s s2.
Proof.
  induction a as [|x a IH]; intros b s s1 s2 H1 H2; cbn.
  - inversion H1; subst. exact H2.
  - inversion H1; subst. eapply sx_cons; eauto.
Qed.
Lemma sx_instrs : forall l s s', exec_instrs l s = Some s' -> sx (map XI l) s s'.
Proof.
  induction l as [|i l IH]; intros s s' H; cbn in *.
  - inversion H; subst. apply sx_nil.
  - destruct (exec_instr i s) as [s1|] eqn:E; [|discriminate].
    eapply sx_cons; [apply sx_I; exact E|apply IH; exact H].
Qed.
Lemma sx_one : forall i s s', exec_instr i s = Some s' -> sx [XI i] s s'.
Proof. intros. eapply sx_cons; [apply sx_I; eassumption|apply sx_nil]. Qed.
Lemma sx_nil_inv : forall s s', sx [] s s' -> s' = s.
Proof. intros s s' H. inversion H; reflexivity. Qed.

(* ------------------------------------------------------------------ qubit registers *)
Lemma zidx_of_nat : forall n, zidx (Some (Z.of_nat n)) = Some n.
Proof. intro n. cbn. destruct (Z.of_nat n <? 0)%Z eqn:E; [apply Z.ltb_lt in E; lia|]. rewrite Nat2Z.id. reflexivity. Qed.

Lemma qid_after_set : forall s r id, m_alloc s id = true ->
  qid (set_reg s r (Z.of_nat id)) r = Some id.
Proof.
  intros s r id H. unfold qid. rewrite m_reg_set_same, zidx_of_nat. cbn [set_reg m_alloc]. rewrite H. reflexivity.
Qed.

(* ------------------------------------------------------------------ operands *)
Lemma low_ix_shape : forall ix st p, low_ix ix st = Ok p ->
  (exists n, ix = IxC n /\ p = PImm (Z.of_nat n)) \/
  (exists v r, ix = IxV v /\ alook v (l_lv st) = Some r /\ p = PReg (Rg BR r)).
Proof.
  intros ix st p H. destruct ix; cbn in H.
  - inversion H; subst. left. eauto.
  - destruct (alook v (l_lv st)) eqn:E; inversion H; subst. right. eauto.
Qed.

Lemma ix_val : forall L ix st p e s k,
  low_ix ix st = Ok p -> ev_index ix e = Some k -> Rel L st e s -> zidx (rop_val s p) = Some k.
Proof.
  intros L ix st p e s k H Hk R. destruct (low_ix_shape _ _ _ H) as [(n & -> & ->)|(v & r & -> & Hv & ->)].
  - cbn in Hk. inversion Hk; subst. cbn [rop_val]. apply zidx_of_nat.
  - cbn in Hk. destruct (r_lv _ _ _ _ R _ _ Hv) as (z & Hz & Hm). rewrite Hz in Hk. cbn [rop_val]. rewrite Hm.
    cbn. destruct (z <? 0)%Z; [discriminate|exact Hk].
Qed.

(* an index operand does not see writes to untracked registers *)
Lemma ix_rop_set : forall ix st p s g z, low_ix ix st = Ok p -> untracked st g ->
  rop_val (set_reg s g z) p = rop_val s p.
Proof.
  intros ix st p s g z H [U _]. destruct (low_ix_shape _ _ _ H) as [(n & -> & ->)|(v & r & -> & Hv & ->)].
  - reflexivity.
  - cbn [rop_val]. apply m_reg_set_other. intro X. symmetry in X. eapply U; eauto.
Qed.

Lemma entry_val : forall L a ix st p e s v,
  low_ix ix st = Ok p -> ev_entry a ix e = Some v -> Rel L st e s ->
  exists l k, m_arr s a = Some l /\ zidx (rop_val s p) = Some k /\ nth_error l k = Some (Some v).
Proof.
  intros L a ix st p e s v H Hv R. unfold ev_entry in Hv.
  destruct (alookup a (e_arr e)) as [l|] eqn:Ea; [|discriminate].
  destruct (ev_index ix e) as [k|] eqn:Ek; [|discriminate].
  exists l, k. rewrite (r_arr _ _ _ _ R). split; [exact Ea|]. split; [eapply ix_val; eauto|].
  destruct (nth_error l k) as [[w|]|]; inversion Hv; reflexivity.
Qed.

Lemma load_entry : forall L a ix st p e s v g,
  low_ix ix st = Ok p -> ev_entry a ix e = Some v -> Rel L st e s ->
  exec_instr (ILoad g a p) s = Some (set_reg s g v).
Proof.
  intros L a ix st p e s v g H Hv R. destruct (entry_val _ _ _ _ _ _ _ _ H Hv R) as (l & k & A & B & C).
  cbn [exec_instr]. rewrite A, B, C. reflexivity.
Qed.

Lemma Rel_store : forall L a ix st p e e' s src v,
  low_ix ix st = Ok p -> ev_store a ix v e = Some e' -> Rel L st e s -> rop_val s src = Some v ->
  exists s', exec_instr (IStore src a p) s = Some s' /\ Rel L st e' s' /\ m_reg s' = m_reg s.
Proof.
  intros L a ix st p e e' s src v H Hs R Hv. unfold ev_store in Hs.
  destruct (alookup a (e_arr e)) as [l|] eqn:Ea; [|discriminate].
  destruct (ev_index ix e) as [k|] eqn:Ek; [|discriminate].
  destruct (lset l k (Some v)) as [l'|] eqn:El; [|discriminate]. inversion Hs; subst. clear Hs.
  assert (Hk := ix_val _ _ _ _ _ _ _ H Ek R).
  exists (set_arr s a l'). cbn [exec_instr]. rewrite (r_arr _ _ _ _ R), Ea, Hk, Hv.
  rewrite <- lset_list_set, El. split; [reflexivity|]. split; [|reflexivity].
  destruct R as [A B C D E F G HH I J K RD1 RD2]. constructor; cbn; try assumption.
  - intro a'. unfold upd_nat. destruct (Nat.eqb a' a) eqn:Eq.
    + apply Nat.eqb_eq in Eq. subst. rewrite alookup_aset_same. reflexivity.
    + apply Nat.eqb_neq in Eq. rewrite alookup_aset_other by exact Eq. apply A.
  - intros a' n Hn. destruct (B _ _ Hn) as (l0 & H0 & L0). destruct (Nat.eq_dec a' a) as [->|Hne].
    + rewrite alookup_aset_same. exists l'. split; [reflexivity|]. rewrite Ea in H0. inversion H0; subst.
      eapply lset_length; eauto.
    + rewrite alookup_aset_other by exact Hne. eauto.
  - intros a' Ha'. apply RD2. destruct (Nat.eq_dec a' a) as [->|Hne]; [congruence|].
    rewrite alookup_aset_other in Ha' by exact Hne. exact Ha'.
Qed.

Lemma Rel_store_at : forall L a k st p e e' s src v,
  ev_store a (IxC k) v e = Some e' -> Rel L st e s -> zidx (rop_val s p) = Some k -> rop_val s src = Some v ->
  exists s', exec_instr (IStore src a p) s = Some s' /\ Rel L st e' s' /\ m_reg s' = m_reg s.
Proof.
  intros L a k0 st p e e' s src v Hs R Hk Hv. unfold ev_store in Hs.
  destruct (alookup a (e_arr e)) as [l|] eqn:Ea; [|discriminate].
  cbn [ev_index] in Hs.
  destruct (lset l k0 (Some v)) as [l'|] eqn:El; [|discriminate]. inversion Hs; subst. clear Hs.
  exists (set_arr s a l'). cbn [exec_instr]. rewrite (r_arr _ _ _ _ R), Ea, Hk, Hv.
  rewrite <- lset_list_set, El. split; [reflexivity|]. split; [|reflexivity].
  destruct R as [A B C D E F G HH I J K RD1 RD2]. constructor; cbn; try assumption.
  - intro a'. unfold upd_nat. destruct (Nat.eqb a' a) eqn:Eq.
    + apply Nat.eqb_eq in Eq. subst. rewrite alookup_aset_same. reflexivity.
    + apply Nat.eqb_neq in Eq. rewrite alookup_aset_other by exact Eq. apply A.
  - intros a' n Hn. destruct (B _ _ Hn) as (l0 & H0 & L0). destruct (Nat.eq_dec a' a) as [->|Hne].
    + rewrite alookup_aset_same. exists l'. split; [reflexivity|]. rewrite Ea in H0. inversion H0; subst.
      eapply lset_length; eauto.
    + rewrite alookup_aset_other by exact Hne. eauto.
  - intros a' Ha'. apply RD2. destruct (Nat.eq_dec a' a) as [->|Hne]; [congruence|].
    rewrite alookup_aset_other in Ha' by exact Hne. exact Ha'.
Qed.


(* condition / add operands: value and code *)
Lemma cval_sim : forall L x st st0 lx px tx st1 e s a,
  low_cval x st = Ok (lx, px, tx, st1) -> ev_cval x e = Some a -> Rel L st0 e s -> Inv st ->
  l_lv st = l_lv st0 -> l_rf st = l_rf st0 ->
  (forall t, nth_error (l_act st) t = Some false -> untracked st0 (Rg BR t)) ->
  exists s1, exec_instrs lx s = Some s1 /\ Rel L st0 e s1 /\ rop_val s1 px = Some a /\
    (forall g, (forall t, In t tx -> g <> Rg BR t) -> m_reg s1 g = m_reg s g) /\
    (forall t, px = PReg (Rg BR t) -> nth_error (l_act st1) t = Some true).
Proof.
  intros L x st st0 lx px tx st1 e s a H Ha R I Elv Erf U. destruct x; cbn [low_cval ev_cval] in *.
  - inversion H; subst. inversion Ha; subst. exists s. cbn.
    split; [reflexivity|]. split; [exact R|]. split; [reflexivity|]. split; [auto|intros t X; discriminate].
  - destruct (low_ix ix st) as [p|] eqn:Hix; cbn [bind] in H; [|discriminate].
    destruct (take st) as [[t s1']|] eqn:Ht; cbn [bind] in H; [|discriminate]. inversion H; subst. clear H.
    assert (Hix0 : low_ix ix st0 = Ok p).
    { destruct ix; cbn in *; [exact Hix|]. rewrite <- Elv. exact Hix. }
    assert (Tf := take_facts _ _ _ Ht). destruct Tf as (Hfree & Hact & _).
    assert (Ut : untracked st0 (Rg BR t)) by (apply U; exact Hfree).
    exists (set_reg s (Rg BR t) a). unfold Lower.R. cbn [exec_instrs]. rewrite (load_entry _ _ _ _ _ _ _ _ (Rg BR t) Hix0 Ha R).
    split; [reflexivity|]. split; [apply Rel_set_reg; assumption|]. split; [cbn [rop_val]; apply m_reg_set_same|].
    split.
    + intros g Hg. apply m_reg_set_other. apply Hg. left; reflexivity.
    + intros t' X. inversion X; subst. rewrite Hact. apply nth_set_nth_same. apply nth_error_Some. congruence.
  - unfold rf_lookup in H. destruct (alook r (l_rf st)) as [[[] k]|] eqn:Er; try discriminate.
    + destruct (i_rfM _ I _ _ Er) as [(m & X)|X]; discriminate.
    + inversion H; subst. exists s. cbn. split; [reflexivity|]. split; [exact R|]. split; [|split; [auto|intros; discriminate]].
      rewrite Erf in Er. eapply r_rf; eauto.
  - destruct (alook v (l_lv st)) as [r|] eqn:Ev; inversion H; subst. exists s. cbn.
    split; [reflexivity|]. split; [exact R|]. split; [|split; [auto|]].
    + rewrite Elv in Ev. destruct (r_lv _ _ _ _ R _ _ Ev) as (z & Hz & Hm). rewrite Hz in Ha. inversion Ha; subst. exact Hm.
    + intros t X. inversion X; subst. eapply (i_lv _ I); eauto.
Qed.

Lemma src_sim : forall L x st st0 lx px tx st1 e s a,
  low_src x st = Ok (lx, px, tx, st1) -> ev_src x e = Some a -> Rel L st0 e s -> Inv st ->
  l_lv st = l_lv st0 -> l_rf st = l_rf st0 -> l_act st0 = l_act st0 -> Inv st0 ->
  (forall t, nth_error (l_act st) t = Some false -> untracked st0 (Rg BR t)) ->
  exists s1, exec_instrs lx s = Some s1 /\ Rel L st0 e s1 /\ rop_val s1 px = Some a /\
    (forall g, (forall t, In t tx -> g <> Rg BR t) -> m_reg s1 g = m_reg s g) /\ m_arr s1 = m_arr s.
Proof.
  intros L x st st0 lx px tx st1 e s a H Ha R I Elv Erf _ I0 U. destruct x; cbn [low_src ev_src] in *.
  - inversion H; subst. inversion Ha; subst. exists s. cbn. auto.
  - destruct (low_ix ix st) as [p|] eqn:Hix; cbn [bind] in H; [|discriminate].
    destruct (take st) as [[t s1']|] eqn:Ht; cbn [bind] in H; [|discriminate]. inversion H; subst. clear H.
    assert (Hix0 : low_ix ix st0 = Ok p).
    { destruct ix; cbn in *; [exact Hix|]. rewrite <- Elv. exact Hix. }
    assert (Ut : untracked st0 (Rg BR t)) by (apply U; apply take_facts in Ht; tauto).
    exists (set_reg s (Rg BR t) a). unfold Lower.R. cbn [exec_instrs]. rewrite (load_entry _ _ _ _ _ _ _ _ (Rg BR t) Hix0 Ha R).
    split; [reflexivity|]. split; [apply Rel_set_reg; assumption|]. split; [cbn [rop_val]; apply m_reg_set_same|].
    split; [|reflexivity]. intros g Hg. apply m_reg_set_other. apply Hg. left; reflexivity.
  - destruct (alook v (l_lv st)) as [r|] eqn:Ev; inversion H; subst. exists s. cbn.
    split; [reflexivity|]. split; [exact R|]. split; [|auto].
    rewrite Elv in Ev. destruct (r_lv _ _ _ _ R _ _ Ev) as (z & Hz & Hm). rewrite Hz in Ha. inversion Ha; subst. exact Hm.
  - unfold rf_lookup in H. destruct (alook r (l_rf st)) as [[[] k]|] eqn:Er; try discriminate.
    + destruct (i_rfM _ I _ _ Er) as [(m & X)|X]; discriminate.
    + inversion H; subst. exists s. cbn. split; [reflexivity|]. split; [exact R|]. split; [|auto].
      rewrite Erf in Er. eapply r_rf; eauto.
Qed.

(* ------------------------------------------------------------------ leaf statements *)
Definition sim_of (s : stmt) : Prop :=
  forall L st c st' e e' sg,
  lower_stmt true s st = Ok (c, st') -> Inv st -> eval_stmt s e = Some e' -> Rel L st e sg ->
  exists sg', sx c sg sg' /\ Rel L st' e' sg'.

Ltac inv_ok H := inversion H; subst; clear H.

Lemma qubit_id_ok : forall q st id, qubit_id q st = Ok id -> alook q (l_q st) = Some id.
Proof. intros q st id H. unfold qubit_id in H. destruct (alook q (l_q st)); inversion H; reflexivity. Qed.

Lemma sim_gate : forall g q, sim_of (SGate g q).
Proof.
  intros g q L st c st' e e' sg H I Hev HR. cbn [lower_stmt] in H.
  destruct (qubit_id q st) as [id|] eqn:Eq; cbn [bind] in H; [|discriminate]. inv_ok H.
  apply qubit_id_ok in Eq. destruct (r_q _ _ _ _ HR _ _ Eq) as [Ha Hi].
  cbn [eval_stmt] in Hev. rewrite Hi in Hev. inv_ok Hev.
  set (s1 := set_reg sg Q0 (Z.of_nat id)).
  exists (emit s1 (TG1 g (m_inst s1 id))). split.
  - eapply sx_cons; [apply sx_I; reflexivity|]. apply sx_one. cbn [exec_instr].
    unfold s1. rewrite qid_after_set by exact Ha. reflexivity.
  - apply Rel_emit. apply Rel_set_reg; [exact HR|apply untracked_Q].
Qed.

Lemma sim_rot : forall ax q n d, sim_of (SRot ax q n d).
Proof.
  intros ax q n d L st c st' e e' sg H I Hev HR. cbn [lower_stmt] in H.
  destruct (qubit_id q st) as [id|] eqn:Eq; cbn [bind] in H; [|discriminate]. inv_ok H.
  apply qubit_id_ok in Eq. destruct (r_q _ _ _ _ HR _ _ Eq) as [Ha Hi].
  cbn [eval_stmt] in Hev. rewrite Hi in Hev. inv_ok Hev.
  set (s1 := set_reg sg Q0 (Z.of_nat id)).
  exists (emit s1 (TRot ax (m_inst s1 id) n d)). split.
  - eapply sx_cons; [apply sx_I; reflexivity|]. apply sx_one. cbn [exec_instr].
    unfold s1. rewrite qid_after_set by exact Ha. reflexivity.
  - apply Rel_emit. apply Rel_set_reg; [exact HR|apply untracked_Q].
Qed.

Lemma sim_two : forall t q1 q2, sim_of (STwo t q1 q2).
Proof.
  intros t q1 q2 L st c st' e e' sg H I Hev HR. cbn [lower_stmt] in H.
  destruct (qubit_id q1 st) as [i1|] eqn:E1; cbn [bind] in H; [|discriminate].
  destruct (qubit_id q2 st) as [i2|] eqn:E2; cbn [bind] in H; [|discriminate]. inv_ok H.
  apply qubit_id_ok in E1. apply qubit_id_ok in E2.
  destruct (r_q _ _ _ _ HR _ _ E1) as [Ha1 Hi1]. destruct (r_q _ _ _ _ HR _ _ E2) as [Ha2 Hi2].
  cbn [eval_stmt] in Hev. rewrite Hi1, Hi2 in Hev. destruct (Nat.eqb q1 q2); [discriminate|]. inv_ok Hev.
  set (s1 := set_reg sg Q0 (Z.of_nat i1)). set (s2 := set_reg s1 Q1 (Z.of_nat i2)).
  exists (emit s2 (TG2 t (m_inst s2 i1) (m_inst s2 i2))). split.
  - eapply sx_cons; [apply sx_I; reflexivity|]. eapply sx_cons; [apply sx_I; reflexivity|].
    apply sx_one. cbn [exec_instr].
    assert (X1 : qid s2 Q0 = Some i1).
    { unfold qid, s2. rewrite m_reg_set_other by discriminate. unfold s1. rewrite m_reg_set_same, zidx_of_nat.
      cbn [set_reg m_alloc]. rewrite Ha1. reflexivity. }
    assert (X2 : qid s2 Q1 = Some i2) by (unfold s2; apply qid_after_set; exact Ha2).
    fold s1. fold s2. rewrite X1, X2. reflexivity.
  - apply Rel_emit. apply Rel_set_reg; [|apply untracked_Q]. apply Rel_set_reg; [exact HR|apply untracked_Q].
Qed.

(* allocation *)
Lemma sim_newq : forall q, sim_of (SNewQubit q).
Proof.
  intros q L st c st' e e' sg H I Hev HR. cbn [lower_stmt] in H.
  destruct (alook q (l_q st)) eqn:Eq; [discriminate|]. inv_ok H.
  cbn [eval_stmt] in Hev. rewrite (r_qdom _ _ _ _ HR _ Eq) in Hev. inv_ok Hev.
  assert (Hfresh := new_qubit_id_fresh st). remember (new_qubit_id st) as id eqn:Eid. clear Eid.
  assert (Hfree := r_qfree _ _ _ _ HR _ Hfresh).
  set (s1 := set_reg sg Q0 (Z.of_nat id)).
  set (s2 := mkM (m_reg s1) (m_arr s1) (upd_nat (m_alloc s1) id true) (m_inst s1) (m_n s1) (m_script s1) (m_trace s1)).
  set (s3 := mkM (m_reg s2) (m_arr s2) (m_alloc s2) (upd_nat (m_inst s2) id (m_n s2)) (S (m_n s2))
                 (m_script s2) (TInit (m_n s2) :: m_trace s2)).
  assert (E2 : exec_instr (IQ QAlloc Q0) s1 = Some s2).
  { cbn [exec_instr]. unfold s1. rewrite m_reg_set_same, zidx_of_nat. cbn [set_reg m_alloc].
    rewrite Hfree. reflexivity. }
  assert (E3 : exec_instr (IQ QInit Q0) s2 = Some s3).
  { cbn [exec_instr].
    assert (X : qid s2 Q0 = Some id).
    { unfold qid, s2. cbn [m_reg m_alloc]. unfold s1. rewrite m_reg_set_same, zidx_of_nat.
      unfold upd_nat. rewrite Nat.eqb_refl. reflexivity. }
    rewrite X. reflexivity. }
  exists s3. split.
  - eapply sx_cons; [apply sx_I; reflexivity|]. eapply sx_cons; [apply sx_I; exact E2|]. apply sx_one. exact E3.
  - destruct HR as [A B C D E F G HH II J K RD1 RD2]. constructor; cbn; try assumption.
    + intros q' id' Hq'. destruct (alook q' (l_q st)) as [id0|] eqn:E0.
      * rewrite (alook_app_some _ _ _ _ _ E0) in Hq'. inv_ok Hq'.
        destruct (C _ _ E0) as [C1 C2].
        assert (Hne : id' <> id).
        { intro X. apply Hfresh. rewrite <- X. apply alook_some_in in E0. apply (in_map snd) in E0. exact E0. }
        unfold upd_nat. apply Nat.eqb_neq in Hne. rewrite Hne. split; [exact C1|].
        destruct (Nat.eqb q' q) eqn:Eqq; [apply Nat.eqb_eq in Eqq; subst; congruence|exact C2].
      * rewrite (alook_app_none _ _ _ _ E0) in Hq'. cbn in Hq'.
        destruct (Nat.eqb q' q) eqn:Eqq; [|discriminate]. inv_ok Hq'.
        unfold upd_nat. rewrite Nat.eqb_refl. split; [reflexivity|]. rewrite II. reflexivity.
    + intros q' Hq'. destruct (alook q' (l_q st)) as [id0|] eqn:E0.
      * rewrite (alook_app_some _ _ _ _ _ E0) in Hq'. discriminate.
      * rewrite (alook_app_none _ _ _ _ E0) in Hq'. cbn in Hq'.
        destruct (Nat.eqb q' q) eqn:Eqq; [discriminate|]. apply D. exact E0.
    + intros id' Hn. rewrite map_app in Hn. cbn in Hn. unfold upd_nat.
      destruct (Nat.eqb id' id) eqn:Ei.
      * apply Nat.eqb_eq in Ei. subst. exfalso. apply Hn. apply in_or_app. right. left. reflexivity.
      * apply E. intro X. apply Hn. apply in_or_app. left. exact X.
    + constructor; [|exact F]. apply alookup_none_notin. apply D. exact Eq.
    + congruence.
    + congruence.
Qed.

Lemma in_snd_adel : forall (l : list (nat * nat)) q id x,
  alook q l = Some id -> In x (map snd l) -> x <> id -> In x (map snd (adel q l)).
Proof.
  induction l as [|[k v] l IH]; intros q id x H Hin Hne; cbn in *; [destruct Hin|].
  destruct (Nat.eqb q k) eqn:E.
  - inv_ok H. destruct Hin as [X|X]; [congruence|exact X].
  - cbn. destruct Hin as [X|X]; [left; exact X|right; eapply IH; eauto].
Qed.

(* the relation after a qubit handle was consumed on both sides *)
Lemma Rel_consume : forall L st e sg q id, Inv st ->
  Rel L st e sg -> alook q (l_q st) = Some id ->
  Rel L (deactivate q st) (with_q e (aremove q (e_q e)))
      (mkM (m_reg sg) (m_arr sg) (upd_nat (m_alloc sg) id false) (m_inst sg) (m_n sg) (m_script sg) (m_trace sg)).
Proof.
  intros L st e sg q id I [A B C D E F G HH II J K RD1 RD2] Eq.
  constructor; cbn; try assumption.
  - intros q' id' Hq'. destruct (Nat.eq_dec q' q) as [->|Hne].
    + rewrite alook_adel_same in Hq' by (apply (i_qn _ I)). discriminate.
    + rewrite alook_adel_other in Hq' by exact Hne. destruct (C _ _ Hq') as [C1 C2].
      assert (Hid : id' <> id).
      { intro X. subst. apply (adel_snd_gone _ _ _ (i_qi _ I) Eq).
        assert (Y : alook q' (adel q (l_q st)) = Some id) by (rewrite alook_adel_other by exact Hne; exact Hq').
        apply alook_some_in in Y. apply (in_map snd) in Y. exact Y. }
      unfold upd_nat. apply Nat.eqb_neq in Hid. rewrite Hid. split; [exact C1|].
      rewrite alookup_aremove_other by exact Hne. exact C2.
  - intros q' Hq'. destruct (Nat.eq_dec q' q) as [->|Hne].
    + apply alookup_aremove_same. exact F.
    + rewrite alook_adel_other in Hq' by exact Hne. rewrite alookup_aremove_other by exact Hne. apply D. exact Hq'.
  - intros id' Hn. unfold upd_nat. destruct (Nat.eqb id' id) eqn:Ei; [reflexivity|].
    apply E. intro X. apply Hn. apply Nat.eqb_neq in Ei. eapply in_snd_adel; eauto.
  - apply aremove_nodup. exact F.
Qed.

Lemma sim_free : forall q, sim_of (SFree q).
Proof.
  intros q L st c st' e e' sg H I Hev HR. cbn [lower_stmt] in H.
  destruct (qubit_id q st) as [id|] eqn:Eq; cbn [bind] in H; [|discriminate]. inv_ok H.
  apply qubit_id_ok in Eq. destruct (r_q _ _ _ _ HR _ _ Eq) as [Ha Hi].
  cbn [eval_stmt] in Hev. rewrite Hi in Hev. inv_ok Hev.
  set (s1 := set_reg sg Q0 (Z.of_nat id)).
  exists (mkM (m_reg s1) (m_arr s1) (upd_nat (m_alloc s1) id false) (m_inst s1) (m_n s1) (m_script s1) (m_trace s1)).
  split.
  - eapply sx_cons; [apply sx_I; reflexivity|]. apply sx_one. cbn [exec_instr].
    fold s1. unfold s1 at 1. rewrite qid_after_set by exact Ha. reflexivity.
  - apply (Rel_consume L st e s1 q id I); [|exact Eq]. apply Rel_set_reg; [exact HR|apply untracked_Q].
Qed.

(* ------------------------------------------------------------------ measurements *)
Lemma Rel_script_trace : forall L st e sg scr tr,
  Rel L st e sg ->
  Rel L st (mkE (e_arr e) (e_reg e) (e_lv e) (e_q e) (e_n e) scr tr (e_snaps e))
           (mkM (m_reg sg) (m_arr sg) (m_alloc sg) (m_inst sg) (m_n sg) scr tr).
Proof. intros L st e sg scr tr [A B C D E F G HH II J K RD1 RD2]. constructor; cbn; try assumption; reflexivity. Qed.

Lemma meas_core : forall L st q ip keep m c st1 e sg o e1,
  low_meas q ip keep st = Ok (m, c, st1) -> Inv st -> ev_measure q ip e = Some (o, e1) -> Rel L st e sg ->
  exists sg1, sx c sg sg1 /\ Rel L (if ip then st else deactivate q st) e1 sg1 /\
              m_reg sg1 (Rg BM m) = Some o /\ nth_error (l_mused st) m = Some false.
Proof.
  intros L st q ip keep m c st1 e sg o e1 H I Hev HR.
  destruct (low_meas_facts _ _ _ _ _ _ _ H) as (id & Eq & Hm & _ & _ & _ & _ & _ & _ & _ & _ & _ & Ec).
  destruct (r_q _ _ _ _ HR _ _ Eq) as [Ha Hi].
  unfold ev_measure in Hev. rewrite Hi in Hev. inv_ok Hev.
  set (o := match e_script e with [] => 0%Z | x :: _ => x end).
  set (s1 := set_reg sg Q0 (Z.of_nat id)).
  set (s2 := mkM (upd_reg (m_reg s1) (M m) o) (m_arr s1) (m_alloc s1) (m_inst s1) (m_n s1)
                 (tl (m_script s1)) (TMeas (m_inst s1 id) o :: m_trace s1)).
  assert (E2 : exec_instr (IMeas Q0 (M m)) s1 = Some s2).
  { cbn [exec_instr]. unfold s1 at 1. rewrite qid_after_set by exact Ha. unfold s2, o.
    cbn [set_reg m_script s1]. rewrite (r_script _ _ _ _ HR). reflexivity. }
  assert (R2 : Rel L st (mkE (e_arr e) (e_reg e) (e_lv e) (e_q e) (e_n e) (tl (e_script e))
                             (TMeas (m_inst sg id) o :: e_trace e) (e_snaps e)) s2).
  { assert (R1 : Rel L st e (set_reg s1 (M m) o)).
    { apply Rel_set_reg; [|apply untracked_M; assumption]. apply Rel_set_reg; [exact HR|apply untracked_Q]. }
    apply (Rel_script_trace _ _ _ _ (tl (e_script e)) (TMeas (m_inst sg id) o :: e_trace e)) in R1.
    cbn in R1. unfold s2. cbn [s1 set_reg m_script m_trace m_inst m_alloc m_arr m_n m_reg].
    rewrite (r_script _ _ _ _ HR), (r_trace _ _ _ _ HR). exact R1. }
  assert (M2 : m_reg s2 (Rg BM m) = Some o).
  { unfold s2. cbn [m_reg]. unfold upd_reg, M. rewrite reg_eqb_same. reflexivity. }
  destruct ip.
  - exists s2. split; [|split; [exact R2|split; [exact M2|exact Hm]]].
    cbn [app].
    eapply sx_cons; [apply sx_I; reflexivity|]. apply sx_one. exact E2.
  - set (s3 := mkM (m_reg s2) (m_arr s2) (upd_nat (m_alloc s2) id false) (m_inst s2) (m_n s2) (m_script s2) (m_trace s2)).
    assert (E3 : exec_instr (IQ QFree Q0) s2 = Some s3).
    { cbn [exec_instr].
      assert (X : qid s2 Q0 = Some id).
      { unfold qid, s2. cbn [m_reg m_alloc]. unfold upd_reg.
        replace (reg_eqb Q0 (M m)) with false by reflexivity.
        unfold s1. rewrite m_reg_set_same, zidx_of_nat. cbn [set_reg m_alloc]. rewrite Ha. reflexivity. }
      rewrite X. reflexivity. }
    exists s3. split; [|split; [|split; [exact M2|exact Hm]]].
    + cbn [app].
      eapply sx_cons; [apply sx_I; reflexivity|]. eapply sx_cons; [apply sx_I; exact E2|]. apply sx_one. exact E3.
    + apply (Rel_consume L st _ s2 q id I R2 Eq).
Qed.

Lemma low_meas_rel_st : forall L q ip keep st m c st1 e sg,
  low_meas q ip keep st = Ok (m, c, st1) ->
  Rel L (if ip then st else deactivate q st) e sg -> Rel L st1 e sg.
Proof.
  intros L q ip keep st m c st1 e sg H HR.
  destruct (low_meas_facts _ _ _ _ _ _ _ H) as (id & _ & _ & Q1 & _ & _ & R1 & L1 & _).
  eapply Rel_st; [exact HR| | |].
  - rewrite Q1. destruct ip; reflexivity.
  - intros v r Hv. rewrite L1 in Hv. destruct ip; exact Hv.
  - intros r m' Hr. rewrite R1 in Hr. destruct ip; exact Hr.
Qed.

Lemma low_ix_st : forall ix st st1 p, low_ix ix st = Ok p -> l_lv st1 = l_lv st -> low_ix ix st1 = Ok p.
Proof. intros ix st st1 p H E. destruct ix; cbn in *; [exact H|]. rewrite E. exact H. Qed.

Lemma sim_measfut : forall q ip a ix, sim_of (SMeasFut q ip a ix).
Proof.
  intros q ip a ix L st c st' e e' sg H I Hev HR. cbn [lower_stmt] in H.
  destruct (low_ix ix st) as [p|] eqn:Hix; cbn [bind] in H; [|discriminate].
  destruct (low_meas q ip false st) as [[[m c0] st1]|] eqn:Em; cbn [bind] in H; [|discriminate]. inv_ok H.
  cbn [eval_stmt] in Hev. destruct (ev_measure q ip e) as [[o e1]|] eqn:Ee; [|discriminate].
  destruct (meas_core _ _ _ _ _ _ _ _ _ _ _ _ Em I Ee HR) as (sg1 & X1 & R1 & M1 & _).
  apply (low_meas_rel_st _ _ _ _ _ _ _ _ _ _ Em) in R1.
  assert (Hix1 : low_ix ix st' = Ok p).
  { eapply low_ix_st; [exact Hix|]. destruct (low_meas_facts _ _ _ _ _ _ _ Em) as (id & _ & _ & _ & _ & _ & _ & L1 & _). exact L1. }
  destruct (Rel_store _ _ _ _ _ _ _ _ (PReg (M m)) _ Hix1 Hev R1 M1) as (sg2 & E2 & R2 & _).
  exists sg2. split; [|exact R2]. eapply sx_app; [exact X1|apply sx_one; exact E2].
Qed.

Lemma sim_measnew : forall q ip a, sim_of (SMeasNew q ip a).
Proof.
  intros q ip a L st c st' e e' sg H I Hev HR. cbn [lower_stmt] in H.
  destruct (declare a 1 None st) as [st0|] eqn:Ed; cbn [bind] in H; [|discriminate].
  destruct (low_meas q ip false st0) as [[[m c0] st1]|] eqn:Em; cbn [bind] in H; [|discriminate]. inv_ok H.
  cbn [eval_stmt] in Hev. destruct (alookup a (e_arr e)) as [[|x [|y l]]|]; try discriminate.
  destruct (ev_measure q ip e) as [[o e1]|] eqn:Ee; [|discriminate].
  destruct (declare_facts _ _ _ _ _ Ed) as (_ & _ & _ & _ & A0 & M0 & Q0' & T0 & F0 & V0).
  destruct (Inv_declare _ _ _ _ _ Ed I) as [I0 _].
  assert (R0 : Rel L st0 e sg) by (eapply Rel_st; [exact HR| | |]; intros; congruence).
  destruct (meas_core _ _ _ _ _ _ _ _ _ _ _ _ Em I0 Ee R0) as (sg1 & X1 & R1 & M1 & _).
  apply (low_meas_rel_st _ _ _ _ _ _ _ _ _ _ Em) in R1.
  destruct (Rel_store _ a (IxC 0) st' (PImm 0%Z) _ _ _ (PReg (M m)) _ eq_refl Hev R1 M1) as (sg2 & E2 & R2 & _).
  exists sg2. split; [|exact R2]. eapply sx_app; [exact X1|apply sx_one; exact E2].
Qed.

Lemma sim_measreg : forall q ip r, sim_of (SMeasReg q ip r).
Proof.
  intros q ip r L st c st' e e' sg H I Hev HR. cbn [lower_stmt] in H.
  destruct (alook r (l_rf st)) eqn:Er; [discriminate|].
  destruct (low_meas q ip true st) as [[[m c0] st1]|] eqn:Em; cbn [bind] in H; [|discriminate]. inv_ok H.
  cbn [eval_stmt] in Hev. destruct (ev_measure q ip e) as [[o e1]|] eqn:Ee; [|discriminate]. inv_ok Hev.
  destruct (meas_core _ _ _ _ _ _ _ _ _ _ _ _ Em I Ee HR) as (sg1 & X1 & R1 & M1 & Hm).
  apply (low_meas_rel_st _ _ _ _ _ _ _ _ _ _ Em) in R1.
  exists sg1. split; [exact X1|].
  destruct (low_meas_facts _ _ _ _ _ _ _ Em) as (id & _ & _ & _ & _ & _ & RF1 & _).
  destruct R1 as [A B C D E F G HH II J K RD1 RD2]. constructor; cbn; try assumption.
  - intros r' m' Hr z Hz. destruct (Nat.eqb r' r) eqn:Eq.
    + apply Nat.eqb_eq in Eq. subst. inv_ok Hr. rewrite alookup_aset_same in Hz. inv_ok Hz. exact M1.
    + apply Nat.eqb_neq in Eq. rewrite alookup_aset_other in Hz by exact Eq. eapply G; eauto.
  - intros r' m' Hr. destruct (Nat.eqb r' r) eqn:Eq.
    + apply Nat.eqb_eq in Eq. subst. rewrite alookup_aset_same. discriminate.
    + apply Nat.eqb_neq in Eq. rewrite alookup_aset_other by exact Eq. eapply RD1; eauto.
Qed.

Lemma sim_newarray : forall a n init, sim_of (SNewArray a n init).
Proof.
  intros a n init L st c st' e e' sg H I Hev HR. cbn [lower_stmt] in H.
  destruct (Nat.eqb _ 0); [discriminate|].
  destruct (declare a _ init st) as [st1|] eqn:Ed; cbn [bind] in H; [|discriminate]. inv_ok H.
  cbn [eval_stmt] in Hev. destruct (alookup a (e_arr e)); [|discriminate].
  destruct (Nat.eqb _ _); [|discriminate]. inv_ok Hev.
  exists sg. split; [apply sx_nil|].
  destruct (declare_facts _ _ _ _ _ Ed) as (_ & _ & _ & _ & A0 & M0 & Q0' & T0 & F0 & V0).
  eapply Rel_st; [exact HR| | |]; intros; congruence.
Qed.

(* ------------------------------------------------------------------ add *)
Lemma exec_instrs_app : forall a b s s1 s2,
  exec_instrs a s = Some s1 -> exec_instrs b s1 = Some s2 -> exec_instrs (a ++ b) s = Some s2.
Proof.
  induction a as [|i a IH]; intros b s s1 s2 H1 H2; cbn in *.
  - inversion H1; subst. exact H2.
  - destruct (exec_instr i s); [|discriminate]. eapply IH; eauto.
Qed.

Lemma exec_add : forall s d y m v w z,
  m_reg s d = Some v -> rop_val s y = Some w -> ev_sum v w m = Some z ->
  exec_instr (add_instr d d y m) s = Some (set_reg s d z).
Proof.
  intros s d y m v w z Hv Hw Hs. unfold ev_sum in Hs. destruct m as [m|]; cbn [add_instr exec_instr]; rewrite Hv, Hw.
  - destruct (m <=? 0)%Z; inversion Hs; reflexivity.
  - inversion Hs; reflexivity.
Qed.

Lemma held_temp_fresh : forall s1 s2 ts t, held s1 s2 ts -> nth_error (l_act s1) t = Some true ->
  forall t', In t' ts -> Rg BR t <> Rg BR t'.
Proof.
  intros s1 s2 ts t [[-> _]|(t2 & -> & Ht)] Hact t' Hin; [destruct Hin|].
  destruct Hin as [<-|[]]. apply take_facts in Ht. destruct Ht as (Hf & _).
  intro X. inversion X; subst. congruence.
Qed.

Lemma sim_futadd : forall a ix o m, sim_of (SFutAdd a ix o m).
Proof.
  intros a ix o m L st c st' e e' sg H I Hev HR. cbn [lower_stmt] in H.
  destruct (low_ix ix st) as [p|] eqn:Hix; cbn [bind] in H; [|discriminate].
  destruct (take st) as [[t s1]|] eqn:Ht; cbn [bind] in H; [|discriminate].
  destruct (low_src o s1) as [[[[lo y] ts] s2]|] eqn:Hs; cbn [bind] in H; [|discriminate].
  match type of H with Ok (?cc, ?X) = _ => assert (Ec : c = cc) by (inversion H; reflexivity);
                                           assert (Es : st' = X) by (inversion H; reflexivity) end.
  clear H. cbn [eval_stmt] in Hev.
  destruct (ev_entry a ix e) as [v|] eqn:Ev; [|discriminate].
  destruct (ev_src o e) as [w|] eqn:Ew; [|discriminate].
  destruct (ev_sum v w m) as [z|] eqn:Ez; [|discriminate].
  assert (Tf := take_facts _ _ _ Ht). destruct Tf as (Hfree & Hact1 & _ & Lv1 & Rf1 & _).
  assert (Ut : untracked st (Rg BR t)) by (apply untracked_free; assumption).
  (* load self *)
  assert (E1 := load_entry _ _ _ _ _ _ _ _ (Rg BR t) Hix Ev HR).
  assert (R1 : Rel L st e (set_reg sg (Rg BR t) v)) by (apply Rel_set_reg; assumption).
  (* other operand *)
  assert (I1 := Inv_take _ _ _ Ht I).
  destruct (src_sim L o s1 st lo y ts s2 e _ w Hs Ew R1 I1 Lv1 Rf1 eq_refl I) as (sg2 & E2 & R2 & Y2 & K2 & A2).
  { intros t' Hf'. apply untracked_free; [exact I|]. rewrite Hact1 in Hf'. eapply free_after_take; eauto. }
  assert (Hh := low_src_held _ _ _ _ _ _ Hs).
  assert (T2 : m_reg sg2 (Rg BR t) = Some v).
  { rewrite K2; [apply m_reg_set_same|]. intros t' Hin.
    eapply held_temp_fresh; eauto. rewrite Hact1. apply nth_set_nth_same. apply nth_error_Some. congruence. }
  (* add, store *)
  assert (E3 := exec_add sg2 (Rg BR t) y m v w z T2 Y2 Ez).
  assert (R3 : Rel L st e (set_reg sg2 (Rg BR t) z)) by (apply Rel_set_reg; assumption).
  destruct (Rel_store _ _ _ _ _ _ _ _ (PReg (Rg BR t)) z Hix Hev R3 (m_reg_set_same _ _ _)) as (sg4 & E4 & R4 & _).
  exists sg4. split.
  - rewrite Ec. apply sx_instrs. unfold Lower.R.
    eapply exec_instrs_app; [cbn [exec_instrs]; rewrite E1; reflexivity|].
    eapply exec_instrs_app; [exact E2|]. cbn [exec_instrs]. rewrite E3, E4. reflexivity.
  - eapply Rel_sba; [exact R4|]. rewrite Es.
    eapply sba_trans; [eapply sba_take; eauto|]. eapply sba_trans; [eapply sba_held; eauto|].
    eapply sba_trans; [apply sba_release|apply sba_release_all].
Qed.

(* an entry addressed through another entry *)
Lemma take_release_act : forall st t s1, take st = Ok (t, s1) -> l_act (release t s1) = l_act st.
Proof.
  intros st t s1 H. destruct (take_facts _ _ _ H) as (Hf & Ha & _). unfold release. cbn [l_act with_act].
  rewrite Ha. apply set_nth_undo. exact Hf.
Qed.

Lemma load_at : forall L a k st e s v g z p,
  ev_entry a (IxC k) e = Some v -> Rel L st e s -> rop_val s p = Some z -> (z <? 0)%Z = false -> k = Z.to_nat z ->
  exec_instr (ILoad g a p) s = Some (set_reg s g v).
Proof.
  intros L a k st e s v g z p Hv R Hp Hz ->.
  destruct (entry_val L a (IxC (Z.to_nat z)) st _ e s v eq_refl Hv R) as (l & k' & A & B & C).
  cbn [rop_val] in B. rewrite zidx_of_nat in B. inversion B; subst k'.
  cbn [exec_instr]. rewrite A, Hp. cbn [zidx]. rewrite Hz, C. reflexivity.
Qed.

Lemma sim_futaddx : forall a b n o m, sim_of (SFutAddX a b n o m).
Proof.
  intros a b n o m L st c st' e e' sg H I Hev HR. cbn [lower_stmt] in H.
  destruct (take st) as [[t s1]|] eqn:Ht; cbn [bind] in H; [|discriminate].
  destruct (take s1) as [[ti s1i]|] eqn:Hti; cbn [bind] in H; [|discriminate].
  destruct (low_src o (release ti s1i)) as [[[[lo y] ts] s2]|] eqn:Hs; cbn [bind] in H; [|discriminate].
  match type of H with Ok (?cc, ?X) = _ => assert (Ec : c = cc) by (inversion H; reflexivity);
                                           assert (Es : st' = X) by (inversion H; reflexivity) end.
  clear H. cbn [eval_stmt] in Hev.
  destruct (ev_entry b (IxC n) e) as [z|] eqn:Eb; [|discriminate].
  destruct (z <? 0)%Z eqn:Hz; [discriminate|].
  destruct (ev_entry a (IxC (Z.to_nat z)) e) as [v|] eqn:Ev; [|discriminate].
  destruct (ev_src o e) as [w|] eqn:Ew; [|discriminate].
  destruct (ev_sum v w m) as [zs|] eqn:Ez; [|discriminate].
  assert (Tf := take_facts _ _ _ Ht). destruct Tf as (Hfree & Hact1 & _ & Lv1 & Rf1 & _).
  assert (Tfi := take_facts _ _ _ Hti). destruct Tfi as (Hfreei & Hacti & _ & Lvi & Rfi & _).
  assert (I1 := Inv_take _ _ _ Ht I).
  assert (Ea := take_release_act _ _ _ Hti).
  assert (Sr : sba s1 (release ti s1i)) by (eapply sba_trans; [eapply sba_take; eauto|apply sba_release]).
  assert (Ir : Inv (release ti s1i)) by (eapply Inv_sba; eauto).
  assert (Ut : untracked st (Rg BR t)) by (apply untracked_free; assumption).
  assert (Hfi0 : nth_error (l_act st) ti = Some false) by (rewrite Hact1 in Hfreei; eapply free_after_take; eauto).
  assert (Uti : untracked st (Rg BR ti)) by (apply untracked_free; assumption).
  assert (Hne : Rg BR t <> Rg BR ti).
  { intro X. inversion X; subst. rewrite Hact1 in Hfreei.
    rewrite nth_set_nth_same in Hfreei by (apply nth_error_Some; congruence). discriminate. }
  (* load the index, load self *)
  assert (E0 := load_entry L b (IxC n) st _ e sg z (Rg BR ti) eq_refl Eb HR).
  assert (R0 : Rel L st e (set_reg sg (Rg BR ti) z)) by (apply Rel_set_reg; assumption).
  assert (E1 := load_at L a _ st e _ v (Rg BR t) z (PReg (Rg BR ti)) Ev R0 (m_reg_set_same _ _ _) Hz eq_refl).
  set (sgB := set_reg (set_reg sg (Rg BR ti) z) (Rg BR t) v) in *.
  assert (R1 : Rel L st e sgB) by (apply Rel_set_reg; assumption).
  (* other operand *)
  destruct Sr as (_ & _ & _ & _ & SrF & SrV & _).
  destruct (src_sim L o (release ti s1i) st lo y ts s2 e sgB w Hs Ew R1 Ir) as (sg2 & E2 & R2 & Y2 & K2 & A2);
    [congruence|congruence|reflexivity|exact I| |].
  { intros t' Hf'. apply untracked_free; [exact I|]. rewrite Ea, Hact1 in Hf'. eapply free_after_take; eauto. }
  assert (Hh := low_src_held _ _ _ _ _ _ Hs).
  assert (T2 : m_reg sg2 (Rg BR t) = Some v).
  { rewrite K2; [apply m_reg_set_same|]. intros t' Hin.
    eapply held_temp_fresh; eauto. rewrite Ea, Hact1. apply nth_set_nth_same. apply nth_error_Some. congruence. }
  (* add, reload the index, store *)
  assert (E3 := exec_add sg2 (Rg BR t) y m v w zs T2 Y2 Ez).
  assert (R3 : Rel L st e (set_reg sg2 (Rg BR t) zs)) by (apply Rel_set_reg; assumption).
  assert (E4 := load_entry L b (IxC n) st _ e _ z (Rg BR ti) eq_refl Eb R3).
  set (sg4 := set_reg (set_reg sg2 (Rg BR t) zs) (Rg BR ti) z) in *.
  assert (R4 : Rel L st e sg4) by (apply Rel_set_reg; assumption).
  destruct (Rel_store_at L a (Z.to_nat z) st (PReg (Rg BR ti)) e e' sg4 (PReg (Rg BR t)) zs Hev R4) as (sg5 & E5 & R5 & _).
  { cbn [rop_val]. unfold sg4. rewrite m_reg_set_same. cbn [zidx]. rewrite Hz. reflexivity. }
  { cbn [rop_val]. unfold sg4. rewrite m_reg_set_other by exact Hne. apply m_reg_set_same. }
  exists sg5. split.
  - rewrite Ec. apply sx_instrs. unfold Lower.R.
    eapply exec_instrs_app; [cbn [exec_instrs]; rewrite E0; fold sgB; cbn [exec_instrs]; unfold sgB; rewrite E1; reflexivity|].
    eapply exec_instrs_app; [exact E2|]. cbn [exec_instrs]. rewrite E3, E4. fold sg4. rewrite E5. reflexivity.
  - eapply Rel_sba; [exact R5|]. rewrite Es.
    eapply sba_trans; [eapply sba_take; eauto|]. eapply sba_trans; [eapply sba_take; eauto|].
    eapply sba_trans; [apply sba_release|]. eapply sba_trans; [eapply sba_held; eauto|].
    eapply sba_trans; [apply sba_release|apply sba_release_all].
Qed.

Lemma sim_measfutx : forall q ip a b n, sim_of (SMeasFutX q ip a b n).
Proof.
  intros q ip a b n L st c st' e e' sg H I Hev HR. cbn [lower_stmt] in H.
  destruct (low_meas q ip false st) as [[[m c0] st1]|] eqn:Em; cbn [bind] in H; [|discriminate].
  destruct (take st1) as [[ti s1i]|] eqn:Hti; cbn [bind] in H; [|discriminate]. inv_ok H.
  cbn [eval_stmt] in Hev. destruct (ev_measure q ip e) as [[o e1]|] eqn:Ee; [|discriminate].
  destruct (ev_entry b (IxC n) e1) as [z|] eqn:Eb; [|discriminate].
  destruct (z <? 0)%Z eqn:Hz; [discriminate|].
  destruct (meas_core _ _ _ _ _ _ _ _ _ _ _ _ Em I Ee HR) as (sg1 & X1 & R1 & M1 & _).
  apply (low_meas_rel_st _ _ _ _ _ _ _ _ _ _ Em) in R1.
  destruct (low_meas_false_inv _ _ _ _ _ _ Em I) as [I1 _].
  assert (Tfi := take_facts _ _ _ Hti). destruct Tfi as (Hfreei & _).
  assert (Uti : untracked st1 (Rg BR ti)) by (apply untracked_free; assumption).
  assert (E0 := load_entry L b (IxC n) st1 _ e1 sg1 z (Rg BR ti) eq_refl Eb R1).
  assert (R0 : Rel L st1 e1 (set_reg sg1 (Rg BR ti) z)) by (apply Rel_set_reg; assumption).
  destruct (Rel_store_at L a (Z.to_nat z) st1 (PReg (Rg BR ti)) e1 e' _ (PReg (Rg BM m)) o Hev R0) as (sg2 & E2 & R2 & _).
  { cbn [rop_val]. rewrite m_reg_set_same. cbn [zidx]. rewrite Hz. reflexivity. }
  { cbn [rop_val]. rewrite m_reg_set_other by discriminate. exact M1. }
  exists sg2. split.
  - eapply sx_app; [exact X1|]. unfold Lower.R, Lower.M.
    change [XI (ILoad (Rg BR ti) b (PImm (Z.of_nat n))); XI (IStore (PReg (Rg BM m)) a (PReg (Rg BR ti)))]
      with (map XI [ILoad (Rg BR ti) b (PImm (Z.of_nat n)); IStore (PReg (Rg BM m)) a (PReg (Rg BR ti))]).
    apply sx_instrs. cbn [exec_instrs]. rewrite E0, E2. reflexivity.
  - eapply Rel_sba; [exact R2|]. eapply sba_trans; [eapply sba_take; eauto|apply sba_release].
Qed.

Lemma sim_regadd : forall r o m, sim_of (SRegAdd r o m).
Proof.
  intros r o m L st c st' e e' sg H I Hev HR. cbn [lower_stmt] in H.
  unfold rf_lookup in H. destruct (alook r (l_rf st)) as [[[] k]|] eqn:Er; try discriminate.
  destruct (low_src o st) as [[[[lo y] ts] s1]|] eqn:Hs; cbn [bind] in H; [|discriminate].
  match type of H with Ok (?cc, ?X) = _ => assert (Ec : c = cc) by (inversion H; reflexivity);
                                           assert (Es : st' = X) by (inversion H; reflexivity) end.
  clear H. cbn [eval_stmt] in Hev.
  destruct (alookup r (e_reg e)) as [v|] eqn:Ev; [|discriminate].
  destruct (ev_src o e) as [w|] eqn:Ew; [|discriminate].
  destruct (ev_sum v w m) as [z|] eqn:Ez; [|discriminate]. inv_ok Hev.
  destruct (src_sim L o st st lo y ts s1 e sg w Hs Ew HR I eq_refl eq_refl eq_refl I) as (sg2 & E2 & R2 & Y2 & K2 & A2).
  { intros t' Hf'. apply untracked_free; assumption. }
  assert (V2 : m_reg sg2 (Rg BM k) = Some v).
  { rewrite K2; [eapply r_rf; eauto|]. intros; discriminate. }
  assert (E3 := exec_add sg2 (Rg BM k) y m v w z V2 Y2 Ez).
  exists (set_reg sg2 (Rg BM k) z). split.
  - apply sx_instrs. unfold Lower.M. eapply exec_instrs_app; [exact E2|]. cbn [exec_instrs]. rewrite E3. reflexivity.
  - assert (Hh := low_src_held _ _ _ _ _ _ Hs).
    eapply Rel_sba; [|eapply sba_trans; [eapply sba_held; eauto|apply sba_release_all]].
    destruct R2 as [A B C D E F G HH II J K RD1 RD2]. constructor; try (cbn; assumption).
    + cbn [e_reg with_reg l_rf]. intros r' m' Hr z' Hz. destruct (Nat.eq_dec r' r) as [->|Hne].
      * rewrite Er in Hr. inv_ok Hr. rewrite alookup_aset_same in Hz. inv_ok Hz. apply m_reg_set_same.
      * rewrite alookup_aset_other in Hz by exact Hne.
        assert (Hm : m' <> k).
        { intro X. subst. apply Hne. eapply (i_rfinj _ I); eauto. }
        rewrite m_reg_set_other; [eapply G; eauto|]. intro X. inversion X. contradiction.
    + cbn [e_reg with_reg l_rf]. intros r' m' Hr. destruct (Nat.eq_dec r' r) as [->|Hne].
      * rewrite alookup_aset_same. discriminate.
      * rewrite alookup_aset_other by exact Hne. eapply RD1; eauto.
Qed.

(* ------------------------------------------------------------------ states that differ in one untracked register *)
Definition agree_but (g : reg) (s s' : mst) : Prop :=
  (forall g', g' <> g -> m_reg s' g' = m_reg s g') /\ (forall a, m_arr s' a = m_arr s a) /\
  (forall i, m_alloc s' i = m_alloc s i) /\ (forall i, m_inst s' i = m_inst s i) /\
  m_n s' = m_n s /\ m_script s' = m_script s /\ m_trace s' = m_trace s.

Lemma agree_refl : forall g s, agree_but g s s.
Proof. intros. unfold agree_but. repeat split; auto. Qed.
Lemma agree_trans : forall g a b c, agree_but g a b -> agree_but g b c -> agree_but g a c.
Proof.
  unfold agree_but. intros g a b c (A1 & A2 & A3 & A4 & A5 & A6 & A7) (B1 & B2 & B3 & B4 & B5 & B6 & B7).
  split; [intros; rewrite B1, A1; auto|]. split; [intros; rewrite B2, A2; auto|].
  split; [intros; rewrite B3, A3; auto|]. split; [intros; rewrite B4, A4; auto|].
  repeat split; congruence.
Qed.
Lemma agree_set : forall g s z, agree_but g s (set_reg s g z).
Proof. intros. unfold agree_but. repeat split; auto. intros. apply m_reg_set_other. assumption. Qed.
Lemma agree_sym : forall g a b, agree_but g a b -> agree_but g b a.
Proof.
  unfold agree_but. intros g a b (A1 & A2 & A3 & A4 & A5 & A6 & A7).
  split; [intros; symmetry; auto|]. split; [intros; symmetry; auto|].
  split; [intros; symmetry; auto|]. split; [intros; symmetry; auto|]. repeat split; congruence.
Qed.

Lemma Rel_agree : forall L st e s s' g, Rel L st e s -> untracked st g -> agree_but g s s' -> Rel L st e s'.
Proof.
  intros L st e s s' g [A B C D E F G H I J K RD1 RD2] [U1 U2] (A1 & A2 & A3 & A4 & A5 & A6 & A7).
  apply mkRel.
  - intro a. rewrite A2. apply A.
  - exact B.
  - intros q id Hq. destruct (C _ _ Hq) as [C1 C2]. rewrite A3, A4. auto.
  - exact D.
  - intros id Hn. rewrite A3. auto.
  - exact F.
  - intros r m Hr z Hz. rewrite A1; [eauto|]. intro X. symmetry in X. eapply U2; eauto.
  - intros v r Hv. destruct (H _ _ Hv) as (z & H1 & H2). exists z. split; [exact H1|].
    rewrite A1; [exact H2|]. intro X. symmetry in X. eapply U1; eauto.
  - congruence.
  - congruence.
  - congruence.
  - exact RD1.
  - exact RD2.
Qed.

(* ------------------------------------------------------------------ loop variables *)
Lemma Rel_bind : forall L st e s v r i,
  Rel L st e s -> alook v (l_lv st) = None -> m_reg s (Rg BR r) = Some i ->
  Rel L (bind_lvr v r st) (bind_lv v i (drop_lv v e)) s.
Proof.
  intros L st e s v r i [A B C D E F G H I J K RD1 RD2] Hv Hr. constructor; cbn; try assumption.
  intros v' r' Hv'. destruct (Nat.eqb v' v) eqn:Ev.
  - inversion Hv'; subst. exists i. split; [reflexivity|exact Hr].
  - destruct (H _ _ Hv') as (z & H1 & H2). exists z. split; [|exact H2].
    apply Nat.eqb_neq in Ev. rewrite alookup_aremove_other by exact Ev. exact H1.
Qed.

Lemma Rel_drop : forall L st e s v, Rel L st e s -> alook v (l_lv st) = None -> Rel L st (drop_lv v e) s.
Proof.
  intros L st e s v [A B C D E F G H I J K RD1 RD2] Hv. constructor; cbn; try assumption.
  intros v' r' Hv'. destruct (H _ _ Hv') as (z & H1 & H2). exists z. split; [|exact H2].
  rewrite alookup_aremove_other; [exact H1|]. intro X. subst. congruence.
Qed.

(* ------------------------------------------------------------------ rounds of a counted loop *)
Section Rounds.
  Variable rg : reg.
  Variable cbody : list sir.
  Variable f : Z -> est -> option est.
  Variables Pre Post : est -> mst -> Prop.
  Hypothesis body_step : forall i e sg e1,
    Pre e sg -> m_reg sg rg = Some i -> f i e = Some e1 ->
    exists sg1, sx cbody sg sg1 /\ Post e1 sg1 /\ m_reg sg1 rg = Some i.
  Hypothesis post_pre : forall e sg z, Post e sg -> Pre e (set_reg sg rg z).

  Lemma rounds : forall n i st e sg e' b,
    st <> 0%Z -> b = (i + st * Z.of_nat (S n))%Z -> Pre e sg -> m_reg sg rg = Some i ->
    iter_loop f (S n) i st e = Some e' ->
    exists sg1, sxloop rg b st cbody sg (set_reg sg1 rg b) /\ Post e' sg1.
  Proof.
    induction n as [|n IH]; intros i st e sg e' b Hst Hb HP Hr Hit; cbn [iter_loop] in Hit.
    - destruct (f i e) as [e1|] eqn:Hf; [|discriminate]. inversion Hit; subst. clear Hit.
      destruct (body_step _ _ _ _ HP Hr Hf) as (sg1 & X1 & P1 & R1).
      exists sg1. split; [|exact P1].
      eapply sxl_step with (v := i) (v1 := i); eauto; [lia|].
      replace (i + st * Z.of_nat 1)%Z with (i + st)%Z by lia.
      apply sxl_done. apply m_reg_set_same.
    - destruct (f i e) as [e1|] eqn:Hf; [|discriminate].
      destruct (body_step _ _ _ _ HP Hr Hf) as (sg1 & X1 & P1 & R1).
      destruct (IH (i + st)%Z st e1 (set_reg sg1 rg (i + st)%Z) e' b Hst) as (sg2 & X2 & P2); auto.
      + lia.
      + apply m_reg_set_same.
      + exists sg2. split; [|exact P2].
        eapply sxl_step with (v := i) (v1 := i); eauto.
        intro E. assert (Hz : (st * Z.of_nat (S (S n)) = 0)%Z) by lia. apply Z.mul_eq_0 in Hz. lia.
  Qed.
End Rounds.

(* rounds whose body emitted no code: the machine does not move *)
Section RoundsNoCode.
  Variable f : Z -> est -> option est.
  Variables Pre Post : est -> mst -> Prop.
  Variable rg : reg.
  Hypothesis body_step0 : forall i e sg e1, Pre e sg -> f i e = Some e1 -> exists sgv, Post e1 sgv /\ agree_but rg sg sgv.
  Hypothesis post_pre0 : forall e sg, Post e sg -> Pre e sg.

  Lemma rounds0 : forall n i st e sg e',
    Pre e sg -> iter_loop f (S n) i st e = Some e' -> exists sgv, Post e' sgv /\ agree_but rg sg sgv.
  Proof.
    induction n as [|n IH]; intros i st e sg e' HP Hit; cbn [iter_loop] in Hit.
    - destruct (f i e) as [e1|] eqn:Hf; [|discriminate]. inversion Hit; subst. eapply body_step0; eauto.
    - destruct (f i e) as [e1|] eqn:Hf; [|discriminate].
      destruct (body_step0 _ _ _ _ HP Hf) as (sg1 & P1 & A1).
      destruct (IH _ _ _ _ _ (post_pre0 _ _ P1) Hit) as (sg2 & P2 & A2).
      exists sg2. split; [exact P2|]. eapply agree_trans; eauto.
  Qed.
End RoundsNoCode.

(* ------------------------------------------------------------------ the induction hypotheses *)
Definition sim_stmt (s : stmt) : Prop :=
  wfs s = true -> forall L st c st' e e' sg,
  lower_stmt true s st = Ok (c, st') -> Inv st -> sub (l_len st') L ->
  eval_stmt s e = Some e' -> Rel L st e sg ->
  exists sg', sx c sg sg' /\ Rel L st' e' sg'.
Definition sim_block (b : block) : Prop :=
  bwfs b = true -> forall L st c st' e e' sg,
  lower_block true b st = Ok (c, st') -> Inv st -> sub (l_len st') L ->
  eval_block b e = Some e' -> Rel L st e sg ->
  exists sg', sx c sg sg' /\ Rel L st' e' sg'.

Lemma Inv_held : forall s1 s2 ts, held s1 s2 ts -> Inv s1 -> Inv s2.
Proof. intros s1 s2 ts [[_ ->]|(t & _ & Ht)] I; [exact I|eapply Inv_take; eauto]. Qed.
Lemma held_free : forall s1 s2 ts t, held s1 s2 ts ->
  nth_error (l_act s2) t = Some false -> nth_error (l_act s1) t = Some false.
Proof.
  intros s1 s2 ts t [[_ ->]|(t2 & _ & Ht)] H; [exact H|].
  apply take_facts in Ht. destruct Ht as (_ & Ha & _). rewrite Ha in H. eapply free_after_take; eauto.
Qed.
Lemma held_ts_free : forall s1 s2 ts t, held s1 s2 ts -> In t ts -> nth_error (l_act s1) t = Some false.
Proof.
  intros s1 s2 ts t [[-> _]|(t2 & -> & Ht)] Hin; [destruct Hin|].
  destruct Hin as [<-|[]]. apply take_facts in Ht. tauto.
Qed.

Lemma rop_keep : forall s s' px a ts st1,
  rop_val s px = Some a ->
  (forall g, (forall t, In t ts -> g <> Rg BR t) -> m_reg s' g = m_reg s g) ->
  (forall t, px = PReg (Rg BR t) -> nth_error (l_act st1) t = Some true) ->
  (forall t, In t ts -> nth_error (l_act st1) t = Some false) ->
  rop_val s' px = Some a.
Proof.
  intros s s' px a ts st1 Hv K Act Fr. destruct px as [z|[b i]]; [exact Hv|].
  cbn [rop_val] in *. rewrite K; [exact Hv|]. intros t Hin X. inversion X; subst.
  specialize (Fr t Hin). rewrite (Act t eq_refl) in Fr. discriminate.
Qed.

Lemma if_finish : forall L body cbody st s1 stF pre c px py e e' sg sgp bv,
  sim_block body -> bwfs body = true -> wf_body body = true -> bnoreg body = true ->
  lower_block true body st = Ok (cbody, s1) -> Inv st -> sub (l_len s1) L ->
  sba s1 stF ->
  exec_instrs pre sg = Some sgp -> Rel L st e sgp -> holds_at c px py sgp = Some bv ->
  (if bv then eval_block body e else Some e) = Some e' ->
  exists sg', sx [XIf pre c px py cbody] sg sg' /\ Rel L stF e' sg'.
Proof.
  intros L body cbody st s1 stF pre c px py e e' sg sgp bv IH Hwf Hwb Hnr Hb I HL S Ep Rp Hh Hev.
  destruct (proj2 wfs_plain body Hwf) as [Hp He].
  destruct (proj2 lower_facts body Hp He _ _ _ Hb I) as [I1 X1].
  assert (Q1 := body_q_restored _ _ _ _ Hp He Hwb Hb I).
  destruct (proj2 noreg_rf body Hnr Hp He _ _ _ Hb) as [RF1 _].
  destruct bv.
  - destruct (IH Hwf L _ _ _ _ _ _ Hb I HL Hev Rp) as (sg' & X & R').
    exists sg'. split; [|eapply Rel_sba; eauto].
    eapply sx_cons; [eapply sx_If_true; eauto|apply sx_nil].
  - inversion Hev; subst. exists sgp. split.
    + eapply sx_cons; [eapply sx_If_false; eauto|apply sx_nil].
    + eapply Rel_sba; [|exact S]. eapply Rel_st; [exact Rp|exact Q1| |].
      * intros v r Hv. rewrite (x_lv _ _ X1) in Hv. exact Hv.
      * intros r m Hr. rewrite RF1 in Hr. exact Hr.
Qed.

Lemma sim_if : forall c cb x y body, sim_block body -> sim_stmt (SIf c cb x y body).
Proof.
  intros c cb x y body IH Hw L st code st' e e' sg H I HL Hev HR.
  cbn [wfs] in Hw. apply andb_prop in Hw. destruct Hw as [Hw Hwf]. apply andb_prop in Hw. destruct Hw as [Hwb Hnr].
  destruct (proj2 wfs_plain body Hwf) as [Hp He].
  cbn [lower_stmt] in H.
  destruct (lower_block true body st) as [[cbody s1]|] eqn:Hb; cbn [bind] in H; [|discriminate].
  destruct (proj2 lower_facts body Hp He _ _ _ Hb I) as [I1 X1].
  assert (Q1 := body_q_restored _ _ _ _ Hp He Hwb Hb I).
  destruct (proj2 noreg_rf body Hnr Hp He _ _ _ Hb) as [RF1 _].
  cbn [eval_stmt] in Hev.
  destruct (ev_cval x e) as [a|] eqn:Ea; [|discriminate].
  destruct (match c with CEz | CNz => Some 0%Z | _ => ev_cval y e end) as [b|] eqn:Eb; [|discriminate].
  destruct cbody as [|c0 cr].
  - (* nothing emitted *) cbn [is_nil] in H. inv_ok H.
    destruct (cond_true c a b).
    + eapply IH; eauto.
    + inv_ok Hev. exists sg. split; [apply sx_nil|].
      eapply Rel_st; [exact HR|exact Q1| |].
      * intros v r Hv. rewrite (x_lv _ _ X1) in Hv. exact Hv.
      * intros r m Hr. rewrite RF1 in Hr. exact Hr.
  - cbn [is_nil] in H.
    destruct (low_cval x s1) as [[[[lx px] tx] s2]|] eqn:Hx; cbn [bind] in H; [|discriminate].
    assert (Hhx := low_cval_held _ _ _ _ _ _ Hx).
    destruct (cval_sim L x s1 st lx px tx s2 e sg a Hx Ea HR I1 (x_lv _ _ X1) RF1) as (sg1 & E1 & R1 & V1 & K1 & Act1).
    { intros t Hf. apply untracked_free; [exact I|]. rewrite <- (x_act _ _ X1). exact Hf. }
    assert (Sx : sba s1 s2) by (eapply sba_held; eauto).
    assert (Unary : forall cc, (cc = CEz \/ cc = CNz) -> c = cc ->
              Ok ([XIf lx cc px (PImm 0%Z) (c0 :: cr)], release_all tx s2) = Ok (code, st') ->
              exists sg', sx code sg sg' /\ Rel L st' e' sg').
    { intros cc Hcc -> Hk. inv_ok Hk.
      assert (Sf : sba s1 (release_all tx s2)) by (eapply sba_trans; [exact Sx|apply sba_release_all]).
      assert (b = 0%Z) by (destruct Hcc as [->| ->]; inversion Eb; reflexivity). subst b.
      eapply if_finish with (s1 := s1) (sgp := sg1) (bv := cond_true cc a 0%Z); eauto.
      - destruct Sf as (_ & _ & _ & _ & _ & _ & Le & _). rewrite <- Le. exact HL.
      - unfold holds_at. rewrite V1. rewrite cond_true_holds. destruct Hcc as [->| ->]; reflexivity. }
    assert (Binary : forall cc, cc <> CEz -> cc <> CNz -> c = cc ->
              (let* (ly, py, ty, st3) := low_cval y s2 in
               Ok ([XIf (lx ++ ly) cc px py (c0 :: cr)], release_all (tx ++ ty) st3)) = Ok (code, st') ->
              exists sg', sx code sg sg' /\ Rel L st' e' sg').
    { intros cc N1 N2 -> Hk.
      destruct (low_cval y s2) as [[[[ly py] ty] s3]|] eqn:Hy; cbn [bind] in Hk; [|discriminate]. inv_ok Hk.
      assert (Hhy := low_cval_held _ _ _ _ _ _ Hy).
      assert (Eb' : ev_cval y e = Some b) by (destruct cc; try exact Eb; congruence).
      assert (Sx' := Sx). destruct Sx' as (SxM & SxQ & SxN & SxR & SxF & SxV & SxL & SxD).
      destruct (cval_sim L y s2 st ly py ty s3 e sg1 b Hy Eb' R1 (Inv_held _ _ _ Hhx I1)) as (sg2 & E2 & R2 & V2 & K2 & _).
      { rewrite SxV. exact (x_lv _ _ X1). }
      { rewrite SxF. exact RF1. }
      { intros t Hf. apply untracked_free; [exact I|]. rewrite <- (x_act _ _ X1). eapply held_free; eauto. }
      assert (V1' : rop_val sg2 px = Some a).
      { eapply rop_keep with (st1 := s2); eauto. intros t Hin. eapply held_ts_free; eauto. }
      assert (Sf : sba s1 (release_all (tx ++ ty) s3)).
      { eapply sba_trans; [exact Sx|].
        eapply sba_trans; [exact (sba_held _ _ _ Hhy)|apply sba_release_all]. }
      eapply if_finish with (s1 := s1) (sgp := sg2) (bv := cond_true cc a b); eauto.
      - destruct Sf as (_ & _ & _ & _ & _ & _ & Le & _). rewrite <- Le. exact HL.
      - eapply exec_instrs_app; eauto.
      - unfold holds_at. rewrite V1'. rewrite cond_true_holds. destruct cc; try rewrite V2; try reflexivity; congruence. }
    destruct c.
    + apply (Binary CEq); [discriminate|discriminate|reflexivity|exact H].
    + apply (Binary CNe); [discriminate|discriminate|reflexivity|exact H].
    + apply (Binary CLt); [discriminate|discriminate|reflexivity|exact H].
    + apply (Binary CGe); [discriminate|discriminate|reflexivity|exact H].
    + apply (Unary CEz); [left; reflexivity|reflexivity|exact H].
    + apply (Unary CNz); [right; reflexivity|reflexivity|exact H].
Qed.

(* ------------------------------------------------------------------ counted loops *)
Lemma untracked_loopreg : forall st r, Inv st -> nth_error (l_act st) r = Some false -> untracked st (Rg BR r).
Proof. intros. apply untracked_free; assumption. Qed.

Lemma loop_core : forall o L st v r s1 body cbody s2 a b step n e e1 sg,
  sim_block body -> bwfs body = true -> wf_body body = true -> (n = 0 -> bnoreg body = true) ->
  alook v (l_lv st) = None -> take_at o st = Ok (r, s1) ->
  lower_block true body (bind_lvr v r s1) = Ok (cbody, s2) -> Inv st -> sub (l_len s2) L ->
  step <> 0%Z -> b = (a + step * Z.of_nat n)%Z ->
  iter_loop (fun i e' => eval_block body (bind_lv v i (drop_lv v e'))) n a step e = Some e1 ->
  Rel L st e sg ->
  exists sg', sx (if is_nil cbody then [] else [XLoop (Rg BR r) a b step cbody]) sg sg' /\
              Rel L (release r (with_lvs s2 (l_lv st))) (drop_lv v e1) sg'.
Proof.
  intros o L st v r s1 body cbody s2 a b step n e e1 sg IH Hwf Hwb Hn0 Hv Ht Hb I HL Hst Hbd Hit HR.
  destruct (proj2 wfs_plain body Hwf) as [Hp He].
  assert (Tf := take_at_facts _ _ _ _ Ht). destruct Tf as (Hfree & Hact1 & _ & Lv1 & Rf1 & Q1 & _).
  assert (Ib := Inv_bind_loop_at _ _ _ _ v Ht I).
  destruct (proj2 lower_facts body Hp He _ _ _ Hb Ib) as [I2 X2].
  assert (Q2 := body_q_restored _ _ _ _ Hp He Hwb Hb Ib). cbn [bind_lvr with_lvs l_q] in Q2.
  assert (Lv2 : l_lv s2 = (v, r) :: l_lv st) by (rewrite (x_lv _ _ X2); cbn; rewrite Lv1; reflexivity).
  assert (Ur1 : untracked s1 (Rg BR r)).
  { split; [|intros; discriminate]. intros v' r' Hv' X. inversion X; subst. rewrite Lv1 in Hv'.
    rewrite (i_lv _ I _ _ Hv') in Hfree. discriminate. }
  set (st3 := release r (with_lvs s2 (l_lv st))).
  assert (I3X : Inv st3 /\ Ext st st3) by (eapply close_loop_at; eauto). destruct I3X as [I3 X3].
  assert (Ur3 : untracked st3 (Rg BR r)).
  { apply untracked_free; [exact I3|]. rewrite (x_act _ _ X3). exact Hfree. }
  (* the relation between rounds and after a body *)
  assert (R21 : forall e0 s0, Rel L s2 e0 s0 -> Rel L s1 e0 s0).
  { intros e0 s0 R0. eapply Rel_st; [exact R0|congruence| |].
    - intros v' r' Hv'. rewrite Lv2. cbn. rewrite Lv1 in Hv'.
      destruct (Nat.eqb v' v) eqn:Ev; [apply Nat.eqb_eq in Ev; subst; congruence|exact Hv'].
    - intros r' m Hr. apply (x_rf _ _ X2). cbn. exact Hr. }
  assert (R23 : forall e0 s0, Rel L s2 e0 s0 -> Rel L st3 (drop_lv v e0) s0).
  { intros e0 s0 R0. apply Rel_drop; [|exact Hv]. eapply Rel_st; [exact R0|reflexivity| |].
    - intros v' r' Hv'. cbn in Hv'. rewrite Lv2. cbn.
      destruct (Nat.eqb v' v) eqn:Ev; [apply Nat.eqb_eq in Ev; subst; congruence|exact Hv'].
    - intros r' m Hr. exact Hr. }
  assert (Hfr : forall s0 s0', sx cbody s0 s0' -> m_reg s0' (Rg BR r) = m_reg s0 (Rg BR r)).
  { intros s0 s0' Hsx. apply (proj1 sx_frame _ _ _ Hsx). intro Hin.
    assert (F := proj2 (lower_frame_all true) body Hp _ _ _ Hb r Hin). unfold free_at in F.
    cbn [bind_lvr with_lvs l_act] in F. rewrite Hact1 in F.
    rewrite nth_set_nth_same in F by (apply nth_error_Some; congruence). discriminate. }
  assert (Step : forall i e0 s0 e2, Rel L s1 e0 s0 -> m_reg s0 (Rg BR r) = Some i ->
            eval_block body (bind_lv v i (drop_lv v e0)) = Some e2 ->
            exists s2', sx cbody s0 s2' /\ Rel L s2 e2 s2' /\ m_reg s2' (Rg BR r) = Some i).
  { intros i e0 s0 e2 R0 Hr Hev.
    assert (Rb : Rel L (bind_lvr v r s1) (bind_lv v i (drop_lv v e0)) s0).
    { apply Rel_bind; [exact R0|congruence|exact Hr]. }
    destruct (IH Hwf L _ _ _ _ _ _ Hb Ib HL Hev Rb) as (s2' & X & R2').
    exists s2'. split; [exact X|]. split; [exact R2'|]. rewrite (Hfr _ _ X). exact Hr. }
  assert (R01 : Rel L s1 e sg) by (eapply Rel_sba; [exact HR|eapply sba_take_at; eauto]).
  destruct n as [|n].
  - (* no round *)
    cbn [iter_loop] in Hit. inv_ok Hit. assert (Hnr := Hn0 eq_refl).
    destruct (proj2 noreg_rf body Hnr Hp He _ _ _ Hb) as [RF2 _]. cbn [bind_lvr with_lvs l_rf] in RF2.
    assert (R3 : Rel L st3 (drop_lv v e1) sg).
    { apply Rel_drop; [|exact Hv]. eapply Rel_st; [exact HR| | |].
      - cbn. congruence.
      - intros v' r' Hv'. exact Hv'.
      - intros r' m Hr. cbn in Hr. congruence. }
    destruct (is_nil cbody).
    + exists sg. split; [apply sx_nil|exact R3].
    + exists (set_reg sg (Rg BR r) a). split; [|apply Rel_set_reg; assumption].
      eapply sx_cons; [|apply sx_nil]. apply sx_Loop. apply sxl_done.
      rewrite m_reg_set_same. f_equal. lia.
  - destruct cbody as [|c0 cr]; cbn [is_nil].
    + (* rounds without code *)
      destruct (rounds0 (fun i e' => eval_block body (bind_lv v i (drop_lv v e'))) (Rel L s1) (Rel L s2) (Rg BR r))
        with (n := n) (i := a) (st := step) (e := e) (sg := sg) (e' := e1) as (sgv & P & Ag); auto.
      * intros i e0 s0 e2 R0 Hev.
        destruct (Step i e0 (set_reg s0 (Rg BR r) i) e2) as (s2' & X & R2' & _); auto.
        { apply Rel_set_reg; assumption. }
        { apply m_reg_set_same. }
        apply sx_nil_inv in X. subst. exists (set_reg s0 (Rg BR r) i). split; [exact R2'|apply agree_set].
      * exists sg. split; [apply sx_nil|].
        eapply Rel_agree; [apply R23; exact P|exact Ur3|apply agree_sym; exact Ag].
    + destruct (rounds (Rg BR r) (c0 :: cr) (fun i e' => eval_block body (bind_lv v i (drop_lv v e'))) (Rel L s1) (Rel L s2))
        with (n := n) (i := a) (st := step) (e := e) (sg := set_reg sg (Rg BR r) a) (e' := e1) (b := b)
        as (sg1 & X & P); auto.
      * intros e0 s0 z R0. apply Rel_set_reg; [apply R21; exact R0|exact Ur1].
      * apply Rel_set_reg; assumption.
      * apply m_reg_set_same.
      * exists (set_reg sg1 (Rg BR r) b). split; [|apply Rel_set_reg; [apply R23; exact P|exact Ur3]].
        eapply sx_cons; [|apply sx_nil]. apply sx_Loop. exact X.
Qed.

Lemma sim_loop : forall cb v oreg a b step body, sim_block body -> sim_stmt (SLoop cb v oreg a b step body).
Proof.
  intros cb v oreg a b step body IH Hw L st code st' e e' sg H I HL Hev HR.
  cbn [wfs] in Hw.
  apply andb_prop in Hw. destruct Hw as [Hw Hz]. apply andb_prop in Hw. destruct Hw as [Hwb Hwf].
  cbn [lower_stmt] in H. destruct (alook v (l_lv st)) eqn:Hv; [discriminate|].
  destruct (take_at oreg st) as [[r s1]|] eqn:Ht; cbn [bind] in H; [|discriminate].
  destruct (lower_block true body (bind_lvr v r s1)) as [[cbody s2]|] eqn:Hb; cbn [bind] in H; [|discriminate].
  cbn [eval_stmt] in Hev. destruct (loop_count a b step) as [n|] eqn:Hc; [|discriminate].
  destruct (iter_loop _ n a step e) as [e1|] eqn:Hit; [|discriminate]. inv_ok Hev.
  destruct (loop_count_spec _ _ _ _ Hc) as [Hst Hbd].
  assert (HL2 : sub (l_len s2) L) by (destruct (is_nil cbody); inv_ok H; exact HL).
  destruct (loop_core oreg L st v r s1 body cbody s2 a b step n e e1 sg IH Hwf Hwb) as (sg' & X & R'); auto.
  - intros ->. apply orb_prop in Hz. destruct Hz as [Hz|Hz]; [|exact Hz].
    apply negb_true_iff in Hz. apply Z.eqb_neq in Hz. lia.
  - exists sg'. unfold Lower.R in H. destruct (is_nil cbody); inv_ok H; split; assumption.
Qed.

Lemma sim_foreach : forall enum v a body, sim_block body -> sim_stmt (SForeach enum v a body).
Proof.
  intros enum v a body IH Hw L st code st' e e' sg H I HL Hev HR.
  cbn [wfs] in Hw. apply andb_prop in Hw. destruct Hw as [Hw Hwf]. apply andb_prop in Hw. destruct Hw as [Hwb Hnr].
  destruct (proj2 wfs_plain body Hwf) as [Hp He].
  cbn [lower_stmt] in H. destruct (alook a (l_len st)) as [n|] eqn:Hlen; [|discriminate].
  destruct (alook v (l_lv st)) eqn:Hv; [discriminate|].
  destruct (take st) as [[r s1]|] eqn:Ht; cbn [bind] in H; [|discriminate].
  destruct (lower_block true body (bind_lvr v r s1)) as [[cbody s2]|] eqn:Hb; cbn [bind] in H; [|discriminate].
  cbn [eval_stmt] in Hev. destruct (alookup a (e_arr e)) as [l|] eqn:Ea; [|discriminate].
  destruct (iter_loop _ (List.length l) 0%Z 1%Z e) as [e1|] eqn:Hit; [|discriminate]. inv_ok Hev.
  assert (HL2 : sub (l_len s2) L) by (destruct (is_nil cbody); inv_ok H; exact HL).
  (* the length known at compile time is the length of the array *)
  assert (Hn : List.length l = n).
  { assert (Ib := Inv_bind_loop _ _ _ v Ht I).
    destruct (proj2 lower_facts body Hp He _ _ _ Hb Ib) as [_ X2].
    assert (HaL : alook a L = Some n).
    { apply HL2. apply (x_len _ _ X2). cbn. destruct (take_other_fields _ _ _ Ht) as (_ & _ & _ & _ & _ & _ & E8 & _).
      rewrite E8. exact Hlen. }
    destruct (r_len _ _ _ _ HR _ _ HaL) as (l0 & H0 & L0). rewrite Ea in H0. inv_ok H0. reflexivity. }
  destruct (loop_core None L st v r s1 body cbody s2 0%Z (Z.of_nat n) 1%Z n e e1 sg IH Hwf Hwb) as (sg' & X & R'); auto.
  - lia.
  - lia.
  - rewrite <- Hn. exact Hit.
  - exists sg'. unfold Lower.R in H. destruct (is_nil cbody); inv_ok H; split; assumption.
Qed.

(* ------------------------------------------------------------------ loop_until *)
Lemma emits_stmt_nonnil : forall s st c st', emits_stmt s = true -> lower_stmt true s st = Ok (c, st') -> c <> [].
Proof.
  intros s st c st' He H. destruct s; try discriminate; cbn [lower_stmt] in H.
  - destruct (alook q (l_q st)); [discriminate|]. inv_ok H. discriminate.
  - destruct (qubit_id q st); cbn [bind] in H; [|discriminate]. inv_ok H. discriminate.
  - destruct (qubit_id q st); cbn [bind] in H; [|discriminate]. inv_ok H. discriminate.
  - destruct (qubit_id q1 st); cbn [bind] in H; [|discriminate].
    destruct (qubit_id q2 st); cbn [bind] in H; [|discriminate]. inv_ok H. discriminate.
  - destruct (low_ix ix st); cbn [bind] in H; [|discriminate].
    destruct (low_meas q inplace false st) as [[[m c0] s1]|]; cbn [bind] in H; [|discriminate]. inv_ok H.
    intro X. apply app_eq_nil in X. destruct X; discriminate.
  - destruct (declare a 1 None st) as [s0|]; cbn [bind] in H; [|discriminate].
    destruct (low_meas q inplace false s0) as [[[m c0] s1]|]; cbn [bind] in H; [|discriminate]. inv_ok H.
    intro X. apply app_eq_nil in X. destruct X; discriminate.
  - destruct (alook r (l_rf st)); [discriminate|].
    destruct (low_meas q inplace true st) as [[[m c0] s1]|] eqn:Em; cbn [bind] in H; [|discriminate]. inv_ok H.
    destruct (low_meas_facts _ _ _ _ _ _ _ Em) as (id & _ & _ & _ & _ & _ & _ & _ & _ & _ & _ & _ & Ec).
    rewrite Ec. discriminate.
  - destruct (qubit_id q st); cbn [bind] in H; [|discriminate]. inv_ok H. discriminate.
  - destruct (low_ix ix st); cbn [bind] in H; [|discriminate].
    destruct (take st) as [[t s1]|]; cbn [bind] in H; [|discriminate].
    destruct (low_src o s1) as [[[[lo y] ts] s2]|]; cbn [bind] in H; [|discriminate].
    match type of H with Ok (?cc, _) = _ => assert (Ec : c = cc) by (inversion H; reflexivity) end.
    rewrite Ec. cbn. discriminate.
  - destruct (rf_lookup r st) as [[[] k]|]; try discriminate.
    destruct (low_src o st) as [[[[lo y] ts] s1]|]; cbn [bind] in H; [|discriminate].
    match type of H with Ok (?cc, _) = _ => assert (Ec : c = cc) by (inversion H; reflexivity) end.
    rewrite Ec. rewrite map_app. intro X. apply app_eq_nil in X. destruct X as [_ X]. destruct m; discriminate.
  - destruct (take st) as [[t s1]|]; cbn [bind] in H; [|discriminate].
    destruct (take s1) as [[ti s1i]|]; cbn [bind] in H; [|discriminate].
    destruct (low_src o (release ti s1i)) as [[[[lo y] ts] s2]|]; cbn [bind] in H; [|discriminate].
    match type of H with Ok (?cc, _) = _ => assert (Ec : c = cc) by (inversion H; reflexivity) end.
    rewrite Ec. cbn. discriminate.
  - destruct (low_meas q inplace false st) as [[[m c0] s1]|]; cbn [bind] in H; [|discriminate].
    destruct (take s1) as [[ti s1i]|]; cbn [bind] in H; [|discriminate]. inv_ok H.
    intro X. apply app_eq_nil in X. destruct X; discriminate.
Qed.

Lemma emits_nonnil : forall b st c st', emits b = true -> lower_block true b st = Ok (c, st') -> c <> [].
Proof.
  induction b as [|s b IH]; intros st c st' He H; [discriminate|].
  cbn [emits] in He. cbn [lower_block] in H.
  destruct (lower_stmt true s st) as [[c1 s1]|] eqn:H1; cbn [bind] in H; [|discriminate].
  destruct (lower_block true b s1) as [[c2 s2]|] eqn:H2; cbn [bind] in H; [|discriminate]. inv_ok H.
  intro X. apply app_eq_nil in X. destruct X as [X1 X2].
  apply orb_prop in He. destruct He as [He|He].
  - eapply emits_stmt_nonnil; eauto.
  - eapply IH; eauto.
Qed.

Lemma sim_until : forall v mx body cx bound cl,
  sim_block body -> sim_block cl -> sim_stmt (SLoopUntil v mx body cx bound cl).
Proof.
  intros v mx body cx bound cl IHb IHc Hw L st code st' e e' sg H I HL Hev HR.
  cbn [wfs] in Hw.
  apply andb_prop in Hw. destruct Hw as [Hw Hem]. apply andb_prop in Hw. destruct Hw as [Hw Hz].
  apply andb_prop in Hw. destruct Hw as [Hw Hnr2]. apply andb_prop in Hw. destruct Hw as [Hw Hwf2].
  apply andb_prop in Hw. destruct Hw as [Hw Hwf1]. apply andb_prop in Hw. destruct Hw as [Hwb1 Hwb2].
  destruct (proj2 wfs_plain body Hwf1) as [Hp1 He1]. destruct (proj2 wfs_plain cl Hwf2) as [Hp2 He2].
  cbn [lower_stmt] in H. destruct (alook v (l_lv st)) eqn:Hv; [discriminate|].
  destruct (take st) as [[r s1]|] eqn:Ht; cbn [bind] in H; [|discriminate].
  destruct (lower_block true body (bind_lvr v r s1)) as [[cbody s2]|] eqn:Hb; cbn [bind] in H; [|discriminate].
  assert (Hne := emits_nonnil _ _ _ _ Hem Hb).
  destruct cbody as [|c0 cr]; [contradiction|]. cbn [is_nil] in H.
  destruct (low_cval cx s2) as [[[[lx px] tx] s3]|] eqn:Hx; cbn [bind] in H; [|discriminate].
  destruct (lower_block true cl (release_all tx s3)) as [[ccl s4]|] eqn:Hc; cbn [bind] in H; [|discriminate].
  inv_ok H. unfold Lower.R.
  cbn [eval_stmt] in Hev. destruct (mx <? 0)%Z eqn:Hmx; [discriminate|]. apply Z.ltb_ge in Hmx.
  destruct (iter_until _ _ _ _ (Z.to_nat mx) 0%Z e) as [e1|] eqn:Hit; [|discriminate]. inv_ok Hev.
  (* compile-time facts *)
  assert (Tf := take_facts _ _ _ Ht). destruct Tf as (Hfree & Hact1 & _ & Lv1 & Rf1 & Q1 & _).
  assert (Ib := Inv_bind_loop _ _ _ v Ht I).
  destruct (proj2 lower_facts body Hp1 He1 _ _ _ Hb Ib) as [I2 X2].
  assert (Q2 := body_q_restored _ _ _ _ Hp1 He1 Hwb1 Hb Ib). cbn [bind_lvr with_lvs l_q] in Q2.
  assert (Hh := low_cval_held _ _ _ _ _ _ Hx).
  set (s3' := release_all tx s3) in *.
  assert (S3 : sba s2 s3') by (eapply sba_trans; [eapply sba_held; eauto|apply sba_release_all]).
  assert (A3 : l_act s3' = l_act s2) by exact (proj1 (held_release _ _ _ Hh)).
  assert (I3 := Inv_sba _ _ S3 A3 I2).
  destruct (proj2 lower_facts cl Hp2 He2 _ _ _ Hc I3) as [I4 X4].
  assert (Q4 := body_q_restored _ _ _ _ Hp2 He2 Hwb2 Hc I3).
  destruct (proj2 noreg_rf cl Hnr2 Hp2 He2 _ _ _ Hc) as [RF4 _].
  destruct S3 as (S3m & S3q & S3n & S3r & S3f & S3v & S3l & S3d).
  assert (Lv2 : l_lv s2 = (v, r) :: l_lv st) by (rewrite (x_lv _ _ X2); cbn; rewrite Lv1; reflexivity).
  assert (Lv4 : l_lv s4 = (v, r) :: l_lv st) by (rewrite (x_lv _ _ X4), S3v; exact Lv2).
  set (stF := release r (with_lvs s4 (l_lv st))) in *.
  assert (X24 : Ext (bind_lvr v r s1) s4).
  { eapply Ext_trans; [exact X2|]. eapply Ext_trans; [|exact X4]. apply Ext_sba; [|exact A3].
    unfold sba; repeat split; assumption. }
  assert (IFX : Inv stF /\ Ext st stF) by (eapply close_loop; eauto). destruct IFX as [IF XF].
  assert (UrF : untracked stF (Rg BR r)).
  { apply untracked_free; [exact IF|]. rewrite (x_act _ _ XF). exact Hfree. }
  assert (Ur1 : untracked s1 (Rg BR r)).
  { split; [|intros; discriminate]. intros v' r' Hv' X. inversion X; subst. rewrite Lv1 in Hv'.
    rewrite (i_lv _ I _ _ Hv') in Hfree. discriminate. }
  assert (HL2 : sub (l_len s2) L).
  { eapply sub_trans; [|exact HL]. cbn. eapply sub_trans; [|exact (x_len _ _ X4)]. rewrite S3l. apply sub_refl. }
  assert (HL4 : sub (l_len s4) L) by exact HL.
  assert (lv_in : forall v' r', alook v' (l_lv st) = Some r' -> alook v' ((v, r) :: l_lv st) = Some r').
  { intros v' r' Hv'. cbn. destruct (Nat.eqb v' v) eqn:Ev; [apply Nat.eqb_eq in Ev; subst; congruence|exact Hv']. }
  assert (R2F : forall e0 s0, Rel L s2 e0 s0 -> Rel L stF (drop_lv v e0) s0).
  { intros e0 s0 R0. apply Rel_drop; [|exact Hv]. eapply Rel_st; [exact R0| | |].
    - cbn. congruence.
    - intros v' r' Hv'. cbn in Hv'. rewrite Lv2. auto.
    - intros r' m Hr. cbn in Hr. congruence. }
  assert (R4F : forall e0 s0, Rel L s4 e0 s0 -> Rel L stF (drop_lv v e0) s0).
  { intros e0 s0 R0. apply Rel_drop; [|exact Hv]. eapply Rel_st; [exact R0|reflexivity| |].
    - intros v' r' Hv'. cbn in Hv'. rewrite Lv4. auto.
    - intros r' m Hr. exact Hr. }
  assert (R41 : forall e0 s0, Rel L s4 e0 s0 -> Rel L s1 e0 s0).
  { intros e0 s0 R0. eapply Rel_st; [exact R0|congruence| |].
    - intros v' r' Hv'. rewrite Lv4. rewrite Lv1 in Hv'. auto.
    - intros r' m Hr. rewrite RF4, S3f. apply (x_rf _ _ X2). cbn. exact Hr. }
  assert (Hfr1 : forall s0 s0', sx (c0 :: cr) s0 s0' -> m_reg s0' (Rg BR r) = m_reg s0 (Rg BR r)).
  { intros s0 s0' Hsx. apply (proj1 sx_frame _ _ _ Hsx). intro Hin.
    assert (F := proj2 (lower_frame_all true) body Hp1 _ _ _ Hb r Hin). unfold free_at in F.
    cbn [bind_lvr with_lvs l_act] in F. rewrite Hact1 in F.
    rewrite nth_set_nth_same in F by (apply nth_error_Some; congruence). discriminate. }
  assert (Act2 : nth_error (l_act s2) r = Some true).
  { rewrite (x_act _ _ X2). cbn. rewrite Hact1. apply nth_set_nth_same. apply nth_error_Some. congruence. }
  assert (Hfr2 : forall s0 s0', sx ccl s0 s0' -> m_reg s0' (Rg BR r) = m_reg s0 (Rg BR r)).
  { intros s0 s0' Hsx. apply (proj1 sx_frame _ _ _ Hsx). intro Hin.
    assert (F := proj2 (lower_frame_all true) cl Hp2 _ _ _ Hc r Hin). unfold free_at in F.
    rewrite A3, Act2 in F. discriminate. }
  (* the rounds *)
  assert (Rounds : forall n i e0 s0 e2,
            Rel L s1 e0 s0 -> (n = 0 -> Rel L stF (drop_lv v e0) s0) -> m_reg s0 (Rg BR r) = Some i ->
            mx = (i + Z.of_nat n)%Z ->
            iter_until (fun i e' => eval_block body (bind_lv v i (drop_lv v e'))) (ev_cval cx) bound
                       (eval_block cl) n i e0 = Some e2 ->
            exists s', sxuntil (Rg BR r) mx (c0 :: cr) lx px (bound + 1)%Z ccl s0 s' /\ Rel L stF (drop_lv v e2) s').
  { induction n as [|n IHn]; intros i e0 s0 e2 R0 RF0 Hr Hmxi Hiu; cbn [iter_until] in Hiu.
    - inv_ok Hiu. exists s0. split; [|apply RF0; reflexivity]. apply sxu_max. rewrite Hr. f_equal. lia.
    - destruct (eval_block body (bind_lv v i (drop_lv v e0))) as [eb|] eqn:Eb; [|discriminate].
      destruct (ev_cval cx eb) as [w|] eqn:Ew; [|discriminate].
      assert (Rb : Rel L (bind_lvr v r s1) (bind_lv v i (drop_lv v e0)) s0).
      { apply Rel_bind; [exact R0|congruence|exact Hr]. }
      destruct (IHb Hwf1 L _ _ _ _ _ _ Hb Ib HL2 Eb Rb) as (sg1 & Xb & R1).
      assert (Hr1 : m_reg sg1 (Rg BR r) = Some i) by (rewrite (Hfr1 _ _ Xb); exact Hr).
      destruct (cval_sim L cx s2 s2 lx px tx s3 eb sg1 w Hx Ew R1 I2 eq_refl eq_refl) as (sg2 & E2 & R2 & V2 & K2 & _).
      { intros t Hf. apply untracked_free; assumption. }
      assert (Hr2 : m_reg sg2 (Rg BR r) = Some i).
      { rewrite K2; [exact Hr1|]. intros t Hin X. inversion X; subst.
        rewrite (held_ts_free _ _ _ _ Hh Hin) in Act2. discriminate. }
      destruct (w <=? bound)%Z eqn:Hle.
      + inv_ok Hiu. exists sg2. split; [|apply R2F; exact R2].
        eapply sxu_exit with (v := i) (w := w); eauto; [lia|]. apply Z.leb_le in Hle. apply Z.ltb_lt. lia.
      + destruct (eval_block cl eb) as [ec|] eqn:Ec; [|discriminate].
        assert (R3 : Rel L s3' eb sg2) by (eapply Rel_sba; [exact R2|unfold sba; repeat split; assumption]).
        destruct (IHc Hwf2 L _ _ _ _ _ _ Hc I3 HL4 Ec R3) as (sg3 & Xc & R4).
        assert (Hr3 : m_reg sg3 (Rg BR r) = Some i) by (rewrite (Hfr2 _ _ Xc); exact Hr2).
        destruct (IHn (i + 1)%Z ec (set_reg sg3 (Rg BR r) (i + 1)%Z) e2) as (s' & Xu & RF'); auto.
        * apply Rel_set_reg; [apply R41; exact R4|exact Ur1].
        * intros _. apply Rel_set_reg; [apply R4F; exact R4|exact UrF].
        * apply m_reg_set_same.
        * lia.
        * exists s'. split; [|exact RF'].
          eapply sxu_again with (v := i) (w := w) (v3 := i); eauto; [lia|]. apply Z.leb_gt in Hle. apply Z.ltb_ge. lia. }
  assert (R01 : Rel L s1 e sg) by (eapply Rel_sba; [exact HR|eapply sba_take; eauto]).
  destruct (Rounds (Z.to_nat mx) 0%Z e (set_reg sg (Rg BR r) 0%Z) e1) as (s' & Xu & RF'); auto.
  - apply Rel_set_reg; assumption.
  - intros Hn0. assert (mx = 0%Z) by lia. subst mx.
    assert (Hnr1 : bnoreg body = true) by (cbn in Hz; exact Hz).
    destruct (proj2 noreg_rf body Hnr1 Hp1 He1 _ _ _ Hb) as [RF2 _]. cbn [bind_lvr with_lvs l_rf] in RF2.
    apply Rel_set_reg; [|exact UrF]. apply Rel_drop; [|exact Hv].
    eapply Rel_st; [exact HR| | |].
    + cbn. congruence.
    + intros v' r' Hv'. exact Hv'.
    + intros r' m Hr. cbn in Hr. congruence.
  - apply m_reg_set_same.
  - rewrite Z2Nat.id by lia. lia.
  - exists s'. split; [|exact RF']. eapply sx_cons; [|apply sx_nil]. apply sx_Until. exact Xu.
Qed.

(* ------------------------------------------------------------------ the induction over the AST *)
Lemma sim_leaf : forall s, sim_of s -> sim_stmt s.
Proof. intros s H _ L st c st' e e' sg Hl I _ Hev HR. eapply H; eauto. Qed.

Theorem sim_all : (forall s, sim_stmt s) /\ (forall b, sim_block b).
Proof.
  apply stmt_block_ind.
  - intro q. apply sim_leaf, sim_newq.
  - intros g q. apply sim_leaf, sim_gate.
  - intros ax q n d. apply sim_leaf, sim_rot.
  - intros t q1 q2. apply sim_leaf, sim_two.
  - intros q ip a ix. apply sim_leaf, sim_measfut.
  - intros q ip a. apply sim_leaf, sim_measnew.
  - intros q ip r. apply sim_leaf, sim_measreg.
  - intro q. apply sim_leaf, sim_free.
  - intros a n init. apply sim_leaf, sim_newarray.
  - intros a ix o m. apply sim_leaf, sim_futadd.
  - intros r o m. apply sim_leaf, sim_regadd.
  - intros r init Hw. discriminate.
  - intros r o m Hw. discriminate.
  - intros c cb x y body IH. apply sim_if. exact IH.
  - intros cb v oreg a b step body IH. apply sim_loop. exact IH.
  - intros enum v a body IH. apply sim_foreach. exact IH.
  - intros v mx body IHb cx bound cl IHc. apply sim_until; assumption.
  - intros k body IH Hw. discriminate.
  - intro Hw. discriminate.
  - intros a b n o m. apply sim_leaf, sim_futaddx.
  - intros q ip a b n. apply sim_leaf, sim_measfutx.
  - intros _ L st c st' e e' sg H I HL Hev HR. inv_ok H. inv_ok Hev. exists sg. split; [apply sx_nil|exact HR].
  - intros s IHs b IHb Hw L st c st' e e' sg H I HL Hev HR. cbn [bwfs] in Hw.
    apply andb_prop in Hw. destruct Hw as [Hw1 Hw2].
    destruct (proj1 wfs_plain s Hw1) as [Hp1 He1]. destruct (proj2 wfs_plain b Hw2) as [Hp2 He2].
    cbn [lower_block] in H.
    destruct (lower_stmt true s st) as [[c1 s1]|] eqn:H1; cbn [bind] in H; [|discriminate].
    destruct (lower_block true b s1) as [[c2 s2]|] eqn:H2; cbn [bind] in H; [|discriminate]. inv_ok H.
    cbn [eval_block] in Hev. destruct (eval_stmt s e) as [em|] eqn:E1; [|discriminate].
    destruct (proj1 lower_facts s Hp1 He1 _ _ _ H1 I) as [I1 X1].
    destruct (proj2 lower_facts b Hp2 He2 _ _ _ H2 I1) as [I2 X2].
    assert (HL1 : sub (l_len s1) L) by (eapply sub_trans; [exact (x_len _ _ X2)|exact HL]).
    destruct (IHs Hw1 L _ _ _ _ _ _ H1 I HL1 E1 HR) as (sg1 & Xa & R1).
    destruct (IHb Hw2 L _ _ _ _ _ _ H2 I1 HL Hev R1) as (sg2 & Xb & R2).
    exists sg2. split; [eapply sx_app; eauto|exact R2].
Qed.

(* C05, composed per statement: every well-formed statement — gates, qubit allocation and
   release, measurements into array futures / fresh arrays / register futures, add on futures
   and register futures, if (six conditions, context or callback), loop / loop_body, foreach /
   enumerate, loop_until with cleanup, nested arbitrarily — compiles to structured code that takes
   related controller states to related controller states *)
Theorem stmt_compile_correct : forall s L st c st' e e' sg,
  wfs s = true -> lower_stmt true s st = Ok (c, st') -> Inv st -> sub (l_len st') L ->
  eval_stmt s e = Some e' -> Rel L st e sg ->
  exists sg', sx c sg sg' /\ Rel L st' e' sg'.
Proof. intros s L st c st' e e' sg Hw. exact (proj1 sim_all s Hw L st c st' e e' sg). Qed.

Theorem block_compile_correct : forall b L st c st' e e' sg,
  bwfs b = true -> lower_block true b st = Ok (c, st') -> Inv st -> sub (l_len st') L ->
  eval_block b e = Some e' -> Rel L st e sg ->
  exists sg', sx c sg sg' /\ Rel L st' e' sg'.
Proof. intros b L st c st' e e' sg Hw. exact (proj2 sim_all b Hw L st c st' e e' sg). Qed.

(* the relation holds between the initial states *)
Lemma Inv_l0 : Inv l0.
Proof.
  apply mkInv; cbn; try (intros; discriminate); try (intros ? []); try constructor.
Qed.
Lemma Rel_init : forall script, Rel [] l0 (e0 script) (m0 script).
Proof.
  intro script. apply mkRel; cbn; try (intros; discriminate); try reflexivity; try constructor.
  intros a Ha. exfalso. apply Ha. reflexivity.
Qed.
