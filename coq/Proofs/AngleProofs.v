(* AngleProofs.v — proofs about Num/Angle.v (C19). *)
From Coq Require Import ZArith QArith Qround Qabs Qpower List Bool Lia Lqa.
From NQ Require Import Num.Angle.
Import ListNotations.
Open Scope Q_scope.

(* ------------------------------------------------------------------ pow2 *)

Lemma pow2_pos : forall d, 0 < pow2 d.
Proof. intro d. unfold pow2. apply Qpower_0_lt. reflexivity. Qed.

Lemma pow2_nz : forall d, ~ pow2 d == 0.
Proof. intro d. pose proof (pow2_pos d) as H. intro E. rewrite E in H. discriminate H. Qed.

Lemma pow2_plus : forall a b, pow2 (a + b) == pow2 a * pow2 b.
Proof. intros a b. unfold pow2. apply Qpower_plus. discriminate. Qed.

Lemma pow2_succ : forall d, pow2 (d + 1) == 2 * pow2 d.
Proof. intro d. rewrite pow2_plus. unfold pow2 at 2. rewrite Qpower_1_r. ring. Qed.

Lemma pow2_pred : forall d, pow2 d == 2 * pow2 (d - 1).
Proof. intro d. rewrite <- pow2_succ. replace (d - 1 + 1)%Z with d by lia. reflexivity. Qed.

Lemma pow2_le : forall a b, (a <= b)%Z -> pow2 a <= pow2 b.
Proof. intros a b H. unfold pow2. apply Qpower_le_compat_l; [exact H | discriminate]. Qed.

Lemma pow2_lt_inv : forall a b, pow2 a < pow2 b -> (a < b)%Z.
Proof. intros a b H. unfold pow2 in H. apply Qpower_lt_compat_l_inv in H; [exact H | reflexivity]. Qed.

Lemma pow2_inject : forall d, (0 <= d)%Z -> inject_Z (2 ^ d) == pow2 d.
Proof. intros d H. unfold pow2. rewrite Zpower_Qpower by exact H. reflexivity. Qed.

Lemma inj_lt : forall a b, inject_Z a < inject_Z b -> (a < b)%Z.
Proof. intros a b H. rewrite Zlt_Qlt. exact H. Qed.

Lemma inj_le : forall a b, inject_Z a <= inject_Z b -> (a <= b)%Z.
Proof. intros a b H. rewrite Zle_Qle. exact H. Qed.

Lemma le_inj : forall a b, (a <= b)%Z -> inject_Z a <= inject_Z b.
Proof. intros a b H. rewrite <- Zle_Qle. exact H. Qed.

Lemma lt_inj : forall a b, (a < b)%Z -> inject_Z a < inject_Z b.
Proof. intros a b H. rewrite <- Zlt_Qlt. exact H. Qed.

Lemma in_window_iff : forall rest d, in_window rest d = true <-> window rest d.
Proof.
  intros rest d. unfold in_window, window. rewrite andb_true_iff, negb_true_iff.
  rewrite Qle_bool_iff. split.
  - intros [H1 H2]. split; [exact H1|]. apply Qnot_le_lt. intro H. apply Qle_bool_iff in H. congruence.
  - intros [H1 H2]. split; [exact H1|]. destruct (Qle_bool 256 (rest * pow2 d)) eqn:E; [|reflexivity].
    apply Qle_bool_iff in E. exfalso. apply (Qlt_not_le _ _ H2 E).
Qed.

(* ------------------------------------------------------------- simplify *)

Lemma simp_pos_spec : forall p d,
  let r := simp_pos p d in
  (1 <= fst r <= Zpos p)%Z /\ (snd r <= d)%Z /\ Z.odd (fst r) = true /\
  term r == term (Zpos p, d).
Proof.
  induction p as [p IH | p IH |]; intros d; cbn [simp_pos].
  - cbn [fst snd]. repeat split; try lia; reflexivity.
  - specialize (IH (d - 1)%Z). cbv zeta in IH. destruct IH as [[Ha Hb] [Hc [Hd He]]].
    cbv zeta. repeat split; try lia; try exact Hd.
    rewrite He. unfold term. cbn [fst snd].
    rewrite (pow2_pred d). replace (Zpos p~0) with (2 * Zpos p)%Z by lia.
    rewrite inject_Z_mult. field. apply pow2_nz.
  - cbn [fst snd]. repeat split; try lia; reflexivity.
Qed.

Lemma simp_pos_d_nonneg : forall p d, (Zpos p < 2 ^ (d + 1))%Z -> (0 <= snd (simp_pos p d))%Z.
Proof.
  induction p as [p IH | p IH |]; intros d H; cbn [simp_pos].
  - cbn [snd]. destruct (Z_lt_le_dec d 0) as [Hn|]; [|assumption].
    exfalso. assert (E : (2 ^ (d + 1) <= 1)%Z).
    { destruct (Z.eq_dec (d + 1) 0) as [E0|E0]; [rewrite E0; simpl; lia|].
      rewrite Z.pow_neg_r by lia. lia. }
    lia.
  - apply IH. assert (Hd : (0 <= d)%Z).
    { destruct (Z_lt_le_dec d 0) as [Hn|]; [|assumption]. exfalso.
      assert (E : (2 ^ (d + 1) <= 1)%Z).
      { destruct (Z.eq_dec (d + 1) 0) as [E0|E0]; [rewrite E0; simpl; lia|].
        rewrite Z.pow_neg_r by lia. lia. }
      lia. }
    replace (d - 1 + 1)%Z with d by lia.
    replace (d + 1)%Z with (Z.succ d) in H by lia. rewrite Z.pow_succ_r in H by exact Hd. lia.
  - cbn [snd]. destruct (Z_lt_le_dec d 0) as [Hn|]; [|assumption].
    exfalso. assert (E : (2 ^ (d + 1) <= 1)%Z).
    { destruct (Z.eq_dec (d + 1) 0) as [E0|E0]; [rewrite E0; simpl; lia|].
      rewrite Z.pow_neg_r by lia. lia. }
    lia.
Qed.

(* ------------------------------------------------------------ one step *)

(* everything one loop iteration guarantees, for ANY d in the window *)
Lemma step_facts : forall rest d,
  0 <= rest -> rest < 2 -> window rest d ->
  let n := step_n rest d in
  let r' := step_rest rest d in
  (127 <= n <= 255)%Z /\ (6 <= d)%Z /\
  0 <= r' /\ r' < rest /\ r' * 127 < rest /\
  term (n, d) + r' == rest /\ rest * pow2 d < 256 /\
  exists n' d', simplify1 (n, d) = Some (n', d') /\
    (1 <= n' <= 255)%Z /\ Z.odd n' = true /\ (0 <= d' <= d)%Z /\ term (n', d') == term (n, d).
Proof.
  intros rest d H0 H2 [Hlo Hhi]. cbv zeta.
  pose proof (pow2_pos d) as HP.
  pose proof (Qfloor_le (rest * pow2 d)) as Hf1.
  pose proof (Qlt_floor (rest * pow2 d)) as Hf2.
  assert (Hn : (127 <= step_n rest d <= 255)%Z).
  { unfold step_n. split.
    - pose proof (Qfloor_resp_le _ _ Hlo) as H. change 127 with (inject_Z 127) in H.
      rewrite Qfloor_Z in H. exact H.
    - assert (H : inject_Z (Qfloor (rest * pow2 d)) < inject_Z 256).
      { apply Qle_lt_trans with (rest * pow2 d); [exact Hf1|exact Hhi]. }
      apply inj_lt in H. lia. }
  assert (Hd : (6 <= d)%Z).
  { assert (H : pow2 5 < pow2 d).
    { change (pow2 5) with 32. nra. }
    apply pow2_lt_inv in H. lia. }
  fold (step_n rest d) in Hf1, Hf2.
  rewrite inject_Z_plus in Hf2. change (inject_Z 1) with 1 in Hf2.
  set (n := step_n rest d) in *.
  assert (Hn127 : 127 <= inject_Z n). { change 127 with (inject_Z 127). apply le_inj. lia. }
  assert (Hr : step_rest rest d * pow2 d == rest * pow2 d - inject_Z n).
  { unfold step_rest. fold n. field. apply pow2_nz. }
  set (r' := step_rest rest d) in *.
  assert (Hr0 : 0 <= r'). { nra. }
  assert (Hr1 : r' * pow2 d < 1). { rewrite Hr. lra. }
  assert (Hterm : term (n, d) + r' == rest).
  { unfold term, r', step_rest. cbn [fst snd]. fold n. field. apply pow2_nz. }
  assert (Hlt127 : r' * 127 < rest). { nra. }
  assert (Hlt : r' < rest). { nra. }
  repeat split; try lia; try assumption.
  (* simplification *)
  destruct n as [|p|p] eqn:En; try lia.
  exists (fst (simp_pos p d)), (snd (simp_pos p d)).
  destruct (simp_pos_spec p d) as [[Ha Hb] [Hc [Ho Ht]]].
  assert (Hpow : (Zpos p < 2 ^ (d + 1))%Z).
  { apply inj_lt. rewrite pow2_inject by lia. rewrite pow2_succ.
    apply Qle_lt_trans with (rest * pow2 d); [exact Hf1|]. nra. }
  pose proof (simp_pos_d_nonneg p d Hpow) as Hnn.
  unfold simplify1. cbn [fst snd]. rewrite <- surjective_pairing.
  repeat split; try lia; try assumption.
Qed.

(* ------------------------------------------------------------- whole runs *)

Definition enc_ok (D : Z) (nd : Z * Z) : Prop :=
  (1 <= fst nd <= 255)%Z /\ (0 <= snd nd)%Z /\ (snd nd < D)%Z.

Definition raw_ok (nd : Z * Z) : Prop := (127 <= fst nd <= 255)%Z /\ (6 <= snd nd)%Z.

Definition simp_ok (nd : Z * Z) : Prop :=
  (1 <= fst nd <= 255)%Z /\ Z.odd (fst nd) = true /\ (0 <= snd nd)%Z.

(* sum of the steps a filter with bound D removes *)
Fixpoint dropped (D : Z) (l : list (Z * Z)) : Q :=
  match l with
  | [] => 0
  | nd :: l' => (if keep D nd then 0 else term nd) + dropped D l'
  end.

Lemma sumq_filter : forall D l, sumq l == sumq (dfilter D l) + dropped D l.
Proof.
  intros D l. induction l as [|nd l IH]; cbn [sumq dfilter filter dropped].
  - ring.
  - fold (dfilter D l). destruct (keep D nd); cbn [sumq]; rewrite IH; ring.
Qed.

Lemma term_nonneg : forall nd, (0 <= fst nd)%Z -> 0 <= term nd.
Proof.
  intros [n d] H. unfold term. cbn [fst snd] in *.
  apply Qle_shift_div_l; [apply pow2_pos|]. rewrite Qmult_0_l.
  change 0 with (inject_Z 0). apply le_inj. exact H.
Qed.

Lemma steps_inv : forall thr rest raw rf,
  steps thr rest raw rf -> 0 <= rest -> rest < 2 ->
  exists s, simplify_all raw = Some s /\
    Forall raw_ok raw /\ Forall simp_ok s /\
    sumq raw == sumq s /\ sumq s + rf == rest /\
    0 <= rf /\ rf <= thr /\ rf <= rest /\
    (forall D, 0 <= dropped D s /\ dropped D s <= rest - rf /\ dropped D s < pow2 (8 - D)) /\
    (forall D, pow2 (8 - D) <= thr -> dfilter D s = s) /\
    Forall2 (fun a b => (snd b <= snd a)%Z) raw s.
Proof.
  intros thr rest raw rf H. induction H as [rest Hstop | rest d l rf Hgo Hw Hs IH]; intros H0 H2.
  - exists []. cbn. repeat split; try constructor; try lra.
    + apply pow2_pos.
  - destruct (step_facts rest d H0 H2 Hw) as
      [Hn [Hd [Hr0 [Hrlt [Hr127 [Hterm [Hhi [n' [d' [Hsimp [Hn' [Hodd [Hd' Hval]]]]]]]]]]]]].
    destruct IH as [s [Hsall [Hraw [Hs_ok [Hsum1 [Hsum2 [Hrf0 [Hrft [Hrfr [Hdrop [Hfilt Hle]]]]]]]]]]];
      [exact Hr0 | lra |].
    exists ((n', d') :: s).
    assert (Hsum2' : sumq ((n', d') :: s) + rf == rest).
    { cbn [sumq]. lra. }
    split; [cbn [simplify_all]; rewrite Hsimp, Hsall; reflexivity|].
    split; [constructor; [split; cbn [fst snd]; lia | exact Hraw]|].
    split; [constructor; [repeat split; cbn [fst snd]; try lia; exact Hodd | exact Hs_ok]|].
    split; [cbn [sumq]; rewrite Hval, Hsum1; reflexivity|].
    split; [exact Hsum2'|].
    split; [exact Hrf0|]. split; [exact Hrft|]. split; [lra|].
    split; [|split].
    + intro D. destruct (Hdrop D) as [Hd0 [Hd1 Hd2]]. cbn [dropped].
      assert (Ht0 : 0 <= term (n', d')). { apply term_nonneg. cbn [fst]. lia. }
      unfold keep. cbn [snd]. destruct (d' <? D)%Z eqn:Ek.
      * split; [lra|]. split; [|lra].
        assert (0 <= term (step_n rest d, d)) by (rewrite <- Hval; exact Ht0). lra.
      * apply Z.ltb_ge in Ek. split; [lra|]. split; [rewrite Hval; lra|].
        (* the dropped step and everything after it is below rest < 256 / 2^d <= 256 / 2^D *)
        apply Qle_lt_trans with (rest - rf); [rewrite Hval; lra|].
        apply Qle_lt_trans with rest; [lra|].
        assert (HD : pow2 D <= pow2 d) by (apply pow2_le; lia).
        pose proof (pow2_pos D) as HPD. pose proof (pow2_pos d) as HPd.
        assert (E : pow2 (8 - D) * pow2 D == 256).
        { rewrite <- pow2_plus. replace (8 - D + D)%Z with 8%Z by lia. reflexivity. }
        pose proof (pow2_pos (8 - D)) as HP8. nra.
    + intros D HD. cbn [dfilter filter]. unfold keep at 1. cbn [snd].
      assert (Hlt : (d' <? D)%Z = true).
      { apply Z.ltb_lt. assert (Hp : pow2 d < pow2 D).
        { pose proof (pow2_pos D) as HPD. pose proof (pow2_pos d) as HPd.
          assert (E : pow2 (8 - D) * pow2 D == 256).
          { rewrite <- pow2_plus. replace (8 - D + D)%Z with 8%Z by lia. reflexivity. }
          pose proof (pow2_pos (8 - D)) as HP8. nra. }
        apply pow2_lt_inv in Hp. lia. }
      rewrite Hlt. f_equal. apply Hfilt. exact HD.
    + constructor; [cbn [snd]; lia | exact Hle].
Qed.

(* ---------------------------------------------- properties of every run *)

Lemma Forall_filter : forall (A : Type) (P : A -> Prop) f (l : list A), Forall P l -> Forall P (filter f l).
Proof.
  intros A P f l H. induction H as [|x l Hx Hl IH]; cbn [filter]; [constructor|].
  destruct (f x); [constructor; assumption | assumption].
Qed.

Lemma Forall_filter_keep : forall D l, Forall simp_ok l -> Forall (enc_ok D) (dfilter D l).
Proof.
  intros D l H. induction H as [|x l Hx Hl IH]; cbn [dfilter filter]; [constructor|].
  destruct (keep D x) eqn:E; [|exact IH]. constructor; [|exact IH].
  unfold keep in E. apply Z.ltb_lt in E. destruct Hx as [Ha [_ Hc]]. repeat split; assumption || lia.
Qed.

(* the emitted list: encodable, and within thr + 2^(8-D) of rest (half turns) *)
Theorem run_correct : forall D thr rest raw rf,
  0 <= rest -> rest < 2 -> steps thr rest raw rf ->
  exists s out,
    simplify_all raw = Some s /\ post D raw = Some out /\ out = dfilter D s /\
    Forall raw_ok raw /\ Forall simp_ok s /\ Forall (enc_ok D) out /\
    sumq raw + rf == rest /\ sumq s == sumq raw /\
    0 <= rf /\ rf <= thr /\
    Qabs (rest - sumq s) <= thr /\
    0 <= rest - sumq out /\
    Qabs (rest - sumq out) < thr + pow2 (8 - D) /\
    (pow2 (8 - D) <= thr -> out = s /\ Qabs (rest - sumq out) <= thr).
Proof.
  intros D thr rest raw rf H0 H2 Hs.
  destruct (steps_inv thr rest raw rf Hs H0 H2) as
    [s [Hsall [Hraw [Hs_ok [Hsum1 [Hsum2 [Hrf0 [Hrft [Hrfr [Hdrop [Hfilt Hle]]]]]]]]]]].
  exists s, (dfilter D s). unfold post. rewrite Hsall.
  assert (Habs : Qabs (rest - sumq s) <= thr).
  { rewrite Qabs_pos; lra. }
  destruct (Hdrop D) as [Hd0 [Hd1 Hd2]].
  pose proof (sumq_filter D s) as Hsf.
  repeat split; try assumption; try reflexivity; try lra.
  - apply Forall_filter_keep. exact Hs_ok.
  - rewrite Qabs_pos; lra.
  - apply Hfilt. assumption.
  - rewrite (Hfilt D) by assumption. exact Habs.
Qed.

(* number of steps: each step divides the remainder by more than 127 *)
Fixpoint npow (b : Q) (k : nat) : Q := match k with O => 1 | S k' => b * npow b k' end.

Lemma npow_pos : forall k, 0 < npow 127 k.
Proof. induction k as [|k IH]; cbn [npow]; lra. Qed.

Lemma steps_length : forall thr rest raw rf,
  steps thr rest raw rf -> 0 <= rest -> rest < 2 ->
  match raw with [] => True | _ :: l => thr * npow 127 (List.length l) < rest end.
Proof.
  intros thr rest raw rf H. induction H as [rest Hstop | rest d l rf Hgo Hw Hs IH]; intros H0 H2; [exact I|].
  destruct (step_facts rest d H0 H2 Hw) as [_ [_ [Hr0 [Hrlt [Hr127 _]]]]].
  specialize (IH Hr0 ltac:(lra)). destruct l as [|x l']; cbn [List.length npow].
  - lra.
  - cbn [List.length] in IH. pose proof (npow_pos (List.length l')) as Hp.
    set (q := npow 127 (List.length l')) in *. nra.
Qed.

(* --------------------------------------------- the exact choice of d *)

Lemma sel_exact_window : forall rest, 0 < rest -> window rest (sel_exact rest).
Proof.
  intros [a b] Hpos. assert (Ha : (0 < a)%Z).
  { unfold Qlt in Hpos. cbn in Hpos. lia. }
  unfold sel_exact. cbn [Qnum Qden].
  set (L1 := Z.log2 (255 * Zpos b)). set (L2 := Z.log2 a).
  destruct (Z.log2_spec (255 * Zpos b) ltac:(lia)) as [H1a H1b]. fold L1 in H1a, H1b.
  destruct (Z.log2_spec a Ha) as [H2a H2b]. fold L2 in H2a, H2b.
  assert (HL1 : (0 <= L1)%Z) by apply Z.log2_nonneg.
  assert (HL2 : (0 <= L2)%Z) by apply Z.log2_nonneg.
  apply le_inj in H1a, H2a. apply lt_inj in H1b, H2b.
  rewrite pow2_inject in H1a, H2a by lia.
  rewrite pow2_inject in H1b, H2b by lia.
  replace (Z.succ L1) with (L1 + 1)%Z in H1b by lia. replace (Z.succ L2) with (L2 + 1)%Z in H2b by lia.
  rewrite pow2_succ in H1b, H2b. rewrite inject_Z_mult in H1a, H1b. change (inject_Z 255) with 255 in H1a, H1b.
  pose proof (pow2_pos L1) as HP1. pose proof (pow2_pos L2) as HP2.
  assert (Hb : 0 < inject_Z (Zpos b)). { change 0 with (inject_Z 0). apply lt_inj. lia. }
  assert (Hd0 : pow2 (L1 - L2) * pow2 L2 == pow2 L1).
  { rewrite <- pow2_plus. replace (L1 - L2 + L2)%Z with L1 by lia. reflexivity. }
  pose proof (pow2_pos (L1 - L2)) as HP0.
  assert (Hrest : (a # b) * inject_Z (Zpos b) == inject_Z a).
  { rewrite Qmake_Qdiv. field. intro E. rewrite E in Hb. discriminate Hb. }
  set (r := a # b) in *. set (B := inject_Z (Zpos b)) in *. set (A := inject_Z a) in *.
  set (P1 := pow2 L1) in *. set (P2 := pow2 L2) in *. set (P0 := pow2 (L1 - L2)) in *.
  (* r*B = A, P2 <= A < 2 P2, P1 <= 255 B < 2 P1, P0 P2 = P1:  255/2 < r P0 < 510 *)
  assert (Hx1 : 255 < 2 * (r * P0)).
  { assert (E : (r * P0) * (B * P2) == A * P1). { rewrite <- Hrest, <- Hd0. ring. }
    assert (0 < B * P2) by nra. nra. }
  assert (Hx2 : r * P0 < 510).
  { assert (E : (r * P0) * (B * P2) == A * P1). { rewrite <- Hrest, <- Hd0. ring. }
    assert (0 < B * P2) by nra. nra. }
  destruct (Qle_bool (r * P0) 255) eqn:E.
  - apply Qle_bool_iff in E. unfold window. fold P0. split; lra.
  - assert (E' : 255 < r * P0).
    { apply Qnot_le_lt. intro Hc. apply Qle_bool_iff in Hc. congruence. }
    unfold window. pose proof (pow2_pred (L1 - L2)) as Hp. fold P0 in Hp.
    set (Pm := pow2 (L1 - L2 - 1)) in *. split; nra.
Qed.

(* ------------------------------------------ executable versions are runs *)

Lemma expand_sound : forall sel fuel thr rest raw rf,
  expand sel fuel thr rest = Ok raw rf -> steps thr rest raw rf.
Proof.
  intros sel fuel. induction fuel as [|f IH]; intros thr rest raw rf H; cbn [expand] in H.
  - destruct (Qle_bool rest thr) eqn:E; [|discriminate]. inversion H; subst.
    apply steps_stop. apply Qle_bool_iff. exact E.
  - destruct (Qle_bool rest thr) eqn:E.
    + inversion H; subst. apply steps_stop. apply Qle_bool_iff. exact E.
    + destruct (in_window rest (sel rest)) eqn:W; [|discriminate].
      destruct (expand sel f thr (step_rest rest (sel rest))) as [l rf'| |] eqn:R; try discriminate.
      inversion H; subst. apply steps_go.
      * apply Qnot_le_lt. intro Hc. apply Qle_bool_iff in Hc. congruence.
      * apply in_window_iff. exact W.
      * apply IH. exact R.
Qed.

Lemma expand_all_sound : forall fuel thr rest raw rf,
  In (raw, rf) (expand_all fuel thr rest) -> steps thr rest raw rf.
Proof.
  induction fuel as [|f IH]; intros thr rest raw rf H; cbn [expand_all] in H.
  - destruct (Qle_bool rest thr) eqn:E; [|destruct H].
    destruct H as [H|[]]. inversion H; subst. apply steps_stop. apply Qle_bool_iff. exact E.
  - destruct (Qle_bool rest thr) eqn:E.
    + destruct H as [H|[]]. inversion H; subst. apply steps_stop. apply Qle_bool_iff. exact E.
    + apply in_flat_map in H. destruct H as [d [_ H]].
      destruct (in_window rest d) eqn:W; [|destruct H].
      apply in_map_iff in H. destruct H as [[l rf'] [Heq Hin]]. cbn [fst snd] in Heq.
      inversion Heq; subst. apply steps_go.
      * apply Qnot_le_lt. intro Hc. apply Qle_bool_iff in Hc. congruence.
      * apply in_window_iff. exact W.
      * apply IH. exact Hin.
Qed.

(* the exact selector never leaves the window and the loop ends within
   `fuel` iterations as soon as 2 <= thr * 127^fuel *)
Lemma expand_terminates : forall fuel thr rest,
  0 <= rest -> rest < 2 -> rest <= thr * npow 127 fuel ->
  exists raw rf, expand sel_exact fuel thr rest = Ok raw rf.
Proof.
  induction fuel as [|f IH]; intros thr rest H0 H2 Hb; cbn [expand].
  - cbn [npow] in Hb. assert (E : Qle_bool rest thr = true) by (apply Qle_bool_iff; lra).
    rewrite E. eauto.
  - destruct (Qle_bool rest thr) eqn:E; [eauto|].
    assert (Hgt : thr < rest). { apply Qnot_le_lt. intro Hc. apply Qle_bool_iff in Hc. congruence. }
    assert (Hthr : 0 < rest).
    { destruct (Qlt_le_dec 0 rest) as [Hp|Hn]; [exact Hp|]. exfalso.
      assert (rest == 0) by lra. pose proof (npow_pos (S f)) as Hp. 
      set (q := npow 127 (S f)) in *. nra. }
    pose proof (sel_exact_window rest Hthr) as W.
    destruct (step_facts rest _ H0 H2 W) as [_ [_ [Hr0 [Hrlt [Hr127 _]]]]].
    apply in_window_iff in W. rewrite W.
    destruct (IH thr (step_rest rest (sel_exact rest)) Hr0 ltac:(lra)) as [l [rf R]].
    + cbn [npow] in Hb. set (q := npow 127 f) in *. lra.
    + rewrite R. eauto.
Qed.

(* ------------------------------------------------- the checked function *)

(* every member of the set the correspondence compares the implementation
   with is a run, hence has the property *)
Theorem spec_all_correct : forall angle tol rest thr outs o,
  front angle tol = Some (rest, thr) -> 0 <= rest -> rest < 2 ->
  spec_all angle tol = Some outs -> In o outs ->
  exists out, o = Some out /\
    Forall (enc_ok D_FIELD) out /\
    0 <= rest - sumq out /\
    Qabs (rest - sumq out) < thr + pow2 (8 - D_FIELD) /\
    (pow2 (8 - D_FIELD) <= thr -> Qabs (rest - sumq out) <= thr).
Proof.
  intros angle tol rest thr outs o Hf H0 H2 Hs Hin. unfold spec_all in Hs. rewrite Hf in Hs.
  revert Hs. generalize FUEL. intros fuel Hs.
  injection Hs as Hs. subst outs. apply in_map_iff in Hin. destruct Hin as [[raw rf] [Ho Hin]]. cbn [fst] in Ho.
  apply expand_all_sound in Hin.
  destruct (run_correct D_FIELD thr rest raw rf H0 H2 Hin) as
    [s [out [_ [Hpost [_ [_ [_ [Henc [_ [_ [_ [_ [_ [Hnn [Hlt Hle]]]]]]]]]]]]]]].
  exists out. rewrite Hpost in Ho. split; [symmetry; exact Ho|].
  split; [exact Henc|]. split; [exact Hnn|]. split; [exact Hlt|]. intro H. apply Hle. exact H.
Qed.

Theorem spec_exact_defined : forall angle tol rest thr,
  front angle tol = Some (rest, thr) -> 0 <= rest -> rest < 2 -> 2 <= thr * npow 127 FUEL ->
  exists out, spec_exact angle tol = Some out.
Proof.
  intros angle tol rest thr Hf H0 H2 Hb. unfold spec_exact. rewrite Hf.
  revert Hb. generalize FUEL. intros fuel Hb.
  destruct (expand_terminates fuel thr rest H0 H2 ltac:(lra)) as [raw [rf R]]. rewrite R.
  apply expand_sound in R.
  destruct (run_correct D_FIELD thr rest raw rf H0 H2 R) as [s [out [_ [Hpost _]]]].
  exists out. exact Hpost.
Qed.

(* in radians: for every p up to the rational upper bound PI_HI of pi *)
Theorem within_tol_radians : forall D thr rest raw rf out tol p,
  0 <= rest -> rest < 2 -> steps thr rest raw rf -> post D raw = Some out ->
  pow2 (8 - D) <= thr -> 0 <= p -> p <= PI_HI -> thr * PI_HI <= tol ->
  Qabs (rest * p - sumq out * p) <= tol.
Proof.
  intros D thr rest raw rf out tol p H0 H2 Hs Hpost HD Hp0 Hp1 Htol.
  destruct (run_correct D thr rest raw rf H0 H2 Hs) as
    [s [out' [_ [Hpost' [_ [_ [_ [_ [_ [_ [_ [_ [_ [Hnn [_ Hle]]]]]]]]]]]]]]].
  rewrite Hpost in Hpost'. inversion Hpost'; subst out'.
  specialize (Hle HD). rewrite Qabs_pos in Hle by exact Hnn.
  assert (Hpi : 0 < PI_HI) by reflexivity.
  assert (Ht : 0 <= thr). { pose proof (pow2_pos (8 - D)). lra. }
  set (e := rest - sumq out) in *.
  assert (E : rest * p - sumq out * p == e * p) by (unfold e; ring).
  rewrite E. rewrite Qabs_pos by nra. nra.
Qed.


(* ------------------------------- in radians, relative to the requested angle *)

Lemma Qabs_le_iff : forall x c, Qabs x <= c <-> - c <= x /\ x <= c.
Proof. intros x c. apply Qabs_Qle_condition. Qed.

(* front-end error fe and threshold excess te as parameters *)
Theorem radians_with_front_end : forall D thr rest raw rf out tol p target fe te,
  0 <= rest -> rest < 2 -> steps thr rest raw rf -> post D raw = Some out ->
  pow2 (8 - D) <= thr -> 0 <= p ->
  Qabs (rest * p - target) <= fe -> thr * p <= tol + te ->
  Qabs (sumq out * p - target) <= tol + te + fe.
Proof.
  intros D thr rest raw rf out tol p target fe te H0 H2 Hs Hpost HD Hp Hfe Hte.
  destruct (run_correct D thr rest raw rf H0 H2 Hs) as
    [s [out' [_ [Hpost' [_ [_ [_ [_ [_ [_ [_ [_ [_ [Hnn [_ Hle]]]]]]]]]]]]]]].
  rewrite Hpost in Hpost'. inversion Hpost'; subst out'.
  specialize (Hle HD). destruct Hle as [_ Hle]. rewrite Qabs_pos in Hle by exact Hnn.
  apply Qabs_le_iff in Hfe. destruct Hfe as [Hf1 Hf2]. apply Qabs_le_iff.
  set (e := rest - sumq out) in *.
  assert (E : sumq out * p - target == (rest * p - target) - e * p) by (unfold e; ring).
  assert (He : 0 <= e * p) by nra. assert (He2 : e * p <= thr * p) by nra.
  rewrite E. split; lra.
Qed.

(* |a p + b| <= c at both ends of an interval, hence inside *)
Lemma abs_linear_between : forall a b c p1 p2 p,
  p1 <= p -> p <= p2 -> Qabs (a * p1 + b) <= c -> Qabs (a * p2 + b) <= c -> Qabs (a * p + b) <= c.
Proof.
  intros a b c p1 p2 p H1 H2 Ha Hb. apply Qabs_le_iff in Ha, Hb. apply Qabs_le_iff.
  destruct Ha as [Ha1 Ha2], Hb as [Hb1 Hb2].
  destruct (Qlt_le_dec a 0) as [Hn|Hp]; split; nra.
Qed.

Lemma fe_at_bound : forall angle tol rest thr k p c,
  fe_at angle tol rest thr k p <= c ->
  exists fe te, Qabs (rest * p - (angle - 2 * inject_Z k * p)) <= fe /\ thr * p <= tol + te /\ fe + te <= c /\ 0 <= te.
Proof.
  intros angle tol rest thr k p c H. unfold fe_at in H.
  destruct (Qle_bool (thr * p) tol) eqn:E.
  - apply Qle_bool_iff in E. exists (Qabs (rest * p - (angle - 2 * inject_Z k * p))), 0.
    repeat split; try lra.
  - exists (Qabs (rest * p - (angle - 2 * inject_Z k * p))), (thr * p - tol).
    assert (tol < thr * p). { apply Qnot_le_lt. intro Hc. apply Qle_bool_iff in Hc. congruence. }
    repeat split; lra.
Qed.

(* The statement of the docstring about the doubles themselves, for every value
   p of pi between the rational bounds, under the per-input hypothesis fe_ok
   (decided by computation for every case of the correspondence stream) *)
Theorem radians_checked : forall angle tol rest thr outs out k p,
  front angle tol = Some (rest, thr) -> 0 <= rest -> rest < 2 -> pow2 (8 - D_FIELD) <= thr ->
  spec_all angle tol = Some outs -> In (Some out) outs ->
  fe_ok angle tol rest thr k = true ->
  PI_LO <= p -> p <= PI_HI ->
  Qabs ((sumq out + 2 * inject_Z k) * p - angle) <= tol + FE_ALLOW.
Proof.
  intros angle tol rest thr outs out k p Hf H0 H2 HD Hs Hin Hok Hp1 Hp2.
  unfold spec_all in Hs. rewrite Hf in Hs. revert Hs. generalize FUEL. intros fuel Hs.
  injection Hs as Hs. subst outs. apply in_map_iff in Hin. destruct Hin as [[raw rf] [Ho Hin]]. cbn [fst] in Ho.
  apply expand_all_sound in Hin.
  unfold fe_ok in Hok. apply andb_true_iff in Hok. destruct Hok as [Hlo Hhi].
  apply Qle_bool_iff in Hlo, Hhi.
  assert (Hend : forall q, 0 <= q -> fe_at angle tol rest thr k q <= FE_ALLOW ->
                 Qabs ((sumq out + 2 * inject_Z k) * q + - angle) <= tol + FE_ALLOW).
  { intros q Hq Hfe. destruct (fe_at_bound _ _ _ _ _ _ _ Hfe) as [fe [te [Ha [Hb [Hc Hd]]]]].
    pose proof (radians_with_front_end D_FIELD thr rest raw rf out tol q _ fe te H0 H2 Hin Ho HD Hq Ha Hb) as H.
    assert (E : (sumq out + 2 * inject_Z k) * q + - angle == sumq out * q - (angle - 2 * inject_Z k * q)) by ring.
    rewrite E. apply Qabs_le_iff in H. apply Qabs_le_iff. destruct H. split; lra. }
  assert (E : (sumq out + 2 * inject_Z k) * p - angle == (sumq out + 2 * inject_Z k) * p + - angle) by ring.
  rewrite E. apply abs_linear_between with (p1 := PI_LO) (p2 := PI_HI); try assumption.
  - apply Hend; [discriminate | exact Hlo].
  - apply Hend; [discriminate | exact Hhi].
Qed.
