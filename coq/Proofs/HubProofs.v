(* Proofs/HubProofs.v — invariants of the hub model (Net/Hub.v, variant Fixed = the
   repaired code) and the C18 theorems: every statement holds for every schedule of
   every length and any number of threads/endpoints, by induction over the schedule.

   History-based invariants:
     inv_q     per key: (messages appended) = (messages popped) ++ queue
     inv_lock  a thread is inside a locked region iff it owns the lock; pcs fit ops
     inv_rv    membership in open/remote sets is justified by the history
     inv_cb    callback table entries / callback deliveries name threads of that key
     inv_hist  every observed length / popped message agrees with the history
     inv_acct  a sole receiver's results are exactly the pops on its key *)
From Coq Require Import List Arith Bool PeanoNat Lia.
From NQ Require Import Net.Hub.
Import ListNotations.


(* ------------------------------------------------------------------ part 1 *)
Lemma key_eqb_eq : forall a b, key_eqb a b = true <-> a = b.
Proof.
  intros [[a1 a2] a3] [[b1 b2] b3]; simpl. rewrite !andb_true_iff, !Nat.eqb_eq.
  split; [intros [[-> ->] ->]; reflexivity | intros H; inversion H; auto].
Qed.
Lemma key_eqb_refl : forall a, key_eqb a a = true.
Proof. intros; apply key_eqb_eq; reflexivity. Qed.
Lemma key_eqb_neq : forall a b, key_eqb a b = false <-> a <> b.
Proof. intros a b; split; intros H.
  - intros E; apply key_eqb_eq in E; congruence.
  - destruct (key_eqb a b) eqn:E; auto. apply key_eqb_eq in E; contradiction. Qed.
Lemma key_eqb_sym : forall a b, key_eqb a b = key_eqb b a.
Proof. intros a b. destruct (key_eqb a b) eqn:E.
  - apply key_eqb_eq in E; subst; symmetry; apply key_eqb_refl.
  - symmetry; apply key_eqb_neq; apply key_eqb_neq in E; congruence. Qed.
Lemma rkey_invol : forall k, rkey (rkey k) = k.
Proof. intros [[a b] i]; reflexivity. Qed.
Lemma rkey_inj : forall a b, rkey a = rkey b -> a = b.
Proof. intros a b H. rewrite <- (rkey_invol a), H, rkey_invol; reflexivity. Qed.

Lemma kmem_kadd : forall k p l, kmem p (kadd k l) = key_eqb p k || kmem p l.
Proof.
  intros k p l. unfold kadd. destruct (kmem k l) eqn:E.
  - destruct (key_eqb p k) eqn:F; auto. apply key_eqb_eq in F; subst; auto.
  - unfold kmem. rewrite existsb_app. simpl. rewrite orb_false_r, orb_comm. reflexivity.
Qed.
Lemma kmem_kdel : forall k p l, kmem p (kdel k l) = negb (key_eqb p k) && kmem p l.
Proof.
  intros k p l. unfold kmem, kdel. induction l as [|x l IH]; simpl.
  - rewrite andb_false_r; reflexivity.
  - destruct (key_eqb k x) eqn:E; simpl.
    + rewrite IH. apply key_eqb_eq in E; subst. destruct (key_eqb p x) eqn:F; simpl; auto.
    + rewrite IH. destruct (key_eqb p x) eqn:F; simpl.
      * apply key_eqb_eq in F; subst. rewrite key_eqb_sym, E. reflexivity.
      * destruct (key_eqb p k); reflexivity.
Qed.

Lemma aget_aset : forall V k k' (v : V) m, aget k (aset k' v m) = if key_eqb k k' then Some v else aget k m.
Proof.
  intros V k k' v m. induction m as [|[k0 v0] m IH]; simpl.
  - reflexivity.
  - destruct (key_eqb k' k0) eqn:E; simpl.
    + apply key_eqb_eq in E; subst. destruct (key_eqb k k0); reflexivity.
    + rewrite IH. destruct (key_eqb k k0) eqn:F; auto.
      apply key_eqb_eq in F; subst. rewrite key_eqb_sym, E. reflexivity.
Qed.
Lemma qget_aset : forall k k' v q, qget k (aset k' v q) = if key_eqb k k' then v else qget k q.
Proof. intros. unfold qget. rewrite aget_aset. destruct (key_eqb k k'); reflexivity. Qed.
Lemma aget_adel : forall V k k' (m : list (key * V)), aget k (adel k' m) = if key_eqb k k' then None else aget k m.
Proof.
  intros V k k' m. induction m as [|[k0 v0] m IH]; simpl.
  - destruct (key_eqb k k'); reflexivity.
  - destruct (key_eqb k' k0) eqn:E; simpl.
    + rewrite IH. apply key_eqb_eq in E; subst. destruct (key_eqb k k0); reflexivity.
    + rewrite IH. destruct (key_eqb k k0) eqn:F; auto.
      apply key_eqb_eq in F; subst. rewrite key_eqb_sym, E. reflexivity.
Qed.

(* ---- thread list frame lemmas *)
Lemma nth_set_nth_eq : forall A (l : list A) n x y, nth_error l n = Some y -> nth_error (set_nth n x l) n = Some x.
Proof. induction l; intros [|n] x y H; simpl in *; try discriminate; eauto. Qed.
Lemma nth_set_nth_neq : forall A (l : list A) n n' x, n <> n' -> nth_error (set_nth n x l) n' = nth_error l n'.
Proof. induction l; intros [|n] [|n'] x H; simpl in *; try congruence; auto. Qed.
Lemma length_set_nth : forall A (l : list A) n x, List.length (set_nth n x l) = List.length l.
Proof. induction l; intros [|n] x; simpl; auto. Qed.

Definition ctl (th : thread) := (t_key th, t_cb th, t_ops th, t_pc th, t_out th).

Lemma nth_upd_th : forall f t l n x,
  (forall y, ctl (f y) = ctl y) ->
  nth_error (upd_th f t l) n = Some x -> exists y, nth_error l n = Some y /\ ctl x = ctl y.
Proof.
  intros f t l n x Hf H. unfold upd_th in H. destruct (nth_error l t) eqn:E.
  - destruct (Nat.eq_dec t n) as [->|Hn].
    + erewrite nth_set_nth_eq in H by eauto. inversion H; subst. eexists; split; eauto.
    + rewrite nth_set_nth_neq in H by auto. eauto.
  - eauto.
Qed.
Lemma nth_upd_th_rev : forall f t l n y,
  (forall y, ctl (f y) = ctl y) ->
  nth_error l n = Some y -> exists x, nth_error (upd_th f t l) n = Some x /\ ctl x = ctl y.
Proof.
  intros f t l n y Hf H. unfold upd_th. destruct (nth_error l t) eqn:E.
  - destruct (Nat.eq_dec t n) as [->|Hn].
    + erewrite nth_set_nth_eq by eauto. rewrite H in E; inversion E; subst. eexists; split; eauto.
    + rewrite nth_set_nth_neq by auto. eauto.
  - eauto.
Qed.

(* threads of the post-state, seen through ctl *)
Lemma apply_threads : forall l t ths s evs n x,
  nth_error (s_th (apply l t ths s evs)) n = Some x ->
  exists y, nth_error ths n = Some y /\ ctl x = ctl y.
Proof.
  intros l t ths s evs n x H. destruct l; simpl in H; eauto;
  eapply nth_upd_th in H; eauto.
Qed.
Lemma apply_threads_rev : forall l t ths s evs n y,
  nth_error ths n = Some y ->
  exists x, nth_error (s_th (apply l t ths s evs)) n = Some x /\ ctl x = ctl y.
Proof.
  intros l t ths s evs n y H. destruct l; simpl; eauto;
  eapply nth_upd_th_rev in H; eauto.
Qed.
Lemma apply_tr : forall l t ths s evs, s_tr (apply l t ths s evs) = evs ++ s_tr s.
Proof. intros; destruct l; reflexivity. Qed.

(* decomposition of a step *)
Lemma stepl_inv : forall v s t l s',
  stepl v s t = Some (l, s') ->
  exists th th' evs, nth_error (s_th s) t = Some th /\ next v s th = Some (l, th', evs) /\
                     enabled l s = true /\ s' = apply l t (set_nth t th' (s_th s)) s evs.
Proof.
  intros v s t l s' H. unfold stepl in H.
  destruct (nth_error (s_th s) t) as [th|] eqn:E; [|discriminate].
  destruct (next v s th) as [[[l0 th'] evs]|] eqn:N; [|discriminate].
  destruct (enabled l0 s) eqn:En; [|discriminate].
  inversion H; subst. exists th, th', evs. auto.
Qed.

Lemma step_threads : forall v s t l s' n x,
  stepl v s t = Some (l, s') -> nth_error (s_th s') n = Some x ->
  exists th th' evs, nth_error (s_th s) t = Some th /\ next v s th = Some (l, th', evs) /\
    ((n = t /\ ctl x = ctl th') \/ (n <> t /\ exists y, nth_error (s_th s) n = Some y /\ ctl x = ctl y)).
Proof.
  intros v s t l s' n x H Hn. apply stepl_inv in H. destruct H as (th & th' & evs & Ht & Hnx & _ & ->).
  exists th, th', evs. split; auto. split; auto.
  apply apply_threads in Hn. destruct Hn as (y & Hy & Hc).
  destruct (Nat.eq_dec n t) as [->|Hne].
  - left. erewrite nth_set_nth_eq in Hy by eauto. inversion Hy; subst; auto.
  - right. rewrite nth_set_nth_neq in Hy by auto. eauto.
Qed.


(* ------------------------------------------------------------------ part 2 *)
Ltac next_inv H :=
  unfold next in H;
  let o := fresh "o" in let ops := fresh "ops" in let Hops := fresh "Hops" in
  let c := fresh "c" in let Hpc := fresh "Hpc" in
  match type of H with context [t_ops ?th] => destruct (t_ops th) as [|o ops] eqn:Hops end; [discriminate|];
  destruct o as [|?m|?nb|];
  match type of H with context [t_pc ?th] => destruct (t_pc th) as [|c|c|c|c] eqn:Hpc end;
  try discriminate; try (destruct c; try discriminate);
  cbn beta iota in H;
  repeat match type of H with context [match qget ?k ?q with _ => _ end] => destruct (qget k q) eqn:?Hq end;
  inversion H; subst; clear H.

(* queue-level logs *)
Definition sentq_ev (k : key) (e : event) : list msg :=
  match e with ESend k' m => if key_eqb k k' then [m] else [] | _ => [] end.
Definition recvq_ev (k : key) (e : event) : list msg :=
  match e with ERecv k' m => if key_eqb k k' then [m] else [] | _ => [] end.
Definition sentq k tr := flat_map (sentq_ev k) (rev tr).
Definition recvq k tr := flat_map (recvq_ev k) (rev tr).

Lemma sentq_app : forall k evs tr, sentq k (evs ++ tr) = sentq k tr ++ sentq k evs.
Proof. intros. unfold sentq. rewrite rev_app_distr, flat_map_app. reflexivity. Qed.
Lemma recvq_app : forall k evs tr, recvq k (evs ++ tr) = recvq k tr ++ recvq k evs.
Proof. intros. unfold recvq. rewrite rev_app_distr, flat_map_app. reflexivity. Qed.

Definition inv_q (s : state) : Prop :=
  forall k, sentq k (s_tr s) = recvq k (s_tr s) ++ qget k (s_q s).

Lemma inv_q_init : forall cfg, inv_q (init cfg).
Proof. intros cfg k. reflexivity. Qed.

Lemma inv_q_step : forall s t l s', inv_q s -> stepl Fixed s t = Some (l, s') -> inv_q s'.
Proof.
  intros s t l s' I H. apply stepl_inv in H. destruct H as (th & th' & evs & Ht & Hn & He & ->).
  intros k. rewrite apply_tr, sentq_app, recvq_app. specialize (I k).
  next_inv Hn; repeat match goal with |- context [if kmem ?a ?b then _ else _] => destruct (kmem a b) eqn:? end;
  simpl; rewrite ?app_nil_r; try exact I.
  - (* S_app *)
    rewrite qget_aset. unfold sentq at 2; simpl. rewrite app_nil_r.
    destruct (key_eqb k (rkey (t_key th))) eqn:E.
    + apply key_eqb_eq in E; subst k. rewrite I, app_assoc. reflexivity.
    + rewrite app_nil_r. exact I.
  - (* R_pop, empty queue *)
    rewrite qget_aset. destruct (key_eqb k (t_key th)) eqn:E.
    + apply key_eqb_eq in E; subst k. rewrite Hq in *. simpl. exact I.
    + exact I.
  - (* R_pop, m :: _ *)
    rewrite qget_aset. unfold recvq at 2; simpl. rewrite app_nil_r.
    destruct (key_eqb k (t_key th)) eqn:E.
    + apply key_eqb_eq in E; subst k. rewrite Hq in I. rewrite Hq. simpl. rewrite I, <- app_assoc. reflexivity.
    + rewrite app_nil_r. exact I.
Qed.


(* ------------------------------------------------------------------ part 3 *)
Ltac des :=
  repeat (match goal with
  | |- context [if kmem ?a ?b then _ else _] => destruct (kmem a b) eqn:?
  | |- context [match aget ?a ?b with _ => _ end] => destruct (aget a b) eqn:?
  | |- context [if t_cb ?a then _ else _] => destruct (t_cb a) eqn:?
  | |- context [if (?n =? 0) then _ else _] => destruct (n =? 0) eqn:?
  | |- context [if ?nb then _ else _] => is_var nb; destruct nb
  end).

Inductive reach (cfg : list (key * bool * list op)) : state -> Prop :=
| reach_init : reach cfg (init cfg)
| reach_step : forall s t l s', reach cfg s -> stepl Fixed s t = Some (l, s') -> reach cfg s'.

Lemma reach_run : forall cfg sch s, reach cfg s -> reach cfg (run Fixed s sch).
Proof.
  intros cfg sch. induction sch as [|t r IH]; intros s R; simpl; auto.
  unfold step. destruct (stepl Fixed s t) as [[l s']|] eqn:E; auto.
  apply IH. eapply reach_step; eauto.
Qed.

Definition holds (th : thread) : bool :=
  match t_pc th with
  | PC (C_cb1 | C_cb2 | C_open | C_rem | C_rel) => true
  | PS (S_ref | S_app | S_rel) => true
  | PR (R_ref | R_len | R_pop | R_rel2 _ | R_rel0) => true
  | PD _ => true
  | _ => false
  end.

Definition pc_ok (th : thread) : bool :=
  match t_pc th, t_ops th with
  | P0, _ => true
  | PC (C_orem | C_ocb1 | C_ocb2), _ => false
  | PC (C_cb1 | C_cb2), Connect :: _ => t_cb th
  | PC _, Connect :: _ => true
  | PS _, Send _ :: _ => true
  | PR R_sleep, Recv nb :: _ => negb nb
  | PR (R_orel | R_olen | R_oacq2), _ => false
  | PR (R_rel2 (ROk | RConnErr | REmpty)), _ => false
  | PR _, Recv _ :: _ => true
  | PD _, Disconnect :: _ => true
  | _, _ => false
  end.

Lemma ctl_holds : forall x y, ctl x = ctl y -> holds x = holds y.
Proof. intros x y H. unfold ctl in H. inversion H. unfold holds. replace (t_pc x) with (t_pc y) by congruence. reflexivity. Qed.
Lemma ctl_pc_ok : forall x y, ctl x = ctl y -> pc_ok x = pc_ok y.
Proof. intros x y H. unfold ctl in H. inversion H. unfold pc_ok.
  replace (t_pc x) with (t_pc y) by congruence. replace (t_ops x) with (t_ops y) by congruence.
  replace (t_cb x) with (t_cb y) by congruence. reflexivity. Qed.

Lemma next_keeps : forall s th l th' evs,
  next Fixed s th = Some (l, th', evs) -> t_key th' = t_key th /\ t_cb th' = t_cb th.
Proof. intros s th l th' evs H. next_inv H; des; simpl; auto. Qed.

Lemma next_lock_facts : forall s th l th' evs,
  next Fixed s th = Some (l, th', evs) -> pc_ok th = true ->
  pc_ok th' = true /\
  match l with
  | LAcq => holds th = false /\ holds th' = true
  | LRel => holds th = true /\ holds th' = false
  | _ => holds th' = holds th
  end.
Proof.
  intros s th l th' evs H Hok. unfold pc_ok in Hok.
  next_inv H; rewrite ?Hops, ?Hpc in Hok; unfold pc_ok, holds; rewrite ?Hpc; des; simpl; rewrite ?Hops; simpl;
    try (split; [reflexivity|]); auto; try discriminate; try (destruct ops; reflexivity).
Qed.


(* ------------------------------------------------------------------ part 4 *)
Lemma apply_lock : forall l t ths s evs,
  s_lock (apply l t ths s evs) = match l with LAcq => Some t | LRel => None | _ => s_lock s end.
Proof. intros; destruct l; reflexivity. Qed.

Record inv_lock (s : state) : Prop := {
  il_ok : forall t th, nth_error (s_th s) t = Some th -> pc_ok th = true;
  il_h : forall t th, nth_error (s_th s) t = Some th -> holds th = true -> s_lock s = Some t;
  il_l : forall t, s_lock s = Some t -> exists th, nth_error (s_th s) t = Some th /\ holds th = true }.

Lemma init_thread : forall cfg n x, nth_error (s_th (init cfg)) n = Some x ->
  exists c, nth_error cfg n = Some c /\ x = mk_thread c.
Proof.
  intros cfg n x H. simpl in H. rewrite nth_error_map in H.
  destruct (nth_error cfg n) eqn:E; simpl in H; inversion H; eauto.
Qed.

Lemma inv_lock_init : forall cfg, inv_lock (init cfg).
Proof.
  intros cfg. split.
  - intros t th H. apply init_thread in H. destruct H as ([[k cb] ops] & _ & ->). reflexivity.
  - intros t th H Hh. apply init_thread in H. destruct H as ([[k cb] ops] & _ & ->). discriminate.
  - intros t H. discriminate.
Qed.

(* the thread at index t after the step *)
Lemma step_actor : forall s t l s',
  stepl Fixed s t = Some (l, s') ->
  exists th th' evs x, nth_error (s_th s) t = Some th /\ next Fixed s th = Some (l, th', evs) /\
     nth_error (s_th s') t = Some x /\ ctl x = ctl th'.
Proof.
  intros s t l s' H. apply stepl_inv in H. destruct H as (th & th' & evs & Ht & Hn & _ & ->).
  destruct (apply_threads_rev l t (set_nth t th' (s_th s)) s evs t th') as (x & Hx & Hc).
  { eapply nth_set_nth_eq; eauto. }
  exists th, th', evs, x. auto.
Qed.
Lemma step_other : forall s t l s' n y,
  stepl Fixed s t = Some (l, s') -> n <> t -> nth_error (s_th s) n = Some y ->
  exists x, nth_error (s_th s') n = Some x /\ ctl x = ctl y.
Proof.
  intros s t l s' n y H Hne Hy. apply stepl_inv in H. destruct H as (th & th' & evs & Ht & Hn & _ & ->).
  apply apply_threads_rev. rewrite nth_set_nth_neq; auto.
Qed.

Lemma inv_lock_step : forall s t l s', inv_lock s -> stepl Fixed s t = Some (l, s') -> inv_lock s'.
Proof.
  intros s t l s' [Iok Ih Il] H.
  pose proof (stepl_inv _ _ _ _ _ H) as (th & th' & evs & Ht & Hn & He & Hs').
  pose proof (next_lock_facts _ _ _ _ _ Hn (Iok _ _ Ht)) as [Hok' Hl].
  assert (Lk : s_lock s' = match l with LAcq => Some t | LRel => None | _ => s_lock s end).
  { subst s'. apply apply_lock. }
  split.
  - intros n x Hx. destruct (step_threads _ _ _ _ _ _ _ H Hx) as (th0 & th0' & evs0 & Ht0 & Hn0 & Hc).
    rewrite Ht in Ht0; inversion Ht0; subst th0. rewrite Hn in Hn0; inversion Hn0; subst th0' evs0.
    destruct Hc as [[-> Hc]|[Hne (y & Hy & Hc)]].
    + rewrite (ctl_pc_ok _ _ Hc); auto.
    + rewrite (ctl_pc_ok _ _ Hc); eauto.
  - intros n x Hx Hh. destruct (step_threads _ _ _ _ _ _ _ H Hx) as (th0 & th0' & evs0 & Ht0 & Hn0 & Hc).
    rewrite Ht in Ht0; inversion Ht0; subst th0. rewrite Hn in Hn0; inversion Hn0; subst th0' evs0.
    rewrite Lk.
    destruct Hc as [[-> Hc]|[Hne (y & Hy & Hc)]].
    + rewrite (ctl_holds _ _ Hc) in Hh.
      destruct l; try reflexivity; try (rewrite Hl in Hh; eapply Ih; eauto; fail).
      destruct Hl as [_ Hl]; congruence.
    + rewrite (ctl_holds _ _ Hc) in Hh. pose proof (Ih _ _ Hy Hh) as Hlk.
      destruct l; auto.
      * simpl in He. rewrite Hlk in He. discriminate.
      * destruct Hl as [Hl _]. pose proof (Ih _ _ Ht Hl). congruence.
  - intros n Hn'. rewrite Lk in Hn'.
    destruct (step_actor _ _ _ _ H) as (th1 & th1' & evs1 & x & Ht1 & Hn1 & Hx & Hc).
    rewrite Ht in Ht1; inversion Ht1; subst th1. rewrite Hn in Hn1; inversion Hn1; subst th1' evs1.
    assert (G : s_lock s = Some n -> (l <> LAcq) -> (l <> LRel) -> holds th' = holds th ->
                exists th2, nth_error (s_th s') n = Some th2 /\ holds th2 = true).
    { intros Hlk _ _ Hhh. destruct (Il _ Hlk) as (y & Hy & Hhy).
      destruct (Nat.eq_dec n t) as [->|Hne].
      - exists x. split; auto. rewrite (ctl_holds _ _ Hc), Hhh. congruence.
      - destruct (step_other _ _ _ _ _ _ H Hne Hy) as (x2 & Hx2 & Hc2). exists x2. split; auto.
        rewrite (ctl_holds _ _ Hc2); auto. }
    destruct l; try (apply G; [exact Hn'|discriminate|discriminate|exact Hl]).
    + inversion Hn'; subst n. exists x. split; auto. rewrite (ctl_holds _ _ Hc). tauto.
    + discriminate.
Qed.

Lemma reach_inv_lock : forall cfg s, reach cfg s -> inv_lock s.
Proof. intros cfg s R. induction R; [apply inv_lock_init | eapply inv_lock_step; eauto]. Qed.


(* ------------------------------------------------------------------ part 5 *)
(* number of the holder's own steps until it releases the lock *)
Definition rel_dist (p : pc) : nat :=
  match p with
  | PC C_cb1 => 5 | PC C_cb2 => 4 | PC C_open => 3 | PC C_rem => 2 | PC C_rel => 1
  | PS S_ref => 3 | PS S_app => 2 | PS S_rel => 1
  | PR R_ref => 4 | PR R_len => 3 | PR R_pop => 2 | PR (R_rel2 _) => 1 | PR R_rel0 => 1
  | PD D_getl => 9 | PD (D_call _) => 8 | PD D_ochk => 7 | PD D_orm => 6 | PD D_rchk => 5
  | PD D_rrm => 4 | PD D_rpop => 3 | PD D_lpop => 2 | PD D_rel => 1
  | _ => 0
  end.

Lemma holder_moves : forall s th,
  pc_ok th = true -> holds th = true ->
  exists l th' evs, next Fixed s th = Some (l, th', evs) /\ l <> LAcq /\ l <> LSleep /\
    (l = LRel \/ (holds th' = true /\ rel_dist (t_pc th') < rel_dist (t_pc th))).
Proof.
  intros s th Hok Hh. unfold pc_ok, holds in *.
  destruct (t_pc th) as [|c|c|c|c] eqn:Hpc; try discriminate; destruct c; try discriminate;
  try (match goal with X : _ = PR (R_rel2 ?r) |- _ => destruct r end);
  destruct (t_ops th) as [|[|?m|?nb|] ops] eqn:Hops; try discriminate;
  unfold next; rewrite Hops, Hpc; cbn beta iota;
  try (match goal with |- context [match qget ?k ?q with _ => _ end] => destruct (qget k q) end);
  do 3 eexists; (split; [reflexivity|]); (split; [discriminate|]); (split; [discriminate|]);
  try (left; reflexivity); right; unfold holds; des; simpl; split; auto; lia.
Qed.

Definition no_lock_deadlock_stmt : Prop :=
  forall cfg sch t, let s := run Fixed (init cfg) sch in
  s_lock s = Some t ->
  exists th l s', nth_error (s_th s) t = Some th /\ stepl Fixed s t = Some (l, s') /\
    l <> LAcq /\ l <> LSleep /\
    (s_lock s' = None \/
     (s_lock s' = Some t /\ exists th', nth_error (s_th s') t = Some th' /\ rel_dist (t_pc th') < rel_dist (t_pc th))).

Theorem no_lock_deadlock : no_lock_deadlock_stmt.
Proof.
  intros cfg sch t s Hlk.
  assert (R : reach cfg s) by (apply reach_run; constructor).
  destruct (reach_inv_lock _ _ R) as [Iok Ih Il].
  destruct (Il _ Hlk) as (th & Ht & Hh).
  destruct (holder_moves s th (Iok _ _ Ht) Hh) as (l & th' & evs & Hn & HnA & HnS & Hd).
  assert (En : enabled l s = true) by (destruct l; try reflexivity; congruence).
  assert (Hst : stepl Fixed s t = Some (l, apply l t (set_nth t th' (s_th s)) s evs)).
  { unfold stepl. rewrite Ht, Hn, En. reflexivity. }
  exists th, l, (apply l t (set_nth t th' (s_th s)) s evs).
  repeat split; auto.
  rewrite apply_lock.
  destruct Hd as [->|[Hh' Hlt]]; [left; reflexivity|].
  assert (Hc2 : l = LRel \/ (l <> LRel /\ match l with LAcq => Some t | LRel => None | _ => s_lock s end = Some t)).
  { destruct l; auto; try (right; split; [discriminate|exact Hlk]). }
  destruct Hc2 as [->|[HnR Hlk']]; [left; reflexivity|].
  right. split.
  - exact Hlk'.
  - destruct (step_actor _ _ _ _ Hst) as (th1 & th1' & evs1 & x & Ht1 & Hn1 & Hx & Hc).
    rewrite Ht in Ht1; inversion Ht1; subst th1. rewrite Hn in Hn1; inversion Hn1; subst th1' evs1.
    exists x. split; auto. unfold ctl in Hc. inversion Hc. congruence.
Qed.


(* ------------------------------------------------------------------ part 6 *)
(* "p opened, and event x has not happened since" *)
Definition opened_no (p : key) (x : event) (tr : list event) : Prop :=
  exists a b, tr = b ++ EOpenAdd p :: a /\ ~ In x b.

Definition fresh (k : key) (tr : list event) : Prop :=
  opened_no (rkey k) (EDisc k) tr \/ opened_no (rkey k) (EOpenDel (rkey k)) tr.

Lemma on_ext : forall p x tr evs, opened_no p x tr -> ~ In x evs -> opened_no p x (evs ++ tr).
Proof.
  intros p x tr evs (a & b & -> & Hb) He. exists a, (evs ++ b). split.
  - rewrite app_assoc. reflexivity.
  - intros H. apply in_app_or in H. tauto.
Qed.
Lemma on_new : forall p x tr, opened_no p x (EOpenAdd p :: tr).
Proof. intros. exists tr, []. split; auto. Qed.

Record inv_rv (s : state) : Prop := {
  ir_o : forall p, kmem p (s_open s) = true -> opened_no p (EOpenDel p) (s_tr s);
  ir_r : forall p, kmem p (s_rem s) = true -> opened_no p (EDisc (rkey p)) (s_tr s);
  ir_c : forall t th, nth_error (s_th s) t = Some th -> t_pc th = PC C_rem ->
                      opened_no (t_key th) (EDisc (rkey (t_key th))) (s_tr s);
  ir_p : forall k tr1 tr2, s_tr s = tr2 ++ EConnRet k :: tr1 -> fresh k tr1 }.

Lemma inv_rv_init : forall cfg, inv_rv (init cfg).
Proof.
  intros cfg. split; simpl; try discriminate.
  - intros t th H Hpc. rewrite nth_error_map in H. destruct (nth_error cfg t) as [[[k cb] ops]|]; simpl in H; inversion H; subst.
    discriminate.
  - intros k tr1 tr2 H. destruct tr2; discriminate.
Qed.

(* a split of (evs ++ tr) at an event that does not occur in evs lies in tr *)
Lemma split_in_tail : forall (e : event) evs tr tr1 tr2,
  evs ++ tr = tr2 ++ e :: tr1 -> ~ In e evs -> exists tr2', tr = tr2' ++ e :: tr1.
Proof.
  induction evs as [|x evs IH]; intros tr tr1 tr2 H Hn; simpl in *.
  - eauto.
  - destruct tr2 as [|y tr2]; simpl in H; inversion H; subst.
    + exfalso. apply Hn. auto.
    + eapply IH; eauto.
Qed.

Lemma apply_open : forall l t ths s evs,
  s_open (apply l t ths s evs) = match l with LOpenAdd k => kadd k (s_open s) | LOpenDel k => kdel k (s_open s) | _ => s_open s end.
Proof. intros; destruct l; reflexivity. Qed.
Lemma apply_rem : forall l t ths s evs,
  s_rem (apply l t ths s evs) = match l with LRemAdd k => kadd k (s_rem s) | LRemDel k => kdel k (s_rem s) | _ => s_rem s end.
Proof. intros; destruct l; reflexivity. Qed.

(* what the events of one access can be *)
Ltac des2 :=
  repeat (match goal with
  | H : context [if kmem ?a ?b then _ else _] |- _ => destruct (kmem a b) eqn:?
  | H : context [match aget ?a ?b with _ => _ end] |- _ => destruct (aget a b) eqn:?
  | H : context [if t_cb ?a then _ else _] |- _ => destruct (t_cb a) eqn:?
  | H : context [if (?n =? 0) then _ else _] |- _ => destruct (n =? 0) eqn:?
  | H : context [if ?nb then _ else _] |- _ => is_var nb; destruct nb
  end); des.

Ltac ev_in Hin :=
  simpl in Hin;
  repeat (destruct Hin as [Hin|Hin]; [try discriminate; inversion Hin; subst; clear Hin|]);
  try contradiction.

Lemma ne_opendel : forall s th l th' evs p,
  next Fixed s th = Some (l, th', evs) -> In (EOpenDel p) evs -> l = LOpenDel p.
Proof. intros s th l th' evs p H Hin. next_inv H; des2; ev_in Hin; reflexivity. Qed.

Lemma ne_openadd : forall s th l th' evs p,
  next Fixed s th = Some (l, th', evs) -> In (EOpenAdd p) evs ->
  l = LOpenAdd p /\ p = t_key th /\ evs = [EOpenAdd p] /\ t_pc th' = PC C_rem.
Proof. intros s th l th' evs p H Hin. next_inv H; des2; ev_in Hin; auto. Qed.

Lemma ne_disc : forall s th l th' evs p,
  next Fixed s th = Some (l, th', evs) -> In (EDisc p) evs ->
  p = t_key th /\ holds th = true /\
  kmem (rkey p) (match l with LRemDel q => kdel q (s_rem s) | _ => s_rem s end) = false.
Proof.
  intros s th l th' evs p H Hin. next_inv H; unfold holds; rewrite ?Hpc; des2; ev_in Hin; repeat split; auto.
  rewrite kmem_kdel, key_eqb_refl. reflexivity.
Qed.

Lemma ne_connret : forall s th l th' evs p,
  next Fixed s th = Some (l, th', evs) -> In (EConnRet p) evs ->
  p = t_key th /\ evs = [EConnRet p] /\
  (kmem (rkey p) (s_open s) = true \/ kmem (rkey p) (s_rem s) = true) /\
  (forall q, l <> LOpenAdd q) /\ (forall q, l <> LOpenDel q) /\ (forall q, l <> LRemAdd q) /\ (forall q, l <> LRemDel q).
Proof.
  intros s th l th' evs p H Hin. next_inv H; des2; ev_in Hin; repeat split; auto; try discriminate.
Qed.

Lemma ne_l_openadd : forall s th th' evs p,
  next Fixed s th = Some (LOpenAdd p, th', evs) -> evs = [EOpenAdd p].
Proof. intros s th th' evs p H. next_inv H; reflexivity. Qed.

Lemma ne_l_remadd : forall s th th' evs p,
  next Fixed s th = Some (LRemAdd p, th', evs) ->
  p = t_key th /\ t_pc th = PC C_rem /\ evs = [ERemAdd p].
Proof. intros s th th' evs p H. next_inv H; auto. Qed.

Lemma ne_to_crem : forall s th l th' evs,
  next Fixed s th = Some (l, th', evs) -> t_pc th' = PC C_rem -> l = LOpenAdd (t_key th).
Proof. intros s th l th' evs H E. next_inv H; des2; simpl in E; try discriminate; reflexivity. Qed.


(* ------------------------------------------------------------------ part 7 *)
Lemma split_cases : forall (e : event) evs tr tr1 tr2,
  evs ++ tr = tr2 ++ e :: tr1 ->
  (exists tr2', tr = tr2' ++ e :: tr1) \/ (exists e1 e2, evs = e1 ++ e :: e2 /\ tr1 = e2 ++ tr).
Proof.
  induction evs as [|x evs IH]; intros tr tr1 tr2 H; simpl in *.
  - left; eauto.
  - destruct tr2 as [|y tr2]; simpl in H; inversion H; subst.
    + right. exists [], evs. auto.
    + destruct (IH _ _ _ H2) as [L|(e1 & e2 & -> & ->)]; auto.
      right. exists (y :: e1), e2. auto.
Qed.

Lemma single_split : forall (x e : event) e1 e2, [x] = e1 ++ e :: e2 -> e1 = [] /\ e2 = [] /\ x = e.
Proof.
  intros x e [|a e1] e2 H; simpl in H; inversion H; subst; auto.
  destruct e1; discriminate.
Qed.

Lemma ctl_key : forall x y, ctl x = ctl y -> t_key x = t_key y /\ t_pc x = t_pc y.
Proof. intros x y H. unfold ctl in H. inversion H. auto. Qed.

Lemma inv_rv_step : forall s t l s', inv_lock s -> inv_rv s -> stepl Fixed s t = Some (l, s') -> inv_rv s'.
Proof.
  intros s t l s' [Iok Ih Il] [Io Ir Ic Ip] H.
  pose proof (stepl_inv _ _ _ _ _ H) as (th & th' & evs & Ht & Hn & He & Hs').
  assert (Htr : s_tr s' = evs ++ s_tr s) by (subst s'; apply apply_tr).
  assert (Hop : s_open s' = match l with LOpenAdd k => kadd k (s_open s) | LOpenDel k => kdel k (s_open s) | _ => s_open s end)
    by (subst s'; apply apply_open).
  assert (Hrm : s_rem s' = match l with LRemAdd k => kadd k (s_rem s) | LRemDel k => kdel k (s_rem s) | _ => s_rem s end)
    by (subst s'; apply apply_rem).
  split.
  - (* open *)
    intros p Hp. rewrite Htr. rewrite Hop in Hp.
    assert (N : In (EOpenDel p) evs -> l = LOpenDel p) by (apply (ne_opendel _ _ _ _ _ _ Hn)).
    destruct l; try (apply on_ext; [apply Io; exact Hp | intros Hi; apply N in Hi; discriminate]).
    + (* LOpenAdd *)
      rewrite (ne_l_openadd _ _ _ _ _ Hn). rewrite kmem_kadd in Hp.
      destruct (key_eqb p k) eqn:E.
      * apply key_eqb_eq in E; subst. simpl. apply on_new.
      * simpl in Hp. apply on_ext; [apply Io; exact Hp|]. simpl. intros [X|[]]; discriminate.
    + (* LOpenDel *)
      rewrite kmem_kdel in Hp. apply andb_true_iff in Hp. destruct Hp as [Hne Hp].
      apply on_ext; [apply Io; exact Hp|]. intros Hi. apply N in Hi. inversion Hi; subst.
      rewrite key_eqb_refl in Hne. discriminate.
  - (* remote *)
    intros p Hp. rewrite Htr. rewrite Hrm in Hp.
    assert (N : ~ In (EDisc (rkey p)) evs).
    { intros Hi. destruct (ne_disc _ _ _ _ _ _ Hn Hi) as (_ & _ & Hf). rewrite rkey_invol in Hf.
      destruct l; try congruence.
      destruct (ne_l_remadd _ _ _ _ _ Hn) as (_ & _ & Ev). rewrite Ev in Hi. destruct Hi as [X|[]]; discriminate. }
    destruct l; try (apply on_ext; [apply Ir; exact Hp | exact N]).
    + (* LRemAdd *)
      destruct (ne_l_remadd _ _ _ _ _ Hn) as (-> & Hpc & ->).
      rewrite kmem_kadd in Hp. destruct (key_eqb p (t_key th)) eqn:E.
      * apply key_eqb_eq in E; subst. apply on_ext; [eapply Ic; eauto | exact N].
      * simpl in Hp. apply on_ext; [apply Ir; exact Hp | exact N].
    + (* LRemDel *)
      rewrite kmem_kdel in Hp. apply andb_true_iff in Hp. destruct Hp as [_ Hp].
      apply on_ext; [apply Ir; exact Hp | exact N].
  - (* a thread between open.add and remote.add *)
    intros n x Hx Hpc. rewrite Htr.
    destruct (step_threads _ _ _ _ _ _ _ H Hx) as (th0 & th0' & evs0 & Ht0 & Hn0 & Hc).
    rewrite Ht in Ht0; inversion Ht0; subst th0. rewrite Hn in Hn0; inversion Hn0; subst th0' evs0.
    destruct Hc as [[-> Hc]|[Hne (y & Hy & Hc)]]; apply ctl_key in Hc; destruct Hc as [Hk Hp].
    + rewrite Hp in Hpc. pose proof (ne_to_crem _ _ _ _ _ Hn Hpc) as ->.
      rewrite (ne_l_openadd _ _ _ _ _ Hn). rewrite Hk. destruct (next_keeps _ _ _ _ _ Hn) as [-> _].
      simpl. apply on_new.
    + rewrite Hk. rewrite Hp in Hpc. apply on_ext; [eapply Ic; eauto|].
      intros Hi. destruct (ne_disc _ _ _ _ _ _ Hn Hi) as (_ & Hh & _).
      pose proof (Ih _ _ Ht Hh) as L1.
      assert (Hhy : holds y = true) by (unfold holds; rewrite Hpc; reflexivity).
      pose proof (Ih _ _ Hy Hhy) as L2. congruence.
  - (* connect returns *)
    intros k tr1 tr2 Hsp. rewrite Htr in Hsp.
    destruct (split_cases _ _ _ _ _ Hsp) as [(tr2' & E)|(e1 & e2 & E1 & E2)].
    + eapply Ip; eauto.
    + assert (Hi : In (EConnRet k) evs) by (rewrite E1; apply in_or_app; right; left; reflexivity).
      destruct (ne_connret _ _ _ _ _ _ Hn Hi) as (-> & Ev & Hm & _).
      rewrite Ev in E1. apply single_split in E1. destruct E1 as (-> & -> & _). simpl in E2. subst tr1.
      destruct Hm as [Hm|Hm].
      * right. apply Io; exact Hm.
      * left. pose proof (Ir _ Hm) as G. rewrite rkey_invol in G. exact G.
Qed.

Lemma reach_inv_rv : forall cfg s, reach cfg s -> inv_rv s.
Proof.
  intros cfg s R. induction R; [apply inv_rv_init|].
  eapply inv_rv_step; eauto. eapply reach_inv_lock; eauto.
Qed.

Definition rendezvous_stmt : Prop :=
  forall cfg sch k tr1 tr2,
    s_tr (run Fixed (init cfg) sch) = tr2 ++ EConnRet k :: tr1 -> fresh k tr1.

Theorem rendezvous : rendezvous_stmt.
Proof.
  intros cfg sch k tr1 tr2 H.
  eapply (ir_p _ (reach_inv_rv cfg _ (reach_run cfg sch _ (reach_init cfg)))); eauto.
Qed.


(* ------------------------------------------------------------------ part 8 *)
Definition cfg_t := list (key * bool * list op).
Definition plain (cfg : cfg_t) (k : key) : Prop :=
  forall c, In c cfg -> fst (fst c) = k -> snd (fst c) = false.
Definition sole (cfg : cfg_t) (k : key) (r : nat) : Prop :=
  forall n c, nth_error cfg n = Some c -> fst (fst c) = k -> n = r.

Lemma ctl_kc : forall x y, ctl x = ctl y ->
  t_key x = t_key y /\ t_cb x = t_cb y /\ t_pc x = t_pc y /\ t_ops x = t_ops y /\ t_out x = t_out y.
Proof. intros x y H. unfold ctl in H. inversion H. auto. Qed.

Lemma step_fwd : forall s t l s' n y,
  stepl Fixed s t = Some (l, s') -> nth_error (s_th s) n = Some y ->
  exists x, nth_error (s_th s') n = Some x /\ t_key x = t_key y /\ t_cb x = t_cb y.
Proof.
  intros s t l s' n y H Hy. destruct (Nat.eq_dec n t) as [->|Hne].
  - destruct (step_actor _ _ _ _ H) as (th & th' & evs & x & Ht & Hn & Hx & Hc).
    rewrite Hy in Ht; inversion Ht; subst th. apply ctl_kc in Hc. destruct Hc as (Hk & Hb & _).
    destruct (next_keeps _ _ _ _ _ Hn) as [K1 K2]. exists x. split; auto. split; congruence.
  - destruct (step_other _ _ _ _ _ _ H Hne Hy) as (x & Hx & Hc). apply ctl_kc in Hc. exists x. tauto.
Qed.

(* ---- thread identities never change *)
Definition inv_keys (cfg : cfg_t) (s : state) : Prop :=
  forall n x, nth_error (s_th s) n = Some x ->
  exists c, nth_error cfg n = Some c /\ t_key x = fst (fst c) /\ t_cb x = snd (fst c).

Lemma reach_inv_keys : forall cfg s, reach cfg s -> inv_keys cfg s.
Proof.
  intros cfg s R. induction R.
  - intros n x H. apply init_thread in H. destruct H as ([[k cb] ops] & Hc & ->). eexists; split; eauto.
  - intros n x Hx. destruct (step_threads _ _ _ _ _ _ _ H Hx) as (th & th' & evs & Ht & Hn & Hc).
    destruct Hc as [[-> Hc]|[Hne (y & Hy & Hc)]]; apply ctl_kc in Hc; destruct Hc as (Hk & Hb & _).
    + destruct (IHR _ _ Ht) as (c & Hc & K1 & K2). destruct (next_keeps _ _ _ _ _ Hn) as [N1 N2].
      exists c. split; auto. split; congruence.
    + destruct (IHR _ _ Hy) as (c & Hc & K1 & K2). exists c. split; auto. split; congruence.
Qed.

(* ---- callback table *)
Lemma apply_rcb : forall l t ths s evs,
  s_rcb (apply l t ths s evs) = match l with LRcbSet k => aset k t (s_rcb s) | LRcbPop k => adel k (s_rcb s) | _ => s_rcb s end.
Proof. intros; destruct l; reflexivity. Qed.

Lemma ne_l_rcbset : forall s th th' evs q,
  next Fixed s th = Some (LRcbSet q, th', evs) -> q = t_key th /\ t_pc th = PC C_cb1 /\ exists ops, t_ops th = Connect :: ops.
Proof. intros s th th' evs q H. next_inv H; eauto. Qed.
Lemma ne_to_scall : forall s th l th' evs tg,
  next Fixed s th = Some (l, th', evs) -> t_pc th' = PS (S_call tg) -> aget (rkey (t_key th)) (s_rcb s) = Some tg.
Proof. intros s th l th' evs tg H E. next_inv H; des2; simpl in E; try discriminate. inversion E; subst. reflexivity. Qed.
Lemma ne_cb : forall s th l th' evs k m,
  next Fixed s th = Some (l, th', evs) -> In (ECb k m) evs ->
  exists tg, t_pc th = PS (S_call tg) /\ k = rkey (t_key th).
Proof. intros s th l th' evs k m H Hin. next_inv H; des2; ev_in Hin; eauto. Qed.

Record inv_cb (s : state) : Prop := {
  icb_t : forall k tg, aget k (s_rcb s) = Some tg ->
            exists x, nth_error (s_th s) tg = Some x /\ t_key x = k /\ t_cb x = true;
  icb_c : forall t th tg, nth_error (s_th s) t = Some th -> t_pc th = PS (S_call tg) ->
            exists x, nth_error (s_th s) tg = Some x /\ t_key x = rkey (t_key th) /\ t_cb x = true;
  icb_e : forall k m, In (ECb k m) (s_tr s) ->
            exists n x, nth_error (s_th s) n = Some x /\ t_key x = k /\ t_cb x = true }.

Lemma inv_cb_init : forall cfg, inv_cb (init cfg).
Proof.
  intros cfg. split; simpl; try discriminate; try contradiction.
  intros t th tg H Hpc. rewrite nth_error_map in H.
  destruct (nth_error cfg t) as [[[k cb] ops]|]; simpl in H; inversion H; subst. discriminate.
Qed.

Lemma inv_cb_step : forall s t l s', inv_lock s -> inv_cb s -> stepl Fixed s t = Some (l, s') -> inv_cb s'.
Proof.
  intros s t l s' [Iok Ih Il] [It Ic Ie] H.
  pose proof (stepl_inv _ _ _ _ _ H) as (th & th' & evs & Ht & Hn & He & Hs').
  assert (Htr : s_tr s' = evs ++ s_tr s) by (subst s'; apply apply_tr).
  assert (Hrc : s_rcb s' = match l with LRcbSet k => aset k t (s_rcb s) | LRcbPop k => adel k (s_rcb s) | _ => s_rcb s end)
    by (subst s'; apply apply_rcb).
  assert (FW : forall k tg, (exists x, nth_error (s_th s) tg = Some x /\ t_key x = k /\ t_cb x = true) ->
                           exists x, nth_error (s_th s') tg = Some x /\ t_key x = k /\ t_cb x = true).
  { intros k tg (y & Hy & K1 & K2). destruct (step_fwd _ _ _ _ _ _ H Hy) as (x & Hx & E1 & E2).
    exists x. split; auto. split; congruence. }
  split.
  - intros k tg Hg. rewrite Hrc in Hg. apply FW.
    destruct l; try (apply It; exact Hg).
    + (* set *)
      destruct (ne_l_rcbset _ _ _ _ _ Hn) as (-> & Hpc & ops & Hops).
      rewrite aget_aset in Hg. destruct (key_eqb k (t_key th)) eqn:E.
      * apply key_eqb_eq in E; subst. inversion Hg; subst. exists th. split; auto. split; auto.
        pose proof (Iok _ _ Ht) as Hok. unfold pc_ok in Hok. rewrite Hpc, Hops in Hok. exact Hok.
      * apply It; exact Hg.
    + (* pop *)
      rewrite aget_adel in Hg. destruct (key_eqb k k0); [discriminate|]. apply It; exact Hg.
  - intros n x tg Hx Hpc.
    destruct (step_threads _ _ _ _ _ _ _ H Hx) as (th0 & th0' & evs0 & Ht0 & Hn0 & Hc).
    rewrite Ht in Ht0; inversion Ht0; subst th0. rewrite Hn in Hn0; inversion Hn0; subst th0' evs0.
    destruct Hc as [[-> Hc]|[Hne (y & Hy & Hc)]]; apply ctl_kc in Hc; destruct Hc as (Hk & _ & Hp & _).
    + rewrite Hp in Hpc. pose proof (ne_to_scall _ _ _ _ _ _ Hn Hpc) as Hg.
      destruct (next_keeps _ _ _ _ _ Hn) as [N1 _]. rewrite Hk, N1. apply FW. apply It. exact Hg.
    + rewrite Hk. rewrite Hp in Hpc. apply FW. eapply Ic; eauto.
  - intros k m Hin. rewrite Htr in Hin. apply in_app_or in Hin.
    assert (G : exists tg x, nth_error (s_th s) tg = Some x /\ t_key x = k /\ t_cb x = true).
    { destruct Hin as [Hin|Hin].
      - destruct (ne_cb _ _ _ _ _ _ _ Hn Hin) as (tg & Hpc & ->).
        destruct (Ic _ _ _ Ht Hpc) as (x & Hx & K1 & K2). eauto.
      - destruct (Ie _ _ Hin) as (n & x & Hx & K1 & K2). eauto. }
    destruct G as (tg & x & Hx & K1 & K2). destruct (FW k tg) as (x' & Hx' & E1 & E2); eauto.
Qed.

Lemma reach_inv_cb : forall cfg s, reach cfg s -> inv_cb s.
Proof.
  intros cfg s R. induction R; [apply inv_cb_init|].
  eapply inv_cb_step; eauto. eapply reach_inv_lock; eauto.
Qed.

(* ---- plain endpoints never see a callback delivery *)
Lemma plain_nocb : forall cfg s k, reach cfg s -> plain cfg k -> forall m, ~ In (ECb k m) (s_tr s).
Proof.
  intros cfg s k R Hp m Hin.
  destruct (icb_e _ (reach_inv_cb _ _ R) _ _ Hin) as (n & x & Hx & K1 & K2).
  destruct (reach_inv_keys _ _ R _ _ Hx) as (c & Hc & E1 & E2).
  apply nth_error_In in Hc. specialize (Hp c Hc). rewrite <- E1, K1 in Hp. specialize (Hp eq_refl). congruence.
Qed.

Lemma nocb_logs : forall k l, (forall m, ~ In (ECb k m) l) ->
  flat_map (sent_ev k) l = flat_map (sentq_ev k) l /\ flat_map (recv_ev k) l = flat_map (recvq_ev k) l.
Proof.
  intros k l. induction l as [|e l IH]; intros H; simpl; auto.
  destruct IH as [I1 I2]. { intros m Hm. apply (H m). right; exact Hm. }
  rewrite I1, I2. destruct e; simpl; auto.
  destruct (key_eqb k k0) eqn:E; auto. apply key_eqb_eq in E; subst. exfalso. apply (H m). left; reflexivity.
Qed.
Lemma nocb_logs_tr : forall k tr, (forall m, ~ In (ECb k m) tr) ->
  sent_log k tr = sentq k tr /\ recv_log k tr = recvq k tr.
Proof.
  intros k tr H. unfold sent_log, recv_log, sentq, recvq. apply nocb_logs.
  intros m Hm. apply in_rev in Hm. exact (H m Hm).
Qed.

Lemma reach_inv_q : forall cfg s, reach cfg s -> inv_q s.
Proof. intros cfg s R. induction R; [apply inv_q_init | eapply inv_q_step; eauto]. Qed.

(* ================= fifo (plain endpoints; any number of threads / endpoints, key re-use allowed) *)
Definition fifo_exact_stmt : Prop :=
  forall cfg sch k, plain cfg k ->
    let s := run Fixed (init cfg) sch in
    sent_log k (s_tr s) = recv_log k (s_tr s) ++ qget k (s_q s).

Theorem fifo_exact : fifo_exact_stmt.
Proof.
  intros cfg sch k Hp s.
  assert (R : reach cfg s) by (apply reach_run; constructor).
  destruct (nocb_logs_tr k (s_tr s) (plain_nocb _ _ _ R Hp)) as [-> ->].
  apply (reach_inv_q _ _ R).
Qed.

Definition fifo_prefix_stmt : Prop :=
  forall cfg sch k, plain cfg k ->
    let s := run Fixed (init cfg) sch in
    exists rest, sent_log k (s_tr s) = recv_log k (s_tr s) ++ rest.

Theorem fifo_prefix : fifo_prefix_stmt.
Proof. intros cfg sch k Hp s. eexists. apply fifo_exact; auto. Qed.


(* ------------------------------------------------------------------ part 9 *)
(* ---- what a receiver observed, at the level of the history *)
Lemma ne_len : forall s th l th' evs k n,
  next Fixed s th = Some (l, th', evs) -> In (ELen k n) evs ->
  evs = [ELen k n] /\ n = List.length (qget k (s_q s)).
Proof. intros s th l th' evs k n H Hin. next_inv H; des2; ev_in Hin; auto. Qed.
Lemma ne_recv : forall s th l th' evs k m,
  next Fixed s th = Some (l, th', evs) -> In (ERecv k m) evs ->
  evs = [ERecv k m] /\ k = t_key th /\ exists rest, qget k (s_q s) = m :: rest.
Proof. intros s th l th' evs k m H Hin. next_inv H; des2; ev_in Hin; eauto. Qed.

Record inv_hist (s : state) : Prop := {
  ih_len : forall k n tr1 tr2, s_tr s = tr2 ++ ELen k n :: tr1 ->
             List.length (sentq k tr1) = List.length (recvq k tr1) + n;
  ih_recv : forall k m tr1 tr2, s_tr s = tr2 ++ ERecv k m :: tr1 ->
             exists rest, sentq k tr1 = recvq k tr1 ++ m :: rest }.

Lemma inv_hist_step : forall s t l s', inv_q s -> inv_hist s -> stepl Fixed s t = Some (l, s') -> inv_hist s'.
Proof.
  intros s t l s' Iq [I1 I2] H.
  pose proof (stepl_inv _ _ _ _ _ H) as (th & th' & evs & Ht & Hn & He & Hs').
  assert (Htr : s_tr s' = evs ++ s_tr s) by (subst s'; apply apply_tr).
  split.
  - intros k n tr1 tr2 Hsp. rewrite Htr in Hsp.
    destruct (split_cases _ _ _ _ _ Hsp) as [(tr2' & E)|(e1 & e2 & E1 & E2)]; [eapply I1; eauto|].
    assert (Hi : In (ELen k n) evs) by (rewrite E1; apply in_or_app; right; left; reflexivity).
    destruct (ne_len _ _ _ _ _ _ _ Hn Hi) as (Ev & ->).
    rewrite Ev in E1. apply single_split in E1. destruct E1 as (-> & -> & _). simpl in E2. subst tr1.
    rewrite (Iq k), app_length. reflexivity.
  - intros k m tr1 tr2 Hsp. rewrite Htr in Hsp.
    destruct (split_cases _ _ _ _ _ Hsp) as [(tr2' & E)|(e1 & e2 & E1 & E2)]; [eapply I2; eauto|].
    assert (Hi : In (ERecv k m) evs) by (rewrite E1; apply in_or_app; right; left; reflexivity).
    destruct (ne_recv _ _ _ _ _ _ _ Hn Hi) as (Ev & _ & rest & Hq).
    rewrite Ev in E1. apply single_split in E1. destruct E1 as (-> & -> & _). simpl in E2. subst tr1.
    exists rest. rewrite (Iq k), Hq. reflexivity.
Qed.

Lemma reach_inv_hist : forall cfg s, reach cfg s -> inv_hist s.
Proof.
  intros cfg s R. induction R.
  - split; intros; simpl in *; destruct tr2; discriminate.
  - eapply inv_hist_step; eauto. eapply reach_inv_q; eauto.
Qed.

(* the history before any point of a callback-free history is callback-free *)
Lemma nocb_suffix : forall k (tr tr1 tr2 : list event) e,
  (forall m, ~ In (ECb k m) tr) -> tr = tr2 ++ e :: tr1 -> forall m, ~ In (ECb k m) tr1.
Proof. intros k tr tr1 tr2 e H -> m Hin. apply (H m). apply in_or_app. right. right. exact Hin. Qed.

(* ================= non-blocking receive *)
Definition recv_nb_sound_stmt : Prop :=
  forall cfg sch k, plain cfg k ->
    let s := run Fixed (init cfg) sch in
    (* every length a receiver observed is the number of messages sent and not yet received *)
    (forall n tr1 tr2, s_tr s = tr2 ++ ELen k n :: tr1 ->
        List.length (sent_log k tr1) = List.length (recv_log k tr1) + n) /\
    (* every message handed out is the oldest message sent and not yet received: never stale *)
    (forall m tr1 tr2, s_tr s = tr2 ++ ERecv k m :: tr1 ->
        exists rest, sent_log k tr1 = recv_log k tr1 ++ m :: rest).

Theorem recv_nb_sound : recv_nb_sound_stmt.
Proof.
  intros cfg sch k Hp s.
  assert (R : reach cfg s) by (apply reach_run; constructor).
  pose proof (plain_nocb _ _ _ R Hp) as NC.
  destruct (reach_inv_hist _ _ R) as [I1 I2].
  split.
  - intros n tr1 tr2 E.
    destruct (nocb_logs_tr k tr1 (nocb_suffix _ _ _ _ _ NC E)) as [-> ->]. eapply I1; eauto.
  - intros m tr1 tr2 E.
    destruct (nocb_logs_tr k tr1 (nocb_suffix _ _ _ _ _ NC E)) as [-> ->]. eapply I2; eauto.
Qed.

(* ---- the length check and the pop of one recv happen in one locked region *)
Lemma length_zero : forall A (l : list A), List.length l = 0 -> l = [].
Proof. intros A [|x l] H; [reflexivity|discriminate]. Qed.

Lemma apply_q : forall l t ths s evs,
  s_q (apply l t ths s evs) =
  match l with
  | LQApp k m => aset k (qget k (s_q s) ++ [m]) (s_q s)
  | LQPop k => aset k (tl (qget k (s_q s))) (s_q s)
  | _ => s_q s
  end.
Proof. intros; destruct l; reflexivity. Qed.

Lemma ne_qmod : forall s th l th' evs,
  next Fixed s th = Some (l, th', evs) ->
  (match l with LQApp _ _ | LQPop _ => True | _ => False end) -> holds th = true.
Proof. intros s th l th' evs H Hl. next_inv H; des2; simpl in Hl; try contradiction; unfold holds; rewrite Hpc; reflexivity. Qed.

Lemma ne_to_pop : forall s th l th' evs,
  next Fixed s th = Some (l, th', evs) -> t_pc th' = PR R_pop ->
  qget (t_key th) (s_q s) <> [] /\ (forall k m, l <> LQApp k m) /\ (forall k, l <> LQPop k).
Proof.
  intros s th l th' evs H E. next_inv H; des2; simpl in E; try discriminate.
  repeat split; try discriminate. intros Q. rewrite Q in *. discriminate.
Qed.
Lemma ne_to_rel0 : forall s th l th' evs,
  next Fixed s th = Some (l, th', evs) -> t_pc th' = PR R_rel0 ->
  qget (t_key th) (s_q s) = [] /\ (forall k m, l <> LQApp k m) /\ (forall k, l <> LQPop k).
Proof.
  intros s th l th' evs H E. next_inv H; des2; simpl in E; try discriminate.
  repeat split; try discriminate. apply length_zero. apply Nat.eqb_eq. assumption.
Qed.

Definition inv_pop (s : state) : Prop :=
  forall t th, nth_error (s_th s) t = Some th ->
    (t_pc th = PR R_pop -> qget (t_key th) (s_q s) <> []) /\
    (t_pc th = PR R_rel0 -> qget (t_key th) (s_q s) = []).

Lemma inv_pop_step : forall s t l s', inv_lock s -> inv_pop s -> stepl Fixed s t = Some (l, s') -> inv_pop s'.
Proof.
  intros s t l s' [Iok Ih Il] I H n x Hx.
  pose proof (stepl_inv _ _ _ _ _ H) as (th & th' & evs & Ht & Hn & He & Hs').
  assert (Hq : s_q s' = match l with
                        | LQApp k m => aset k (qget k (s_q s) ++ [m]) (s_q s)
                        | LQPop k => aset k (tl (qget k (s_q s))) (s_q s)
                        | _ => s_q s end) by (subst s'; apply apply_q).
  destruct (step_threads _ _ _ _ _ _ _ H Hx) as (th0 & th0' & evs0 & Ht0 & Hn0 & Hc).
  rewrite Ht in Ht0; inversion Ht0; subst th0. rewrite Hn in Hn0; inversion Hn0; subst th0' evs0.
  destruct Hc as [[-> Hc]|[Hne (y & Hy & Hc)]]; apply ctl_kc in Hc; destruct Hc as (Hk & _ & Hp & _).
  - destruct (next_keeps _ _ _ _ _ Hn) as [N1 _]. rewrite Hk, N1, Hp. split; intros E.
    + destruct (ne_to_pop _ _ _ _ _ Hn E) as (Q & A & B). rewrite Hq.
      destruct l; auto; [exfalso; eapply A; eauto | exfalso; eapply B; eauto].
    + destruct (ne_to_rel0 _ _ _ _ _ Hn E) as (Q & A & B). rewrite Hq.
      destruct l; auto; [exfalso; eapply A; eauto | exfalso; eapply B; eauto].
  - (* another thread moved while this one is inside its locked region *)
    rewrite Hk, Hp. destruct (I _ _ Hy) as [I1 I2].
    assert (G : (t_pc y = PR R_pop \/ t_pc y = PR R_rel0) -> s_q s' = s_q s).
    { intros Hpc. assert (Hhy : holds y = true) by (unfold holds; destruct Hpc as [-> | ->]; reflexivity).
      pose proof (Ih _ _ Hy Hhy) as L1. rewrite Hq.
      destruct l; auto; exfalso; assert (Hh : holds th = true) by (eapply ne_qmod; eauto; exact Logic.I);
      pose proof (Ih _ _ Ht Hh) as L2; congruence. }
    split; intros E; rewrite G by auto; auto.
Qed.

Lemma reach_inv_pop : forall cfg s, reach cfg s -> inv_pop s.
Proof.
  intros cfg s R. induction R.
  - intros t th H. apply init_thread in H. destruct H as ([[k cb] ops] & _ & ->). split; discriminate.
  - eapply inv_pop_step; eauto. eapply reach_inv_lock; eauto.
Qed.

Lemma out_grow_false : forall (r : res) l, l = r :: l -> False.
Proof. intros r l H. apply (f_equal (@List.length res)) in H. simpl in H. lia. Qed.

(* how a step changes the results of the acting thread *)
Lemma ne_out : forall s th l th' evs,
  next Fixed s th = Some (l, th', evs) -> pc_ok th = true ->
  t_out th' = t_out th \/
  (exists r, t_out th' = r :: t_out th /\
     (r = RIndexErr -> t_pc th = PR (R_rel2 RIndexErr)) /\
     (r = REmpty -> t_pc th = PR R_rel0 /\ l = LRel /\ exists ops, t_ops th = Recv true :: ops)).
Proof.
  intros s th l th' evs H Hok. unfold pc_ok in Hok.
  next_inv H; rewrite ?Hops, ?Hpc in Hok; des2; simpl; auto;
  right; eexists; (split; [reflexivity|]); split; intros X; try discriminate X; subst; try discriminate Hok; eauto.
Qed.

(* ================= a receive never fails with IndexError (any number of receivers per key) *)
Definition recv_never_index_error_stmt : Prop :=
  forall cfg sch t th, nth_error (s_th (run Fixed (init cfg) sch)) t = Some th ->
    ~ In RIndexErr (t_out th) /\ t_pc th <> PR (R_rel2 RIndexErr).

Lemma ne_to_idx : forall s th l th' evs,
  next Fixed s th = Some (l, th', evs) -> t_pc th' = PR (R_rel2 RIndexErr) ->
  t_pc th = PR R_pop /\ qget (t_key th) (s_q s) = [].
Proof. intros s th l th' evs H E. next_inv H; des2; simpl in E; try discriminate; auto. Qed.

Theorem recv_never_index_error : recv_never_index_error_stmt.
Proof.
  intros cfg sch.
  assert (G : forall s, reach cfg s -> forall t th, nth_error (s_th s) t = Some th ->
              ~ In RIndexErr (t_out th) /\ t_pc th <> PR (R_rel2 RIndexErr)).
  { intros s R. induction R; intros n x Hx.
    - apply init_thread in Hx. destruct Hx as ([[k cb] ops] & _ & ->). split; [intros []|discriminate].
    - pose proof (reach_inv_pop _ _ R) as IP.
      destruct (step_threads _ _ _ _ _ _ _ H Hx) as (th & th' & evs & Ht & Hn & Hc).
      pose proof (il_ok _ (reach_inv_lock _ _ R) _ _ Ht) as Hok.
      destruct Hc as [[-> Hc]|[Hne (y & Hy & Hc)]]; apply ctl_kc in Hc; destruct Hc as (_ & _ & Hp & _ & Ho).
      + rewrite Ho, Hp. destruct (IHR _ _ Ht) as [I1 I2]. split.
        * destruct (ne_out _ _ _ _ _ Hn Hok) as [->|(r & -> & Hr & _)]; auto.
          intros [E|E]; [apply I2; apply Hr; exact E | exact (I1 E)].
        * intros E. destruct (ne_to_idx _ _ _ _ _ Hn E) as [P Q].
          destruct (IP _ _ Ht) as [IP1 _]. exact (IP1 P Q).
      + rewrite Ho, Hp. eapply IHR; eauto. }
  intros t th. apply G. apply reach_run. constructor.
Qed.

(* ================= what a non-blocking receive reports, per step: it never sleeps; it
   reports emptiness exactly when it leaves the locked region in which its length check
   saw 0, and at that very moment the queue IS empty (for a plain key: everything sent
   has been received) *)
Definition recv_nb_step_stmt : Prop :=
  forall cfg sch t th ops l s',
    let s := run Fixed (init cfg) sch in
    nth_error (s_th s) t = Some th -> t_ops th = Recv true :: ops ->
    stepl Fixed s t = Some (l, s') ->
    l <> LSleep /\
    forall th', nth_error (s_th s') t = Some th' ->
      (t_out th' = REmpty :: t_out th <-> t_pc th = PR R_rel0) /\
      (t_out th' = REmpty :: t_out th ->
         qget (t_key th) (s_q s) = [] /\
         (plain cfg (t_key th) -> sent_log (t_key th) (s_tr s) = recv_log (t_key th) (s_tr s))).

Theorem recv_nb_step : recv_nb_step_stmt.
Proof.
  intros cfg sch t th ops l s' s Ht Hops H.
  assert (R : reach cfg s) by (apply reach_run; constructor).
  pose proof (il_ok _ (reach_inv_lock _ _ R) _ _ Ht) as Hok.
  destruct (step_actor _ _ _ _ H) as (th1 & th1' & evs & x & Ht1 & Hn & Hx & Hc).
  rewrite Ht in Ht1; inversion Ht1; subst th1. apply ctl_kc in Hc. destruct Hc as (_ & _ & _ & _ & Ho).
  assert (G1 : l <> LSleep).
  { unfold pc_ok in Hok. rewrite Hops in Hok. intros ->. next_inv Hn; try discriminate;
    try (rewrite Hops in Hops0; inversion Hops0; subst; rewrite Hpc in Hok; discriminate). }
  split; auto. intros th' Hx'. rewrite Hx in Hx'; inversion Hx'; subst x. rewrite Ho.
  assert (G2 : t_out th1' = REmpty :: t_out th -> t_pc th = PR R_rel0).
  { intros E. destruct (ne_out _ _ _ _ _ Hn Hok) as [E2|(r & E2 & _ & Hr)].
    - rewrite E2 in E. exfalso. eapply out_grow_false; eauto.
    - rewrite E2 in E. inversion E; subst. apply Hr; reflexivity. }
  split; [split; auto|].
  - intros Hpc. unfold next in Hn. rewrite Hops, Hpc in Hn. cbn beta iota in Hn. inversion Hn; subst. reflexivity.
  - intros E. pose proof (G2 E) as Hpc.
    destruct (reach_inv_pop _ _ R _ _ Ht) as [_ Q]. specialize (Q Hpc). split; auto.
    intros Hp. pose proof (fifo_exact cfg sch (t_key th) Hp) as F. cbv zeta in F. unfold s in Q |- *.
    rewrite Q, app_nil_r in F. exact F.
Qed.

(* ------------------------------------------------------------------ part 10 *)
Definition msgs_of (l : list res) : list msg :=
  flat_map (fun r => match r with RMsg m => [m] | _ => [] end) l.
Definition pend (p : pc) : list msg := match p with PR (R_rel2 (RMsg m)) => [m] | _ => [] end.
(* the messages a thread has been given by recv so far (oldest first) *)
Definition received_by (th : thread) : list msg := msgs_of (rev (t_out th)).

Lemma msgs_of_app : forall a b, msgs_of (a ++ b) = msgs_of a ++ msgs_of b.
Proof. intros. unfold msgs_of. apply flat_map_app. Qed.

Lemma ne_acct : forall s th l th' evs,
  next Fixed s th = Some (l, th', evs) ->
  msgs_of (rev (t_out th')) ++ pend (t_pc th') =
  (msgs_of (rev (t_out th)) ++ pend (t_pc th)) ++ recvq (t_key th) evs.
Proof.
  intros s th l th' evs H. unfold recvq.
  next_inv H; des2; simpl; rewrite ?msgs_of_app; simpl; rewrite ?app_nil_r, ?key_eqb_refl; auto.
Qed.

Lemma recvq_none : forall k evs, (forall m, ~ In (ERecv k m) evs) -> recvq k evs = [].
Proof.
  intros k evs H. unfold recvq.
  assert (G : forall l, (forall m, ~ In (ERecv k m) l) -> flat_map (recvq_ev k) l = []).
  { induction l as [|e l IH]; intros Hl; simpl; auto.
    rewrite IH by (intros m Hm; apply (Hl m); right; exact Hm).
    destruct e; simpl; auto. destruct (key_eqb k k0) eqn:E; auto.
    apply key_eqb_eq in E; subst. exfalso. apply (Hl m). left; reflexivity. }
  apply G. intros m Hm. apply in_rev in Hm. exact (H m Hm).
Qed.

Definition inv_acct (k : key) (r : nat) (s : state) : Prop :=
  forall th, nth_error (s_th s) r = Some th -> t_key th = k ->
    recvq k (s_tr s) = msgs_of (rev (t_out th)) ++ pend (t_pc th).

Lemma reach_inv_acct : forall cfg k r s, sole cfg k r -> reach cfg s -> inv_acct k r s.
Proof.
  intros cfg k r s Hsole R. induction R.
  - intros th H Hk. apply init_thread in H. destruct H as ([[k0 cb] ops] & _ & ->). reflexivity.
  - intros x Hx Hk.
    pose proof (stepl_inv _ _ _ _ _ H) as (th & th' & evs & Ht & Hn & He & Hs').
    assert (Htr : s_tr s' = evs ++ s_tr s) by (subst s'; apply apply_tr).
    rewrite Htr, recvq_app.
    destruct (step_threads _ _ _ _ _ _ _ H Hx) as (th0 & th0' & evs0 & Ht0 & Hn0 & Hc).
    rewrite Ht in Ht0; inversion Ht0; subst th0. rewrite Hn in Hn0; inversion Hn0; subst th0' evs0.
    destruct Hc as [[-> Hc]|[Hne (y & Hy & Hc)]]; apply ctl_kc in Hc; destruct Hc as (Hk' & _ & Hp & _ & Ho).
    + destruct (next_keeps _ _ _ _ _ Hn) as [N1 _].
      rewrite Ho, Hp, (ne_acct _ _ _ _ _ Hn).
      assert (Kth : t_key th = k) by congruence.
      rewrite (IHR _ Ht Kth). rewrite Kth. reflexivity.
    + rewrite Ho, Hp. rewrite (IHR _ Hy) by congruence.
      rewrite recvq_none; [rewrite app_nil_r; reflexivity|].
      intros m Hin. destruct (ne_recv _ _ _ _ _ _ _ Hn Hin) as (_ & Kt & _).
      destruct (reach_inv_keys _ _ R _ _ Ht) as (c & Hc & E1 & _).
      apply Hne. symmetry. eapply Hsole; eauto. congruence.
Qed.

(* ================= completeness at quiescence *)
(* k is a plain endpoint key used by exactly one thread r.  When r has finished its
   script and was given as many messages as were sent to k, then what it was given
   IS the sequence sent to k, in order, and nothing is left in the queue. *)
Definition quiescent_complete_stmt : Prop :=
  forall cfg sch k r th, plain cfg k -> sole cfg k r ->
    let s := run Fixed (init cfg) sch in
    nth_error (s_th s) r = Some th -> t_key th = k ->
    t_ops th = [] ->
    List.length (received_by th) = List.length (sent_log k (s_tr s)) ->
    received_by th = sent_log k (s_tr s) /\ qget k (s_q s) = [].

Theorem quiescent_complete : quiescent_complete_stmt.
Proof.
  intros cfg sch k r th Hp Hsole s Hth Hk Hfin Hlen.
  assert (R : reach cfg s) by (apply reach_run; constructor).
  pose proof (fifo_exact cfg sch k Hp) as F. fold s in F.
  destruct (nocb_logs_tr k (s_tr s) (plain_nocb _ _ _ R Hp)) as [_ E2].
  pose proof (reach_inv_acct _ _ _ _ Hsole R _ Hth Hk) as A.
  pose proof (il_ok _ (reach_inv_lock _ _ R) _ _ Hth) as Hok.
  assert (Hpc : t_pc th = P0).
  { unfold pc_ok in Hok. rewrite Hfin in Hok. destruct (t_pc th) as [|c|c|c|c]; auto; try discriminate;
    destruct c; try discriminate; destruct r0; discriminate. }
  rewrite Hpc in A. simpl in A. rewrite app_nil_r in A.
  unfold received_by in *. rewrite E2, A in F. rewrite F in Hlen. rewrite app_length in Hlen.
  assert (Q : qget k (s_q s) = []) by (apply length_zero; lia).
  split; auto. rewrite F, Q, app_nil_r. reflexivity.
Qed.

(* without the counting hypothesis: what a finished sole receiver was given is a prefix
   of what was sent, and the rest is still queued (nothing lost, nothing duplicated) *)
Definition received_prefix_stmt : Prop :=
  forall cfg sch k r th, plain cfg k -> sole cfg k r ->
    let s := run Fixed (init cfg) sch in
    nth_error (s_th s) r = Some th -> t_key th = k ->
    sent_log k (s_tr s) = (received_by th ++ pend (t_pc th)) ++ qget k (s_q s).

Theorem received_prefix : received_prefix_stmt.
Proof.
  intros cfg sch k r th Hp Hsole s Hth Hk.
  assert (R : reach cfg s) by (apply reach_run; constructor).
  pose proof (fifo_exact cfg sch k Hp) as F. fold s in F.
  destruct (nocb_logs_tr k (s_tr s) (plain_nocb _ _ _ R Hp)) as [_ E2].
  rewrite F, E2, (reach_inv_acct _ _ _ _ Hsole R _ Hth Hk). reflexivity.
Qed.

(* ------------------------------------------------------------------ part 11: callback endpoints *)
Definition no_connect (ops : list op) : bool :=
  forallb (fun o => match o with Connect => false | _ => true end) ops.
Fixpoint script_ok (ops : list op) : bool :=      (* no connect after a disconnect *)
  match ops with
  | [] => true
  | Disconnect :: r => no_connect r
  | _ :: r => script_ok r
  end.

(* ---- scripts *)
Lemma no_connect_tl : forall ops, no_connect ops = true -> no_connect (tl ops) = true.
Proof. intros [|o ops] H; simpl in *; auto. apply andb_true_iff in H. tauto. Qed.
Lemma no_connect_script_ok : forall ops, no_connect ops = true -> script_ok ops = true.
Proof.
  induction ops as [|o ops IH]; intros H; simpl in *; auto.
  apply andb_true_iff in H. destruct H as [H1 H2]. destruct o; auto; discriminate.
Qed.
Lemma script_ok_tl : forall ops, script_ok ops = true -> script_ok (tl ops) = true.
Proof. intros [|o ops] H; simpl in *; auto. destruct o; auto. apply no_connect_script_ok; auto. Qed.

Lemma ne_ops : forall s th l th' evs,
  next Fixed s th = Some (l, th', evs) -> t_ops th' = t_ops th \/ t_ops th' = tl (t_ops th).
Proof. intros s th l th' evs H. next_inv H; des2; simpl; rewrite ?Hops; auto. Qed.

Lemma ne_l_rcbpop : forall s th th' evs q,
  next Fixed s th = Some (LRcbPop q, th', evs) ->
  q = t_key th /\ exists ops, t_ops th = Disconnect :: ops.
Proof. intros s th th' evs q H. next_inv H; eauto. Qed.

Definition appending (p : pc) : bool :=
  match p with PS (S_acq | S_ref | S_app) => true | _ => false end.

Lemma ne_to_sget : forall s th l th' evs,
  next Fixed s th = Some (l, th', evs) -> t_pc th' = PS S_get -> kmem (rkey (t_key th)) (s_open s) = true.
Proof. intros s th l th' evs H E. next_inv H; des2; simpl in E; try discriminate; auto. Qed.
Lemma ne_to_scall2 : forall s th l th' evs tg,
  next Fixed s th = Some (l, th', evs) -> t_pc th' = PS (S_call tg) ->
  aget (rkey (t_key th)) (s_rcb s) = Some tg /\ (forall q m, l <> LQApp q m) /\ (forall q, l <> LQPop q).
Proof.
  intros s th l th' evs tg H E. next_inv H; des2; simpl in E; try discriminate.
  inversion E; subst. repeat split; try discriminate.
Qed.
Lemma ne_to_app : forall s th l th' evs,
  next Fixed s th = Some (l, th', evs) -> appending (t_pc th') = true ->
  appending (t_pc th) = true \/ (t_pc th = PS S_get /\ aget (rkey (t_key th)) (s_rcb s) = None).
Proof. intros s th l th' evs H E. next_inv H; des2; simpl in E; try discriminate; auto. Qed.
Lemma ne_l_qapp : forall s th th' evs q m,
  next Fixed s th = Some (LQApp q m, th', evs) -> q = rkey (t_key th) /\ t_pc th = PS S_app.
Proof. intros s th th' evs q m H. next_inv H; auto. Qed.
Lemma ne_l_qpop : forall s th th' evs q,
  next Fixed s th = Some (LQPop q, th', evs) -> q = t_key th.
Proof. intros s th th' evs q H. next_inv H; auto. Qed.
Lemma ne_to_cb2 : forall s th l th' evs,
  next Fixed s th = Some (l, th', evs) -> t_pc th' = PC C_cb2 -> l = LRcbSet (t_key th).
Proof. intros s th l th' evs H E. next_inv H; des2; simpl in E; try discriminate; auto. Qed.
Lemma ne_to_copen : forall s th l th' evs,
  next Fixed s th = Some (l, th', evs) -> t_pc th' = PC C_open ->
  t_cb th = false \/ (t_pc th = PC C_cb2 /\ l = LLcbSet (t_key th)).
Proof. intros s th l th' evs H E. next_inv H; des2; simpl in E; try discriminate; auto. Qed.
Lemma ne_openadd_pc : forall s th l th' evs p,
  next Fixed s th = Some (l, th', evs) -> In (EOpenAdd p) evs -> p = t_key th /\ t_pc th = PC C_open.
Proof. intros s th l th' evs p H Hin. next_inv H; des2; ev_in Hin; auto. Qed.
Lemma ne_head_rcbset : forall s th th' evs q,
  next Fixed s th = Some (LRcbSet q, th', evs) -> q = t_key th /\ no_connect (t_ops th) = false.
Proof. intros s th th' evs q H. next_inv H; simpl; auto. Qed.

(* effect of a step on the callback entry and the queue of one key *)
Lemma step_rcb_k : forall s t l s' k th th' evs,
  stepl Fixed s t = Some (l, s') -> nth_error (s_th s) t = Some th -> next Fixed s th = Some (l, th', evs) ->
  aget k (s_rcb s') =
    match l with
    | LRcbSet q => if key_eqb k q then Some t else aget k (s_rcb s)
    | LRcbPop q => if key_eqb k q then None else aget k (s_rcb s)
    | _ => aget k (s_rcb s)
    end.
Proof.
  intros s t l s' k th th' evs H Ht Hn. apply stepl_inv in H. destruct H as (th0 & th0' & evs0 & _ & _ & _ & ->).
  rewrite apply_rcb. destruct l; auto; [apply aget_aset | apply aget_adel].
Qed.
Lemma step_q_k : forall s t l s' k,
  stepl Fixed s t = Some (l, s') ->
  qget k (s_q s') =
    match l with
    | LQApp q m => if key_eqb k q then qget k (s_q s) ++ [m] else qget k (s_q s)
    | LQPop q => if key_eqb k q then tl (qget k (s_q s)) else qget k (s_q s)
    | _ => qget k (s_q s)
    end.
Proof.
  intros s t l s' k H. apply stepl_inv in H. destruct H as (th0 & th0' & evs0 & _ & _ & _ & ->).
  rewrite apply_q. destruct l; auto; rewrite qget_aset; destruct (key_eqb k k0) eqn:E; auto;
  apply key_eqb_eq in E; subst; reflexivity.
Qed.

(* ---- control invariants for one callback endpoint r (key k) and its one sender sd *)
Section CbFifo.
Variable cfg : cfg_t.
Variables (k : key) (r sd : nat) (c : key * bool * list op).
Hypothesis Hsr : sole cfg k r.
Hypothesis Hss : sole cfg (rkey k) sd.
Hypothesis Hc : nth_error cfg r = Some c.
Hypothesis Hck : fst (fst c) = k.
Hypothesis Hcb : snd (fst c) = true.
Hypothesis Hsc : script_ok (snd c) = true.

Record inv_c (s : state) : Prop := {
  c_script : forall R, nth_error (s_th s) r = Some R -> script_ok (t_ops R) = true;
  c_reg : forall R, nth_error (s_th s) r = Some R -> (t_pc R = PC C_cb2 \/ t_pc R = PC C_open) ->
            aget k (s_rcb s) = Some r;
  c_hist : In (EOpenAdd k) (s_tr s) -> aget k (s_rcb s) = None ->
            forall R, nth_error (s_th s) r = Some R -> no_connect (t_ops R) = true;
  c_get : forall S, nth_error (s_th s) sd = Some S -> t_key S = rkey k -> t_pc S = PS S_get ->
            In (EOpenAdd k) (s_tr s);
  c_app : (qget k (s_q s) <> [] \/
           exists S, nth_error (s_th s) sd = Some S /\ t_key S = rkey k /\ appending (t_pc S) = true) ->
          aget k (s_rcb s) = None /\ forall R, nth_error (s_th s) r = Some R -> no_connect (t_ops R) = true;
  c_call : forall t S tg, nth_error (s_th s) t = Some S -> t_key S = rkey k -> t_pc S = PS (S_call tg) ->
            qget k (s_q s) = [] }.

Lemma inv_c_init : inv_c (init cfg).
Proof.
  split; simpl.
  - intros R H. apply init_thread in H. destruct H as (c' & Hc' & ->). rewrite Hc in Hc'. inversion Hc'; subst c'.
    destruct c as [[k0 cb] ops]. exact Hsc.
  - intros R H [E|E]; apply init_thread in H; destruct H as ([[k0 cb] ops] & _ & ->); discriminate.
  - intros [].
  - intros S H _ E. apply init_thread in H. destruct H as ([[k0 cb] ops] & _ & ->). discriminate.
  - intros [H|(S & H & _ & E)]; [exfalso; apply H; reflexivity|].
    apply init_thread in H. destruct H as ([[k0 cb] ops] & _ & ->). discriminate.
  - intros t S tg H _ E. apply init_thread in H. destruct H as ([[k0 cb] ops] & _ & ->). discriminate.
Qed.

Lemma opened_no_in : forall p x tr, opened_no p x tr -> In (EOpenAdd p) tr.
Proof. intros p x tr (a & b & -> & _). apply in_or_app. right. left. reflexivity. Qed.

Lemma inv_c_step : forall s t l s',
  reach cfg s -> inv_c s -> stepl Fixed s t = Some (l, s') -> inv_c s'.
Proof.
  intros s t l s' Rch [Isc Ireg Ihist Iget Iapp Icall] H.
  pose proof (reach_inv_keys _ _ Rch) as IK.
  pose proof (reach_inv_rv _ _ Rch) as IRV.
  pose proof (stepl_inv _ _ _ _ _ H) as (th & th' & evs & Ht & Hn & He & Hs').
  assert (Htr : s_tr s' = evs ++ s_tr s) by (subst s'; apply apply_tr).
  pose proof (step_rcb_k _ _ _ _ k _ _ _ H Ht Hn) as RCB.
  pose proof (step_q_k _ _ _ _ k H) as QK.
  destruct (next_keeps _ _ _ _ _ Hn) as [NK _].
  (* who can have key k / rkey k *)
  assert (CL1 : t_key th = k -> t = r).
  { intros E. destruct (IK _ _ Ht) as (c' & Hc' & K1 & _). eapply Hsr; eauto. congruence. }
  assert (CL2 : t_key th = rkey k -> t = sd).
  { intros E. destruct (IK _ _ Ht) as (c' & Hc' & K1 & _). eapply Hss; eauto. congruence. }
  assert (CLn : forall n S, nth_error (s_th s) n = Some S -> t_key S = rkey k -> n = sd).
  { intros n S HS E. destruct (IK _ _ HS) as (c' & Hc' & K1 & _). eapply Hss; eauto. congruence. }
  assert (KR : forall R, nth_error (s_th s) r = Some R -> t_key R = k /\ t_cb R = true).
  { intros R HR. destruct (IK _ _ HR) as (c' & Hc' & K1 & K2). rewrite Hc in Hc'. inversion Hc'; subst c'. split; congruence. }
  (* the thread at r / at any index after the step *)
  assert (POST : forall n x, nth_error (s_th s') n = Some x ->
            (n = t /\ ctl x = ctl th') \/ (n <> t /\ exists y, nth_error (s_th s) n = Some y /\ ctl x = ctl y)).
  { intros n x Hx. destruct (step_threads _ _ _ _ _ _ _ H Hx) as (th0 & th0' & evs0 & Ht0 & Hn0 & Hcc).
    rewrite Ht in Ht0; inversion Ht0; subst th0. rewrite Hn in Hn0; inversion Hn0; subst th0' evs0. exact Hcc. }
  (* the ops of thread r only shrink *)
  assert (OPS : forall R', nth_error (s_th s') r = Some R' ->
            exists R, nth_error (s_th s) r = Some R /\ (t_ops R' = t_ops R \/ t_ops R' = tl (t_ops R))).
  { intros R' HR'. destruct (POST _ _ HR') as [[-> Hcc]|[Hne (y & Hy & Hcc)]]; apply ctl_kc in Hcc;
    destruct Hcc as (_ & _ & _ & Ho & _).
    - exists th. split; auto. rewrite Ho. eapply ne_ops; eauto.
    - exists y. split; auto. }
  (* once the entry of k is None and r has no connect left, this stays so *)
  assert (STAB : aget k (s_rcb s) = None ->
                 (forall R, nth_error (s_th s) r = Some R -> no_connect (t_ops R) = true) ->
                 aget k (s_rcb s') = None /\
                 forall R', nth_error (s_th s') r = Some R' -> no_connect (t_ops R') = true).
  { intros N NC. split.
    - rewrite RCB. destruct l; auto.
      + destruct (key_eqb k k0) eqn:E; auto. apply key_eqb_eq in E; subst k0.
        destruct (ne_head_rcbset _ _ _ _ _ Hn) as [Ek F]. symmetry in Ek. pose proof (CL1 Ek); subst t.
        rewrite (NC _ Ht) in F. discriminate.
      + destruct (key_eqb k k0); auto.
    - intros R' HR'. destruct (OPS _ HR') as (R & HR & [-> | ->]); [|apply no_connect_tl]; eauto. }
  split.
  - (* script *)
    intros R' HR'. destruct (OPS _ HR') as (R & HR & [-> | ->]); [|apply script_ok_tl]; eauto.
  - (* registered while publishing *)
    intros R' HR' Hpc. destruct (POST _ _ HR') as [[E Hcc]|[Hne (y & Hy & Hcc)]]; apply ctl_kc in Hcc;
    destruct Hcc as (_ & _ & Hp & _).
    + subst t. destruct (KR _ Ht) as [Kk Kc]. rewrite Hp in Hpc. rewrite RCB. destruct Hpc as [Hpc|Hpc].
      * rewrite (ne_to_cb2 _ _ _ _ _ Hn Hpc), Kk, key_eqb_refl. reflexivity.
      * destruct (ne_to_copen _ _ _ _ _ Hn Hpc) as [F|[P ->]]; [congruence|]. apply (Ireg _ Ht). auto.
    + rewrite Hp in Hpc. pose proof (Ireg _ Hy Hpc) as G. rewrite RCB.
      destruct l; auto.
      * destruct (key_eqb k k0) eqn:E; auto. apply key_eqb_eq in E; subst k0.
        destruct (ne_head_rcbset _ _ _ _ _ Hn) as [Ek _]. symmetry in Ek. exfalso. apply Hne. symmetry. auto.
      * destruct (key_eqb k k0) eqn:E; auto. apply key_eqb_eq in E; subst k0.
        destruct (ne_l_rcbpop _ _ _ _ _ Hn) as [Ek _]. symmetry in Ek. exfalso. apply Hne. symmetry. auto.
  - (* opened before, entry gone -> no connect left *)
    intros Hin N R' HR'. rewrite Htr in Hin. apply in_app_or in Hin. destruct Hin as [Hin|Hin].
    + exfalso. destruct (ne_openadd_pc _ _ _ _ _ _ Hn Hin) as [Ek Pc]. symmetry in Ek. pose proof (CL1 Ek); subst t.
      destruct (ne_openadd _ _ _ _ _ _ Hn Hin) as (-> & _). rewrite RCB in N.
      rewrite (Ireg _ Ht (or_intror Pc)) in N. discriminate.
    + assert (D : (exists q, l = LRcbPop q /\ key_eqb k q = true) \/ aget k (s_rcb s) = None).
      { rewrite RCB in N. destruct l; auto.
        - destruct (key_eqb k k0); [discriminate|auto].
        - destruct (key_eqb k k0) eqn:E; eauto. }
      destruct D as [(q & -> & E)|N0].
      * apply key_eqb_eq in E; subst q. destruct (ne_l_rcbpop _ _ _ _ _ Hn) as [Ek (ops & Ho)].
        symmetry in Ek. pose proof (CL1 Ek); subst t.
        pose proof (Isc _ Ht) as SO. rewrite Ho in SO. simpl in SO.
        destruct (OPS _ HR') as (R & HR & Eo). rewrite Ht in HR; inversion HR; subst R. rewrite Ho in Eo.
        destruct Eo as [-> | ->]; simpl; auto.
      * destruct (STAB N0 (Ihist Hin N0)) as [_ G]. auto.
  - (* sender past the open check *)
    intros S' HS' Ek Hpc. rewrite Htr. apply in_or_app. right.
    destruct (POST _ _ HS') as [[E Hcc]|[Hne (y & Hy & Hcc)]]; apply ctl_kc in Hcc;
    destruct Hcc as (Hk & _ & Hp & _).
    + rewrite Hp in Hpc. pose proof (ne_to_sget _ _ _ _ _ Hn Hpc) as M.
      assert (Ekk : rkey (t_key th) = k) by (rewrite <- NK, <- Hk, Ek; apply rkey_invol).
      rewrite Ekk in M. eapply opened_no_in. apply (ir_o _ IRV). exact M.
    + rewrite Hp in Hpc. eapply Iget; eauto. congruence.
  - (* queue non-empty or sender appending -> entry gone for good *)
    intros A.
    assert (A0 : (qget k (s_q s) <> [] \/
                  exists S, nth_error (s_th s) sd = Some S /\ t_key S = rkey k /\ appending (t_pc S) = true) \/
                 (aget k (s_rcb s) = None /\ In (EOpenAdd k) (s_tr s))).
    { destruct A as [A|(S' & HS' & Ek & Ap)].
      - rewrite QK in A. destruct l; auto.
        + destruct (key_eqb k k0) eqn:E; auto. apply key_eqb_eq in E; subst k0.
          destruct (ne_l_qapp _ _ _ _ _ _ Hn) as [Eq Pc].
          assert (Ek : t_key th = rkey k) by (rewrite Eq; symmetry; apply rkey_invol).
          pose proof (CL2 Ek); subst t. left. right. exists th. rewrite Pc. auto.
        + destruct (key_eqb k k0) eqn:E; auto. left. left. intros Q. rewrite Q in A. apply A. reflexivity.
      - destruct (POST _ _ HS') as [[E Hcc]|[Hne (y & Hy & Hcc)]]; apply ctl_kc in Hcc;
        destruct Hcc as (Hk & _ & Hp & _).
        + subst t. rewrite Hp in Ap. assert (Ekk : t_key th = rkey k) by congruence.
          destruct (ne_to_app _ _ _ _ _ Hn Ap) as [Ap0|[Pc N]].
          * left. right. exists th. auto.
          * right. rewrite Ekk, rkey_invol in N. split; auto. eapply Iget; eauto.
        + left. right. exists y. rewrite <- Hp, <- Hk. auto. }
    destruct A0 as [A0|[N Hin]].
    + destruct (Iapp A0) as [N NC]. apply STAB; auto.
    + apply STAB; auto.
  - (* a pending callback call sees an empty queue *)
    intros n S' tg HS' Ek Hpc.
    destruct (POST _ _ HS') as [[E Hcc]|[Hne (y & Hy & Hcc)]]; apply ctl_kc in Hcc;
    destruct Hcc as (Hk & _ & Hp & _).
    + subst n. rewrite Hp in Hpc. destruct (ne_to_scall2 _ _ _ _ _ _ Hn Hpc) as (G & NA & NP).
      assert (Ekk : rkey (t_key th) = k) by (rewrite <- NK, <- Hk, Ek; apply rkey_invol).
      rewrite Ekk in G.
      assert (Q : qget k (s_q s) = []).
      { destruct (qget k (s_q s)) eqn:Q; auto. exfalso.
        destruct Iapp as [N _]. { left. try rewrite Q. discriminate. } congruence. }
      rewrite QK. destruct l; auto; [exfalso; eapply NA; eauto | exfalso; eapply NP; eauto].
    + rewrite Hp in Hpc. assert (Eky : t_key y = rkey k) by congruence.
      pose proof (Icall _ _ _ Hy Eky Hpc) as Q. rewrite QK. destruct l; auto.
      * destruct (key_eqb k k0) eqn:E; auto. apply key_eqb_eq in E; subst k0. exfalso.
        destruct (ne_l_qapp _ _ _ _ _ _ Hn) as [Eq _].
        assert (Ekt : t_key th = rkey k) by (rewrite Eq; symmetry; apply rkey_invol).
        apply Hne. rewrite (CL2 Ekt). eapply CLn; eauto.
      * destruct (key_eqb k k0); auto. rewrite Q. reflexivity.
Qed.

Lemma reach_inv_c : forall s, reach cfg s -> inv_c s.
Proof. intros s R. induction R; [apply inv_c_init | eapply inv_c_step; eauto]. Qed.

End CbFifo.

Lemma sent_log_app : forall k evs tr, sent_log k (evs ++ tr) = sent_log k tr ++ sent_log k evs.
Proof. intros. unfold sent_log. rewrite rev_app_distr, flat_map_app. reflexivity. Qed.
Lemma recv_log_app : forall k evs tr, recv_log k (evs ++ tr) = recv_log k tr ++ recv_log k evs.
Proof. intros. unfold recv_log. rewrite rev_app_distr, flat_map_app. reflexivity. Qed.

Definition inv_full (k : key) (s : state) : Prop :=
  sent_log k (s_tr s) = recv_log k (s_tr s) ++ qget k (s_q s).

Lemma inv_full_step : forall k s t l s',
  inv_full k s -> stepl Fixed s t = Some (l, s') ->
  (forall th tg, nth_error (s_th s) t = Some th -> t_pc th = PS (S_call tg) -> rkey (t_key th) = k ->
                 qget k (s_q s) = []) ->
  inv_full k s'.
Proof.
  intros k s t l s' I H P. apply stepl_inv in H. destruct H as (th & th' & evs & Ht & Hn & He & ->).
  unfold inv_full in *. rewrite apply_tr, sent_log_app, recv_log_app.
  specialize (P th).
  next_inv Hn; repeat match goal with |- context [if kmem ?a ?b then _ else _] => destruct (kmem a b) eqn:? end;
  simpl; rewrite ?app_nil_r; try exact I.
  - (* S_call: callback delivery *)
    unfold sent_log, recv_log at 2; simpl. rewrite !app_nil_r.
    destruct (key_eqb k (rkey (t_key th))) eqn:E; [|rewrite !app_nil_r; exact I].
    apply key_eqb_eq in E. pose proof (P target Ht eq_refl (eq_sym E)) as Q.
    rewrite Q in *. rewrite app_nil_r in *. change (flat_map (sent_ev k) (rev (s_tr s))) with (sent_log k (s_tr s)).
    rewrite I. reflexivity.
  - (* S_app *)
    rewrite qget_aset. unfold sent_log at 2; simpl. rewrite app_nil_r.
    destruct (key_eqb k (rkey (t_key th))) eqn:E.
    + apply key_eqb_eq in E; subst k. rewrite I, app_assoc. reflexivity.
    + rewrite app_nil_r. exact I.
  - (* R_pop, empty queue *)
    rewrite qget_aset. destruct (key_eqb k (t_key th)) eqn:E.
    + apply key_eqb_eq in E; subst k. rewrite Hq in *. simpl. exact I.
    + exact I.
  - (* R_pop, m :: _ *)
    rewrite qget_aset. unfold recv_log at 2; simpl. rewrite app_nil_r.
    destruct (key_eqb k (t_key th)) eqn:E.
    + apply key_eqb_eq in E; subst k. rewrite Hq in I. rewrite Hq. simpl. rewrite I, <- app_assoc. reflexivity.
    + rewrite app_nil_r. exact I.
Qed.

(* ================= fifo for callback endpoints *)
(* k is the key of ONE endpoint thread r (not re-used by another thread) which never
   connects again after a disconnect; messages to k come from ONE thread sd (which may
   disconnect and reconnect).  Then, callback delivery included: received = prefix of
   sent, remainder = pending queue. *)
Definition fifo_exact_cb_stmt : Prop :=
  forall cfg sch k r sd c, sole cfg k r -> sole cfg (rkey k) sd ->
    nth_error cfg r = Some c -> fst (fst c) = k -> script_ok (snd c) = true ->
    let s := run Fixed (init cfg) sch in
    sent_log k (s_tr s) = recv_log k (s_tr s) ++ qget k (s_q s).

Theorem fifo_exact_cb : fifo_exact_cb_stmt.
Proof.
  intros cfg sch k r sd c Hsr Hss Hc Hck Hsc s.
  destruct (snd (fst c)) eqn:Hcb.
  - assert (G : forall s0, reach cfg s0 -> inv_full k s0).
    { intros s0 R. induction R.
      - reflexivity.
      - eapply inv_full_step; eauto. intros th tg Ht Hpc Ek.
        eapply (c_call _ _ _ _ (reach_inv_c cfg k r sd c Hsr Hss Hc Hck Hcb Hsc _ R)); eauto.
        rewrite <- Ek. symmetry. apply rkey_invol. }
    apply G. apply reach_run. constructor.
  - apply fifo_exact. intros c' Hin Ek. apply In_nth_error in Hin. destruct Hin as (n & Hn).
    pose proof (Hsr _ _ Hn Ek). subst n. rewrite Hc in Hn. inversion Hn; subst. exact Hcb.
Qed.

(* a callback endpoint that has a connect ahead of it or is connected (its callback entry
   is not removed) has nothing in its queue: whatever is sent reaches the callback *)
Definition cb_not_stranded_stmt : Prop :=
  forall cfg sch k r sd c, sole cfg k r -> sole cfg (rkey k) sd ->
    nth_error cfg r = Some c -> fst (fst c) = k -> snd (fst c) = true -> script_ok (snd c) = true ->
    let s := run Fixed (init cfg) sch in
    qget k (s_q s) <> [] ->
    aget k (s_rcb s) = None /\
    forall R, nth_error (s_th s) r = Some R -> no_connect (t_ops R) = true.

Theorem cb_not_stranded : cb_not_stranded_stmt.
Proof.
  intros cfg sch k r sd c Hsr Hss Hc Hck Hcb Hsc s Q.
  assert (R : reach cfg s) by (apply reach_run; constructor).
  apply (c_app _ _ _ _ (reach_inv_c cfg k r sd c Hsr Hss Hc Hck Hcb Hsc _ R)). left. exact Q.
Qed.

(* ------------------------------------------------------------------ part 12: runs after a reset *)
Lemma reset_is_init : forall s cfg, reset s cfg = init cfg.
Proof. reflexivity. Qed.

Lemma run_history_last : forall v h s cfg sch,
  run_history v s (h ++ [(cfg, sch)]) = run v (init cfg) sch.
Proof.
  intros v h. induction h as [|[c0 s0] h IH]; intros s cfg sch; simpl.
  - reflexivity.
  - apply IH.
Qed.

(* whatever holds for every run from a fresh hub holds for the run after any history and a reset *)
Definition after_reset_stmt : Prop :=
  forall (P : list (key * bool * list op) -> list nat -> state -> Prop),
    (forall cfg sch, P cfg sch (run Fixed (init cfg) sch)) ->
    forall s0 h cfg sch, P cfg sch (run_history Fixed s0 (h ++ [(cfg, sch)])).

Theorem after_reset : after_reset_stmt.
Proof. intros P H s0 h cfg sch. rewrite run_history_last. apply H. Qed.

(* instance: exactly-once and in order relative to what was sent in THAT run *)
Definition fifo_after_reset_stmt : Prop :=
  forall s0 h cfg sch k, plain cfg k ->
    let s := run_history Fixed s0 (h ++ [(cfg, sch)]) in
    sent_log k (s_tr s) = recv_log k (s_tr s) ++ qget k (s_q s).

Theorem fifo_after_reset : fifo_after_reset_stmt.
Proof. intros s0 h cfg sch k Hp. rewrite run_history_last. apply fifo_exact; auto. Qed.
