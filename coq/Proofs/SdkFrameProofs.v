(* SdkFrameProofs.v — lower_frame (C05 / C14): every classical register written by
   the code of a statement was inactive when the statement was lowered; the
   registers of enclosing loops are active; hence executing the code leaves the
   loop variables of all enclosing operations untouched. *)
From Coq Require Import ZArith List Bool Arith Lia.
From NQ Require Import Sdk.SdkAst Sdk.Target Sdk.MemMgr Sdk.Lower Sdk.Writes Proofs.SdkRegProofs.
Import ListNotations.
Local Open Scope nat_scope.

Definition free_at (st : lst) (k : nat) : Prop := nth_error (l_act st) k = Some false.

Lemma free_same : forall a b k, l_act a = l_act b -> free_at a k -> free_at b k.
Proof. unfold free_at. intros a b k E H. rewrite <- E. exact H. Qed.

Lemma free_take_at : forall o st t s1 k, take_at o st = Ok (t, s1) -> free_at s1 k -> free_at st k.
Proof.
  unfold free_at. intros o st t s1 k Ht H. apply take_at_facts in Ht. destruct Ht as (_ & Ha & _).
  rewrite Ha in H. eapply free_after_take; eauto.
Qed.
Lemma free_take : forall st t s1 k, take st = Ok (t, s1) -> free_at s1 k -> free_at st k.
Proof. exact (free_take_at None). Qed.

Lemma take_at_free : forall o st t s1, take_at o st = Ok (t, s1) -> free_at st t.
Proof. intros o st t s1 Ht. apply take_at_facts in Ht. exact (proj1 Ht). Qed.
Lemma take_free : forall st t s1, take st = Ok (t, s1) -> free_at st t.
Proof. exact (take_at_free None). Qed.

Lemma sws_app : forall a b, sws (a ++ b) = sws a ++ sws b.
Proof. intros. unfold sws. apply flat_map_app. Qed.

Lemma sws_map_XI : forall l, sws (map XI l) = flat_map iw l.
Proof.
  unfold sws. induction l as [|i l IH]; cbn [map flat_map]; [reflexivity|].
  rewrite IH. reflexivity.
Qed.

Lemma low_cval_writes : forall x st l p ts st1,
  low_cval x st = Ok (l, p, ts, st1) -> forall k, In k (flat_map iw l) -> free_at st k.
Proof.
  intros x st l p ts st1 H k Hk. destruct x; cbn [low_cval] in H.
  - inversion H; subst. destruct Hk.
  - destruct (low_ix ix st) as [ix'|e]; cbn [bind] in H; [|discriminate].
    destruct (take st) as [[t s1]|e] eqn:Ht; cbn [bind] in H; [|discriminate].
    inversion H; subst. cbn in Hk. destruct Hk as [<-|[]]. eapply take_free; eauto.
  - destruct (rf_lookup r st); inversion H; subst. destruct Hk.
  - destruct (alook v (l_lv st)); inversion H; subst. destruct Hk.
Qed.

Lemma low_src_writes : forall x st l p ts st1,
  low_src x st = Ok (l, p, ts, st1) -> forall k, In k (flat_map iw l) -> free_at st k.
Proof.
  intros x st l p ts st1 H k Hk. destruct x; cbn [low_src] in H.
  - inversion H; subst. destruct Hk.
  - destruct (low_ix ix st) as [ix'|e]; cbn [bind] in H; [|discriminate].
    destruct (take st) as [[t s1]|e] eqn:Ht; cbn [bind] in H; [|discriminate].
    inversion H; subst. cbn in Hk. destruct Hk as [<-|[]]. eapply take_free; eauto.
  - destruct (alook v (l_lv st)); inversion H; subst. destruct Hk.
  - destruct (rf_lookup r st); inversion H; subst. destruct Hk.
Qed.

Lemma low_src_y : forall x st l p ts st1,
  low_src x st = Ok (l, p, ts, st1) -> True.
Proof. auto. Qed.

Lemma low_meas_writes : forall q ip keep st m c st1,
  low_meas q ip keep st = Ok (m, c, st1) -> sws c = [].
Proof.
  intros q ip keep st m c st1 H. unfold low_meas in H.
  destruct (qubit_id q st) as [id|e]; cbn [bind] in H; [|discriminate].
  destruct (take_m st keep) as [[m' s1]|e]; cbn [bind] in H; [|discriminate].
  inversion H; subst. destruct ip; reflexivity.
Qed.

Definition stmt_frame (fd : bool) (s : stmt) : Prop :=
  plain s = true -> forall st c st', lower_stmt fd s st = Ok (c, st') -> forall k, In k (sws c) -> free_at st k.
Definition block_frame (fd : bool) (b : block) : Prop :=
  bplain b = true -> forall st c st', lower_block fd b st = Ok (c, st') -> forall k, In k (sws c) -> free_at st k.

Ltac inv_ok H := inversion H; subst; clear H.

Theorem lower_frame_all : forall fd, (forall s, stmt_frame fd s) /\ (forall b, block_frame fd b).
Proof.
  intro fd. apply stmt_block_ind; unfold stmt_frame, block_frame.
  - intros q _ st c st' H k Hk. cbn [lower_stmt] in H. destruct (alook q (l_q st)); [discriminate|].
    inv_ok H. destruct Hk.
  - intros g q _ st c st' H k Hk. cbn [lower_stmt] in H.
    destruct (qubit_id q st); cbn [bind] in H; [|discriminate]. inv_ok H. destruct Hk.
  - intros ax q n d _ st c st' H k Hk. cbn [lower_stmt] in H.
    destruct (qubit_id q st); cbn [bind] in H; [|discriminate]. inv_ok H. destruct Hk.
  - intros t q1 q2 _ st c st' H k Hk. cbn [lower_stmt] in H.
    destruct (qubit_id q1 st); cbn [bind] in H; [|discriminate].
    destruct (qubit_id q2 st); cbn [bind] in H; [|discriminate]. inv_ok H. destruct Hk.
  - intros q ip a ix _ st c st' H k Hk. cbn [lower_stmt] in H.
    destruct (low_ix ix st); cbn [bind] in H; [|discriminate].
    destruct (low_meas q ip false st) as [[[m c0] s1]|e] eqn:Em; cbn [bind] in H; [|discriminate].
    inv_ok H. rewrite sws_app, (low_meas_writes _ _ _ _ _ _ _ Em) in Hk. destruct Hk.
  - intros q ip a _ st c st' H k Hk. cbn [lower_stmt] in H.
    destruct (declare a 1 None st) as [st0|e0]; cbn [bind] in H; [|discriminate].
    destruct (low_meas q ip false st0) as [[[m c0] s1]|e] eqn:Em; cbn [bind] in H; [|discriminate].
    inv_ok H. rewrite sws_app, (low_meas_writes _ _ _ _ _ _ _ Em) in Hk. destruct Hk.
  - intros q ip r _ st c st' H k Hk. cbn [lower_stmt] in H.
    destruct (alook r (l_rf st)); [discriminate|].
    destruct (low_meas q ip true st) as [[[m c0] s1]|e] eqn:Em; cbn [bind] in H; [|discriminate].
    inv_ok H. rewrite (low_meas_writes _ _ _ _ _ _ _ Em) in Hk. destruct Hk.
  - intros q _ st c st' H k Hk. cbn [lower_stmt] in H.
    destruct (qubit_id q st); cbn [bind] in H; [|discriminate]. inv_ok H. destruct Hk.
  - intros a len init _ st c st' H k Hk. cbn [lower_stmt] in H.
    destruct (Nat.eqb _ 0); [discriminate|].
    destruct (declare a _ init st); cbn [bind] in H; [|discriminate]. inv_ok H. destruct Hk.
  - (* SFutAdd *) intros a ix o m _ st c st' H k Hk. cbn [lower_stmt] in H.
    destruct (low_ix ix st) as [ix'|e]; cbn [bind] in H; [|discriminate].
    destruct (take st) as [[t st1]|e] eqn:Ht; cbn [bind] in H; [|discriminate].
    destruct (low_src o st1) as [[[[lo y] ts] st2]|e] eqn:Hs; cbn [bind] in H; [|discriminate].
    match type of H with Ok (?cc, _) = _ => assert (Ec : c = cc) by (inversion H; reflexivity) end.
    clear H. subst c. rewrite sws_map_XI in Hk.
    rewrite !flat_map_app in Hk. apply in_app_or in Hk. destruct Hk as [Hk|Hk].
    + cbn in Hk. destruct Hk as [<-|[]]. eapply take_free; eauto.
    + apply in_app_or in Hk. destruct Hk as [Hk|Hk].
      * eapply free_take; [exact Ht|]. eapply low_src_writes; eauto.
      * destruct m; cbn in Hk; destruct Hk as [<-|[]]; eapply take_free; eauto.
  - (* SRegAdd *) intros r o m _ st c st' H k Hk. cbn [lower_stmt] in H.
    destruct (rf_lookup r st) as [[[] k0]|]; try discriminate.
    destruct (low_src o st) as [[[[lo y] ts] st1]|e] eqn:Hs; cbn [bind] in H; [|discriminate].
    match type of H with Ok (?cc, _) = _ => assert (Ec : c = cc) by (inversion H; reflexivity) end.
    clear H. subst c. rewrite sws_map_XI, flat_map_app in Hk. apply in_app_or in Hk. destruct Hk as [Hk|Hk].
    + eapply low_src_writes; eauto.
    + destruct m; cbn in Hk; destruct Hk.
  - (* SNewReg *) intros r init Hp. discriminate.
  - (* SUAdd *) intros r o m Hp. discriminate.
  - (* SIf *) intros c cb x y body IH Hp st code st' H k Hk. cbn [plain] in Hp. specialize (IH Hp). cbn [lower_stmt] in H.
    destruct (lower_block fd body st) as [[cbody st1]|e] eqn:Hb; cbn [bind] in H; [|discriminate].
    destruct (is_nil cbody); [inv_ok H; destruct Hk|].
    assert (E1 := active_restored_block _ _ _ _ _ Hp Hb).
    destruct (low_cval x st1) as [[[[lx px] tx] st2]|e] eqn:Hx; cbn [bind] in H; [|discriminate].
    assert (Wx := low_cval_writes _ _ _ _ _ _ Hx).
    assert (Wb : forall k, In k (sws cbody) -> free_at st k) by (intros; eapply IH; eauto).
    assert (U : forall k, In k (flat_map iw lx ++ sws cbody) -> free_at st k).
    { intros k0 Hk0. apply in_app_or in Hk0. destruct Hk0; [eapply free_same; [exact E1|]|]; auto. }
    destruct c; try (inv_ok H; cbn in Hk; rewrite app_nil_r in Hk; apply U; exact Hk);
      (destruct (low_cval y st2) as [[[[ly py] ty] st3]|e] eqn:Hy; cbn [bind] in H; [|discriminate];
       inv_ok H; cbn in Hk; rewrite app_nil_r, flat_map_app in Hk;
       apply in_app_or in Hk; destruct Hk as [Hk|Hk]; [|apply Wb; exact Hk];
       apply in_app_or in Hk; destruct Hk as [Hk|Hk];
       [ eapply free_same; [exact E1|]; apply Wx; exact Hk
       | eapply free_same; [exact E1|];
         assert (Wy := low_cval_writes _ _ _ _ _ _ Hy k Hk);
         destruct (low_cval_held _ _ _ _ _ _ Hx) as [[_ ->]|(t & _ & Ht)];
         [exact Wy|eapply free_take; eauto] ]).
  - (* SLoop *) intros cb v oreg start stop step body IH Hp st code st' H k Hk.
    cbn [plain] in Hp. specialize (IH Hp). cbn [lower_stmt] in H.
    destruct (alook v (l_lv st)); [discriminate|].
    destruct (take_at oreg st) as [[r st1]|e] eqn:Ht; cbn [bind] in H; [|discriminate].
    destruct (lower_block fd body (bind_lvr v r st1)) as [[cbody st2]|e] eqn:Hb; cbn [bind] in H; [|discriminate].
    destruct (is_nil cbody); inv_ok H; [destruct Hk|].
    cbn in Hk. rewrite app_nil_r in Hk. destruct Hk as [<-|Hk]; [eapply take_at_free; eauto|].
    eapply free_take_at; [exact Ht|]. eapply free_same with (a := bind_lvr v r st1); [reflexivity|].
    eapply IH; eauto.
  - (* SForeach *) intros enum v a body IH Hp st code st' H k Hk. cbn [plain] in Hp. specialize (IH Hp). cbn [lower_stmt] in H.
    destruct (alook a (l_len st)); [|discriminate].
    destruct (alook v (l_lv st)); [discriminate|].
    destruct (take st) as [[r st1]|e] eqn:Ht; cbn [bind] in H; [|discriminate].
    destruct (lower_block fd body (bind_lvr v r st1)) as [[cbody st2]|e] eqn:Hb; cbn [bind] in H; [|discriminate].
    destruct (is_nil cbody); inv_ok H; [destruct Hk|].
    cbn in Hk. rewrite app_nil_r in Hk. destruct Hk as [<-|Hk]; [eapply take_free; eauto|].
    eapply free_take; [exact Ht|]. eapply free_same with (a := bind_lvr v r st1); [reflexivity|].
    eapply IH; eauto.
  - (* SLoopUntil *) intros v maxit body IHb cx bound cleanup IHc Hp st code st' H k Hk. cbn [plain] in Hp.
    apply andb_prop in Hp. destruct Hp as [Hp1 Hp2]. specialize (IHb Hp1). specialize (IHc Hp2). cbn [lower_stmt] in H.
    destruct (alook v (l_lv st)); [discriminate|].
    destruct (take st) as [[r st1]|e] eqn:Ht; cbn [bind] in H; [|discriminate].
    destruct (lower_block fd body (bind_lvr v r st1)) as [[cbody st2]|e] eqn:Hb; cbn [bind] in H; [|discriminate].
    destruct (is_nil cbody); [inv_ok H; destruct Hk|].
    assert (E2 := active_restored_block _ _ _ _ _ Hp1 Hb). cbn [bind_lvr with_lvs l_act] in E2.
    destruct (low_cval cx st2) as [[[[lx px] tx] st3]|e] eqn:Hx; cbn [bind] in H; [|discriminate].
    destruct (lower_block fd cleanup (release_all tx st3)) as [[ccl st4]|e] eqn:Hc; cbn [bind] in H; [|discriminate].
    inv_ok H. cbn in Hk. rewrite app_nil_r in Hk.
    destruct Hk as [<-|Hk]; [eapply take_free; eauto|].
    eapply free_take; [exact Ht|].
    apply in_app_or in Hk. destruct Hk as [Hk|Hk].
    + eapply free_same with (a := bind_lvr v r st1); [reflexivity|]. eapply IHb; eauto.
    + apply in_app_or in Hk. destruct Hk as [Hk|Hk].
      * eapply free_same; [exact E2|]. eapply low_cval_writes; eauto.
      * eapply free_same; [exact E2|].
        assert (G := held_release _ _ _ (low_cval_held _ _ _ _ _ _ Hx)).
        eapply free_same; [exact (proj1 G)|]. eapply IHc; eauto.
  - (* SEpr *) intros kk body IH Hp st code st' H k Hk. cbn [plain] in Hp. specialize (IH Hp). cbn [lower_stmt] in H. destruct kk.
    + destruct body; [|discriminate]. inv_ok H. destruct Hk.
    + destruct body; [|discriminate].
      destruct (transient 5 _); cbn [bind] in H; [|discriminate]. inv_ok H. destruct Hk.
    + eapply free_same; [exact (proj1 (epr_arrays_same narr true st))|].
      remember (epr_arrays narr true st) as st0 eqn:Est0. clear Est0 st. rename st0 into st.
      destruct (take st) as [[r1 s1]|e] eqn:H1; cbn [bind] in H; [|discriminate].
      destruct (take s1) as [[r2 s2]|e] eqn:H2; cbn [bind] in H; [|discriminate].
      destruct (take s2) as [[r3 s3]|e] eqn:H3; cbn [bind] in H; [|discriminate].
      destruct (transient 4 s3) as [s4|e] eqn:E4; cbn [bind] in H; [|discriminate].
      destruct (if corr then transient 2 s4 else Ok s4) as [s5|e] eqn:E5; cbn [bind] in H; [|discriminate].
      destruct (lower_block fd body s5) as [[cb_ s6]|e] eqn:Hb; cbn [bind] in H; [|discriminate].
      inv_ok H. cbn in Hk.
      eapply free_take; [exact H1|]. eapply free_take; [exact H2|]. eapply free_take; [exact H3|].
      assert (A4 := proj1 (transient_facts _ _ _ E4)).
      assert (A5 : l_act s5 = l_act s4).
      { destruct corr; [exact (proj1 (transient_facts _ _ _ E5))|inversion E5; reflexivity]. }
      eapply free_same with (a := s5); [congruence|]. eapply IH; eauto.
    + eapply free_same; [exact (proj1 (epr_arrays_same narr false st))|].
      remember (epr_arrays narr false st) as st0 eqn:Est0. clear Est0 st. rename st0 into st.
      destruct (take st) as [[r1 s1]|e] eqn:H1; cbn [bind] in H; [|discriminate].
      destruct (lower_block fd body s1) as [[cb_ s2]|e] eqn:Hb; cbn [bind] in H; [|discriminate].
      destruct (transient 4 s2); cbn [bind] in H; [|discriminate].
      inv_ok H. cbn in Hk. eapply free_take; [exact H1|]. eapply IH; eauto.
  - intros _ st c st' H. cbn [lower_stmt] in H. discriminate.
  - (* SFutAddX *) intros a b n o m _ st c st' H k Hk. cbn [lower_stmt] in H.
    destruct (take st) as [[t st1]|e] eqn:Ht; cbn [bind] in H; [|discriminate].
    destruct (take st1) as [[ti st1i]|e] eqn:Hti; cbn [bind] in H; [|discriminate].
    destruct (low_src o (release ti st1i)) as [[[[lo y] ts] st2]|e] eqn:Hs; cbn [bind] in H; [|discriminate].
    match type of H with Ok (?cc, _) = _ => assert (Ec : c = cc) by (inversion H; reflexivity) end.
    clear H. subst c. rewrite sws_map_XI in Hk.
    assert (Ft : free_at st t) by (eapply take_free; eauto).
    assert (Fti : free_at st ti) by (eapply free_take; [exact Ht|eapply take_free; eauto]).
    assert (Ea : l_act (release ti st1i) = l_act st1).
    { destruct (take_facts _ _ _ Hti) as (Hf & Ha & _). unfold release. cbn [l_act with_act]. rewrite Ha.
      apply set_nth_undo. exact Hf. }
    rewrite !flat_map_app in Hk. apply in_app_or in Hk. destruct Hk as [Hk|Hk].
    + cbn in Hk. destruct Hk as [<-|[<-|[]]]; assumption.
    + apply in_app_or in Hk. destruct Hk as [Hk|Hk].
      * eapply free_take; [exact Ht|]. eapply free_same with (a := release ti st1i); [exact Ea|].
        eapply low_src_writes; eauto.
      * destruct m; cbn in Hk; destruct Hk as [<-|[<-|[]]]; assumption.
  - (* SMeasFutX *) intros q ip a b n _ st c st' H k Hk. cbn [lower_stmt] in H.
    destruct (low_meas q ip false st) as [[[m c0] s1]|e] eqn:Em; cbn [bind] in H; [|discriminate].
    destruct (take s1) as [[ti s1i]|e] eqn:Hti; cbn [bind] in H; [|discriminate].
    inv_ok H. rewrite sws_app, (low_meas_writes _ _ _ _ _ _ _ Em) in Hk. cbn in Hk. destruct Hk as [<-|[]].
    eapply free_same with (a := s1); [exact (proj1 (low_meas_good _ _ _ _ _ _ _ Em))|]. eapply take_free; eauto.
  - intros _ st c st' H k Hk. cbn [lower_block] in H. inv_ok H. destruct Hk.
  - intros s IHs b IHb Hp st c st' H k Hk. cbn [bplain] in Hp. apply andb_prop in Hp. destruct Hp as [Hp1 Hp2].
    specialize (IHs Hp1). specialize (IHb Hp2). cbn [lower_block] in H.
    destruct (lower_stmt fd s st) as [[c1 st1]|e] eqn:H1; cbn [bind] in H; [|discriminate].
    destruct (lower_block fd b st1) as [[c2 st2]|e] eqn:H2; cbn [bind] in H; [|discriminate].
    inv_ok H. rewrite sws_app in Hk. apply in_app_or in Hk. destruct Hk as [Hk|Hk].
    + eapply IHs; eauto.
    + eapply free_same; [exact (active_restored _ _ _ _ _ Hp1 H1)|]. eapply IHb; eauto.
Qed.

Theorem lower_frame : forall fd s st c st', plain s = true ->
  lower_stmt fd s st = Ok (c, st') -> forall k, In k (sws c) -> nth_error (l_act st) k = Some false.
Proof. intros fd s st c st' Hp H k Hk. exact (proj1 (lower_frame_all fd) s Hp st c st' H k Hk). Qed.

(* ------------------------------------------------------------------ executing the code *)
Lemma rw_not_in : forall r k, ~ In k (rw r) -> reg_eqb (Rg BR k) r = false.
Proof.
  intros [b i] k H. destruct b; cbn in *; auto.
  destruct (Nat.eqb k i) eqn:E; [|reflexivity]. apply Nat.eqb_eq in E. subst. exfalso. apply H. left; auto.
Qed.

Lemma exec_instr_frame : forall i s s' k,
  exec_instr i s = Some s' -> ~ In k (iw i) -> m_reg s' (Rg BR k) = m_reg s (Rg BR k).
Proof.
  intros i s s' k H Hk.
  destruct i; cbn [exec_instr iw] in *;
    repeat match goal with
           | H : match ?x with _ => _ end = Some _ |- _ => destruct x eqn:?; try discriminate
           | H : (if ?x then _ else _) = Some _ |- _ => destruct x eqn:?; try discriminate
           end;
    inversion H; subst; cbn [m_reg set_reg set_arr emit upd_reg]; try reflexivity;
    try (unfold upd_reg; rewrite (rw_not_in _ _ Hk); reflexivity).
Qed.

Lemma exec_instrs_frame : forall l s s' k,
  exec_instrs l s = Some s' -> ~ In k (flat_map iw l) -> m_reg s' (Rg BR k) = m_reg s (Rg BR k).
Proof.
  induction l as [|i l IH]; intros s s' k H Hk; cbn [exec_instrs] in H.
  - inversion H; reflexivity.
  - destruct (exec_instr i s) as [s1|] eqn:E; [|discriminate].
    cbn [flat_map] in Hk. rewrite (IH _ _ _ H), (exec_instr_frame _ _ _ _ E); auto;
      intro; apply Hk; apply in_or_app; auto.
Qed.

Lemma set_reg_frame : forall s r v k, ~ In k (rw r) -> m_reg (set_reg s r v) (Rg BR k) = m_reg s (Rg BR k).
Proof. intros. cbn [set_reg m_reg]. unfold upd_reg. rewrite rw_not_in; auto. Qed.

(* executing structured code changes no classical R register outside its write set *)
Theorem sx_frame :
  (forall c s s', sx c s s' -> forall k, ~ In k (sws c) -> m_reg s' (Rg BR k) = m_reg s (Rg BR k)) /\
  (forall x s s', sx1 x s s' -> forall k, ~ In k (sw x) -> m_reg s' (Rg BR k) = m_reg s (Rg BR k)) /\
  (forall r b st body s s', sxloop r b st body s s' ->
     forall k, ~ In k (rw r ++ sws body) -> m_reg s' (Rg BR k) = m_reg s (Rg BR k)) /\
  (forall r mx body pre x lim cl s s', sxuntil r mx body pre x lim cl s s' ->
     forall k, ~ In k (rw r ++ sws body ++ flat_map iw pre ++ sws cl) ->
     m_reg s' (Rg BR k) = m_reg s (Rg BR k)).
Proof.
  apply sx_all_ind.
  - intros; reflexivity.
  - intros x r s s1 s2 _ IH1 _ IH2 k Hk. unfold sws in Hk. cbn [flat_map] in Hk.
    rewrite IH2, IH1; auto; intro; apply Hk; apply in_or_app; auto.
  - intros i s s' H k Hk. eapply exec_instr_frame; eauto.
  - intros pre c x y body s s1 s2 Hp _ _ IH k Hk. cbn [sw] in Hk.
    rewrite IH, (exec_instrs_frame _ _ _ _ Hp); auto; intro; apply Hk; apply in_or_app; auto.
  - intros pre c x y body s s1 Hp _ k Hk. cbn [sw] in Hk.
    rewrite (exec_instrs_frame _ _ _ _ Hp); auto; intro; apply Hk; apply in_or_app; auto.
  - intros r a b st body s s' _ IH k Hk. cbn [sw] in Hk.
    rewrite (IH k Hk). apply set_reg_frame. intro; apply Hk; apply in_or_app; auto.
  - intros r mx body pre x lim cl s s' _ IH k Hk. cbn [sw] in Hk.
    rewrite (IH k Hk). apply set_reg_frame. intro; apply Hk; apply in_or_app; auto.
  - intros; reflexivity.
  - intros r b st body s s1 s2 v v1 _ _ _ IHb _ _ IHl k Hk.
    rewrite (IHl k Hk), set_reg_frame, IHb; auto; intro; apply Hk; apply in_or_app; auto.
  - intros; reflexivity.
  - intros r mx body pre x lim cl s s1 s2 v w _ _ _ IHb Hp _ _ k Hk.
    rewrite (exec_instrs_frame _ _ _ _ Hp), IHb; auto; intro; apply Hk;
      apply in_or_app; right; apply in_or_app; auto.
    right. apply in_or_app; auto.
  - intros r mx body pre x lim cl s s1 s2 s3 s4 v w v3 _ _ _ IHb Hp _ _ _ IHc _ _ IHu k Hk.
    rewrite (IHu k Hk), set_reg_frame, IHc, (exec_instrs_frame _ _ _ _ Hp), IHb; auto;
      intro; apply Hk; apply in_or_app; auto; right; apply in_or_app; auto;
      right; apply in_or_app; auto.
Qed.

(* the registers of the loop variables in scope are active while a body is lowered *)
Definition lv_active (st : lst) : Prop :=
  forall v r, In (v, r) (l_lv st) -> nth_error (l_act st) r = Some true.

(* Second sentence of C14 / lower_frame of C05, semantically: run the code of a
   statement lowered in a state where the enclosing loop variables are active:
   none of their registers changes. *)
Theorem live_values_preserved : forall fd s st c st' m m', plain s = true ->
  lower_stmt fd s st = Ok (c, st') -> lv_active st -> sx c m m' ->
  forall v r, In (v, r) (l_lv st) -> m_reg m' (Rg BR r) = m_reg m (Rg BR r).
Proof.
  intros fd s st c st' m m' Hp H Hlv Hsx v r Hin.
  apply (proj1 sx_frame _ _ _ Hsx). intro Hk.
  assert (F := lower_frame _ _ _ _ _ Hp H r Hk). rewrite (Hlv _ _ Hin) in F. discriminate.
Qed.
