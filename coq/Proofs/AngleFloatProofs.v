(* AngleFloatProofs.v — what is proved about the RATIONAL model of the float
   front end (Angle.rne53, ilog2, front): round-to-nearest has relative error at
   most 2^-53, hence an explicit bound on the front-end error for angles in
   [0, 2*np.pi) that replaces the measured allowance for that class. *)
From Coq Require Import ZArith QArith Qround Qabs Qpower List Bool Lia Lqa.
From NQ Require Import Num.Angle Proofs.AngleProofs.
Open Scope Q_scope.

Lemma ilog2_spec : forall q, 0 < q -> pow2 (ilog2 q) <= q /\ q < pow2 (ilog2 q + 1).
Proof.
  intros [a b] Hpos. assert (Ha : (0 < a)%Z). { unfold Qlt in Hpos. cbn in Hpos. lia. }
  unfold ilog2. cbn [Qnum Qden].
  set (La := Z.log2 a). set (Lb := Z.log2 (Zpos b)).
  destruct (Z.log2_spec a Ha) as [A1 A2]. fold La in A1, A2.
  destruct (Z.log2_spec (Zpos b) ltac:(lia)) as [B1 B2]. fold Lb in B1, B2.
  assert (HLa : (0 <= La)%Z) by apply Z.log2_nonneg.
  assert (HLb : (0 <= Lb)%Z) by apply Z.log2_nonneg.
  apply le_inj in A1, B1. apply lt_inj in A2, B2.
  rewrite pow2_inject in A1, B1, A2, B2 by lia.
  replace (Z.succ La) with (La + 1)%Z in A2 by lia. replace (Z.succ Lb) with (Lb + 1)%Z in B2 by lia.
  rewrite pow2_succ in A2, B2.
  pose proof (pow2_pos La) as HPa. pose proof (pow2_pos Lb) as HPb.
  assert (Hb : 0 < inject_Z (Zpos b)). { change 0 with (inject_Z 0). apply lt_inj. lia. }
  assert (Hq : (a # b) * inject_Z (Zpos b) == inject_Z a).
  { rewrite Qmake_Qdiv. field. intro E. rewrite E in Hb. discriminate Hb. }
  assert (He : pow2 (La - Lb) * pow2 Lb == pow2 La).
  { rewrite <- pow2_plus. replace (La - Lb + Lb)%Z with La by lia. reflexivity. }
  pose proof (pow2_pos (La - Lb)) as HP0.
  pose proof (pow2_succ (La - Lb)) as Hs. pose proof (pow2_pred (La - Lb)) as Hp.
  set (q := a # b) in *. set (B := inject_Z (Zpos b)) in *. set (A := inject_Z a) in *.
  set (Pa := pow2 La) in *. set (Pb := pow2 Lb) in *. set (P0 := pow2 (La - Lb)) in *.
  (* P0/2 < q < 2 P0 *)
  assert (H1 : P0 < 2 * q).
  { assert (E : q * (B * Pb) == A * Pb) by (rewrite <- Hq; ring).
    assert (0 < B * Pb) by nra. nra. }
  assert (H2 : q < 2 * P0).
  { assert (E : (2 * P0 - q) * (B * Pb) == 2 * Pa * B - A * Pb) by (rewrite <- Hq, <- He; ring).
    assert (0 < B * Pb) by nra. assert (0 < 2 * Pa * B - A * Pb) by nra. nra. }
  destruct (Qle_bool P0 q) eqn:E.
  - apply Qle_bool_iff in E. split; [exact E|]. fold P0. lra.
  - assert (E' : q < P0). { apply Qnot_le_lt. intro Hc. apply Qle_bool_iff in Hc. congruence. }
    replace (La - Lb - 1 + 1)%Z with (La - Lb)%Z by lia. fold P0.
    set (Pm := pow2 (La - Lb - 1)) in *. split; lra.
Qed.

Lemma rne_int_spec : forall x, Qabs (inject_Z (rne_int x) - x) <= 1 # 2.
Proof.
  intro x. unfold rne_int. pose proof (Qfloor_le x) as H1. pose proof (Qlt_floor x) as H2.
  rewrite inject_Z_plus in H2. change (inject_Z 1) with 1 in H2.
  set (f := Qfloor x) in *. apply Qabs_Qle_condition.
  destruct (Qcompare (x - inject_Z f) (1 # 2)) eqn:C.
  - apply Qeq_alt in C. destruct (Z.even f); [|rewrite inject_Z_plus; change (inject_Z 1) with 1]; split; lra.
  - apply Qlt_alt in C. split; lra.
  - apply Qgt_alt in C. rewrite inject_Z_plus. change (inject_Z 1) with 1. split; lra.
Qed.

(* round-to-nearest-even on the rationals: relative error at most 2^-53 *)
Lemma rne53_pos_spec : forall q r, 0 < q -> rne53_pos q = Some r -> Qabs (r - q) <= q * pow2 (-53).
Proof.
  intros q r Hq H. unfold rne53_pos in H.
  destruct ((ilog2 q <? -1022)%Z || (1023 <? ilog2 q)%Z); [discriminate|]. injection H as H. subst r.
  destruct (ilog2_spec q Hq) as [L1 L2]. set (e := ilog2 q) in *.
  pose proof (rne_int_spec (q / pow2 (e - 52))) as Hr.
  pose proof (pow2_pos (e - 52)) as HP. pose proof (pow2_pos e) as HPe.
  assert (E1 : pow2 (e - 52) * pow2 52 == pow2 e).
  { rewrite <- pow2_plus. replace (e - 52 + 52)%Z with e by lia. reflexivity. }
  assert (E2 : pow2 (-53) * pow2 53 == 1).
  { rewrite <- pow2_plus. reflexivity. }
  set (P := pow2 (e - 52)) in *. set (m := inject_Z (rne_int (q / P))) in *.
  assert (E : m * P - q == (m - q / P) * P). { field. intro Z0. rewrite Z0 in HP. discriminate HP. }
  apply Qabs_Qle_condition in Hr. apply Qabs_Qle_condition. rewrite E.
  change (pow2 52) with 4503599627370496 in E1. change (pow2 53) with 9007199254740992 in E2.
  set (h := pow2 (-53)) in *. set (d := m - q / P) in *. destruct Hr as [Hr1 Hr2].
  (* |d| <= 1/2, P * 2^52 = 2^e <= q, h * 2^53 = 1:  |d P| <= P/2 = 2^e h <= q h *)
  assert (Hh : 0 < h) by (unfold h; apply pow2_pos).
  assert (EP : P == 2 * (pow2 e * h)).
  { assert (X : P * 1 == 2 * (P * 4503599627370496) * h).
    { rewrite <- E2. ring. }
    rewrite E1 in X. lra. }
  split; nra.
Qed.

Lemma rne53_spec : forall q r, rne53 q = Some r -> Qabs (r - q) <= Qabs q * pow2 (-53).
Proof.
  intros [a b] r H. unfold rne53 in H. cbn [Qnum] in H. destruct a as [|a|a].
  - injection H as H. subst r. assert (E : 0 # b == 0) by reflexivity. rewrite E.
    rewrite Qabs_pos; [|lra]. change (Qabs 0) with 0. lra.
  - assert (Hq : 0 < Zpos a # b) by reflexivity.
    rewrite (Qabs_pos (Zpos a # b)) by (apply Qlt_le_weak; exact Hq). apply rne53_pos_spec; assumption.
  - destruct (rne53_pos (- (Zneg a # b))) as [r'|] eqn:R; [|discriminate]. injection H as H. subst r.
    assert (Hq : 0 < - (Zneg a # b)) by reflexivity.
    pose proof (rne53_pos_spec _ _ Hq R) as Hs.
    assert (E : - r' - (Zneg a # b) == - (r' - - (Zneg a # b))) by ring.
    rewrite E, Qabs_opp. rewrite (Qabs_neg (Zneg a # b)); [exact Hs|]. discriminate.
Qed.

(* ----------------------------------------------- front end, first turn *)

Lemma Qnum_zero : forall r : Q, Qnum r = 0%Z -> r == 0.
Proof. intros [a b] H. cbn in H. subst a. reflexivity. Qed.

Lemma py_mod_first_turn : forall a m a1,
  0 <= a -> a < m -> py_mod a m = Some a1 -> a1 == a.
Proof.
  intros a m a1 H0 H1 H. assert (Hm : 0 < m) by lra.
  assert (Ht : qtrunc (a / m) = 0%Z).
  { unfold qtrunc. assert (Hx0 : 0 <= a / m). { apply Qle_shift_div_l; [exact Hm|lra]. }
    assert (Hx1 : a / m < 1). { apply Qlt_shift_div_r; [exact Hm|lra]. }
    assert (E : Qle_bool 0 (a / m) = true) by (apply Qle_bool_iff; exact Hx0). rewrite E.
    pose proof (Qfloor_le (a / m)) as F1. pose proof (Qlt_floor (a / m)) as F2.
    assert (G1 : inject_Z (Qfloor (a / m)) < inject_Z 1) by (change (inject_Z 1) with 1; lra).
    assert (G2 : inject_Z (-1) < inject_Z (Qfloor (a / m))).
    { rewrite inject_Z_plus in F2. change (inject_Z 1) with 1 in F2. change (inject_Z (-1)) with (-1). lra. }
    apply inj_lt in G1, G2. lia. }
  unfold py_mod, c_fmod in H. rewrite Ht in H.
  assert (Er : a - m * inject_Z 0 == a) by (change (inject_Z 0) with 0; ring).
  set (r := a - m * inject_Z 0) in *.
  destruct (Qnum r) as [|n|n] eqn:En.
  - injection H as H. subst a1. apply Qnum_zero in En. lra.
  - injection H as H. subst a1. exact Er.
  - exfalso. assert (Hr : r < 0). { destruct r as [rn rd]. cbn in En. subst rn. reflexivity. }
    lra.
Qed.

(* pure arithmetic: the two roundings and the distance between pi (p) and the
   double np.pi (P) *)
Lemma fe_arith : forall h P Ph p X r0 tol T thr D c,
  0 < h -> 0 < P -> P <= p -> p <= Ph -> 0 <= X -> X < 2 ->
  Qabs (r0 - X) <= X * h -> 0 < tol -> tol <= 1 -> T * P == tol -> Qabs (thr - T) <= T * h ->
  0 <= D -> (1 + h) * Ph - P <= D * P ->
  2 * h * Ph + 2 * (Ph - P) + D <= c ->
  Qabs (r0 * p - X * P) + (if Qle_bool (thr * p) tol then 0 else thr * p - tol) <= c.
Proof.
  intros h P Ph p X r0 tol T thr D c Hh HP Hp1 Hp2 HX0 HX2 Hr Ht0 Ht1 HT Hthr HD0 HD Hc.
  apply Qabs_Qle_condition in Hr, Hthr. destruct Hr as [Hr1 Hr2], Hthr as [Hq1 Hq2].
  assert (HT0 : 0 < T) by nra.
  assert (HPh : 0 < Ph) by lra. assert (Hp0 : 0 < p) by lra.
  assert (HhPh : 0 <= h * Ph) by nra. assert (Hhp : 0 <= h * p) by nra. assert (Hhpp : h * p <= h * Ph) by nra.
  (* first part *)
  assert (A : Qabs (r0 * p - X * P) <= 2 * h * Ph + 2 * (Ph - P)).
  { apply Qabs_Qle_condition.
    assert (E : r0 * p - X * P == (r0 - X) * p + X * (p - P)) by ring. rewrite E.
    assert (B1 : (r0 - X) * p <= X * h * p) by nra.
    assert (B2 : - (X * h * p) <= (r0 - X) * p) by nra.
    assert (B3 : X * h * p <= 2 * h * Ph).
    { assert (X * (h * p) <= X * (h * Ph)) by nra. assert (X * (h * Ph) <= 2 * (h * Ph)) by nra. lra. }
    assert (B4 : 0 <= X * (p - P)) by nra.
    assert (B5 : X * (p - P) <= 2 * (Ph - P)).
    { assert (X * (p - P) <= X * (Ph - P)) by nra. assert (X * (Ph - P) <= 2 * (Ph - P)) by nra. lra. }
    assert (B6 : 0 <= X * h * p) by nra.
    split; lra. }
  (* second part *)
  assert (B : (if Qle_bool (thr * p) tol then 0 else thr * p - tol) <= D).
  { destruct (Qle_bool (thr * p) tol); [exact HD0|].
    assert (C1 : thr * p <= T * (1 + h) * p) by nra.
    assert (C2 : T * (1 + h) * p <= T * ((1 + h) * Ph)) by nra.
    assert (C3 : T * ((1 + h) * Ph) - T * P <= T * (D * P)) by nra.
    assert (C4 : T * (D * P) == tol * D) by (rewrite <- HT; ring).
    assert (C5 : tol * D <= D) by nra. lra. }
  lra.
Qed.

Lemma front_first_turn_inv : forall angle tol rest thr,
  0 <= angle -> angle < 2 * PI_D -> front angle tol = Some (rest, thr) ->
  exists a1 r0, a1 == angle /\ rne53 (a1 / PI_D) = Some r0 /\
    rest = (if Qle_bool 2 r0 then r0 - 2 else r0) /\ rne53 (tol / PI_D) = Some thr.
Proof.
  intros angle tol rest thr H0 H1 H. unfold front, front_gen in H.
  destruct (py_mod angle (2 * PI_D)) as [a1|] eqn:M; [|discriminate].
  destruct (rne53 (a1 / PI_D)) as [r0|] eqn:R; [|discriminate].
  destruct (rne53 (tol / PI_D)) as [t|] eqn:T; [|discriminate].
  injection H as H1' H2'. exists a1, r0. split; [exact (py_mod_first_turn _ _ _ H0 H1 M)|].
  split; [exact R|]. split; [symmetry; exact H1' | congruence].
Qed.

(* for every angle in [0, 2*np.pi) and 2^-240 <= tol <= 1: the front end's rest
   lies in [0, 2), thr >= 2^-248, and rest half turns are within 2^-49 radians
   (threshold excess included) of angle - 2 k pi, k = 1 exactly when the guard
   `if rest >= 2` fired *)
Theorem front_first_turn : forall angle tol rest thr,
  0 <= angle -> angle < 2 * PI_D -> pow2 (-240) <= tol -> tol <= 1 ->
  front angle tol = Some (rest, thr) ->
  0 <= rest /\ rest < 2 /\ pow2 (8 - D_FIELD) <= thr /\
  exists k, (k = 0 \/ k = 1)%Z /\
    forall p, PI_LO <= p -> p <= PI_HI -> fe_at angle tol rest thr k p <= FE_ALLOW.
Proof.
  intros angle tol rest thr H0 H1 Ht0 Ht1 H.
  destruct (front_first_turn_inv angle tol rest thr H0 H1 H) as [a1 [r0 [Ea [R [Erest T]]]]].
  assert (HPD : 0 < PI_D) by reflexivity.
  assert (Htol : 0 < tol). { pose proof (pow2_pos (-240)). lra. }
  pose proof (rne53_spec _ _ R) as Sr. pose proof (rne53_spec _ _ T) as St.
  set (X := a1 / PI_D) in *. set (TT := tol / PI_D) in *.
  assert (EX : X * PI_D == angle). { unfold X. rewrite <- Ea. field. discriminate. }
  assert (ET : TT * PI_D == tol). { unfold TT. field. discriminate. }
  assert (HX0 : 0 <= X) by nra. assert (HX2 : X < 2) by nra. assert (HT0 : 0 < TT) by nra.
  rewrite (Qabs_pos X) in Sr by exact HX0. rewrite (Qabs_pos TT) in St by lra.
  set (h := pow2 (-53)) in *. assert (Hh : 0 < h) by (unfold h; apply pow2_pos).
  assert (Hh1 : h <= 1 # 1000) by (vm_compute; discriminate).
  pose proof Sr as Sr'. pose proof St as St'.
  apply Qabs_Qle_condition in Sr', St'. destruct Sr' as [Sr1 Sr2], St' as [St1 St2].
  (* thr >= 2^-248 *)
  assert (Hthr : pow2 (8 - D_FIELD) <= thr).
  { assert (A1 : tol <= TT * 4). { assert (PI_D <= 4) by (vm_compute; discriminate). nra. }
    assert (A2 : pow2 (8 - D_FIELD) * 8 <= pow2 (-240)) by (vm_compute; discriminate).
    pose proof (pow2_pos (8 - D_FIELD)). nra. }
  (* the numeric fact *)
  set (D := 2 # 10000000000000000).
  assert (HD : (1 + h) * PI_HI - PI_D <= D * PI_D) by (vm_compute; discriminate).
  assert (Hc : 2 * h * PI_HI + 2 * (PI_HI - PI_D) + D <= FE_ALLOW) by (vm_compute; discriminate).
  assert (HP1 : PI_D <= PI_LO) by (vm_compute; discriminate).
  assert (Hmain : forall p, PI_LO <= p -> p <= PI_HI ->
            Qabs (r0 * p - X * PI_D) + (if Qle_bool (thr * p) tol then 0 else thr * p - tol) <= FE_ALLOW).
  { intros p Hp1 Hp2. apply (fe_arith h PI_D PI_HI p X r0 tol TT thr D FE_ALLOW); try assumption; try lra. }
  destruct (Qle_bool 2 r0) eqn:G.
  - apply Qle_bool_iff in G. subst rest.
    split; [lra|]. split; [nra|]. split; [exact Hthr|].
    exists 1%Z. split; [right; reflexivity|]. intros p Hp1 Hp2. unfold fe_at.
    assert (E : (r0 - 2) * p - (angle - 2 * inject_Z 1 * p) == r0 * p - X * PI_D).
    { change (inject_Z 1) with 1. rewrite EX. ring. }
    rewrite E. apply Hmain; assumption.
  - assert (G' : r0 < 2). { apply Qnot_le_lt. intro Hc'. apply Qle_bool_iff in Hc'. congruence. }
    subst rest. split; [nra|]. split; [exact G'|]. split; [exact Hthr|].
    exists 0%Z. split; [left; reflexivity|]. intros p Hp1 Hp2. unfold fe_at.
    assert (E : r0 * p - (angle - 2 * inject_Z 0 * p) == r0 * p - X * PI_D).
    { change (inject_Z 0) with 0. rewrite EX. ring. }
    rewrite E. apply Hmain; assumption.
Qed.

(* the docstring's statement for the doubles themselves (rational model of the
   front end), for every angle in [0, 2*np.pi) and 2^-240 <= tol <= 1, every p in
   [PI_LO, PI_HI]: no per-input hypothesis left *)
Theorem radians_first_turn : forall angle tol rest thr outs out,
  0 <= angle -> angle < 2 * PI_D -> pow2 (-240) <= tol -> tol <= 1 ->
  front angle tol = Some (rest, thr) -> spec_all angle tol = Some outs -> In (Some out) outs ->
  exists k, (k = 0 \/ k = 1)%Z /\
    forall p, PI_LO <= p -> p <= PI_HI ->
      Qabs ((sumq out + 2 * inject_Z k) * p - angle) <= tol + FE_ALLOW.
Proof.
  intros angle tol rest thr outs out H0 H1 Ht0 Ht1 Hf Hs Hin.
  destruct (front_first_turn angle tol rest thr H0 H1 Ht0 Ht1 Hf) as [Hr0 [Hr2 [Hthr [k [Hk Hfe]]]]].
  exists k. split; [exact Hk|]. intros p Hp1 Hp2.
  apply (radians_checked angle tol rest thr outs out k p Hf Hr0 Hr2 Hthr Hs Hin); try assumption.
  unfold fe_ok. apply andb_true_iff. split; apply Qle_bool_iff; apply Hfe;
    first [apply Qle_refl | discriminate].
Qed.

(* ------------------------------------------------ front end, every angle *)

Lemma front_inv : forall angle tol rest thr,
  front angle tol = Some (rest, thr) ->
  exists a1 r0, py_mod angle (2 * PI_D) = Some a1 /\ rne53 (a1 / PI_D) = Some r0 /\
    rest = (if Qle_bool 2 r0 then r0 - 2 else r0) /\ rne53 (tol / PI_D) = Some thr.
Proof.
  intros angle tol rest thr H. unfold front, front_gen in H.
  destruct (py_mod angle (2 * PI_D)) as [a1|] eqn:M; [|discriminate].
  destruct (rne53 (a1 / PI_D)) as [r0|] eqn:R; [|discriminate].
  destruct (rne53 (tol / PI_D)) as [t|] eqn:T; [|discriminate].
  injection H as H1' H2'. exists a1, r0. split; [reflexivity|].
  split; [exact R|]. split; [symmetry; exact H1' | congruence].
Qed.

Lemma inj_pred : forall c : Z, inject_Z (c - 1) == inject_Z c - 1.
Proof. intro c. unfold Qeq, Qminus, Qplus, Qopp, inject_Z. simpl. lia. Qed.

(* CPython's float % for a positive modulus: the exact remainder
   x = a - m * floor(a / m) in [0, m), rounded once when a is negative *)
Lemma py_mod_general : forall a m a1,
  0 < m -> py_mod a m = Some a1 ->
  let x := a - m * inject_Z (Qfloor (a / m)) in
  0 <= x /\ x < m /\ Qabs (a1 - x) <= x * pow2 (-53).
Proof.
  intros a m a1 Hm H. cbv zeta.
  pose proof (Qfloor_le (a / m)) as F1. pose proof (Qlt_floor (a / m)) as F2.
  rewrite inject_Z_plus in F2. change (inject_Z 1) with 1 in F2.
  set (f := Qfloor (a / m)) in *.
  assert (Ey : a / m * m == a). { field. intro E. rewrite E in Hm. discriminate Hm. }
  set (y := a / m) in *.
  assert (Hx0 : 0 <= a - m * inject_Z f) by nra.
  assert (Hx1 : a - m * inject_Z f < m) by nra.
  pose proof (pow2_pos (-53)) as Hh.
  split; [exact Hx0|]. split; [exact Hx1|].
  unfold py_mod, c_fmod in H. fold y in H. unfold qtrunc in H.
  destruct (Qle_bool 0 y) eqn:S.
  - (* a >= 0: trunc = floor, no rounding *)
    fold f in H. set (r := a - m * inject_Z f) in *.
    destruct (Qnum r) as [|n|n] eqn:En.
    + injection H as H. subst a1. apply Qnum_zero in En.
      apply Qabs_Qle_condition. split; nra.
    + injection H as H. subst a1. apply Qabs_Qle_condition. split; nra.
    + exfalso. assert (Hr : r < 0). { destruct r as [rn rd]. cbn in En. subst rn. reflexivity. } lra.
  - (* a < 0: trunc = ceiling *)
    assert (Sy : y < 0). { apply Qnot_le_lt. intro Hc. apply Qle_bool_iff in Hc. congruence. }
    pose proof (Qle_ceiling y) as C1. pose proof (Qceiling_lt y) as C2. rewrite inj_pred in C2.
    set (c := Qceiling y) in *. set (r := a - m * inject_Z c) in *.
    assert (Hr0 : r <= 0) by (unfold r; nra).
    destruct (Qnum r) as [|n|n] eqn:En.
    + (* a is a multiple of m *)
      injection H as H. subst a1. apply Qnum_zero in En.
      assert (Eyc : y == inject_Z c) by (unfold r in En; nra).
      assert (Efc : f = c).
      { assert (G1 : inject_Z f < inject_Z (c + 1)) by (rewrite inject_Z_plus; change (inject_Z 1) with 1; lra).
        assert (G2 : inject_Z (c - 1) < inject_Z f).
        { rewrite inj_pred. lra. }
        apply inj_lt in G1, G2. lia. }
      rewrite Efc. fold r. apply Qabs_Qle_condition. split; nra.
    + exfalso. assert (Hr : 0 < r). { destruct r as [rn rd]. cbn in En. subst rn. reflexivity. } lra.
    + assert (Hr : r < 0). { destruct r as [rn rd]. cbn in En. subst rn. reflexivity. }
      assert (Yc : y < inject_Z c) by (unfold r in Hr; nra).
      assert (Efc : f = (c - 1)%Z).
      { assert (G1 : inject_Z f < inject_Z c) by lra.
        assert (G2 : inject_Z (c - 1) < inject_Z (f + 1)) by (rewrite inj_pred, (inject_Z_plus f); change (inject_Z 1) with 1; lra).
        apply inj_lt in G1, G2. lia. }
      pose proof (rne53_spec _ _ H) as Sp.
      assert (Ex : r + m == a - m * inject_Z f).
      { rewrite Efc, inj_pred. unfold r. ring. }
      assert (Hp : 0 <= r + m) by lra. rewrite (Qabs_pos (r + m)) in Sp by exact Hp.
      apply Qabs_Qle_condition in Sp. apply Qabs_Qle_condition. destruct Sp as [S1 S2].
      set (h := pow2 (-53)) in *. set (x := a - m * inject_Z f) in *. set (w := r + m) in *.
      split; nra.
Qed.

Lemma abs_inject : forall t : Z, - inject_Z (Z.abs t) <= inject_Z t /\ inject_Z t <= inject_Z (Z.abs t) /\ 0 <= inject_Z (Z.abs t).
Proof.
  intro t. assert (H0 : 0 <= inject_Z (Z.abs t)). { change 0 with (inject_Z 0). apply le_inj. lia. }
  assert (H1 : inject_Z t <= inject_Z (Z.abs t)) by (apply le_inj; lia).
  assert (H2 : inject_Z (- Z.abs t) <= inject_Z t) by (apply le_inj; lia).
  rewrite inject_Z_opp in H2. repeat split; assumption.
Qed.

(* For EVERY rational angle (in particular every finite double, of either sign and
   any size for which the front end is defined) and 2^-240 <= tol <= 1: the front
   end's rest lies in [0, 2), thr >= 2^-248, and rest half turns are within
   allow(angle) radians (threshold excess included) of angle - 2 k pi, where
   k = floor(angle / (2*np.pi)), plus one exactly when `if rest >= 2` fired. *)
Theorem front_general : forall angle tol rest thr,
  pow2 (-240) <= tol -> tol <= 1 ->
  front angle tol = Some (rest, thr) ->
  0 <= rest /\ rest < 2 /\ pow2 (8 - D_FIELD) <= thr /\
  exists k, (k = turns angle \/ k = turns angle + 1)%Z /\
    forall p, PI_LO <= p -> p <= PI_HI -> fe_at angle tol rest thr k p <= allow angle.
Proof.
  intros angle tol rest thr Ht0 Ht1 H.
  destruct (front_inv angle tol rest thr H) as [a1 [r0 [M [R [Erest T]]]]].
  assert (HPD : 0 < PI_D) by reflexivity.
  assert (Hm : 0 < 2 * PI_D) by reflexivity.
  assert (Htol : 0 < tol). { pose proof (pow2_pos (-240)). lra. }
  destruct (py_mod_general _ _ _ Hm M) as [Hx0 [Hx1 Ha1]]. fold (turns angle) in Hx0, Hx1, Ha1.
  set (t := turns angle) in *. set (x := angle - 2 * PI_D * inject_Z t) in *.
  set (h := pow2 (-53)) in *. assert (Hh : 0 < h) by (unfold h; apply pow2_pos).
  assert (Hh1 : h <= 1 # 1000) by (vm_compute; discriminate).
  pose proof (rne53_spec _ _ R) as Sr. pose proof (rne53_spec _ _ T) as St. fold h in Sr, St.
  set (X := a1 / PI_D) in *. set (TT := tol / PI_D) in *. set (X0 := x / PI_D).
  assert (EX : X * PI_D == a1) by (unfold X; field; discriminate).
  assert (EX0 : X0 * PI_D == x) by (unfold X0; field; discriminate).
  assert (ET : TT * PI_D == tol) by (unfold TT; field; discriminate).
  apply Qabs_Qle_condition in Ha1. destruct Ha1 as [A1 A2].
  assert (HX00 : 0 <= X0) by nra. assert (HX02 : X0 < 2) by nra.
  assert (HXX : X0 * (1 - h) <= X /\ X <= X0 * (1 + h)).
  { split; nra. }
  destruct HXX as [HXa HXb].
  assert (HX0 : 0 <= X) by nra. assert (HT0 : 0 < TT) by nra.
  rewrite (Qabs_pos X) in Sr by exact HX0. rewrite (Qabs_pos TT) in St by lra.
  pose proof Sr as Sr'. apply Qabs_Qle_condition in Sr'. destruct Sr' as [Sr1 Sr2].
  pose proof St as St'. apply Qabs_Qle_condition in St'. destruct St' as [St1 St2].
  set (g := 2 * h + h * h).
  assert (Hg : 0 < g) by (unfold g; nra). assert (Hgh : h <= g) by (unfold g; nra).
  assert (Sg : Qabs (r0 - X0) <= X0 * g).
  { apply Qabs_Qle_condition. unfold g.
    assert (U : r0 <= X0 * ((1 + h) * (1 + h))).
    { assert (r0 <= X * (1 + h)) by nra. assert (X * (1 + h) <= X0 * (1 + h) * (1 + h)) by nra. nra. }
    assert (L : X0 * ((1 - h) * (1 - h)) <= r0).
    { assert (X * (1 - h) <= r0) by nra. assert (X0 * (1 - h) * (1 - h) <= X * (1 - h)) by nra. nra. }
    assert (Q2 : 0 <= X0 * (h * h)) by nra.
    split; nra. }
  assert (Stg : Qabs (thr - TT) <= TT * g).
  { apply Qabs_Qle_condition. split; nra. }
  (* thr >= 2^-248 *)
  assert (Hthr : pow2 (8 - D_FIELD) <= thr).
  { assert (B1 : tol <= TT * 4). { assert (PI_D <= 4) by (vm_compute; discriminate). nra. }
    assert (B2 : pow2 (8 - D_FIELD) * 8 <= pow2 (-240)) by (vm_compute; discriminate).
    pose proof (pow2_pos (8 - D_FIELD)). nra. }
  set (D := 3 # 10000000000000000).
  assert (HD : (1 + g) * PI_HI - PI_D <= D * PI_D) by (vm_compute; discriminate).
  assert (Hc : 2 * g * PI_HI + 2 * (PI_HI - PI_D) + D <= FE_ALLOW + pow2 (-50)) by (vm_compute; discriminate).
  assert (HP1 : PI_D <= PI_LO) by (vm_compute; discriminate).
  assert (HTn : 2 * (PI_HI - PI_D) <= TURN_ALLOW) by (vm_compute; discriminate).
  destruct (abs_inject t) as [Ta1 [Ta2 Ta0]].
  assert (Hmain : forall p, PI_LO <= p -> p <= PI_HI ->
            Qabs (r0 * p - (angle - 2 * inject_Z t * p)) + (if Qle_bool (thr * p) tol then 0 else thr * p - tol) <= allow angle).
  { intros p Hp1 Hp2.
    pose proof (fe_arith g PI_D PI_HI p X0 r0 tol TT thr D (FE_ALLOW + pow2 (-50))
                  Hg HPD ltac:(lra) Hp2 HX00 HX02 Sg Htol Ht1 ET Stg ltac:(discriminate) HD Hc) as Hb.
    set (te := if Qle_bool (thr * p) tol then 0 else thr * p - tol) in *.
    assert (E : r0 * p - (angle - 2 * inject_Z t * p) == (r0 * p - X0 * PI_D) + 2 * inject_Z t * (p - PI_D)).
    { rewrite EX0. unfold x. ring. }
    assert (Hte : 0 <= te).
    { unfold te. destruct (Qle_bool (thr * p) tol) eqn:Q; [lra|].
      assert (tol < thr * p). { apply Qnot_le_lt. intro Hcq. apply Qle_bool_iff in Hcq. congruence. } lra. }
    unfold allow. fold t. set (ta := inject_Z (Z.abs t)) in *. set (tq := inject_Z t) in *.
    set (u := Qabs (r0 * p - X0 * PI_D)) in *.
    assert (Hu : - u <= r0 * p - X0 * PI_D /\ r0 * p - X0 * PI_D <= u).
    { apply Qabs_Qle_condition. unfold u. apply Qle_refl. }
    destruct Hu as [Hu1 Hu2].
    assert (Hq : Qabs (r0 * p - (angle - 2 * tq * p)) <= u + ta * TURN_ALLOW).
    { rewrite E. apply Qabs_Qle_condition.
      assert (W0 : 0 <= p - PI_D) by lra. assert (W1 : 2 * (p - PI_D) <= TURN_ALLOW) by lra.
      assert (V1 : 2 * tq * (p - PI_D) <= ta * TURN_ALLOW) by nra.
      assert (V2 : - (ta * TURN_ALLOW) <= 2 * tq * (p - PI_D)) by nra.
      split; lra. }
    lra. }
  destruct (Qle_bool 2 r0) eqn:G.
  - apply Qle_bool_iff in G. subst rest.
    assert (Hr4 : r0 < 4). { apply Qabs_Qle_condition in Sg. assert (g <= 1 # 100) by (unfold g; nra). nra. }
    split; [lra|]. split; [lra|]. split; [exact Hthr|].
    exists (t + 1)%Z. split; [right; reflexivity|]. intros p Hp1 Hp2. unfold fe_at.
    assert (E : (r0 - 2) * p - (angle - 2 * inject_Z (t + 1) * p) == r0 * p - (angle - 2 * inject_Z t * p)).
    { rewrite inject_Z_plus. change (inject_Z 1) with 1. ring. }
    rewrite E. apply Hmain; assumption.
  - assert (G' : r0 < 2). { apply Qnot_le_lt. intro Hc'. apply Qle_bool_iff in Hc'. congruence. }
    subst rest. apply Qabs_Qle_condition in Sg.
    split; [nra|]. split; [exact G'|]. split; [exact Hthr|].
    exists t. split; [left; reflexivity|]. intros p Hp1 Hp2. unfold fe_at. apply Hmain; assumption.
Qed.

(* radians_checked with an arbitrary allowance c at the two rational bounds of pi *)
Theorem radians_allow : forall angle tol rest thr outs out k p c,
  front angle tol = Some (rest, thr) -> 0 <= rest -> rest < 2 -> pow2 (8 - D_FIELD) <= thr ->
  spec_all angle tol = Some outs -> In (Some out) outs ->
  fe_at angle tol rest thr k PI_LO <= c -> fe_at angle tol rest thr k PI_HI <= c ->
  PI_LO <= p -> p <= PI_HI ->
  Qabs ((sumq out + 2 * inject_Z k) * p - angle) <= tol + c.
Proof.
  intros angle tol rest thr outs out k p c Hf H0 H2 HD Hs Hin Hlo Hhi Hp1 Hp2.
  unfold spec_all in Hs. rewrite Hf in Hs. revert Hs. generalize FUEL. intros fuel Hs.
  injection Hs as Hs. subst outs. apply in_map_iff in Hin. destruct Hin as [[raw rf] [Ho Hin]]. cbn [fst] in Ho.
  apply expand_all_sound in Hin.
  assert (Hend : forall q, 0 <= q -> fe_at angle tol rest thr k q <= c ->
                 Qabs ((sumq out + 2 * inject_Z k) * q + - angle) <= tol + c).
  { intros q Hq Hfe. destruct (fe_at_bound _ _ _ _ _ _ _ Hfe) as [fe [te [Ha [Hb [Hc Hd]]]]].
    pose proof (radians_with_front_end D_FIELD thr rest raw rf out tol q _ fe te H0 H2 Hin Ho HD Hq Ha Hb) as H.
    assert (E : (sumq out + 2 * inject_Z k) * q + - angle == sumq out * q - (angle - 2 * inject_Z k * q)) by ring.
    rewrite E. apply Qabs_le_iff in H. apply Qabs_le_iff. destruct H. split; lra. }
  assert (E : (sumq out + 2 * inject_Z k) * p - angle == (sumq out + 2 * inject_Z k) * p + - angle) by ring.
  rewrite E. apply abs_linear_between with (p1 := PI_LO) (p2 := PI_HI); try assumption.
  - apply Hend; [discriminate | exact Hlo].
  - apply Hend; [discriminate | exact Hhi].
Qed.

(* the docstring's statement for every angle and 2^-240 <= tol <= 1, every p in
   [PI_LO, PI_HI], with the explicit allowance allow(angle): no per-input
   hypothesis *)
Theorem radians_general : forall angle tol rest thr outs out,
  pow2 (-240) <= tol -> tol <= 1 ->
  front angle tol = Some (rest, thr) -> spec_all angle tol = Some outs -> In (Some out) outs ->
  exists k, (k = turns angle \/ k = turns angle + 1)%Z /\
    forall p, PI_LO <= p -> p <= PI_HI ->
      Qabs ((sumq out + 2 * inject_Z k) * p - angle) <= tol + allow angle.
Proof.
  intros angle tol rest thr outs out Ht0 Ht1 Hf Hs Hin.
  destruct (front_general angle tol rest thr Ht0 Ht1 Hf) as [Hr0 [Hr2 [Hthr [k [Hk Hfe]]]]].
  exists k. split; [exact Hk|]. intros p Hp1 Hp2.
  apply (radians_allow angle tol rest thr outs out k p (allow angle) Hf Hr0 Hr2 Hthr Hs Hin); try assumption;
    apply Hfe; first [apply Qle_refl | discriminate].
Qed.
