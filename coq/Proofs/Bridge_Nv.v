(* Bridge_Nv.v — bridge from the private interpreter of C08 (Nv/Transpile.v: step /
   run over vanilla and NV subroutines, classical instructions + abstract quantum
   events + scripted measurements) to the common semantics with abstract quantum
   events, Exec/SemQ.v (= Exec/Sem.v on the classical instructions).

   Simulation with an explicit relation: Transpile keeps registers and arrays as
   functions, records ret_reg/ret_arr/qalloc/qfree only as events, has no unit
   module and one fault without a kind; pc is a nat. *)
From Coq Require Import ZArith List Bool String Lia ZifyBool.
From NQ Require Nv.Transpile.
From NQ Require Import Exec.State Exec.Sem Exec.SemQ Proofs.ExecProofs Proofs.BridgeCommon Proofs.SemQProofs.
Import ListNotations.
Open Scope Z_scope.

Module T := NQ.Nv.Transpile.

(* ------------------------------------------------------------------ embedding *)
Definition e_bank (b : T.bank) : bank :=
  match b with T.BR => BR | T.BC => BC | T.BQ => BQ | T.BM => BM end.
Definition e_reg (r : T.reg) : reg := match r with T.mkReg b i => (e_bank b, Z.of_nat i) end.

Definition g1_tag (g : T.gate1) : Z :=
  match g with T.GX => 10 | T.GY => 11 | T.GZ => 12 | T.GH => 13 | T.GK => 14 | T.GS => 15 | T.GT => 16 end.
Definition ax_num (a : T.axis) : Z := match a with T.AX => 0 | T.AY => 1 | T.AZ => 2 end.
Definition g2_tag (g : T.gate2) : Z := match g with T.Cnot => 30 | T.Cphase => 31 | T.Mov => 32 end.
Definition TAG_INIT : Z := 0.

Definition e_binop (sub : bool) : binop := if sub then OSub else OAdd.
Definition e_c1 (c : T.br1) : ucond := match c with T.Bez => Cez | T.Bnz => Cnz end.
Definition e_c2 (c : T.br2) : bcond :=
  match c with T.Beq => Ceq | T.Bne => Cne | T.Blt => Clt | T.Bge => Cge end.

Definition e_instr (i : T.instr) : option qinstr :=
  match i with
  | T.ISet r v => Some (QC (ISet (e_reg r) v))
  | T.IArith sub d a b => Some (QC (IClassical (COp (e_binop sub) (e_reg d) (e_reg a) (e_reg b))))
  | T.IArithM sub d a b m =>
      Some (QC (IClassical (COpm (e_binop sub) (e_reg d) (e_reg a) (e_reg b) (e_reg m))))
  | T.ILoad r addr ix => Some (QC (ILoad (e_reg r) addr (OReg (e_reg ix))))
  | T.IStore r addr ix => Some (QC (IStore (e_reg r) addr (OReg (e_reg ix))))
  | T.ILea r addr => Some (QC (ILea (e_reg r) addr))
  | T.IUndef addr ix => Some (QC (IUndef addr (OReg (e_reg ix))))
  | T.IArray size addr => Some (QC (IArray (e_reg size) addr))
  | T.IRetReg r => Some (QC (IRetReg (e_reg r)))
  | T.IRetArr addr => Some (QC (IRetArr addr))
  | T.IJmp t => Some (QC (IBranch (BJmp (Z.of_nat t))))
  | T.IBr1 c r t => Some (QC (IBranch (BUn (e_c1 c) (e_reg r) (Z.of_nat t))))
  | T.IBr2 c a b t => Some (QC (IBranch (BBin (e_c2 c) (e_reg a) (e_reg b) (Z.of_nat t))))
  | T.IQ T.QAlloc r => Some (QC (IQalloc (e_reg r)))
  | T.IQ T.QFree r => Some (QC (IQfree (e_reg r)))
  | T.IQ T.QInit r => Some (QGate TAG_INIT [] [e_reg r])
  | T.IMeas q m => Some (QMeas (e_reg q) (e_reg m))
  | T.IGate1 g r => Some (QGate (g1_tag g) [] [e_reg r])
  | T.IRot ax r n d => Some (QGate (20 + ax_num ax) [n; d] [e_reg r])
  | T.IGate2 g r0 r1 => Some (QGate (g2_tag g) [] [e_reg r0; e_reg r1])
  | T.ICrot ax r0 r1 n d => Some (QGate (40 + ax_num ax) [n; d] [e_reg r0; e_reg r1])
  | T.IDebug _ => None          (* pseudo-instruction: never executed *)
  | T.IOther _ _ _ _ _ => None  (* effect supplied by an environment parameter *)
  end.

Fixpoint e_prog (p : T.prog) : option (list qinstr) :=
  match p with
  | [] => Some []
  | i :: r => match e_instr i, e_prog r with
              | Some q, Some qs => Some (q :: qs)
              | _, _ => None
              end
  end.

Definition e_ev (e : T.event) : qevent :=
  match e with
  | T.EvQ T.QAlloc q => QEvAlloc q
  | T.EvQ T.QFree q => QEvFree q
  | T.EvQ T.QInit q => QEvGate TAG_INIT [] [q]
  | T.EvMeas q o => QEvMeas q o
  | T.EvG1 g q => QEvGate (g1_tag g) [] [q]
  | T.EvRot ax q n d => QEvGate (20 + ax_num ax) [n; d] [q]
  | T.EvG2 g q0 q1 => QEvGate (g2_tag g) [] [q0; q1]
  | T.EvCrot ax q0 q1 n d => QEvGate (40 + ax_num ax) [n; d] [q0; q1]
  | T.EvRetReg r v => QEvRetReg (e_reg r) v
  | T.EvRetArr a l => QEvRetArr a l
  | T.EvOther _ imms _ => QEvGate (-1) imms []
  end.

(* ------------------------------------------------------------------ relation *)
Definition nrel (ms : T.mstate) (s : qstate) : Prop :=
  (forall r, T.regs ms r = rd (q_st s) (e_reg r)) /\
  (forall a, T.arrs ms a = find Z.eqb a (arrs (q_st s))) /\
  T.script ms = q_script s /\
  q_trace s = rev (map e_ev (T.trace ms)).

(* Transpile has no unit module: qalloc/qfree never fault there.  The bridge
   therefore assumes that the common semantics does not fault AT a qalloc/qfree
   instruction (double allocation, free of an unallocated qubit, id outside the
   unit module, undefined operand). *)
Definition is_alloc (i : qinstr) : bool :=
  match i with QC (IQalloc _) | QC (IQfree _) => true | _ => false end.
Definition alloc_at (qp : list qinstr) (l : Z) : bool :=
  if l <? 0 then false else match nth_error qp (Z.to_nat l) with Some i => is_alloc i | None => false end.
Definition bad (qp : list qinstr) (o : outcome) : bool :=
  match o with
  | Unspec _ => true
  | Fault _ l => alloc_at qp l
  | _ => false
  end.

Definition status_rel (st : T.status) (o : outcome) (pc : Z) : Prop :=
  match st with
  | T.Running => o = OutOfFuel
  | T.Halted => o = Halt
  | T.Faulted => exists k, o = Fault k pc
  end.

(* ------------------------------------------------------------------ registers and arrays *)
Lemma e_bank_eqb : forall a b, T.bank_eqb a b = bank_eqb (e_bank a) (e_bank b).
Proof. intros [] []; reflexivity. Qed.

Lemma e_reg_eqb : forall a b, T.reg_eqb a b = reg_eqb (e_reg a) (e_reg b).
Proof.
  intros [b1 i1] [b2 i2]. unfold T.reg_eqb, reg_eqb, e_reg. cbn [fst snd]. rewrite e_bank_eqb. f_equal.
  destruct (Nat.eqb i1 i2) eqn:E.
  - apply Nat.eqb_eq in E. subst. symmetry. apply Z.eqb_refl.
  - apply Nat.eqb_neq in E. symmetry. apply Z.eqb_neq. lia.
Qed.

Lemma regs_setreg : forall (R : T.regfile) st r v,
  (forall r', R r' = rd st (e_reg r')) ->
  forall r', T.upd R r (Some v) r' = rd (wr st (e_reg r) v) (e_reg r').
Proof.
  intros R st r v H r'. unfold T.upd. rewrite rd_wr, e_reg_eqb. rewrite H. reflexivity.
Qed.

Lemma arrs_setarr : forall (A : T.arrays) (m : list (Z * list cell)) a l,
  (forall a', A a' = find Z.eqb a' m) ->
  forall a', T.upd_arr A a (Some l) a' = find Z.eqb a' (upd Z.eqb a l m).
Proof.
  intros A m a l H a'. unfold T.upd_arr. rewrite (find_upd _ _ _ Zeqb_spec). rewrite H. reflexivity.
Qed.

Lemma norm_index_nonneg : forall n len, 0 <= n ->
  T.norm_index n len = if n <? Z.of_nat len then Some (Z.to_nat n) else None.
Proof.
  intros n len H. unfold T.norm_index.
  replace (0 <=? n) with true by lia. replace (n <? 0) with false by lia.
  cbn [andb]. destruct (n <? Z.of_nat len); reflexivity.
Qed.

Lemma set_nth_sset : forall (A : Type) (l : list A) n v, (n < List.length l)%nat -> T.set_nth l n v = sset n v l.
Proof.
  intros A l. induction l as [|h t IH]; intros n v H; cbn in H; [lia|].
  destruct n as [|n]; [reflexivity|].
  cbn [T.set_nth]. rewrite IH by lia. reflexivity.
Qed.

(* ------------------------------------------------------------------ one instruction *)
Definition nstep_bridge (pc : nat) (o : T.outcome) (r : qres) : Prop :=
  match o with
  | T.Next pc' ms' => exists s', r = QNext s' (Z.of_nat pc') /\ nrel ms' s'
  | T.Fault => exists k, r = QStop (Fault k (Z.of_nat pc))
  end.

Ltac pre :=
  let Hok := fresh "Hok" in
  unfold step in *; cbv zeta in *;
  match goal with
  | H : context [negb (instr_regs_ok ?i)] |- _ => destruct (instr_regs_ok i) eqn:Hok
  end; cbn [negb] in *; [|congruence]; cbn [instr_regs_ok opnd_ok] in Hok; regs.

Ltac nfault := cbn [nstep_bridge]; first [eexists; reflexivity | cbn; eexists; reflexivity].
Ltac nnext pc :=
  replace (Z.of_nat (S pc)) with (Z.of_nat pc + 1) by lia;
  eexists; split; [reflexivity|]; unfold nrel; cbn [q_st q_script q_trace T.regs T.arrs T.script T.trace
                                                     T.setreg T.setarr T.emit events_of app].

Section Instr.
  Variable env : T.env_t.
  Variables (ms : T.mstate) (s : qstate) (pc : nat).
  Hypothesis R : nrel ms s.
  Let Rr := proj1 R.
  Let Ra := proj1 (proj2 R).
  Let Rs := proj1 (proj2 (proj2 R)).
  Let Rt := proj2 (proj2 (proj2 R)).

  Lemma nb_set : forall r v,
    step (ISet (e_reg r) v) (q_st s) (Z.of_nat pc) <> Stop (Unspec (Z.of_nat pc)) ->
    nstep_bridge pc (T.step env (T.ISet r v) pc ms) (qstep (QC (ISet (e_reg r) v)) s (Z.of_nat pc)).
  Proof.
    intros r v H. cbn [qstep T.step]. pre. cbn [nstep_bridge]. nnext pc.
    split; [apply regs_setreg; exact Rr|]. split; [exact Ra|]. split; [exact Rs|exact Rt].
  Qed.

  Lemma nb_lea : forall r a,
    step (ILea (e_reg r) a) (q_st s) (Z.of_nat pc) <> Stop (Unspec (Z.of_nat pc)) ->
    nstep_bridge pc (T.step env (T.ILea r a) pc ms) (qstep (QC (ILea (e_reg r) a)) s (Z.of_nat pc)).
  Proof.
    intros r a H. cbn [qstep T.step]. pre. cbn [nstep_bridge]. nnext pc.
    split; [apply regs_setreg; exact Rr|]. split; [exact Ra|]. split; [exact Rs|exact Rt].
  Qed.

  Lemma nb_arith : forall sub d a b,
    step (IClassical (COp (e_binop sub) (e_reg d) (e_reg a) (e_reg b))) (q_st s) (Z.of_nat pc)
      <> Stop (Unspec (Z.of_nat pc)) ->
    nstep_bridge pc (T.step env (T.IArith sub d a b) pc ms)
      (qstep (QC (IClassical (COp (e_binop sub) (e_reg d) (e_reg a) (e_reg b)))) s (Z.of_nat pc)).
  Proof.
    intros sub d a b H. cbn [qstep T.step]. pre. rewrite !Rr.
    destruct (rd (q_st s) (e_reg a)) as [x|]; [|nfault].
    destruct (rd (q_st s) (e_reg b)) as [y|]; [|nfault].
    cbn [nstep_bridge]. nnext pc.
    replace (if sub then x - y else x + y) with (binop_val (e_binop sub) x y) by (destruct sub; reflexivity).
    split; [apply regs_setreg; exact Rr|]. split; [exact Ra|]. split; [exact Rs|exact Rt].
  Qed.

  Lemma nb_arithm : forall sub d a b m,
    step (IClassical (COpm (e_binop sub) (e_reg d) (e_reg a) (e_reg b) (e_reg m))) (q_st s) (Z.of_nat pc)
      <> Stop (Unspec (Z.of_nat pc)) ->
    nstep_bridge pc (T.step env (T.IArithM sub d a b m) pc ms)
      (qstep (QC (IClassical (COpm (e_binop sub) (e_reg d) (e_reg a) (e_reg b) (e_reg m)))) s (Z.of_nat pc)).
  Proof.
    intros sub d a b m H. cbn [qstep T.step]. pre. rewrite !Rr.
    destruct (rd (q_st s) (e_reg m)) as [mv|]; [|nfault].
    destruct (mv <? 1) eqn:Em.
    - destruct (rd (q_st s) (e_reg a)); [destruct (rd (q_st s) (e_reg b))|]; nfault.
    - destruct (rd (q_st s) (e_reg a)) as [x|]; [|nfault].
      destruct (rd (q_st s) (e_reg b)) as [y|]; [|nfault].
      cbn [nstep_bridge]. nnext pc.
      replace (if sub then x - y else x + y) with (binop_val (e_binop sub) x y) by (destruct sub; reflexivity).
      split; [apply regs_setreg; exact Rr|]. split; [exact Ra|]. split; [exact Rs|exact Rt].
  Qed.
End Instr.

Lemma rev_map_snoc : forall (l : list T.event) e, rev (map e_ev (l ++ [e])) = e_ev e :: rev (map e_ev l).
Proof. intros l e. rewrite map_app, rev_app_distr. reflexivity. Qed.

Section Instr2.
  Variable env : T.env_t.
  Variables (ms : T.mstate) (s : qstate) (pc : nat).
  Hypothesis R : nrel ms s.
  Let Rr := proj1 R.
  Let Ra := proj1 (proj2 R).
  Let Rs := proj1 (proj2 (proj2 R)).
  Let Rt := proj2 (proj2 (proj2 R)).

  Lemma nb_load : forall r a ix,
    step (ILoad (e_reg r) a (OReg (e_reg ix))) (q_st s) (Z.of_nat pc) <> Stop (Unspec (Z.of_nat pc)) ->
    nstep_bridge pc (T.step env (T.ILoad r a ix) pc ms)
      (qstep (QC (ILoad (e_reg r) a (OReg (e_reg ix)))) s (Z.of_nat pc)).
  Proof.
    intros r a ix H. cbn [qstep T.step]. pre. cbn [oval] in *. rewrite Rr, Ra.
    destruct (rd (q_st s) (e_reg ix)) as [n|]; [|nfault].
    destruct (n <? 0) eqn:En; [congruence|].
    destruct (find Z.eqb a (arrs (q_st s))) as [l|]; [|nfault].
    rewrite norm_index_nonneg by lia. unfold Zlen, cell in *.
    match goal with |- context [n <? ?x] => destruct (n <? x) eqn:E2; destruct (x <=? n) eqn:El end;
      try lia; [|nfault].
      destruct (nth_error l (Z.to_nat n)) as [[v|]|]; try nfault.
      cbn [nstep_bridge]. nnext pc.
      split; [apply regs_setreg; exact Rr|]. split; [exact Ra|]. split; [exact Rs|exact Rt].
  Qed.

  Lemma write_entry_rel : forall a n v, 0 <= n ->
    T.write_entry ms a n v =
    match find Z.eqb a (arrs (q_st s)) with
    | None => None
    | Some l => if n <? Zlen l then Some (T.setarr ms a (sset (Z.to_nat n) v l)) else None
    end.
  Proof.
    intros a n v Hn. unfold T.write_entry. rewrite Ra.
    destruct (find Z.eqb a (arrs (q_st s))) as [l|]; [|reflexivity].
    rewrite norm_index_nonneg by lia. unfold Zlen, cell in *.
    match goal with |- context [n <? ?x] => destruct (n <? x) eqn:E end; [|reflexivity].
    rewrite set_nth_sset by lia. reflexivity.
  Qed.

  Lemma nb_store : forall r a ix,
    step (IStore (e_reg r) a (OReg (e_reg ix))) (q_st s) (Z.of_nat pc) <> Stop (Unspec (Z.of_nat pc)) ->
    nstep_bridge pc (T.step env (T.IStore r a ix) pc ms)
      (qstep (QC (IStore (e_reg r) a (OReg (e_reg ix)))) s (Z.of_nat pc)).
  Proof.
    intros r a ix H. cbn [qstep T.step]. pre. cbn [oval] in *. rewrite !Rr.
    destruct (rd (q_st s) (e_reg r)) as [v|]; [|nfault].
    destruct (rd (q_st s) (e_reg ix)) as [n|]; [|nfault].
    destruct (n <? 0) eqn:En; [congruence|].
    rewrite write_entry_rel by lia.
    destruct (find Z.eqb a (arrs (q_st s))) as [l|]; [|nfault].
    destruct (n <? Zlen l); [|nfault].
    cbn [nstep_bridge]. nnext pc.
    split; [exact Rr|]. split; [apply arrs_setarr; exact Ra|]. split; [exact Rs|exact Rt].
  Qed.

  Lemma nb_undef : forall a ix,
    step (IUndef a (OReg (e_reg ix))) (q_st s) (Z.of_nat pc) <> Stop (Unspec (Z.of_nat pc)) ->
    nstep_bridge pc (T.step env (T.IUndef a ix) pc ms)
      (qstep (QC (IUndef a (OReg (e_reg ix)))) s (Z.of_nat pc)).
  Proof.
    intros a ix H. cbn [qstep T.step]. pre. cbn [oval] in *. rewrite !Rr.
    destruct (rd (q_st s) (e_reg ix)) as [n|]; [|nfault].
    destruct (n <? 0) eqn:En; [congruence|].
    rewrite write_entry_rel by lia.
    destruct (find Z.eqb a (arrs (q_st s))) as [l|]; [|nfault].
    destruct (n <? Zlen l); [|nfault].
    cbn [nstep_bridge]. nnext pc.
    split; [exact Rr|]. split; [apply arrs_setarr; exact Ra|]. split; [exact Rs|exact Rt].
  Qed.

  Lemma nb_array : forall size a,
    step (IArray (e_reg size) a) (q_st s) (Z.of_nat pc) <> Stop (Unspec (Z.of_nat pc)) ->
    nstep_bridge pc (T.step env (T.IArray size a) pc ms) (qstep (QC (IArray (e_reg size) a)) s (Z.of_nat pc)).
  Proof.
    intros size a H. cbn [qstep T.step]. pre. rewrite !Rr.
    destruct (rd (q_st s) (e_reg size)) as [n|]; [|nfault].
    destruct (n <? 0) eqn:En; [congruence|].
    cbn [nstep_bridge]. nnext pc.
    split; [exact Rr|]. split; [apply arrs_setarr; exact Ra|]. split; [exact Rs|exact Rt].
  Qed.

  Lemma nb_retreg : forall r,
    step (IRetReg (e_reg r)) (q_st s) (Z.of_nat pc) <> Stop (Unspec (Z.of_nat pc)) ->
    nstep_bridge pc (T.step env (T.IRetReg r) pc ms) (qstep (QC (IRetReg (e_reg r))) s (Z.of_nat pc)).
  Proof.
    intros r H. cbn [qstep T.step]. pre. rewrite !Rr.
    destruct (rd (q_st s) (e_reg r)) as [v|] eqn:Ev; [|nfault].
    cbn [nstep_bridge]. nnext pc. rewrite Ev. cbn [app].
    split; [exact Rr|]. split; [exact Ra|]. split; [exact Rs|]. rewrite rev_map_snoc, Rt. reflexivity.
  Qed.

  Lemma nb_retarr : forall a,
    step (IRetArr a) (q_st s) (Z.of_nat pc) <> Stop (Unspec (Z.of_nat pc)) ->
    nstep_bridge pc (T.step env (T.IRetArr a) pc ms) (qstep (QC (IRetArr a)) s (Z.of_nat pc)).
  Proof.
    intros a H. cbn [qstep T.step]. pre. rewrite !Ra.
    destruct (find Z.eqb a (arrs (q_st s))) as [l|] eqn:El; [|nfault].
    cbn [nstep_bridge]. nnext pc. rewrite El. cbn [app].
    split; [exact Rr|]. split; [exact Ra|]. split; [exact Rs|]. rewrite rev_map_snoc, Rt. reflexivity.
  Qed.

  Lemma nb_jmp : forall t,
    nstep_bridge pc (T.step env (T.IJmp t) pc ms) (qstep (QC (IBranch (BJmp (Z.of_nat t)))) s (Z.of_nat pc)).
  Proof.
    intros t. cbn. eexists; split; [reflexivity|]. exact R.
  Qed.

  Lemma nb_br1 : forall c r t,
    step (IBranch (BUn (e_c1 c) (e_reg r) (Z.of_nat t))) (q_st s) (Z.of_nat pc) <> Stop (Unspec (Z.of_nat pc)) ->
    nstep_bridge pc (T.step env (T.IBr1 c r t) pc ms)
      (qstep (QC (IBranch (BUn (e_c1 c) (e_reg r) (Z.of_nat t)))) s (Z.of_nat pc)).
  Proof.
    intros c r t H. cbn [qstep T.step]. pre. rewrite !Rr.
    destruct (rd (q_st s) (e_reg r)) as [x|]; [|congruence].
    replace (T.br1_taken c (Some x)) with (ucond_holds (e_c1 c) x) by (destruct c; reflexivity).
    cbn [nstep_bridge]. replace (Z.of_nat pc + 1) with (Z.of_nat (S pc)) by lia.
    eexists; split; [destruct (ucond_holds (e_c1 c) x); reflexivity|exact R].
  Qed.

  Lemma nb_br2 : forall c a b t,
    step (IBranch (BBin (e_c2 c) (e_reg a) (e_reg b) (Z.of_nat t))) (q_st s) (Z.of_nat pc)
      <> Stop (Unspec (Z.of_nat pc)) ->
    nstep_bridge pc (T.step env (T.IBr2 c a b t) pc ms)
      (qstep (QC (IBranch (BBin (e_c2 c) (e_reg a) (e_reg b) (Z.of_nat t)))) s (Z.of_nat pc)).
  Proof.
    intros c a b t H. cbn [qstep T.step]. pre. rewrite !Rr.
    destruct (rd (q_st s) (e_reg a)) as [x|]; [|congruence].
    destruct (rd (q_st s) (e_reg b)) as [y|]; [|congruence].
    replace (T.br2_taken c (Some x) (Some y)) with (Some (bcond_holds (e_c2 c) x y)) by (destruct c; reflexivity).
    replace (Z.of_nat pc + 1) with (Z.of_nat (S pc)) by lia.
    destruct (bcond_holds (e_c2 c) x y); cbn [nstep_bridge]; (eexists; split; [reflexivity|exact R]).
  Qed.

  (* qalloc / qfree: Transpile never faults on the allocation state *)
  Lemma nb_qalloc : forall r,
    step (IQalloc (e_reg r)) (q_st s) (Z.of_nat pc) <> Stop (Unspec (Z.of_nat pc)) ->
    (forall k, step (IQalloc (e_reg r)) (q_st s) (Z.of_nat pc) <> Stop (Fault k (Z.of_nat pc))) ->
    nstep_bridge pc (T.step env (T.IQ T.QAlloc r) pc ms) (qstep (QC (IQalloc (e_reg r))) s (Z.of_nat pc)).
  Proof.
    intros r H Hnf. cbn [qstep T.step]. pre. rewrite !Rr.
    destruct (rd (q_st s) (e_reg r)) as [q|] eqn:Eq; [|exfalso; eapply Hnf; reflexivity].
    destruct (q <? 0); [congruence|].
    destruct (Zlen (um (q_st s)) <=? q); [exfalso; eapply Hnf; reflexivity|].
    destruct (nth_error (um (q_st s)) (Z.to_nat q)) as [[p0|]|]; try (exfalso; eapply Hnf; reflexivity).
    destruct (least_unused (used (q_st s))) as [p|]; [|exfalso; eapply Hnf; reflexivity].
    cbn [nstep_bridge]. nnext pc. rewrite Eq. cbn [app].
    split; [exact Rr|]. split; [exact Ra|]. split; [exact Rs|]. rewrite rev_map_snoc, Rt. reflexivity.
  Qed.

  Lemma nb_qfree : forall r,
    step (IQfree (e_reg r)) (q_st s) (Z.of_nat pc) <> Stop (Unspec (Z.of_nat pc)) ->
    (forall k, step (IQfree (e_reg r)) (q_st s) (Z.of_nat pc) <> Stop (Fault k (Z.of_nat pc))) ->
    nstep_bridge pc (T.step env (T.IQ T.QFree r) pc ms) (qstep (QC (IQfree (e_reg r))) s (Z.of_nat pc)).
  Proof.
    intros r H Hnf. cbn [qstep T.step]. pre. rewrite !Rr.
    destruct (rd (q_st s) (e_reg r)) as [q|] eqn:Eq; [|exfalso; eapply Hnf; reflexivity].
    destruct (q <? 0); [congruence|].
    destruct (Zlen (um (q_st s)) <=? q); [exfalso; eapply Hnf; reflexivity|].
    destruct (nth_error (um (q_st s)) (Z.to_nat q)) as [[p0|]|]; try (exfalso; eapply Hnf; reflexivity).
    destruct (set_mem p0 (used (q_st s))); [|exfalso; eapply Hnf; reflexivity].
    cbn [nstep_bridge]. nnext pc. rewrite Eq. cbn [app].
    split; [exact Rr|]. split; [exact Ra|]. split; [exact Rs|]. rewrite rev_map_snoc, Rt. reflexivity.
  Qed.

  (* gates: one / two operand registers *)
  Lemma nb_gate1 : forall tag imms r (mk : Z -> T.event),
    (forall q, e_ev (mk q) = QEvGate tag imms [q]) ->
    qstep (QGate tag imms [e_reg r]) s (Z.of_nat pc) <> QStop (Unspec (Z.of_nat pc)) ->
    nstep_bridge pc (match T.regs ms r with
                     | Some q => T.Next (S pc) (T.emit ms (mk q))
                     | None => T.Fault
                     end)
                 (qstep (QGate tag imms [e_reg r]) s (Z.of_nat pc)).
  Proof.
    intros tag imms r mk Hmk H. cbn [qstep] in *.
    destruct (negb (forallb reg_ok [e_reg r])); [congruence|].
    cbn [rd_all]. rewrite Rr.
    destruct (rd (q_st s) (e_reg r)) as [q|]; [|nfault].
    cbn [nstep_bridge]. nnext pc.
    split; [exact Rr|]. split; [exact Ra|]. split; [exact Rs|]. rewrite rev_map_snoc, Rt, Hmk. reflexivity.
  Qed.

  Lemma nb_gate2 : forall tag imms r0 r1 (mk : Z -> Z -> T.event),
    (forall q0 q1, e_ev (mk q0 q1) = QEvGate tag imms [q0; q1]) ->
    qstep (QGate tag imms [e_reg r0; e_reg r1]) s (Z.of_nat pc) <> QStop (Unspec (Z.of_nat pc)) ->
    nstep_bridge pc (match T.regs ms r0, T.regs ms r1 with
                     | Some q0, Some q1 => T.Next (S pc) (T.emit ms (mk q0 q1))
                     | _, _ => T.Fault
                     end)
                 (qstep (QGate tag imms [e_reg r0; e_reg r1]) s (Z.of_nat pc)).
  Proof.
    intros tag imms r0 r1 mk Hmk H. cbn [qstep] in *.
    destruct (negb (forallb reg_ok [e_reg r0; e_reg r1])); [congruence|].
    cbn [rd_all]. rewrite !Rr.
    destruct (rd (q_st s) (e_reg r0)) as [q0|]; [|nfault].
    destruct (rd (q_st s) (e_reg r1)) as [q1|]; [|nfault].
    cbn [nstep_bridge]. nnext pc.
    split; [exact Rr|]. split; [exact Ra|]. split; [exact Rs|]. rewrite rev_map_snoc, Rt, Hmk. reflexivity.
  Qed.

  Lemma nb_meas : forall q m,
    qstep (QMeas (e_reg q) (e_reg m)) s (Z.of_nat pc) <> QStop (Unspec (Z.of_nat pc)) ->
    nstep_bridge pc (T.step env (T.IMeas q m) pc ms) (qstep (QMeas (e_reg q) (e_reg m)) s (Z.of_nat pc)).
  Proof.
    intros q m H. cbn [qstep T.step] in *.
    destruct (negb (reg_ok (e_reg q) && reg_ok (e_reg m))); [congruence|].
    rewrite Rr. destruct (rd (q_st s) (e_reg q)) as [qa|]; [|nfault].
    cbv zeta. cbn [nstep_bridge]. nnext pc. unfold hd_outcome. rewrite <- Rs.
    split; [apply regs_setreg; exact Rr|]. split; [exact Ra|]. split; [reflexivity|].
    rewrite rev_map_snoc, Rt. reflexivity.
  Qed.
End Instr2.

Lemma qc_not_open : forall c s pc, qstep (QC c) s pc <> QStop (Unspec pc) -> step c (q_st s) pc <> Stop (Unspec pc).
Proof. intros c s pc H E. apply H. cbn [qstep]. rewrite E. reflexivity. Qed.

Lemma qc_not_fault : forall c s pc k, qstep (QC c) s pc <> QStop (Fault k pc) -> step c (q_st s) pc <> Stop (Fault k pc).
Proof. intros c s pc k H E. apply H. cbn [qstep]. rewrite E. reflexivity. Qed.

(* every instruction of the fragment (everything except IDebug / IOther) *)
Theorem nv_instr_bridge : forall env i qi ms s pc,
  e_instr i = Some qi -> nrel ms s ->
  qstep qi s (Z.of_nat pc) <> QStop (Unspec (Z.of_nat pc)) ->
  (is_alloc qi = true -> forall k, qstep qi s (Z.of_nat pc) <> QStop (Fault k (Z.of_nat pc))) ->
  nstep_bridge pc (T.step env i pc ms) (qstep qi s (Z.of_nat pc)).
Proof.
  intros env i qi ms s pc He R H Hna.
  destruct i as [r v|sub d a b|sub d a b m|r a ix|r a ix|r a|a ix|sz a|r|a|t|c r t|c a b t|k r|q m|g r
                |ax r n d|g r0 r1|ax r0 r1 n d|txt|nm tops inner wr imms];
    cbn [e_instr] in He; try discriminate; try (destruct k); inversion He; subst qi; clear He.
  - apply nb_set; auto using qc_not_open.
  - apply nb_arith; auto using qc_not_open.
  - apply nb_arithm; auto using qc_not_open.
  - apply nb_load; auto using qc_not_open.
  - apply nb_store; auto using qc_not_open.
  - apply nb_lea; auto using qc_not_open.
  - apply nb_undef; auto using qc_not_open.
  - apply nb_array; auto using qc_not_open.
  - apply nb_retreg; auto using qc_not_open.
  - apply nb_retarr; auto using qc_not_open.
  - apply nb_jmp; auto.
  - apply nb_br1; auto using qc_not_open.
  - apply nb_br2; auto using qc_not_open.
  - apply nb_qalloc; auto using qc_not_open. intro k. apply qc_not_fault. apply Hna. reflexivity.
  - apply (nb_gate1 ms s pc R TAG_INIT [] r (T.EvQ T.QInit)); auto.
  - apply nb_qfree; auto using qc_not_open. intro k. apply qc_not_fault. apply Hna. reflexivity.
  - apply nb_meas; auto.
  - apply (nb_gate1 ms s pc R (g1_tag g) [] r (T.EvG1 g)); auto.
  - apply (nb_gate1 ms s pc R (20 + ax_num ax) [n; d] r (fun q => T.EvRot ax q n d)); auto.
  - apply (nb_gate2 ms s pc R (g2_tag g) [] r0 r1 (T.EvG2 g)); auto.
  - apply (nb_gate2 ms s pc R (40 + ax_num ax) [n; d] r0 r1 (fun q0 q1 => T.EvCrot ax q0 q1 n d)); auto.
Qed.

(* ------------------------------------------------------------------ programs *)
Lemma e_prog_nth : forall p qp, e_prog p = Some qp ->
  List.length qp = List.length p /\
  forall k i, nth_error p k = Some i -> exists qi, e_instr i = Some qi /\ nth_error qp k = Some qi.
Proof.
  induction p as [|i p IH]; intros qp H; cbn in H.
  - inversion H. split; [reflexivity|]. intros [|k] c Hc; discriminate.
  - destruct (e_instr i) as [qi|] eqn:Ei; [|discriminate].
    destruct (e_prog p) as [qp'|] eqn:Ep; [|discriminate]. inversion H; subst qp.
    destruct (IH qp' eq_refl) as [Hl Hn]. split; [cbn; lia|].
    intros [|k] c Hc; cbn in Hc |- *.
    + inversion Hc; subst c. eauto.
    + apply Hn. exact Hc.
Qed.

Lemma t_run_eq : forall env p fuel pc ms,
  T.run env p fuel pc ms =
  match nth_error p pc with
  | None => (T.Halted, pc, ms)
  | Some i =>
      match fuel with
      | O => (T.Running, pc, ms)
      | S f => match T.step env i pc ms with
               | T.Next pc' ms' => T.run env p f pc' ms'
               | T.Fault => (T.Faulted, pc, ms)
               end
      end
  end.
Proof. intros env p fuel pc ms. destruct fuel; reflexivity. Qed.

Lemma bad_unspec : forall qp l, bad qp (Unspec l) = true.
Proof. reflexivity. Qed.

(* THE BRIDGE (C08 -> C04).  For every program without IDebug/IOther, every
   environment, every pair of related states, every pc and every step bound: the
   private run and the run of the common semantics end in related states, at the
   same pc, with the same status -- provided the common semantics is defined and
   does not fault at a qalloc/qfree (Transpile has no unit module). *)
Theorem nv_bridge_from : forall fuel env p qp ms s pc,
  e_prog p = Some qp -> nrel ms s -> qsafe (bad qp) qp s (Z.of_nat pc) ->
  match T.run env p fuel pc ms, qrun_from qp s (Z.of_nat pc) fuel with
  | (stt, pc', ms'), (s', zpc, o) => nrel ms' s' /\ zpc = Z.of_nat pc' /\ status_rel stt o zpc
  end.
Proof.
  induction fuel as [|f IH]; intros env p qp ms s pc Hp R D;
    destruct (e_prog_nth _ _ Hp) as [Hlen Hnth];
    rewrite t_run_eq, qrun_eq; replace (Z.of_nat pc <? 0) with false by lia;
    (assert (HZ : Zlen qp = Z.of_nat (List.length p)) by (unfold Zlen; rewrite Hlen; reflexivity));
    (destruct (nth_error p pc) as [i|] eqn:Ei;
     [ destruct (Hnth _ _ Ei) as [qi [Hqi Hq]];
       assert (Hlt : (pc < List.length p)%nat) by (apply nth_error_Some; congruence);
       replace (Zlen qp <=? Z.of_nat pc) with false by lia; rewrite Nat2Z.id, Hq
     | assert (Hge : (List.length p <= pc)%nat) by (apply nth_error_None; exact Ei);
       replace (Zlen qp <=? Z.of_nat pc) with true by lia;
       split; [exact R|]; split; reflexivity ]).
  - split; [exact R|]. split; reflexivity.
  - assert (Hq' : nth_error qp (Z.to_nat (Z.of_nat pc)) = Some qi) by (rewrite Nat2Z.id; exact Hq).
    assert (Hno : qstep qi s (Z.of_nat pc) <> QStop (Unspec (Z.of_nat pc))).
    { intro E. pose proof (qsafe_stop _ _ _ _ _ _ D ltac:(lia) Hq' E) as B. discriminate B. }
    assert (Hna : is_alloc qi = true -> forall k, qstep qi s (Z.of_nat pc) <> QStop (Fault k (Z.of_nat pc))).
    { intros Ha k E. pose proof (qsafe_stop _ _ _ _ _ _ D ltac:(lia) Hq' E) as B.
      cbn [bad] in B. unfold alloc_at in B. replace (Z.of_nat pc <? 0) with false in B by lia.
      rewrite Hq', Ha in B. discriminate B. }
    pose proof (nv_instr_bridge env i qi ms s pc Hqi R Hno Hna) as B.
    destruct (T.step env i pc ms) as [pc' ms'|]; cbn [nstep_bridge] in B.
    + destruct B as (s' & Hs & R'). rewrite Hs. apply IH; auto.
      eapply qsafe_step; eauto. lia.
    + destruct B as (k & Hs). rewrite Hs. split; [exact R|]. split; [reflexivity|]. cbn. eauto.
Qed.

Theorem nv_bridge : forall fuel env p qp ms s,
  e_prog p = Some qp -> nrel ms s -> qsafe (bad qp) qp s 0 ->
  match T.run env p fuel 0 ms, qrun qp s fuel with
  | (stt, pc', ms'), (s', zpc, o) => nrel ms' s' /\ zpc = Z.of_nat pc' /\ status_rel stt o zpc
  end.
Proof. intros fuel env p qp ms s Hp R D. exact (nv_bridge_from fuel env p qp ms s 0%nat Hp R D). Qed.

(* related initial states: nothing written, no arrays, same script, empty trace *)
Lemma nrel_init : forall script cap,
  nrel (T.mkSt (fun _ => None) (fun _ => None) script []) (mkQ (init_state cap) script []).
Proof. intros script cap. repeat split. Qed.
