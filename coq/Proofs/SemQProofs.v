(* SemQProofs.v — SemQ is a conservative extension of Sem, and the run lemmas
   the bridges need. *)
From Coq Require Import ZArith List Bool Lia ZifyBool.
From NQ Require Import Exec.State Exec.Sem Exec.SemQ Proofs.ExecProofs Proofs.BridgeCommon.
Import ListNotations.
Open Scope Z_scope.

Lemma qrun_eq : forall prog s pc fuel,
  qrun_from prog s pc fuel =
  if pc <? 0 then (s, pc, Unspec pc)
  else if Zlen prog <=? pc then (s, pc, Halt)
  else match nth_error prog (Z.to_nat pc) with
       | None => (s, pc, Halt)
       | Some i =>
           match fuel with
           | O => (s, pc, OutOfFuel)
           | S f => match qstep i s pc with
                    | QNext s' pc' => qrun_from prog s' pc' f
                    | QStop o => (s, pc, o)
                    end
           end
       end.
Proof. intros prog s pc fuel. destruct fuel; reflexivity. Qed.

(* a purely classical program: states, pc and outcome are those of Sem; script
   untouched *)
Theorem qrun_from_classical : forall fuel p s pc,
  let '(st', pc', o) := Sem.run_from p (q_st s) pc fuel in
  exists tr, qrun_from (map QC p) s pc fuel = (mkQ st' (q_script s) tr, pc', o).
Proof.
  induction fuel as [|f IH]; intros p s pc; rewrite sem_run_eq, qrun_eq;
    (assert (HL : Zlen (map QC p) = Zlen p) by (unfold Zlen; rewrite map_length; reflexivity));
    rewrite HL, nth_error_map;
    destruct (pc <? 0); [destruct s; eexists; reflexivity| |destruct s; eexists; reflexivity|];
    (destruct (Zlen p <=? pc); [destruct s; eexists; reflexivity|]);
    (destruct (nth_error p (Z.to_nat pc)) as [i|]; cbn [option_map]; [|destruct s; eexists; reflexivity]).
  - destruct s; eexists; reflexivity.
  - cbn [qstep]. destruct (step i (q_st s) pc) as [st1 pc1|o].
    + specialize (IH p (mkQ st1 (q_script s) (events_of i (q_st s) ++ q_trace s)) pc1). cbn [q_st q_script] in IH.
      exact IH.
    + destruct s; eexists; reflexivity.
Qed.

(* ------------------------------------------------------------------ safety w.r.t. a set of bad outcomes
   [qsafe bad prog s pc]: no step bound makes the run from (s, pc) end in a bad
   outcome.  qdefined_from is qsafe is_unspec. *)
Definition qsafe (bad : outcome -> bool) (prog : list qinstr) (s : qstate) (pc : Z) : Prop :=
  forall fuel, bad (snd (qrun_from prog s pc fuel)) = false.

Lemma qsafe_pc : forall bad prog s pc, (forall l, bad (Unspec l) = true) -> qsafe bad prog s pc -> 0 <= pc.
Proof.
  intros bad prog s pc Hb H. specialize (H O). rewrite qrun_eq in H.
  destruct (pc <? 0) eqn:E; [cbn in H; rewrite Hb in H; discriminate|lia].
Qed.

Lemma qsafe_step : forall bad prog s pc i s' pc',
  qsafe bad prog s pc -> 0 <= pc -> nth_error prog (Z.to_nat pc) = Some i ->
  qstep i s pc = QNext s' pc' -> qsafe bad prog s' pc'.
Proof.
  intros bad prog s pc i s' pc' H H0 Hi Hs f. specialize (H (S f)). rewrite qrun_eq in H.
  replace (pc <? 0) with false in H by lia.
  assert (Hlt : pc < Zlen prog) by (eapply nth_some_lt; eauto).
  replace (Zlen prog <=? pc) with false in H by lia. rewrite Hi, Hs in H. exact H.
Qed.

Lemma qsafe_stop : forall bad prog s pc i o,
  qsafe bad prog s pc -> 0 <= pc -> nth_error prog (Z.to_nat pc) = Some i ->
  qstep i s pc = QStop o -> bad o = false.
Proof.
  intros bad prog s pc i o H H0 Hi Hc. specialize (H 1%nat). rewrite qrun_eq in H.
  replace (pc <? 0) with false in H by lia.
  assert (Hlt : pc < Zlen prog) by (eapply nth_some_lt; eauto).
  replace (Zlen prog <=? pc) with false in H by lia. rewrite Hi, Hc in H. exact H.
Qed.

Lemma qdefined_is_qsafe : forall prog s pc, qdefined_from prog s pc <-> qsafe is_unspec prog s pc.
Proof. intros. unfold qdefined_from, qsafe. tauto. Qed.

(* ------------------------------------------------------------------ deciding safety for runs that end *)
Lemma qrun_fuel_stable : forall f prog s pc f',
  snd (qrun_from prog s pc f) <> OutOfFuel ->
  snd (qrun_from prog s pc f') = OutOfFuel \/ qrun_from prog s pc f' = qrun_from prog s pc f.
Proof.
  induction f as [|f IH]; intros prog s pc f' H;
    rewrite (qrun_eq prog s pc f'); rewrite qrun_eq in H; rewrite qrun_eq;
    destruct (pc <? 0); try (right; reflexivity);
    destruct (Zlen prog <=? pc); try (right; reflexivity);
    destruct (nth_error prog (Z.to_nat pc)) as [i|]; try (right; reflexivity).
  - cbn in H. congruence.
  - destruct f' as [|f']; [left; reflexivity|].
    destruct (qstep i s pc) as [s1 pc1|o]; [|right; reflexivity].
    apply IH. exact H.
Qed.

Theorem qsafe_by_run : forall bad prog s pc N,
  bad OutOfFuel = false ->
  snd (qrun_from prog s pc N) <> OutOfFuel ->
  bad (snd (qrun_from prog s pc N)) = false ->
  qsafe bad prog s pc.
Proof.
  intros bad prog s pc N Hb Hne Hok f.
  destruct (qrun_fuel_stable N prog s pc f Hne) as [E|E]; rewrite E; assumption.
Qed.

Lemma qrun_mono : forall f prog s pc,
  snd (qrun_from prog s pc f) <> OutOfFuel ->
  forall f', (f <= f')%nat -> qrun_from prog s pc f' = qrun_from prog s pc f.
Proof.
  induction f as [|f IH]; intros prog s pc H f' Hle;
    rewrite (qrun_eq prog s pc f'); rewrite qrun_eq in H; rewrite qrun_eq;
    destruct (pc <? 0); try reflexivity;
    destruct (Zlen prog <=? pc); try reflexivity;
    destruct (nth_error prog (Z.to_nat pc)) as [i|]; try reflexivity.
  - cbn in H. congruence.
  - destruct f' as [|f']; [lia|].
    destruct (qstep i s pc) as [s1 pc1|o]; [|reflexivity].
    apply IH; [exact H|lia].
Qed.
