(* Bridge_AsmQ.v — bridge from Lang/AsmSemQ.v (C03's interpreter with the event
   meaning of the non-classical instructions) run on ASSEMBLED programs to the
   common semantics with abstract quantum events Exec/SemQ.v (= Exec/Sem.v on the
   classical instructions, tied to executor.py by C04).  Program level, for every
   program of the fragment, all related states, pcs and step counts, inside the
   defined domain of SemQ.  Extends Bridge_Asm.v (classical instructions) to
   qalloc / qfree (unit module with capacity and allocation faults on both
   sides), meas (scripted outcome) and the gate-like instructions (events). *)
From Coq Require Import ZArith List Bool String Lia ZifyBool FinFun.
From NQ Require Import Lang.Asm Lang.AsmSem Lang.AsmSemQ.
From NQ Require Import Exec.State Exec.Sem Exec.SemQ Proofs.ExecProofs Proofs.BridgeCommon Proofs.SemQProofs.
From NQ Require Import Proofs.Bridge_Asm.
Import ListNotations.
Open Scope Z_scope.

(* ------------------------------------------------------------------ embedding *)
(* tags of the gate events (the numbers used by the C04 quantum stream and by
   Bridge_Nv / Bridge_Sdk) *)
Local Open Scope string_scope.
Definition tag_table : list (string * Z) :=
  [("init", 0); ("x", 10); ("y", 11); ("z", 12); ("h", 13); ("k", 14); ("s", 15); ("t", 16);
   ("rot_x", 20); ("rot_y", 21); ("rot_z", 22); ("cnot", 30); ("cphase", 31); ("mov", 32);
   ("crot_x", 40); ("crot_y", 41); ("crot_z", 42); ("create_epr", 50); ("recv_epr", 51)].
Local Close Scope string_scope.

Fixpoint tag_find (t : list (string * Z)) (mn : string) : option Z :=
  match t with
  | [] => None
  | (k, x) :: r => if String.eqb k mn then Some x else tag_find r mn
  end.
Definition mn_tag (mn : string) : Z := match tag_find tag_table mn with Some t => t | None => -1 end.

Fixpoint e_regs (vs : list aval) : option (list State.reg) :=
  match vs with
  | [] => Some []
  | v :: r => match e_reg v, e_regs r with
              | Some x, Some xs => Some (x :: xs)
              | _, _ => None
              end
  end.

Definition e_qins (mn : string) (ops : list aopnd) : option qinstr :=
  match qkind_of mn with
  | QKclassical => option_map QC (e_ins (opc_of mn) ops)
  | QKgate nq ni =>
      if Nat.eqb (List.length ops) (nq + ni) then
        match get_vals (firstn nq ops), get_imms (skipn nq ops) with
        | Some vs, Some imms =>
            match e_regs vs with
            | Some rs => Some (QGate (mn_tag mn) imms rs)
            | None => None
            end
        | _, _ => None
        end
      else None
  | QKmeas =>
      match ops with
      | [AV q; AV (VReg b i)] =>
          match e_reg q, e_reg (VReg b i) with
          | Some rq, Some rc => Some (QMeas rq rc)
          | _, _ => None
          end
      | _ => None
      end
  | QKalloc => match ops with
               | [AV q] => match e_reg q with Some r => Some (QC (IQalloc r)) | None => None end
               | _ => None end
  | QKfree => match ops with
              | [AV q] => match e_reg q with Some r => Some (QC (IQfree r)) | None => None end
              | _ => None end
  | QKother => None
  end.

Definition e_qcmd (c : acmd) : option qinstr :=
  match c with
  | AIns mn [] ops => e_qins mn ops
  | _ => None
  end.

Fixpoint e_qprog (T : list acmd) : option (list qinstr) :=
  match T with
  | [] => Some []
  | c :: r => match e_qcmd c, e_qprog r with
              | Some i, Some p => Some (i :: p)
              | _, _ => None
              end
  end.

Definition bankd (b : Z) : bank := match bank_of_Z b with Some k => k | None => BR end.

Definition e_aev (e : aevent) : qevent :=
  match e with
  | EvGate mn imms qs => QEvGate (mn_tag mn) imms qs
  | EvMeas q o => QEvMeas q o
  | EvAlloc q => QEvAlloc q
  | EvFree q => QEvFree q
  | EvRetReg r v => QEvRetReg (bankd (fst r), snd r) v
  | EvRetArr a l => QEvRetArr a l
  end.

(* ------------------------------------------------------------------ relation *)
Definition is_some {A} (o : option A) : bool := match o with Some _ => true | None => false end.

(* consistent physical-qubit bookkeeping: every mapped physical id is in the in-use
   set, and no physical id is mapped twice *)
Definition book_ok (st : state) : Prop :=
  (forall q p, nth_error (um st) q = Some (Some p) -> set_mem p (used st) = true) /\
  (forall q q' p, nth_error (um st) q = Some (Some p) -> nth_error (um st) q' = Some (Some p) -> q = q').

Definition qrel (a : qastate) (s : qstate) : Prop :=
  srel (qa_st a) (q_st s) /\
  qa_um a = map is_some (um (q_st s)) /\
  qa_script a = q_script s /\
  q_trace s = map e_aev (qa_trace a) /\
  book_ok (q_st s).

Definition qcfg_bridge (len : nat) (c : qacfg) (r : qresult) : Prop :=
  match r with
  | (s, pc, o) =>
      match c with
      | QRun k a => qrel a s /\ pc = Z.of_nat k /\
                    ((k < len)%nat /\ o = OutOfFuel \/ (len <= k)%nat /\ o = Halt)
      | QHalted a => qrel a s /\ o = Halt
      | QFault k a => qrel a s /\ pc = Z.of_nat k /\ exists kind, o = State.Fault kind pc
      | QStuck _ _ => False
      end
  end.

(* ------------------------------------------------------------------ sets *)
Lemma set_mem_app : forall x l l', set_mem x (l ++ l') = set_mem x l || set_mem x l'.
Proof. intros. unfold set_mem. apply existsb_app. Qed.

Lemma set_mem_add : forall x y l, set_mem x (set_add y l) = (x =? y) || set_mem x l.
Proof.
  intros x y l. unfold set_add. destruct (set_mem y l) eqn:E.
  - destruct (x =? y) eqn:Exy; [|reflexivity]. apply Z.eqb_eq in Exy. subst. rewrite E. reflexivity.
  - rewrite set_mem_app. cbn. rewrite orb_false_r, orb_comm. reflexivity.
Qed.

Lemma set_mem_remove : forall x y l, set_mem x (set_remove y l) = negb (x =? y) && set_mem x l.
Proof.
  intros x y l. unfold set_remove, set_mem. induction l as [|h t IH]; cbn; [rewrite andb_false_r; reflexivity|].
  destruct (y =? h) eqn:E; cbn.
  - rewrite IH. apply Z.eqb_eq in E. subst h. destruct (x =? y) eqn:E'; cbn; [reflexivity|reflexivity].
  - rewrite IH. destruct (x =? h) eqn:E1; cbn.
    + apply Z.eqb_eq in E1. subst h. rewrite (Z.eqb_sym x y), E. reflexivity.
    + reflexivity.
Qed.

(* pigeonhole: among 0 .. |u| some number is not in u *)
Lemma least_unused_some : forall u, least_unused u <> None.
Proof.
  intros u H. unfold least_unused in H.
  assert (Hall : forall k, In k (map Z.of_nat (seq 0 (S (List.length u)))) -> In k u).
  { intros k Hk. pose proof (find_none _ _ H k Hk) as Hn. cbn in Hn.
    destruct (set_mem k u) eqn:E; [|discriminate]. unfold set_mem in E.
    apply existsb_exists in E. destruct E as [y [Hy Ey]]. apply Z.eqb_eq in Ey. subst. exact Hy. }
  assert (Hnd : NoDup (map Z.of_nat (seq 0 (S (List.length u))))).
  { apply Injective_map_NoDup; [intros a b E; lia|apply seq_NoDup]. }
  pose proof (NoDup_incl_length Hnd Hall) as Hl. rewrite map_length, seq_length in Hl. lia.
Qed.

(* ------------------------------------------------------------------ classical instructions *)
Ltac dmatch H :=
  repeat match type of H with
         | context [match ?x with _ => _ end] => destruct x; try discriminate H
         end.

(* only qalloc / qfree touch the unit module and the in-use set *)
Lemma step_um_used : forall i st pc st' pc', step i st pc = Next st' pc' ->
  match i with
  | IQalloc _ | IQfree _ => True
  | _ => um st' = um st /\ used st' = used st
  end.
Proof.
  intros i st pc st' pc' H. unfold step in H. cbv zeta in H.
  destruct (negb (instr_regs_ok i)); [discriminate|].
  destruct i; try exact I; dmatch H; inversion H; subst; split; reflexivity.
Qed.

Lemma e_ins_classical : forall o ops i, e_ins o ops = Some i ->
  match i with IQalloc _ | IQfree _ => False | _ => True end.
Proof.
  intros o ops i H. unfold e_ins in H. inv_match H; inv_ob H; inversion H; subst i; exact I.
Qed.

Lemma book_ok_same : forall st st', um st' = um st -> used st' = used st -> book_ok st -> book_ok st'.
Proof. intros st st' Hu Hs [A B]. unfold book_ok. rewrite Hu, Hs. split; assumption. Qed.

(* the events a classical instruction makes visible are the same on both sides *)
Lemma events_classical : forall o ops i a s,
  e_ins o ops = Some i -> srel a s -> instr_regs_ok i = true ->
  map e_aev (AsmSemQ.events_of o ops a) = SemQ.events_of i s.
Proof.
  intros o ops i a s He R Hok. unfold e_ins in He.
  inv_match He; inv_ob He; inversion He; subst i; clear He; try reflexivity.
  - (* ret_reg *)
    match goal with E : e_reg _ = Some _ |- _ => destruct (e_reg_inv _ _ E) as (b & i & k & -> & Hb & ->) end.
    cbn [AsmSemQ.events_of SemQ.events_of instr_regs_ok] in *.
    rewrite (rdv_rel _ _ _ _ _ R Hb Hok). destruct (Sem.rd s (k, i)); [|reflexivity].
    cbn. unfold bankd. rewrite Hb. reflexivity.
  - (* ret_arr *)
    cbn [AsmSemQ.events_of SemQ.events_of]. rewrite zlookup_find, (sr_arrs _ _ R).
    dfind l; reflexivity.
Qed.

Lemma e_ins_jump_no_events : forall o ops i a t a' st,
  e_ins o ops = Some i -> exec o ops a = EJump t a' -> SemQ.events_of i st = [].
Proof.
  intros o ops i a t a' st He Hx. unfold e_ins in He.
  inv_match He; inv_ob He; inversion He; subst i; clear He; try reflexivity;
    exfalso; cbn [exec] in Hx; unfold next_or_fault in Hx; dmatch Hx; discriminate Hx.
Qed.

Definition qstep_bridge (pc : Z) (r : qeres) (q : qres) : Prop :=
  match r with
  | QENext a' => exists s', q = QNext s' (pc + 1) /\ qrel a' s'
  | QEJump t a' => exists z s', t = AV (VLit z) /\ q = QNext s' z /\ qrel a' s'
  | QEFault => exists k, q = QStop (State.Fault k pc)
  | QEStuck => False
  end.

Lemma instr_ok_of_step : forall i st pc, step i st pc <> Stop (Unspec pc) -> instr_regs_ok i = true.
Proof.
  intros i st pc H. unfold step in H. destruct (instr_regs_ok i); [reflexivity|]. exfalso. apply H. reflexivity.
Qed.

Lemma qb_classical : forall mn ops i qa s pc,
  qkind_of mn = QKclassical -> e_ins (opc_of mn) ops = Some i -> qrel qa s ->
  qstep (QC i) s pc <> QStop (Unspec pc) ->
  qstep_bridge pc (exec_q mn ops qa) (qstep (QC i) s pc).
Proof.
  intros mn ops i qa s pc Hk He (R & Ru & Rs & Rt & Rb) H.
  assert (Hs : step i (q_st s) pc <> Stop (Unspec pc)).
  { intro E. apply H. cbn [qstep]. rewrite E. reflexivity. }
  pose proof (ins_bridge _ _ _ _ _ pc He R Hs) as B.
  pose proof (events_classical _ _ _ _ _ He R (instr_ok_of_step _ _ _ Hs)) as Ev.
  pose proof (e_ins_classical _ _ _ He) as Hc.
  unfold exec_q. rewrite Hk. cbn [qstep].
  destruct (exec (opc_of mn) ops (qa_st qa)) as [a'|t a'| |] eqn:Hx; cbn [step_bridge] in B; cbn [qstep_bridge].
  - destruct B as (s' & Hst & R'). rewrite Hst.
    pose proof (step_um_used _ _ _ _ _ Hst) as U.
    eexists; split; [reflexivity|]. unfold qrel, with_st. cbn [qa_st qa_um qa_script qa_trace q_st q_script q_trace].
    destruct i; try contradiction; destruct U as [U1 U2];
      (split; [exact R'|]; split; [rewrite U1; exact Ru|]; split; [exact Rs|];
       split; [rewrite map_app, Ev, Rt; reflexivity|eapply book_ok_same; eauto]).
  - destruct B as (z & s' & -> & Hst & R'). rewrite Hst.
    pose proof (step_um_used _ _ _ _ _ Hst) as U.
    exists z. eexists; split; [reflexivity|]. split; [reflexivity|].
    unfold qrel, with_st. cbn [qa_st qa_um qa_script qa_trace q_st q_script q_trace app].
    pose proof (e_ins_jump_no_events _ _ _ _ _ _ (q_st s) He Hx) as Ev0.
    rewrite Ev0. cbn [app].
    destruct i; try contradiction; destruct U as [U1 U2];
      (split; [exact R'|]; split; [rewrite U1; exact Ru|]; split; [exact Rs|];
       split; [exact Rt|eapply book_ok_same; eauto]).
  - destruct B as (k & Hst). rewrite Hst. eexists; reflexivity.
  - contradiction.
Qed.

(* ------------------------------------------------------------------ gates, meas *)
Lemma rdv_all_rel : forall a s vs rs, srel a s -> e_regs vs = Some rs -> forallb reg_ok rs = true ->
  rdv_all a vs = rd_all s rs.
Proof.
  intros a s vs. induction vs as [|v vs IH]; intros rs R He Hok; cbn in He.
  - inversion He. reflexivity.
  - destruct (e_reg v) as [x|] eqn:Ev; [|discriminate]. destruct (e_regs vs) as [xs|] eqn:Evs; [|discriminate].
    inversion He; subst rs. cbn in Hok. apply andb_prop in Hok. destruct Hok as [Hx Hxs].
    destruct (e_reg_inv _ _ Ev) as (b & i & k & -> & Hb & ->).
    cbn [rdv_all rd_all]. rewrite (rdv_rel _ _ _ _ _ R Hb Hx), (IH xs R eq_refl Hxs). reflexivity.
Qed.

Lemma qb_gate : forall mn nq ni ops qi qa s pc,
  qkind_of mn = QKgate nq ni -> e_qins mn ops = Some qi -> qrel qa s ->
  qstep qi s pc <> QStop (Unspec pc) ->
  qstep_bridge pc (exec_q mn ops qa) (qstep qi s pc).
Proof.
  intros mn nq ni ops qi qa s pc Hk He (R & Ru & Rs & Rt & Rb) H.
  unfold e_qins in He. unfold exec_q. rewrite Hk in *.
  destruct (Nat.eqb (List.length ops) (nq + ni)); [|discriminate].
  destruct (get_vals (firstn nq ops)) as [vs|]; [|discriminate].
  destruct (get_imms (skipn nq ops)) as [imms|]; [|discriminate].
  destruct (e_regs vs) as [rs|] eqn:Er; [|discriminate]. inversion He; subst qi. clear He.
  cbn [qstep] in *. destruct (forallb reg_ok rs) eqn:Hok; cbn [negb] in *; [|congruence].
  rewrite (rdv_all_rel _ _ _ _ R Er Hok).
  destruct (rd_all (q_st s) rs) as [qs|]; cbn [qstep_bridge]; [|eexists; reflexivity].
  eexists; split; [reflexivity|]. unfold qrel, with_st. cbn [qa_st qa_um qa_script qa_trace q_st q_script q_trace app map e_aev].
  split; [exact R|]. split; [exact Ru|]. split; [exact Rs|]. split; [rewrite Rt; reflexivity|exact Rb].
Qed.

Lemma qb_meas : forall mn ops qi qa s pc,
  qkind_of mn = QKmeas -> e_qins mn ops = Some qi -> qrel qa s ->
  qstep qi s pc <> QStop (Unspec pc) ->
  qstep_bridge pc (exec_q mn ops qa) (qstep qi s pc).
Proof.
  intros mn ops qi qa s pc Hk He (R & Ru & Rs & Rt & Rb) H.
  unfold e_qins in He. unfold exec_q. rewrite Hk in *.
  destruct ops as [|[q| | | |] [|[[z|b i]| | | |] [|]]]; try discriminate.
  destruct (e_reg q) as [rq|] eqn:Eq; [|discriminate].
  destruct (e_reg (VReg b i)) as [rc|] eqn:Ec; [|discriminate]. inversion He; subst qi. clear He.
  destruct (e_reg_inv _ _ Eq) as (bq & iq & kq & -> & Hbq & ->).
  cbn [e_reg] in Ec. destruct (bank_of_Z b) as [kc|] eqn:Hbc; [|discriminate]. inversion Ec; subst rc.
  cbn [qstep] in *.
  destruct (reg_ok (kq, iq) && reg_ok (kc, i)) eqn:Hok; cbn [negb] in *; [|congruence].
  apply andb_prop in Hok. destruct Hok as [Hq Hc].
  rewrite (rdv_rel _ _ _ _ _ R Hbq Hq).
  destruct (Sem.rd (q_st s) (kq, iq)) as [qv|]; cbn [qstep_bridge]; [|eexists; reflexivity].
  cbv zeta. unfold AsmSemQ.hd_outcome, SemQ.hd_outcome. rewrite Rs.
  destruct (wr_rel (qa_st qa) (q_st s) b i kc (match q_script s with [] => 0 | o :: _ => o end) R Hbc Hc) as (a' & Hw & R').
  rewrite Hw. eexists; split; [reflexivity|]. unfold qrel. cbn [qa_st qa_um qa_script qa_trace q_st q_script q_trace map e_aev].
  split; [exact R'|]. split; [exact Ru|]. split; [reflexivity|]. split; [rewrite Rt; reflexivity|].
  eapply book_ok_same; [| |exact Rb]; reflexivity.
Qed.

(* ------------------------------------------------------------------ qalloc / qfree *)
Lemma srel_with_um : forall a st u x, srel a st -> srel a (with_um st u x).
Proof. intros a st u x [A B C D]. constructor; cbn; auto. Qed.

Lemma map_sset : forall (A B : Type) (f : A -> B) (l : list A) n v,
  map f (sset n v l) = sset n (f v) (map f l).
Proof.
  intros A B f l n v. unfold sset. rewrite map_app, firstn_map. cbn [map]. rewrite skipn_map. reflexivity.
Qed.

Lemma um_upd : forall (u : list (option Z)) k x, (k < List.length u)%nat ->
  list_upd (map is_some u) k (is_some x) = map is_some (sset k x u).
Proof.
  intros u k x H. rewrite list_upd_sset by (rewrite map_length; exact H). rewrite map_sset. reflexivity.
Qed.

Lemma book_ok_alloc : forall st k p,
  book_ok st -> (k < List.length (um st))%nat -> set_mem p (used st) = false ->
  book_ok (with_um st (sset k (Some p) (um st)) (set_add p (used st))).
Proof.
  intros st k p [A B] Hk Hp. split; cbn [um used with_um].
  - intros q p' Hq. rewrite set_mem_add.
    destruct (Nat.eq_dec q k) as [->|Hne].
    + rewrite nth_error_sset_same in Hq by exact Hk. inversion Hq; subst. rewrite Z.eqb_refl. reflexivity.
    + rewrite nth_error_sset_other in Hq by assumption. rewrite (A _ _ Hq). apply orb_true_r.
  - intros q q' p' Hq Hq'.
    destruct (Nat.eq_dec q k) as [->|Hne]; destruct (Nat.eq_dec q' k) as [->|Hne']; [reflexivity| | |].
    + rewrite nth_error_sset_same in Hq by exact Hk. inversion Hq; subst p'.
      rewrite nth_error_sset_other in Hq' by assumption. rewrite (A _ _ Hq') in Hp. discriminate.
    + rewrite nth_error_sset_same in Hq' by exact Hk. inversion Hq'; subst p'.
      rewrite nth_error_sset_other in Hq by assumption. rewrite (A _ _ Hq) in Hp. discriminate.
    + rewrite nth_error_sset_other in Hq, Hq' by assumption. eapply B; eauto.
Qed.

Lemma book_ok_free : forall st k p,
  book_ok st -> (k < List.length (um st))%nat -> nth_error (um st) k = Some (Some p) ->
  book_ok (with_um st (sset k None (um st)) (set_remove p (used st))).
Proof.
  intros st k p [A B] Hk Hkp. split; cbn [um used with_um].
  - intros q p' Hq. rewrite set_mem_remove.
    destruct (Nat.eq_dec q k) as [->|Hne].
    + rewrite nth_error_sset_same in Hq by exact Hk. discriminate.
    + rewrite nth_error_sset_other in Hq by assumption. rewrite (A _ _ Hq), andb_true_r.
      destruct (p' =? p) eqn:E; [|reflexivity]. apply Z.eqb_eq in E. subst p'.
      exfalso. apply Hne. eapply B; eauto.
  - intros q q' p' Hq Hq'.
    destruct (Nat.eq_dec q k) as [->|Hne]; [rewrite nth_error_sset_same in Hq by exact Hk; discriminate|].
    destruct (Nat.eq_dec q' k) as [->|Hne']; [rewrite nth_error_sset_same in Hq' by exact Hk; discriminate|].
    rewrite nth_error_sset_other in Hq, Hq' by assumption. eapply B; eauto.
Qed.

Ltac pre :=
  let Hok := fresh "Hok" in
  unfold step in *; cbv zeta in *;
  match goal with
  | H : context [negb (instr_regs_ok ?i)] |- _ => destruct (instr_regs_ok i) eqn:Hok
  end; cbn [negb] in *; [|congruence]; cbn [instr_regs_ok opnd_ok] in Hok; regs.

Lemma qb_alloc : forall mn ops qi qa s pc,
  qkind_of mn = QKalloc -> e_qins mn ops = Some qi -> qrel qa s ->
  qstep qi s pc <> QStop (Unspec pc) ->
  qstep_bridge pc (exec_q mn ops qa) (qstep qi s pc).
Proof.
  intros mn ops qi qa s pc Hk He (R & Ru & Rs & Rt & Rb) H.
  unfold e_qins in He. unfold exec_q. rewrite Hk in *.
  destruct ops as [|[q| | | |] [|]]; try discriminate.
  destruct (e_reg q) as [r|] eqn:Eq; [|discriminate]. inversion He; subst qi. clear He.
  destruct (e_reg_inv _ _ Eq) as (b & i & k & -> & Hb & ->).
  assert (Hs : step (IQalloc (k, i)) (q_st s) pc <> Stop (Unspec pc)).
  { intro E. apply H. cbn [qstep]. rewrite E. reflexivity. }
  clear H. cbn [qstep]. pre.
  rewrite (rdv_rel _ _ _ _ _ R Hb) by assumption.
  destruct (Sem.rd (q_st s) (k, i)) as [qv|] eqn:Erd; cbn [qstep_bridge]; [|eexists; reflexivity].
  destruct (qv <? 0) eqn:En; [congruence|].
  rewrite Ru, nth_error_map.
  destruct (Zlen (um (q_st s)) <=? qv) eqn:El.
  - assert (Hn : nth_error (um (q_st s)) (Z.to_nat qv) = None) by (apply nth_error_None; unfold Zlen in El; lia).
    rewrite Hn. cbn. eexists; reflexivity.
  - destruct (nth_error_in_range _ (um (q_st s)) qv) as [c Hc]; try lia. rewrite Hc. cbn [option_map is_some].
    destruct c as [p0|]; cbn [is_some qstep_bridge]; [eexists; reflexivity|].
    destruct (least_unused (used (q_st s))) as [p|] eqn:Elu; [|exfalso; eapply least_unused_some; eauto].
    assert (Hlt : (Z.to_nat qv < List.length (um (q_st s)))%nat) by (unfold Zlen in El; lia).
    eexists; split; [reflexivity|]. unfold qrel. cbn [qa_st qa_um qa_script qa_trace q_st q_script q_trace].
    split; [apply srel_with_um; exact R|]. split.
    { cbn [um with_um]. change true with (is_some (Some p)). apply um_upd. exact Hlt. }
    split; [exact Rs|]. split.
    { cbn [SemQ.events_of]. rewrite Erd. cbn. rewrite Rt. reflexivity. }
    apply book_ok_alloc; [exact Rb|exact Hlt|apply (least_unused_fresh _ _ Elu)].
Qed.

Lemma qb_free : forall mn ops qi qa s pc,
  qkind_of mn = QKfree -> e_qins mn ops = Some qi -> qrel qa s ->
  qstep qi s pc <> QStop (Unspec pc) ->
  qstep_bridge pc (exec_q mn ops qa) (qstep qi s pc).
Proof.
  intros mn ops qi qa s pc Hk He (R & Ru & Rs & Rt & Rb) H.
  unfold e_qins in He. unfold exec_q. rewrite Hk in *.
  destruct ops as [|[q| | | |] [|]]; try discriminate.
  destruct (e_reg q) as [r|] eqn:Eq; [|discriminate]. inversion He; subst qi. clear He.
  destruct (e_reg_inv _ _ Eq) as (b & i & k & -> & Hb & ->).
  assert (Hs : step (IQfree (k, i)) (q_st s) pc <> Stop (Unspec pc)).
  { intro E. apply H. cbn [qstep]. rewrite E. reflexivity. }
  clear H. cbn [qstep]. pre.
  rewrite (rdv_rel _ _ _ _ _ R Hb) by assumption.
  destruct (Sem.rd (q_st s) (k, i)) as [qv|] eqn:Erd; cbn [qstep_bridge]; [|eexists; reflexivity].
  destruct (qv <? 0) eqn:En; [congruence|].
  rewrite Ru, nth_error_map.
  destruct (Zlen (um (q_st s)) <=? qv) eqn:El.
  - assert (Hn : nth_error (um (q_st s)) (Z.to_nat qv) = None) by (apply nth_error_None; unfold Zlen in El; lia).
    rewrite Hn. cbn. eexists; reflexivity.
  - destruct (nth_error_in_range _ (um (q_st s)) qv) as [c Hc]; try lia. rewrite Hc. cbn [option_map is_some].
    destruct c as [p0|]; cbn [is_some qstep_bridge]; [|eexists; reflexivity].
    assert (Hm : set_mem p0 (used (q_st s)) = true) by (eapply (proj1 Rb); eauto).
    rewrite Hm.
    assert (Hlt : (Z.to_nat qv < List.length (um (q_st s)))%nat) by (unfold Zlen in El; lia).
    eexists; split; [reflexivity|]. unfold qrel. cbn [qa_st qa_um qa_script qa_trace q_st q_script q_trace].
    split; [apply srel_with_um; exact R|]. split.
    { cbn [um with_um]. change false with (is_some (@None Z)). apply um_upd. exact Hlt. }
    split; [exact Rs|]. split.
    { cbn [SemQ.events_of]. rewrite Erd. cbn. rewrite Rt. reflexivity. }
    apply book_ok_free; [exact Rb|exact Hlt|exact Hc].
Qed.

(* every instruction of the fragment *)
Theorem qins_bridge : forall mn ops qi qa s pc,
  e_qins mn ops = Some qi -> qrel qa s -> qstep qi s pc <> QStop (Unspec pc) ->
  qstep_bridge pc (exec_q mn ops qa) (qstep qi s pc).
Proof.
  intros mn ops qi qa s pc He R H.
  destruct (qkind_of mn) as [|nq ni| | | |] eqn:Hk.
  - unfold e_qins in He. rewrite Hk in He. destruct (e_ins (opc_of mn) ops) as [i|] eqn:Ei; [|discriminate].
    inversion He; subst qi. eapply qb_classical; eauto.
  - eapply qb_gate; eauto.
  - eapply qb_meas; eauto.
  - eapply qb_alloc; eauto.
  - eapply qb_free; eauto.
  - unfold e_qins in He. rewrite Hk in He. discriminate.
Qed.

(* ------------------------------------------------------------------ programs *)
Lemma e_qcmd_inv : forall c i, e_qcmd c = Some i ->
  exists mn ops, c = AIns mn [] ops /\ e_qins mn ops = Some i.
Proof. intros [l|mn [|x args] ops] i H; cbn in H; try discriminate. eauto. Qed.

Lemma e_qprog_nth : forall T p, e_qprog T = Some p ->
  List.length p = List.length T /\
  forall k c, nth_error T k = Some c -> exists i, e_qcmd c = Some i /\ nth_error p k = Some i.
Proof.
  induction T as [|c T IH]; intros p H; cbn in H.
  - inversion H. split; [reflexivity|]. intros [|k] c Hc; discriminate.
  - destruct (e_qcmd c) as [i|] eqn:Ec; [|discriminate].
    destruct (e_qprog T) as [p'|] eqn:Ep; [|discriminate]. inversion H; subst p.
    destruct (IH p' eq_refl) as [Hl Hn]. split; [cbn; lia|].
    intros [|k] c' Hc; cbn in Hc |- *.
    + inversion Hc; subst c'. eauto.
    + apply Hn. exact Hc.
Qed.

Lemma arun_q_halted : forall T n a, arun_q T n (QHalted a) = QHalted a.
Proof. intros T n a. destruct n; reflexivity. Qed.
Lemma arun_q_fault : forall T n k a, arun_q T n (QFault k a) = QFault k a.
Proof. intros T n k a. destruct n; reflexivity. Qed.

(* THE BRIDGE AsmSemQ -> SemQ (extends C04B_asm_bridge to the event instructions) *)
Theorem asmq_bridge_from : forall n T p a s k,
  e_qprog T = Some p -> qrel a s -> qdefined_from p s (Z.of_nat k) ->
  qcfg_bridge (List.length T) (arun_q T n (QRun k a)) (qrun_from p s (Z.of_nat k) n).
Proof.
  induction n as [|n IH]; intros T p a s k Hp R D;
    destruct (e_qprog_nth _ _ Hp) as [Hlen Hnth];
    rewrite qrun_eq; replace (Z.of_nat k <? 0) with false by lia;
    assert (HZ : Zlen p = Z.of_nat (List.length T)) by (unfold Zlen; rewrite Hlen; reflexivity).
  - cbn [arun_q qcfg_bridge].
    destruct (Zlen p <=? Z.of_nat k) eqn:E.
    + split; [exact R|]. split; [reflexivity|]. right. split; [lia|reflexivity].
    + destruct (nth_error_in_range _ p (Z.of_nat k)) as [i Hi]; try lia. rewrite Hi.
      split; [exact R|]. split; [reflexivity|]. left. split; [lia|reflexivity].
  - cbn [arun_q]. unfold astep_q.
    apply qdefined_is_qsafe in D.
    destruct (nth_error T k) as [c|] eqn:Ec.
    + destruct (Hnth _ _ Ec) as [i [Hci Hpi]].
      destruct (e_qcmd_inv _ _ Hci) as (mn & ops & -> & Hins).
      rewrite (fetch_ins _ _ _ _ Ec).
      assert (Hlt : (k < List.length T)%nat) by (apply nth_error_Some; congruence).
      replace (Zlen p <=? Z.of_nat k) with false by lia.
      rewrite Nat2Z.id, Hpi.
      assert (Hi' : nth_error p (Z.to_nat (Z.of_nat k)) = Some i) by (rewrite Nat2Z.id; exact Hpi).
      assert (Hno : qstep i s (Z.of_nat k) <> QStop (Unspec (Z.of_nat k))).
      { intro E. pose proof (qsafe_stop _ _ _ _ _ _ D ltac:(lia) Hi' E) as B. discriminate B. }
      pose proof (qins_bridge _ _ _ a s (Z.of_nat k) Hins R Hno) as B.
      destruct (exec_q mn ops a) as [a'|t a'| |]; cbn [qstep_bridge] in B.
      * destruct B as (s' & Hs & R'). rewrite Hs.
        replace (Z.of_nat k + 1) with (Z.of_nat (S k)) in * by lia.
        apply IH; auto. apply qdefined_is_qsafe. eapply qsafe_step; eauto. lia.
      * destruct B as (z & s' & -> & Hs & R'). rewrite Hs.
        pose proof (qsafe_step _ _ _ _ _ _ _ D ltac:(lia) Hi' Hs) as D'.
        assert (Hz : 0 <= z) by (eapply qsafe_pc; [|exact D']; reflexivity).
        cbn [target]. replace (0 <=? z) with true by lia.
        rewrite <- (Z2Nat.id z Hz) at 2. apply IH; auto. rewrite Z2Nat.id by exact Hz.
        apply qdefined_is_qsafe. exact D'.
      * destruct B as (kind & Hs). rewrite Hs, arun_q_fault. cbn [qcfg_bridge].
        destruct R as (R1 & R2). split; [split; assumption|]. split; [reflexivity|]. eauto.
      * contradiction.
    + rewrite (fetch_none _ _ Ec), arun_q_halted.
      assert (Hge : (List.length T <= k)%nat) by (apply nth_error_None; exact Ec).
      replace (Zlen p <=? Z.of_nat k) with true by lia. cbn [qcfg_bridge]. auto.
Qed.

Theorem asmq_bridge : forall n T p a s,
  e_qprog T = Some p -> qrel a s -> qdefined_domain p s ->
  qcfg_bridge (List.length T) (arun_q T n (QRun 0 a)) (qrun p s n).
Proof. intros n T p a s Hp R D. exact (asmq_bridge_from n T p a s 0%nat Hp R D). Qed.

Lemma book_ok_init : forall cap, book_ok (State.init_state cap).
Proof.
  intro cap. split; cbn.
  - intros q p H. exfalso. revert q H. induction cap as [|c IH]; intros [|q] H; cbn in H; try discriminate. eauto.
  - intros q q' p H. exfalso. revert q H. induction cap as [|c IH]; intros [|q] H; cbn in H; try discriminate. eauto.
Qed.

Lemma qrel_init : forall cap script,
  qrel (init_qstate cap script) (mkQ (State.init_state cap) script []).
Proof.
  intros cap script. unfold qrel, init_qstate. cbn [qa_st qa_um qa_script qa_trace q_st q_script q_trace map].
  split; [apply srel_init|]. split.
  - cbn. induction cap as [|c IH]; cbn; [reflexivity|]. f_equal. exact IH.
  - split; [reflexivity|]. split; [reflexivity|apply book_ok_init].
Qed.
