(* QMatProofs.v — soundness of the boolean deciders of QMat / NvSem. *)
From Coq Require Import ZArith List Bool Arith Lia String.
From NQ Require Import Base.Cyclo Base.QMat Nv.NvSem.
Import ListNotations.

Lemma peqb_eq : forall p q, peqb p q = true -> p = q.
Proof.
  induction p as [|a p IH]; destruct q as [|b q]; cbn; intros H; try discriminate; auto.
  apply andb_true_iff in H. destruct H as [H1 H2].
  apply Z.eqb_eq in H1. subst. f_equal. auto.
Qed.

Lemma keqb_eq : forall a b, keqb a b = true -> a = b.
Proof.
  intros [ca ea] [cb eb] H. unfold keqb in H. cbn in H.
  apply andb_true_iff in H. destruct H as [H1 H2].
  apply peqb_eq in H1. apply Nat.eqb_eq in H2. subst. reflexivity.
Qed.

Lemma veqb_eq : forall u v, veqb u v = true -> u = v.
Proof.
  induction u as [|a u IH]; destruct v as [|b v]; cbn; intros H; try discriminate; auto.
  apply andb_true_iff in H. destruct H as [H1 H2].
  apply keqb_eq in H1. subst. f_equal. auto.
Qed.

Lemma meqb_eq : forall A B, meqb A B = true -> A = B.
Proof.
  induction A as [|a A IH]; destruct B as [|b B]; cbn; intros H; try discriminate; auto.
  apply andb_true_iff in H. destruct H as [H1 H2].
  apply veqb_eq in H1. subst. f_equal. auto.
Qed.

Lemma phase_eqb_sound : forall A B, phase_eqb A B = true -> phase_eq A B.
Proof.
  intros A B H. unfold phase_eqb in H. apply existsb_exists in H.
  destruct H as [p [Hin Heq]]. apply in_seq in Hin. apply meqb_eq in Heq.
  exists p. split; [lia | exact Heq].
Qed.

Lemma row_ok_sound : forall r, row_ok r = true -> row_spec r.
Proof.
  intros r H. unfold row_ok in H. unfold row_spec.
  destruct (r_gate r) eqn:Eg.
  - destruct (circuit _ _) as [U|] eqn:Ec; [|discriminate].
    destruct (gate_spec _ _) as [G|] eqn:Es; [|discriminate].
    exists U, G. repeat split; auto. apply phase_eqb_sound; exact H.
  - destruct (circuit _ _) as [U|] eqn:Ec; [|discriminate].
    destruct (gate_spec _ _) as [G|] eqn:Es; [|discriminate].
    exists U, G. repeat split; auto. apply phase_eqb_sound; exact H.
  - destruct (circuit _ _) as [U|] eqn:Ec; [|discriminate].
    destruct (gate_spec _ _) as [G|] eqn:Es; [|discriminate].
    exists U, G. repeat split; auto. apply phase_eqb_sound; exact H.
  - destruct (circuit _ _) as [U|] eqn:Ec; [|discriminate].
    destruct (mov_in _) as [Inp|] eqn:Ei; [|discriminate].
    apply andb_true_iff in H. destruct H as [H H3].
    apply andb_true_iff in H. destruct H as [H1 H2].
    apply meqb_eq in H1. unfold unit_vec in H2. apply meqb_eq in H2.
    exists U, Inp, (mov_phi0 (r_place r) (mmul U Inp)).
    split; [reflexivity|]. split; [reflexivity|].
    split; [destruct (r_place r); reflexivity|].
    split; [exact H3|]. split; [exact H1 | exact H2].
  - destruct (circuit _ _) as [U|] eqn:Ec; [|discriminate].
    destruct (gate_spec _ _) as [G0|] eqn:Es; [|discriminate].
    exists U, G0. repeat split; auto. apply phase_eqb_sound; exact H.
Qed.

Lemma rows_ok_sound : forall rows, forallb row_ok rows = true ->
  forall r, In r rows -> row_spec r.
Proof.
  intros rows H r Hin. apply row_ok_sound.
  rewrite forallb_forall in H. exact (H r Hin).
Qed.

(* ---- rotation immediates ---- *)
Open Scope Z_scope.

(* the emitted immediates denote the same angle n*pi/2^d, as an identity of
   rationals n'/2^d' = n/2^d (first without division, then in Q) *)
Lemma rot_angle_preserved_z : forall hw n d n' d',
  0 <= d -> nv_rot_imm hw n d = Some (n', d') ->
  0 <= d' /\ n' * 2 ^ d = n * 2 ^ d'.
Proof.
  intros hw n d n' d' Hd H. unfold nv_rot_imm in H. destruct hw.
  - destruct ((0 <=? d) && (d <=? 4)) eqn:E; [|discriminate].
    apply andb_true_iff in E. destruct E as [E1 E2].
    apply Z.leb_le in E1. apply Z.leb_le in E2.
    assert (Hn' : n' = n * 2 ^ (4 - d)) by congruence.
    assert (Hd' : d' = 4) by congruence. clear H. subst n' d'. split; [lia|].
    rewrite <- Z.mul_assoc. f_equal. rewrite <- Z.pow_add_r by lia.
    f_equal. lia.
  - assert (Hn' : n' = n) by congruence. assert (Hd' : d' = d) by congruence.
    subst n' d'. split; [lia | reflexivity].
Qed.

From Coq Require Import QArith.
Definition angle_q (n d : Z) : Q := Qmake n (Z.to_pos (2 ^ d)).   (* n / 2^d, in units of pi *)

Lemma rot_angle_preserved : forall hw n d n' d',
  (0 <= d)%Z -> nv_rot_imm hw n d = Some (n', d') ->
  Qeq (angle_q n' d') (angle_q n d).
Proof.
  intros hw n d n' d' Hd H.
  destruct (rot_angle_preserved_z hw n d n' d' Hd H) as [Hd' E].
  unfold Qeq, angle_q. cbn [Qnum Qden].
  rewrite !Z2Pos.id by (apply Z.pow_pos_nonneg; lia). exact E.
Qed.

(* hardware mode accepts exactly 0 <= d <= 4 *)
Lemma nv_rot_imm_hw_accepts : forall n d,
  nv_rot_imm true n d <> None <-> (0 <= d <= 4)%Z.
Proof.
  intros n d. unfold nv_rot_imm.
  destruct ((0 <=? d)%Z && (d <=? 4)%Z) eqn:E.
  - apply andb_true_iff in E. destruct E as [E1 E2].
    apply Z.leb_le in E1. apply Z.leb_le in E2. split; [lia | discriminate].
  - apply andb_false_iff in E. split; [intros C; exfalso; apply C; reflexivity|].
    intros [H1 H2]. destruct E as [E|E]; apply Z.leb_gt in E; lia.
Qed.

Lemma nv_rot_imm_sim : forall n d, nv_rot_imm false n d = Some (n, d).
Proof. reflexivity. Qed.

(* in hardware mode the rewritten immediates give literally the same exact matrix *)
Lemma rot_hw_same_operator : forall a q n d n' d',
  (0 <= n)%Z -> nv_rot_imm true n d = Some (n', d') ->
  op_gate (ORot a q n' d') = op_gate (ORot a q n d).
Proof.
  intros a q n d n' d' Hn H. unfold nv_rot_imm in H.
  destruct ((0 <=? d)%Z && (d <=? 4)%Z) eqn:E; [|discriminate].
  assert (Hn' : n' = (n * 2 ^ (4 - d))%Z) by congruence.
  assert (Hd' : d' = 4%Z) by congruence. clear H. subst n' d'.
  apply andb_true_iff in E. destruct E as [E1 E2].
  assert (F1 := E1). assert (F2 := E2).
  apply Z.leb_le in F1. apply Z.leb_le in F2.
  assert (Hp : (0 <= n * 2 ^ (4 - d))%Z) by (apply Z.mul_nonneg_nonneg; [lia | apply Z.pow_nonneg; lia]).
  assert (L1 : (0 <=? n * 2 ^ (4 - d))%Z = true) by (apply Z.leb_le; exact Hp).
  assert (L2 : (0 <=? n)%Z = true) by (apply Z.leb_le; exact Hn).
  cbn [op_gate]. unfold half_units. rewrite L1, L2, E1, E2.
  replace ((0 <=? 4)%Z) with true by reflexivity.
  replace ((4 <=? 4)%Z) with true by reflexivity. cbn [andb].
  replace (4 - 4)%Z with 0%Z by lia. rewrite Z.pow_0_r, Z.mul_1_r. reflexivity.
Qed.

Lemma opt_phase_eqb_sound : forall A B, opt_phase_eqb A B = true ->
  exists U, A = Some U /\ phase_eq U B.
Proof.
  intros [U|] B H; cbn in H; [|discriminate].
  exists U. split; [reflexivity | apply phase_eqb_sound; exact H].
Qed.

(* a table that contains a MOV row (used for non-vacuity statements) *)
Definition is_mov (r : nvrow) : bool := match r_gate r with VMov => true | _ => false end.
Lemma has_mov_row : forall rows, existsb is_mov rows = true -> exists r, In r rows /\ r_gate r = VMov.
Proof.
  intros rows H. apply existsb_exists in H. destruct H as [r [Hin Hm]].
  exists r. split; [exact Hin|]. unfold is_mov in Hm. destruct (r_gate r); try discriminate. reflexivity.
Qed.
