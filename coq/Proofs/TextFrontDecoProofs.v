(* TextFrontDecoProofs.v — comments, blank lines, indentation and trailing blanks
   do not change what the text front end reads (C03, character level). *)
From Coq Require Import ZArith List Bool String Ascii Lia.
From NQ Require Import Base.Bits Lang.Codec Lang.Asm Lang.Text Lang.TextFront Proofs.TextProofs.
Import ListNotations.
Open Scope Z_scope.

Lemma lstrip_all p s x : sall p s = true -> lstrip p (s +++ x) = lstrip p x.
Proof.
  induction s as [|c s IH]; [reflexivity|]. cbn [sall]. rewrite andb_true_iff. intros [Hc Hs].
  change (String c s +++ x) with (String c (s +++ x)). cbn [lstrip]. rewrite Hc. exact (IH Hs).
Qed.

Lemma rstrip_all p s : sall p s = true -> rstrip p s = EmptyString.
Proof.
  induction s as [|c s IH]; [reflexivity|]. cbn [sall]. rewrite andb_true_iff. intros [Hc Hs].
  rewrite rstrip_cons, (IH Hs), Hc. reflexivity.
Qed.

(* a string whose last character is kept shields what is before it *)
Lemma rstrip_app_keep p a b :
  a <> EmptyString -> last_sat (fun c => negb (p c)) a -> rstrip p (a +++ b) = a +++ rstrip p b.
Proof.
  induction a as [|c a IH]; [congruence|]. intros _ Hlast.
  change (String c a +++ b) with (String c (a +++ b)). rewrite rstrip_cons.
  destruct a as [|d a].
  - cbn [String.append]. specialize (Hlast c eq_refl). apply negb_true_iff in Hlast.
    destruct (rstrip p b); [rewrite Hlast; reflexivity|reflexivity].
  - rewrite IH; [|discriminate|unfold last_sat in *; rewrite last_char_cons in Hlast; exact Hlast].
    reflexivity.
Qed.

Lemma rstrip_app_all p a b :
  sall p b = true -> rstrip p (a +++ b) = rstrip p a.
Proof.
  revert a. induction b as [|c b IH]; intros a Hb; [rewrite app_nil_r_s; reflexivity|].
  cbn [sall] in Hb. apply andb_true_iff in Hb as [Hc Hb].
  replace (a +++ String c b) with ((a +++ s1 c) +++ b) by (rewrite app_assoc_s; reflexivity).
  rewrite (IH _ Hb). apply rstrip_snoc. exact Hc.
Qed.

Lemma find_str_skip p0 p x y :
  nochar p0 x = true -> find_str (String p0 p) (x +++ String p0 p +++ y) = Some (String.length x).
Proof.
  unfold nochar. induction x as [|c x IH]; intros Hx.
  - cbn [String.append String.length find_str]. 
    assert (Hp : String.prefix (String p0 p) (String p0 p +++ y) = true).
    { clear. change (String p0 p +++ y) with (String p0 (p +++ y)). cbn [String.prefix].
      destruct (ascii_dec p0 p0) as [_|N]; [|congruence].
      induction p as [|d p IHp]; [destruct y; reflexivity|].
      change (String d p +++ y) with (String d (p +++ y)). cbn [String.prefix].
      destruct (ascii_dec d d) as [_|N]; [exact IHp|congruence]. }
    change (String p0 p +++ y) with (String p0 (p +++ y)) in *.
    cbn [find_str]. rewrite Hp. reflexivity.
  - cbn [sall] in Hx. apply andb_true_iff in Hx as [Hc Hx]. apply negb_true_iff in Hc.
    change (String c x +++ String p0 p +++ y) with (String c (x +++ String p0 p +++ y)).
    cbn [find_str String.prefix String.length].
    destruct (ascii_dec p0 c) as [E|_]; [subst; rewrite Ascii.eqb_refl in Hc; discriminate|].
    rewrite (IH Hx). reflexivity.
Qed.

Lemma find_str_absent p0 p x : nochar p0 x = true -> find_str (String p0 p) x = None.
Proof.
  unfold nochar. induction x as [|c x IH]; intros Hx; [reflexivity|].
  cbn [sall] in Hx. apply andb_true_iff in Hx as [Hc Hx]. apply negb_true_iff in Hc.
  cbn [find_str String.prefix].
  destruct (ascii_dec p0 c) as [E|_]; [subst; rewrite Ascii.eqb_refl in Hc; discriminate|].
  rewrite (IH Hx). reflexivity.
Qed.

Lemma clean_line_inv l :
  clean_line l = true ->
  l <> EmptyString /\ lstrip is_space l = l /\ last_sat (fun c => negb (is_space c)) l /\ nochar SLASH l = true.
Proof.
  unfold clean_line. rewrite !andb_true_iff. intros [[H1 H2] H3].
  destruct l as [|c r]; [discriminate|]. repeat split.
  - discriminate.
  - apply lstrip_head. apply negb_true_iff. exact H1.
  - intros d Hd. rewrite Hd in H2. exact H2.
  - exact H3.
Qed.

(* what _split_preamble_body keeps of a decorated line is the line *)
Theorem dec_line_read d l :
  deco_ok d = true -> clean_line l = true -> remove_comment (strip_ws (dec_line d l)) = l.
Proof.
  unfold deco_ok, all_space. rewrite !andb_true_iff. intros [[_ Hlead] Htrail] Hc.
  destruct (clean_line_inv l Hc) as [Hne [Hls [Hlast Hns]]].
  unfold dec_line, strip_ws, strip. rewrite (lstrip_all _ _ _ Hlead).
  assert (Hl2 : forall x, lstrip is_space (l +++ x) = l +++ x).
  { intros x. destruct l as [|c r]; [congruence|]. cbn [clean_line] in Hc.
    apply andb_true_iff in Hc as [Hc _]. apply andb_true_iff in Hc as [Hc _].
    change (String c r +++ x) with (String c (r +++ x)). apply lstrip_head. apply negb_true_iff. exact Hc. }
  rewrite Hl2. destruct (d_comment d) as [c|].
  - rewrite (rstrip_app_keep _ l _ Hne Hlast). unfold remove_comment.
    assert (Hr : exists c', rstrip is_space (SLASHES +++ c) = SLASHES +++ c').
    { unfold SLASHES. change (String SLASH (s1 SLASH) +++ c) with ((String SLASH (s1 SLASH)) +++ c).
      exists (rstrip is_space c). apply rstrip_app_keep; [discriminate|].
      intros x Hx. cbn in Hx. injection Hx as <-. reflexivity. }
    destruct Hr as [c' ->]. unfold SLASHES.
    change (l +++ String SLASH (s1 SLASH) +++ c') with (l +++ String SLASH (s1 SLASH) +++ c').
    rewrite (find_str_skip SLASH (s1 SLASH) l c' Hns). apply take_app.
  - rewrite (rstrip_app_all _ _ _ Htrail), (rstrip_last _ _ Hlast). unfold remove_comment.
    rewrite (find_str_absent SLASH (s1 SLASH) l Hns). reflexivity.
Qed.

(* a line of blanks, with or without a comment, has no content *)
Theorem blank_line_read b :
  all_space (fst b) = true -> remove_comment (strip_ws (blank_line b)) = EmptyString.
Proof.
  unfold all_space, blank_line. intros Hs. destruct b as [ws [c|]]; cbn [fst snd] in *.
  - unfold strip_ws, strip. rewrite (lstrip_all _ _ _ Hs).
    assert (Hl : lstrip is_space (SLASHES +++ c) = SLASHES +++ c) by reflexivity.
    rewrite Hl.
    assert (Hr : rstrip is_space (SLASHES +++ c) = SLASHES +++ rstrip is_space c).
    { apply rstrip_app_keep; [discriminate|]. intros x Hx. cbn in Hx. injection Hx as <-. reflexivity. }
    rewrite Hr. unfold remove_comment, SLASHES.
    pose proof (find_str_skip SLASH (s1 SLASH) EmptyString (rstrip is_space c) eq_refl) as Hf.
    cbn [String.append String.length] in Hf.
    change (String SLASH (s1 SLASH) +++ rstrip is_space c) with (String SLASH (s1 SLASH +++ rstrip is_space c)).
    rewrite Hf. reflexivity.
  - rewrite app_nil_r_s. unfold strip_ws, strip.
    assert (Hl : lstrip is_space ws = EmptyString).
    { rewrite <- (app_nil_r_s ws). rewrite (lstrip_all _ _ _ Hs). reflexivity. }
    rewrite Hl. reflexivity.
Qed.

Lemma split_preamble_blanks bs rest : forall b,
  forallb (fun x => all_space (fst x)) bs = true ->
  split_preamble (map blank_line bs ++ rest) b = split_preamble rest b.
Proof.
  induction bs as [|x bs IH]; intros b Hb; [reflexivity|].
  cbn [forallb] in Hb. apply andb_true_iff in Hb as [Hx Hb].
  cbn [map app split_preamble]. rewrite (blank_line_read x Hx). apply IH. exact Hb.
Qed.

(* the decorated text is split into the same preamble and body lines *)
Theorem decorate_split ds : forall t b,
  forallb deco_ok ds = true -> forallb clean_line t = true ->
  split_preamble (decorate ds t) b = split_preamble t b.
Proof.
  induction ds as [|d ds IH]; intros t b Hd Ht; [destruct t; reflexivity|].
  destruct t as [|l t]; [reflexivity|].
  cbn [forallb] in Hd, Ht. apply andb_true_iff in Hd as [Hd Hds]. apply andb_true_iff in Ht as [Hl Ht].
  cbn [decorate]. rewrite split_preamble_blanks.
  2:{ unfold deco_ok in Hd. rewrite !andb_true_iff in Hd. tauto. }
  assert (Hself : remove_comment (strip_ws l) = l).
  { pose proof (dec_line_read (mkDeco [] EmptyString EmptyString None) l eq_refl Hl) as H.
    unfold dec_line in H. cbn [d_lead d_comment d_trail] in H.
    rewrite app_nil_r_s in H. exact H. }
  cbn [split_preamble]. rewrite (dec_line_read d l Hd Hl), Hself.
  destruct l as [|c r]; [discriminate|].
  destruct (starts_with HASH (String c r)).
  - destruct b; [|reflexivity]. rewrite (IH t true Hds Ht). reflexivity.
  - rewrite (IH t false Hds Ht). reflexivity.
Qed.

(* C03 robustness: comments, comment-only and blank lines, indentation and
   trailing blanks do not change the parse *)
Theorem decorate_parse bk gi ds t :
  forallb deco_ok ds = true -> forallb clean_line t = true ->
  parse_text bk gi (decorate ds t) = parse_text bk gi t.
Proof. intros Hd Ht. unfold parse_text. rewrite (decorate_split ds t true Hd Ht). reflexivity. Qed.

(* blanks between an instruction and its comment are harmless as well: the
   tokeniser strips them.  (After a label they are NOT: `NAME: // c` is read as an
   instruction named `NAME:` — the real parser behaves the same.) *)
Theorem parse_cmd_trailing_blanks bk gi l ws :
  clean_line l = true -> all_space ws = true -> ends_with COLON l = false ->
  parse_cmd bk gi (l +++ ws) = parse_cmd bk gi l.
Proof.
  intros Hc Hws Hcol. destruct (clean_line_inv l Hc) as [Hne [Hls [Hlast _]]].
  destruct ws as [|w ws]; [rewrite app_nil_r_s; reflexivity|].
  unfold parse_cmd. rewrite Hcol.
  assert (He : ends_with COLON (l +++ String w ws) = false).
  { apply ends_with_last. apply last_sat_app; [discriminate|].
    apply last_sat_sall. unfold all_space in Hws.
    eapply sall_impl; [|exact Hws]. intros c Hsp.
    apply negb_true_iff. destruct (Ascii.eqb_spec c COLON) as [->|_]; [discriminate Hsp|reflexivity]. }
  rewrite He.
  assert (Hg : group_by_word LPAR RPAR (l +++ String w ws) = group_by_word LPAR RPAR l).
  { unfold group_by_word, strip_ws, strip.
    assert (Hl2 : lstrip is_space (l +++ String w ws) = l +++ String w ws).
    { destruct l as [|c r]; [congruence|]. cbn [clean_line] in Hc.
      apply andb_true_iff in Hc as [Hc _]. apply andb_true_iff in Hc as [Hc _].
      change (String c r +++ String w ws) with (String c (r +++ String w ws)).
      apply lstrip_head. apply negb_true_iff. exact Hc. }
    rewrite Hl2, Hls, (rstrip_app_all _ _ _ Hws). reflexivity. }
  rewrite Hg. reflexivity.
Qed.
