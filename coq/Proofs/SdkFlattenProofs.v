(* SdkFlattenProofs.v — flatten_correct (C05): the structured IR and its flattening to
   labels and jumps have the same big-step behaviour, for arbitrary nesting. *)
From Coq Require Import ZArith List Bool Arith Lia.
From NQ Require Import Sdk.SdkAst Sdk.Target Sdk.Flatten.
Import ListNotations.
Local Open Scope nat_scope.

(* ------------------------------------------------------------------ code shapes *)
Definition if_code (pre : list instr) (c : cond) (x y : rop) (cb : list fcmd) (b1 : nat) : list fcmd :=
  map FI pre ++ [FBr (flip c) x y b1] ++ cb ++ [FLab b1].
Definition loop_code (r : reg) (a e st : Z) (b : nat) (cb : list fcmd) (b1 : nat) : list fcmd :=
  [FI (ISet r a); FLab b; FBr CEq (PReg r) (PImm e) b1] ++ cb ++
  [FI (IAdd r r (PImm st)); FJmp b; FLab b1].
Definition until_code (r : reg) (mx : Z) (b : nat) (cb : list fcmd) (pre : list instr) (x : rop) (lim : Z)
           (cc : list fcmd) (b2 : nat) : list fcmd :=
  [FI (ISet r 0%Z); FLab b; FBr CEq (PReg r) (PImm mx) b2] ++ cb ++
  map FI pre ++ [FBr CLt x (PImm lim) b2] ++ cc ++
  [FI (IAdd r r (PImm 1%Z)); FJmp b; FLab b2].

Lemma flat1_XI : forall b i, flat1 b (XI i) = ([FI i], b).
Proof. reflexivity. Qed.
Lemma flat1_XIf : forall b pre c x y body,
  flat1 b (XIf pre c x y body) = (let (cb, b1) := flat b body in (if_code pre c x y cb b1, S b1)).
Proof. intros. reflexivity. Qed.
Lemma flat1_XLoop : forall b r a e st body,
  flat1 b (XLoop r a e st body) = (let (cb, b1) := flat (S b) body in (loop_code r a e st b cb b1, S b1)).
Proof. intros. reflexivity. Qed.
Lemma flat1_XUntil : forall b r mx body pre x lim cl,
  flat1 b (XUntil r mx body pre x lim cl) =
  (let (cb, b1) := flat (S b) body in
   let (cc, b2) := flat b1 cl in (until_code r mx b cb pre x lim cc b2, S b2)).
Proof. intros. reflexivity. Qed.
Lemma flat_cons : forall b x r,
  flat b (x :: r) = (let (c1, b1) := flat1 b x in let (c2, b2) := flat b1 r in (c1 ++ c2, b2)).
Proof. intros. reflexivity. Qed.

(* ------------------------------------------------------------------ labels *)
Fixpoint labs (c : list fcmd) : list nat :=
  match c with
  | [] => []
  | FLab l :: r => l :: labs r
  | _ :: r => labs r
  end.

Lemma labs_app : forall a b, labs (a ++ b) = labs a ++ labs b.
Proof.
  induction a as [|x a IH]; intro b; simpl; [reflexivity|].
  destruct x; simpl; rewrite IH; reflexivity.
Qed.
Lemma labs_map_FI : forall l, labs (map FI l) = [].
Proof. induction l; simpl; auto. Qed.

(* induction principle for the nested type sir *)
Section SirInd.
  Variable P : sir -> Prop.
  Variable Q : list sir -> Prop.
  Hypothesis HI : forall i, P (XI i).
  Hypothesis HIf : forall pre c x y body, Q body -> P (XIf pre c x y body).
  Hypothesis HLoop : forall r a e st body, Q body -> P (XLoop r a e st body).
  Hypothesis HUntil : forall r mx body pre x lim cl, Q body -> Q cl -> P (XUntil r mx body pre x lim cl).
  Hypothesis HNil : Q [].
  Hypothesis HCons : forall x r, P x -> Q r -> Q (x :: r).
  Fixpoint sir_ind2 (s : sir) : P s :=
    let list_ind2 := fix go (l : list sir) : Q l :=
      match l with [] => HNil | x :: r => HCons x r (sir_ind2 x) (go r) end in
    match s with
    | XI i => HI i
    | XIf pre c x y body => HIf pre c x y body (list_ind2 body)
    | XLoop r a e st body => HLoop r a e st body (list_ind2 body)
    | XUntil r mx body pre x lim cl => HUntil r mx body pre x lim cl (list_ind2 body) (list_ind2 cl)
    end.
  Fixpoint sirs_ind2 (l : list sir) : Q l :=
    match l with [] => HNil | x :: r => HCons x r (sir_ind2 x) (sirs_ind2 r) end.
End SirInd.

Lemma seq_join : forall a n m, seq a n ++ seq (a + n) m = seq a (n + m).
Proof. intros. rewrite seq_app. reflexivity. Qed.

(* the labels of flattened code are b, b+1, ..., b'-1 in the order of their definitions *)
Definition labs_ok1 (s : sir) : Prop :=
  forall b c b', flat1 b s = (c, b') -> b <= b' /\ labs c = seq b (b' - b).
Definition labs_okl (l : list sir) : Prop :=
  forall b c b', flat b l = (c, b') -> b <= b' /\ labs c = seq b (b' - b).

Lemma labs_ok_XI : forall i, labs_ok1 (XI i).
Proof.
  intros i b c b' H. rewrite flat1_XI in H. inversion H; subst. split; [lia|].
  replace (b' - b') with 0 by lia. reflexivity.
Qed.
Lemma labs_ok_XIf : forall pre c x y body, labs_okl body -> labs_ok1 (XIf pre c x y body).
Proof.
  intros pre c x y body IH b code b' H. rewrite flat1_XIf in H.
  destruct (flat b body) as [cb b1] eqn:E. inversion H; subst. destruct (IH _ _ _ E) as [L1 L2].
  split; [lia|]. unfold if_code. rewrite !labs_app, labs_map_FI, L2. cbn [labs app].
  replace (S b1 - b) with ((b1 - b) + 1) by lia. rewrite <- seq_join.
  replace (b + (b1 - b)) with b1 by lia. reflexivity.
Qed.
Lemma labs_ok_XLoop : forall r a e st body, labs_okl body -> labs_ok1 (XLoop r a e st body).
Proof.
  intros r a e st body IH b code b' H. rewrite flat1_XLoop in H.
  destruct (flat (S b) body) as [cb b1] eqn:E. inversion H; subst. destruct (IH _ _ _ E) as [L1 L2].
  split; [lia|]. unfold loop_code. rewrite !labs_app, L2. cbn [labs app].
  replace (S b1 - b) with (S ((b1 - S b) + 1)) by lia. cbn [seq]. f_equal.
  rewrite <- seq_join. replace (S b + (b1 - S b)) with b1 by lia. reflexivity.
Qed.
Lemma labs_ok_XUntil : forall r mx body pre x lim cl,
  labs_okl body -> labs_okl cl -> labs_ok1 (XUntil r mx body pre x lim cl).
Proof.
  intros r mx body pre x lim cl IHb IHc b code b' H. rewrite flat1_XUntil in H.
  destruct (flat (S b) body) as [cb b1] eqn:E1. destruct (flat b1 cl) as [cc b2] eqn:E2.
  inversion H; subst. destruct (IHb _ _ _ E1) as [L1 L2]. destruct (IHc _ _ _ E2) as [L3 L4].
  split; [lia|]. unfold until_code. rewrite !labs_app, labs_map_FI, L2, L4. cbn [labs app].
  replace (S b2 - b) with (S ((b1 - S b) + ((b2 - b1) + 1))) by lia. cbn [seq]. f_equal.
  rewrite <- !seq_join.
  replace (S b + (b1 - S b)) with b1 by lia. replace (b1 + (b2 - b1)) with b2 by lia. reflexivity.
Qed.
Lemma labs_ok_nil : labs_okl [].
Proof.
  intros b c b' H. simpl in H. inversion H; subst. split; [lia|].
  replace (b' - b') with 0 by lia. reflexivity.
Qed.
Lemma labs_ok_cons : forall x r, labs_ok1 x -> labs_okl r -> labs_okl (x :: r).
Proof.
  intros x r IHx IHr b c b' H. rewrite flat_cons in H.
  destruct (flat1 b x) as [c1 b1] eqn:E1. destruct (flat b1 r) as [c2 b2] eqn:E2.
  inversion H; subst. destruct (IHx _ _ _ E1) as [L1 L2]. destruct (IHr _ _ _ E2) as [L3 L4].
  split; [lia|]. rewrite labs_app, L2, L4.
  replace (b' - b) with ((b1 - b) + (b' - b1)) by lia. rewrite <- seq_join.
  replace (b + (b1 - b)) with b1 by lia. reflexivity.
Qed.

Lemma flat_labs_all : (forall s, labs_ok1 s) /\ (forall l, labs_okl l).
Proof.
  split.
  - apply sir_ind2 with (Q := labs_okl);
      auto using labs_ok_XI, labs_ok_XIf, labs_ok_XLoop, labs_ok_XUntil, labs_ok_nil, labs_ok_cons.
  - apply sirs_ind2 with (P := labs_ok1);
      auto using labs_ok_XI, labs_ok_XIf, labs_ok_XLoop, labs_ok_XUntil, labs_ok_nil, labs_ok_cons.
Qed.

Lemma flatten_labels_unique : forall l, NoDup (labs (flatten l)).
Proof.
  intro l. unfold flatten. destruct (flat 0 l) as [c b'] eqn:E.
  destruct (proj2 flat_labs_all _ _ _ _ E) as [_ H]. simpl. rewrite H. apply seq_NoDup.
Qed.

(* ------------------------------------------------------------------ positions in the code *)
Definition code_at (C : list fcmd) (pc : nat) (c : list fcmd) : Prop :=
  exists C1 C2, C = C1 ++ c ++ C2 /\ List.length C1 = pc.

Lemma code_at_app_l : forall C pc c1 c2, code_at C pc (c1 ++ c2) -> code_at C pc c1.
Proof.
  intros C pc c1 c2 (C1 & C2 & E & L). exists C1, (c2 ++ C2). split; [|exact L].
  rewrite E, <- app_assoc. reflexivity.
Qed.
Lemma code_at_app_r : forall C pc c1 c2, code_at C pc (c1 ++ c2) -> code_at C (pc + List.length c1) c2.
Proof.
  intros C pc c1 c2 (C1 & C2 & E & L). exists (C1 ++ c1), C2. split.
  - rewrite E, <- !app_assoc. reflexivity.
  - rewrite app_length. lia.
Qed.
Lemma code_at_head : forall C pc i c, code_at C pc (i :: c) -> nth_error C pc = Some i.
Proof.
  intros C pc i c (C1 & C2 & E & L). subst. rewrite nth_error_app2 by lia.
  replace (List.length C1 - List.length C1) with 0 by lia. reflexivity.
Qed.
Lemma code_at_tail : forall C pc i c, code_at C pc (i :: c) -> code_at C (S pc) c.
Proof.
  intros C pc i c H. change (i :: c) with ([i] ++ c) in H. apply code_at_app_r in H.
  simpl in H. replace (S pc) with (pc + 1) by lia. exact H.
Qed.

Lemma find_lab_skip : forall l C1 C2 k,
  ~ In l (labs C1) -> find_lab l (C1 ++ C2) k = find_lab l C2 (k + List.length C1).
Proof.
  induction C1 as [|x C1 IH]; intros C2 k H; simpl.
  - f_equal. lia.
  - destruct x; simpl in *; try (rewrite IH by auto; f_equal; lia).
    destruct (Nat.eqb l l0) eqn:E.
    + apply Nat.eqb_eq in E. subst. exfalso. apply H. left; reflexivity.
    + rewrite IH by (intro; apply H; right; assumption). f_equal. lia.
Qed.

Lemma find_lab_at : forall C pc l c,
  NoDup (labs C) -> code_at C pc (FLab l :: c) -> find_lab l C 0 = Some pc.
Proof.
  intros C pc l c ND (C1 & C2 & E & L). subst C.
  rewrite labs_app in ND. simpl in ND. apply NoDup_remove_2 in ND.
  rewrite find_lab_skip by (intro; apply ND; apply in_or_app; left; assumption).
  simpl. rewrite Nat.eqb_refl. f_equal. lia.
Qed.

(* ------------------------------------------------------------------ runs *)
Lemma fstar_trans : forall C a b c, fstar C a b -> fstar C b c -> fstar C a c.
Proof. intros C a b c H. induction H; intro H2; [exact H2|]. eapply fstar_step; eauto. Qed.
Lemma fstar_one : forall C a b, fstep C a = Some b -> fstar C a b.
Proof. intros. eapply fstar_step; eauto. apply fstar_refl. Qed.

Lemma run_instrs : forall C l pc s s',
  exec_instrs l s = Some s' -> code_at C pc (map FI l) -> fstar C (pc, s) (pc + List.length l, s').
Proof.
  intros C l. induction l as [|i l IH]; intros pc s s' H Hc; cbn [exec_instrs] in H.
  - inversion H; subst. cbn [List.length]. rewrite Nat.add_0_r. apply fstar_refl.
  - destruct (exec_instr i s) as [s1|] eqn:E; [|discriminate].
    cbn [map] in Hc. eapply fstar_step.
    + unfold fstep. rewrite (code_at_head _ _ _ _ Hc), E. reflexivity.
    + replace (pc + List.length (i :: l)) with (S pc + List.length l) by (simpl; lia).
      apply IH; [exact H|]. eapply code_at_tail; eauto.
Qed.

Lemma holds_flip : forall c a b, holds (flip c) a b = negb (holds c a b).
Proof.
  intros c a b. destruct c; cbn [holds flip].
  - reflexivity.
  - rewrite negb_involutive. reflexivity.
  - rewrite Z.geb_leb, Z.ltb_antisym, negb_involutive. reflexivity.
  - rewrite Z.geb_leb, Z.ltb_antisym. reflexivity.
  - reflexivity.
  - rewrite negb_involutive. reflexivity.
Qed.

Lemma holds_at_flip : forall c x y s v,
  holds_at c x y s = Some v -> holds_at (flip c) x y s = Some (negb v).
Proof.
  intros c x y s v H. unfold holds_at in *.
  destruct (rop_val s x) as [a|]; [|discriminate].
  assert (E : match flip c with CEz | CNz => Some 0%Z | _ => rop_val s y end =
              match c with CEz | CNz => Some 0%Z | _ => rop_val s y end) by (destruct c; reflexivity).
  rewrite E. destruct (match c with CEz | CNz => Some 0%Z | _ => rop_val s y end) as [b|]; [|discriminate].
  inversion H; subst. rewrite holds_flip. reflexivity.
Qed.

Section Correct.
  Variable C : list fcmd.
  Hypothesis ND : NoDup (labs C).

  Definition P_sx (body : list sir) (s s' : mst) : Prop :=
    forall b c b' pc, flat b body = (c, b') -> code_at C pc c -> fstar C (pc, s) (pc + List.length c, s').
  Definition P_sx1 (x : sir) (s s' : mst) : Prop :=
    forall b c b' pc, flat1 b x = (c, b') -> code_at C pc c -> fstar C (pc, s) (pc + List.length c, s').
  (* a loop in progress: control is at the entry label *)
  Definition P_loop (r : reg) (e st : Z) (body : list sir) (s s' : mst) : Prop :=
    forall a b cb b1 pc, flat (S b) body = (cb, b1) -> code_at C pc (loop_code r a e st b cb b1) ->
      fstar C (S pc, s) (pc + List.length (loop_code r a e st b cb b1), s').
  Definition P_until (r : reg) (mx : Z) (body : list sir) (pre : list instr) (x : rop) (lim : Z)
             (cl : list sir) (s s' : mst) : Prop :=
    forall b cb b1 cc b2 pc, flat (S b) body = (cb, b1) -> flat b1 cl = (cc, b2) ->
      code_at C pc (until_code r mx b cb pre x lim cc b2) ->
      fstar C (S pc, s) (pc + List.length (until_code r mx b cb pre x lim cc b2), s').

  Lemma step_at : forall pc i s st', nth_error C pc = Some i ->
    (fstep C (pc, s) = Some st') -> fstar C (pc, s) st'.
  Proof. intros. apply fstar_one. assumption. Qed.

  Theorem flat_correct_all :
    (forall body s s', sx body s s' -> P_sx body s s') /\
    (forall x s s', sx1 x s s' -> P_sx1 x s s') /\
    (forall r e st body s s', sxloop r e st body s s' -> P_loop r e st body s s') /\
    (forall r mx body pre x lim cl s s', sxuntil r mx body pre x lim cl s s' -> P_until r mx body pre x lim cl s s').
  Proof.
    apply sx_all_ind; unfold P_sx, P_sx1, P_loop, P_until.
    - (* nil *) intros s b c b' pc H _. simpl in H. inversion H; subst.
      replace (pc + List.length (@nil fcmd)) with pc by (simpl; lia). apply fstar_refl.
    - (* cons *) intros x r s s1 s2 _ IH1 _ IH2 b c b' pc H Hc. rewrite flat_cons in H.
      destruct (flat1 b x) as [c1 b1] eqn:E1. destruct (flat b1 r) as [c2 b2] eqn:E2.
      inversion H; subst. rewrite app_length.
      eapply fstar_trans; [eapply IH1; [exact E1|eapply code_at_app_l; eauto]|].
      replace (pc + (List.length c1 + List.length c2)) with ((pc + List.length c1) + List.length c2) by lia.
      eapply IH2; [exact E2|eapply code_at_app_r; eauto].
    - (* XI *) intros i s s' E b c b' pc H Hc. rewrite flat1_XI in H. inversion H; subst.
      apply fstar_one. unfold fstep. rewrite (code_at_head _ _ _ _ Hc), E. simpl.
      replace (pc + 1) with (S pc) by lia. reflexivity.
    - (* If true *) intros pre c x y body s s1 s2 Hp Hh _ IH b code b' pc H Hc. rewrite flat1_XIf in H.
      destruct (flat b body) as [cb b1] eqn:E. inversion H; subst. unfold if_code in *.
      eapply fstar_trans; [eapply run_instrs; [exact Hp|eapply code_at_app_l; eauto]|].
      apply code_at_app_r in Hc. rewrite map_length in Hc.
      eapply fstar_step.
      { unfold fstep. rewrite (code_at_head _ _ _ _ Hc). rewrite (holds_at_flip _ _ _ _ _ Hh). reflexivity. }
      apply code_at_tail in Hc.
      eapply fstar_trans; [eapply IH; [exact E|eapply code_at_app_l; eauto]|].
      apply code_at_app_r in Hc.
      apply fstar_one. unfold fstep. rewrite (code_at_head _ _ _ _ Hc).
      rewrite !app_length, map_length. simpl. f_equal. f_equal. lia.
    - (* If false *) intros pre c x y body s s1 Hp Hh b code b' pc H Hc. rewrite flat1_XIf in H.
      destruct (flat b body) as [cb b1] eqn:E. inversion H; subst. unfold if_code in *.
      eapply fstar_trans; [eapply run_instrs; [exact Hp|eapply code_at_app_l; eauto]|].
      apply code_at_app_r in Hc. rewrite map_length in Hc.
      assert (Hl : code_at C (S (pc + List.length pre) + List.length cb) [FLab b1]).
      { apply code_at_tail in Hc. apply code_at_app_r in Hc. exact Hc. }
      eapply fstar_step.
      { unfold fstep. rewrite (code_at_head _ _ _ _ Hc). rewrite (holds_at_flip _ _ _ _ _ Hh). cbn [negb].
        rewrite (find_lab_at _ _ _ _ ND Hl). reflexivity. }
      apply fstar_one. unfold fstep. rewrite (code_at_head _ _ _ _ Hl).
      rewrite !app_length, map_length. simpl. f_equal. f_equal. lia.
    - (* Loop *) intros r a e st body s s' _ IH b code b' pc H Hc. rewrite flat1_XLoop in H.
      destruct (flat (S b) body) as [cb b1] eqn:E. inversion H; subst.
      eapply fstar_step.
      { unfold fstep. unfold loop_code in Hc. rewrite (code_at_head _ _ _ _ Hc). cbn [exec_instr]. reflexivity. }
      eapply IH; eauto.
    - (* Until *) intros r mx body pre x lim cl s s' _ IH b code b' pc H Hc. rewrite flat1_XUntil in H.
      destruct (flat (S b) body) as [cb b1] eqn:E1. destruct (flat b1 cl) as [cc b2] eqn:E2. inversion H; subst.
      eapply fstar_step.
      { unfold fstep. unfold until_code in Hc. rewrite (code_at_head _ _ _ _ Hc). cbn [exec_instr]. reflexivity. }
      eapply IH; eauto.
    - (* loop done *) intros r e st body s Hr a b cb b1 pc E Hc. unfold loop_code in *.
      assert (H1 := code_at_tail _ _ _ _ Hc). assert (H2 := code_at_tail _ _ _ _ H1).
      assert (Hl : code_at C (S (S (S pc)) + List.length cb + 2) [FLab b1]).
      { apply code_at_tail in H2. apply code_at_app_r in H2.
        apply code_at_tail in H2. apply code_at_tail in H2.
        replace (S (S (S pc)) + List.length cb + 2) with (S (S (S (S (S pc)) + List.length cb))) by lia. exact H2. }
      eapply fstar_step. { unfold fstep. rewrite (code_at_head _ _ _ _ H1). reflexivity. }
      eapply fstar_step.
      { unfold fstep. rewrite (code_at_head _ _ _ _ H2). unfold holds_at. cbn [rop_val]. rewrite Hr.
        cbn [holds]. rewrite Z.eqb_refl. rewrite (find_lab_at _ _ _ _ ND Hl). reflexivity. }
      apply fstar_one. unfold fstep. rewrite (code_at_head _ _ _ _ Hl).
      rewrite !app_length. simpl. f_equal. f_equal. lia.
    - (* loop step *) intros r e st body s s1 s2 v v1 Hr Hne _ IHb Hr1 _ IHl a b cb b1 pc E Hc.
      assert (Hc0 := Hc). unfold loop_code in Hc.
      assert (H1 := code_at_tail _ _ _ _ Hc). assert (H2 := code_at_tail _ _ _ _ H1).
      assert (H3 := code_at_tail _ _ _ _ H2).
      eapply fstar_step. { unfold fstep. rewrite (code_at_head _ _ _ _ H1). reflexivity. }
      eapply fstar_step.
      { unfold fstep. rewrite (code_at_head _ _ _ _ H2). unfold holds_at. cbn [rop_val]. rewrite Hr.
        cbn [holds]. destruct (Z.eqb_spec v e) as [->|_]; [contradiction|]. reflexivity. }
      eapply fstar_trans; [eapply IHb; [exact E|eapply code_at_app_l; eauto]|].
      apply code_at_app_r in H3.
      eapply fstar_step.
      { unfold fstep. rewrite (code_at_head _ _ _ _ H3). cbn [exec_instr rop_val]. rewrite Hr1. reflexivity. }
      apply code_at_tail in H3.
      eapply fstar_step.
      { unfold fstep. rewrite (code_at_head _ _ _ _ H3). rewrite (find_lab_at _ _ _ _ ND H1). reflexivity. }
      eapply IHl; eauto.
    - (* until: maximum reached *) intros r mx body pre x lim cl s Hr b cb b1 cc b2 pc E1 E2 Hc.
      unfold until_code in *.
      assert (H1 := code_at_tail _ _ _ _ Hc). assert (H2 := code_at_tail _ _ _ _ H1).
      assert (Hl : code_at C (S (S (S pc)) + List.length cb + List.length pre + 1 + List.length cc + 2) [FLab b2]).
      { apply code_at_tail in H2. apply code_at_app_r in H2. apply code_at_app_r in H2. rewrite map_length in H2.
        apply code_at_tail in H2. apply code_at_app_r in H2. apply code_at_tail in H2. apply code_at_tail in H2.
        match goal with H : code_at C ?p _ |- code_at C ?q _ => replace q with p by lia end. exact H2. }
      eapply fstar_step. { unfold fstep. rewrite (code_at_head _ _ _ _ H1). reflexivity. }
      eapply fstar_step.
      { unfold fstep. rewrite (code_at_head _ _ _ _ H2). unfold holds_at. cbn [rop_val]. rewrite Hr.
        cbn [holds]. rewrite Z.eqb_refl. rewrite (find_lab_at _ _ _ _ ND Hl). reflexivity. }
      apply fstar_one. unfold fstep. rewrite (code_at_head _ _ _ _ Hl).
      rewrite !app_length, map_length. simpl. f_equal. f_equal. lia.
    - (* until: exit condition met *)
      intros r mx body pre x lim cl s s1 s2 v w Hr Hne _ IHb Hp Hx Hlt b cb b1 cc b2 pc E1 E2 Hc.
      unfold until_code in *.
      assert (H1 := code_at_tail _ _ _ _ Hc). assert (H2 := code_at_tail _ _ _ _ H1).
      assert (H3 := code_at_tail _ _ _ _ H2).
      assert (Hl : code_at C (S (S (S pc)) + List.length cb + List.length pre + 1 + List.length cc + 2) [FLab b2]).
      { assert (H4 := H3). apply code_at_app_r in H4. apply code_at_app_r in H4. rewrite map_length in H4.
        apply code_at_tail in H4. apply code_at_app_r in H4. apply code_at_tail in H4. apply code_at_tail in H4.
        match goal with H : code_at C ?p _ |- code_at C ?q _ => replace q with p by lia end. exact H4. }
      eapply fstar_step. { unfold fstep. rewrite (code_at_head _ _ _ _ H1). reflexivity. }
      eapply fstar_step.
      { unfold fstep. rewrite (code_at_head _ _ _ _ H2). unfold holds_at. cbn [rop_val]. rewrite Hr.
        cbn [holds]. destruct (Z.eqb_spec v mx) as [->|_]; [contradiction|]. reflexivity. }
      eapply fstar_trans; [eapply IHb; [exact E1|eapply code_at_app_l; eauto]|].
      apply code_at_app_r in H3.
      eapply fstar_trans; [eapply run_instrs; [exact Hp|eapply code_at_app_l; eauto]|].
      apply code_at_app_r in H3. rewrite map_length in H3.
      eapply fstar_step.
      { unfold fstep. rewrite (code_at_head _ _ _ _ H3). unfold holds_at. rewrite Hx. cbn [rop_val holds].
        rewrite Hlt. rewrite (find_lab_at _ _ _ _ ND Hl). reflexivity. }
      apply fstar_one. unfold fstep. rewrite (code_at_head _ _ _ _ Hl).
      rewrite !app_length, map_length. simpl. f_equal. f_equal. lia.
    - (* until: another round *)
      intros r mx body pre x lim cl s s1 s2 s3 s4 v w v3 Hr Hne _ IHb Hp Hx Hlt _ IHc Hr3 _ IHu
             b cb b1 cc b2 pc E1 E2 Hc.
      assert (Hc0 := Hc). unfold until_code in Hc.
      assert (H1 := code_at_tail _ _ _ _ Hc). assert (H2 := code_at_tail _ _ _ _ H1).
      assert (H3 := code_at_tail _ _ _ _ H2).
      eapply fstar_step. { unfold fstep. rewrite (code_at_head _ _ _ _ H1). reflexivity. }
      eapply fstar_step.
      { unfold fstep. rewrite (code_at_head _ _ _ _ H2). unfold holds_at. cbn [rop_val]. rewrite Hr.
        cbn [holds]. destruct (Z.eqb_spec v mx) as [->|_]; [contradiction|]. reflexivity. }
      eapply fstar_trans; [eapply IHb; [exact E1|eapply code_at_app_l; eauto]|].
      apply code_at_app_r in H3.
      eapply fstar_trans; [eapply run_instrs; [exact Hp|eapply code_at_app_l; eauto]|].
      apply code_at_app_r in H3. rewrite map_length in H3.
      eapply fstar_step.
      { unfold fstep. rewrite (code_at_head _ _ _ _ H3). unfold holds_at. rewrite Hx. cbn [rop_val holds].
        rewrite Hlt. reflexivity. }
      apply code_at_tail in H3.
      eapply fstar_trans; [eapply IHc; [exact E2|eapply code_at_app_l; eauto]|].
      apply code_at_app_r in H3.
      eapply fstar_step.
      { unfold fstep. rewrite (code_at_head _ _ _ _ H3). cbn [exec_instr rop_val]. rewrite Hr3. reflexivity. }
      apply code_at_tail in H3.
      eapply fstar_step.
      { unfold fstep. rewrite (code_at_head _ _ _ _ H3). rewrite (find_lab_at _ _ _ _ ND H1). reflexivity. }
      eapply IHu; eauto.
  Qed.
End Correct.

(* a run that reaches the end of the code is found by the executable interpreter *)
Lemma fstar_frun : forall C st st', fstar C st st' -> fst st' = List.length C ->
  exists fuel, frun fuel C st = Some (snd st').
Proof.
  intros C st st' H. induction H as [st|st st1 st2 Hs _ IH]; intro E.
  - exists 1. simpl. rewrite E, Nat.eqb_refl. reflexivity.
  - destruct (IH E) as [f Hf]. exists (S f). cbn [frun].
    destruct (Nat.eqb (fst st) (List.length C)) eqn:Eq.
    + apply Nat.eqb_eq in Eq. destruct st as [pc s]. simpl in Eq. unfold fstep in Hs.
      assert (N : nth_error C pc = None) by (apply nth_error_None; lia). rewrite N in Hs. discriminate.
    + rewrite Hs. exact Hf.
Qed.

(* flatten_correct: whatever the structured code does in a terminating run, the
   flattened code does, for arbitrary nesting *)
Theorem flatten_correct : forall body s s',
  sx body s s' ->
  fstar (flatten body) (0, s) (List.length (flatten body), s') /\
  exists fuel, frun fuel (flatten body) (0, s) = Some s'.
Proof.
  intros body s s' H.
  assert (F : fstar (flatten body) (0, s) (List.length (flatten body), s')).
  { unfold flatten. destruct (flat 0 body) as [c b'] eqn:E. simpl.
    assert (ND : NoDup (labs c)).
    { destruct (proj2 flat_labs_all _ _ _ _ E) as [_ L]. rewrite L. apply seq_NoDup. }
    apply (proj1 (flat_correct_all c ND) body s s' H 0 c b' 0 E).
    exists [], []. rewrite app_nil_r. auto. }
  split; [exact F|]. apply (fstar_frun _ _ _ F). reflexivity.
Qed.
