From Coq Require Import ZArith List Bool String Lia.
From NQ Require Import Base.Bits Proofs.BitsProofs Lang.Codec Proofs.CodecProofs Lang.MsgCodec.
Import ListNotations.
Open Scope Z_scope.

Lemma lookup_type_nodup t c :
  nodup_z (map mc_type t) = true -> In c t -> lookup_type t (mc_type c) = Some c.
Proof.
  induction t as [|x t IH]; cbn [map nodup_z lookup_type In]; [tauto|].
  rewrite andb_true_iff, negb_true_iff. intros [Hx Hnd] [->|Hin].
  - now rewrite Z.eqb_refl.
  - destruct (Z.eqb_spec (mc_type x) (mc_type c)) as [E|NE]; [|auto].
    exfalso. rewrite <- not_true_iff_false in Hx. apply Hx.
    apply existsb_exists. exists (mc_type c). split.
    + now apply in_map.
    + now apply Z.eqb_eq.
Qed.

Lemma dec_enc_opts af vals rest :
  arrfmt_ok af = true -> forallb (opt_fits af) vals = true ->
  dec_opts af (List.length vals) (List.concat (map (enc_opt af) vals) ++ rest) = Some vals.
Proof.
  unfold arrfmt_ok. rewrite !andb_true_iff.
  intros [[[[[[Hh Hh2] Ho] Ho2] Hne] Hfn] Hfi].
  induction vals as [|v vals IH]; intros Hfit; [reflexivity|].
  cbn [forallb] in Hfit. apply andb_true_iff in Hfit as [Hv Hfit].
  cbn [List.length map List.concat dec_opts]. rewrite <- app_assoc.
  assert (Hlen : List.length (enc_opt af v) = a_opt_bytes af)
    by (destruct v; apply length_to_bytes).
  assert (Hlt : Nat.ltb (List.length (enc_opt af v ++ List.concat (map (enc_opt af) vals) ++ rest))
                        (a_opt_bytes af) = false)
    by (apply Nat.ltb_ge; rewrite app_length; lia).
  rewrite Hlt, firstn_app_exact, skipn_app_exact by assumption.
  pose proof (wf_layout_ok _ _ Ho) as Hok.
  apply negb_true_iff in Hne.
  destruct v as [x|]; cbn [enc_opt].
  - rewrite unpack_of_to_bytes by assumption.
    rewrite (unpack_pack _ _ _ Ho) by exact Hv.
    rewrite Z.eqb_sym, Hne, Z.eqb_refl, (IH Hfit). reflexivity.
  - rewrite unpack_of_to_bytes by assumption.
    rewrite (unpack_pack _ _ _ Ho) by exact Hfn.
    rewrite Z.eqb_refl, (IH Hfit). reflexivity.
Qed.

Lemma decode_fixed af t r bs :
  hd_error bs = Some (m_type r) -> lookup_type t (m_type r) = Some (MFixed r) ->
  decode_msg af t bs =
  if Nat.ltb (List.length bs) (m_bytes r) then None else
  match unpack (m_layout r) (of_bytes (firstn (m_bytes r) bs)) with
  | _ :: vals => Some (Fixed r vals)
  | [] => None
  end.
Proof.
  destruct bs as [|b bs]; cbn [hd_error]; [discriminate|].
  intros [= ->] Hlk. cbn [decode_msg]. now rewrite Hlk.
Qed.

(* C15: every message of a well-formed table deserialises from its own bytes to
   the same message *)
Theorem decode_encode_msg af t m :
  arrfmt_ok af = true -> wf_mtable t = true -> In (msg_class m) t ->
  msg_in_range af m = true ->
  decode_msg af t (encode_msg af m) = Some m.
Proof.
  intros Haf Hwf Hin Hfit. unfold wf_mtable in Hwf. apply andb_true_iff in Hwf as [Hnd Hall].
  rewrite forallb_forall in Hall. specialize (Hall _ Hin).
  pose proof (lookup_type_nodup t _ Hnd Hin) as Hlk.
  destruct m as [r vals|n ty body|n ty addr vals]; cbn [msg_class mc_type] in *.
  - (* fixed-size *)
    cbn [mclass_ok] in Hall. unfold mrow_ok in Hall.
    rewrite !andb_true_iff in Hall. destruct Hall as [[[Hl Hty] _] _].
    destruct (m_layout r) as [|f l] eqn:El; [discriminate|].
    apply field_eqb_eq in Hty. subst f.
    cbn [msg_in_range] in Hfit. rewrite El in Hfit.
    set (N := pack (type_field :: l) (m_type r :: vals)).
    assert (Hun : unpack (type_field :: l) N = m_type r :: vals)
      by (apply (unpack_pack (8 * Z.of_nat (m_bytes r))); assumption).
    assert (Hhd : Z.land N 255 = m_type r).
    { change type_field with id_field in Hun. rewrite <- get_id_field. now inversion Hun. }
    cbn [encode_msg]. rewrite El. fold N.
    assert (Hpos : (0 < m_bytes r)%nat).
    { unfold wf_layout in Hl. apply andb_true_iff in Hl as [Hl' _].
      cbn [forallb] in Hl'. apply andb_true_iff in Hl' as [Hl' _].
      apply field_ok_inv in Hl'. unfold type_field in Hl'. cbn [f_pos f_width] in Hl'. lia. }
    assert (Hhe : hd_error (to_bytes (m_bytes r) N) = Some (m_type r)).
    { destruct (m_bytes r); [lia|]. cbn [to_bytes hd_error]. now rewrite Hhd. }
    rewrite (decode_fixed af t r) by assumption.
    rewrite length_to_bytes, Nat.ltb_irrefl.
    rewrite <- (length_to_bytes (m_bytes r) N) at 1. rewrite firstn_all.
    rewrite El.
    rewrite unpack_of_to_bytes by (apply wf_layout_ok; exact Hl).
    rewrite Hun. reflexivity.
  - (* subroutine message *)
    cbn [encode_msg decode_msg]. now rewrite Hlk.
  - (* returned array *)
    pose proof Haf as Haf'. unfold arrfmt_ok in Haf'. rewrite !andb_true_iff in Haf'.
    destruct Haf' as [[[[[[Hh Hh2] _] _] _] _] _].
    cbn [msg_in_range] in Hfit. apply andb_true_iff in Hfit as [Hfh Hfv].
    cbn [encode_msg decode_msg]. rewrite Hlk.
    set (hb := to_bytes (a_hdr_bytes af) (pack (a_hdr af) [addr; Z.of_nat (List.length vals)])).
    assert (Hhb : List.length hb = a_hdr_bytes af) by apply length_to_bytes.
    assert (Hlt : Nat.ltb (List.length (hb ++ List.concat (map (enc_opt af) vals))) (a_hdr_bytes af) = false)
      by (apply Nat.ltb_ge; rewrite app_length; lia).
    rewrite Hlt, firstn_app_exact, skipn_app_exact by assumption.
    unfold hb. rewrite unpack_of_to_bytes by (apply wf_layout_ok; exact Hh).
    rewrite (unpack_pack _ _ _ Hh Hfh).
    destruct (Z.ltb_spec (Z.of_nat (List.length vals)) 0) as [Hneg|_]; [lia|].
    rewrite Nat2Z.id.
    rewrite <- (app_nil_r (List.concat (map (enc_opt af) vals))).
    rewrite dec_enc_opts by assumption. reflexivity.
Qed.
