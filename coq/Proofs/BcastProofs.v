(* Proofs/BcastProofs.v — the broadcast channel (Net/Bcast.v: one endpoint owning several
   sockets of the hub of Net/Hub.v).  Every statement holds for every schedule of every
   length, any number of parties and any remote lists.

   hreach      hub states reachable when idle threads may be handed new ops (inject); all hub
               invariants of HubProofs.v carry over (their step lemmas + trivial inject lemmas)
   binv        hub reachable + layout of the parties never changes (disjoint socket ranges)
               + ctrl: every endpoint has at most one socket with an op in progress
   acc         what an endpoint returned with tag b = the RMsg results of its socket for b
   slog        what an endpoint logged as sent on socket i = what was appended for that peer *)
From Coq Require Import List Arith Bool PeanoNat Lia.
From NQ Require Import Net.Hub Net.Bcast Proofs.HubProofs.
Import ListNotations.


(* ------------------------------------------------------------------ part 1 *)
(* ---- threads after an injection *)
Lemma nth_upd_th_gen : forall f t l n,
  nth_error (upd_th f t l) n =
  if Nat.eqb n t then option_map f (nth_error l t) else nth_error l n.
Proof.
  intros f t l n. unfold upd_th. destruct (nth_error l t) as [y|] eqn:E.
  - destruct (Nat.eqb n t) eqn:En.
    + apply Nat.eqb_eq in En; subst. erewrite nth_set_nth_eq; eauto.
    + apply Nat.eqb_neq in En. apply nth_set_nth_neq. auto.
  - destruct (Nat.eqb n t) eqn:En; auto. apply Nat.eqb_eq in En; subst. simpl. auto.
Qed.

Definition inj_th (o : op) (x : thread) : thread :=
  mkT (t_key x) (t_cb x) [o] P0 (t_out x) (t_store x) (t_lost x).

Lemma inject_threads : forall s t o n,
  nth_error (s_th (inject s t o)) n =
  if Nat.eqb n t then option_map (inj_th o) (nth_error (s_th s) t) else nth_error (s_th s) n.
Proof. intros. unfold inject. simpl. apply nth_upd_th_gen. Qed.

(* hub states reachable when idle threads may be handed new ops *)
Inductive hreach (hcfg : cfg_t) : state -> Prop :=
| hr_init : hreach hcfg (init hcfg)
| hr_step : forall s t l s', hreach hcfg s -> stepl Fixed s t = Some (l, s') -> hreach hcfg s'
| hr_inj : forall s t th o, hreach hcfg s -> nth_error (s_th s) t = Some th ->
             t_ops th = [] -> t_pc th = P0 -> hreach hcfg (inject s t o).

Lemma inject_missing : forall s t o, nth_error (s_th s) t = None -> inject s t o = s.
Proof. intros s t o H. unfold inject, upd_th. rewrite H. destruct s; reflexivity. Qed.

(* the thread seen after an injection, case analysis *)
Lemma inject_cases : forall s t o n x,
  nth_error (s_th (inject s t o)) n = Some x ->
  (n = t /\ exists y, nth_error (s_th s) t = Some y /\ x = inj_th o y) \/
  (n <> t /\ nth_error (s_th s) n = Some x).
Proof.
  intros s t o n x H. rewrite inject_threads in H. destruct (Nat.eqb n t) eqn:E.
  - apply Nat.eqb_eq in E; subst. left. split; auto.
    destruct (nth_error (s_th s) t); simpl in H; inversion H; eauto.
  - apply Nat.eqb_neq in E. right. auto.
Qed.

Lemma inv_lock_inject : forall s t th o,
  inv_lock s -> nth_error (s_th s) t = Some th -> t_pc th = P0 -> inv_lock (inject s t o).
Proof.
  intros s t th o [Iok Ih Il] Ht Hpc. split.
  - intros n x Hx. destruct (inject_cases _ _ _ _ _ Hx) as [[-> (y & Hy & ->)]|[Hne Hx']]; eauto.
  - intros n x Hx Hh. destruct (inject_cases _ _ _ _ _ Hx) as [[-> (y & Hy & ->)]|[Hne Hx']].
    + discriminate.
    + exact (Ih _ _ Hx' Hh).
  - intros n Hl. destruct (Il _ Hl) as (y & Hy & Hh).
    assert (n <> t). { intros ->. rewrite Ht in Hy; inversion Hy; subst. unfold holds in Hh. rewrite Hpc in Hh. discriminate. }
    exists y. split; auto. rewrite inject_threads. apply Nat.eqb_neq in H. rewrite H. exact Hy.
Qed.

Lemma hreach_inv_lock : forall hcfg s, hreach hcfg s -> inv_lock s.
Proof.
  intros hcfg s R. induction R.
  - apply inv_lock_init.
  - eapply inv_lock_step; eauto.
  - eapply inv_lock_inject; eauto.
Qed.

Lemma hreach_inv_q : forall hcfg s, hreach hcfg s -> inv_q s.
Proof.
  intros hcfg s R. induction R.
  - apply inv_q_init.
  - eapply inv_q_step; eauto.
  - exact IHR.
Qed.

Lemma hreach_inv_keys : forall hcfg s, hreach hcfg s -> inv_keys hcfg s.
Proof.
  intros hcfg s R. induction R.
  - intros n x H. apply init_thread in H. destruct H as ([[k cb] ops] & Hc & ->). eexists; split; eauto.
  - intros n x Hx. destruct (step_threads _ _ _ _ _ _ _ H Hx) as (th & th' & evs & Ht & Hn & Hc).
    destruct Hc as [[-> Hc]|[Hne (y & Hy & Hc)]]; apply ctl_kc in Hc; destruct Hc as (Hk & Hb & _).
    + destruct (IHR _ _ Ht) as (c & Hc & K1 & K2). destruct (next_keeps _ _ _ _ _ Hn) as [N1 N2].
      exists c. split; auto. split; congruence.
    + destruct (IHR _ _ Hy) as (c & Hc & K1 & K2). exists c. split; auto. split; congruence.
  - intros n x Hx. destruct (inject_cases _ _ _ _ _ Hx) as [[-> (y & Hy & ->)]|[Hne Hx']]; eauto.
    destruct (IHR _ _ Hy) as (c & Hc & K1 & K2). exists c. auto.
Qed.

Lemma inv_cb_inject : forall s t o, inv_cb s -> inv_cb (inject s t o).
Proof.
  intros s t o [It Ic Ie].
  assert (FW : forall k tg, (exists x, nth_error (s_th s) tg = Some x /\ t_key x = k /\ t_cb x = true) ->
                            exists x, nth_error (s_th (inject s t o)) tg = Some x /\ t_key x = k /\ t_cb x = true).
  { intros k tg (x & Hx & K1 & K2). rewrite inject_threads. destruct (Nat.eqb tg t) eqn:E.
    - apply Nat.eqb_eq in E; subst. rewrite Hx. simpl. eexists; split; eauto.
    - eauto. }
  split.
  - intros k tg Hg. apply FW. apply It. exact Hg.
  - intros n x tg Hx Hpc. destruct (inject_cases _ _ _ _ _ Hx) as [[-> (y & Hy & ->)]|[Hne Hx']].
    + discriminate.
    + apply FW. eapply Ic; eauto.
  - intros k m Hin. destruct (Ie _ _ Hin) as (n & x & Hx & K1 & K2).
    destruct (FW k n) as (x' & Hx' & E1 & E2); eauto.
Qed.

Lemma hreach_inv_cb : forall hcfg s, hreach hcfg s -> inv_cb s.
Proof.
  intros hcfg s R. induction R.
  - apply inv_cb_init.
  - eapply inv_cb_step; eauto. eapply hreach_inv_lock; eauto.
  - apply inv_cb_inject; auto.
Qed.

Lemma hreach_inv_hist : forall hcfg s, hreach hcfg s -> inv_hist s.
Proof.
  intros hcfg s R. induction R.
  - split; intros; simpl in *; destruct tr2; discriminate.
  - eapply inv_hist_step; eauto. eapply hreach_inv_q; eauto.
  - destruct IHR as [A B]. split; [exact A | exact B].
Qed.

(* all sockets plain: no callback delivery ever *)
Definition all_plain (hcfg : cfg_t) : Prop := forall c, In c hcfg -> snd (fst c) = false.

Lemma hreach_nocb : forall hcfg s k, all_plain hcfg -> hreach hcfg s -> forall m, ~ In (ECb k m) (s_tr s).
Proof.
  intros hcfg s k Hp R m Hin.
  destruct (icb_e _ (hreach_inv_cb _ _ R) _ _ Hin) as (n & x & Hx & K1 & K2).
  destruct (hreach_inv_keys _ _ R _ _ Hx) as (c & Hc & E1 & E2).
  apply nth_error_In in Hc. rewrite (Hp c Hc) in E2. congruence.
Qed.

Lemma hreach_fifo : forall hcfg s k, all_plain hcfg -> hreach hcfg s ->
  sent_log k (s_tr s) = recv_log k (s_tr s) ++ qget k (s_q s).
Proof.
  intros hcfg s k Hp R.
  destruct (nocb_logs_tr k (s_tr s) (hreach_nocb _ _ k Hp R)) as [-> ->].
  apply (hreach_inv_q _ _ R).
Qed.


(* ------------------------------------------------------------------ part 2 *)
Definition hcfg_of (cfg : list pcfg) : cfg_t := flat_map hub_threads cfg.

Inductive breach (cfg : list pcfg) : bstate -> Prop :=
| br_init : breach cfg (binit cfg)
| br_step : forall s p l s', breach cfg s -> bstep s p = Some (l, s') -> breach cfg s'.

Lemma brun_labels_reach : forall cfg sch s, breach cfg s -> breach cfg (snd (brun_labels s sch)).
Proof.
  intros cfg sch. induction sch as [|p r IH]; intros s R; simpl; auto.
  destruct (bstep s p) as [[l s']|] eqn:E; auto.
  specialize (IH s' (br_step _ _ _ _ _ R E)). destruct (brun_labels s' r). exact IH.
Qed.
Lemma breach_run : forall cfg sch, breach cfg (brun (binit cfg) sch).
Proof. intros. apply brun_labels_reach. constructor. Qed.

(* ---- which hub threads a party owns; never changes *)
Definition owns (x : party) (t : nat) : Prop :=
  match x with
  | PB e => e_base e <= t < e_base e + List.length (e_remotes e)
  | PRaw t0 => t = t0
  end.
Definition same_layout (x y : party) : Prop :=
  match x, y with
  | PB e, PB e' => e_app e = e_app e' /\ e_remotes e = e_remotes e' /\ e_base e = e_base e'
  | PRaw t, PRaw t' => t = t'
  | _, _ => False
  end.
Lemma same_layout_refl : forall x, same_layout x x.
Proof. intros [e|t]; simpl; auto. Qed.
Lemma same_layout_owns : forall x y t, same_layout x y -> owns x t -> owns y t.
Proof.
  intros [e|t0] [e'|t0'] t H; simpl in *; try contradiction.
  - destruct H as (_ & H1 & H2). rewrite H1, H2. auto.
  - intros; subst; auto.
Qed.
Lemma same_layout_trans : forall x y z, same_layout x y -> same_layout y z -> same_layout x z.
Proof.
  intros [e|t] [e'|t'] [e''|t''] H1 H2; simpl in *; try contradiction; try congruence.
  destruct H1 as (A & B & C), H2 as (A' & B' & C'). repeat split; congruence.
Qed.

Lemma mk_parties_owns_ge : forall cfg base p x t,
  nth_error (mk_parties base cfg) p = Some x -> owns x t -> base <= t.
Proof.
  induction cfg as [|c cfg IH]; intros base p x t H Ho; simpl in H.
  - destruct p; discriminate.
  - destruct c as [a rs ops|k ops]; destruct p as [|p]; simpl in H.
    + inversion H; subst. simpl in Ho. lia.
    + pose proof (IH _ _ _ _ H Ho). lia.
    + inversion H; subst. simpl in Ho. lia.
    + pose proof (IH _ _ _ _ H Ho). lia.
Qed.

Lemma mk_parties_disjoint : forall cfg base p p' x x' t,
  nth_error (mk_parties base cfg) p = Some x -> nth_error (mk_parties base cfg) p' = Some x' ->
  p <> p' -> owns x t -> owns x' t -> False.
Proof.
  induction cfg as [|c cfg IH]; intros base p p' x x' t H H' Hne Ho Ho'; simpl in H, H'.
  - destruct p; discriminate.
  - destruct c as [a rs ops|k ops]; destruct p as [|p]; destruct p' as [|p']; simpl in H, H'; try congruence.
    + inversion H; subst. simpl in Ho. pose proof (mk_parties_owns_ge _ _ _ _ _ H' Ho'). lia.
    + inversion H'; subst. simpl in Ho'. pose proof (mk_parties_owns_ge _ _ _ _ _ H Ho). lia.
    + assert (p <> p') by congruence. eapply IH; eauto.
    + inversion H; subst. simpl in Ho. pose proof (mk_parties_owns_ge _ _ _ _ _ H' Ho'). lia.
    + inversion H'; subst. simpl in Ho'. pose proof (mk_parties_owns_ge _ _ _ _ _ H Ho). lia.
    + assert (p <> p') by congruence. eapply IH; eauto.
Qed.

(* the hub thread behind socket i of an endpoint created by mk_parties *)
Lemma mk_parties_socket : forall cfg base p e i,
  nth_error (mk_parties base cfg) p = Some (PB e) -> i < List.length (e_remotes e) ->
  base <= e_base e /\
  nth_error (hcfg_of cfg) (e_base e + i - base) = Some ((e_app e, nth i (e_remotes e) 0, 0), false, []).
Proof.
  induction cfg as [|c cfg IH]; intros base p e i H Hi; simpl in H.
  - destruct p; discriminate.
  - destruct c as [a rs ops|k ops]; destruct p as [|p]; simpl in H.
    + inversion H; subst. simpl in *. split; [lia|].
      replace (base + i - base) with i by lia. unfold hcfg_of. simpl.
      rewrite nth_error_app1 by (rewrite map_length; exact Hi).
      rewrite nth_error_map. rewrite (nth_error_nth' rs 0 Hi). reflexivity.
    + destruct (IH _ _ _ _ H Hi) as [G1 G2]. split; [lia|].
      unfold hcfg_of. simpl. rewrite nth_error_app2 by (rewrite map_length; lia).
      rewrite map_length. replace (e_base e + i - base - length rs) with (e_base e + i - (base + length rs)) by lia.
      exact G2.
    + discriminate.
    + destruct (IH _ _ _ _ H Hi) as [G1 G2]. split; [lia|].
      unfold hcfg_of. simpl. replace (e_base e + i - base) with (S (e_base e + i - S base)) by lia. exact G2.
Qed.


(* ------------------------------------------------------------------ part 3 *)
Definition sock (e : endpoint) (i : nat) : nat := e_base e + i.
Definition nrem (e : endpoint) : nat := List.length (e_remotes e).

(* the controller and its sockets fit together (the active socket may have just finished) *)
Record ctrl (h : state) (e : endpoint) : Prop := {
  c_idle : forall i th, i < nrem e -> e_cur e <> Some i ->
             nth_error (s_th h) (sock e i) = Some th -> t_ops th = [];
  c_cur : forall i, e_cur e = Some i -> i < nrem e /\ exists o rest, e_ops e = o :: rest /\
             forall th, nth_error (s_th h) (sock e i) = Some th -> t_ops th = [sop o] \/ t_ops th = [] }.

Definition agree_on (e : endpoint) (h h' : state) : Prop :=
  forall i, i < nrem e -> nth_error (s_th h') (sock e i) = nth_error (s_th h) (sock e i).

Lemma ctrl_agree : forall e h h', agree_on e h h' -> ctrl h e -> ctrl h' e.
Proof.
  intros e h h' A [C1 C2]. split.
  - intros i th Hi Hc Hth. rewrite (A i Hi) in Hth. eauto.
  - intros i Hc. destruct (C2 i Hc) as (Hi & o & rest & Ho & Hth). split; auto.
    exists o, rest. split; auto. intros th H. rewrite (A i Hi) in H. auto.
Qed.

Lemma agree_refl : forall e h, agree_on e h h.
Proof. intros e h i Hi. reflexivity. Qed.
Lemma agree_trans : forall e h1 h2 h3, agree_on e h1 h2 -> agree_on e h2 h3 -> agree_on e h1 h3.
Proof. intros e h1 h2 h3 A B i Hi. rewrite (B i Hi). apply A; auto. Qed.

Lemma agree_inject : forall e h t o, (forall i, i < nrem e -> sock e i <> t) -> agree_on e h (inject h t o).
Proof.
  intros e h t o H i Hi. rewrite inject_threads. specialize (H i Hi). apply Nat.eqb_neq in H. rewrite H. reflexivity.
Qed.

Lemma ops_after_step : forall s th l th' evs,
  next Fixed s th = Some (l, th', evs) -> t_ops th' = t_ops th \/ t_ops th' = tl (t_ops th).
Proof. exact ne_ops. Qed.

(* a step of the active socket *)
Lemma ctrl_step_own : forall h e i l h',
  ctrl h e -> e_cur e = Some i -> stepl Fixed h (sock e i) = Some (l, h') -> ctrl h' e.
Proof.
  intros h e i l h' [C1 C2] Hc H. split.
  - intros j th Hj Hne Hth.
    assert (Hji : sock e j <> sock e i) by (unfold sock; intros E; apply Hne; rewrite Hc; f_equal; lia).
    destruct (step_threads _ _ _ _ _ _ _ H Hth) as (th0 & th0' & evs & Ht & Hn & Hcc).
    destruct Hcc as [[E _]|[_ (y & Hy & Hcc)]]; [contradiction|].
    apply ctl_kc in Hcc. destruct Hcc as (_ & _ & _ & Ho & _). rewrite Ho. eapply C1; eauto.
  - intros j Hj. rewrite Hc in Hj. inversion Hj; subst j.
    destruct (C2 i Hc) as (Hi & o & rest & Ho & Hth). split; auto. exists o, rest. split; auto.
    intros th Hx.
    destruct (step_threads _ _ _ _ _ _ _ H Hx) as (th0 & th0' & evs & Ht & Hn & Hcc).
    destruct Hcc as [[_ Hcc]|[Hne _]]; [|contradiction].
    apply ctl_kc in Hcc. destruct Hcc as (_ & _ & _ & Hops & _). rewrite Hops.
    destruct (Hth _ Ht) as [E|E]; destruct (ne_ops _ _ _ _ _ Hn) as [-> | ->]; rewrite E; simpl; auto.
Qed.

(* a step of a thread that is not one of e's sockets *)
Lemma agree_step_other : forall h e t l h',
  stepl Fixed h t = Some (l, h') -> (forall i, i < nrem e -> sock e i <> t) ->
  forall i, i < nrem e ->
    (forall x, nth_error (s_th h') (sock e i) = Some x -> exists y, nth_error (s_th h) (sock e i) = Some y /\ ctl x = ctl y).
Proof.
  intros h e t l h' H Hno i Hi x Hx.
  destruct (step_threads _ _ _ _ _ _ _ H Hx) as (th0 & th0' & evs & Ht & Hn & Hcc).
  destruct Hcc as [[E _]|[_ G]]; [exfalso; eapply Hno; eauto | exact G].
Qed.

Lemma ctrl_step_other : forall h e t l h',
  ctrl h e -> stepl Fixed h t = Some (l, h') -> (forall i, i < nrem e -> sock e i <> t) -> ctrl h' e.
Proof.
  intros h e t l h' [C1 C2] H Hno. split.
  - intros i th Hi Hne Hth. destruct (agree_step_other _ _ _ _ _ H Hno i Hi _ Hth) as (y & Hy & Hcc).
    apply ctl_kc in Hcc. destruct Hcc as (_ & _ & _ & Ho & _). rewrite Ho. eauto.
  - intros i Hc. destruct (C2 i Hc) as (Hi & o & rest & Ho & Hth). split; auto. exists o, rest. split; auto.
    intros th Hx. destruct (agree_step_other _ _ _ _ _ H Hno i Hi _ Hx) as (y & Hy & Hcc).
    apply ctl_kc in Hcc. destruct Hcc as (_ & _ & _ & Hops & _). rewrite Hops. eauto.
Qed.

(* ---- one controller move *)
Lemma e_set_layout : forall e ops cur out lg dn, same_layout (PB (e_set e ops cur out lg dn)) (PB e).
Proof. intros. simpl. auto. Qed.

(* the hub after a controller move: unchanged, or one injection into an idle socket of e *)
Definition move_ok (h : state) (e : endpoint) (h' : state) : Prop :=
  h' = h \/ exists j o, j < nrem e /\ h' = inject h (sock e j) o /\
                        (forall th, nth_error (s_th h) (sock e j) = Some th -> t_ops th = []).

Definition all_idle (h : state) (e : endpoint) : Prop :=
  forall j th, j < nrem e -> nth_error (s_th h) (sock e j) = Some th -> t_ops th = [].

Lemma ctrl_finish : forall h e ops out lg dn, all_idle h e -> ctrl h (e_set e ops None out lg dn).
Proof.
  intros h e ops out lg dn A.
  set (e' := e_set e ops None out lg dn).
  assert (E1 : forall i, sock e' i = sock e i) by reflexivity.
  assert (E2 : nrem e' = nrem e) by reflexivity.
  assert (E3 : e_cur e' = None) by reflexivity.
  clearbody e'. split.
  - intros i th Hi _ Hth. rewrite E1 in Hth. rewrite E2 in Hi. exact (A i th Hi Hth).
  - intros i Hc. congruence.
Qed.

Lemma ctrl_inject : forall h e j o rest out lg dn,
  all_idle h e -> j < nrem e -> e_ops e = o :: rest ->
  ctrl (inject h (sock e j) (sop o)) (e_set e (e_ops e) (Some j) out lg dn).
Proof.
  intros h e j o rest out lg dn A Hj Ho.
  set (e' := e_set e (e_ops e) (Some j) out lg dn).
  assert (E1 : forall i, sock e' i = sock e i) by reflexivity.
  assert (E2 : nrem e' = nrem e) by reflexivity.
  assert (E3 : e_cur e' = Some j) by reflexivity.
  assert (E4 : e_ops e' = e_ops e) by reflexivity.
  clearbody e'. split.
  - intros i th Hi Hne Hth. rewrite E1 in Hth. rewrite E2 in Hi. rewrite E3 in Hne.
    assert (i <> j) by congruence.
    rewrite inject_threads in Hth. assert (Hs : sock e i <> sock e j) by (unfold sock; lia).
    apply Nat.eqb_neq in Hs. rewrite Hs in Hth. exact (A i th Hi Hth).
  - intros i Hc. rewrite E3 in Hc. inversion Hc; subst i. rewrite E2. split; [exact Hj|].
    exists o, rest. split; [congruence|]. intros th Hth. rewrite E1 in Hth.
    rewrite inject_threads, Nat.eqb_refl in Hth.
    destruct (nth_error (s_th h) (sock e j)); simpl in Hth; inversion Hth; subst. left. reflexivity.
Qed.

Lemma move_inject : forall h e j o, all_idle h e -> j < nrem e -> move_ok h e (inject h (sock e j) o).
Proof. intros h e j o A Hj. right. exists j, o. split; auto. split; auto. intros th Hth. exact (A j th Hj Hth). Qed.

Lemma settle1_ok : forall h e h' e',
  ctrl h e -> settle1 h e = Some (h', e') ->
  ctrl h' e' /\ same_layout (PB e') (PB e) /\ move_ok h e h'.
Proof.
  intros h e h' e' [C1 C2] H. unfold settle1 in H. fold (nrem e) in H.
  destruct (e_ops e) as [|o rest] eqn:Ho; [discriminate|].
  destruct (e_cur e) as [i|] eqn:Ec.
  - destruct (C2 i eq_refl) as (Hi & o0 & rest0 & Ho0 & Hth0). inversion Ho0; subst o0 rest0.
    destruct (nth_error (s_th h) (sock e i)) as [th|] eqn:Hth; [|unfold sock in Hth; rewrite Hth in H; discriminate].
    unfold sock in Hth. rewrite Hth in H. fold (sock e i) in Hth.
    destruct (t_ops th) eqn:Hops; [|discriminate].
    destruct (t_out th) as [|r out0] eqn:Hout; [discriminate|].
    assert (A : all_idle h e).
    { intros j th' Hj Hth'. destruct (Nat.eq_dec j i) as [->|Hne].
      - rewrite Hth in Hth'. inversion Hth'; subst. exact Hops.
      - eapply C1; eauto. congruence. }
    assert (NEXT : forall lg,
      (if S i <? nrem e
       then Some (inject h (e_base e + S i) (sop o), e_set e (o :: rest) (Some (S i)) (e_out e) lg (e_done e))
       else Some (h, e_set e rest None (BOk :: e_out e) lg ((o, BOk) :: e_done e))) = Some (h', e') ->
      ctrl h' e' /\ same_layout (PB e') (PB e) /\ move_ok h e h').
    { intros lg G. destruct (S i <? nrem e) eqn:L; inversion G; subst.
      - apply Nat.ltb_lt in L. split; [|split; [apply e_set_layout|apply (move_inject h e (S i)); auto]].
        rewrite <- Ho. apply (ctrl_inject h e (S i) o rest); auto.
      - split; [apply ctrl_finish; auto|split; [apply e_set_layout|left; reflexivity]]. }
    assert (FIN : forall r0, Some (h, e_set e rest None (r0 :: e_out e) (e_log e) ((o, r0) :: e_done e)) = Some (h', e') ->
      ctrl h' e' /\ same_layout (PB e') (PB e) /\ move_ok h e h').
    { intros r0 G. inversion G; subst. split; [apply ctrl_finish; auto|split; [apply e_set_layout|left; reflexivity]]. }
    assert (POLL : Some (inject h (e_base e + (if S i <? nrem e then S i else 0)) (Recv true),
                         e_set e (o :: rest) (Some (if S i <? nrem e then S i else 0)) (e_out e) (e_log e) (e_done e)) = Some (h', e') ->
                   o = BRecv -> ctrl h' e' /\ same_layout (PB e') (PB e) /\ move_ok h e h').
    { intros G Eo. inversion G; subst.
      assert (Hj : (if S i <? nrem e then S i else 0) < nrem e).
      { destruct (S i <? nrem e) eqn:L; [apply Nat.ltb_lt in L; exact L | lia]. }
      split; [|split; [apply e_set_layout|apply (move_inject h e _); auto]].
      rewrite <- Ho. apply (ctrl_inject h e _ BRecv rest); auto. }
    destruct o; destruct r; try (apply (NEXT _ H)); try (apply (FIN _ H)); try (apply POLL; [exact H|reflexivity]).
  - assert (A : all_idle h e).
    { intros j th' Hj Hth'. eapply C1; eauto. discriminate. }
    destruct (nrem e =? 0) eqn:N0.
    + destruct o; try discriminate; inversion H; subst;
        (split; [apply ctrl_finish; auto|split; [apply e_set_layout|left; reflexivity]]).
    + apply Nat.eqb_neq in N0. inversion H; subst.
      split; [|split; [apply e_set_layout|]].
      * replace (e_base e) with (sock e 0) by (unfold sock; lia). rewrite <- Ho.
        apply (ctrl_inject h e 0 o rest); auto. lia.
      * replace (e_base e) with (sock e 0) by (unfold sock; lia). apply move_inject; auto. lia.
Qed.


(* ------------------------------------------------------------------ part 4 *)
Lemma same_layout_sym : forall x y, same_layout x y -> same_layout y x.
Proof.
  intros [e|t] [e'|t'] H; simpl in *; try contradiction; try congruence.
  destruct H as (A & B & C). auto.
Qed.

Lemma pc_ok_idle : forall th, pc_ok th = true -> t_ops th = [] -> t_pc th = P0.
Proof.
  intros th H E. unfold pc_ok in H. rewrite E in H.
  destruct (t_pc th) as [|c|c|c|c]; auto; try discriminate; destruct c; try discriminate; destruct r; discriminate.
Qed.

(* the hub changes of a controller move stay inside e's own sockets *)
Definition frame (e : endpoint) (h h' : state) : Prop :=
  forall t, (forall j, j < nrem e -> sock e j <> t) -> nth_error (s_th h') t = nth_error (s_th h) t.

Lemma move_frame : forall h e h', move_ok h e h' -> frame e h h'.
Proof.
  intros h e h' [->|(j & o & Hj & -> & _)] t Ht; auto.
  rewrite inject_threads. specialize (Ht j Hj). assert (t <> sock e j) by congruence.
  apply Nat.eqb_neq in H. rewrite H. reflexivity.
Qed.

Lemma move_hreach : forall hcfg h e h', hreach hcfg h -> move_ok h e h' -> hreach hcfg h'.
Proof.
  intros hcfg h e h' R [->|(j & o & Hj & -> & Hidle)]; auto.
  destruct (nth_error (s_th h) (sock e j)) as [th|] eqn:E.
  - pose proof (hreach_inv_lock _ _ R) as IL. pose proof (il_ok _ IL _ _ E) as Hok.
    pose proof (Hidle _ eq_refl) as Hops. eapply hr_inj; eauto. apply pc_ok_idle; auto.
  - rewrite inject_missing; auto.
Qed.

Lemma layout_sock : forall e e', same_layout (PB e') (PB e) -> (forall i, sock e' i = sock e i) /\ nrem e' = nrem e.
Proof. intros e e' (A & B & C). unfold sock, nrem. rewrite B, C. auto. Qed.

Lemma frame_trans : forall e e1 h1 h2 h3, same_layout (PB e1) (PB e) -> frame e h1 h2 -> frame e1 h2 h3 -> frame e h1 h3.
Proof.
  intros e e1 h1 h2 h3 L F1 F2 t Ht. destruct (layout_sock _ _ L) as [S N].
  rewrite F2; [apply F1; auto|]. intros j Hj. rewrite S. apply Ht. rewrite <- N. exact Hj.
Qed.

Lemma settle_ok : forall hcfg fuel h e h' e',
  ctrl h e -> hreach hcfg h -> settle fuel h e = (h', e') ->
  ctrl h' e' /\ same_layout (PB e') (PB e) /\ hreach hcfg h' /\ frame e h h'.
Proof.
  intros hcfg fuel. induction fuel as [|f IH]; intros h e h' e' C R H; simpl in H.
  - inversion H; subst. split; [exact C|split; [apply same_layout_refl|split; [exact R|intros t _; reflexivity]]].
  - destruct (settle1 h e) as [[h1 e1]|] eqn:E.
    + destruct (settle1_ok _ _ _ _ C E) as (C1 & L1 & M1).
      destruct (IH _ _ _ _ C1 (move_hreach _ _ _ _ R M1) H) as (C2 & L2 & R2 & F2).
      split; auto. split; [eapply same_layout_trans; eauto|]. split; auto.
      eapply frame_trans; eauto. apply move_frame; auto.
    + inversion H; subst. split; [exact C|split; [apply same_layout_refl|split; [exact R|intros t _; reflexivity]]].
Qed.

(* ---- the invariant of broadcast executions *)
Definition lay (cfg : list pcfg) (ps : list party) : Prop :=
  forall p x, nth_error ps p = Some x -> exists x0, nth_error (mk_parties 0 cfg) p = Some x0 /\ same_layout x x0.

Record binv (cfg : list pcfg) (s : bstate) : Prop := {
  bi_h : hreach (hcfg_of cfg) (b_hub s);
  bi_lay : lay cfg (b_par s);
  bi_ctrl : forall p e, nth_error (b_par s) p = Some (PB e) -> ctrl (b_hub s) e }.

Lemma lay_disjoint : forall cfg ps p p' x x' t,
  lay cfg ps -> nth_error ps p = Some x -> nth_error ps p' = Some x' -> p <> p' -> owns x t -> owns x' t -> False.
Proof.
  intros cfg ps p p' x x' t L H H' Hne Ho Ho'.
  destruct (L _ _ H) as (x0 & H0 & S0). destruct (L _ _ H') as (x0' & H0' & S0').
  eapply (mk_parties_disjoint cfg 0 p p'); eauto; eapply same_layout_owns; eauto.
Qed.

Lemma owns_sock : forall e i, i < nrem e -> owns (PB e) (sock e i).
Proof. intros e i Hi. simpl. unfold sock, nrem in *. lia. Qed.
Lemma owns_sock_inv : forall e t, owns (PB e) t -> exists i, i < nrem e /\ t = sock e i.
Proof. intros e t [H1 H2]. exists (t - e_base e). unfold sock, nrem. split; lia. Qed.

Lemma frame_agree : forall e e2 h h', frame e h h' ->
  (forall t, owns (PB e) t -> owns (PB e2) t -> False) -> agree_on e2 h h'.
Proof.
  intros e e2 h h' F D i Hi. apply F. intros j Hj E. apply (D (sock e2 i)).
  - rewrite <- E. apply owns_sock; auto.
  - apply owns_sock; auto.
Qed.

Lemma binv_step : forall cfg s p l s', binv cfg s -> bstep s p = Some (l, s') -> binv cfg s'.
Proof.
  intros cfg s p l s' [Rh L C] H. unfold bstep in H.
  destruct (nth_error (b_par s) p) as [[e|t]|] eqn:Hp; [| |discriminate].
  - destruct (e_cur e) as [i|] eqn:Ec; [|discriminate].
    destruct (stepl Fixed (b_hub s) (e_base e + i)) as [[l0 h1]|] eqn:Hs; [|discriminate].
    destruct (settle SETTLE_FUEL h1 e) as [h2 e'] eqn:Hst. inversion H; subst l0 s'. clear H.
    fold (sock e i) in Hs.
    pose proof (C _ _ Hp) as Ce. destruct (c_cur _ _ Ce i Ec) as (Hi & _).
    assert (C1 : ctrl h1 e) by (eapply ctrl_step_own; eauto).
    assert (R1 : hreach (hcfg_of cfg) h1) by (eapply hr_step; eauto).
    destruct (settle_ok _ _ _ _ _ _ C1 R1 Hst) as (C2 & L2 & R2 & F2).
    split; simpl; auto.
    + intros q x Hq. unfold set_party in Hq. destruct (Nat.eq_dec q p) as [->|Hne].
      * erewrite nth_set_nth_eq in Hq by eauto. inversion Hq; subst.
        destruct (L _ _ Hp) as (x0 & H0 & S0). exists x0. split; auto. eapply same_layout_trans; eauto.
      * rewrite nth_set_nth_neq in Hq by auto. eauto.
    + intros q e2 Hq. unfold set_party in Hq. destruct (Nat.eq_dec q p) as [->|Hne].
      * erewrite nth_set_nth_eq in Hq by eauto. inversion Hq; subst. exact C2.
      * rewrite nth_set_nth_neq in Hq by auto.
        assert (D : forall t, owns (PB e) t -> owns (PB e2) t -> False).
        { intros t O1 O2. eapply (lay_disjoint cfg (b_par s) p q); eauto. }
        eapply ctrl_agree; [eapply frame_agree; eauto|].
        eapply ctrl_step_other; eauto. intros j Hj E. apply (D (sock e i)); [apply owns_sock; auto|].
        rewrite <- E. apply owns_sock; auto.
  - destruct (stepl Fixed (b_hub s) t) as [[l0 h1]|] eqn:Hs; [|discriminate]. inversion H; subst l0 s'. clear H.
    split; simpl; auto.
    + eapply hr_step; eauto.
    + intros q e2 Hq. eapply ctrl_step_other; eauto. intros j Hj E.
      assert (q <> p) by (intros ->; rewrite Hp in Hq; discriminate).
      eapply (lay_disjoint cfg (b_par s) q p (PB e2) (PRaw t) t); eauto.
      * rewrite <- E. apply owns_sock; auto.
      * simpl. reflexivity.
Qed.


(* ------------------------------------------------------------------ part 5 *)
Definition pairwise_disj (ps : list party) : Prop :=
  forall p p' x x' t, nth_error ps p = Some x -> nth_error ps p' = Some x' -> p <> p' ->
    owns x t -> owns x' t -> False.

Lemma pairwise_tail : forall x ps, pairwise_disj (x :: ps) -> pairwise_disj ps.
Proof. intros x ps D p p' y y' t H H' Hne. apply (D (S p) (S p') y y' t); simpl; auto. Qed.

Lemma settle_all_ok : forall hcfg ps h h' ps',
  settle_all h ps = (h', ps') -> hreach hcfg h ->
  (forall p e, nth_error ps p = Some (PB e) -> ctrl h e) -> pairwise_disj ps ->
  hreach hcfg h' /\
  (forall p x', nth_error ps' p = Some x' -> exists x, nth_error ps p = Some x /\ same_layout x' x) /\
  (forall p e', nth_error ps' p = Some (PB e') -> ctrl h' e') /\
  (forall t, (forall p x, nth_error ps p = Some x -> ~ owns x t) -> nth_error (s_th h') t = nth_error (s_th h) t).
Proof.
  intros hcfg ps. induction ps as [|x ps IH]; intros h h' ps' H R C D; cbn [settle_all] in H.
  - inversion H; subst. split; auto. split; [|split]; auto; intros q y Hq; destruct q; discriminate.
  - destruct x as [e|t0].
    + destruct (settle SETTLE_FUEL h e) as [h1 e1] eqn:Hs.
      destruct (settle_all h1 ps) as [h2 r'] eqn:Hr. inversion H; subst; clear H.
      destruct (settle_ok _ _ _ _ _ _ (C 0 e eq_refl) R Hs) as (C1 & L1 & R1 & F1).
      assert (Ctail : forall p e2, nth_error ps p = Some (PB e2) -> ctrl h1 e2).
      { intros p e2 Hp. eapply ctrl_agree; [eapply frame_agree; eauto|apply (C (S p)); exact Hp].
        intros t O1 O2. apply (D 0 (S p) (PB e) (PB e2) t); simpl; auto. }
      destruct (IH _ _ _ Hr R1 Ctail (pairwise_tail _ _ D)) as (R2 & L2 & C2 & F2).
      split; [exact R2|]. split; [|split].
      * intros p y Hp. destruct p as [|p]; simpl in *.
        -- inversion Hp; subst. eauto.
        -- eauto.
      * intros p e2 Hp. destruct p as [|p]; simpl in *.
        -- inversion Hp; subst. eapply ctrl_agree; [|exact C1].
           intros i Hi. apply F2. intros q y Hq O.
           destruct (layout_sock _ _ L1) as [S1 N1].
           apply (D 0 (S q) (PB e) y (sock e2 i)); simpl; auto.
           rewrite S1. apply owns_sock. rewrite <- N1. exact Hi.
        -- eauto.
      * intros t Ht. rewrite F2.
        -- apply F1. intros j Hj E. apply (Ht 0 (PB e) eq_refl). rewrite <- E. apply owns_sock; auto.
        -- intros q y Hq. apply (Ht (S q) y Hq).
    + destruct (settle_all h ps) as [h2 r'] eqn:Hr. inversion H; subst; clear H.
      assert (Ctail : forall p e2, nth_error ps p = Some (PB e2) -> ctrl h e2) by (intros p e2 Hp; apply (C (S p)); exact Hp).
      destruct (IH _ _ _ Hr R Ctail (pairwise_tail _ _ D)) as (R2 & L2 & C2 & F2).
      split; [exact R2|]. split; [|split].
      * intros p y Hp. destruct p as [|p]; simpl in *.
        -- inversion Hp; subst. exists (PRaw t0). split; auto. apply same_layout_refl.
        -- eauto.
      * intros p e2 Hp. destruct p as [|p]; simpl in *; [discriminate|eauto].
      * intros t Ht. apply F2. intros q y Hq. apply (Ht (S q) y Hq).
Qed.

Lemma init_ctrl : forall cfg p e, nth_error (mk_parties 0 cfg) p = Some (PB e) -> ctrl (init (hcfg_of cfg)) e.
Proof.
  intros cfg p e Hp.
  assert (Ecur : e_cur e = None).
  { clear - Hp. revert p Hp. generalize 0 as base. induction cfg as [|c cfg IH]; intros base p Hp; simpl in Hp.
    - destruct p; discriminate.
    - destruct c; destruct p; simpl in Hp; try (inversion Hp; subst; reflexivity); try discriminate; eauto. }
  split.
  - intros i th Hi _ Hth. destruct (mk_parties_socket _ _ _ _ i Hp Hi) as [_ G].
    rewrite Nat.sub_0_r in G. apply init_thread in Hth. destruct Hth as (c & Hc & ->).
    unfold sock in Hc. rewrite G in Hc. inversion Hc; subst. reflexivity.
  - intros i Hc. congruence.
Qed.

Lemma binv_init : forall cfg, binv cfg (binit cfg).
Proof.
  intros cfg. unfold binit.
  destruct (settle_all (init (flat_map hub_threads cfg)) (mk_parties 0 cfg)) as [h ps] eqn:H.
  destruct (settle_all_ok (hcfg_of cfg) _ _ _ _ H (hr_init _)) as (R & L & C & _).
  - intros p e Hp. eapply init_ctrl; eauto.
  - intros p p' x x' t. apply mk_parties_disjoint.
  - split; simpl; auto.
Qed.

Lemma breach_binv : forall cfg s, breach cfg s -> binv cfg s.
Proof. intros cfg s R. induction R; [apply binv_init | eapply binv_step; eauto]. Qed.

Lemma hcfg_all_plain : forall cfg, all_plain (hcfg_of cfg).
Proof.
  intros cfg c Hin. unfold hcfg_of in Hin. apply in_flat_map in Hin. destruct Hin as (pc & _ & Hin).
  destruct pc as [a rs ops|k ops]; simpl in Hin.
  - apply in_map_iff in Hin. destruct Hin as (r & <- & _). reflexivity.
  - destruct Hin as [<-|[]]. reflexivity.
Qed.

(* ================= broadcast: per (receiver, sender, socket id) exactly once and in order *)
Definition bc_fifo_exact_stmt : Prop :=
  forall cfg sch k, let s := brun (binit cfg) sch in
    sent_log k (s_tr (b_hub s)) = recv_log k (s_tr (b_hub s)) ++ qget k (s_q (b_hub s)).

Theorem bc_fifo_exact : bc_fifo_exact_stmt.
Proof.
  intros cfg sch k s. apply (hreach_fifo (hcfg_of cfg)).
  - apply hcfg_all_plain.
  - apply (bi_h _ _ (breach_binv _ _ (breach_run cfg sch))).
Qed.


(* ------------------------------------------------------------------ part 6 *)
(* ---- hub level: a sole receiver's results are the pops on its key, also under injection *)
Lemma hreach_inv_acct : forall hcfg k r s, sole hcfg k r -> hreach hcfg s -> inv_acct k r s.
Proof.
  intros hcfg k r s Hsole R. induction R.
  - intros th H Hk. apply init_thread in H. destruct H as ([[k0 cb] ops] & _ & ->). reflexivity.
  - intros x Hx Hk.
    pose proof (stepl_inv _ _ _ _ _ H) as (th & th' & evs & Ht & Hn & He & Hs').
    assert (Htr : s_tr s' = evs ++ s_tr s) by (subst s'; apply apply_tr).
    rewrite Htr, recvq_app.
    destruct (step_threads _ _ _ _ _ _ _ H Hx) as (th0 & th0' & evs0 & Ht0 & Hn0 & Hc).
    rewrite Ht in Ht0; inversion Ht0; subst th0. rewrite Hn in Hn0; inversion Hn0; subst th0' evs0.
    destruct Hc as [[-> Hc]|[Hne (y & Hy & Hc)]]; apply ctl_kc in Hc; destruct Hc as (Hk' & _ & Hp & _ & Ho).
    + destruct (next_keeps _ _ _ _ _ Hn) as [N1 _].
      rewrite Ho, Hp, (ne_acct _ _ _ _ _ Hn).
      assert (Kth : t_key th = k) by congruence.
      rewrite (IHR _ Ht Kth). rewrite Kth. reflexivity.
    + rewrite Ho, Hp. rewrite (IHR _ Hy) by congruence.
      rewrite recvq_none; [rewrite app_nil_r; reflexivity|].
      intros m Hin. destruct (ne_recv _ _ _ _ _ _ _ Hn Hin) as (_ & Kt & _).
      destruct (hreach_inv_keys _ _ R _ _ Ht) as (c & Hc & E1 & _).
      apply Hne. symmetry. eapply Hsole; eauto. congruence.
  - intros x Hx Hk. destruct (inject_cases _ _ _ _ _ Hx) as [[-> (y & Hy & ->)]|[Hne Hx']].
    + rewrite H in Hy; inversion Hy; subst y. simpl. pose proof (IHR _ H Hk) as G. rewrite H1 in G. exact G.
    + exact (IHR _ Hx' Hk).
Qed.

Lemma length_upd_th : forall f t l, List.length (upd_th f t l) = List.length l.
Proof. intros. unfold upd_th. destruct (nth_error l t); auto. apply length_set_nth. Qed.

Lemma stepl_length : forall s t l s', stepl Fixed s t = Some (l, s') -> List.length (s_th s') = List.length (s_th s).
Proof.
  intros s t l s' H. apply stepl_inv in H. destruct H as (th & th' & evs & _ & _ & _ & ->).
  destruct l; simpl; rewrite ?length_upd_th, ?length_set_nth; reflexivity.
Qed.

Lemma hreach_length : forall hcfg s, hreach hcfg s -> List.length (s_th s) = List.length hcfg.
Proof.
  intros hcfg s R. induction R.
  - simpl. apply map_length.
  - rewrite (stepl_length _ _ _ _ H). exact IHR.
  - simpl. rewrite length_upd_th. exact IHR.
Qed.

(* what a step adds to the results of the acting thread *)
Lemma ne_out_kind : forall s th l th' evs,
  next Fixed s th = Some (l, th', evs) ->
  (t_out th' = t_out th /\ t_ops th' = t_ops th) \/
  (exists r, t_out th' = r :: t_out th /\ t_ops th' = tl (t_ops th) /\
             (forall m, r = RMsg m -> exists nb rest, t_ops th = Recv nb :: rest)).
Proof.
  intros s th l th' evs H. next_inv H; des2; simpl; rewrite ?Hops; simpl; auto;
  right; eexists; (split; [reflexivity|]); (split; [reflexivity|]); intros m0 X; try discriminate X; eauto.
Qed.

(* ---- controller level *)
Definition from_tag (e : endpoint) (i : nat) (out : list bres) : list msg :=
  flat_map (fun r => match r with BMsg f m => if f =? nth i (e_remotes e) 0 then [m] else [] | _ => [] end) out.

Definition unconsumed (e : endpoint) (i : nat) (th : thread) : list msg :=
  match e_cur e, t_ops th, e_ops e, t_out th with
  | Some c, [], BRecv :: _, RMsg m :: _ => if c =? i then [m] else []
  | _, _, _, _ => []
  end.

Definition acc (h : state) (e : endpoint) : Prop :=
  forall i th, i < nrem e -> nth_error (s_th h) (sock e i) = Some th ->
    msgs_of (rev (t_out th)) = from_tag e i (rev (e_out e)) ++ unconsumed e i th.

Lemma from_tag_app : forall e i a b, from_tag e i (a ++ b) = from_tag e i a ++ from_tag e i b.
Proof. intros. unfold from_tag. apply flat_map_app. Qed.

Lemma nth_NoDup_neq : forall (l : list nat) i j, NoDup l -> i < List.length l -> j < List.length l -> i <> j -> nth i l 0 <> nth j l 0.
Proof. intros l i j N Hi Hj Hne E. apply Hne. eapply (proj1 (NoDup_nth l 0)); eauto. Qed.


(* ------------------------------------------------------------------ part 7 *)
(* acc only looks at t_out / t_ops of e's sockets *)
Definition same_out (e : endpoint) (h h' : state) : Prop :=
  forall i x, i < nrem e -> nth_error (s_th h') (sock e i) = Some x ->
    exists y, nth_error (s_th h) (sock e i) = Some y /\ t_out x = t_out y /\ t_ops x = t_ops y.

Lemma acc_same_out : forall e h h', same_out e h h' -> acc h e -> acc h' e.
Proof.
  intros e h h' S A i x Hi Hx. destruct (S i x Hi Hx) as (y & Hy & Eo & Ep).
  unfold unconsumed. rewrite Eo, Ep. apply (A i y Hi Hy).
Qed.

Lemma same_out_agree : forall e h h', agree_on e h h' -> same_out e h h'.
Proof. intros e h h' A i x Hi Hx. rewrite (A i Hi) in Hx. eauto. Qed.

Lemma same_out_step_other : forall h e t l h',
  stepl Fixed h t = Some (l, h') -> (forall i, i < nrem e -> sock e i <> t) -> same_out e h h'.
Proof.
  intros h e t l h' H Hno i x Hi Hx.
  destruct (agree_step_other _ _ _ _ _ H Hno i Hi _ Hx) as (y & Hy & Hc).
  apply ctl_kc in Hc. destruct Hc as (_ & _ & _ & Ho & Hout). eauto.
Qed.

(* a step of the active socket *)
Lemma acc_step_own : forall h e i0 l h',
  inv_lock h -> ctrl h e -> acc h e -> e_cur e = Some i0 -> stepl Fixed h (sock e i0) = Some (l, h') -> acc h' e.
Proof.
  intros h e i0 l h' IL C A Hc H i x Hi Hx.
  destruct (step_threads _ _ _ _ _ _ _ H Hx) as (th & th' & evs & Ht & Hn & Hcc).
  destruct Hcc as [[E Hcc]|[Hne (y & Hy & Hcc)]]; apply ctl_kc in Hcc; destruct Hcc as (_ & _ & _ & Hops & Hout).
  - assert (i = i0) by (unfold sock in E; lia). subst i.
    destruct (c_cur _ _ C i0 Hc) as (_ & o & rest & Ho & Hth).
    assert (Eth : t_ops th = [sop o]).
    { destruct (Hth _ Ht) as [E1|E1]; auto. unfold next in Hn. rewrite E1 in Hn. discriminate. }
    pose proof (A i0 th Hi Ht) as Pre.
    assert (U0 : unconsumed e i0 th = []) by (unfold unconsumed; rewrite Hc, Eth; reflexivity).
    rewrite U0, app_nil_r in Pre.
    unfold unconsumed. rewrite Hc, Hops, Hout, Ho, Nat.eqb_refl.
    destruct (ne_out_kind _ _ _ _ _ Hn) as [[E1 E2]|(r & E1 & E2 & Er)].
    + rewrite E1, E2, Eth. destruct o; simpl; rewrite app_nil_r; exact Pre.
    + rewrite E1, E2, Eth. simpl. rewrite msgs_of_app, Pre. simpl.
      destruct r as [| |m0| |]; simpl; rewrite ?app_nil_r; try (destruct o; simpl; rewrite ?app_nil_r; reflexivity).
      destruct (Er m0 eq_refl) as (nb & rest' & Eo). rewrite Eth in Eo. destruct o; try discriminate. reflexivity.
  - assert (i <> i0) by (intros ->; apply Hne; reflexivity).
    pose proof (A i y Hi Hy) as Pre. unfold unconsumed in *. rewrite Hops, Hout. exact Pre.
Qed.


(* ------------------------------------------------------------------ part 8 *)
Lemma from_tag_set : forall e ops cur out lg dn i l,
  from_tag (e_set e ops cur out lg dn) i l = from_tag e i l.
Proof. reflexivity. Qed.

(* case A: the op ends with a result that is not a message; hub unchanged *)
Lemma acc_finish_plain : forall h e ops' r' lg dn,
  acc h e -> (forall i th, nth_error (s_th h) (sock e i) = Some th -> unconsumed e i th = []) -> (forall f m, r' <> BMsg f m) ->
  acc h (e_set e ops' None (r' :: e_out e) lg dn).
Proof.
  intros h e ops' r' lg dn A U Hr i th Hi Hth.
  change (sock (e_set e ops' None (r' :: e_out e) lg dn) i) with (sock e i) in Hth.
  change (nrem (e_set e ops' None (r' :: e_out e) lg dn)) with (nrem e) in Hi.
  pose proof (A i th Hi Hth) as Pre. rewrite (U _ _ Hth), app_nil_r in Pre.
  rewrite from_tag_set. cbn [e_out e_set]. simpl rev. rewrite from_tag_app.
  assert (T : from_tag e i [r'] = []). { unfold from_tag. simpl. destruct r'; auto. exfalso. eapply Hr; eauto. }
  rewrite T, app_nil_r. unfold unconsumed. cbn [e_cur e_set]. rewrite app_nil_r. exact Pre.
Qed.

(* case B: a receive ends with the message the active socket has just produced *)
Lemma acc_finish_msg : forall h e i0 th0 m out0 rest lg dn,
  acc h e -> NoDup (e_remotes e) -> e_cur e = Some i0 -> i0 < nrem e -> e_ops e = BRecv :: rest ->
  nth_error (s_th h) (sock e i0) = Some th0 -> t_ops th0 = [] -> t_out th0 = RMsg m :: out0 ->
  acc h (e_set e rest None (BMsg (nth i0 (e_remotes e) 0) m :: e_out e) lg dn).
Proof.
  intros h e i0 th0 m out0 rest lg dn A ND Hc Hi0 Ho Hth0 Hops0 Hout0 i th Hi Hth.
  change (sock (e_set e rest None (BMsg (nth i0 (e_remotes e) 0) m :: e_out e) lg dn) i) with (sock e i) in Hth.
  change (nrem (e_set e rest None (BMsg (nth i0 (e_remotes e) 0) m :: e_out e) lg dn)) with (nrem e) in Hi.
  pose proof (A i th Hi Hth) as Pre.
  rewrite from_tag_set. cbn [e_out e_set]. simpl rev. rewrite from_tag_app.
  unfold unconsumed at 1. cbn [e_cur e_set]. rewrite app_nil_r.
  destruct (Nat.eq_dec i i0) as [->|Hne].
  - rewrite Hth0 in Hth. inversion Hth; subst th.
    unfold unconsumed in Pre. rewrite Hc, Hops0, Ho, Hout0, Nat.eqb_refl in Pre.
    unfold from_tag at 2. simpl. rewrite Nat.eqb_refl. simpl. rewrite Hout0. exact Pre.
  - assert (U : unconsumed e i th = []).
    { unfold unconsumed. rewrite Hc, Ho. destruct (t_ops th); auto. destruct (t_out th) as [|[] ?]; auto.
      assert (i0 =? i = false) by (apply Nat.eqb_neq; auto). rewrite H. reflexivity. }
    rewrite U, app_nil_r in Pre.
    assert (T : from_tag e i [BMsg (nth i0 (e_remotes e) 0) m] = []).
    { unfold from_tag. simpl. assert (nth i0 (e_remotes e) 0 =? nth i (e_remotes e) 0 = false).
      { apply Nat.eqb_neq. apply nth_NoDup_neq; auto. }
      rewrite H. reflexivity. }
    rewrite T, app_nil_r. exact Pre.
Qed.

(* case C: the next socket-level op is handed to socket j *)
Lemma acc_inject : forall h e j o' lg dn,
  acc h e -> j < nrem e -> (forall i th, nth_error (s_th h) (sock e i) = Some th -> unconsumed e i th = []) ->
  acc (inject h (sock e j) o') (e_set e (e_ops e) (Some j) (e_out e) lg dn).
Proof.
  intros h e j o' lg dn A Hj U i th Hi Hth.
  change (sock (e_set e (e_ops e) (Some j) (e_out e) lg dn) i) with (sock e i) in Hth.
  change (nrem (e_set e (e_ops e) (Some j) (e_out e) lg dn)) with (nrem e) in Hi.
  rewrite from_tag_set. cbn [e_out e_set].
  rewrite inject_threads in Hth. destruct (Nat.eqb (sock e i) (sock e j)) eqn:E.
  - apply Nat.eqb_eq in E. assert (i = j) by (unfold sock in E; lia). subst i.
    destruct (nth_error (s_th h) (sock e j)) as [y|] eqn:Hy; simpl in Hth; inversion Hth; subst th.
    pose proof (A j y Hj Hy) as Pre. rewrite (U _ _ Hy), app_nil_r in Pre.
    unfold unconsumed. cbn [e_cur e_set inj_th t_ops t_out]. rewrite app_nil_r. exact Pre.
  - apply Nat.eqb_neq in E. assert (i <> j) by (intros ->; apply E; reflexivity).
    pose proof (A i th Hi Hth) as Pre. rewrite (U _ _ Hth), app_nil_r in Pre.
    unfold unconsumed. cbn [e_cur e_ops e_set].
    assert (j =? i = false) by (apply Nat.eqb_neq; auto).
    destruct (t_ops th); [|rewrite app_nil_r; exact Pre].
    destruct (e_ops e) as [|[] ?]; try (rewrite app_nil_r; exact Pre).
    destruct (t_out th) as [|[] ?]; try (rewrite app_nil_r; exact Pre).
    rewrite H0, app_nil_r. exact Pre.
Qed.

Lemma unconsumed_not_recv : forall e o rest, e_ops e = o :: rest -> o <> BRecv -> forall i th, unconsumed e i th = [].
Proof.
  intros e o rest Ho Hn i th. unfold unconsumed. rewrite Ho.
  destruct (e_cur e); auto. destruct (t_ops th); auto. destruct o; auto. contradiction.
Qed.
Lemma unconsumed_none : forall e, e_cur e = None -> forall i th, unconsumed e i th = [].
Proof. intros e Hc i th. unfold unconsumed. rewrite Hc. reflexivity. Qed.

Lemma acc_settle1 : forall h e h' e',
  ctrl h e -> acc h e -> NoDup (e_remotes e) -> settle1 h e = Some (h', e') -> acc h' e'.
Proof.
  intros h e h' e' [C1 C2] A ND H. unfold settle1 in H. fold (nrem e) in H.
  destruct (e_ops e) as [|o rest] eqn:Ho; [discriminate|].
  destruct (e_cur e) as [i|] eqn:Ec.
  - destruct (C2 i eq_refl) as (Hi & o0 & rest0 & Ho0 & Hth0). inversion Ho0; subst o0 rest0.
    destruct (nth_error (s_th h) (sock e i)) as [th|] eqn:Hth; [|unfold sock in Hth; rewrite Hth in H; discriminate].
    unfold sock in Hth. rewrite Hth in H. fold (sock e i) in Hth.
    destruct (t_ops th) eqn:Hops; [|discriminate].
    destruct (t_out th) as [|r out0] eqn:Hout; [discriminate|].
    (* nothing unconsumed unless the active socket has just produced a message for a receive *)
    assert (U : (forall m, ~ (o = BRecv /\ r = RMsg m)) ->
                forall j y, nth_error (s_th h) (sock e j) = Some y -> unconsumed e j y = []).
    { intros NM j y Hy. unfold unconsumed. rewrite Ec, Ho.
      destruct (t_ops y) eqn:Oy; auto. destruct o; auto. destruct (t_out y) as [|[] ?] eqn:Ty; auto.
      destruct (Nat.eqb i j) eqn:Eij; auto. apply Nat.eqb_eq in Eij; subst j.
      rewrite Hth in Hy. inversion Hy; subst y. rewrite Hout in Ty. inversion Ty; subst. exfalso. eapply NM; eauto. }
    assert (NEXT : forall lg, (forall m, ~ (o = BRecv /\ r = RMsg m)) ->
      (if S i <? nrem e
       then Some (inject h (e_base e + S i) (sop o), e_set e (o :: rest) (Some (S i)) (e_out e) lg (e_done e))
       else Some (h, e_set e rest None (BOk :: e_out e) lg ((o, BOk) :: e_done e))) = Some (h', e') -> acc h' e').
    { intros lg NM G. destruct (S i <? nrem e) eqn:L; inversion G; subst.
      - apply Nat.ltb_lt in L. rewrite <- Ho. apply (acc_inject h e (S i)); auto.
      - apply acc_finish_plain; auto. discriminate. }
    assert (FIN : forall r0, (forall m, ~ (o = BRecv /\ r = RMsg m)) -> (forall f m, r0 <> BMsg f m) ->
      Some (h, e_set e rest None (r0 :: e_out e) (e_log e) ((o, r0) :: e_done e)) = Some (h', e') -> acc h' e').
    { intros r0 NM Hr G. inversion G; subst. apply acc_finish_plain; auto. }
    assert (POLL : (forall m, r <> RMsg m) ->
                   Some (inject h (e_base e + (if S i <? nrem e then S i else 0)) (Recv true),
                         e_set e (o :: rest) (Some (if S i <? nrem e then S i else 0)) (e_out e) (e_log e) (e_done e)) = Some (h', e') ->
                   acc h' e').
    { intros NM G. inversion G; subst.
      assert (Hj : (if S i <? nrem e then S i else 0) < nrem e).
      { destruct (S i <? nrem e) eqn:L; [apply Nat.ltb_lt in L; exact L | lia]. }
      rewrite <- Ho. apply (acc_inject h e _); auto. apply U. intros m [_ E]. eapply NM; eauto. }
    destruct o; destruct r;
      try (refine (NEXT _ _ H); intros ? [X Y]; discriminate);
      try (refine (FIN _ _ _ H); [intros ? [X Y]; discriminate | discriminate]);
      try (apply POLL; [intros ?; discriminate|exact H]).
    (* BRecv with a message *)
    inversion H; subst. eapply acc_finish_msg; eauto.
  - assert (U : forall j y, nth_error (s_th h) (sock e j) = Some y -> unconsumed e j y = []).
    { intros j y _. apply unconsumed_none; auto. }
    destruct (nrem e =? 0) eqn:N0.
    + destruct o; try discriminate; inversion H; subst; apply acc_finish_plain; auto; discriminate.
    + apply Nat.eqb_neq in N0. inversion H; subst.
      replace (e_base e) with (sock e 0) by (unfold sock; lia). rewrite <- Ho.
      apply (acc_inject h e 0); auto. lia.
Qed.


(* ------------------------------------------------------------------ part 9 *)
Lemma layout_remotes : forall e e', same_layout (PB e') (PB e) -> e_remotes e' = e_remotes e.
Proof. intros e e' (_ & B & _). exact B. Qed.

Lemma settle_acc : forall fuel h e h' e',
  ctrl h e -> acc h e -> NoDup (e_remotes e) -> settle fuel h e = (h', e') -> acc h' e'.
Proof.
  induction fuel as [|f IH]; intros h e h' e' C A ND H; simpl in H.
  - inversion H; subst. exact A.
  - destruct (settle1 h e) as [[h1 e1]|] eqn:E.
    + destruct (settle1_ok _ _ _ _ C E) as (C1 & L1 & _).
      apply (IH h1 e1 h' e' C1); [exact (acc_settle1 h e h1 e1 C A ND E) | rewrite (layout_remotes _ _ L1); exact ND | exact H].
    + inversion H; subst. exact A.
Qed.

(* acc of an endpoint survives hub changes outside its sockets *)
Lemma acc_frame : forall e0 e h h', frame e0 h h' ->
  (forall t, owns (PB e0) t -> owns (PB e) t -> False) -> acc h e -> acc h' e.
Proof.
  intros e0 e h h' F D A. eapply acc_same_out; [|exact A]. apply same_out_agree. eapply frame_agree; eauto.
Qed.

Definition accs (s : bstate) : Prop :=
  forall p e, nth_error (b_par s) p = Some (PB e) -> NoDup (e_remotes e) -> acc (b_hub s) e.

Lemma accs_step : forall cfg s p l s', binv cfg s -> accs s -> bstep s p = Some (l, s') -> accs s'.
Proof.
  intros cfg s p l s' [Rh L C] AC H. unfold bstep in H.
  destruct (nth_error (b_par s) p) as [[e|t]|] eqn:Hp; [| |discriminate].
  - destruct (e_cur e) as [i|] eqn:Ec; [|discriminate].
    destruct (stepl Fixed (b_hub s) (e_base e + i)) as [[l0 h1]|] eqn:Hs; [|discriminate].
    destruct (settle SETTLE_FUEL h1 e) as [h2 e'] eqn:Hst. inversion H; subst l0 s'. clear H.
    fold (sock e i) in Hs.
    pose proof (C _ _ Hp) as Ce. destruct (c_cur _ _ Ce i Ec) as (Hi & _).
    assert (C1 : ctrl h1 e) by (eapply ctrl_step_own; eauto).
    assert (R1 : hreach (hcfg_of cfg) h1) by (eapply hr_step; eauto).
    destruct (settle_ok _ _ _ _ _ _ C1 R1 Hst) as (C2 & L2 & R2 & F2).
    intros q e2 Hq ND. cbn [b_par b_hub] in Hq |- *. unfold set_party in Hq. destruct (Nat.eq_dec q p) as [->|Hne].
    + erewrite nth_set_nth_eq in Hq by eauto. inversion Hq; subst e2.
      assert (NDe : NoDup (e_remotes e)) by (rewrite <- (layout_remotes _ _ L2); exact ND).
      assert (A1 : acc h1 e).
      { eapply (acc_step_own (b_hub s) e i l h1); eauto. apply (hreach_inv_lock _ _ Rh). }
      exact (settle_acc _ _ _ _ _ C1 A1 NDe Hst).
    + rewrite nth_set_nth_neq in Hq by auto.
      assert (D : forall t, owns (PB e) t -> owns (PB e2) t -> False).
      { intros t O1 O2. eapply (lay_disjoint cfg (b_par s) p q); eauto. }
      eapply acc_frame; eauto.
      eapply acc_same_out; [|apply (AC _ _ Hq ND)].
      eapply same_out_step_other; eauto. intros j Hj E. apply (D (sock e i)); [apply owns_sock; auto|].
      rewrite <- E. apply owns_sock; auto.
  - destruct (stepl Fixed (b_hub s) t) as [[l0 h1]|] eqn:Hs; [|discriminate]. inversion H; subst l0 s'. clear H.
    intros q e2 Hq ND. cbn [b_par b_hub] in Hq |- *.
    eapply acc_same_out; [|apply (AC _ _ Hq ND)].
    eapply same_out_step_other; eauto. intros j Hj E.
    assert (q <> p) by (intros ->; rewrite Hp in Hq; discriminate).
    eapply (lay_disjoint cfg (b_par s) q p (PB e2) (PRaw t) t); eauto.
    + rewrite <- E. apply owns_sock; auto.
    + simpl. reflexivity.
Qed.


(* ------------------------------------------------------------------ part 10 *)
Lemma settle_all_acc : forall hcfg ps h h' ps',
  settle_all h ps = (h', ps') -> hreach hcfg h ->
  (forall p e, nth_error ps p = Some (PB e) -> ctrl h e) -> pairwise_disj ps ->
  (forall p e, nth_error ps p = Some (PB e) -> NoDup (e_remotes e) -> acc h e) ->
  forall p e', nth_error ps' p = Some (PB e') -> NoDup (e_remotes e') -> acc h' e'.
Proof.
  intros hcfg ps. induction ps as [|x ps IH]; intros h h' ps' H R C D A; cbn [settle_all] in H.
  - inversion H; subst. intros p e' Hp. destruct p; discriminate.
  - destruct x as [e|t0].
    + destruct (settle SETTLE_FUEL h e) as [h1 e1] eqn:Hs.
      destruct (settle_all h1 ps) as [h2 r'] eqn:Hr. inversion H; subst; clear H.
      destruct (settle_ok _ _ _ _ _ _ (C 0 e eq_refl) R Hs) as (C1 & L1 & R1 & F1).
      assert (Dtail : forall p e2, nth_error ps p = Some (PB e2) -> forall t, owns (PB e) t -> owns (PB e2) t -> False).
      { intros p e2 Hp t O1 O2. apply (D 0 (S p) (PB e) (PB e2) t); simpl; auto. }
      assert (Ctail : forall p e2, nth_error ps p = Some (PB e2) -> ctrl h1 e2).
      { intros p e2 Hp. eapply ctrl_agree; [eapply frame_agree; eauto|apply (C (S p)); exact Hp]. }
      assert (Atail : forall p e2, nth_error ps p = Some (PB e2) -> NoDup (e_remotes e2) -> acc h1 e2).
      { intros p e2 Hp ND. eapply acc_frame; eauto. apply (A (S p)); auto. }
      destruct (settle_all_ok _ _ _ _ _ Hr R1 Ctail (pairwise_tail _ _ D)) as (_ & _ & _ & F2).
      intros p e' Hp ND. destruct p as [|p]; simpl in Hp.
      * inversion Hp; subst e'.
        assert (NDe : NoDup (e_remotes e)) by (rewrite <- (layout_remotes _ _ L1); exact ND).
        pose proof (settle_acc _ _ _ _ _ (C 0 e eq_refl) (A 0 e eq_refl NDe) NDe Hs) as A1.
        eapply acc_same_out; [|exact A1]. apply same_out_agree.
        intros i Hi. apply F2. intros q y Hq O.
        destruct (layout_sock _ _ L1) as [S1 N1].
        apply (D 0 (S q) (PB e) y (sock e1 i)); simpl; auto.
        rewrite S1. apply owns_sock. rewrite <- N1. exact Hi.
      * eapply (IH _ _ _ Hr R1 Ctail (pairwise_tail _ _ D) Atail); eauto.
    + destruct (settle_all h ps) as [h2 r'] eqn:Hr. inversion H; subst; clear H.
      intros p e' Hp ND. destruct p as [|p]; simpl in Hp; [discriminate|].
      eapply (IH _ _ _ Hr R); eauto.
      * intros q e2 Hq. apply (C (S q)); exact Hq.
      * eapply pairwise_tail; eauto.
      * intros q e2 Hq. apply (A (S q)); exact Hq.
Qed.

Lemma init_acc : forall cfg p e, nth_error (mk_parties 0 cfg) p = Some (PB e) -> acc (init (hcfg_of cfg)) e.
Proof.
  intros cfg p e Hp i th Hi Hth.
  assert (Ecur : e_cur e = None /\ e_out e = []).
  { clear - Hp. revert p Hp. generalize 0 as base. induction cfg as [|c cfg IH]; intros base p Hp; simpl in Hp.
    - destruct p; discriminate.
    - destruct c; destruct p; simpl in Hp; try (inversion Hp; subst; auto; fail); try discriminate; eauto. }
  destruct Ecur as [E1 E2]. apply init_thread in Hth. destruct Hth as ([[k cb] ops] & _ & ->).
  unfold unconsumed. rewrite E1, E2. reflexivity.
Qed.

Lemma accs_init : forall cfg, accs (binit cfg).
Proof.
  intros cfg. unfold binit.
  destruct (settle_all (init (flat_map hub_threads cfg)) (mk_parties 0 cfg)) as [h ps] eqn:H.
  intros p e Hp ND. cbn [b_par b_hub] in *.
  eapply (settle_all_acc (hcfg_of cfg) _ _ _ _ H (hr_init _)); eauto.
  - intros q e2 Hq. eapply init_ctrl; eauto.
  - intros q q' x x' t. apply mk_parties_disjoint.
  - intros q e2 Hq _. eapply init_acc; eauto.
Qed.

Lemma breach_accs : forall cfg s, breach cfg s -> accs s.
Proof.
  intros cfg s R. induction R; [apply accs_init|].
  apply (accs_step cfg s p l s'); auto. apply breach_binv; auto.
Qed.

(* keys of distinct hub threads differ *)
Definition keys_distinct (cfg : list pcfg) : Prop := NoDup (map (fun c => fst (fst c)) (hcfg_of cfg)).

Lemma keys_sole : forall hcfg r c, NoDup (map (fun c : key * bool * list op => fst (fst c)) hcfg) ->
  nth_error hcfg r = Some c -> sole hcfg (fst (fst c)) r.
Proof.
  intros hcfg r c ND Hr n c' Hn Ek.
  assert (L1 : n < List.length (map (fun c : key * bool * list op => fst (fst c)) hcfg)).
  { rewrite map_length. apply nth_error_Some. congruence. }
  apply (proj1 (NoDup_nth_error _) ND n r L1).
  rewrite !nth_error_map, Hn, Hr. simpl. congruence.
Qed.

(* ================= what a broadcast endpoint returns with tag b is what was popped from its
   socket for b, in that order — except possibly the one message just popped and not yet
   returned; with bc_fifo_exact: a prefix of what b sent to it, per-sender order preserved *)
Definition bc_recv_tag_stmt : Prop :=
  forall cfg sch p e i, keys_distinct cfg ->
    let s := brun (binit cfg) sch in
    nth_error (b_par s) p = Some (PB e) -> NoDup (e_remotes e) -> i < List.length (e_remotes e) ->
    exists pending, List.length pending <= 1 /\
      from_tag e i (rev (e_out e)) ++ pending = recv_log (e_app e, nth i (e_remotes e) 0, 0) (s_tr (b_hub s)).

Theorem bc_recv_tag : bc_recv_tag_stmt.
Proof.
  intros cfg sch p e i KD s Hp ND Hi.
  pose proof (breach_run cfg sch) as BR. fold s in BR.
  pose proof (breach_binv _ _ BR) as [Rh L C].
  pose proof (breach_accs _ _ BR _ _ Hp ND) as A.
  destruct (L _ _ Hp) as (x0 & H0 & S0). destruct x0 as [e0|t0]; [|simpl in S0; contradiction].
  destruct S0 as (Ea & Er & Eb).
  assert (Hi0 : i < List.length (e_remotes e0)) by (rewrite <- Er; exact Hi).
  destruct (mk_parties_socket _ _ _ _ i H0 Hi0) as [_ G]. rewrite Nat.sub_0_r in G.
  rewrite <- Eb, <- Er, <- Ea in G. fold (sock e i) in G.
  set (k := (e_app e, nth i (e_remotes e) 0, 0)) in *.
  pose proof (keys_sole _ _ _ KD G) as Hsole. simpl in Hsole. fold k in Hsole.
  assert (Hlen : sock e i < List.length (s_th (b_hub s))).
  { rewrite (hreach_length _ _ Rh). apply nth_error_Some. congruence. }
  destruct (nth_error (s_th (b_hub s)) (sock e i)) as [th|] eqn:Hth; [|apply nth_error_None in Hth; lia].
  destruct (hreach_inv_keys _ _ Rh _ _ Hth) as (c & Hc & K1 & _). rewrite G in Hc. inversion Hc; subst c. simpl in K1.
  pose proof (hreach_inv_acct _ _ _ _ Hsole Rh _ Hth K1) as Acct.
  destruct (nocb_logs_tr k (s_tr (b_hub s)) (hreach_nocb _ _ k (hcfg_all_plain cfg) Rh)) as [_ ->].
  rewrite Acct, (A i th Hi Hth), <- app_assoc.
  exists (unconsumed e i th ++ pend (t_pc th)). split; auto.
  assert (PL : forall q, List.length (pend q) <= 1).
  { intros q. unfold pend. destruct q as [| | |[]|]; simpl; auto. destruct r; simpl; auto. }
  unfold unconsumed. destruct (e_cur e); simpl; [|apply PL].
  destruct (t_ops th) eqn:Ops; simpl.
  - pose proof (pc_ok_idle _ (il_ok _ (hreach_inv_lock _ _ Rh) _ _ Hth) Ops) as ->. simpl.
    destruct (e_ops e) as [|[] ?]; simpl; auto. destruct (t_out th) as [|[] ?]; simpl; auto.
    destruct (n =? i); simpl; auto.
  - apply PL.
Qed.


(* ------------------------------------------------------------------ part 11 *)
(* ---- hub level facts about sends *)
Lemma ne_send : forall s th l th' evs k m,
  next Fixed s th = Some (l, th', evs) -> In (ESend k m) evs ->
  k = rkey (t_key th) /\ evs = [ESend k m] /\ t_pc th = PS S_app /\ t_pc th' = PS S_rel /\
  (exists rest, t_ops th = Send m :: rest) /\ t_ops th' = t_ops th /\ t_out th' = t_out th.
Proof. intros s th l th' evs k m H Hin. next_inv H; des2; ev_in Hin; repeat split; eauto. Qed.

Lemma sentq_none : forall k evs, (forall m, ~ In (ESend k m) evs) -> sentq k evs = [].
Proof.
  intros k evs H. unfold sentq.
  assert (G : forall l, (forall m, ~ In (ESend k m) l) -> flat_map (sentq_ev k) l = []).
  { induction l as [|e l IH]; intros Hl; simpl; auto.
    rewrite IH by (intros m Hm; apply (Hl m); right; exact Hm).
    destruct e; simpl; auto. destruct (key_eqb k k0) eqn:E; auto.
    apply key_eqb_eq in E; subst. exfalso. apply (Hl m). left; reflexivity. }
  apply G. intros m Hm. apply in_rev in Hm. exact (H m Hm).
Qed.

(* steps of a Send op that do not append: the thread is neither at S_app before nor at S_rel after,
   unless it was at S_rel and finishes with ROk *)
Lemma ne_send_quiet : forall s th l th' evs m rest,
  next Fixed s th = Some (l, th', evs) -> t_ops th = Send m :: rest -> (forall k m', ~ In (ESend k m') evs) ->
  (forall tg, t_pc th <> PS (S_call tg)) ->
  (t_pc th = PS S_rel /\ t_ops th' = rest /\ t_out th' = ROk :: t_out th) \/
  (t_pc th <> PS S_rel /\ t_pc th' <> PS S_rel /\
   ((t_ops th' = t_ops th /\ t_out th' = t_out th) \/ (t_ops th' = rest /\ t_out th' = RConnErr :: t_out th))).
Proof.
  intros s th l th' evs m rest H Hops Hno Hnc. unfold next in H. rewrite Hops in H.
  destruct (t_pc th) as [|c|c|c|c] eqn:Hpc; try discriminate; try (destruct c; try discriminate);
  cbn beta iota in H; inversion H; subst; clear H; des2; simpl; rewrite ?Hops; simpl;
  try (left; repeat split; reflexivity);
  try (right; split; [discriminate|split; [discriminate|left; split; reflexivity]]);
  try (right; split; [discriminate|split; [discriminate|right; split; reflexivity]]).
  - exfalso. eapply Hnc; eauto.
  - exfalso. eapply Hno. left. reflexivity.
Qed.

(* ---- controller level *)
Definition sent_on (i : nat) (lg : list (nat * msg)) : list msg :=
  flat_map (fun x => if fst x =? i then [snd x] else []) lg.

(* the message of the send in progress on socket i has been appended but not yet logged *)
Definition inflight (e : endpoint) (i : nat) (th : thread) : list msg :=
  match e_cur e, e_ops e with
  | Some c, BSend m :: _ =>
      if c =? i then
        match t_ops th, t_pc th, t_out th with
        | _ :: _, PS S_rel, _ => [m]
        | [], _, ROk :: _ => [m]
        | _, _, _ => []
        end
      else []
  | _, _ => []
  end.

Definition skey (e : endpoint) (i : nat) : key := (e_app e, nth i (e_remotes e) 0, 0).

Definition slog (h : state) (e : endpoint) : Prop :=
  forall i th, i < nrem e -> nth_error (s_th h) (sock e i) = Some th ->
    sentq (rkey (skey e i)) (s_tr h) = sent_on i (rev (e_log e)) ++ inflight e i th.

Lemma sent_on_app : forall i a b, sent_on i (a ++ b) = sent_on i a ++ sent_on i b.
Proof. intros. unfold sent_on. apply flat_map_app. Qed.

(* slog only looks at (t_ops, t_pc, t_out) of e's sockets and at the history *)
Definition same_ctl (e : endpoint) (h h' : state) : Prop :=
  forall i x, i < nrem e -> nth_error (s_th h') (sock e i) = Some x ->
    exists y, nth_error (s_th h) (sock e i) = Some y /\ t_out x = t_out y /\ t_ops x = t_ops y /\ t_pc x = t_pc y.

Lemma slog_same : forall e h h', same_ctl e h h' ->
  (forall i, i < nrem e -> sentq (rkey (skey e i)) (s_tr h') = sentq (rkey (skey e i)) (s_tr h)) ->
  slog h e -> slog h' e.
Proof.
  intros e h h' S T A i x Hi Hx. destruct (S i x Hi Hx) as (y & Hy & Eo & Ep & Ec).
  rewrite (T i Hi). unfold inflight. rewrite Eo, Ep, Ec. apply (A i y Hi Hy).
Qed.

Lemma same_ctl_agree : forall e h h', agree_on e h h' -> same_ctl e h h'.
Proof. intros e h h' A i x Hi Hx. rewrite (A i Hi) in Hx. eauto 6. Qed.

Lemma same_ctl_step_other : forall h e t l h',
  stepl Fixed h t = Some (l, h') -> (forall i, i < nrem e -> sock e i <> t) -> same_ctl e h h'.
Proof.
  intros h e t l h' H Hno i x Hi Hx.
  destruct (agree_step_other _ _ _ _ _ H Hno i Hi _ Hx) as (y & Hy & Hc).
  apply ctl_kc in Hc. destruct Hc as (_ & _ & Hp & Ho & Hout). eauto 6.
Qed.


(* ------------------------------------------------------------------ part 12 *)
Lemma ne_send_dec : forall s th l th' evs,
  next Fixed s th = Some (l, th', evs) ->
  (exists k m, In (ESend k m) evs) \/ (forall k m, ~ In (ESend k m) evs).
Proof.
  intros s th l th' evs H. next_inv H; des2;
  try (right; intros k0 m0 Hin; ev_in Hin; fail); left; eexists; eexists; left; reflexivity.
Qed.

(* the hub thread behind socket i, its key and that nobody else has that key *)
Lemma sock_sole : forall cfg s p e i, binv cfg s -> keys_distinct cfg ->
  nth_error (b_par s) p = Some (PB e) -> i < nrem e ->
  nth_error (hcfg_of cfg) (sock e i) = Some (skey e i, false, []) /\ sole (hcfg_of cfg) (skey e i) (sock e i).
Proof.
  intros cfg s p e i [Rh L C] KD Hp Hi.
  destruct (L _ _ Hp) as (x0 & H0 & S0). destruct x0 as [e0|t0]; [|simpl in S0; contradiction].
  destruct S0 as (Ea & Er & Eb).
  assert (Hi0 : i < List.length (e_remotes e0)) by (rewrite <- Er; exact Hi).
  destruct (mk_parties_socket _ _ _ _ i H0 Hi0) as [_ G]. rewrite Nat.sub_0_r in G.
  rewrite <- Eb, <- Er, <- Ea in G. split; [exact G|].
  exact (keys_sole _ _ _ KD G).
Qed.

Lemma skey_inj : forall e i j, NoDup (e_remotes e) -> i < nrem e -> j < nrem e -> skey e i = skey e j -> i = j.
Proof.
  intros e i j ND Hi Hj E. unfold skey in E. injection E as H1.
  destruct (Nat.eq_dec i j) as [|Hne]; auto. exfalso.
  exact (nth_NoDup_neq (e_remotes e) i j ND Hi Hj Hne H1).
Qed.

(* no thread of an all-plain hub is ever about to call a receive callback *)
Lemma plain_no_scall : forall hcfg s t th tg, all_plain hcfg -> hreach hcfg s ->
  nth_error (s_th s) t = Some th -> t_pc th <> PS (S_call tg).
Proof.
  intros hcfg s t th tg Hp R Ht E.
  destruct (icb_c _ (hreach_inv_cb _ _ R) _ _ _ Ht E) as (x & Hx & _ & K2).
  destruct (hreach_inv_keys _ _ R _ _ Hx) as (c & Hc & _ & E2).
  apply nth_error_In in Hc. rewrite (Hp c Hc) in E2. congruence.
Qed.

(* any hub step, seen from endpoint e *)
Lemma slog_step : forall cfg s p e t l h',
  binv cfg s -> keys_distinct cfg -> nth_error (b_par s) p = Some (PB e) -> NoDup (e_remotes e) ->
  slog (b_hub s) e -> stepl Fixed (b_hub s) t = Some (l, h') ->
  (e_cur e = Some (t - e_base e) /\ owns (PB e) t \/ ~ owns (PB e) t) ->
  slog h' e.
Proof.
  intros cfg s p e t l h' BI KD Hp ND A H Hown.
  pose proof BI as [Rh L C]. set (h := b_hub s) in *.
  pose proof (stepl_inv _ _ _ _ _ H) as (th & th' & evs & Ht & Hn & He & Hs').
  assert (Htr : s_tr h' = evs ++ s_tr h) by (subst h'; apply apply_tr).
  destruct (hreach_inv_keys _ _ Rh _ _ Ht) as (ct & Hct & Kt & _).
  (* an append for one of e's peers can only come from the socket for that peer *)
  assert (SRC : forall i k m, i < nrem e -> In (ESend k m) evs -> k = rkey (skey e i) -> t = sock e i).
  { intros i k m Hi Hin Ek. destruct (ne_send _ _ _ _ _ _ _ Hn Hin) as (Ek' & _).
    destruct (sock_sole _ _ _ _ i BI KD Hp Hi) as [_ Hsole].
    eapply Hsole; eauto. rewrite <- Kt. apply rkey_inj. congruence. }
  intros i x Hi Hx. rewrite Htr, sentq_app.
  destruct (step_threads _ _ _ _ _ _ _ H Hx) as (th0 & th0' & evs0 & Ht0 & Hn0 & Hcc).
  rewrite Ht in Ht0; inversion Ht0; subst th0. rewrite Hn in Hn0; inversion Hn0; subst th0' evs0.
  destruct Hcc as [[E Hcc]|[Hne (y & Hy & Hcc)]]; apply ctl_kc in Hcc; destruct Hcc as (_ & _ & Hpc & Hops & Hout).
  - (* the acting thread is socket i of e *)
    destruct Hown as [[Hc _]|Hno]; [|exfalso; apply Hno; rewrite <- E; apply owns_sock; auto].
    assert (Ei : t - e_base e = i) by (rewrite <- E; unfold sock; lia). rewrite Ei in Hc. clear Ei.
    destruct (c_cur _ _ (C _ _ Hp) i Hc) as (_ & o & rest & Ho & Hth).
    rewrite <- E in Ht.
    assert (Eth : t_ops th = [sop o]).
    { destruct (Hth _ Ht) as [E1|E1]; auto. unfold next in Hn. rewrite E1 in Hn. discriminate. }
    pose proof (A i th Hi Ht) as Pre.
    unfold inflight in *. rewrite Hc, Ho, Nat.eqb_refl in *. rewrite Hops, Hpc, Hout.
    destruct (sock_sole _ _ _ _ i BI KD Hp Hi) as [Hent _].
    assert (Kth : t_key th = skey e i).
    { destruct (hreach_inv_keys _ _ Rh _ _ Ht) as (c & Hc' & K1 & _). rewrite Hent in Hc'. inversion Hc'; subst. exact K1. }
    destruct o as [|m| |].
    + (* connect *) rewrite (sentq_none _ evs); [rewrite app_nil_r; exact Pre|].
      intros m Hin. destruct (ne_send _ _ _ _ _ _ _ Hn Hin) as (_ & _ & _ & _ & (r0 & Er) & _). rewrite Eth in Er. discriminate.
    + (* send m *)
      rewrite Eth in Pre.
      destruct (ne_send_dec _ _ _ _ _ Hn) as [(k & m' & Hin)|Hno].
      * destruct (ne_send _ _ _ _ _ _ _ Hn Hin) as (Ek & Ev & P1 & P2 & (r0 & Er) & O1 & O2).
        rewrite Eth in Er. simpl in Er. inversion Er; subst m' r0.
        rewrite Ev, Ek, Kth. unfold sentq at 2. cbn [rev app flat_map sentq_ev]. rewrite key_eqb_refl. cbn [app].
        rewrite P1 in Pre. rewrite P2, O1, Eth. rewrite app_nil_r in Pre. rewrite Pre. reflexivity.
      * rewrite (sentq_none _ evs) by (intros m0; apply Hno). rewrite app_nil_r.
        assert (NC : forall tg, t_pc th <> PS (S_call tg)) by (intros tg; eapply plain_no_scall; eauto; apply hcfg_all_plain).
        destruct (ne_send_quiet _ _ _ _ _ m [] Hn Eth Hno NC) as [(P1 & O1 & O2)|(P1 & P2 & [(O1 & O2)|(O1 & O2)])].
        -- rewrite P1 in Pre. rewrite O1, O2. exact Pre.
        -- rewrite O1, O2, Eth. destruct (t_pc th') as [|c|[]|c|c]; try exact Pre; try (destruct (t_pc th) as [|c0|[]|c0|c0]; try exact Pre; congruence); congruence.
        -- rewrite O1, O2. destruct (t_pc th) as [|c0|[]|c0|c0]; try (rewrite app_nil_r in *; exact Pre); congruence.
    + (* recv *) rewrite (sentq_none _ evs); [rewrite app_nil_r; exact Pre|].
      intros m Hin. destruct (ne_send _ _ _ _ _ _ _ Hn Hin) as (_ & _ & _ & _ & (r0 & Er) & _). rewrite Eth in Er. discriminate.
    + (* close *) rewrite (sentq_none _ evs); [rewrite app_nil_r; exact Pre|].
      intros m Hin. destruct (ne_send _ _ _ _ _ _ _ Hn Hin) as (_ & _ & _ & _ & (r0 & Er) & _). rewrite Eth in Er. discriminate.
  - (* another thread acted: socket i is unchanged, and nothing was appended for its peer *)
    rewrite (sentq_none _ evs).
    + rewrite app_nil_r. unfold inflight. rewrite Hops, Hpc, Hout. exact (A i y Hi Hy).
    + intros m Hin. apply Hne. symmetry. eapply SRC; eauto.
Qed.


(* ------------------------------------------------------------------ part 13 *)
Lemma inject_tr : forall h t o, s_tr (inject h t o) = s_tr h.
Proof. reflexivity. Qed.

(* a controller move that ends the op: everything in flight has been logged *)
Lemma slog_finish : forall h e ops' out' lg' dn',
  slog h e ->
  (forall i th, i < nrem e -> nth_error (s_th h) (sock e i) = Some th ->
     sent_on i (rev (e_log e)) ++ inflight e i th = sent_on i (rev lg')) ->
  slog h (e_set e ops' None out' lg' dn').
Proof.
  intros h e ops' out' lg' dn' A Hl i th Hi Hth.
  change (sock (e_set e ops' None out' lg' dn') i) with (sock e i) in Hth.
  change (nrem (e_set e ops' None out' lg' dn')) with (nrem e) in Hi.
  change (skey (e_set e ops' None out' lg' dn') i) with (skey e i).
  rewrite (A i th Hi Hth), (Hl i th Hi Hth). unfold inflight. cbn [e_cur e_set e_log]. rewrite app_nil_r. reflexivity.
Qed.

(* a controller move that hands the next socket-level op to socket j *)
Lemma slog_inject : forall h e j o' out' lg' dn',
  slog h e -> j < nrem e ->
  (forall i th, i < nrem e -> nth_error (s_th h) (sock e i) = Some th ->
     sent_on i (rev (e_log e)) ++ inflight e i th = sent_on i (rev lg')) ->
  slog (inject h (sock e j) o') (e_set e (e_ops e) (Some j) out' lg' dn').
Proof.
  intros h e j o' out' lg' dn' A Hj Hl i th Hi Hth.
  change (sock (e_set e (e_ops e) (Some j) out' lg' dn') i) with (sock e i) in Hth.
  change (nrem (e_set e (e_ops e) (Some j) out' lg' dn')) with (nrem e) in Hi.
  change (skey (e_set e (e_ops e) (Some j) out' lg' dn') i) with (skey e i).
  rewrite inject_tr. rewrite inject_threads in Hth.
  unfold inflight. cbn [e_cur e_ops e_set e_log].
  destruct (Nat.eqb (sock e i) (sock e j)) eqn:E.
  - apply Nat.eqb_eq in E. assert (i = j) by (unfold sock in E; lia). subst i.
    destruct (nth_error (s_th h) (sock e j)) as [y|] eqn:Hy; simpl in Hth; inversion Hth; subst th.
    rewrite (A j y Hj Hy), (Hl j y Hj Hy). cbn [inj_th t_ops t_pc t_out].
    destruct (e_ops e) as [|[] ?]; rewrite ?Nat.eqb_refl, ?app_nil_r; reflexivity.
  - apply Nat.eqb_neq in E. assert (j =? i = false) by (apply Nat.eqb_neq; intros ->; apply E; reflexivity).
    rewrite (A i th Hi Hth), (Hl i th Hi Hth).
    destruct (e_ops e) as [|[] ?]; rewrite ?H, ?app_nil_r; reflexivity.
Qed.

Lemma sent_on_single : forall i j m, sent_on i [(j, m)] = if j =? i then [m] else [].
Proof. intros. unfold sent_on. simpl. destruct (j =? i); reflexivity. Qed.

Lemma slog_settle1 : forall h e h' e',
  ctrl h e -> slog h e -> settle1 h e = Some (h', e') -> slog h' e'.
Proof.
  intros h e h' e' [C1 C2] A H. unfold settle1 in H. fold (nrem e) in H.
  destruct (e_ops e) as [|o rest] eqn:Ho; [discriminate|].
  destruct (e_cur e) as [i|] eqn:Ec.
  - destruct (C2 i eq_refl) as (Hi & o0 & rest0 & Ho0 & Hth0). inversion Ho0; subst o0 rest0.
    destruct (nth_error (s_th h) (sock e i)) as [th|] eqn:Hth; [|unfold sock in Hth; rewrite Hth in H; discriminate].
    unfold sock in Hth. rewrite Hth in H. fold (sock e i) in Hth.
    destruct (t_ops th) eqn:Hops; [|discriminate].
    destruct (t_out th) as [|r out0] eqn:Hout; [discriminate|].
    (* what is in flight: the message of a send that has just returned ok on the active socket *)
    assert (FL : forall j y, j < nrem e -> nth_error (s_th h) (sock e j) = Some y ->
              inflight e j y = match o, r with BSend m, ROk => if i =? j then [m] else [] | _, _ => [] end).
    { intros j y Hj Hy. unfold inflight. rewrite Ec, Ho. destruct o; try reflexivity.
      destruct (Nat.eqb i j) eqn:Eij.
      - apply Nat.eqb_eq in Eij; subst j. rewrite Hth in Hy. inversion Hy; subst y. rewrite Hops, Hout.
        destruct r; reflexivity.
      - destruct r; reflexivity. }
    assert (LOGGED : forall j y, j < nrem e -> nth_error (s_th h) (sock e j) = Some y ->
              sent_on j (rev (e_log e)) ++ inflight e j y =
              sent_on j (rev (match o, r with BSend m, ROk => (i, m) :: e_log e | _, _ => e_log e end))).
    { intros j y Hj Hy. rewrite (FL j y Hj Hy). destruct o; try (rewrite app_nil_r; reflexivity).
      destruct r; try (rewrite app_nil_r; reflexivity).
      simpl rev. rewrite sent_on_app, sent_on_single. reflexivity. }
    assert (NEXT :
      (if S i <? nrem e
       then Some (inject h (e_base e + S i) (sop o), e_set e (o :: rest) (Some (S i)) (e_out e)
                    (match o, r with BSend m, ROk => (i, m) :: e_log e | _, _ => e_log e end) (e_done e))
       else Some (h, e_set e rest None (BOk :: e_out e)
                    (match o, r with BSend m, ROk => (i, m) :: e_log e | _, _ => e_log e end) ((o, BOk) :: e_done e))) = Some (h', e') ->
      slog h' e').
    { intros G. destruct (S i <? nrem e) eqn:L; inversion G; subst.
      - apply Nat.ltb_lt in L. rewrite <- Ho. apply (slog_inject h e (S i)); auto.
      - apply slog_finish; auto. }
    assert (PLAIN : (forall m, ~ (o = BSend m /\ r = ROk)) -> forall j y, j < nrem e -> nth_error (s_th h) (sock e j) = Some y ->
              sent_on j (rev (e_log e)) ++ inflight e j y = sent_on j (rev (e_log e))).
    { intros NM j y Hj Hy. rewrite (LOGGED j y Hj Hy). destruct o; auto. destruct r; auto. exfalso. eapply NM; eauto. }
    destruct o; destruct r; try (apply (NEXT H));
      try (inversion H; subst; apply slog_finish; auto; apply PLAIN; intros ? [X Y]; discriminate).
    all: inversion H; subst;
      assert (Hj : (if S i <? nrem e then S i else 0) < nrem e) by (destruct (S i <? nrem e) eqn:L; [apply Nat.ltb_lt in L; exact L | lia]);
      rewrite <- Ho; apply (slog_inject h e _); auto; apply PLAIN; intros ? [X Y]; discriminate.
  - assert (PLAIN : forall j y, j < nrem e -> nth_error (s_th h) (sock e j) = Some y ->
              sent_on j (rev (e_log e)) ++ inflight e j y = sent_on j (rev (e_log e))).
    { intros j y _ _. unfold inflight. rewrite Ec. apply app_nil_r. }
    destruct (nrem e =? 0) eqn:N0.
    + destruct o; try discriminate; inversion H; subst; apply slog_finish; auto.
    + apply Nat.eqb_neq in N0. inversion H; subst.
      replace (e_base e) with (sock e 0) by (unfold sock; lia). rewrite <- Ho.
      apply (slog_inject h e 0); auto. lia.
Qed.


(* ------------------------------------------------------------------ part 14 *)
Lemma settle_slog : forall fuel h e h' e',
  ctrl h e -> slog h e -> settle fuel h e = (h', e') -> slog h' e'.
Proof.
  induction fuel as [|f IH]; intros h e h' e' C A H; simpl in H.
  - inversion H; subst. exact A.
  - destruct (settle1 h e) as [[h1 e1]|] eqn:E.
    + destruct (settle1_ok _ _ _ _ C E) as (C1 & _ & _).
      exact (IH h1 e1 h' e' C1 (slog_settle1 h e h1 e1 C A E) H).
    + inversion H; subst. exact A.
Qed.

Lemma settle_tr : forall fuel h e h' e', settle fuel h e = (h', e') -> s_tr h' = s_tr h.
Proof.
  induction fuel as [|f IH]; intros h e h' e' H; simpl in H.
  - inversion H; reflexivity.
  - destruct (settle1 h e) as [[h1 e1]|] eqn:E; [|inversion H; reflexivity].
    rewrite (IH _ _ _ _ H). unfold settle1 in E.
    destruct (e_ops e); [discriminate|]. destruct (e_cur e).
    + destruct (nth_error (s_th h) (e_base e + n)); [|discriminate].
      destruct (t_ops t); [|discriminate]. destruct (t_out t); [discriminate|].
      destruct b; destruct r; try (destruct (S n <? List.length (e_remotes e))); inversion E; reflexivity.
    + destruct (List.length (e_remotes e) =? 0); [destruct b; inversion E; reflexivity|inversion E; reflexivity].
Qed.

(* slog of an endpoint survives hub changes outside its sockets that leave the history alone *)
Lemma slog_frame : forall e0 e h h', frame e0 h h' -> s_tr h' = s_tr h ->
  (forall t, owns (PB e0) t -> owns (PB e) t -> False) -> slog h e -> slog h' e.
Proof.
  intros e0 e h h' F T D A. eapply slog_same; [|intros i Hi; rewrite T; reflexivity|exact A].
  apply same_ctl_agree. eapply frame_agree; eauto.
Qed.

Definition slogs (s : bstate) : Prop :=
  forall p e, nth_error (b_par s) p = Some (PB e) -> NoDup (e_remotes e) -> slog (b_hub s) e.

Lemma slogs_step : forall cfg s p l s', keys_distinct cfg -> binv cfg s -> slogs s -> bstep s p = Some (l, s') -> slogs s'.
Proof.
  intros cfg s p l s' KD BI AC H. pose proof BI as [Rh L C]. unfold bstep in H.
  destruct (nth_error (b_par s) p) as [[e|t]|] eqn:Hp; [| |discriminate].
  - destruct (e_cur e) as [i|] eqn:Ec; [|discriminate].
    destruct (stepl Fixed (b_hub s) (e_base e + i)) as [[l0 h1]|] eqn:Hs; [|discriminate].
    destruct (settle SETTLE_FUEL h1 e) as [h2 e'] eqn:Hst. inversion H; subst l0 s'. clear H.
    fold (sock e i) in Hs.
    pose proof (C _ _ Hp) as Ce. destruct (c_cur _ _ Ce i Ec) as (Hi & _).
    assert (C1 : ctrl h1 e) by (eapply ctrl_step_own; eauto).
    assert (R1 : hreach (hcfg_of cfg) h1) by (eapply hr_step; eauto).
    destruct (settle_ok _ _ _ _ _ _ C1 R1 Hst) as (C2 & L2 & R2 & F2).
    intros q e2 Hq ND. cbn [b_par b_hub] in Hq |- *. unfold set_party in Hq. destruct (Nat.eq_dec q p) as [->|Hne].
    + erewrite nth_set_nth_eq in Hq by eauto. inversion Hq; subst e2.
      assert (NDe : NoDup (e_remotes e)) by (rewrite <- (layout_remotes _ _ L2); exact ND).
      assert (A1 : slog h1 e).
      { eapply (slog_step cfg s p e (sock e i) l h1); eauto. left. split.
        - rewrite Ec. f_equal. unfold sock. lia.
        - apply owns_sock; auto. }
      exact (settle_slog _ _ _ _ _ C1 A1 Hst).
    + rewrite nth_set_nth_neq in Hq by auto.
      assert (D : forall t, owns (PB e) t -> owns (PB e2) t -> False).
      { intros t O1 O2. eapply (lay_disjoint cfg (b_par s) p q); eauto. }
      eapply slog_frame; eauto. { eapply settle_tr; eauto. }
      eapply (slog_step cfg s q e2 (sock e i) l h1); eauto. right. intros O. eapply D; eauto. apply owns_sock; auto.
  - destruct (stepl Fixed (b_hub s) t) as [[l0 h1]|] eqn:Hs; [|discriminate]. inversion H; subst l0 s'. clear H.
    intros q e2 Hq ND. cbn [b_par b_hub] in Hq |- *.
    eapply (slog_step cfg s q e2 t l h1); eauto. right. intros O.
    assert (q <> p) by (intros ->; rewrite Hp in Hq; discriminate).
    eapply (lay_disjoint cfg (b_par s) q p (PB e2) (PRaw t) t); eauto. simpl. reflexivity.
Qed.

Lemma settle_all_slog : forall hcfg ps h h' ps',
  settle_all h ps = (h', ps') -> hreach hcfg h ->
  (forall p e, nth_error ps p = Some (PB e) -> ctrl h e) -> pairwise_disj ps ->
  (forall p e, nth_error ps p = Some (PB e) -> slog h e) ->
  s_tr h' = s_tr h /\ forall p e', nth_error ps' p = Some (PB e') -> slog h' e'.
Proof.
  intros hcfg ps. induction ps as [|x ps IH]; intros h h' ps' H R C D A; cbn [settle_all] in H.
  - inversion H; subst. split; [reflexivity|]. intros p e' Hp. destruct p; discriminate.
  - destruct x as [e|t0].
    + destruct (settle SETTLE_FUEL h e) as [h1 e1] eqn:Hs.
      destruct (settle_all h1 ps) as [h2 r'] eqn:Hr. inversion H; subst; clear H.
      destruct (settle_ok _ _ _ _ _ _ (C 0 e eq_refl) R Hs) as (C1 & L1 & R1 & F1).
      pose proof (settle_tr _ _ _ _ _ Hs) as T1.
      assert (Dtail : forall p e2, nth_error ps p = Some (PB e2) -> forall t, owns (PB e) t -> owns (PB e2) t -> False).
      { intros p e2 Hp t O1 O2. apply (D 0 (S p) (PB e) (PB e2) t); simpl; auto. }
      assert (Ctail : forall p e2, nth_error ps p = Some (PB e2) -> ctrl h1 e2).
      { intros p e2 Hp. eapply ctrl_agree; [eapply frame_agree; eauto|apply (C (S p)); exact Hp]. }
      assert (Atail : forall p e2, nth_error ps p = Some (PB e2) -> slog h1 e2).
      { intros p e2 Hp. eapply slog_frame; eauto. apply (A (S p)); auto. }
      destruct (settle_all_ok _ _ _ _ _ Hr R1 Ctail (pairwise_tail _ _ D)) as (_ & _ & _ & F2).
      destruct (IH _ _ _ Hr R1 Ctail (pairwise_tail _ _ D) Atail) as [T2 A2].
      split; [congruence|].
      intros p e' Hp. destruct p as [|p]; simpl in Hp.
      * inversion Hp; subst e'.
        pose proof (settle_slog _ _ _ _ _ (C 0 e eq_refl) (A 0 e eq_refl) Hs) as A1.
        eapply slog_same; [|intros i Hi; rewrite T2; reflexivity|exact A1]. apply same_ctl_agree.
        intros i Hi. apply F2. intros q y Hq O.
        destruct (layout_sock _ _ L1) as [S1 N1].
        apply (D 0 (S q) (PB e) y (sock e1 i)); simpl; auto.
        rewrite S1. apply owns_sock. rewrite <- N1. exact Hi.
      * eauto.
    + destruct (settle_all h ps) as [h2 r'] eqn:Hr. inversion H; subst; clear H.
      destruct (IH _ _ _ Hr R) as [T2 A2].
      * intros q e2 Hq. apply (C (S q)); exact Hq.
      * eapply pairwise_tail; eauto.
      * intros q e2 Hq. apply (A (S q)); exact Hq.
      * split; auto. intros p e' Hp. destruct p as [|p]; simpl in Hp; [discriminate|eauto].
Qed.

Lemma init_slog : forall cfg p e, nth_error (mk_parties 0 cfg) p = Some (PB e) -> slog (init (hcfg_of cfg)) e.
Proof.
  intros cfg p e Hp i th Hi Hth.
  assert (Ecur : e_cur e = None /\ e_log e = []).
  { clear - Hp. revert p Hp. generalize 0 as base. induction cfg as [|c cfg IH]; intros base p Hp; simpl in Hp.
    - destruct p; discriminate.
    - destruct c; destruct p; simpl in Hp; try (inversion Hp; subst; auto; fail); try discriminate; eauto. }
  destruct Ecur as [E1 E2]. unfold inflight. rewrite E1, E2. reflexivity.
Qed.

Lemma slogs_init : forall cfg, slogs (binit cfg).
Proof.
  intros cfg. unfold binit.
  destruct (settle_all (init (flat_map hub_threads cfg)) (mk_parties 0 cfg)) as [h ps] eqn:H.
  intros p e Hp ND. cbn [b_par b_hub] in *.
  destruct (settle_all_slog (hcfg_of cfg) _ _ _ _ H (hr_init _)) as [_ G]; eauto.
  - intros q e2 Hq. eapply init_ctrl; eauto.
  - intros q q' x x' t. apply mk_parties_disjoint.
  - intros q e2 Hq. eapply init_slog; eauto.
Qed.

Lemma breach_slogs : forall cfg s, keys_distinct cfg -> breach cfg s -> slogs s.
Proof.
  intros cfg s KD R. induction R; [apply slogs_init|].
  apply (slogs_step cfg s p l s'); auto. apply breach_binv; auto.
Qed.

(* ================= what was appended to the queue of peer i is what the endpoint logged as sent
   on socket i, in order, plus at most the message of the send in progress *)
Definition bc_sent_log_stmt : Prop :=
  forall cfg sch p e i, keys_distinct cfg ->
    let s := brun (binit cfg) sch in
    nth_error (b_par s) p = Some (PB e) -> NoDup (e_remotes e) -> i < List.length (e_remotes e) ->
    exists infl, List.length infl <= 1 /\
      sent_log (nth i (e_remotes e) 0, e_app e, 0) (s_tr (b_hub s)) = sent_on i (rev (e_log e)) ++ infl.

Theorem bc_sent_log : bc_sent_log_stmt.
Proof.
  intros cfg sch p e i KD s Hp ND Hi.
  pose proof (breach_run cfg sch) as BR. fold s in BR.
  pose proof (breach_binv _ _ BR) as BI. pose proof BI as [Rh L C].
  pose proof (breach_slogs _ _ KD BR _ _ Hp ND) as A.
  destruct (sock_sole _ _ _ _ i BI KD Hp Hi) as [Hent _].
  assert (Hlen : sock e i < List.length (s_th (b_hub s))).
  { rewrite (hreach_length _ _ Rh). apply nth_error_Some. congruence. }
  destruct (nth_error (s_th (b_hub s)) (sock e i)) as [th|] eqn:Hth; [|apply nth_error_None in Hth; lia].
  set (k := (nth i (e_remotes e) 0, e_app e, 0)).
  destruct (nocb_logs_tr k (s_tr (b_hub s)) (hreach_nocb _ _ k (hcfg_all_plain cfg) Rh)) as [-> _].
  change k with (rkey (skey e i)). rewrite (A i th Hi Hth).
  exists (inflight e i th). split; auto.
  unfold inflight. destruct (e_cur e); simpl; auto. destruct (e_ops e) as [|[] ?]; simpl; auto.
  destruct (n =? i); simpl; auto.
  destruct (t_ops th); [destruct (t_out th) as [|[] ?]; simpl; auto|].
  destruct (t_pc th) as [| |[]| |]; simpl; auto.
Qed.


(* ------------------------------------------------------------------ part 15 *)
(* a broadcast that ended ok was logged on every socket; one in progress on all sockets before the current one *)
Record dinv (e : endpoint) : Prop := {
  d_done : forall m, In (BSend m, BOk) (e_done e) -> forall i, i < nrem e -> In (i, m) (e_log e);
  d_run : forall c m rest, e_cur e = Some c -> e_ops e = BSend m :: rest -> forall j, j < c -> In (j, m) (e_log e) }.

Lemma dinv_settle1 : forall h e h' e', ctrl h e -> dinv e -> settle1 h e = Some (h', e') -> dinv e'.
Proof.
  intros h e h' e' [C1 C2] [D1 D2] H. unfold settle1 in H. fold (nrem e) in H.
  destruct (e_ops e) as [|o rest] eqn:Ho; [discriminate|].
  destruct (e_cur e) as [i|] eqn:Ec.
  - destruct (C2 i eq_refl) as (Hi & _).
    destruct (nth_error (s_th h) (e_base e + i)) as [th|]; [|discriminate].
    destruct (t_ops th); [|discriminate]. destruct (t_out th) as [|r out0]; [discriminate|].
    assert (KEEP : forall r0, (forall m, (o, r0) <> (BSend m, BOk)) ->
              dinv (e_set e rest None (r0 :: e_out e) (e_log e) ((o, r0) :: e_done e))).
    { intros r0 NE. split; cbn [e_done e_log e_cur e_ops e_set].
      - intros m [X|X] j Hj; [exfalso; eapply NE; eauto | exact (D1 m X j Hj)].
      - intros c m rest0 X. discriminate. }
    assert (POLL : forall j, o = BRecv -> dinv (e_set e (o :: rest) (Some j) (e_out e) (e_log e) (e_done e))).
    { intros j Eo. split; cbn [e_done e_log e_cur e_ops e_set].
      - exact D1.
      - intros c m rest0 _ X. subst o. discriminate. }
    assert (NEXT : forall lg, (forall x, In x (e_log e) -> In x lg) ->
              (forall m, o = BSend m -> In (i, m) lg) ->
              (if S i <? nrem e
               then Some (inject h (e_base e + S i) (sop o), e_set e (o :: rest) (Some (S i)) (e_out e) lg (e_done e))
               else Some (h, e_set e rest None (BOk :: e_out e) lg ((o, BOk) :: e_done e))) = Some (h', e') -> dinv e').
    { intros lg Sub New G. destruct (S i <? nrem e) eqn:L; inversion G; subst.
      - split; cbn [e_done e_log e_cur e_ops e_set].
        + intros m X j Hj. apply Sub. exact (D1 m X j Hj).
        + intros c m rest0 X Y j Hj. inversion X; subst c. inversion Y; subst.
          destruct (Nat.eq_dec j i) as [->|Hne]; [apply New; reflexivity|].
          apply Sub. eapply (D2 i m rest0); eauto. lia.
      - apply Nat.ltb_ge in L. split; cbn [e_done e_log e_cur e_ops e_set].
        + intros m [X|X] j Hj.
          * inversion X; subst.
            destruct (Nat.eq_dec j i) as [->|Hne]; [apply New; reflexivity|].
            apply Sub. eapply (D2 i m rest); eauto. unfold nrem in *. cbn [e_remotes e_set] in Hj. lia.
          * apply Sub. exact (D1 m X j Hj).
        + intros c m rest0 X. discriminate. }
    destruct o; destruct r;
      try (refine (NEXT _ _ _ H); [auto | intros ? X; discriminate X]);
      try (inversion H; subst; apply KEEP; intros ? X; discriminate X);
      try (inversion H; subst; apply POLL; reflexivity).
    (* send returned ok: logged *)
    refine (NEXT _ _ _ H).
    + intros x X. right. exact X.
    + intros m0 X. inversion X; subst. left. reflexivity.
  - destruct (nrem e =? 0) eqn:N0.
    + apply Nat.eqb_eq in N0.
      destruct o; try discriminate; inversion H; subst; split; cbn [e_done e_log e_cur e_ops e_set];
        try (intros c m0 rest0 X; discriminate);
        intros m0 X j Hj; exfalso; unfold nrem in *; cbn [e_remotes e_set] in Hj; lia.
    + inversion H; subst. split; cbn [e_done e_log e_cur e_ops e_set].
      * exact D1.
      * intros c m rest0 X Y j Hj. inversion X; subst. lia.
Qed.

Lemma settle_dinv : forall fuel h e h' e', ctrl h e -> dinv e -> settle fuel h e = (h', e') -> dinv e'.
Proof.
  induction fuel as [|f IH]; intros h e h' e' C D H; simpl in H.
  - inversion H; subst. exact D.
  - destruct (settle1 h e) as [[h1 e1]|] eqn:E.
    + destruct (settle1_ok _ _ _ _ C E) as (C1 & _ & _).
      exact (IH h1 e1 h' e' C1 (dinv_settle1 h e h1 e1 C D E) H).
    + inversion H; subst. exact D.
Qed.

Definition dinvs (s : bstate) : Prop := forall p e, nth_error (b_par s) p = Some (PB e) -> dinv e.

Lemma dinvs_step : forall cfg s p l s', binv cfg s -> dinvs s -> bstep s p = Some (l, s') -> dinvs s'.
Proof.
  intros cfg s p l s' [Rh L C] DS H. unfold bstep in H.
  destruct (nth_error (b_par s) p) as [[e|t]|] eqn:Hp; [| |discriminate].
  - destruct (e_cur e) as [i|] eqn:Ec; [|discriminate].
    destruct (stepl Fixed (b_hub s) (e_base e + i)) as [[l0 h1]|] eqn:Hs; [|discriminate].
    destruct (settle SETTLE_FUEL h1 e) as [h2 e'] eqn:Hst. inversion H; subst l0 s'. clear H.
    fold (sock e i) in Hs.
    assert (C1 : ctrl h1 e) by (eapply ctrl_step_own; eauto).
    intros q e2 Hq. cbn [b_par] in Hq. unfold set_party in Hq. destruct (Nat.eq_dec q p) as [->|Hne].
    + erewrite nth_set_nth_eq in Hq by eauto. inversion Hq; subst e2.
      exact (settle_dinv _ _ _ _ _ C1 (DS _ _ Hp) Hst).
    + rewrite nth_set_nth_neq in Hq by auto. eauto.
  - destruct (stepl Fixed (b_hub s) t) as [[l0 h1]|] eqn:Hs; [|discriminate]. inversion H; subst l0 s'. clear H.
    exact DS.
Qed.

Lemma settle_all_dinv : forall hcfg ps h h' ps',
  settle_all h ps = (h', ps') -> hreach hcfg h ->
  (forall p e, nth_error ps p = Some (PB e) -> ctrl h e) -> pairwise_disj ps ->
  (forall p e, nth_error ps p = Some (PB e) -> dinv e) ->
  forall p e', nth_error ps' p = Some (PB e') -> dinv e'.
Proof.
  intros hcfg ps. induction ps as [|x ps IH]; intros h h' ps' H R C D A; cbn [settle_all] in H.
  - inversion H; subst. intros p e' Hp. destruct p; discriminate.
  - destruct x as [e|t0].
    + destruct (settle SETTLE_FUEL h e) as [h1 e1] eqn:Hs.
      destruct (settle_all h1 ps) as [h2 r'] eqn:Hr. inversion H; subst; clear H.
      destruct (settle_ok _ _ _ _ _ _ (C 0 e eq_refl) R Hs) as (C1 & L1 & R1 & F1).
      assert (Ctail : forall p e2, nth_error ps p = Some (PB e2) -> ctrl h1 e2).
      { intros p e2 Hp. eapply ctrl_agree; [eapply frame_agree; eauto|apply (C (S p)); exact Hp].
        intros t O1 O2. apply (D 0 (S p) (PB e) (PB e2) t); simpl; auto. }
      intros p e' Hp. destruct p as [|p]; simpl in Hp.
      * inversion Hp; subst e'. exact (settle_dinv _ _ _ _ _ (C 0 e eq_refl) (A 0 e eq_refl) Hs).
      * eapply (IH _ _ _ Hr R1 Ctail (pairwise_tail _ _ D)); eauto. intros q e2 Hq. apply (A (S q)); exact Hq.
    + destruct (settle_all h ps) as [h2 r'] eqn:Hr. inversion H; subst; clear H.
      intros p e' Hp. destruct p as [|p]; simpl in Hp; [discriminate|].
      eapply (IH _ _ _ Hr R); eauto.
      * intros q e2 Hq. apply (C (S q)); exact Hq.
      * eapply pairwise_tail; eauto.
      * intros q e2 Hq. apply (A (S q)); exact Hq.
Qed.

Lemma init_dinv : forall cfg p e, nth_error (mk_parties 0 cfg) p = Some (PB e) -> dinv e.
Proof.
  intros cfg p e Hp.
  assert (E : e_cur e = None /\ e_done e = []).
  { clear - Hp. revert p Hp. generalize 0 as base. induction cfg as [|c cfg IH]; intros base p Hp; simpl in Hp.
    - destruct p; discriminate.
    - destruct c; destruct p; simpl in Hp; try (inversion Hp; subst; auto; fail); try discriminate; eauto. }
  destruct E as [E1 E2]. split.
  - intros m X. rewrite E2 in X. contradiction.
  - intros c m rest X. congruence.
Qed.

Lemma breach_dinvs : forall cfg s, breach cfg s -> dinvs s.
Proof.
  intros cfg s R. induction R.
  - unfold binit.
    destruct (settle_all (init (flat_map hub_threads cfg)) (mk_parties 0 cfg)) as [h ps] eqn:H.
    intros p e Hp. cbn [b_par] in Hp.
    eapply (settle_all_dinv (hcfg_of cfg) _ _ _ _ H (hr_init _)); eauto.
    + intros q e2 Hq. eapply init_ctrl; eauto.
    + intros q q' x x' t. apply mk_parties_disjoint.
    + intros q e2 Hq. eapply init_dinv; eauto.
  - apply (dinvs_step cfg s p l s'); auto. apply breach_binv; auto.
Qed.

Lemma in_sent_on : forall i m lg, In (i, m) lg -> In m (sent_on i lg).
Proof.
  intros i m lg H. unfold sent_on. apply in_flat_map. exists (i, m). split; auto. simpl. rewrite Nat.eqb_refl. left; reflexivity.
Qed.

(* ================= a broadcast that returned ok was handed to the hub for EVERY other party *)
Definition bc_send_all_stmt : Prop :=
  forall cfg sch p e m, keys_distinct cfg ->
    let s := brun (binit cfg) sch in
    nth_error (b_par s) p = Some (PB e) -> NoDup (e_remotes e) ->
    In (BSend m, BOk) (e_done e) ->
    forall i, i < List.length (e_remotes e) ->
      In m (sent_log (nth i (e_remotes e) 0, e_app e, 0) (s_tr (b_hub s))).

Theorem bc_send_all : bc_send_all_stmt.
Proof.
  intros cfg sch p e m KD s Hp ND Hd i Hi.
  destruct (bc_sent_log cfg sch p e i KD Hp ND Hi) as (infl & _ & E). fold s in E. rewrite E.
  apply in_or_app. left. apply in_sent_on. apply in_rev. rewrite rev_involutive.
  pose proof (breach_dinvs _ _ (breach_run cfg sch) _ _ Hp) as [D1 _]. exact (D1 m Hd i Hi).
Qed.
