(* CycloProofs.v — the bridge from K32 to every ring with a primitive-64th-root
   candidate: for every commutative ring R (Coq's ring_theory over Leibniz
   equality) with elements omega, half such that omega^32 = -1 and
   (1+1)*half = 1, the evaluation  keval : K32 -> R,
        keval (c, e) = (sum_k c_k omega^k) * half^e
   maps kzero, kone, khalf, kw k to 0, 1, half, omega^k and commutes with kadd,
   kmul, kneg, ksub (including the normalisation every operation performs).
   Hence every scalar identity computed in K32 holds in R.  That the complex
   numbers with omega = e^{i pi/32} are such a ring is standard mathematics and is
   NOT formalised here. *)
From Coq Require Import ZArith List Bool Lia Ring Ring_theory InitialRing Setoid Arith.
From NQ Require Import Base.Cyclo.
Import ListNotations.

Section Eval.
  Variable R : Type.
  Variables (rO rI : R) (radd rmul rsub : R -> R -> R) (ropp : R -> R).
  Hypothesis Rth : ring_theory rO rI radd rmul rsub ropp (@eq R).
  Variables (omega half : R).

  Declare Scope R_scope.
  Delimit Scope R_scope with R.
  Local Notation "0" := rO : R_scope.
  Local Notation "1" := rI : R_scope.
  Local Infix "+" := radd : R_scope.
  Local Infix "*" := rmul : R_scope.
  Local Infix "-" := rsub : R_scope.
  Local Notation "- x" := (ropp x) : R_scope.
  Local Open Scope R_scope.

  Add Ring Rring : Rth.

  Definition zr (z : Z) : R := gen_phiZ rO rI radd rmul ropp z.
  Arguments zr : simpl never.
  Fixpoint peval (p : poly) : R :=
    match p with [] => 0 | a :: p' => zr a + omega * peval p' end.
  Fixpoint hpow (e : nat) : R := match e with O => 1 | S e' => half * hpow e' end.
  Fixpoint opow (k : nat) : R := match k with O => 1 | S k' => omega * opow k' end.
  Definition keval (a : K32) : R := peval (kc a) * hpow (ke a).

  Let Zm := gen_phiZ_morph (Eqsth R) (Eq_ext radd rmul ropp) Rth.

  Lemma zr_0 : zr 0%Z = 0. Proof. exact (morph0 Zm). Qed.
  Lemma zr_1 : zr 1%Z = 1. Proof. exact (morph1 Zm). Qed.
  Lemma zr_add : forall x y, zr (x + y)%Z = zr x + zr y. Proof. exact (morph_add Zm). Qed.
  Lemma zr_mul : forall x y, zr (x * y)%Z = zr x * zr y. Proof. exact (morph_mul Zm). Qed.
  Lemma zr_opp : forall x, zr (- x)%Z = - zr x. Proof. exact (morph_opp Zm). Qed.

  Lemma peval_padd : forall p q, peval (padd p q) = peval p + peval q.
  Proof.
    induction p as [|a p IH]; intros q; cbn.
    - ring.
    - destruct q as [|b q]; cbn.
      + ring.
      + rewrite IH, zr_add. ring.
  Qed.

  Lemma peval_pscale : forall c p, peval (pscale c p) = zr c * peval p.
  Proof.
    intros c. induction p as [|a p IH]; cbn.
    - ring.
    - unfold pscale in IH. rewrite IH, zr_mul. ring.
  Qed.

  Lemma peval_pneg : forall p, peval (pneg p) = - peval p.
  Proof.
    induction p as [|a p IH]; cbn.
    - ring.
    - unfold pneg in IH. rewrite IH, zr_opp. ring.
  Qed.

  Lemma peval_pmul : forall p q, peval (pmul p q) = peval p * peval q.
  Proof.
    induction p as [|a p IH]; intros q; cbn.
    - ring.
    - destruct (a =? 0)%Z eqn:Ea.
      + apply Z.eqb_eq in Ea. subst a. cbn. rewrite IH, zr_0. ring.
      + rewrite peval_padd, peval_pscale. cbn. rewrite IH, zr_0. ring.
  Qed.

  Lemma peval_app : forall p q, peval (p ++ q) = peval p + opow (List.length p) * peval q.
  Proof.
    induction p as [|a p IH]; intros q; cbn.
    - ring.
    - rewrite IH. ring.
  Qed.

  Lemma opow_add : forall a b, opow (a + b) = opow a * opow b.
  Proof. induction a as [|a IH]; intros b; cbn; [ring | rewrite IH; ring]. Qed.

  Lemma hpow_add : forall a b, hpow (a + b) = hpow a * hpow b.
  Proof. induction a as [|a IH]; intros b; cbn; [ring | rewrite IH; ring]. Qed.

  Lemma peval_ptrim : forall p, peval (ptrim p) = peval p.
  Proof.
    induction p as [|a p IH]; cbn; [reflexivity|].
    destruct (ptrim p) as [|t ts] eqn:Et.
    - rewrite <- IH. destruct (a =? 0)%Z eqn:Ea; cbn.
      + apply Z.eqb_eq in Ea. subst a. rewrite zr_0. ring.
      + ring.
    - rewrite <- IH. cbn. reflexivity.
  Qed.

  Hypothesis omega32 : opow 32 = ropp rI.
  Hypothesis half2 : (1 + 1) * half = 1.

  Lemma peval_preduce : forall p, peval (preduce p) = peval p.
  Proof.
    intros p. unfold preduce. rewrite peval_padd, peval_pneg.
    rewrite <- (firstn_skipn 32 p) at 3. rewrite peval_app.
    destruct (Nat.le_gt_cases (List.length p) 32) as [Hle|Hgt].
    - rewrite (skipn_all2 p Hle). cbn. ring.
    - rewrite firstn_length_le by lia. rewrite omega32. ring.
  Qed.

  Lemma zr_2 : zr 2%Z = 1 + 1.
  Proof. change 2%Z with (1 + 1)%Z. rewrite zr_add, zr_1. reflexivity. Qed.

  Lemma peval_even : forall p, forallb Z.even p = true ->
    peval p = (1 + 1) * peval (map Z.div2 p).
  Proof.
    induction p as [|a p IH]; cbn; intros H.
    - ring.
    - apply andb_true_iff in H. destruct H as [Ha Hp].
      rewrite (IH Hp).
      assert (Ea : a = (2 * Z.div2 a)%Z).
      { rewrite (Z.div2_odd a) at 1. rewrite <- Z.negb_even, Ha. cbn. lia. }
      rewrite Ea at 1. rewrite zr_mul, zr_2. ring.
  Qed.

  Lemma keval_khalve : forall e p, keval (khalve p e) = peval p * hpow e.
  Proof.
    induction e as [|e IH]; intros p; cbn.
    - reflexivity.
    - destruct (forallb Z.even p) eqn:Ev.
      + rewrite IH. rewrite (peval_even p Ev).
        replace ((1 + 1) * peval (map Z.div2 p) * (half * hpow e))
          with (((1 + 1) * half) * (peval (map Z.div2 p) * hpow e)) by ring.
        rewrite half2. ring.
      + reflexivity.
  Qed.

  Lemma keval_knorm : forall x, keval (knorm x) = keval x.
  Proof.
    intros x. unfold knorm. rewrite keval_khalve, peval_ptrim. reflexivity.
  Qed.

  Lemma pow2_hpow : forall k, zr (pow2 k) * hpow k = 1.
  Proof.
    induction k as [|k IH]; cbn [pow2 hpow].
    - rewrite zr_1. ring.
    - rewrite zr_mul, zr_2.
      replace ((1 + 1) * zr (pow2 k) * (half * hpow k))
        with (((1 + 1) * half) * (zr (pow2 k) * hpow k)) by ring.
      rewrite half2, IH. ring.
  Qed.

  Theorem keval_zero : keval kzero = 0.
  Proof. unfold keval. cbn. ring. Qed.

  Theorem keval_one : keval kone = 1.
  Proof. unfold keval. cbn. rewrite zr_1. ring. Qed.

  Theorem keval_half : keval khalf = half.
  Proof. unfold keval. cbn. rewrite zr_1. ring. Qed.

  Theorem keval_add : forall a b, keval (kadd a b) = keval a + keval b.
  Proof.
    intros a b. unfold kadd. rewrite keval_knorm. unfold keval. cbn [kc ke].
    rewrite peval_padd, !peval_pscale, hpow_add.
    replace ((zr (pow2 (ke b)) * peval (kc a) + zr (pow2 (ke a)) * peval (kc b)) * (hpow (ke a) * hpow (ke b)))
      with (peval (kc a) * hpow (ke a) * (zr (pow2 (ke b)) * hpow (ke b))
            + peval (kc b) * hpow (ke b) * (zr (pow2 (ke a)) * hpow (ke a))) by ring.
    rewrite !pow2_hpow. ring.
  Qed.

  Theorem keval_neg : forall a, keval (kneg a) = - keval a.
  Proof. intros a. unfold keval, kneg. cbn [kc ke]. rewrite peval_pneg. ring. Qed.

  Theorem keval_sub : forall a b, keval (ksub a b) = keval a - keval b.
  Proof. intros a b. unfold ksub. rewrite keval_add, keval_neg. ring. Qed.

  Theorem keval_mul : forall a b, keval (kmul a b) = keval a * keval b.
  Proof.
    intros a b. unfold kmul. rewrite keval_knorm. unfold keval. cbn [kc ke].
    rewrite peval_preduce, peval_pmul, hpow_add. ring.
  Qed.

  (* w^k |-> omega^k for every k *)
  Lemma peval_monomial : forall k c, peval (repeat 0%Z k ++ [c]) = opow k * zr c.
  Proof.
    induction k as [|k IH]; intros c; cbn.
    - ring.
    - rewrite IH, zr_0. ring.
  Qed.

  Lemma opow_64 : opow 64 = 1.
  Proof. change 64%nat with (32 + 32)%nat. rewrite opow_add, omega32. ring. Qed.

  Lemma opow_mul64 : forall q, opow (64 * q) = 1.
  Proof.
    induction q as [|q IH].
    - reflexivity.
    - replace (64 * S q)%nat with (64 + 64 * q)%nat by lia.
      rewrite opow_add, opow_64, IH. ring.
  Qed.

  Lemma opow_mod : forall k, opow k = opow (k mod 64).
  Proof.
    intros k. rewrite (Nat.div_mod k 64) at 1 by lia.
    rewrite opow_add, opow_mul64. ring.
  Qed.

  Theorem keval_kw : forall k, keval (kw k) = opow k.
  Proof.
    intros k. rewrite (opow_mod k). unfold kw.
    assert (Hlt : (k mod 64 < 64)%nat) by (apply Nat.mod_upper_bound; lia).
    set (m := (k mod 64)%nat) in *.
    destruct (Nat.ltb m 32) eqn:E; unfold keval; cbn [kc ke hpow].
    - rewrite peval_monomial, zr_1. ring.
    - apply Nat.ltb_ge in E. rewrite peval_monomial.
      change (-1)%Z with (- (1))%Z. rewrite zr_opp, zr_1.
      replace (opow m) with (opow (32 + (m - 32))) by (f_equal; lia).
      rewrite opow_add, omega32. ring.
  Qed.

  Theorem keval_w1 : keval (kw 1) = omega.
  Proof. rewrite keval_kw. cbn. ring. Qed.

  Theorem keval_ofZ : forall z, keval (kofZ z) = zr z.
  Proof. intros z. unfold kofZ. rewrite keval_knorm. unfold keval. cbn. ring. Qed.

  (* ---- conjugation: any ring endomorphism cj with cj omega = omega^-1 (= omega^63)
     and cj half = half commutes with kconj (on elements with at most 64 coefficients;
     canonical forms have at most 32) ---- *)
  Section Conj.
    Variable cj : R -> R.
    Hypothesis cj_0 : cj 0 = 0.
    Hypothesis cj_1 : cj 1 = 1.
    Hypothesis cj_add : forall x y, cj (x + y) = cj x + cj y.
    Hypothesis cj_mul : forall x y, cj (x * y) = cj x * cj y.
    Hypothesis cj_opp : forall x, cj (- x) = - cj x.
    Hypothesis cj_omega : cj omega = opow 63.
    Hypothesis cj_half : cj half = half.

    Fixpoint pevalx (x : R) (p : poly) : R :=
      match p with [] => 0 | a :: p' => zr a + x * pevalx x p' end.
    Fixpoint xpow (x : R) (k : nat) : R := match k with O => 1 | S k' => x * xpow x k' end.

    Lemma cj_zr_nat : forall n, cj (zr (Z.of_nat n)) = zr (Z.of_nat n).
    Proof.
      induction n as [|n IH].
      - change (Z.of_nat 0) with 0%Z. rewrite zr_0. exact cj_0.
      - rewrite Nat2Z.inj_succ, <- Z.add_1_r, zr_add, cj_add, IH, zr_1, cj_1. reflexivity.
    Qed.

    Lemma cj_zr : forall z, cj (zr z) = zr z.
    Proof.
      intros z. destruct (Z_le_gt_dec 0 z) as [H|H].
      - rewrite <- (Z2Nat.id z H). apply cj_zr_nat.
      - replace z with (- Z.of_nat (Z.to_nat (- z)))%Z by (rewrite Z2Nat.id; lia).
        rewrite zr_opp, cj_opp, cj_zr_nat. reflexivity.
    Qed.

    Lemma cj_peval : forall p, cj (peval p) = pevalx (opow 63) p.
    Proof.
      induction p as [|a p IH]; cbn [peval pevalx].
      - exact cj_0.
      - rewrite cj_add, cj_mul, cj_zr, cj_omega, IH. reflexivity.
    Qed.

    Lemma cj_hpow : forall e, cj (hpow e) = hpow e.
    Proof. induction e as [|e IH]; cbn [hpow]; [exact cj_1 | rewrite cj_mul, cj_half, IH; reflexivity]. Qed.

    Lemma omega_inv : omega * opow 63 = 1.
    Proof. change (omega * opow 63) with (opow 64). apply opow_64. Qed.

    Lemma opow_compl : forall k, (k <= 64)%nat -> opow (64 - k) = xpow (opow 63) k.
    Proof.
      induction k as [|k IH]; intros Hk.
      - cbn [xpow]. apply opow_64.
      - cbn [xpow]. rewrite <- IH by lia.
        replace (64 - k)%nat with (S (64 - S k)) by lia.
        change (opow (S (64 - S k))) with (omega * opow (64 - S k)).
        transitivity ((omega * opow 63) * opow (64 - S k)); [rewrite omega_inv; ring | ring].
    Qed.

    Lemma peval_pconj_tail : forall t k, (k + List.length t <= 64)%nat ->
      peval (pconj_tail t k) = xpow (opow 63) k * pevalx (opow 63) t.
    Proof.
      induction t as [|a t IH]; intros k Hk; cbn [pconj_tail pevalx peval].
      - ring.
      - cbn [List.length] in Hk.
        rewrite peval_padd, peval_monomial, (IH (S k)) by lia.
        rewrite opow_compl by lia. cbn [xpow]. ring.
    Qed.

    Theorem keval_kconj : forall a, (List.length (kc a) <= 64)%nat ->
      keval (kconj a) = cj (keval a).
    Proof.
      intros [c e] Hl. unfold kconj. cbn [kc ke] in *. destruct c as [|a0 t].
      - unfold keval. cbn [kc ke peval]. rewrite cj_mul, cj_0. ring.
      - rewrite keval_knorm. unfold keval. cbn [kc ke].
        rewrite peval_preduce, peval_padd. cbn [peval].
        cbn [List.length] in Hl. rewrite (peval_pconj_tail t 1) by lia.
        rewrite cj_mul, cj_hpow, cj_add, cj_mul, cj_zr, cj_omega, cj_peval. cbn [xpow]. ring.
    Qed.
  End Conj.

End Eval.

(* The statement with every parameter visible. *)
Definition eval_hom_statement : Prop :=
  forall (R : Type) (rO rI : R) (radd rmul rsub : R -> R -> R) (ropp : R -> R)
         (Rth : ring_theory rO rI radd rmul rsub ropp (@eq R)) (omega half : R),
    opow R rI rmul omega 32 = ropp rI ->
    rmul (radd rI rI) half = rI ->
    let ev := keval R rO rI radd rmul ropp omega half in
    ev kzero = rO /\ ev kone = rI /\ ev khalf = half /\
    (forall k, ev (kw k) = opow R rI rmul omega k) /\
    (forall a b, ev (kadd a b) = radd (ev a) (ev b)) /\
    (forall a b, ev (kmul a b) = rmul (ev a) (ev b)) /\
    (forall a, ev (kneg a) = ropp (ev a)) /\
    (forall a b, ev (ksub a b) = rsub (ev a) (ev b)).

Theorem eval_hom : eval_hom_statement.
Proof.
  intros R rO rI radd rmul rsub ropp Rth omega half H32 H2 ev. unfold ev.
  split; [apply (keval_zero R rO rI radd rmul rsub ropp Rth)|].
  split; [apply (keval_one R rO rI radd rmul rsub ropp Rth)|].
  split; [apply (keval_half R rO rI radd rmul rsub ropp Rth)|].
  split; [apply (keval_kw R rO rI radd rmul rsub ropp Rth omega half H32)|].
  split; [apply (keval_add R rO rI radd rmul rsub ropp Rth omega half H2)|].
  split; [apply (keval_mul R rO rI radd rmul rsub ropp Rth omega half H32 H2)|].
  split; [apply (keval_neg R rO rI radd rmul rsub ropp Rth)|].
  apply (keval_sub R rO rI radd rmul rsub ropp Rth omega half H2).
Qed.
