(* Bridge_Sdk.v — bridge from the private interpreter of C05/C14 (Sdk/Target.v:
   exec_instr, the instruction semantics under both the big-step semantics of
   the structured IR and the flat-code step) to the common semantics with
   abstract quantum events (Exec/SemQ.v).

   PARTIAL (see design/C04.md): Target.v is a PROTO-level language (immediates in
   value positions, literal modulus / array length, labels occupying code
   positions); the common semantics is the machine level.  The bridge is per
   INSTRUCTION, for the instructions whose value operands are registers:
     ISet, IQ (qalloc / init / qfree / one-qubit gate), IRot, ITwo, IMeas,
     IStore (PReg v) a ix, ILoad r a ix (ix a register or an immediate),
     IAdd d x (PReg y), IRetArr, IRetReg.
   Not covered: IAdd with an immediate, IAddm (literal modulus), IArray (literal
   length), IStore of an immediate (the assembler materialises these through
   scratch registers: C03), IOpaque, labels/branches of flat code. *)
From Coq Require Import ZArith List Bool Lia ZifyBool.
From NQ Require Sdk.SdkAst Sdk.Target.
From NQ Require Import Exec.State Exec.Sem Exec.SemQ Proofs.ExecProofs Proofs.BridgeCommon Proofs.SemQProofs.
Import ListNotations.
Open Scope Z_scope.

Module G := NQ.Sdk.Target.
Module A := NQ.Sdk.SdkAst.

(* ------------------------------------------------------------------ embedding *)
Definition e_bank (b : G.bank) : bank :=
  match b with G.BR => BR | G.BC => BC | G.BQ => BQ | G.BM => BM end.
Definition e_reg (r : G.reg) : reg := match r with G.Rg b i => (e_bank b, Z.of_nat i) end.
Definition e_ix (o : G.rop) : opnd := match o with G.PImm z => OImm z | G.PReg r => OReg (e_reg r) end.

Definition TAG_INIT : Z := 0.
Definition g1_tag (g : A.gate1) : Z :=
  match g with A.GX => 10 | A.GY => 11 | A.GZ => 12 | A.GH => 13 | A.GK => 14 | A.GS => 15 | A.GT => 16 end.
Definition ax_num (a : A.axis) : Z := match a with A.AX => 0 | A.AY => 1 | A.AZ => 2 end.
Definition g2_tag (g : A.gate2) : Z := match g with A.TCnot => 30 | A.TCphase => 31 end.

Definition e_instr (i : G.instr) : option qinstr :=
  match i with
  | G.ISet r z => Some (QC (ISet (e_reg r) z))
  | G.IQ G.QAlloc r => Some (QC (IQalloc (e_reg r)))
  | G.IQ G.QFree r => Some (QC (IQfree (e_reg r)))
  | G.IQ G.QInit r => Some (QGate TAG_INIT [] [e_reg r])
  | G.IQ (G.QG g) r => Some (QGate (g1_tag g) [] [e_reg r])
  | G.IRot ax r n d => Some (QGate (20 + ax_num ax) [n; d] [e_reg r])
  | G.ITwo t r1 r2 => Some (QGate (g2_tag t) [] [e_reg r1; e_reg r2])
  | G.IMeas q m => Some (QMeas (e_reg q) (e_reg m))
  | G.IStore (G.PReg v) a ix => Some (QC (IStore (e_reg v) (Z.of_nat a) (e_ix ix)))
  | G.ILoad r a ix => Some (QC (ILoad (e_reg r) (Z.of_nat a) (e_ix ix)))
  | G.IAdd d x (G.PReg y) => Some (QC (IClassical (COp OAdd (e_reg d) (e_reg x) (e_reg y))))
  | G.IRetArr a => Some (QC (IRetArr (Z.of_nat a)))
  | G.IRetReg r => Some (QC (IRetReg (e_reg r)))
  | _ => None
  end.

(* ------------------------------------------------------------------ relation *)
Definition grel (ms : G.mst) (s : qstate) : Prop :=
  (forall r, G.m_reg ms r = rd (q_st s) (e_reg r)) /\
  (forall a, G.m_arr ms a = find Z.eqb (Z.of_nat a) (arrs (q_st s))) /\
  (forall k, G.m_alloc ms k = match nth_error (um (q_st s)) k with Some (Some _) => true | _ => false end) /\
  G.m_script ms = q_script s.

(* Target names qubit INSTANCES in its trace (a fresh number per init), SemQ
   names the virtual qubit ids: an event of SemQ read through the instance map *)
Definition nat_of (q : Z) : nat := Z.to_nat q.
Definition rn (inst : nat -> nat) (e : qevent) : list A.tev :=
  match e with
  | QEvGate tag imms qs =>
      match qs, imms with
      | [q], [] =>
          if tag =? TAG_INIT then [A.TInit (inst (nat_of q))]
          else if tag =? 10 then [A.TG1 A.GX (inst (nat_of q))]
          else if tag =? 11 then [A.TG1 A.GY (inst (nat_of q))]
          else if tag =? 12 then [A.TG1 A.GZ (inst (nat_of q))]
          else if tag =? 13 then [A.TG1 A.GH (inst (nat_of q))]
          else if tag =? 14 then [A.TG1 A.GK (inst (nat_of q))]
          else if tag =? 15 then [A.TG1 A.GS (inst (nat_of q))]
          else if tag =? 16 then [A.TG1 A.GT (inst (nat_of q))]
          else []
      | [q], [n; d] =>
          if tag =? 20 then [A.TRot A.AX (inst (nat_of q)) n d]
          else if tag =? 21 then [A.TRot A.AY (inst (nat_of q)) n d]
          else if tag =? 22 then [A.TRot A.AZ (inst (nat_of q)) n d]
          else []
      | [q0; q1], [] =>
          if tag =? 30 then [A.TG2 A.TCnot (inst (nat_of q0)) (inst (nat_of q1))]
          else if tag =? 31 then [A.TG2 A.TCphase (inst (nat_of q0)) (inst (nat_of q1))]
          else []
      | _, _ => []
      end
  | QEvMeas q o => [A.TMeas (inst (nat_of q)) o]
  | _ => []           (* qalloc / qfree / ret_reg / ret_arr leave no event in Target's trace *)
  end.

(* the events the step added on both sides correspond *)
Definition new_events (ms ms' : G.mst) (s s' : qstate) : Prop :=
  exists evs, q_trace s' = evs ++ q_trace s /\
              G.m_trace ms' = flat_map (rn (G.m_inst ms')) evs ++ G.m_trace ms.

(* ------------------------------------------------------------------ helpers *)
Lemma e_bank_eqb : forall a b, G.bank_eqb a b = bank_eqb (e_bank a) (e_bank b).
Proof. intros [] []; reflexivity. Qed.

Lemma e_reg_eqb : forall a b, G.reg_eqb a b = reg_eqb (e_reg a) (e_reg b).
Proof.
  intros [b1 i1] [b2 i2]. unfold G.reg_eqb, reg_eqb, e_reg. cbn [fst snd]. rewrite e_bank_eqb. f_equal.
  destruct (Nat.eqb i1 i2) eqn:E.
  - apply Nat.eqb_eq in E. subst. symmetry. apply Z.eqb_refl.
  - apply Nat.eqb_neq in E. symmetry. apply Z.eqb_neq. lia.
Qed.

Lemma regs_setreg : forall (R : G.reg -> option Z) st r v,
  (forall r', R r' = rd st (e_reg r')) ->
  forall r', G.upd_reg R r v r' = rd (wr st (e_reg r) v) (e_reg r').
Proof.
  intros R st r v H r'. unfold G.upd_reg. rewrite rd_wr, e_reg_eqb. rewrite H. reflexivity.
Qed.

Lemma arrs_setarr : forall (M : nat -> option (list (option Z))) (m : list (Z * list cell)) a l,
  (forall a', M a' = find Z.eqb (Z.of_nat a') m) ->
  forall a', G.upd_nat M a (Some l) a' = find Z.eqb (Z.of_nat a') (upd Z.eqb (Z.of_nat a) l m).
Proof.
  intros M m a l H a'. unfold G.upd_nat. rewrite (find_upd _ _ _ Zeqb_spec). rewrite H.
  destruct (Nat.eqb a' a) eqn:E.
  - apply Nat.eqb_eq in E. subst. rewrite Z.eqb_refl. reflexivity.
  - apply Nat.eqb_neq in E. replace (Z.of_nat a' =? Z.of_nat a) with false by lia. reflexivity.
Qed.

Lemma list_set_some : forall (A : Type) (l : list A) k v,
  G.list_set l k v = if Nat.ltb k (List.length l) then Some (sset k v l) else None.
Proof.
  intros A l. induction l as [|h t IH]; intros k v; [destruct k; reflexivity|].
  destruct k as [|k]; [reflexivity|].
  cbn [G.list_set]. rewrite IH. cbn [List.length]. change (Nat.ltb (S k) (S (List.length t))) with (Nat.ltb k (List.length t)).
  destruct (Nat.ltb k (List.length t)); reflexivity.
Qed.

Definition is_some {A} (o : option A) : bool := match o with Some _ => true | None => false end.

Lemma alloc_set : forall (Al : nat -> bool) (u : list (option Z)) n x,
  (forall k, Al k = match nth_error u k with Some (Some _) => true | _ => false end) ->
  (n < List.length u)%nat ->
  forall k, G.upd_nat Al n (is_some x) k = match nth_error (sset n x u) k with Some (Some _) => true | _ => false end.
Proof.
  intros Al u n x H Hn k. unfold G.upd_nat. destruct (Nat.eqb k n) eqn:E.
  - apply Nat.eqb_eq in E. subst. rewrite nth_error_sset_same by exact Hn. destruct x; reflexivity.
  - apply Nat.eqb_neq in E. rewrite nth_error_sset_other by assumption. apply H.
Qed.

(* ------------------------------------------------------------------ one instruction *)
Ltac pre :=
  let Hok := fresh "Hok" in
  unfold step in *; cbv zeta in *;
  match goal with
  | H : context [negb (instr_regs_ok ?i)] |- _ => destruct (instr_regs_ok i) eqn:Hok
  end; cbn [negb] in *; [|congruence]; cbn [instr_regs_ok opnd_ok] in Hok; regs.

Lemma qc_not_open : forall c s pc, qstep (QC c) s pc <> QStop (Unspec pc) -> step c (q_st s) pc <> Stop (Unspec pc).
Proof. intros c s pc H E. apply H. cbn [qstep]. rewrite E. reflexivity. Qed.

Lemma zidx_some : forall o k, G.zidx o = Some k -> exists z, o = Some z /\ 0 <= z /\ k = Z.to_nat z.
Proof.
  intros [z|] k H; cbn in H; [|discriminate]. destruct (z <? 0) eqn:E; [discriminate|].
  inversion H. exists z. repeat split; lia.
Qed.

Ltac inv_some E :=
  repeat match type of E with
         | match ?x with _ => _ end = Some _ => let F := fresh "F" in destruct x eqn:F; try discriminate E
         | (if ?x then _ else _) = Some _ => let F := fresh "F" in destruct x eqn:F; try discriminate E
         end.

Ltac no_events := exists []; split; reflexivity.
Ltac sfault := first [ congruence | cbn; eexists; reflexivity ].

Section SdkInstr.
  Variables (ms : G.mst) (s : qstate) (pc : Z).
  Hypothesis R : grel ms s.
  Let Rr := proj1 R.
  Let Ra := proj1 (proj2 R).
  Let Rl := proj1 (proj2 (proj2 R)).
  Let Rs := proj2 (proj2 (proj2 R)).

  Definition ok_bridge (o : option G.mst) (r : qres) : Prop :=
    match o with
    | Some ms' => exists s', r = QNext s' (pc + 1) /\ grel ms' s' /\ new_events ms ms' s s'
    | None => exists k, r = QStop (Fault k pc)       (* Target faults: so does the common semantics *)
    end.

  Lemma qid_some : forall r k, G.qid ms r = Some k ->
    exists q, rd (q_st s) (e_reg r) = Some q /\ 0 <= q /\ k = Z.to_nat q /\ G.m_alloc ms k = true.
  Proof.
    intros r k H. unfold G.qid in H. destruct (G.zidx (G.m_reg ms r)) as [k'|] eqn:E; [|discriminate].
    destruct (G.m_alloc ms k') eqn:Al; [|discriminate]. inversion H; subst k'.
    destruct (zidx_some _ _ E) as (q & Hq & H0 & Hk). rewrite Rr in Hq. eauto 6.
  Qed.

  Lemma sb_set : forall r z, qstep (QC (ISet (e_reg r) z)) s pc <> QStop (Unspec pc) ->
    ok_bridge (G.exec_instr (G.ISet r z) ms) (qstep (QC (ISet (e_reg r) z)) s pc).
  Proof.
    intros r z H. apply qc_not_open in H. cbn [qstep G.exec_instr ok_bridge]. pre.
    eexists; split; [reflexivity|]. split; [|no_events].
    split; [apply regs_setreg; exact Rr|]. split; [exact Ra|]. split; [exact Rl|exact Rs].
  Qed.

  Lemma sb_add : forall d x y,
    qstep (QC (IClassical (COp OAdd (e_reg d) (e_reg x) (e_reg y)))) s pc <> QStop (Unspec pc) ->
    ok_bridge (G.exec_instr (G.IAdd d x (G.PReg y)) ms)
              (qstep (QC (IClassical (COp OAdd (e_reg d) (e_reg x) (e_reg y)))) s pc).
  Proof.
    intros d x y H. apply qc_not_open in H. cbn [qstep G.exec_instr G.rop_val]. pre. rewrite !Rr.
    destruct (rd (q_st s) (e_reg x)) as [a|]; [|sfault].
    destruct (rd (q_st s) (e_reg y)) as [b|]; [|sfault].
    cbn [ok_bridge binop_val]. eexists; split; [reflexivity|]. split; [|no_events].
    split; [apply regs_setreg; exact Rr|]. split; [exact Ra|]. split; [exact Rl|exact Rs].
  Qed.

  Lemma rop_ix : forall ix, G.rop_val ms ix = oval (q_st s) (e_ix ix).
  Proof. intros [z|r]; cbn; [reflexivity|apply Rr]. Qed.

  Lemma sb_load : forall r a ix,
    qstep (QC (ILoad (e_reg r) (Z.of_nat a) (e_ix ix))) s pc <> QStop (Unspec pc) ->
    ok_bridge (G.exec_instr (G.ILoad r a ix) ms) (qstep (QC (ILoad (e_reg r) (Z.of_nat a) (e_ix ix))) s pc).
  Proof.
    intros r a ix H. apply qc_not_open in H. cbn [qstep G.exec_instr]. pre. rewrite Ra, rop_ix.
    destruct (find Z.eqb (Z.of_nat a) (arrs (q_st s))) as [l|] eqn:El.
    2:{ destruct (oval (q_st s) (e_ix ix)) as [n|]; [destruct (n <? 0)|]; sfault. }
    destruct (oval (q_st s) (e_ix ix)) as [n|]; [|sfault]. cbn [G.zidx].
    destruct (n <? 0) eqn:En; [sfault|].
    unfold cell in *.
    destruct (nth_error l (Z.to_nat n)) as [[v|]|] eqn:Ev;
      [| destruct (Zlen l <=? n); sfault | destruct (Zlen l <=? n); sfault].
    assert (Hlt : n < Zlen l) by (eapply nth_some_lt; [lia|exact Ev]).
    replace (Zlen l <=? n) with false by lia.
    cbn [ok_bridge]. eexists; split; [reflexivity|]. split; [|no_events].
    split; [apply regs_setreg; exact Rr|]. split; [exact Ra|]. split; [exact Rl|exact Rs].
  Qed.

  Lemma sb_store : forall v a ix,
    qstep (QC (IStore (e_reg v) (Z.of_nat a) (e_ix ix))) s pc <> QStop (Unspec pc) ->
    ok_bridge (G.exec_instr (G.IStore (G.PReg v) a ix) ms)
              (qstep (QC (IStore (e_reg v) (Z.of_nat a) (e_ix ix))) s pc).
  Proof.
    intros v a ix H. apply qc_not_open in H. cbn [qstep G.exec_instr G.rop_val]. pre. rewrite Ra, rop_ix, Rr.
    destruct (rd (q_st s) (e_reg v)) as [w|].
    2:{ destruct (find Z.eqb (Z.of_nat a) (arrs (q_st s)));
          [destruct (oval (q_st s) (e_ix ix)) as [n|]; [cbn [G.zidx]; destruct (n <? 0)|]|]; sfault. }
    destruct (oval (q_st s) (e_ix ix)) as [n|].
    2:{ destruct (find Z.eqb (Z.of_nat a) (arrs (q_st s))); sfault. }
    cbn [G.zidx]. destruct (n <? 0) eqn:En; [congruence|].
    destruct (find Z.eqb (Z.of_nat a) (arrs (q_st s))) as [l|] eqn:El; [|sfault].
    unfold cell in *. rewrite list_set_some.
    match goal with |- context [Nat.ltb ?x ?y] => destruct (Nat.ltb x y) eqn:Elt end.
    2:{ apply Nat.ltb_ge in Elt. replace (n <? Zlen l) with false by (unfold Zlen; lia). sfault. }
    apply Nat.ltb_lt in Elt. replace (n <? Zlen l) with true by (unfold Zlen; lia).
    cbn [ok_bridge]. eexists; split; [reflexivity|]. split; [|no_events].
    split; [exact Rr|]. split; [apply arrs_setarr; exact Ra|]. split; [exact Rl|exact Rs].
  Qed.

  Lemma sb_retarr : forall a, qstep (QC (IRetArr (Z.of_nat a))) s pc <> QStop (Unspec pc) ->
    ok_bridge (G.exec_instr (G.IRetArr a) ms) (qstep (QC (IRetArr (Z.of_nat a))) s pc).
  Proof.
    intros a H. apply qc_not_open in H. cbn [qstep G.exec_instr]. pre. rewrite Ra.
    destruct (find Z.eqb (Z.of_nat a) (arrs (q_st s))) as [l|] eqn:El; [|sfault].
    cbn [ok_bridge]. eexists; split; [reflexivity|]. split.
    - split; [exact Rr|]. split; [exact Ra|]. split; [exact Rl|exact Rs].
    - cbn [events_of]. rewrite El. exists [QEvRetArr (Z.of_nat a) l]. split; reflexivity.
  Qed.

  Lemma sb_retreg : forall r, qstep (QC (IRetReg (e_reg r))) s pc <> QStop (Unspec pc) ->
    ok_bridge (G.exec_instr (G.IRetReg r) ms) (qstep (QC (IRetReg (e_reg r))) s pc).
  Proof.
    intros r H. apply qc_not_open in H. cbn [qstep G.exec_instr]. pre. rewrite Rr.
    destruct (rd (q_st s) (e_reg r)) as [v|] eqn:Ev; [|sfault].
    cbn [ok_bridge]. eexists; split; [reflexivity|]. split.
    - split; [exact Rr|]. split; [exact Ra|]. split; [exact Rl|exact Rs].
    - cbn [events_of]. rewrite Ev. exists [QEvRetReg (e_reg r) v]. split; reflexivity.
  Qed.
End SdkInstr.

Lemma qc_not_fault : forall c s pc k, qstep (QC c) s pc <> QStop (Fault k pc) -> step c (q_st s) pc <> Stop (Fault k pc).
Proof. intros c s pc k H E. apply H. cbn [qstep]. rewrite E. reflexivity. Qed.

Section SdkQuantum.
  Variables (ms : G.mst) (s : qstate) (pc : Z).
  Hypothesis R : grel ms s.
  Let Rr := proj1 R.
  Let Ra := proj1 (proj2 R).
  Let Rl := proj1 (proj2 (proj2 R)).
  Let Rs := proj2 (proj2 (proj2 R)).

  (* DISAGREEMENT 1 (unit-module capacity): Target's unit module is unbounded; the
     common semantics faults (FUnitRange) when the id is >= capacity.  Hence the
     extra hypothesis. *)
  Lemma sb_qalloc : forall r,
    qstep (QC (IQalloc (e_reg r))) s pc <> QStop (Unspec pc) ->
    qstep (QC (IQalloc (e_reg r))) s pc <> QStop (Fault FUnitRange pc) ->
    qstep (QC (IQalloc (e_reg r))) s pc <> QStop (Fault FBook pc) ->
    ok_bridge ms s pc (G.exec_instr (G.IQ G.QAlloc r) ms) (qstep (QC (IQalloc (e_reg r))) s pc).
  Proof.
    intros r H Hcap Hbk. apply qc_not_open in H. apply qc_not_fault in Hcap. apply qc_not_fault in Hbk.
    cbn [qstep G.exec_instr]. pre. rewrite Rr.
    destruct (rd (q_st s) (e_reg r)) as [q|] eqn:Eq; [|sfault]. cbn [G.zidx].
    destruct (q <? 0) eqn:En; [congruence|].
    destruct (Zlen (um (q_st s)) <=? q) eqn:El; [congruence|].
    destruct (nth_error_in_range _ (um (q_st s)) q) as [b Hb]; try lia.
    rewrite Rl, Hb. rewrite Hb in H, Hcap, Hbk. destruct b as [p0|]; [sfault|].
    destruct (least_unused (used (q_st s))) as [p|]; [|congruence].
    cbn [ok_bridge]. eexists; split; [reflexivity|]. split.
    - split; [exact Rr|]. split; [exact Ra|]. split; [|exact Rs].
      apply (alloc_set _ _ _ (Some p)); [exact Rl|]. unfold Zlen in El. lia.
    - cbn [events_of]. rewrite Eq. exists [QEvAlloc q]. split; reflexivity.
  Qed.

  Lemma sb_qfree : forall r,
    qstep (QC (IQfree (e_reg r))) s pc <> QStop (Unspec pc) ->
    qstep (QC (IQfree (e_reg r))) s pc <> QStop (Fault FBook pc) ->
    ok_bridge ms s pc (G.exec_instr (G.IQ G.QFree r) ms) (qstep (QC (IQfree (e_reg r))) s pc).
  Proof.
    intros r H Hbk. apply qc_not_open in H. apply qc_not_fault in Hbk.
    cbn [qstep G.exec_instr]. unfold G.qid. pre. rewrite Rr.
    destruct (rd (q_st s) (e_reg r)) as [q|] eqn:Eq; [|sfault]. cbn [G.zidx].
    destruct (q <? 0) eqn:En; [congruence|].
    rewrite Rl.
    destruct (Zlen (um (q_st s)) <=? q) eqn:El.
    - assert (Hn : nth_error (um (q_st s)) (Z.to_nat q) = None) by (apply nth_error_None; unfold Zlen in El; lia).
      rewrite Hn. sfault.
    - destruct (nth_error_in_range _ (um (q_st s)) q) as [b Hb]; try lia.
      rewrite Hb. rewrite Hb in H, Hbk. destruct b as [p0|]; [|sfault].
      destruct (set_mem p0 (used (q_st s))); [|congruence].
      cbn [ok_bridge]. eexists; split; [reflexivity|]. split.
      + split; [exact Rr|]. split; [exact Ra|]. split; [|exact Rs].
        apply (alloc_set _ _ _ None); [exact Rl|]. unfold Zlen in El. lia.
      + cbn [events_of]. rewrite Eq. exists [QEvFree q]. split; reflexivity.
  Qed.

  (* DISAGREEMENT 2 (gates on unallocated qubits): Target faults when an operand
     register does not hold an allocated virtual id; the base executor (hence
     SemQ) only requires the register to be defined -- the check is left to the
     back end.  The None case therefore has a second alternative. *)
  Definition gate_bridge (rs : list G.reg) (o : option G.mst) (r : qres) : Prop :=
    match o with
    | Some ms' => exists s', r = QNext s' (pc + 1) /\ grel ms' s' /\ new_events ms ms' s s'
    | None => (exists k, r = QStop (Fault k pc)) \/
              (exists x, In x rs /\ G.m_reg ms x <> None /\ G.qid ms x = None)
    end.

  Lemma qid_cases : forall r,
    match G.qid ms r with
    | Some k => exists q, rd (q_st s) (e_reg r) = Some q /\ k = Z.to_nat q /\ 0 <= q
    | None => rd (q_st s) (e_reg r) = None \/ G.m_reg ms r <> None
    end.
  Proof.
    intro r. destruct (G.qid ms r) as [k|] eqn:E.
    - destruct (qid_some ms s R r k E) as (q & Hq & H0 & Hk & _). eauto.
    - destruct (G.m_reg ms r) eqn:Er; [right; discriminate|left]. rewrite <- Rr. exact Er.
  Qed.

  Lemma sb_gate1 : forall tag imms r (mk : nat -> A.tev),
    (forall inst q, rn inst (QEvGate tag imms [q]) = [mk (inst (nat_of q))]) ->
    qstep (QGate tag imms [e_reg r]) s pc <> QStop (Unspec pc) ->
    gate_bridge [r]
      (match G.qid ms r with Some k => Some (G.emit ms (mk (G.m_inst ms k))) | None => None end)
      (qstep (QGate tag imms [e_reg r]) s pc).
  Proof.
    intros tag imms r mk Hrn H. cbn [qstep] in *.
    destruct (negb (forallb reg_ok [e_reg r])); [congruence|]. cbn [rd_all].
    pose proof (qid_cases r) as Q. destruct (G.qid ms r) as [k|] eqn:Ek.
    - destruct Q as (q & Hq & Hk & H0). rewrite Hq. cbn [gate_bridge].
      eexists; split; [reflexivity|]. split.
      + split; [exact Rr|]. split; [exact Ra|]. split; [exact Rl|exact Rs].
      + exists [QEvGate tag imms [q]]. split; [reflexivity|].
        cbn [flat_map G.emit G.m_trace G.m_inst app]. rewrite Hrn. unfold nat_of. rewrite <- Hk. reflexivity.
    - cbn [gate_bridge]. destruct Q as [Q|Q].
      + left. rewrite Q. eexists; reflexivity.
      + right. exists r. split; [left; reflexivity|]. split; assumption.
  Qed.

  Lemma sb_init : forall r,
    qstep (QGate TAG_INIT [] [e_reg r]) s pc <> QStop (Unspec pc) ->
    gate_bridge [r] (G.exec_instr (G.IQ G.QInit r) ms) (qstep (QGate TAG_INIT [] [e_reg r]) s pc).
  Proof.
    intros r H. cbn [qstep G.exec_instr] in *.
    destruct (negb (forallb reg_ok [e_reg r])); [congruence|]. cbn [rd_all].
    pose proof (qid_cases r) as Q. destruct (G.qid ms r) as [k|] eqn:Ek.
    - destruct Q as (q & Hq & Hk & H0). rewrite Hq. cbn [gate_bridge].
      eexists; split; [reflexivity|]. split.
      + split; [exact Rr|]. split; [exact Ra|]. split; [exact Rl|exact Rs].
      + exists [QEvGate TAG_INIT [] [q]]. split; [reflexivity|].
        cbn [flat_map G.m_trace G.m_inst app rn]. cbn. unfold nat_of, G.upd_nat. rewrite <- Hk, Nat.eqb_refl. reflexivity.
    - cbn [gate_bridge]. destruct Q as [Q|Q].
      + left. rewrite Q. eexists; reflexivity.
      + right. exists r. split; [left; reflexivity|]. split; assumption.
  Qed.

  Lemma sb_two : forall t r1 r2,
    qstep (QGate (g2_tag t) [] [e_reg r1; e_reg r2]) s pc <> QStop (Unspec pc) ->
    gate_bridge [r1; r2] (G.exec_instr (G.ITwo t r1 r2) ms) (qstep (QGate (g2_tag t) [] [e_reg r1; e_reg r2]) s pc).
  Proof.
    intros t r1 r2 H. cbn [qstep G.exec_instr] in *.
    destruct (negb (forallb reg_ok [e_reg r1; e_reg r2])); [congruence|]. cbn [rd_all].
    pose proof (qid_cases r1) as Q1. pose proof (qid_cases r2) as Q2.
    destruct (G.qid ms r1) as [k1|] eqn:E1.
    - destruct Q1 as (q1 & Hq1 & Hk1 & H01). rewrite Hq1.
      destruct (G.qid ms r2) as [k2|] eqn:E2.
      + destruct Q2 as (q2 & Hq2 & Hk2 & H02). rewrite Hq2. cbn [gate_bridge].
        eexists; split; [reflexivity|]. split.
        * split; [exact Rr|]. split; [exact Ra|]. split; [exact Rl|exact Rs].
        * exists [QEvGate (g2_tag t) [] [q1; q2]]. split; [reflexivity|].
          cbn [flat_map G.emit G.m_trace G.m_inst app]. unfold nat_of in *.
          subst k1 k2. destruct t; reflexivity.
      + cbn [gate_bridge]. destruct Q2 as [Q|Q].
        * left. rewrite Q. eexists; reflexivity.
        * right. exists r2. split; [right; left; reflexivity|]. split; assumption.
    - cbn [gate_bridge]. destruct Q1 as [Q|Q].
      + left. rewrite Q. eexists; reflexivity.
      + right. exists r1. split; [left; reflexivity|]. split; assumption.
  Qed.

  Lemma sb_meas : forall q m,
    qstep (QMeas (e_reg q) (e_reg m)) s pc <> QStop (Unspec pc) ->
    gate_bridge [q] (G.exec_instr (G.IMeas q m) ms) (qstep (QMeas (e_reg q) (e_reg m)) s pc).
  Proof.
    intros q m H. cbn [qstep G.exec_instr] in *.
    destruct (negb (reg_ok (e_reg q) && reg_ok (e_reg m))); [congruence|].
    pose proof (qid_cases q) as Q. destruct (G.qid ms q) as [k|] eqn:Ek.
    - destruct Q as (qa & Hq & Hk & H0). rewrite Hq. cbv zeta. cbn [gate_bridge].
      eexists; split; [reflexivity|]. unfold hd_outcome. rewrite <- Rs. split.
      + split; [apply regs_setreg; exact Rr|]. split; [exact Ra|]. split; [exact Rl|reflexivity].
      + eexists [QEvMeas qa _]. split; [reflexivity|].
        cbn [flat_map G.m_trace G.m_inst app rn]. unfold nat_of. rewrite <- Hk. reflexivity.
    - cbn [gate_bridge]. destruct Q as [Q|Q].
      + left. rewrite Q. eexists; reflexivity.
      + right. exists q. split; [left; reflexivity|]. split; assumption.
  Qed.
End SdkQuantum.

Lemma ok_to_gate : forall ms s pc rs o r, ok_bridge ms s pc o r -> gate_bridge ms s pc rs o r.
Proof. intros ms s pc rs [ms'|] r H; cbn in *; [exact H|left; exact H]. Qed.

(* the qubit operand registers of an instruction (those Target checks for allocation) *)
Definition qregs (i : G.instr) : list G.reg :=
  match i with
  | G.IQ G.QInit r | G.IQ (G.QG _) r | G.IRot _ r _ _ | G.IMeas r _ => [r]
  | G.ITwo _ r1 r2 => [r1; r2]
  | _ => []
  end.

(* THE BRIDGE for C05/C14, PARTIAL: per instruction (the fragment listed at the
   top of this file).  From related states, where the common semantics is not
   open and reports neither "virtual id outside the unit module" nor
   inconsistent physical-qubit bookkeeping (FBook):
   - if Target executes the instruction, SemQ makes the corresponding step (pc+1),
     the states stay related and the new trace events correspond through the
     instance map;
   - if Target faults, SemQ faults at this line -- or the instruction is a gate /
     init / measurement on a register that holds no allocated virtual id (which
     the base executor leaves to the back end). *)
Theorem sdk_instr_bridge_partial : forall i qi ms s pc,
  e_instr i = Some qi -> grel ms s ->
  qstep qi s pc <> QStop (Unspec pc) ->
  qstep qi s pc <> QStop (Fault FUnitRange pc) ->
  qstep qi s pc <> QStop (Fault FBook pc) ->
  gate_bridge ms s pc (qregs i) (G.exec_instr i ms) (qstep qi s pc).
Proof.
  intros i qi ms s pc He R H Hcap Hbk.
  destruct i as [r z|o r|ax r n d|t r1 r2|q m|v a ix|r a ix|d x y|d x y m|n a|a|r|k];
    cbn [e_instr] in He; try discriminate.
  - inversion He; subst qi. apply ok_to_gate. apply sb_set; assumption.
  - destruct o as [| | |g]; inversion He; subst qi; cbn [qregs].
    + apply ok_to_gate. apply sb_qalloc; assumption.
    + apply sb_init; assumption.
    + apply ok_to_gate. apply sb_qfree; assumption.
    + apply (sb_gate1 ms s pc R (g1_tag g) [] r (A.TG1 g)); [|assumption].
      intros inst q. destruct g; reflexivity.
  - inversion He; subst qi. cbn [qregs].
    apply (sb_gate1 ms s pc R (20 + ax_num ax) [n; d] r (fun k => A.TRot ax k n d)); [|assumption].
    intros inst q. destruct ax; reflexivity.
  - inversion He; subst qi. apply sb_two; assumption.
  - inversion He; subst qi. apply sb_meas; assumption.
  - destruct v as [z|v]; [discriminate|]. inversion He; subst qi. apply ok_to_gate. apply sb_store; assumption.
  - inversion He; subst qi. apply ok_to_gate. apply sb_load; assumption.
  - destruct y as [z|y]; [discriminate|]. inversion He; subst qi. apply ok_to_gate. apply sb_add; assumption.
  - inversion He; subst qi. apply ok_to_gate. apply sb_retarr; assumption.
  - inversion He; subst qi. apply ok_to_gate. apply sb_retreg; assumption.
Qed.

(* branch conditions of flat code / structured IR: on defined register operands
   Target.holds_at is the branch predicate of the common semantics *)
Definition e_cond2 (c : A.cond) : option bcond :=
  match c with A.CEq => Some Ceq | A.CNe => Some Cne | A.CLt => Some Clt | A.CGe => Some Cge | _ => None end.
Definition e_cond1 (c : A.cond) : option ucond :=
  match c with A.CEz => Some Cez | A.CNz => Some Cnz | _ => None end.

Theorem sdk_cond_bridge : forall ms s, grel ms s ->
  (forall c bc x y a b, e_cond2 c = Some bc ->
     rd (q_st s) (e_reg x) = Some a -> rd (q_st s) (e_reg y) = Some b ->
     G.holds_at c (G.PReg x) (G.PReg y) ms = Some (bcond_holds bc a b)) /\
  (forall c uc x y a, e_cond1 c = Some uc ->
     rd (q_st s) (e_reg x) = Some a ->
     G.holds_at c (G.PReg x) y ms = Some (ucond_holds uc a)).
Proof.
  intros ms s R. pose proof (proj1 R) as Rr. split.
  - intros c bc x y a b Hc Ha Hb. unfold G.holds_at. cbn [G.rop_val]. rewrite !Rr, Ha.
    destruct c; cbn in Hc; inversion Hc; subst bc; rewrite Hb; cbn; try reflexivity.
    rewrite Z.geb_leb. reflexivity.
  - intros c uc x y a Hc Ha. unfold G.holds_at. cbn [G.rop_val]. rewrite !Rr, Ha.
    destruct c; cbn in Hc; inversion Hc; subst uc; reflexivity.
Qed.

Lemma grel_init : forall script cap, grel (G.m0 script) (mkQ (init_state cap) script []).
Proof.
  intros script cap. split; [reflexivity|]. split; [reflexivity|]. split; [|reflexivity].
  intro k. cbn. revert k. induction cap as [|c IH]; intros [|k]; cbn; try reflexivity. apply IH.
Qed.
