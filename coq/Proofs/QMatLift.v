(* QMatLift.v — lifting the scalar homomorphism K32 -> R (CycloProofs.eval_hom) to
   circuits: for every commutative ring R with omega^32 = -1 and 2 invertible,
   the entry-wise image of the K32 circuit matrix is the circuit computed IN R
   (R-matrix products of the embedded R-images of the elementary gates), and a
   K32 identity  U = w^p * G  becomes  U_R = omega^p * G_R. *)
From Coq Require Import ZArith List Bool Lia Ring Ring_theory Arith.
From NQ Require Import Base.Cyclo Base.QMat Proofs.CycloProofs.
Import ListNotations.

Section Lift.
  Variable R : Type.
  Variables (rO rI : R) (radd rmul rsub : R -> R -> R) (ropp : R -> R).
  Hypothesis Rth : ring_theory rO rI radd rmul rsub ropp (@eq R).
  Variables (omega half : R).
  Hypothesis omega32 : opow R rI rmul omega 32 = ropp rI.
  Hypothesis half2 : rmul (radd rI rI) half = rI.

  Add Ring RringL : Rth.

  Definition ev : K32 -> R := keval R rO rI radd rmul ropp omega half.
  Arguments ev : simpl never.
  Local Arguments kadd : simpl never.
  Local Arguments kmul : simpl never.
  Local Arguments kw : simpl never.
  Local Arguments kzero : simpl never.
  Local Arguments kone : simpl never.
  Definition rvec := list R.
  Definition rmat := list rvec.
  Local Notation vev := (map ev).
  Local Notation mev := (map (map ev)).

  (* the same matrix algorithms over R (no zero skipping) *)
  Fixpoint rvadd (u v : rvec) : rvec :=
    match u, v with
    | a :: u', b :: v' => radd a b :: rvadd u' v'
    | _, _ => []
    end.
  Definition rvscale (c : R) (v : rvec) : rvec := map (rmul c) v.
  Fixpoint rrow_times (a : rvec) (B : rmat) (acc : rvec) : rvec :=
    match a, B with
    | x :: a', b :: B' => rrow_times a' B' (rvadd acc (rvscale x b))
    | _, _ => acc
    end.
  Definition rncols (A : rmat) : nat := match A with [] => O | r :: _ => List.length r end.
  Definition rmmul (A B : rmat) : rmat := map (fun a => rrow_times a B (repeat rO (rncols B))) A.
  Definition rmscale (c : R) (A : rmat) : rmat := map (rvscale c) A.
  Definition rmid (n : nat) : rmat :=
    map (fun r => map (fun c => if Nat.eqb r c then rI else rO) (seq 0 n)) (seq 0 n).
  Definition rget (G : rmat) (r c : nat) : R := nth c (nth r G []) rO.
  Definition rembed (n : nat) (ws : list nat) (G : rmat) : rmat :=
    map (fun r => map (fun c => if same_outside n ws r c
                                then rget G (sub_index n ws r) (sub_index n ws c) else rO)
                      (seq 0 (2 ^ n))) (seq 0 (2 ^ n)).
  (* the circuit computed in R from the R-images of the elementary gate matrices *)
  Fixpoint rcircuit_from (n : nat) (ops : list qop) (acc : rmat) : option rmat :=
    match ops with
    | [] => Some acc
    | o :: ops' =>
        match op_gate o with
        | Some (ws, G) => if embed_ok n ws G
                          then rcircuit_from n ops' (rmmul (rembed n ws (mev G)) acc) else None
        | None => None
        end
    end.
  Definition rcircuit (n : nat) (ops : list qop) : option rmat := rcircuit_from n ops (rmid (2 ^ n)).

  (* scalar facts, instantiated *)
  Lemma ev_zero : ev kzero = rO.
  Proof. apply (keval_zero R rO rI radd rmul rsub ropp Rth). Qed.
  Lemma ev_one : ev kone = rI.
  Proof. apply (keval_one R rO rI radd rmul rsub ropp Rth). Qed.
  Lemma ev_add : forall a b, ev (kadd a b) = radd (ev a) (ev b).
  Proof. apply (keval_add R rO rI radd rmul rsub ropp Rth omega half half2). Qed.
  Lemma ev_mul : forall a b, ev (kmul a b) = rmul (ev a) (ev b).
  Proof. apply (keval_mul R rO rI radd rmul rsub ropp Rth omega half omega32 half2). Qed.
  Lemma ev_kw : forall k, ev (kw k) = opow R rI rmul omega k.
  Proof. apply (keval_kw R rO rI radd rmul rsub ropp Rth omega half omega32). Qed.
  Lemma ev_is0 : forall x, kis0 x = true -> ev x = rO.
  Proof.
    intros [c e] H. unfold kis0 in H. cbn in H. destruct c; [|discriminate].
    unfold ev, keval. cbn. ring.
  Qed.

  Lemma vev_vadd : forall u v, vev (vadd u v) = rvadd (vev u) (vev v).
  Proof.
    induction u as [|a u IH]; intros v; cbn; [reflexivity|].
    destruct v as [|b v]; cbn; [reflexivity|]. rewrite ev_add, IH. reflexivity.
  Qed.

  Lemma vev_vscale : forall c v, vev (vscale c v) = rvscale (ev c) (vev v).
  Proof.
    intros c. induction v as [|a v IH]; cbn; [reflexivity|].
    rewrite ev_mul. unfold vscale, rvscale in IH. rewrite IH. reflexivity.
  Qed.

  Lemma mev_mscale : forall c A, mev (mscale c A) = rmscale (ev c) (mev A).
  Proof.
    intros c. induction A as [|a A IH]; cbn; [reflexivity|].
    rewrite vev_vscale. unfold mscale, rmscale in IH. rewrite IH. reflexivity.
  Qed.

  Lemma vadd_length : forall u v, List.length u = List.length v -> List.length (vadd u v) = List.length u.
  Proof.
    induction u as [|a u IH]; intros [|b v] H; cbn in *; try reflexivity; try discriminate.
    f_equal. apply IH. lia.
  Qed.

  Lemma rvadd_zero_scale : forall u v, List.length u = List.length v -> rvadd u (rvscale rO v) = u.
  Proof.
    induction u as [|a u IH]; intros [|b v] H; cbn in *; try reflexivity; try discriminate.
    f_equal; [ring|]. apply IH. lia.
  Qed.

  Lemma vscale_length : forall c v, List.length (vscale c v) = List.length v.
  Proof. intros c v. unfold vscale. apply map_length. Qed.

  Lemma row_times_lift : forall a B acc,
    Forall (fun b => List.length b = List.length acc) B ->
    vev (row_times a B acc) = rrow_times (vev a) (mev B) (vev acc) /\
    List.length (row_times a B acc) = List.length acc.
  Proof.
    induction a as [|x a IH]; intros B acc HB; cbn; [split; reflexivity|].
    destruct B as [|b B]; cbn; [split; reflexivity|].
    inversion HB as [|b' B' Hb HB']; subst.
    destruct (kis0 x) eqn:E.
    - destruct (IH B acc HB') as [IH1 IH2]. split; [|exact IH2].
      rewrite IH1. rewrite (ev_is0 x E). rewrite rvadd_zero_scale; [reflexivity|].
      rewrite !map_length. lia.
    - assert (L : List.length (vadd acc (vscale x b)) = List.length acc).
      { apply vadd_length. rewrite vscale_length. lia. }
      assert (HB'' : Forall (fun b0 => List.length b0 = List.length (vadd acc (vscale x b))) B).
      { rewrite L. exact HB'. }
      destruct (IH B _ HB'') as [IH1 IH2]. split; [|lia].
      rewrite IH1, vev_vadd, vev_vscale. reflexivity.
  Qed.

  (* all rows have length N and there is at least one row *)
  Definition shape (N : nat) (A : mat) : Prop :=
    Forall (fun r => List.length r = N) A /\ ncols A = N.

  Lemma vev_vzero : forall n, vev (vzero n) = repeat rO n.
  Proof. induction n as [|n IH]; cbn; [reflexivity|]. rewrite ev_zero. unfold vzero in IH. rewrite IH. reflexivity. Qed.

  Lemma rncols_mev : forall A, rncols (mev A) = ncols A.
  Proof. intros [|r A]; cbn; [reflexivity|]. apply map_length. Qed.

  Lemma mmul_lift : forall N A B, shape N B ->
    mev (mmul A B) = rmmul (mev A) (mev B) /\ Forall (fun r => List.length r = N) (mmul A B).
  Proof.
    intros N A B [HB HN]. unfold mmul, rmmul. rewrite !map_map. split.
    - apply map_ext. intros a.
      assert (H : Forall (fun b => List.length b = List.length (vzero (ncols B))) B).
      { unfold vzero. rewrite repeat_length, HN. exact HB. }
      destruct (row_times_lift a B _ H) as [H1 _]. rewrite H1.
      rewrite vev_vzero. rewrite rncols_mev. reflexivity.
    - apply Forall_forall. intros r Hr. apply in_map_iff in Hr. destruct Hr as [a [Ha _]]. subst r.
      assert (H : Forall (fun b => List.length b = List.length (vzero (ncols B))) B).
      { unfold vzero. rewrite repeat_length, HN. exact HB. }
      destruct (row_times_lift a B _ H) as [_ H2]. rewrite H2. unfold vzero. rewrite repeat_length. exact HN.
  Qed.

  Lemma nth_map2 : forall (G : list (list K32)) r c,
    nth c (nth r (map (map ev) G) (@nil R)) (ev kzero) = ev (nth c (nth r G (@nil K32)) kzero).
  Proof.
    intros G r c. change (@nil R) with (map ev (@nil K32)).
    rewrite (map_nth (map ev) G (@nil K32) r). apply (map_nth ev).
  Qed.

  Lemma mev_get : forall G r c, ev (mget G r c) = rget (mev G) r c.
  Proof.
    intros G r c. unfold mget, rget. rewrite <- ev_zero. symmetry. apply nth_map2.
  Qed.

  Lemma mev_embed : forall n ws G, mev (embed n ws G) = rembed n ws (mev G).
  Proof.
    intros n ws G. unfold embed, rembed. rewrite map_map. apply map_ext. intros r.
    rewrite map_map. apply map_ext. intros c.
    destruct (same_outside n ws r c); [apply mev_get | apply ev_zero].
  Qed.

  Lemma mev_mid : forall n, mev (mid n) = rmid n.
  Proof.
    intros n. unfold mid, rmid. rewrite map_map. apply map_ext. intros r.
    rewrite map_map. apply map_ext. intros c.
    destruct (Nat.eqb r c); [apply ev_one | apply ev_zero].
  Qed.

  Lemma pow2_pos : forall n, exists m, (2 ^ n = S m)%nat.
  Proof.
    intros n. destruct (2 ^ n)%nat eqn:E.
    - exfalso. apply (Nat.pow_nonzero 2 n); [lia | exact E].
    - eexists. reflexivity.
  Qed.

  Lemma shape_mid : forall n, shape (2 ^ n) (mid (2 ^ n)).
  Proof.
    intros n. destruct (pow2_pos n) as [m Hm]. unfold shape, mid. rewrite Hm. split.
    - apply Forall_forall. intros r Hr. apply in_map_iff in Hr. destruct Hr as [x [Hx _]]. subst r.
      rewrite map_length, seq_length. reflexivity.
    - cbn [seq map ncols List.length]. rewrite map_length, seq_length. reflexivity.
  Qed.

  Lemma shape_mmul_embed : forall n ws G M, shape (2 ^ n) M -> shape (2 ^ n) (mmul (embed n ws G) M).
  Proof.
    intros n ws G M HM. destruct (mmul_lift (2 ^ n) (embed n ws G) M HM) as [_ HF]. split; [exact HF|].
    destruct (pow2_pos n) as [m Hm]. unfold embed in *. rewrite Hm in *. cbn [seq map mmul ncols] in *.
    inversion HF; subst. assumption.
  Qed.

  Theorem circuit_from_lift : forall n ops acc U,
    shape (2 ^ n) acc -> circuit_from n ops acc = Some U ->
    rcircuit_from n ops (mev acc) = Some (mev U).
  Proof.
    intros n. induction ops as [|o ops IH]; intros acc U Hs H; cbn in *.
    - inversion H; subst. reflexivity.
    - destruct (op_gate o) as [[ws G]|]; [|discriminate].
      destruct (embed_ok n ws G); [|discriminate].
      destruct (mmul_lift (2 ^ n) (embed n ws G) acc Hs) as [E _].
      rewrite <- mev_embed, <- E. apply IH; [apply shape_mmul_embed; exact Hs | exact H].
  Qed.

  (* Main lifting theorem: a circuit identity up to phase proved in K32 holds in R,
     for the circuit computed in R from the R-images of the gate matrices *)
  Theorem circuit_lift : forall n ops U G,
    circuit n ops = Some U -> phase_eq U G ->
    exists p, (p < 64)%nat /\
      rcircuit n ops = Some (rmscale (opow R rI rmul omega p) (mev G)).
  Proof.
    intros n ops U G Hc [p [Hp E]]. exists p. split; [exact Hp|].
    unfold rcircuit, circuit in *. rewrite <- mev_mid.
    rewrite (circuit_from_lift n ops _ U (shape_mid n) Hc).
    rewrite E, mev_mscale, ev_kw. reflexivity.
  Qed.
  (* ---- Kronecker product and general products (used by the MOV rows) ---- *)
  Definition rkron (A B : rmat) : rmat :=
    flat_map (fun ra => map (fun rb => flat_map (fun x => rvscale x rb) ra) B) A.
  Definition rket0 : rmat := [[rI]; [rO]].

  Lemma vev_flat_scale : forall ra rb,
    vev (flat_map (fun x => vscale x rb) ra) = flat_map (fun x => rvscale x (vev rb)) (vev ra).
  Proof.
    induction ra as [|x ra IH]; intros rb; cbn [flat_map map]; [reflexivity|].
    rewrite map_app, vev_vscale, IH. reflexivity.
  Qed.

  Lemma mev_kron : forall A B, mev (kron A B) = rkron (mev A) (mev B).
  Proof.
    induction A as [|ra A IH]; intros B; unfold kron, rkron in *; cbn [flat_map map]; [reflexivity|].
    rewrite map_app, IH. f_equal. rewrite !map_map. apply map_ext. intros rb. apply vev_flat_scale.
  Qed.

  Lemma mev_ket0 : mev ket0 = rket0.
  Proof. unfold ket0, rket0, k0, k1. cbn [map]. rewrite ev_one, ev_zero. reflexivity. Qed.

  Lemma shape_of_dims : forall r c A, dims_ok (S r) c A = true -> shape c A.
  Proof.
    intros r c A H. unfold dims_ok in H. apply andb_true_iff in H. destruct H as [H1 H2].
    apply Nat.eqb_eq in H1. rewrite forallb_forall in H2. split.
    - apply Forall_forall. intros row Hr. apply Nat.eqb_eq. apply H2. exact Hr.
    - destruct A as [|row A]; [discriminate|]. cbn. apply Nat.eqb_eq. apply H2. left. reflexivity.
  Qed.

  (* products of arbitrary K32 matrices of matching shape *)
  Theorem mmul_lift_dims : forall r c A B, dims_ok (S r) c B = true ->
    mev (mmul A B) = rmmul (mev A) (mev B).
  Proof.
    intros r c A B H. destruct (mmul_lift c A B (shape_of_dims r c B H)) as [E _]. exact E.
  Qed.

  Theorem circuit_image : forall n ops U, circuit n ops = Some U -> rcircuit n ops = Some (mev U).
  Proof.
    intros n ops U Hc. unfold rcircuit, circuit in *. rewrite <- mev_mid.
    exact (circuit_from_lift n ops _ U (shape_mid n) Hc).
  Qed.

End Lift.

Definition circuit_lift_statement : Prop :=
  forall (R : Type) (rO rI : R) (radd rmul rsub : R -> R -> R) (ropp : R -> R)
         (Rth : ring_theory rO rI radd rmul rsub ropp (@eq R)) (omega half : R),
    opow R rI rmul omega 32 = ropp rI ->
    rmul (radd rI rI) half = rI ->
    forall n ops U G, circuit n ops = Some U -> phase_eq U G ->
      exists p, (p < 64)%nat /\
        rcircuit R rO rI radd rmul ropp omega half n ops =
          Some (rmscale R rmul (opow R rI rmul omega p)
                       (map (map (keval R rO rI radd rmul ropp omega half)) G)).

Theorem circuit_lift_all : circuit_lift_statement.
Proof.
  intros R rO rI radd rmul rsub ropp Rth omega half H32 H2 n ops U G Hc Hp.
  exact (circuit_lift R rO rI radd rmul rsub ropp Rth omega half H32 H2 n ops U G Hc Hp).
Qed.
