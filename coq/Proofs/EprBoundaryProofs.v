(* EprBoundaryProofs.v — proofs about Sdk/EprBoundary.v (C11).

   request_roundtrip_all : for ANY tables on which the 600-shape symbolic run succeeds
     (a finite computation, done on the regenerated tables in props/C11.v), and for ALL
     integer parameter values, the request the controller builds from the serialized
     argument array agrees field by field with the specification and is accepted by
     the link-layer conversion.  The step from symbols to all integers is the
     naturality of every function of the model in the symbol type.
   handles_read_pair_i : for all n, all responses and all i < n, every result handle
     attribute of pair i reads the specified field of response i. *)
From Coq Require Import ZArith List Bool String Lia Arith.
From NQ Require Import Sdk.EprBoundary.
Import ListNotations.
Open Scope string_scope.
Open Scope Z_scope.

(* ------------------------------------------------------------------ naturality *)
Section Naturality.
Context {V W : Type} (rho : V -> Z).

Definition onv (fv : string * fval V) : string * fval W := (fst fv, fmap rho (snd fv)).
Definition mapv (l : list (string * fval V)) : list (string * fval W) := map onv l.
Definition mapa (l : list (option (val V))) : list (option (val W)) := map (option_map (vmap rho)) l.

Lemma map_upd : forall {A B} (f : A -> B) k x l, map f (upd k x l) = upd k (f x) (map f l).
Proof.
  intros A B f k x l. revert k. induction l as [|h t IH]; intros k; destruct k; simpl; try reflexivity.
  now rewrite IH.
Qed.

Lemma map_repeat_none : forall n, mapa (repeat None n) = repeat None n.
Proof. unfold mapa. induction n as [|n IH]; cbn [repeat map option_map]; [reflexivity|]. now rewrite IH. Qed.

Lemma serialize_map : forall t sh (p : pvals V),
  serialize t sh (pvmap rho p) = option_map mapa (serialize t sh p).
Proof.
  intros t sh p. unfold serialize.
  destruct (negb (idx_in_range (t_idx t))); [reflexivity|].
  cbn [option_map]. f_equal. unfold mapa.
  destruct (sh_timed sh), (is_mr (sh_tp sh)), (sh_rotl sh), (sh_rotr sh), (sh_rbl sh), (sh_rbr sh);
    cbn [pvmap v_number v_tu v_mt v_rl1 v_rl2 v_rl3 v_rr1 v_rr2 v_rr3];
    rewrite ?map_upd; cbn [option_map vmap];
    (fold (mapa (repeat None (i_len (t_idx t)))); rewrite map_repeat_none; reflexivity).
Qed.

Lemma pick_map : forall a d, pick (option_map (vmap (W:=W) rho) a) d = fmap rho (pick a d).
Proof. intros [x|] d; [reflexivity|]. destruct d; reflexivity. Qed.

Lemma map2_pick_map : forall args ds,
  map2 pick (mapa args) ds = map (fmap (W:=W) rho) (map2 pick args ds).
Proof.
  induction args as [|a args IH]; intros ds; destruct ds as [|d ds]; simpl; try reflexivity.
  rewrite pick_map. f_equal. apply IH.
Qed.

Lemma combine_map_r : forall (fs : list string) (l : list (fval V)),
  combine fs (map (fmap (W:=W) rho) l) = mapv (combine fs l).
Proof.
  induction fs as [|f fs IH]; intros l; destruct l as [|x l]; simpl; try reflexivity.
  unfold onv at 1. simpl. f_equal. apply IH.
Qed.

Lemma lookup_mapv : forall f l, lookup f (mapv l) = option_map (fmap rho) (lookup f l).
Proof.
  intros f l. induction l as [|[k v] l IH]; simpl; [reflexivity|].
  destruct (String.eqb k f); [reflexivity|apply IH].
Qed.

Lemma replace_mapv : forall f x l, replace f (fmap rho x) (mapv l) = mapv (replace f x l).
Proof.
  intros f x l. induction l as [|[k v] l IH]; simpl; [reflexivity|].
  destruct (String.eqb k f); simpl; [reflexivity|]. unfold onv at 1. simpl. f_equal. apply IH.
Qed.

Lemma to_enum_map : forall en mem v v',
  to_enum en mem v = Some v' -> to_enum en mem (fmap (W:=W) rho v) = Some (fmap rho v').
Proof.
  intros en mem v v' H. destruct v as [[z|s]|en' z]; simpl in *.
  - destruct (existsb (Z.eqb z) (map snd mem)); inversion H; reflexivity.
  - discriminate.
  - destruct (String.eqb en' en); inversion H; reflexivity.
Qed.

Lemma conv_map : forall f en mem kw kw',
  conv f en mem kw = Some kw' -> conv f en mem (mapv kw) = Some (mapv kw').
Proof.
  intros f en mem kw kw' H. unfold conv in *. rewrite lookup_mapv.
  destruct (lookup f kw) as [v|]; [|discriminate]. simpl.
  destruct (to_enum en mem v) as [v'|] eqn:E; [|discriminate].
  rewrite (to_enum_map _ _ _ _ E). inversion H. now rewrite replace_mapv.
Qed.

Lemma controller_map : forall t n pu arr r,
  controller t n pu arr = Some r ->
  controller t (vmap rho n) (vmap rho pu) (mapa arr) = Some (mapv r).
Proof.
  intros t n pu arr r H. unfold controller in *.
  cbn [List.length] in *. unfold mapa at 1. rewrite map_length.
  destruct (negb (Nat.eqb (S (S (List.length arr))) (List.length (t_fields t)))); [discriminate|].
  destruct (negb (Nat.eqb (List.length (t_defaults t)) (List.length (t_fields t)))); [discriminate|].
  change (Some (vmap (W:=W) rho n) :: Some (vmap rho pu) :: mapa arr)
    with (mapa (Some n :: Some pu :: arr)).
  rewrite map2_pick_map, combine_map_r.
  destruct (conv "type" "RequestType" (t_reqtype t) _) as [kw1|] eqn:E1; [|discriminate].
  rewrite (conv_map _ _ _ _ _ E1).
  destruct (conv "random_basis_local" "RandomBasis" (t_rb t) kw1) as [kw2|] eqn:E2; [|discriminate].
  rewrite (conv_map _ _ _ _ _ E2).
  now apply conv_map.
Qed.

Lemma expected_map : forall t sh (p : pvals V),
  expected t sh (pvmap rho p) = mapv (expected t sh p).
Proof.
  intros t sh p. unfold expected, mapv, zero.
  destruct (is_mr (sh_tp sh)), (sh_rotl sh), (sh_rotr sh), (sh_timed sh); reflexivity.
Qed.

Lemma has_all_map : forall r fs, has_all (mapv r) fs = has_all r fs.
Proof.
  intros r fs. unfold has_all. induction fs as [|f fs IH]; [reflexivity|].
  cbn [forallb]. rewrite IH, lookup_mapv. destruct (lookup f r); reflexivity.
Qed.

Lemma rb_ok_map : forall t r f, rb_ok t (mapv r) f = rb_ok t r f.
Proof.
  intros t r f. unfold rb_ok. rewrite lookup_mapv.
  destruct (lookup f r) as [[x|en z]|]; reflexivity.
Qed.

Lemma qlink_map : forall t r, qlink_accepts t (mapv r) = qlink_accepts t r.
Proof.
  intros t r. unfold qlink_accepts. rewrite lookup_mapv.
  destruct (lookup "type" r) as [[x|en z]|]; cbn [option_map fmap]; try reflexivity.
  now rewrite !has_all_map, !rb_ok_map.
Qed.

Lemma req_agree_map : forall got exp, req_agree got exp -> req_agree (mapv got) (mapv exp).
Proof.
  intros got exp [Hl Hf]. split.
  - unfold mapv. now rewrite !map_length.
  - intros f v Hin. unfold mapv in Hin. apply in_map_iff in Hin.
    destruct Hin as [[f0 v0] [Heq Hin]]. unfold onv in Heq. simpl in Heq. inversion Heq; subst.
    rewrite lookup_mapv, (Hf _ _ Hin). reflexivity.
Qed.
End Naturality.

(* ------------------------------------------------------------------ soundness of the boolean comparison *)
Lemma val_eqb_sound : forall a b, val_eqb a b = true -> a = b.
Proof.
  intros [x|x] [y|y] H; simpl in H; try discriminate.
  - apply Z.eqb_eq in H. now subst.
  - apply internal_tok_dec_bl in H. now subst.
Qed.

Lemma fval_eqb_sound : forall a b, fval_eqb a b = true -> a = b.
Proof.
  intros [x|e x] [y|e' y] H; simpl in H; try discriminate.
  - apply val_eqb_sound in H. now subst.
  - apply andb_true_iff in H. destruct H as [H1 H2].
    apply String.eqb_eq in H1. apply Z.eqb_eq in H2. now subst.
Qed.

Lemma req_agreeb_sound : forall got exp, req_agreeb got exp = true -> req_agree got exp.
Proof.
  intros got exp H. unfold req_agreeb in H. apply andb_true_iff in H. destruct H as [H1 H2].
  split; [now apply Nat.eqb_eq|].
  intros f v Hin. rewrite forallb_forall in H2. specialize (H2 _ Hin). simpl in H2.
  destruct (lookup f got) as [v'|]; [|discriminate]. apply fval_eqb_sound in H2. now subst.
Qed.

(* ------------------------------------------------------------------ from shapes to all parameters *)
Definition rho_of (p : params) (k : tok) : Z :=
  let '(a, b, c) := p_rl p in
  let '(d, e, f) := p_rr p in
  match k with
  | KNumber => p_number p | KTu => p_tu p | KMt => p_mt p
  | KRl1 => a | KRl2 => b | KRl3 => c | KRr1 => d | KRr2 => e | KRr3 => f
  | KNode => p_node p | KSock => p_sock p
  end.

Lemma vals_of_tok : forall p, vals_of p = pvmap (rho_of p) tokvals.
Proof.
  intros p. unfold vals_of, rho_of, pvmap, tokvals.
  destruct (p_rl p) as [[a b] c], (p_rr p) as [[d e] f]. reflexivity.
Qed.

Lemma rho_node : forall p, rho_of p KNode = p_node p.
Proof. intros p. unfold rho_of. destruct (p_rl p) as [[a b] c], (p_rr p) as [[d e] f]. reflexivity. Qed.
Lemma rho_sock : forall p, rho_of p KSock = p_sock p.
Proof. intros p. unfold rho_of. destruct (p_rl p) as [[a b] c], (p_rr p) as [[d e] f]. reflexivity. Qed.

Lemma in_bools : forall b, In b bools.
Proof. intros [|]; simpl; auto. Qed.

Lemma in_rb_choices : forall t o, opt_in o (t_rb t) -> In o (rb_choices t).
Proof.
  intros t [n|] H; simpl; [right|now left].
  simpl in H. apply in_map_iff in H. destruct H as [[k v] [Hk Hin]]. simpl in Hk. subst.
  apply in_map_iff. exists (n, v). split; [reflexivity|exact Hin].
Qed.

Lemma shape_in : forall t p, api_ok t p -> In (shape_of p) (all_shapes t).
Proof.
  intros t p [Htp [Hl Hr]]. unfold all_shapes, shape_of.
  apply in_flat_map. exists (p_tp p). split; [exact Htp|].
  apply in_flat_map. eexists. split; [apply in_bools|].
  apply in_flat_map. eexists. split; [apply in_bools|].
  apply in_flat_map. eexists. split; [apply in_bools|].
  apply in_flat_map. exists (p_rbl p). split; [now apply in_rb_choices|].
  apply in_map_iff. exists (p_rbr p). split; [reflexivity|now apply in_rb_choices].
Qed.

Definition roundtrip_at (t : tables) (p : params) : Prop :=
  exists arr r,
    serialize t (shape_of p) (vals_of p) = Some arr /\
    controller t (Lit (p_node p)) (Lit (p_sock p)) arr = Some r /\
    req_agree r (expected t (shape_of p) (vals_of p)) /\
    qlink_accepts t r = true.

Theorem request_roundtrip_all : forall t,
  all_shapes_ok t = true -> forall p, api_ok t p -> roundtrip_at t p.
Proof.
  intros t Hok p Hapi. unfold all_shapes_ok in Hok. apply andb_true_iff in Hok.
  destruct Hok as [_ Hall]. rewrite forallb_forall in Hall.
  specialize (Hall _ (shape_in t p Hapi)). unfold check_shape in Hall.
  destruct (serialize t (shape_of p) tokvals) as [arr|] eqn:Es; [|discriminate].
  destruct (controller t (Sym KNode) (Sym KSock) arr) as [r|] eqn:Ec; [|discriminate].
  apply andb_true_iff in Hall. destruct Hall as [Hag Hq].
  exists (mapa (rho_of p) arr), (mapv (rho_of p) r).
  rewrite vals_of_tok. split; [|split; [|split]].
  - rewrite (serialize_map (W := novar)), Es. reflexivity.
  - apply (controller_map (W := novar) (rho_of p)) in Ec. cbn [vmap] in Ec.
    rewrite rho_node, rho_sock in Ec. exact Ec.
  - rewrite expected_map. apply req_agree_map, req_agreeb_sound. exact Hag.
  - rewrite qlink_map. exact Hq.
Qed.

(* ------------------------------------------------------------------ results *)
Open Scope nat_scope.

Lemma nth_error_firstn_lt : forall {A} (l : list A) s j, j < s -> nth_error (firstn s l) j = nth_error l j.
Proof.
  intros A l. induction l as [|h t IH]; intros s j H.
  - now rewrite firstn_nil.
  - destruct s; [lia|]. destruct j; simpl; [reflexivity|]. apply IH. lia.
Qed.

Lemma nth_error_skipn_add : forall {A} (l : list A) k m, nth_error (skipn k l) m = nth_error l (k + m).
Proof.
  intros A l. induction l as [|h t IH]; intros k m.
  - rewrite skipn_nil. destruct m, (k + 0), k; reflexivity || (simpl; now destruct (k + S m)).
  - destruct k; simpl; [reflexivity|]. apply IH.
Qed.

Lemma read_store : forall {A} (arr vals : list A) s ok j,
  List.length vals = ok -> s + ok <= List.length arr ->
  nth_error (firstn s arr ++ vals ++ skipn (s + ok) arr)%list j =
  if j <? s then nth_error arr j
  else if j <? s + ok then nth_error vals (j - s) else nth_error arr j.
Proof.
  intros A arr vals s ok j Hl Hs.
  assert (Hf : List.length (firstn s arr) = s) by (apply firstn_length_le; lia).
  destruct (j <? s) eqn:E1.
  - apply Nat.ltb_lt in E1. rewrite nth_error_app1 by lia. now apply nth_error_firstn_lt.
  - apply Nat.ltb_ge in E1. rewrite nth_error_app2 by lia. rewrite Hf.
    destruct (j <? s + ok) eqn:E2.
    + apply Nat.ltb_lt in E2. rewrite nth_error_app1 by lia. reflexivity.
    + apply Nat.ltb_ge in E2. rewrite nth_error_app2 by lia. rewrite nth_error_skipn_add.
      f_equal. lia.
Qed.

Lemma store_all_spec : forall ok fields, List.length fields = ok ->
  forall rs a m N, List.length a = N * ok -> m + List.length rs <= N ->
  exists a', store_all ok fields a m rs = Some a' /\ List.length a' = N * ok /\
    (forall j, j < m * ok -> nth_error a' j = nth_error a j) /\
    (forall i r k, nth_error rs i = Some r -> k < ok ->
       nth_error a' ((m + i) * ok + k) = nth_error (resp_values fields r) k).
Proof.
  intros ok fields Hfl rs. induction rs as [|r0 rs IH]; intros a m N Ha Hm.
  - exists a. repeat split; try assumption. intros i r k H. destruct i; discriminate.
  - cbn [store_all]. unfold store_ent.
    assert (Hv : List.length (resp_values fields r0) = ok) by (unfold resp_values; now rewrite map_length).
    assert (Hmul : (m + 1) * ok = m * ok + ok) by lia.
    assert (Hle : m * ok + ok <= N * ok).
    { rewrite <- Hmul. apply Nat.mul_le_mono_r. cbn [List.length] in Hm. lia. }
    rewrite Hv, Nat.eqb_refl, Hmul, Ha. cbn [andb].
    destruct (Nat.leb (m * ok + ok) (N * ok)) eqn:El; [|apply Nat.leb_gt in El; lia].
    set (a1 := (firstn (m * ok) a ++ resp_values fields r0 ++ skipn (m * ok + ok) a)%list).
    assert (Ha1 : List.length a1 = N * ok).
    { unfold a1. rewrite !app_length, skipn_length, firstn_length_le, Hv, Ha by lia. lia. }
    assert (Hm1 : S m + List.length rs <= N) by (cbn [List.length] in Hm; lia).
    destruct (IH a1 (S m) N Ha1 Hm1) as [a' [Hs [Hl' [Hpre Hrd]]]].
    assert (Hrs : forall j, nth_error a1 j =
              if j <? m * ok then nth_error a j
              else if j <? m * ok + ok then nth_error (resp_values fields r0) (j - m * ok)
              else nth_error a j).
    { intros j. unfold a1. apply read_store; [exact Hv|lia]. }
    assert (HS : S m * ok = m * ok + ok) by lia.
    exists a'. repeat split; try assumption.
    + intros j Hj. rewrite Hpre by lia. rewrite Hrs.
      destruct (j <? m * ok) eqn:E; [reflexivity|apply Nat.ltb_ge in E; lia].
    + intros i r k Hi Hk. destruct i as [|i].
      * cbn [nth_error] in Hi. inversion Hi; subst r.
        rewrite Nat.add_0_r. rewrite Hpre by lia. rewrite Hrs.
        destruct (m * ok + k <? m * ok) eqn:E1; [apply Nat.ltb_lt in E1; lia|].
        destruct (m * ok + k <? m * ok + ok) eqn:E2; [|apply Nat.ltb_ge in E2; lia].
        f_equal. lia.
      * cbn [nth_error] in Hi. specialize (Hrd i r k Hi Hk).
        replace (m + S i) with (S m + i) by lia. exact Hrd.
Qed.

Lemma lookup_some_in : forall {A} k (l : list (string * A)) v, lookup k l = Some v -> In (k, v) l.
Proof.
  intros A k l v. induction l as [|[k' v'] l IH]; simpl; [discriminate|].
  destruct (String.eqb k' k) eqn:E.
  - apply String.eqb_eq in E. intros H. inversion H. subst. now left.
  - intros H. right. now apply IH.
Qed.

Definition handles_at (ok : nat) (fields : list string) (stride : nat)
           (handle : list (string * nat)) (spec : list (string * string)) (n : nat) (rs : list resp) : Prop :=
  exists arr, results_array ok fields stride n rs = Some arr /\
    forall i r attr f idx, nth_error rs i = Some r -> In (attr, f) spec ->
      lookup attr handle = Some idx ->
      handle_read stride idx arr i = Some (Some (r f)).

Theorem handles_read_pair_i : forall ok fields stride handle spec,
  handles_ok ok fields stride handle spec = true ->
  forall n rs, List.length rs = n -> handles_at ok fields stride handle spec n rs.
Proof.
  intros ok fields stride handle spec H n rs Hn. unfold handles_ok in H.
  apply andb_true_iff in H. destruct H as [H Hsp]. apply andb_true_iff in H. destruct H as [Hfl Hst].
  apply Nat.eqb_eq in Hfl. apply Nat.eqb_eq in Hst. subst stride.
  unfold handles_at, results_array.
  destruct (store_all_spec ok fields Hfl rs (repeat None (ok * n)) 0 n) as [arr [Hs [_ [_ Hrd]]]].
  - rewrite repeat_length. lia.
  - lia.
  - exists arr. split; [exact Hs|].
    intros i r attr f idx Hi Hin Hlk. rewrite forallb_forall in Hsp. specialize (Hsp _ Hin).
    simpl in Hsp. rewrite Hlk in Hsp.
    destruct (nth_error fields idx) as [f'|] eqn:Ef; simpl in Hsp; [|discriminate].
    apply String.eqb_eq in Hsp. subst f'.
    assert (Hidx : idx < ok). { rewrite <- Hfl. apply nth_error_Some. now rewrite Ef. }
    unfold handle_read. specialize (Hrd i r idx Hi Hidx). simpl in Hrd. rewrite Hrd.
    unfold resp_values. now rewrite (map_nth_error _ _ _ Ef).
Qed.

(* ------------------------------------------------------------------ retry loop (min_fidelity_all_at_end) *)
Lemma store_all_length : forall ok fields, List.length fields = ok ->
  forall rs a N a', List.length a = N * ok -> List.length rs <= N ->
  store_all ok fields a 0 rs = Some a' -> List.length a' = N * ok.
Proof.
  intros ok fields Hf rs a N a' Ha Hn Hs.
  destruct (store_all_spec ok fields Hf rs a 0 N Ha ltac:(lia)) as [a2 [H1 [H2 _]]].
  rewrite H1 in Hs. inversion Hs. now subst.
Qed.

Lemma retry_run_accepted : forall ok fields stride n acc undef, List.length fields = ok -> stride = ok ->
  forall tries attempts arr a rs,
  List.length arr = n * ok ->
  (forall r, In r attempts -> List.length r = n) ->
  retry_run ok fields acc undef tries arr attempts = Some a ->
  accepted_attempt acc tries attempts = Some rs ->
  results_array ok fields stride n rs = Some a /\ List.length rs = n.
Proof.
  intros ok fields stride n acc undef Hf Hst. subst stride.
  induction tries as [|t IH]; intros attempts arr a rs Hlen Hall Hrun Hacc; [discriminate|].
  cbn [retry_run accepted_attempt] in *. destruct attempts as [|r0 rest]; [discriminate|].
  unfold undefine_all in Hrun at 1. rewrite Hlen in Hrun.
  destruct (store_all ok fields (repeat None (n * ok)) 0 r0) as [a1|] eqn:Es; [|discriminate].
  destruct (acc r0).
  - inversion Hrun; inversion Hacc; subst. split; [|apply Hall; now left].
    unfold results_array. now rewrite Nat.mul_comm.
  - assert (Hl1 : List.length a1 = n * ok).
    { apply (store_all_length ok fields Hf r0 (repeat None (n * ok)) n a1); auto.
      - now rewrite repeat_length.
      - rewrite (Hall r0); [lia|now left]. }
    apply (IH rest (if undef then undefine_all a1 else a1) a rs); auto.
    + destruct undef; [unfold undefine_all; now rewrite repeat_length|exact Hl1].
    + intros r Hr. apply Hall. now right.
Qed.

Definition retry_handles_at (ok : nat) (fields : list string) (stride : nat)
           (handle : list (string * nat)) (spec : list (string * string)) (n : nat)
           (acc : list resp -> bool) (undef : bool) (tries : nat) (attempts : list (list resp)) : Prop :=
  forall a rs, retry_run ok fields acc undef tries (repeat None (stride * n)) attempts = Some a ->
    accepted_attempt acc tries attempts = Some rs ->
    forall i r attr f idx, nth_error rs i = Some r -> In (attr, f) spec ->
      lookup attr handle = Some idx -> handle_read stride idx a i = Some (Some (r f)).

Theorem retry_handles_read_accepted_attempt : forall ok fields stride handle spec,
  handles_ok ok fields stride handle spec = true ->
  forall n acc undef tries attempts,
  (forall rs, In rs attempts -> List.length rs = n) ->
  retry_handles_at ok fields stride handle spec n acc undef tries attempts.
Proof.
  intros ok fields stride handle spec H n acc undef tries attempts Hall a rs Hrun Hacc.
  assert (H' := H). unfold handles_ok in H'.
  apply andb_true_iff in H'. destruct H' as [H' _]. apply andb_true_iff in H'. destruct H' as [Hfl Hst].
  apply Nat.eqb_eq in Hfl. apply Nat.eqb_eq in Hst.
  destruct (retry_run_accepted ok fields stride n acc undef Hfl Hst tries attempts (repeat None (stride * n)) a rs)
    as [Hr Hn]; auto.
  - rewrite repeat_length. subst stride. lia.
  - destruct (handles_read_pair_i ok fields stride handle spec H n rs Hn) as [arr [Ha Hh]].
    rewrite Ha in Hr. inversion Hr; subst. exact Hh.
Qed.
