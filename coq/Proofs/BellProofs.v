(* BellProofs.v — soundness of the deciders of Epr/BellRing.v (C10 parts a, d). *)
From Coq Require Import ZArith List Bool Arith Lia.
From NQ Require Import Base.Cyclo Base.QMat Epr.BellRing Proofs.QMatProofs.
Import ListNotations.

Lemma peqb_refl : forall p, peqb p p = true.
Proof. induction p as [|a p IH]; cbn; [reflexivity|]. rewrite Z.eqb_refl, IH. reflexivity. Qed.
Lemma keqb_refl : forall a, keqb a a = true.
Proof. intros [c e]. unfold keqb. cbn. rewrite peqb_refl, Nat.eqb_refl. reflexivity. Qed.
Lemma veqb_refl : forall v, veqb v v = true.
Proof. induction v as [|a v IH]; cbn; [reflexivity|]. rewrite keqb_refl, IH. reflexivity. Qed.
Lemma meqb_refl : forall A, meqb A A = true.
Proof. induction A as [|a A IH]; cbn; [reflexivity|]. rewrite veqb_refl, IH. reflexivity. Qed.

Lemma phase_eqb_complete : forall A B, phase_eq A B -> phase_eqb A B = true.
Proof.
  intros A B [p [Hp E]]. unfold phase_eqb. apply existsb_exists.
  exists p. split; [apply in_seq; lia|]. rewrite <- E. apply meqb_refl.
Qed.

Lemma phase_eqb_false : forall A B, phase_eqb A B = false -> ~ phase_eq A B.
Proof. intros A B H C. apply phase_eqb_complete in C. congruence. Qed.

(* (a) every delivered Bell state is mapped to Phi+ (up to phase) by its correction *)
Definition bell_fix_stmt (num : list (bell * Z)) (corr : list (Z * list qop)) : Prop :=
  forall b idx, In (b, idx) num ->
    exists ops U, assocZ idx corr = Some ops /\ circuit 1 ops = Some U /\
                  phase_eq (fixed_state U b) (bell_vec BPhiPlus).

Lemma bell_fix_sound : forall num corr,
  forallb (fix_row_ok corr) num = true -> bell_fix_stmt num corr.
Proof.
  intros num corr H b idx Hin. rewrite forallb_forall in H. specialize (H _ Hin).
  unfold fix_row_ok in H. cbn [fst snd] in H.
  destruct (assocZ idx corr) as [ops|] eqn:Ea; [|discriminate].
  destruct (circuit 1 ops) as [U|] eqn:Ec; [|discriminate].
  exists ops, U. split; [reflexivity|]. split; [exact Ec|]. apply phase_eqb_sound. exact H.
Qed.

(* ... and no other Pauli does: a Pauli that is not the correction (up to phase)
   does not take |B_b> to Phi+ (up to phase) *)
Definition bell_only_stmt (num : list (bell * Z)) (corr : list (Z * list qop)) : Prop :=
  forall b idx ops U, In (b, idx) num -> assocZ idx corr = Some ops -> circuit 1 ops = Some U ->
    forall P, In P paulis -> ~ phase_eq P U ->
      ~ phase_eq (fixed_state P b) (bell_vec BPhiPlus).

Lemma bell_only_sound : forall num corr,
  forallb (only_row_ok corr) num = true -> bell_only_stmt num corr.
Proof.
  intros num corr H b idx ops U Hin Ha Hc P HP Hne.
  rewrite forallb_forall in H. specialize (H _ Hin).
  unfold only_row_ok in H. cbn [fst snd] in H. rewrite Ha, Hc in H.
  rewrite forallb_forall in H. specialize (H _ HP).
  apply orb_true_iff in H. destruct H as [H|H].
  - exfalso. apply Hne. apply phase_eqb_sound. exact H.
  - apply negb_true_iff in H. apply phase_eqb_false. exact H.
Qed.

(* (d) with the post-processing table, (processed local outcome, remote outcome)
   on |B_b> is distributed exactly as (local, remote) on Phi+ *)
Definition postprocess_stmt (tbl : list pprow) (num : list (bell * Z)) : Prop :=
  forall rot, In rot (table_rots tbl) -> forall b idx, In (b, idx) num ->
    exists U, basis_unitary rot = Some U /\
      forall a mr : bool, post_prob tbl U rot b idx a mr = Some (joint_prob U BPhiPlus a mr).

Lemma okeqb_eq : forall x y, okeqb x y = true -> x = Some y.
Proof. intros [x|] y H; cbn in H; [|discriminate]. apply keqb_eq in H. subst. reflexivity. Qed.

Lemma postprocess_sound : forall tbl num, pp_ok tbl num = true -> postprocess_stmt tbl num.
Proof.
  intros tbl num H rot Hr b idx Hin. unfold pp_ok in H.
  rewrite forallb_forall in H. specialize (H _ Hr).
  rewrite forallb_forall in H. specialize (H _ Hin).
  unfold pp_case_ok in H. cbn [fst snd] in H.
  destruct (basis_unitary rot) as [U|]; [|discriminate].
  exists U. split; [reflexivity|]. intros a mr.
  rewrite forallb_forall in H.
  assert (Ha : In a bools) by (destruct a; cbn; auto).
  specialize (H _ Ha). rewrite forallb_forall in H.
  assert (Hm : In mr bools) by (destruct mr; cbn; auto).
  specialize (H _ Hm). apply okeqb_eq. exact H.
Qed.
