(* AngleWitness.v — concrete witnesses (by computation) showing where the full C19 statements fail. *)
From Coq Require Import ZArith QArith Qround Qabs Qpower List Bool Lia Lqa.
From NQ Require Import Num.Angle Proofs.AngleProofs.
Import ListNotations.
Open Scope Q_scope.
(* ------------------------------------------------------------ witnesses *)

(* (1) code before 74c0e87: the threshold is tol itself (half turns vs radians) *)
Lemma old_threshold_refuted :
  exists rest tol raw rf,
    0 <= rest /\ rest < 2 /\ 0 < tol /\ steps tol rest raw rf /\
    tol < Qabs (rest - sumq raw) * PI_LO.
Proof.
  exists (99 # 1000000), (1 # 10000), [], (99 # 1000000).
  split; [discriminate|]. split; [reflexivity|]. split; [reflexivity|].
  split; [apply steps_stop; discriminate|]. vm_compute. reflexivity.
Qed.

(* (2) code before c940bb0: the filter d < 32 (here even in the unit the old
   loop used: the error in half turns exceeds thr) *)
Definition REST_03 : Q := 3440496683533595 # 36028797018963968.   (* (0.3 % 2pi) / pi as computed in binary64 *)

Lemma old_filter_refuted :
  exists rest thr raw rf out,
    0 <= rest /\ rest < 2 /\ 0 < thr /\ steps thr rest raw rf /\
    post D_OLD raw = Some out /\ thr < Qabs (rest - sumq out).
Proof.
  exists REST_03, (1 # 1000000000).
  destruct (expand sel_exact FUEL (1 # 1000000000) REST_03) as [raw rf| |] eqn:R;
    [| vm_compute in R; discriminate R | vm_compute in R; discriminate R].
  exists raw, rf. pose proof (expand_sound _ _ _ _ _ _ R) as Hs.
  vm_compute in R. injection R as R1 R2. subst raw rf. eexists.
  split; [discriminate|]. split; [reflexivity|]. split; [reflexivity|]. split; [exact Hs|].
  split; [vm_compute; reflexivity|]. vm_compute. reflexivity.
Qed.

(* (4) code before 2658c5b: for a tiny negative angle the front end yields
   rest = 2, outside [0, 2), and the run ends in the step (1, -1) *)
Lemma rest_two_refuted :
  (exists rest thr, front_gen true false (-1 # 100000000000000000000) (1 # 10000) = Some (rest, thr) /\ rest == 2) /\
  exists raw rf out,
    steps (1 # 10000) 2 raw rf /\ post D_FIELD raw = Some out /\ out = [(1, -1)%Z].
Proof.
  split; [eexists; eexists; split; [vm_compute; reflexivity | vm_compute; reflexivity]|].
  destruct (expand sel_exact FUEL (1 # 10000) 2) as [raw rf| |] eqn:R;
    [| vm_compute in R; discriminate R | vm_compute in R; discriminate R].
  exists raw, rf. pose proof (expand_sound _ _ _ _ _ _ R) as Hs.
  vm_compute in R. injection R as R1 R2. subst raw rf. eexists.
  split; [exact Hs|]. split; vm_compute; reflexivity.
Qed.

(* (3) range reduction modulo the double 2*pi: for angle = 1e13, tol = 1e-4 the
   steps the (repaired) code emits miss the requested rotation by more than
   tol, for every value of pi between PI_LO and PI_HI (the expression is linear
   in pi, so the two end points suffice).  k = turns angle whole turns are
   removed, so the rotation error is (sum + 2k) * pi - angle. *)
Definition radians_error (angle : Q) (out : list (Z * Z)) (p : Q) : Q :=
  (sumq out + 2 * inject_Z (turns angle)) * p - angle.

Lemma range_reduction_refuted :
  exists angle tol out,
    spec_exact angle tol = Some out /\
    tol < radians_error angle out PI_LO /\ tol < radians_error angle out PI_HI /\
    radians_error angle out PI_HI < 3.
Proof.
  exists (10000000000000 # 1), (1 # 10000).
  destruct (spec_exact (10000000000000 # 1) (1 # 10000)) as [out|] eqn:R;
    [| vm_compute in R; discriminate R].
  exists out. split; [reflexivity|]. vm_compute in R. injection R as R. subst out.
  split; [vm_compute; reflexivity|]. split; vm_compute; reflexivity.
Qed.
