(* Bridge_Asm.v — bridge from the private interpreter of C03 (Lang/AsmSem.v,
   run on ASSEMBLED programs: no labels, no bracket arguments, registers in every
   value position, literal branch targets) to the common semantics Exec/Sem.v.

   State representations differ (AsmSem: register file as a function, banks as
   integers, one fault without a kind, pc : nat; Sem: association lists, bank
   enumeration, Fault kind line, pc : Z), so the bridge is a simulation with an
   explicit relation [srel] / [cfg_bridge], for every program of the fragment,
   every pair of related states, every pc and every number of steps, inside the
   defined domain of Sem. *)
From Coq Require Import ZArith List Bool String Lia ZifyBool.
From NQ Require Import Lang.Asm Lang.AsmSem.
From NQ Require Import Exec.State Exec.Sem Proofs.ExecProofs Proofs.BridgeCommon.
Import ListNotations.
Open Scope Z_scope.

(* ------------------------------------------------------------------ embedding of programs *)
Definition bank_of_Z (b : Z) : option bank :=
  if b =? 0 then Some BR else if b =? 1 then Some BC else if b =? 2 then Some BQ
  else if b =? 3 then Some BM else None.

Definition e_reg (v : aval) : option State.reg :=
  match v with
  | VReg b i => match bank_of_Z b with Some k => Some (k, i) | None => None end
  | VLit _ => None
  end.

(* index of an array entry: a register or (as the executor also accepts) an int *)
Definition e_ix (v : aval) : option opnd :=
  match v with
  | VLit z => Some (OImm z)
  | VReg _ _ => match e_reg v with Some r => Some (OReg r) | None => None end
  end.

Definition ob {A B} (o : option A) (f : A -> option B) : option B :=
  match o with Some x => f x | None => None end.

Definition e_binop (o : aopc) : binop := match o with Xadd | Xaddm => OAdd | _ => OSub end.

Definition e_ins (o : aopc) (ops : list aopnd) : option instr :=
  match o, ops with
  | Xset, [AV d; AV (VLit z)] => ob (e_reg d) (fun r => Some (ISet r z))
  | (Xadd | Xsub), [AV d; AV a; AV b] =>
      ob (e_reg d) (fun rd => ob (e_reg a) (fun ra => ob (e_reg b) (fun rb =>
        Some (IClassical (COp (e_binop o) rd ra rb)))))
  | (Xaddm | Xsubm), [AV d; AV a; AV b; AV m] =>
      ob (e_reg d) (fun rd => ob (e_reg a) (fun ra => ob (e_reg b) (fun rb => ob (e_reg m) (fun rm =>
        Some (IClassical (COpm (e_binop o) rd ra rb rm))))))
  | Xload, [AV d; AEntry a i] => ob (e_reg d) (fun r => ob (e_ix i) (fun ix => Some (ILoad r a ix)))
  | Xstore, [AV s; AEntry a i] => ob (e_reg s) (fun r => ob (e_ix i) (fun ix => Some (IStore r a ix)))
  | Xlea, [AV d; AAddr a] => ob (e_reg d) (fun r => Some (ILea r a))
  | Xundef, [AEntry a i] => ob (e_ix i) (fun ix => Some (IUndef a ix))
  | Xarray, [AV n; AAddr a] => ob (e_reg n) (fun r => Some (IArray r a))
  | Xjmp, [AV (VLit t)] => Some (IBranch (BJmp t))
  | Xbez, [AV r; AV (VLit t)] => ob (e_reg r) (fun x => Some (IBranch (BUn Cez x t)))
  | Xbnz, [AV r; AV (VLit t)] => ob (e_reg r) (fun x => Some (IBranch (BUn Cnz x t)))
  | Xbeq, [AV a; AV b; AV (VLit t)] =>
      ob (e_reg a) (fun x => ob (e_reg b) (fun y => Some (IBranch (BBin Ceq x y t))))
  | Xbne, [AV a; AV b; AV (VLit t)] =>
      ob (e_reg a) (fun x => ob (e_reg b) (fun y => Some (IBranch (BBin Cne x y t))))
  | Xblt, [AV a; AV b; AV (VLit t)] =>
      ob (e_reg a) (fun x => ob (e_reg b) (fun y => Some (IBranch (BBin Clt x y t))))
  | Xbge, [AV a; AV b; AV (VLit t)] =>
      ob (e_reg a) (fun x => ob (e_reg b) (fun y => Some (IBranch (BBin Cge x y t))))
  | Xretreg, [AV r] => ob (e_reg r) (fun x => Some (IRetReg x))
  | Xretarr, [AAddr a] => Some (IRetArr a)
  | _, _ => None
  end.

(* an assembled command: an instruction without bracket arguments *)
Definition e_cmd (c : acmd) : option instr :=
  match c with
  | AIns mn [] ops => e_ins (opc_of mn) ops
  | _ => None
  end.

Fixpoint e_prog (T : list acmd) : option (list instr) :=
  match T with
  | [] => Some []
  | c :: r => ob (e_cmd c) (fun i => ob (e_prog r) (fun p => Some (i :: p)))
  end.

(* the fragment: all 19 classical instructions AsmSem models, in assembled form *)
Definition in_fragment (T : list acmd) : Prop := exists p, e_prog T = Some p.

(* ------------------------------------------------------------------ relation of states *)
Definition e_pub (x : asharr) : pub := match x with ShAlias => Live | ShFrozen l => Frozen l end.

Fixpoint rlook (l : list (Asm.reg * Z)) (k : Asm.reg) : option Z :=
  match l with
  | [] => None
  | (k', x) :: r => if Asm.reg_eqb k' k then Some x else rlook r k
  end.

Record srel (a : astate) (s : state) : Prop := mkSrel {
  sr_regs : forall b i k, bank_of_Z b = Some k -> s_regs a (b, i) = find State.reg_eqb (k, i) (regs s);
  sr_arrs : m_arr (s_mem a) = arrs s;
  sr_shreg : forall b i k, bank_of_Z b = Some k ->
             rlook (m_shreg (s_mem a)) (b, i) = find State.reg_eqb (k, i) (sregs s);
  sr_sharr : map (fun p => (fst p, e_pub (snd p))) (m_sharr (s_mem a)) = sarrs s
}.

(* AsmSem configuration after n steps  vs  Sem result with step bound n *)
Definition cfg_bridge (len : nat) (c : acfg) (r : result) : Prop :=
  match r with
  | (st, pc, o) =>
      match c with
      | Run k a => srel a st /\ pc = Z.of_nat k /\
                   ((k < len)%nat /\ o = OutOfFuel \/ (len <= k)%nat /\ o = Halt)
      | Halted a => srel a st /\ o = Halt
      | AsmSem.Fault k a => srel a st /\ pc = Z.of_nat k /\ exists kind, o = State.Fault kind pc
      | Stuck _ _ => False
      end
  end.

(* ------------------------------------------------------------------ dictionaries *)
Lemma zlookup_find : forall (A : Type) (l : list (Z * A)) k, zlookup l k = find Z.eqb k l.
Proof.
  intros A l k. induction l as [|[k' x] t IH]; cbn; [reflexivity|].
  rewrite (Z.eqb_sym k' k). destruct (k =? k'); [reflexivity|exact IH].
Qed.

Lemma zset_upd : forall (A : Type) (l : list (Z * A)) k x, zset l k x = upd Z.eqb k x l.
Proof.
  intros A l k x. induction l as [|[k' y] t IH]; cbn; [reflexivity|].
  rewrite (Z.eqb_sym k' k). destruct (k =? k'); [reflexivity|]. rewrite IH. reflexivity.
Qed.

Lemma find_map_pub : forall (l : list (Z * asharr)) k,
  find Z.eqb k (map (fun p => (fst p, e_pub (snd p))) l) = option_map e_pub (find Z.eqb k l).
Proof.
  intros l k. induction l as [|[k' x] t IH]; cbn; [reflexivity|].
  destruct (k =? k'); [reflexivity|exact IH].
Qed.

Lemma upd_map_pub : forall (l : list (Z * asharr)) k x,
  map (fun p => (fst p, e_pub (snd p))) (upd Z.eqb k x l) =
  upd Z.eqb k (e_pub x) (map (fun p => (fst p, e_pub (snd p))) l).
Proof.
  intros l k x. induction l as [|[k' y] t IH]; cbn; [reflexivity|].
  destruct (k =? k'); cbn; [reflexivity|]. rewrite IH. reflexivity.
Qed.

Lemma asm_reg_eqb_spec : forall a b : Asm.reg, Asm.reg_eqb a b = true <-> a = b.
Proof.
  intros [b1 i1] [b2 i2]. unfold Asm.reg_eqb. cbn [fst snd]. rewrite andb_true_iff, !Z.eqb_eq.
  split; [intros [-> ->]; reflexivity | intros [= -> ->]; split; reflexivity].
Qed.

Lemma rlook_rset : forall l k x k',
  rlook (rset l k x) k' = if Asm.reg_eqb k k' then Some x else rlook l k'.
Proof.
  intros l k x k'. induction l as [|[k0 y] t IH]; cbn.
  - reflexivity.
  - destruct (Asm.reg_eqb k0 k) eqn:E; cbn.
    + apply asm_reg_eqb_spec in E. subst k0. destruct (Asm.reg_eqb k k'); reflexivity.
    + rewrite IH. destruct (Asm.reg_eqb k k') eqn:E1; [|reflexivity].
      apply asm_reg_eqb_spec in E1. subst k'. rewrite E. reflexivity.
Qed.

Lemma bank_of_Z_inj : forall b b' k, bank_of_Z b = Some k -> bank_of_Z b' = Some k -> b = b'.
Proof.
  intros b b' k. unfold bank_of_Z.
  destruct (b =? 0) eqn:E0; destruct (b =? 1) eqn:E1; destruct (b =? 2) eqn:E2; destruct (b =? 3) eqn:E3;
  destruct (b' =? 0) eqn:F0; destruct (b' =? 1) eqn:F1; destruct (b' =? 2) eqn:F2; destruct (b' =? 3) eqn:F3;
  intros H H'; try discriminate; try lia; congruence.
Qed.

Lemma reg_eqb_embed : forall b i k b' i' k',
  bank_of_Z b = Some k -> bank_of_Z b' = Some k' ->
  Asm.reg_eqb (b, i) (b', i') = State.reg_eqb (k', i') (k, i).
Proof.
  intros b i k b' i' k' H H'.
  destruct (State.reg_eqb (k', i') (k, i)) eqn:E.
  - apply reg_eqb_spec in E. inversion E; subst. apply asm_reg_eqb_spec.
    rewrite (bank_of_Z_inj _ _ _ H H'). reflexivity.
  - destruct (Asm.reg_eqb (b, i) (b', i')) eqn:E'; [|reflexivity].
    apply asm_reg_eqb_spec in E'. inversion E'; subst. rewrite H in H'. inversion H'; subst.
    rewrite (proj2 (reg_eqb_spec (k', i') (k', i')) eq_refl) in E. discriminate.
Qed.

Lemma bank_range : forall b k, bank_of_Z b = Some k -> (0 <=? b) && (b <? NBANKS) = true.
Proof.
  intros b k. unfold bank_of_Z, NBANKS.
  destruct (b =? 0) eqn:E0; destruct (b =? 1) eqn:E1; destruct (b =? 2) eqn:E2; destruct (b =? 3) eqn:E3;
  intro H; try discriminate; lia.
Qed.

Lemma reg_ok_embed : forall b i k, bank_of_Z b = Some k ->
  AsmSem.reg_ok b i = Sem.reg_ok (k, i).
Proof.
  intros b i k H. unfold AsmSem.reg_ok, Sem.reg_ok, NREGS. cbn [snd].
  rewrite (bank_range _ _ H). cbn [andb]. reflexivity.
Qed.

(* ------------------------------------------------------------------ operations *)
Lemma e_reg_inv : forall d r, e_reg d = Some r ->
  exists b i k, d = VReg b i /\ bank_of_Z b = Some k /\ r = (k, i).
Proof.
  intros [z|b i] r H; cbn in H; [discriminate|].
  destruct (bank_of_Z b) as [k|] eqn:E; [|discriminate]. inversion H. eauto 6.
Qed.

Lemma rd_rel : forall a s b i k, srel a s -> bank_of_Z b = Some k -> Sem.reg_ok (k, i) = true ->
  AsmSem.rd a (VReg b i) = Some (Sem.rd s (k, i)).
Proof.
  intros a s b i k R H Hok. unfold AsmSem.rd. rewrite (reg_ok_embed _ _ _ H), Hok.
  f_equal. apply (sr_regs _ _ R _ _ _ H).
Qed.

Lemma rdv_rel : forall a s b i k, srel a s -> bank_of_Z b = Some k -> Sem.reg_ok (k, i) = true ->
  rdv a (VReg b i) = Sem.rd s (k, i).
Proof.
  intros a s b i k R H Hok. unfold rdv. rewrite (rd_rel _ _ _ _ _ R H Hok).
  destruct (Sem.rd s (k, i)); reflexivity.
Qed.

Lemma wr_rel : forall a s b i k z, srel a s -> bank_of_Z b = Some k -> Sem.reg_ok (k, i) = true ->
  exists a', AsmSem.wr a (VReg b i) z = Some a' /\ srel a' (Sem.wr s (k, i) z).
Proof.
  intros a s b i k z R H Hok. unfold AsmSem.wr. rewrite (reg_ok_embed _ _ _ H), Hok.
  eexists. split; [reflexivity|]. destruct R as [Rr Ra Rs Rh]. constructor; cbn; auto.
  intros b' i' k' H'. unfold upd_reg. rewrite (reg_eqb_embed _ _ _ _ _ _ H H').
  rewrite (find_upd _ _ _ reg_eqb_spec). rewrite (Rr _ _ _ H'). reflexivity.
Qed.

Lemma ix_rel : forall a s iv ix, e_ix iv = Some ix -> srel a s -> opnd_ok ix = true ->
  rdv a iv = oval s ix.
Proof.
  intros a s [z|b i] ix H R Hok; cbn in H.
  - inversion H. reflexivity.
  - destruct (bank_of_Z b) as [k|] eqn:E; [|discriminate]. inversion H; subst ix. cbn in Hok |- *.
    apply rdv_rel; assumption.
Qed.

Lemma norm_idx_nonneg : forall len n, 0 <= n ->
  norm_idx len n = if n <? len then Some (Z.to_nat n) else None.
Proof.
  intros len n H. unfold norm_idx.
  replace (0 <=? n) with true by lia. replace (n <? 0) with false by lia.
  rewrite andb_false_r. cbn [andb]. destruct (n <? len); reflexivity.
Qed.

Ltac dfind l :=
  unfold cell in *;
  match goal with |- context [@find ?K ?V ?e ?k ?m] => destruct (@find K V e k m) as [l|] end.

Lemma arr_get_rel : forall a s ad n, srel a s -> 0 <= n ->
  arr_get (s_mem a) ad n =
  match find Z.eqb ad (arrs s) with
  | None => None
  | Some l => if Zlen l <=? n then None else nth_error l (Z.to_nat n)
  end.
Proof.
  intros a s ad n R H. unfold arr_get. rewrite zlookup_find, (sr_arrs _ _ R).
  dfind l; [|reflexivity].
  rewrite (norm_idx_nonneg _ _ H). fold (Zlen l).
  destruct (n <? Zlen l) eqn:E.
  - replace (Zlen l <=? n) with false by lia. reflexivity.
  - replace (Zlen l <=? n) with true by lia. reflexivity.
Qed.

Lemma list_upd_sset : forall (A : Type) (l : list A) n v, (n < List.length l)%nat -> list_upd l n v = sset n v l.
Proof.
  intros A l. induction l as [|h t IH]; intros n v H; cbn in H; [lia|].
  destruct n as [|n]; [reflexivity|].
  cbn [list_upd]. rewrite IH by lia. reflexivity.
Qed.

Lemma arr_set_rel : forall a s ad n x, srel a s -> 0 <= n ->
  arr_set (s_mem a) ad n x =
  match find Z.eqb ad (arrs s) with
  | None => None
  | Some l => if n <? Zlen l
              then Some (mkMem (upd Z.eqb ad (sset (Z.to_nat n) x l) (arrs s))
                               (m_shreg (s_mem a)) (m_sharr (s_mem a)))
              else None
  end.
Proof.
  intros a s ad n x R H. unfold arr_set. rewrite zlookup_find, (sr_arrs _ _ R).
  dfind l; [|reflexivity].
  rewrite (norm_idx_nonneg _ _ H). fold (Zlen l).
  destruct (n <? Zlen l) eqn:E; [|reflexivity].
  rewrite zset_upd. rewrite list_upd_sset by (unfold Zlen in E; lia). reflexivity.
Qed.

Lemma srel_write_array : forall a s ad l,
  srel a s ->
  srel (mkSt (s_regs a) (mkMem (upd Z.eqb ad l (arrs s)) (m_shreg (s_mem a)) (m_sharr (s_mem a))))
       (write_array ad l s).
Proof. intros a s ad l [Rr Ra Rs Rh]. constructor; cbn; auto. Qed.

Lemma srel_bind_array : forall a s ad len,
  srel a s ->
  srel (mkSt (s_regs a) (arr_init (s_mem a) ad len)) (bind_array ad (repeat None (Z.to_nat len)) s).
Proof.
  intros a s ad len [Rr Ra Rs Rh]. constructor; cbn; auto.
  - rewrite zset_upd, Ra. reflexivity.
  - rewrite !zlookup_find, Ra. rewrite <- Rh, find_map_pub.
    destruct (find Z.eqb ad (m_sharr (s_mem a))) as [[|l0]|]; cbn; try reflexivity.
    dfind old; [|reflexivity].
    rewrite zset_upd, upd_map_pub. reflexivity.
Qed.

(* ------------------------------------------------------------------ one instruction *)
Definition step_bridge (s : state) (pc : Z) (r : eres) (sr : sres) : Prop :=
  match r with
  | ENext a' => exists s', sr = Next s' (pc + 1) /\ srel a' s'
  | EJump t a' => exists z s', t = AV (VLit z) /\ sr = Next s' z /\ srel a' s'
  | EFault => exists k, sr = Stop (State.Fault k pc)
  | EStuck => False
  end.

Ltac pre :=
  let Hok := fresh "Hok" in
  unfold step in *; cbv zeta in *;
  match goal with
  | H : context [negb (instr_regs_ok ?i)] |- _ => destruct (instr_regs_ok i) eqn:Hok
  end; cbn [negb] in *; [|congruence]; cbn [instr_regs_ok opnd_ok] in Hok; regs.

Ltac ereg H := let b := fresh "b" in let i := fresh "i" in let k := fresh "k" in let Hb := fresh "Hb" in
  destruct (e_reg_inv _ _ H) as (b & i & k & -> & Hb & ->); clear H.

Ltac done_next R := eexists; split; [reflexivity|exact R].
Ltac done_fault := eexists; reflexivity.

Lemma br_set : forall a s pc d z r, e_reg d = Some r -> srel a s ->
  step (ISet r z) s pc <> Stop (Unspec pc) ->
  step_bridge s pc (exec Xset [AV d; AV (VLit z)] a) (step (ISet r z) s pc).
Proof.
  intros a s pc d z r Hd R H. ereg Hd. pre. cbn [exec].
  destruct (wr_rel a s b i k z R Hb ltac:(assumption)) as (a' & Hw & R'). rewrite Hw. cbn.
  done_next R'.
Qed.

Lemma br_lea : forall a s pc d ad r, e_reg d = Some r -> srel a s ->
  step (ILea r ad) s pc <> Stop (Unspec pc) ->
  step_bridge s pc (exec Xlea [AV d; AAddr ad] a) (step (ILea r ad) s pc).
Proof.
  intros a s pc d ad r Hd R H. ereg Hd. pre. cbn [exec].
  destruct (wr_rel a s b i k ad R Hb ltac:(assumption)) as (a' & Hw & R'). rewrite Hw. cbn.
  done_next R'.
Qed.

Lemma br_op : forall o a s pc d x y rd ra rb, (o = Xadd \/ o = Xsub) ->
  e_reg d = Some rd -> e_reg x = Some ra -> e_reg y = Some rb -> srel a s ->
  step (IClassical (COp (e_binop o) rd ra rb)) s pc <> Stop (Unspec pc) ->
  step_bridge s pc (exec o [AV d; AV x; AV y] a) (step (IClassical (COp (e_binop o) rd ra rb)) s pc).
Proof.
  intros o a s pc d x y rd ra rb Ho Hd Hx Hy R H. ereg Hd. ereg Hx. ereg Hy. pre.
  assert (E : exec o [AV (VReg b i); AV (VReg b0 i0); AV (VReg b1 i1)] a =
              match rdv a (VReg b0 i0), rdv a (VReg b1 i1) with
              | Some x, Some y => next_or_fault (AsmSem.wr a (VReg b i) (AsmSem.binop o x y))
              | _, _ => EFault
              end) by (destruct Ho; subst o; reflexivity).
  rewrite E. rewrite (rdv_rel _ _ _ _ _ R Hb0) by assumption. rewrite (rdv_rel _ _ _ _ _ R Hb1) by assumption.
  destruct (Sem.rd s (k0, i0)) as [vx|]; [|done_fault].
  destruct (Sem.rd s (k1, i1)) as [vy|]; [|done_fault].
  destruct (wr_rel a s b i k (AsmSem.binop o vx vy) R Hb ltac:(assumption)) as (a' & Hw & R'). rewrite Hw. cbn.
  replace (binop_val (e_binop o) vx vy) with (AsmSem.binop o vx vy) by (destruct Ho; subst o; reflexivity).
  done_next R'.
Qed.

Lemma br_opm : forall o a s pc d x y m rd ra rb rm, (o = Xaddm \/ o = Xsubm) ->
  e_reg d = Some rd -> e_reg x = Some ra -> e_reg y = Some rb -> e_reg m = Some rm -> srel a s ->
  step (IClassical (COpm (e_binop o) rd ra rb rm)) s pc <> Stop (Unspec pc) ->
  step_bridge s pc (exec o [AV d; AV x; AV y; AV m] a)
              (step (IClassical (COpm (e_binop o) rd ra rb rm)) s pc).
Proof.
  intros o a s pc d x y m rd ra rb rm Ho Hd Hx Hy Hm R H. ereg Hd. ereg Hx. ereg Hy. ereg Hm. pre.
  assert (E : exec o [AV (VReg b i); AV (VReg b0 i0); AV (VReg b1 i1); AV (VReg b2 i2)] a =
              match rdv a (VReg b0 i0), rdv a (VReg b1 i1), rdv a (VReg b2 i2) with
              | Some x, Some y, Some n =>
                  if n <? 1 then EFault
                  else next_or_fault (AsmSem.wr a (VReg b i) ((AsmSem.binop o x y) mod n))
              | _, _, _ => EFault
              end) by (destruct Ho; subst o; reflexivity).
  rewrite E. rewrite (rdv_rel _ _ _ _ _ R Hb0) by assumption. rewrite (rdv_rel _ _ _ _ _ R Hb1) by assumption.
  rewrite (rdv_rel _ _ _ _ _ R Hb2) by assumption.
  destruct (Sem.rd s (k2, i2)) as [vm|].
  - destruct (vm <? 1) eqn:Em.
    + destruct (Sem.rd s (k0, i0)); [destruct (Sem.rd s (k1, i1))|]; done_fault.
    + destruct (Sem.rd s (k0, i0)) as [vx|]; [|done_fault].
      destruct (Sem.rd s (k1, i1)) as [vy|]; [|done_fault].
      destruct (wr_rel a s b i k ((AsmSem.binop o vx vy) mod vm) R Hb ltac:(assumption)) as (a' & Hw & R').
      rewrite Hw. cbn.
      replace (binop_val (e_binop o) vx vy) with (AsmSem.binop o vx vy) by (destruct Ho; subst o; reflexivity).
      done_next R'.
  - destruct (Sem.rd s (k0, i0)); [destruct (Sem.rd s (k1, i1))|]; done_fault.
Qed.

Lemma br_load : forall a s pc d ad iv r ix, e_reg d = Some r -> e_ix iv = Some ix -> srel a s ->
  step (ILoad r ad ix) s pc <> Stop (Unspec pc) ->
  step_bridge s pc (exec Xload [AV d; AEntry ad iv] a) (step (ILoad r ad ix) s pc).
Proof.
  intros a s pc d ad iv r ix Hd Hi R H. ereg Hd. pre. cbn [exec].
  rewrite (ix_rel _ _ _ _ Hi R) by assumption.
  destruct (oval s ix) as [n|]; [|done_fault].
  destruct (n <? 0) eqn:En; [congruence|].
  rewrite (arr_get_rel _ _ _ _ R) by lia.
  dfind l; [|done_fault].
  destruct (Z.of_nat (List.length l) <=? n) eqn:El; fold (Zlen l) in *; rewrite El in *; [done_fault|].
  destruct (nth_error l (Z.to_nat n)) as [[v|]|]; try done_fault.
  destruct (wr_rel a s b i k v R Hb ltac:(assumption)) as (a' & Hw & R'). rewrite Hw. cbn.
  done_next R'.
Qed.

Lemma br_store : forall a s pc d ad iv r ix, e_reg d = Some r -> e_ix iv = Some ix -> srel a s ->
  step (IStore r ad ix) s pc <> Stop (Unspec pc) ->
  step_bridge s pc (exec Xstore [AV d; AEntry ad iv] a) (step (IStore r ad ix) s pc).
Proof.
  intros a s pc d ad iv r ix Hd Hi R H. ereg Hd. pre. cbn [exec].
  rewrite (rdv_rel _ _ _ _ _ R Hb) by assumption.
  rewrite (ix_rel _ _ _ _ Hi R) by assumption.
  destruct (Sem.rd s (k, i)) as [v|]; [|done_fault].
  destruct (oval s ix) as [n|]; [|done_fault].
  destruct (n <? 0) eqn:En; [congruence|].
  rewrite (arr_set_rel _ _ _ _ _ R) by lia.
  dfind l; [|done_fault].
  destruct (n <? Z.of_nat (List.length l)) eqn:El; fold (Zlen l) in *; rewrite El in *; [|done_fault].
  cbn [with_mem]. eexists; split; [reflexivity|]. apply srel_write_array. exact R.
Qed.

Lemma br_undef : forall a s pc ad iv ix, e_ix iv = Some ix -> srel a s ->
  step (IUndef ad ix) s pc <> Stop (Unspec pc) ->
  step_bridge s pc (exec Xundef [AEntry ad iv] a) (step (IUndef ad ix) s pc).
Proof.
  intros a s pc ad iv ix Hi R H. pre. cbn [exec].
  rewrite (ix_rel _ _ _ _ Hi R) by assumption.
  destruct (oval s ix) as [n|]; [|done_fault].
  destruct (n <? 0) eqn:En; [congruence|].
  rewrite (arr_set_rel _ _ _ _ _ R) by lia.
  dfind l; [|done_fault].
  destruct (n <? Z.of_nat (List.length l)) eqn:El; fold (Zlen l) in *; rewrite El in *; [|done_fault].
  cbn [with_mem]. eexists; split; [reflexivity|]. apply srel_write_array. exact R.
Qed.

Lemma br_array : forall a s pc d ad r, e_reg d = Some r -> srel a s ->
  step (IArray r ad) s pc <> Stop (Unspec pc) ->
  step_bridge s pc (exec Xarray [AV d; AAddr ad] a) (step (IArray r ad) s pc).
Proof.
  intros a s pc d ad r Hd R H. ereg Hd. pre. cbn [exec].
  rewrite (rdv_rel _ _ _ _ _ R Hb) by assumption.
  destruct (Sem.rd s (k, i)) as [n|]; [|done_fault].
  destruct (n <? 0) eqn:En; [congruence|].
  eexists; split; [reflexivity|]. apply srel_bind_array. exact R.
Qed.

Lemma br_retreg : forall a s pc d r, e_reg d = Some r -> srel a s ->
  step (IRetReg r) s pc <> Stop (Unspec pc) ->
  step_bridge s pc (exec Xretreg [AV d] a) (step (IRetReg r) s pc).
Proof.
  intros a s pc d r Hd R H. ereg Hd. pre. cbn [exec].
  rewrite (rdv_rel _ _ _ _ _ R Hb) by assumption.
  destruct (Sem.rd s (k, i)) as [v|]; [|done_fault].
  eexists; split; [reflexivity|]. destruct R as [Rr Ra Rs Rh]. constructor; cbn; auto.
  intros b' i' k' H'. rewrite rlook_rset, (reg_eqb_embed _ _ _ _ _ _ Hb H').
  rewrite (find_upd _ _ _ reg_eqb_spec). rewrite (Rs _ _ _ H'). reflexivity.
Qed.

Lemma br_retarr : forall a s pc ad, srel a s ->
  step (IRetArr ad) s pc <> Stop (Unspec pc) ->
  step_bridge s pc (exec Xretarr [AAddr ad] a) (step (IRetArr ad) s pc).
Proof.
  intros a s pc ad R H. pre. cbn [exec].
  rewrite zlookup_find, (sr_arrs _ _ R).
  dfind l; [|done_fault].
  eexists; split; [reflexivity|]. destruct R as [Rr Ra Rs Rh]. constructor; cbn; auto.
  rewrite zset_upd, upd_map_pub, Rh. reflexivity.
Qed.

Lemma br_jmp : forall a s pc t, srel a s ->
  step_bridge s pc (exec Xjmp [AV (VLit t)] a) (step (IBranch (BJmp t)) s pc).
Proof. intros a s pc t R. cbn. exists t, s. split; [reflexivity|split; [reflexivity|exact R]]. Qed.

Definition e_ucond (o : aopc) : ucond := match o with Xbez => Cez | _ => Cnz end.
Definition e_bcond (o : aopc) : bcond :=
  match o with Xbeq => Ceq | Xbne => Cne | Xblt => Clt | _ => Cge end.

Lemma br_un : forall o a s pc d t r, (o = Xbez \/ o = Xbnz) -> e_reg d = Some r -> srel a s ->
  step (IBranch (BUn (e_ucond o) r t)) s pc <> Stop (Unspec pc) ->
  step_bridge s pc (exec o [AV d; AV (VLit t)] a) (step (IBranch (BUn (e_ucond o) r t)) s pc).
Proof.
  intros o a s pc d t r Ho Hd R H. ereg Hd. pre.
  assert (E : exec o [AV (VReg b i); AV (VLit t)] a =
              match AsmSem.rd a (VReg b i) with
              | Some x => branch (cond_un o x) (AV (VLit t)) a
              | None => EFault
              end) by (destruct Ho; subst o; reflexivity).
  rewrite E. rewrite (rd_rel _ _ _ _ _ R Hb) by assumption.
  destruct (Sem.rd s (k, i)) as [x|]; [|congruence].
  replace (cond_un o (Some x)) with (ucond_holds (e_ucond o) x)
    by (destruct Ho; subst o; cbn; destruct (x =? 0); reflexivity).
  destruct (ucond_holds (e_ucond o) x); cbn.
  - exists t, s. auto.
  - exists s. auto.
Qed.

Lemma br_bin : forall o a s pc d1 d2 t r1 r2, (o = Xbeq \/ o = Xbne \/ o = Xblt \/ o = Xbge) ->
  e_reg d1 = Some r1 -> e_reg d2 = Some r2 -> srel a s ->
  step (IBranch (BBin (e_bcond o) r1 r2 t)) s pc <> Stop (Unspec pc) ->
  step_bridge s pc (exec o [AV d1; AV d2; AV (VLit t)] a) (step (IBranch (BBin (e_bcond o) r1 r2 t)) s pc).
Proof.
  intros o a s pc d1 d2 t r1 r2 Ho Hd1 Hd2 R H. ereg Hd1. ereg Hd2. pre.
  pose proof (rd_rel a s b i k R Hb ltac:(assumption)) as E1.
  pose proof (rd_rel a s b0 i0 k0 R Hb0 ltac:(assumption)) as E2.
  pose proof (rdv_rel a s b i k R Hb ltac:(assumption)) as V1.
  pose proof (rdv_rel a s b0 i0 k0 R Hb0 ltac:(assumption)) as V2.
  destruct (Sem.rd s (k, i)) as [x|]; [|congruence].
  destruct (Sem.rd s (k0, i0)) as [y|]; [|congruence].
  assert (E : exec o [AV (VReg b i); AV (VReg b0 i0); AV (VLit t)] a =
              branch (bcond_holds (e_bcond o) x y) (AV (VLit t)) a).
  { destruct Ho as [Ho|[Ho|[Ho|Ho]]]; subst o; cbn [exec]; rewrite ?E1, ?E2, ?V1, ?V2; cbn;
      try reflexivity; rewrite Z.geb_leb; reflexivity. }
  rewrite E. destruct (bcond_holds (e_bcond o) x y); cbn.
  - exists t, s. auto.
  - exists s. auto.
Qed.

Ltac inv_match H :=
  repeat match type of H with
         | match ?x with _ => _ end = Some _ => destruct x; try discriminate H
         end.
Ltac inv_ob H :=
  repeat match type of H with
         | ob ?x _ = Some _ => let E := fresh "E" in destruct x eqn:E; cbn [ob] in H; [|discriminate H]
         end.

Ltac solve_br :=
  first [ eapply br_set; eassumption
        | eapply br_lea; eassumption
        | eapply (br_op Xadd); [left; reflexivity|eassumption ..]
        | eapply (br_op Xsub); [right; reflexivity|eassumption ..]
        | eapply (br_opm Xaddm); [left; reflexivity|eassumption ..]
        | eapply (br_opm Xsubm); [right; reflexivity|eassumption ..]
        | eapply br_load; eassumption
        | eapply br_store; eassumption
        | eapply br_undef; eassumption
        | eapply br_array; eassumption
        | eapply br_retreg; eassumption
        | eapply br_retarr; eassumption
        | eapply br_jmp; eassumption
        | eapply (br_un Xbez); [left; reflexivity|eassumption ..]
        | eapply (br_un Xbnz); [right; reflexivity|eassumption ..]
        | eapply (br_bin Xbeq); [left; reflexivity|eassumption ..]
        | eapply (br_bin Xbne); [right; left; reflexivity|eassumption ..]
        | eapply (br_bin Xblt); [right; right; left; reflexivity|eassumption ..]
        | eapply (br_bin Xbge); [right; right; right; reflexivity|eassumption ..] ].

(* every instruction of the fragment: where Sem is not open, AsmSem's exec and
   Sem.step agree (next state related, same jump target, fault at this line) *)
Theorem ins_bridge : forall o ops i a s pc,
  e_ins o ops = Some i -> srel a s -> step i s pc <> Stop (Unspec pc) ->
  step_bridge s pc (exec o ops a) (step i s pc).
Proof.
  intros o ops i a s pc He R H. unfold e_ins in He.
  inv_match He; inv_ob He; inversion He; subst i; clear He; solve_br.
Qed.

(* ------------------------------------------------------------------ programs *)
Lemma e_cmd_inv : forall c i, e_cmd c = Some i ->
  exists mn ops, c = AIns mn [] ops /\ e_ins (opc_of mn) ops = Some i.
Proof.
  intros [l|mn [|x args] ops] i H; cbn in H; try discriminate. eauto.
Qed.

Lemma e_prog_nth : forall T p, e_prog T = Some p ->
  List.length p = List.length T /\
  forall k c, nth_error T k = Some c -> exists i, e_cmd c = Some i /\ nth_error p k = Some i.
Proof.
  induction T as [|c T IH]; intros p H; cbn in H.
  - inversion H. split; [reflexivity|]. intros [|k] c Hc; discriminate.
  - destruct (e_cmd c) as [i|] eqn:Ec; cbn in H; [|discriminate].
    destruct (e_prog T) as [p'|] eqn:Ep; cbn in H; [|discriminate]. inversion H; subst p.
    destruct (IH p' eq_refl) as [Hl Hn]. split; [cbn; lia|].
    intros [|k] c' Hc; cbn in Hc |- *.
    + inversion Hc; subst c'. eauto.
    + apply Hn. exact Hc.
Qed.

Lemma fetch_ins : forall T k mn ops, nth_error T k = Some (AIns mn [] ops) ->
  fetch T k = Some (k, mn, ops).
Proof.
  intros T k mn ops H. unfold fetch. rewrite (skipn_cons_nth _ _ _ _ H). reflexivity.
Qed.

Lemma fetch_none : forall T k, nth_error T k = None -> fetch T k = None.
Proof.
  intros T k H. unfold fetch. apply nth_error_None in H. rewrite skipn_all2 by exact H. reflexivity.
Qed.

Lemma arun_halted : forall T n a, arun T n (Halted a) = Halted a.
Proof. intros T n a. destruct n; reflexivity. Qed.
Lemma arun_fault : forall T n k a, arun T n (AsmSem.Fault k a) = AsmSem.Fault k a.
Proof. intros T n k a. destruct n; reflexivity. Qed.

(* THE BRIDGE (C03 -> C04).  For every assembled program of the fragment, every
   pair of related states, every pc and every number of steps n: the
   configuration AsmSem reaches after n steps and the result of Sem.run_from with
   step bound n are related by cfg_bridge -- as long as the common semantics is
   defined (Sem.defined_from). *)
Theorem asm_bridge_from : forall n T p a s k,
  e_prog T = Some p -> srel a s -> defined_from p s (Z.of_nat k) ->
  cfg_bridge (List.length T) (arun T n (Run k a)) (Sem.run_from p s (Z.of_nat k) n).
Proof.
  induction n as [|n IH]; intros T p a s k Hp R D;
    destruct (e_prog_nth _ _ Hp) as [Hlen Hnth];
    rewrite sem_run_eq; replace (Z.of_nat k <? 0) with false by lia;
    assert (HZ : Zlen p = Z.of_nat (List.length T)) by (unfold Zlen; rewrite Hlen; reflexivity).
  - cbn [arun cfg_bridge].
    destruct (Zlen p <=? Z.of_nat k) eqn:E.
    + split; [exact R|]. split; [reflexivity|]. right. split; [lia|reflexivity].
    + destruct (nth_error_in_range _ p (Z.of_nat k)) as [i Hi]; try lia. rewrite Hi.
      split; [exact R|]. split; [reflexivity|]. left. split; [lia|reflexivity].
  - cbn [arun]. unfold astep.
    destruct (nth_error T k) as [c|] eqn:Ec.
    + destruct (Hnth _ _ Ec) as [i [Hci Hpi]].
      destruct (e_cmd_inv _ _ Hci) as (mn & ops & -> & Hins).
      rewrite (fetch_ins _ _ _ _ Ec).
      assert (Hlt : (k < List.length T)%nat) by (apply nth_error_Some; congruence).
      replace (Zlen p <=? Z.of_nat k) with false by lia.
      rewrite Nat2Z.id, Hpi.
      assert (Hi' : nth_error p (Z.to_nat (Z.of_nat k)) = Some i) by (rewrite Nat2Z.id; exact Hpi).
      pose proof (defined_from_not_open _ _ _ _ D ltac:(lia) Hi') as Hno.
      pose proof (ins_bridge _ _ _ a s (Z.of_nat k) Hins R Hno) as B.
      destruct (exec (opc_of mn) ops a) as [a'|t a'| |]; cbn [step_bridge] in B.
      * destruct B as (s' & Hs & R'). rewrite Hs.
        replace (Z.of_nat k + 1) with (Z.of_nat (S k)) in * by lia.
        apply IH; auto. eapply defined_from_step; eauto. lia.
      * destruct B as (z & s' & -> & Hs & R'). rewrite Hs.
        pose proof (defined_from_step _ _ _ _ _ _ D ltac:(lia) Hi' Hs) as D'.
        pose proof (defined_from_nonneg _ _ _ D') as Hz.
        cbn [target]. replace (0 <=? z) with true by lia.
        rewrite <- (Z2Nat.id z Hz) at 2. apply IH; auto. rewrite Z2Nat.id by exact Hz. exact D'.
      * destruct B as (kind & Hs). rewrite Hs, arun_fault. cbn [cfg_bridge].
        split; [exact R|]. split; [reflexivity|]. eauto.
      * contradiction.
    + rewrite (fetch_none _ _ Ec), arun_halted.
      assert (Hge : (List.length T <= k)%nat) by (apply nth_error_None; exact Ec).
      replace (Zlen p <=? Z.of_nat k) with true by lia. cbn [cfg_bridge]. auto.
Qed.

Theorem asm_bridge : forall n T p a s,
  e_prog T = Some p -> srel a s -> defined_domain p s ->
  cfg_bridge (List.length T) (arun T n (Run 0 a)) (Sem.run p s n).
Proof. intros n T p a s Hp R D. exact (asm_bridge_from n T p a s 0%nat Hp R D). Qed.

(* the initial states are related *)
Lemma srel_init : forall cap, srel AsmSem.init_state (State.init_state cap).
Proof. intro cap. constructor; cbn; auto. Qed.
