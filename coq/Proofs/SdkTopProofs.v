(* SdkTopProofs.v — C05 over whole programs: flush blocks.  The arrays declared and initialised
   by the code prepended at a flush are the arrays the specification hoists to the start of
   the block (lower_array_init included); ret_arr / ret_reg do not fault; induction over blocks. *)
From Coq Require Import ZArith List Bool Arith Lia.
From NQ Require Import Sdk.SdkAst Sdk.Target Sdk.Eval Sdk.MemMgr Sdk.Lower Sdk.Flatten Sdk.SdkCheck Sdk.Wf Sdk.Writes.
From NQ Require Import Proofs.SdkRegProofs Proofs.SdkFrameProofs Proofs.SdkMapLemmas Proofs.SdkInvProofs
  Proofs.SdkWfProofs Proofs.SdkLowerProofs Proofs.SdkFlattenProofs Proofs.SdkSimProofs.
Import ListNotations.
Local Open Scope nat_scope.

Ltac inv_ok H := inversion H; subst; clear H.

(* ------------------------------------------------------------------ programs as lists of flush-free segments *)
Fixpoint prog_of (segs : list block) : block :=
  match segs with
  | [] => BNil
  | s :: r => bapp s (BCons SFlush (prog_of r))
  end.

Lemma wfs_not_flush : forall s, wfs s = true -> s <> SFlush.
Proof. intros s H E. subst. discriminate. Qed.

Lemma lower_top_seg : forall seg rest acc st,
  bwfs seg = true ->
  lower_top true (bapp seg (BCons SFlush rest)) acc st =
  (let* (c, st1) := lower_block true seg st in
   let* (b, st2) := lower_flush (acc ++ c) st1 in
   let* (r, st3) := lower_top true rest [] st2 in
   Ok (b :: r, st3)).
Proof.
  induction seg as [|s seg IH]; intros rest acc st Hw.
  - cbn. rewrite app_nil_r. reflexivity.
  - cbn [bwfs] in Hw. apply andb_prop in Hw. destruct Hw as [Hs Hw]. cbn [bapp lower_block].
    assert (E : lower_top true (BCons s (bapp seg (BCons SFlush rest))) acc st =
                (let* (c, st1) := lower_stmt true s st in lower_top true (bapp seg (BCons SFlush rest)) (acc ++ c) st1)).
    { destruct s; try reflexivity. discriminate. }
    rewrite E. destruct (lower_stmt true s st) as [[c1 s1]|]; cbn [bind]; [|reflexivity].
    rewrite IH by exact Hw. destruct (lower_block true seg s1) as [[c2 s2]|]; cbn [bind]; [|reflexivity].
    rewrite app_assoc. reflexivity.
Qed.

Lemma eval_top_seg : forall seg rest e,
  bwfs seg = true ->
  eval_top (bapp seg (BCons SFlush rest)) e =
  match eval_block seg e with
  | Some e1 => let e2 := snap e1 in eval_top rest (with_arr e2 (hoist_top rest (e_arr e2)))
  | None => None
  end.
Proof.
  induction seg as [|s seg IH]; intros rest e Hw.
  - reflexivity.
  - cbn [bwfs] in Hw. apply andb_prop in Hw. destruct Hw as [Hs Hw]. cbn [bapp eval_block].
    assert (E : eval_top (BCons s (bapp seg (BCons SFlush rest))) e =
                match eval_stmt s e with Some e' => eval_top (bapp seg (BCons SFlush rest)) e' | None => None end).
    { destruct s; try reflexivity. discriminate. }
    rewrite E. destruct (eval_stmt s e); [|reflexivity]. apply IH. exact Hw.
Qed.

Lemma hoist_top_seg : forall seg rest ar,
  bwfs seg = true -> hoist_top (bapp seg (BCons SFlush rest)) ar = hoist_block seg ar.
Proof.
  induction seg as [|s seg IH]; intros rest ar Hw.
  - reflexivity.
  - cbn [bwfs] in Hw. apply andb_prop in Hw. destruct Hw as [Hs Hw]. cbn [bapp hoist_block].
    assert (E : hoist_top (BCons s (bapp seg (BCons SFlush rest))) ar =
                hoist_top (bapp seg (BCons SFlush rest)) (hoist_stmt s ar)).
    { destruct s; try reflexivity. discriminate. }
    rewrite E. apply IH. exact Hw.
Qed.

(* ------------------------------------------------------------------ declarations of a block = what Eval hoists *)
Definition decl_content (d : arrdecl) : list (option Z) :=
  match d with (_, n, Some l) => l | (_, n, None) => repeat None n end.
Fixpoint declare_all (ds : list arrdecl) (ar : arrays) : arrays :=
  match ds with [] => ar | d :: r => declare_all r (aset (fst (fst d)) (decl_content d) ar) end.

Lemma declare_all_app : forall a b ar, declare_all (a ++ b) ar = declare_all b (declare_all a ar).
Proof. induction a as [|d a IH]; intros b ar; cbn; [reflexivity|apply IH]. Qed.

Definition fresh_above (n : nat) (ar : arrays) : Prop := forall a, n <= a -> alookup a ar = None.

(* the declarations made between two lowering states: consecutive fresh addresses, lengths
   consistent with the initial values *)
Definition decl_wf (d : arrdecl) : Prop :=
  match d with (_, n, Some l) => n = List.length l /\ n <> 0 | (_, n, None) => n <> 0 end.
Definition dwf (ds : list arrdecl) (n n' : nat) : Prop :=
  map (fun d : arrdecl => fst (fst d)) ds = seq n (List.length ds) /\ n' = n + List.length ds /\ Forall decl_wf ds.
Definition dl (d : arrdecl) : nat * nat := (fst (fst d), snd (fst d)).
Lemma dwf_nil : forall n, dwf [] n n.
Proof. intro n. unfold dwf. cbn. repeat split; [lia|constructor]. Qed.
Lemma dwf_app : forall a b n1 n2 n3, dwf a n1 n2 -> dwf b n2 n3 -> dwf (a ++ b) n1 n3.
Proof.
  unfold dwf. intros a b n1 n2 n3 (A1 & A2 & A3) (B1 & B2 & B3). rewrite map_app, app_length, seq_app, A1, B1.
  subst. repeat split; [lia|apply Forall_app; auto].
Qed.

Definition hf_stmt (s : stmt) : Prop :=
  wfs s = true -> forall st c st' ar,
  lower_stmt true s st = Ok (c, st') -> fresh_above (l_next st) ar ->
  exists ds, l_decl st' = l_decl st ++ ds /\ hoist_stmt s ar = declare_all ds ar /\
             fresh_above (l_next st') (declare_all ds ar) /\ dwf ds (l_next st) (l_next st') /\
             l_len st' = map dl (rev ds) ++ l_len st.
Definition hf_block (b : block) : Prop :=
  bwfs b = true -> forall st c st' ar,
  lower_block true b st = Ok (c, st') -> fresh_above (l_next st) ar ->
  exists ds, l_decl st' = l_decl st ++ ds /\ hoist_block b ar = declare_all ds ar /\
             fresh_above (l_next st') (declare_all ds ar) /\ dwf ds (l_next st) (l_next st') /\
             l_len st' = map dl (rev ds) ++ l_len st.

Lemma hf_nothing : forall s st st' ar,
  l_decl st' = l_decl st -> l_next st' = l_next st -> l_len st' = l_len st -> hoist_stmt s ar = ar -> fresh_above (l_next st) ar ->
  exists ds, l_decl st' = l_decl st ++ ds /\ hoist_stmt s ar = declare_all ds ar /\
             fresh_above (l_next st') (declare_all ds ar) /\ dwf ds (l_next st) (l_next st') /\
             l_len st' = map dl (rev ds) ++ l_len st.
Proof.
  intros s st st' ar E1 E2 E4 E3 F. exists []. rewrite app_nil_r. cbn. rewrite E2.
  split; [exact E1|]. split; [exact E3|]. split; [exact F|split; [apply dwf_nil|exact E4]].
Qed.

Lemma hf_declare : forall a n init st st1 ar,
  declare a n init st = Ok st1 -> fresh_above (l_next st) ar ->
  alookup a ar = None /\ l_decl st1 = l_decl st ++ [(a, n, init)] /\
  fresh_above (l_next st1) (aset a (decl_content (a, n, init)) ar) /\
  (decl_wf (a, n, init) -> dwf [(a, n, init)] (l_next st) (l_next st1)) /\
  l_len st1 = (a, n) :: l_len st.
Proof.
  intros a n init st st1 ar H F. destruct (declare_facts _ _ _ _ _ H) as (Ea & En & El & Ed & _).
  split; [apply F; lia|]. split; [exact Ed|]. split; [|split; [|exact El]].
  - intros a' Ha'. rewrite En in Ha'. rewrite alookup_aset_other by lia. apply F. lia.
  - intro W. unfold dwf. cbn. subst a. repeat split; [lia|constructor; [exact W|constructor]].
Qed.

Theorem hoist_facts : (forall s, hf_stmt s) /\ (forall b, hf_block b).
Proof.
  apply stmt_block_ind; unfold hf_stmt, hf_block.
  - intros q _ st c st' ar H F. cbn [lower_stmt] in H. destruct (alook q (l_q st)); [discriminate|]. inv_ok H.
    apply hf_nothing; auto.
  - intros g q _ st c st' ar H F. cbn [lower_stmt] in H.
    destruct (qubit_id q st); cbn [bind] in H; [|discriminate]. inv_ok H. apply hf_nothing; auto.
  - intros ax q n d _ st c st' ar H F. cbn [lower_stmt] in H.
    destruct (qubit_id q st); cbn [bind] in H; [|discriminate]. inv_ok H. apply hf_nothing; auto.
  - intros t q1 q2 _ st c st' ar H F. cbn [lower_stmt] in H.
    destruct (qubit_id q1 st); cbn [bind] in H; [|discriminate].
    destruct (qubit_id q2 st); cbn [bind] in H; [|discriminate]. inv_ok H. apply hf_nothing; auto.
  - intros q ip a ix _ st c st' ar H F. cbn [lower_stmt] in H.
    destruct (low_ix ix st); cbn [bind] in H; [|discriminate].
    destruct (low_meas q ip false st) as [[[m c0] s1]|] eqn:Em; cbn [bind] in H; [|discriminate]. inv_ok H.
    destruct (low_meas_facts _ _ _ _ _ _ _ Em) as (id & _ & _ & _ & _ & N1 & _ & _ & Le1 & D1 & _).
    apply hf_nothing; auto.
  - (* SMeasNew *) intros q ip a _ st c st' ar H F. cbn [lower_stmt] in H.
    destruct (declare a 1 None st) as [s0|] eqn:Ed; cbn [bind] in H; [|discriminate].
    destruct (low_meas q ip false s0) as [[[m c0] s1]|] eqn:Em; cbn [bind] in H; [|discriminate]. inv_ok H.
    destruct (low_meas_facts _ _ _ _ _ _ _ Em) as (id & _ & _ & _ & _ & N1 & _ & _ & Le1 & D1 & _).
    destruct (hf_declare _ _ _ _ _ _ Ed F) as (Hn & Hd & Hf & Hw & Hl).
    exists [(a, 1, None)]. rewrite D1, N1, Le1. split; [exact Hd|]. cbn [hoist_stmt declare_all fst decl_content].
    rewrite Hn. split; [reflexivity|]. split; [exact Hf|]. split; [apply Hw; cbn; discriminate|exact Hl].
  - intros q ip r _ st c st' ar H F. cbn [lower_stmt] in H.
    destruct (alook r (l_rf st)); [discriminate|].
    destruct (low_meas q ip true st) as [[[m c0] s1]|] eqn:Em; cbn [bind] in H; [|discriminate]. inv_ok H.
    destruct (low_meas_facts _ _ _ _ _ _ _ Em) as (id & _ & _ & _ & _ & N1 & _ & _ & Le1 & D1 & _).
    apply hf_nothing; auto.
  - intros q _ st c st' ar H F. cbn [lower_stmt] in H.
    destruct (qubit_id q st); cbn [bind] in H; [|discriminate]. inv_ok H. apply hf_nothing; auto.
  - (* SNewArray *) intros a len init _ st c st' ar H F. cbn [lower_stmt] in H.
    destruct (Nat.eqb (match init with Some l => List.length l | None => len end) 0) eqn:Ez; [discriminate|].
    destruct (declare a _ init st) as [s1|] eqn:Ed; cbn [bind] in H; [|discriminate]. inv_ok H.
    destruct (hf_declare _ _ _ _ _ _ Ed F) as (Hn & Hd & Hf & Hw & Hl).
    eexists. split; [exact Hd|]. cbn [hoist_stmt declare_all fst decl_content]. rewrite Hn.
    apply Nat.eqb_neq in Ez.
    destruct init as [l|]; (destruct (Nat.eqb _ 0) eqn:Ez'; [apply Nat.eqb_eq in Ez'; contradiction|]);
      (split; [reflexivity|split; [exact Hf|split; [apply Hw; cbn; auto|exact Hl]]]).
  - (* SFutAdd *) intros a ix o m _ st c st' ar H F. cbn [lower_stmt] in H.
    destruct (low_ix ix st); cbn [bind] in H; [|discriminate].
    destruct (take st) as [[t s1]|] eqn:Ht; cbn [bind] in H; [|discriminate].
    destruct (low_src o s1) as [[[[lo y] ts] s2]|] eqn:Hs; cbn [bind] in H; [|discriminate].
    match type of H with Ok (_, ?X) = _ => assert (Es : st' = X) by (inversion H; reflexivity) end.
    assert (S : sba st st').
    { rewrite Es. eapply sba_trans; [eapply sba_take; eauto|].
      eapply sba_trans; [eapply low_src_sba; eauto|].
      eapply sba_trans; [apply sba_release|apply sba_release_all]. }
    destruct S as (_ & _ & N & _ & _ & _ & Le & D). apply hf_nothing; auto.
  - intros r o m _ st c st' ar H F. cbn [lower_stmt] in H.
    destruct (rf_lookup r st) as [[[] k]|]; try discriminate.
    destruct (low_src o st) as [[[[lo y] ts] s1]|] eqn:Hs; cbn [bind] in H; [|discriminate].
    match type of H with Ok (_, ?X) = _ => assert (Es : st' = X) by (inversion H; reflexivity) end.
    assert (S : sba st st').
    { rewrite Es. eapply sba_trans; [eapply low_src_sba; eauto|apply sba_release_all]. }
    destruct S as (_ & _ & N & _ & _ & _ & Le & D). apply hf_nothing; auto.
  - intros r init Hp. discriminate.
  - intros r o m Hp. discriminate.
  - (* SIf *) intros c cb x y body IH Hw st code st' ar H F. cbn [wfs] in Hw.
    apply andb_prop in Hw. destruct Hw as [_ Hwf]. cbn [lower_stmt] in H.
    destruct (lower_block true body st) as [[cbody s1]|] eqn:Hb; cbn [bind] in H; [|discriminate].
    destruct (IH Hwf _ _ _ ar Hb F) as (ds & D1 & H1 & F1 & W1 & Ln1).
    assert (Fin : forall sF, sba s1 sF -> exists ds0, l_decl sF = l_decl st ++ ds0 /\
               hoist_stmt (SIf c cb x y body) ar = declare_all ds0 ar /\ fresh_above (l_next sF) (declare_all ds0 ar) /\
               dwf ds0 (l_next st) (l_next sF) /\ l_len sF = map dl (rev ds0) ++ l_len st).
    { intros sF (_ & _ & N & _ & _ & _ & Le & D). exists ds. rewrite D, N, Le. auto. }
    destruct (is_nil cbody); [inv_ok H; apply Fin, sba_refl|].
    destruct (low_cval x s1) as [[[[lx px] tx] s2]|] eqn:Hx; cbn [bind] in H; [|discriminate].
    assert (Sx := low_cval_sba _ _ _ _ _ _ Hx).
    destruct c;
      try (inv_ok H; apply Fin; eapply sba_trans; [exact Sx|apply sba_release_all]);
      (destruct (low_cval y s2) as [[[[ly py] ty] s3]|] eqn:Hy; cbn [bind] in H; [|discriminate];
       inv_ok H; apply Fin;
       eapply sba_trans; [exact Sx|eapply sba_trans; [eapply low_cval_sba; eauto|apply sba_release_all]]).
  - (* SLoop *) intros cb v oreg start stop step body IH Hw st code st' ar H F.
    cbn [wfs] in Hw. apply andb_prop in Hw. destruct Hw as [Hw _].
    apply andb_prop in Hw. destruct Hw as [_ Hwf]. cbn [lower_stmt] in H.
    destruct (alook v (l_lv st)); [discriminate|].
    destruct (take_at oreg st) as [[r s1]|] eqn:Ht; cbn [bind] in H; [|discriminate].
    destruct (lower_block true body (bind_lvr v r s1)) as [[cbody s2]|] eqn:Hb; cbn [bind] in H; [|discriminate].
    destruct (sba_take_at _ _ _ _ Ht) as (_ & _ & N0 & _ & _ & _ & Le0 & D0).
    destruct (IH Hwf _ _ _ ar Hb) as (ds & D1 & H1 & F1 & W1 & Ln1); [cbn; rewrite N0; exact F|].
    cbn in D1, F1, W1, Ln1. rewrite N0 in W1. exists ds. destruct (is_nil cbody); inv_ok H; cbn; rewrite D1, D0, Ln1, Le0; auto.
  - (* SForeach *) intros enum v a body IH Hw st code st' ar H F.
    cbn [wfs] in Hw. apply andb_prop in Hw. destruct Hw as [_ Hwf]. cbn [lower_stmt] in H.
    destruct (alook a (l_len st)); [|discriminate].
    destruct (alook v (l_lv st)); [discriminate|].
    destruct (take st) as [[r s1]|] eqn:Ht; cbn [bind] in H; [|discriminate].
    destruct (lower_block true body (bind_lvr v r s1)) as [[cbody s2]|] eqn:Hb; cbn [bind] in H; [|discriminate].
    destruct (sba_take _ _ _ Ht) as (_ & _ & N0 & _ & _ & _ & Le0 & D0).
    destruct (IH Hwf _ _ _ ar Hb) as (ds & D1 & H1 & F1 & W1 & Ln1); [cbn; rewrite N0; exact F|].
    cbn in D1, F1, W1, Ln1. rewrite N0 in W1. exists ds. destruct (is_nil cbody); inv_ok H; cbn; rewrite D1, D0, Ln1, Le0; auto.
  - (* SLoopUntil *) intros v maxit body IHb cx bound cleanup IHc Hw st code st' ar H F.
    cbn [wfs] in Hw.
    apply andb_prop in Hw. destruct Hw as [Hw Hem]. apply andb_prop in Hw. destruct Hw as [Hw _].
    apply andb_prop in Hw. destruct Hw as [Hw _]. apply andb_prop in Hw. destruct Hw as [Hw Hwf2].
    apply andb_prop in Hw. destruct Hw as [_ Hwf1]. cbn [lower_stmt] in H.
    destruct (alook v (l_lv st)); [discriminate|].
    destruct (take st) as [[r s1]|] eqn:Ht; cbn [bind] in H; [|discriminate].
    destruct (sba_take _ _ _ Ht) as (_ & _ & N0 & _ & _ & _ & Le0 & D0).
    destruct (lower_block true body (bind_lvr v r s1)) as [[cbody s2]|] eqn:Hb; cbn [bind] in H; [|discriminate].
    destruct (IHb Hwf1 _ _ _ ar Hb) as (ds1 & D1 & H1 & F1 & W1 & Ln1); [cbn; rewrite N0; exact F|]. cbn in D1, F1, W1, Ln1.
    rewrite N0 in W1.
    assert (Hne := emits_nonnil _ _ _ _ Hem Hb).
    destruct cbody as [|c0 cr]; [contradiction|]. cbn [is_nil] in H.
    destruct (low_cval cx s2) as [[[[lx px] tx] s3]|] eqn:Hx; cbn [bind] in H; [|discriminate].
      assert (S3 : sba s2 (release_all tx s3)) by (eapply sba_trans; [eapply low_cval_sba; eauto|apply sba_release_all]).
      destruct S3 as (_ & _ & N3 & _ & _ & _ & Le3 & D3).
      destruct (lower_block true cleanup (release_all tx s3)) as [[ccl s4]|] eqn:Hc; cbn [bind] in H; [|discriminate].
      destruct (IHc Hwf2 _ _ _ (declare_all ds1 ar) Hc) as (ds2 & D2 & H2 & F2 & W2 & Ln2); [rewrite N3; exact F1|].
      rewrite N3 in W2.
      inv_ok H. exists (ds1 ++ ds2). cbn. rewrite D2, D3, D1, D0, app_assoc. cbn [hoist_stmt].
      rewrite H1, H2, declare_all_app. split; [auto|split; [auto|split; [auto|split; [eapply dwf_app; eauto|]]]].
      rewrite Ln2, Le3, Ln1, Le0, rev_app_distr, map_app, app_assoc. reflexivity.
  - intros k body IH Hw. discriminate.
  - intros Hw. discriminate.
  - (* SFutAddX *) intros a b n o m _ st c st' ar H F. cbn [lower_stmt] in H.
    destruct (take st) as [[t s1]|] eqn:Ht; cbn [bind] in H; [|discriminate].
    destruct (take s1) as [[ti s1i]|] eqn:Hti; cbn [bind] in H; [|discriminate].
    destruct (low_src o (release ti s1i)) as [[[[lo y] ts] s2]|] eqn:Hs; cbn [bind] in H; [|discriminate].
    match type of H with Ok (_, ?X) = _ => assert (Es : st' = X) by (inversion H; reflexivity) end.
    assert (S : sba st st').
    { rewrite Es. eapply sba_trans; [eapply sba_take; eauto|].
      eapply sba_trans; [eapply sba_take; eauto|].
      eapply sba_trans; [apply sba_release|].
      eapply sba_trans; [eapply low_src_sba; eauto|].
      eapply sba_trans; [apply sba_release|apply sba_release_all]. }
    destruct S as (_ & _ & N & _ & _ & _ & Le & D). apply hf_nothing; auto.
  - (* SMeasFutX *) intros q ip a b n _ st c st' ar H F. cbn [lower_stmt] in H.
    destruct (low_meas q ip false st) as [[[m c0] s1]|] eqn:Em; cbn [bind] in H; [|discriminate].
    destruct (take s1) as [[ti s1i]|] eqn:Hti; cbn [bind] in H; [|discriminate]. inv_ok H.
    destruct (low_meas_facts _ _ _ _ _ _ _ Em) as (id & _ & _ & _ & _ & N1 & _ & _ & Le1 & D1 & _).
    assert (S : sba s1 (release ti s1i)) by (eapply sba_trans; [eapply sba_take; eauto|apply sba_release]).
    destruct S as (_ & _ & N & _ & _ & _ & Le & D). apply hf_nothing; auto; congruence.
  - intros _ st c st' ar H F. inv_ok H. exists []. rewrite app_nil_r. cbn. split; [auto|split; [auto|split; [auto|split; [apply dwf_nil|reflexivity]]]].
  - intros s IHs b IHb Hw st c st' ar H F. cbn [bwfs] in Hw.
    apply andb_prop in Hw. destruct Hw as [Hw1 Hw2].
    cbn [lower_block] in H.
    destruct (lower_stmt true s st) as [[c1 s1]|] eqn:H1; cbn [bind] in H; [|discriminate].
    destruct (lower_block true b s1) as [[c2 s2]|] eqn:H2; cbn [bind] in H; [|discriminate]. inv_ok H.
    destruct (IHs Hw1 _ _ _ ar H1 F) as (d1 & D1 & E1 & F1 & W1 & L1).
    destruct (IHb Hw2 _ _ _ _ H2 F1) as (d2 & D2 & E2 & F2 & W2 & L2).
    exists (d1 ++ d2). rewrite D2, D1, app_assoc. cbn [hoist_block]. rewrite E1, E2, declare_all_app.
    split; [auto|split; [auto|split; [auto|split; [eapply dwf_app; eauto|]]]].
    rewrite L2, L1, rev_app_distr, map_app, app_assoc. reflexivity.
Qed.

(* ------------------------------------------------------------------ executing the array initialisation code *)
Definition addr (d : arrdecl) : nat := fst (fst d).
Fixpoint marr_after (ds : list arrdecl) (f : nat -> option (list (option Z))) : nat -> option (list (option Z)) :=
  match ds with [] => f | d :: r => marr_after r (upd_nat f (addr d) (Some (decl_content d))) end.

Lemma marr_after_app : forall a b f, marr_after (a ++ b) f = marr_after b (marr_after a f).
Proof. induction a as [|d a IH]; intros b f; cbn; [reflexivity|apply IH]. Qed.

Lemma marr_after_other : forall ds f a, ~ In a (map addr ds) -> marr_after ds f a = f a.
Proof.
  induction ds as [|d ds IH]; intros f a H; cbn; [reflexivity|].
  rewrite IH by (intro X; apply H; right; exact X). unfold upd_nat.
  destruct (Nat.eqb a (addr d)) eqn:E; [apply Nat.eqb_eq in E; exfalso; apply H; left; auto|reflexivity].
Qed.

Lemma marr_after_ext : forall ds f g, (forall a, f a = g a) -> forall a, marr_after ds f a = marr_after ds g a.
Proof.
  induction ds as [|d ds IH]; intros f g H a; cbn; [apply H|]. apply IH. intro a'. unfold upd_nat.
  destruct (Nat.eqb a' (addr d)); [reflexivity|apply H].
Qed.

Lemma marr_declare_all : forall ds f ar, (forall a, f a = alookup a ar) ->
  forall a, marr_after ds f a = alookup a (declare_all ds ar).
Proof.
  induction ds as [|d ds IH]; intros f ar H a; cbn; [apply H|]. apply IH. intro a'. unfold upd_nat, addr.
  destruct (Nat.eqb a' (fst (fst d))) eqn:E.
  - apply Nat.eqb_eq in E. subst. rewrite alookup_aset_same. reflexivity.
  - apply Nat.eqb_neq in E. rewrite alookup_aset_other by exact E. apply H.
Qed.

Record same_ctl (s s' : mst) : Prop := mkSame {
  sc_alloc : m_alloc s' = m_alloc s; sc_inst : m_inst s' = m_inst s; sc_n : m_n s' = m_n s;
  sc_script : m_script s' = m_script s; sc_trace : m_trace s' = m_trace s
}.
Lemma same_ctl_refl : forall s, same_ctl s s.
Proof. intro. constructor; reflexivity. Qed.
Lemma same_ctl_trans : forall a b c, same_ctl a b -> same_ctl b c -> same_ctl a c.
Proof. intros a b c [A1 A2 A3 A4 A5] [B1 B2 B3 B4 B5]. constructor; congruence. Qed.

Definition InitOK (P : list sir) (done : list arrdecl) : Prop :=
  forall s, exists s', sx P s s' /\ (forall a, m_arr s' a = marr_after done (m_arr s) a) /\ same_ctl s s'.

Lemma list_set_app_mid : forall A (pre : list A) x rest v,
  list_set (pre ++ x :: rest) (List.length pre) v = Some (pre ++ v :: rest).
Proof. induction pre as [|p pre IH]; intros x rest v; cbn; [reflexivity|]. rewrite IH. reflexivity. Qed.

(* the stores of distinct initial values *)
Lemma stores_exec : forall a l pre s,
  m_arr s a = Some (pre ++ repeat None (List.length l)) ->
  exists s', sx (stores a (List.length pre) l) s s' /\ m_arr s' a = Some (pre ++ l) /\
             (forall a', a' <> a -> m_arr s' a' = m_arr s a') /\ same_ctl s s'.
Proof.
  intros a l. induction l as [|x l IH]; intros pre s H; cbn [stores].
  - exists s. cbn in H. split; [apply sx_nil|]. split; [exact H|]. split; [auto|apply same_ctl_refl].
  - cbn [List.length repeat] in H.
    assert (Hn : forall s0, m_arr s0 a = Some ((pre ++ [x]) ++ repeat None (List.length l)) ->
              exists s', sx (stores a (S (List.length pre)) l) s0 s' /\ m_arr s' a = Some (pre ++ x :: l) /\
                         (forall a', a' <> a -> m_arr s' a' = m_arr s0 a') /\ same_ctl s0 s').
    { intros s0 H0. destruct (IH (pre ++ [x]) s0 H0) as (s' & X & A & O & C).
      rewrite app_length in X. cbn in X. replace (List.length pre + 1) with (S (List.length pre)) in X by lia.
      exists s'. rewrite <- app_assoc in A. cbn in A. auto. }
    destruct x as [v|].
    + set (s1 := set_arr s a (pre ++ Some v :: repeat None (List.length l))).
      assert (E : exec_instr (IStore (PImm v) a (PImm (Z.of_nat (List.length pre)))) s = Some s1).
      { cbn [exec_instr rop_val]. rewrite H, zidx_of_nat, list_set_app_mid. reflexivity. }
      destruct (Hn s1) as (s' & X & A & O & C).
      { unfold s1. cbn [set_arr m_arr]. unfold upd_nat. rewrite Nat.eqb_refl. rewrite <- app_assoc. reflexivity. }
      exists s'. split; [eapply sx_cons; [apply sx_I; exact E|exact X]|]. split; [exact A|]. split.
      * intros a' Ha'. rewrite (O a' Ha'). unfold s1. cbn [set_arr m_arr]. unfold upd_nat.
        apply Nat.eqb_neq in Ha'. rewrite Ha'. reflexivity.
      * eapply same_ctl_trans; [|exact C]. constructor; reflexivity.
    + apply Hn. rewrite <- app_assoc. exact H.
Qed.

(* lower_array_init: the loop emitted for an array whose initial values are all equal *)
Lemma init_loop_rounds : forall a v t k m pre s,
  m_arr s a = Some (pre ++ repeat None k) -> List.length pre = m -> m_reg s (Rg BR t) = Some (Z.of_nat m) ->
  exists s', sxloop (Rg BR t) (Z.of_nat (m + k)) 1 [XI (IStore (PImm v) a (PReg (Rg BR t)))] s s' /\
             m_arr s' a = Some (pre ++ repeat (Some v) k) /\
             (forall a', a' <> a -> m_arr s' a' = m_arr s a') /\ same_ctl s s'.
Proof.
  intros a v t k. induction k as [|k IH]; intros m pre s H Hm Hr.
  - exists s. replace (m + 0) with m by lia. split; [apply sxl_done; exact Hr|]. cbn in *. split; [exact H|].
    split; [auto|apply same_ctl_refl].
  - cbn [repeat] in H.
    set (s1 := set_arr s a (pre ++ Some v :: repeat None k)).
    assert (E : exec_instr (IStore (PImm v) a (PReg (Rg BR t))) s = Some s1).
    { cbn [exec_instr rop_val]. rewrite H, Hr, zidx_of_nat. subst m. rewrite list_set_app_mid. reflexivity. }
    set (s2 := set_reg s1 (Rg BR t) (Z.of_nat m + 1)%Z).
    destruct (IH (S m) (pre ++ [Some v]) s2) as (s' & X & A & O & C).
    { unfold s2, s1. cbn [set_reg set_arr m_arr]. unfold upd_nat. rewrite Nat.eqb_refl. rewrite <- app_assoc. reflexivity. }
    { rewrite app_length. cbn. lia. }
    { unfold s2. rewrite m_reg_set_same. f_equal. lia. }
    exists s'. split.
    + eapply sxl_step with (v := Z.of_nat m) (v1 := Z.of_nat m).
      * exact Hr.
      * lia.
      * apply sx_one. exact E.
      * unfold s1. cbn [set_arr m_reg]. exact Hr.
      * replace (m + S k) with (S m + k) by lia. exact X.
    + split; [rewrite A, <- app_assoc; reflexivity|]. split.
      * intros a' Ha'. rewrite (O a' Ha'). unfold s2, s1. cbn [set_reg set_arr m_arr]. unfold upd_nat.
        apply Nat.eqb_neq in Ha'. rewrite Ha'. reflexivity.
      * eapply same_ctl_trans; [|exact C]. constructor; reflexivity.
Qed.

Theorem lower_array_init : forall a v t len s,
  m_arr s a = Some (repeat None len) ->
  exists s', sx1 (XLoop (Rg BR t) 0 (Z.of_nat len) 1 [XI (IStore (PImm v) a (PReg (Rg BR t)))]) s s' /\
             m_arr s' a = Some (repeat (Some v) len) /\
             (forall a', a' <> a -> m_arr s' a' = m_arr s a') /\ same_ctl s s'.
Proof.
  intros a v t len s H.
  destruct (init_loop_rounds a v t len 0 [] (set_reg s (Rg BR t) 0%Z)) as (s' & X & A & O & C); auto.
  - apply m_reg_set_same.
  - exists s'. split; [apply sx_Loop; exact X|]. split; [exact A|]. split; [exact O|].
    eapply same_ctl_trans; [|exact C]. constructor; reflexivity.
Qed.

Lemma loopopt_repeat : forall l v, loopopt l = Some v -> l = repeat (Some v) (List.length l).
Proof.
  intros l v H. unfold loopopt in H. destruct l as [|[w|] [|y r]]; try discriminate.
  destruct (forallb _ _) eqn:F; [|discriminate]. inv_ok H.
  remember (Some v :: y :: r) as l eqn:El. clear El.
  induction l as [|x l IH]; [reflexivity|]. cbn in F. apply andb_prop in F. destruct F as [F1 F2].
  destruct x as [w|]; [|discriminate]. apply Z.eqb_eq in F1. subst. cbn. f_equal. apply IH. exact F2.
Qed.

Lemma marr_after_agree : forall ds f g a a',
  (forall x, x <> a -> f x = g x) -> a' <> a -> marr_after ds f a' = marr_after ds g a'.
Proof.
  induction ds as [|d ds IH]; intros f g a a' H Hne; cbn; [apply H; exact Hne|].
  apply IH with (a := a); [|exact Hne]. intros x Hx. unfold upd_nat.
  destruct (Nat.eqb x (addr d)); [reflexivity|apply H; exact Hx].
Qed.

Lemma InitOK_snoc : forall P done d c,
  InitOK P done -> ~ In (addr d) (map addr done) \/ True ->
  (forall s, exists s', sx c s s' /\ m_arr s' (addr d) = Some (decl_content d) /\
                        (forall a', a' <> addr d -> m_arr s' a' = m_arr s a') /\ same_ctl s s') ->
  InitOK (P ++ c) (done ++ [d]).
Proof.
  intros P done d c HP _ Hc s. destruct (HP s) as (s1 & X1 & A1 & C1). destruct (Hc s1) as (s2 & X2 & A2 & O2 & C2).
  exists s2. split; [eapply sx_app; eauto|]. split; [|eapply same_ctl_trans; eauto].
  intro a. rewrite marr_after_app. cbn. unfold upd_nat. destruct (Nat.eqb a (addr d)) eqn:E.
  - apply Nat.eqb_eq in E. subst. exact A2.
  - apply Nat.eqb_neq in E. rewrite (O2 a E). apply A1.
Qed.

Lemma init_exec : forall ds P done st Pf stf,
  init_code ds P st = Ok (Pf, stf) -> InitOK P done -> Forall decl_wf ds ->
  NoDup (map addr (done ++ ds)) -> InitOK Pf (done ++ ds).
Proof.
  induction ds as [|[[a n] init] ds IH]; intros P done st Pf stf H HP W ND; cbn [init_code] in H.
  - inv_ok H. rewrite app_nil_r. exact HP.
  - inversion W as [|? ? Wd Wr]; subst.
    assert (ND' : NoDup (map addr ((done ++ [(a, n, init)]) ++ ds))) by (rewrite <- app_assoc; exact ND).
    assert (Eapp : forall x : arrdecl, done ++ x :: ds = (done ++ [x]) ++ ds) by (intro; rewrite <- app_assoc; reflexivity).
    rewrite (Eapp (a, n, init)). clear Eapp.
    destruct init as [l|].
    + destruct Wd as [Hn Hn0]. destruct (loopopt l) as [v|] eqn:Lo.
      * (* all equal: declaration, everything pending so far, then the loop *)
        destruct (take st) as [[t st1]|] eqn:Ht; cbn [bind] in H; [|discriminate].
        eapply IH; [exact H| |exact Wr|exact ND'].
        assert (Hnot : ~ In a (map addr done)).
        { rewrite map_app in ND. apply NoDup_remove_2 in ND. intro X. apply ND. apply in_or_app. left. exact X. }
        intro s.
        set (s1 := set_arr s a (repeat None n)).
        assert (E1 : exec_instr (IArray (Z.of_nat n) a) s = Some s1).
        { cbn [exec_instr]. destruct (Z.of_nat n <? 0)%Z eqn:Ez; [apply Z.ltb_lt in Ez; lia|]. rewrite Nat2Z.id. reflexivity. }
        destruct (HP s1) as (s2 & X2 & A2 & C2).
        assert (Ha2 : m_arr s2 a = Some (repeat None n)).
        { rewrite A2, marr_after_other by exact Hnot. unfold s1. cbn [set_arr m_arr]. unfold upd_nat.
          rewrite Nat.eqb_refl. reflexivity. }
        rewrite Hn in Ha2.
        destruct (lower_array_init a v t (List.length l) s2 Ha2) as (s3 & X3 & A3 & O3 & C3).
        exists s3. split.
        { cbn [app]. eapply sx_cons; [apply sx_I; exact E1|]. eapply sx_app; [exact X2|].
          eapply sx_cons; [exact X3|apply sx_nil]. }
        split; [|eapply same_ctl_trans; [|eapply same_ctl_trans; [exact C2|exact C3]]; constructor; reflexivity].
        intro a'. rewrite marr_after_app. cbn. unfold upd_nat, addr. cbn [fst].
        destruct (Nat.eqb a' a) eqn:E.
        { apply Nat.eqb_eq in E. subst. rewrite A3. f_equal. symmetry. apply loopopt_repeat. exact Lo. }
        { apply Nat.eqb_neq in E. rewrite (O3 a' E), A2.
          apply marr_after_agree with (a := a); [|exact E]. intros x Hx. unfold s1. cbn [set_arr m_arr]. unfold upd_nat.
          apply Nat.eqb_neq in Hx. rewrite Hx. reflexivity. }
      * eapply IH; [exact H| |exact Wr|exact ND'].
        replace (P ++ [XI (IArray (Z.of_nat n) a)] ++ stores a 0 l) with (P ++ (XI (IArray (Z.of_nat n) a) :: stores a 0 l)) by reflexivity.
        apply InitOK_snoc with (d := (a, n, Some l)); [exact HP|right; exact I|].
        intro s. set (s1 := set_arr s a (repeat None n)).
        assert (E1 : exec_instr (IArray (Z.of_nat n) a) s = Some s1).
        { cbn [exec_instr]. destruct (Z.of_nat n <? 0)%Z eqn:Ez; [apply Z.ltb_lt in Ez; lia|]. rewrite Nat2Z.id. reflexivity. }
        destruct (stores_exec a l [] s1) as (s2 & X2 & A2 & O2 & C2).
        { unfold s1. cbn [set_arr m_arr app]. unfold upd_nat. rewrite Nat.eqb_refl, Hn. reflexivity. }
        exists s2. split; [eapply sx_cons; [apply sx_I; exact E1|exact X2]|]. cbn [addr fst decl_content].
        split; [exact A2|]. split.
        { intros a' Ha'. rewrite (O2 a' Ha'). unfold s1. cbn [set_arr m_arr]. unfold upd_nat.
          apply Nat.eqb_neq in Ha'. rewrite Ha'. reflexivity. }
        { eapply same_ctl_trans; [|exact C2]. constructor; reflexivity. }
    + eapply IH; [exact H| |exact Wr|exact ND'].
      apply InitOK_snoc with (d := (a, n, None)); [exact HP|right; exact I|].
      intro s. set (s1 := set_arr s a (repeat None n)).
      assert (E1 : exec_instr (IArray (Z.of_nat n) a) s = Some s1).
      { cbn [exec_instr]. destruct (Z.of_nat n <? 0)%Z eqn:Ez; [apply Z.ltb_lt in Ez; lia|]. rewrite Nat2Z.id. reflexivity. }
      exists s1. split; [apply sx_one; exact E1|]. cbn [addr fst decl_content].
      split; [unfold s1; cbn [set_arr m_arr]; unfold upd_nat; rewrite Nat.eqb_refl; reflexivity|]. split.
      { intros a' Ha'. unfold s1. cbn [set_arr m_arr]. unfold upd_nat. apply Nat.eqb_neq in Ha'. rewrite Ha'. reflexivity. }
      { constructor; reflexivity. }
Qed.

(* ------------------------------------------------------------------ one flush block *)
Lemma declare_all_other : forall ds ar a, ~ In a (map addr ds) -> alookup a (declare_all ds ar) = alookup a ar.
Proof.
  induction ds as [|d ds IH]; intros ar a H; cbn; [reflexivity|].
  rewrite IH by (intro X; apply H; right; exact X). apply alookup_aset_other. intro X. apply H. left. symmetry. exact X.
Qed.
Lemma declare_all_in : forall ds ar d, NoDup (map addr ds) -> In d ds ->
  alookup (addr d) (declare_all ds ar) = Some (decl_content d).
Proof.
  induction ds as [|d0 ds IH]; intros ar d ND Hin; [destruct Hin|]. cbn in ND. inversion ND; subst. cbn.
  destruct Hin as [->|Hin].
  - rewrite declare_all_other by assumption. apply alookup_aset_same.
  - apply IH; assumption.
Qed.
Lemma decl_content_len : forall d, decl_wf d -> List.length (decl_content d) = snd (fst d).
Proof. intros [[a n] [l|]] W; cbn in *; [destruct W; congruence|apply repeat_length]. Qed.

Lemma alook_dl : forall ds rest a n,
  alook a (map dl ds ++ rest) = Some n ->
  (exists d, In d ds /\ addr d = a /\ snd (fst d) = n) \/ (~ In a (map addr ds) /\ alook a rest = Some n).
Proof.
  induction ds as [|d ds IH]; intros rest a n H; cbn in *; [right; auto|].
  destruct (Nat.eqb a (fst (fst d))) eqn:E.
  - apply Nat.eqb_eq in E. inv_ok H. left. exists d. unfold addr. auto.
  - apply Nat.eqb_neq in E. destruct (IH _ _ _ H) as [(d' & I' & A' & N')|[Hn Hr]].
    + left. exists d'. auto.
    + right. split; [|exact Hr]. intros [X|X]; [unfold addr in X; congruence|contradiction].
Qed.

Lemma dwf_nodup : forall ds n n', dwf ds n n' -> NoDup (map addr ds) /\ (forall a, In a (map addr ds) -> n <= a).
Proof.
  intros ds n n' (A & _ & _). unfold addr. rewrite A. split; [apply seq_NoDup|].
  intros a H. apply in_seq in H. lia.
Qed.

Record BlockStart (st : lst) : Prop := mkBS {
  bs_lv : l_lv st = []; bs_decl : l_decl st = []; bs_ret : l_ret st = [];
  bs_rf : forall r m, alook r (l_rf st) <> Some (Rg BM m)
}.
Definition TRel (st : lst) (e : est) (s : mst) : Prop :=
  Rel (l_len st) st e s /\ fresh_above (l_next st) (e_arr e).

Lemma rets_exec : forall (ds : list arrdecl) (rs : list reg) s,
  (forall d, In d ds -> m_arr s (fst (fst d)) <> None) -> (forall g, In g rs -> m_reg s g <> None) ->
  sx (map (fun d : arrdecl => XI (IRetArr (fst (fst d)))) ds ++ map (fun m => XI (IRetReg m)) rs) s s.
Proof.
  induction ds as [|d ds IH]; intros rs s Ha Hr; cbn.
  - induction rs as [|g rs IHr]; cbn; [apply sx_nil|].
    eapply sx_cons; [apply sx_I|apply IHr; intros; apply Hr; right; assumption].
    cbn [exec_instr]. destruct (m_reg s g) eqn:E; [reflexivity|]. exfalso. apply (Hr g); [left; reflexivity|exact E].
  - eapply sx_cons; [apply sx_I|apply IH; [intros; apply Ha; right; assumption|exact Hr]].
    cbn [exec_instr]. destruct (m_arr s (fst (fst d))) eqn:E; [reflexivity|]. exfalso. apply (Ha d); [left; reflexivity|exact E].
Qed.

Definition stale1 (g : reg) : reg := match g with Rg BM _ => STALE | _ => g end.
Lemma alook_stale : forall l r, alook r (stale_rf l) = option_map stale1 (alook r l).
Proof.
  induction l as [|[k v] l IH]; intro r; cbn; [reflexivity|].
  destruct v as [[] i]; cbn; destruct (Nat.eqb r k); cbn; auto.
Qed.

Lemma stale1_not_M : forall g m, stale1 g <> Rg BM m.
Proof. intros [[] i] m; cbn; discriminate. Qed.

Lemma Inv_reset : forall st, Inv st -> l_lv st = [] -> Inv (reset_block st) /\ BlockStart (reset_block st).
Proof.
  intros st [A B C C' D E F G LA LM] Hl.
  assert (NoM : forall r m, alook r (stale_rf (l_rf st)) <> Some (Rg BM m)).
  { intros r m H. rewrite alook_stale in H. destruct (alook r (l_rf st)) as [g|]; cbn in H; [|discriminate].
    inv_ok H. eapply stale1_not_M; eauto. }
  split.
  - apply mkInv; cbn [reset_block l_lv l_act l_rf l_ret l_mused l_q l_len l_next]; try assumption.
    + intros r m H. exfalso. eapply NoM; eauto.
    + intros r g H. rewrite alook_stale in H. destruct (alook r (l_rf st)) as [g0|] eqn:Eg; cbn in H; [|discriminate].
      inv_ok H. destruct (C _ _ Eg) as [(m & ->)| ->]; right; reflexivity.
    + intros r r' m H. exfalso. eapply NoM; eauto.
    + intros g [].
    + apply repeat_length.
  - constructor; cbn; auto.
Qed.

Lemma init_code_sba : forall ds P st Pf stf, init_code ds P st = Ok (Pf, stf) -> sba st stf /\ l_act stf = l_act st.
Proof.
  induction ds as [|[[a n] init] ds IH]; intros P st Pf stf H; cbn [init_code] in H.
  - inv_ok H. split; [apply sba_refl|reflexivity].
  - destruct init as [l|]; [|eapply IH; eauto].
    destruct (loopopt l); [|eapply IH; eauto].
    destruct (take st) as [[t s1]|] eqn:Ht; cbn [bind] in H; [|discriminate].
    destruct (IH _ _ _ _ H) as [S A]. split.
    + eapply sba_trans; [eapply sba_take; eauto|]. eapply sba_trans; [apply sba_release|exact S].
    + rewrite A. assert (G := good_bracket st t s1 s1 0 Ht (good_refl _ _)). exact (proj1 G).
Qed.

Lemma alook_app_notin : forall (ds : list arrdecl) rest a,
  ~ In a (map addr ds) -> alook a (map dl ds ++ rest) = alook a rest.
Proof.
  induction ds as [|d ds IH]; intros rest a H; cbn; [reflexivity|].
  destruct (Nat.eqb a (fst (fst d))) eqn:E.
  - apply Nat.eqb_eq in E. exfalso. apply H. left. unfold addr. congruence.
  - apply IH. intro X. apply H. right. exact X.
Qed.
Lemma alook_dl_in : forall (ds : list arrdecl) rest a,
  In a (map addr ds) -> alook a (map dl ds ++ rest) <> None.
Proof.
  induction ds as [|d ds IH]; intros rest a H; cbn; [destruct H|].
  destruct (Nat.eqb a (fst (fst d))) eqn:E; [discriminate|].
  apply IH. destruct H as [X|X]; [|exact X]. apply Nat.eqb_neq in E. unfold addr in X. congruence.
Qed.
Lemma in_addr_rev : forall (ds : list arrdecl) a, In a (map addr (rev ds)) <-> In a (map addr ds).
Proof. intros ds a. rewrite map_rev. split; intro H; [apply in_rev; exact H|apply in_rev in H; exact H]. Qed.

Lemma Rel_snap : forall L st e s, Rel L st e s -> Rel L st (snap e) s.
Proof. intros L st e s [A B C D E F G HH II J K RD1 RD2]. constructor; cbn; assumption. Qed.

Lemma block_step : forall seg st0 c st1 blk st2 e0 e1 s0,
  bwfs seg = true -> Inv st0 -> BlockStart st0 -> TRel st0 e0 s0 ->
  lower_block true seg st0 = Ok (c, st1) -> lower_flush c st1 = Ok (blk, st2) ->
  eval_block seg (with_arr e0 (hoist_block seg (e_arr e0))) = Some e1 ->
  exists s2, (match blk with Some code => sx code s0 s2 | None => s2 = s0 end) /\
             Inv st2 /\ BlockStart st2 /\ TRel st2 (snap e1) s2.
Proof.
  intros seg st0 c st1 blk st2 e0 e1 s0 Hw I0 [Blv Bdecl Bret Brf] [HR HF] Hl Hfl Hev.
  destruct (proj2 wfs_plain seg Hw) as [Hp He].
  destruct (proj2 lower_facts seg Hp He _ _ _ Hl I0) as [I1 X1].
  destruct (proj2 hoist_facts seg Hw _ _ _ (e_arr e0) Hl HF) as (ds & D1 & H1 & F1 & W1 & Ln1).
  rewrite Bdecl in D1. cbn [app] in D1. rewrite H1 in Hev.
  destruct (dwf_nodup _ _ _ W1) as [NDa Ha_ge]. destruct W1 as (_ & _ & Wf).
  unfold lower_flush in Hfl.
  destruct (init_code (l_decl st1) [] st1) as [[P st1']|] eqn:Hin; cbn [bind] in Hfl; [|discriminate].
  destruct (init_code_sba _ _ _ _ _ Hin) as [S1 A1].
  assert (IO : InitOK P ds).
  { rewrite D1 in Hin. apply (init_exec ds [] [] st1 P st1' Hin); [|exact Wf|exact NDa].
    intro s. exists s. split; [apply sx_nil|]. split; [reflexivity|apply same_ctl_refl]. }
  destruct (IO s0) as (si & Xi & Ai & [Ci1 Ci2 Ci3 Ci4 Ci5]).
  set (e0h := with_arr e0 (declare_all ds (e_arr e0))) in *.
  set (L := l_len st1).
  assert (Arr_i : forall a, m_arr si a = alookup a (declare_all ds (e_arr e0))).
  { intro a. rewrite Ai. apply marr_declare_all. intro a'. apply (r_arr _ _ _ _ HR). }
  assert (Rh : Rel L st0 e0h si).
  { destruct HR as [A B C D E F G HH II J K RD1 RD2]. apply mkRel; cbn [e0h with_arr e_arr e_reg e_lv e_q e_n e_script e_trace].
    - exact Arr_i.
    - intros a n Hn. unfold L in Hn. rewrite Ln1 in Hn. destruct (alook_dl _ _ _ _ Hn) as [(d & Hd & Ead & En)|[Hni Hr]].
      + apply in_rev in Hd. exists (decl_content d). subst a. split; [apply declare_all_in; assumption|].
        rewrite decl_content_len; [exact En|]. rewrite Forall_forall in Wf. apply Wf. exact Hd.
      + rewrite declare_all_other by (intro X; apply Hni; apply in_addr_rev; exact X). eauto.
    - intros q id Hq. rewrite Ci1, Ci2. eauto.
    - exact D.
    - intros id Hn. rewrite Ci1. eauto.
    - exact F.
    - intros r m Hr. exfalso. eapply Brf; eauto.
    - rewrite Blv. intros; discriminate.
    - congruence.
    - congruence.
    - congruence.
    - intros r m Hr. exfalso. eapply Brf; eauto.
    - intros a Ha. unfold L. rewrite Ln1. destruct (in_dec Nat.eq_dec a (map addr ds)) as [Hin'|Hni].
      + apply alook_dl_in. apply in_addr_rev. exact Hin'.
      + rewrite alook_app_notin by (intro X; apply Hni; apply in_addr_rev; exact X).
        apply RD2. rewrite declare_all_other in Ha by exact Hni. exact Ha. }
  destruct (block_compile_correct seg L st0 c st1 e0h e1 si Hw Hl I0 (sub_refl _ _) Hev Rh) as (s1 & Xc & R1).
  (* ret_arr / ret_reg do not fault *)
  assert (Xr : sx (map (fun d : arrdecl => XI (IRetArr (fst (fst d)))) (l_decl st1) ++
                   map (fun m => XI (IRetReg m)) (l_ret st1)) s1 s1).
  { apply rets_exec.
    - intros d Hd. rewrite D1 in Hd. rewrite (r_arr _ _ _ _ R1).
      assert (HaL : alook (addr d) L <> None).
      { unfold L. rewrite Ln1. apply alook_dl_in. apply in_addr_rev. apply in_map. exact Hd. }
      destruct (alook (addr d) L) as [n|] eqn:En; [|contradiction].
      destruct (r_len _ _ _ _ R1 _ _ En) as (l & Hl' & _). unfold addr in Hl'. rewrite Hl'. discriminate.
    - intros g Hg. destruct (i_ret _ I1 _ Hg) as (r & m & -> & Hr).
      assert (Hd := r_rfdef _ _ _ _ R1 _ _ Hr). destruct (alookup r (e_reg e1)) as [z|] eqn:Ez; [|contradiction].
      rewrite (r_rf _ _ _ _ R1 _ _ Hr _ Ez). discriminate. }
  assert (Xfull : sx (P ++ c ++ map (fun d : arrdecl => XI (IRetArr (fst (fst d)))) (l_decl st1) ++
                      map (fun m => XI (IRetReg m)) (l_ret st1)) s0 s1).
  { eapply sx_app; [exact Xi|]. eapply sx_app; [exact Xc|exact Xr]. }
  inv_ok Hfl.
  assert (I1' : Inv st1') by (eapply Inv_sba; eauto).
  destruct S1 as (S1m & S1q & S1n & S1r & S1f & S1v & S1l & S1d).
  assert (Lv1' : l_lv st1' = []) by (rewrite S1v, (x_lv _ _ X1); exact Blv).
  destruct (Inv_reset st1' I1' Lv1') as [I2 B2].
  exists s1. split.
  { destruct (is_nil _) eqn:En; [|exact Xfull].
    match type of En with is_nil ?l = true => destruct l; [|discriminate] end.
    eapply sx_nil_inv. exact Xfull. }
  split; [exact I2|]. split; [exact B2|]. split.
  - cbn [reset_block l_len]. rewrite S1l. apply Rel_snap. eapply Rel_st; [exact R1| | |].
    + cbn. exact S1q.
    + cbn. rewrite Lv1'. intros; discriminate.
    + intros r m Hr. exfalso. eapply (bs_rf _ B2); eauto.
  - cbn [reset_block l_next snap e_arr]. rewrite S1n. intros a Ha.
    destruct (alookup a (e_arr e1)) as [l|] eqn:El; [|reflexivity]. exfalso.
    assert (Hd : alook a L <> None) by (apply (r_dom _ _ _ _ R1); congruence).
    destruct (alook a L) as [n|] eqn:En; [|contradiction]. apply (i_len _ I1) in En. lia.
Qed.

(* ------------------------------------------------------------------ all blocks *)
Lemma frun_frun3 : forall fuel c st s, frun fuel c st = Some s -> frun3 fuel c st = RDone s.
Proof.
  induction fuel as [|f IH]; intros c st s H; cbn in *; [discriminate|].
  destruct (Nat.eqb (fst st) (List.length c)); [inv_ok H; reflexivity|].
  destruct (fstep c st); [apply IH; exact H|discriminate].
Qed.
Lemma frun3_mono : forall f f' c st s, frun3 f c st = RDone s -> f <= f' -> frun3 f' c st = RDone s.
Proof.
  induction f as [|f IH]; intros f' c st s H Hle; cbn in H; [discriminate|].
  destruct f' as [|f']; [lia|]. cbn.
  destruct (Nat.eqb (fst st) (List.length c)); [exact H|].
  destruct (fstep c st); [apply IH; [exact H|lia]|discriminate].
Qed.
Lemma run_blocks_mono : forall bs f f' s s', run_blocks f bs s = RDone s' -> f <= f' -> run_blocks f' bs s = RDone s'.
Proof.
  induction bs as [|[b|] bs IH]; intros f f' s s' H Hle; cbn in *; [exact H| |eapply IH; eauto].
  destruct (frun3 f (flatten b) (0, s)) as [s1| |] eqn:E; try discriminate.
  rewrite (frun3_mono _ _ _ _ _ E Hle). eapply IH; eauto.
Qed.

Lemma with_arr_self : forall e, with_arr e (e_arr e) = e.
Proof. intros []. reflexivity. Qed.

Theorem prog_sim : forall segs st0 bs stF e0 eF s0,
  Forall (fun seg => bwfs seg = true) segs -> Inv st0 -> BlockStart st0 -> TRel st0 e0 s0 ->
  lower_top true (prog_of segs) [] st0 = Ok (bs, stF) ->
  eval_top (prog_of segs) (with_arr e0 (hoist_top (prog_of segs) (e_arr e0))) = Some eF ->
  exists fuel sF, run_blocks fuel bs s0 = RDone sF /\ TRel stF eF sF.
Proof.
  induction segs as [|seg segs IH]; intros st0 bs stF e0 eF s0 Hw I0 B0 T0 Hl Hev.
  - cbn in Hl, Hev. inv_ok Hl. rewrite with_arr_self in Hev. inv_ok Hev. exists 1, s0. split; [reflexivity|exact T0].
  - inversion Hw as [|? ? Hw1 Hw2]; subst. cbn [prog_of] in Hl, Hev.
    rewrite lower_top_seg in Hl by exact Hw1. rewrite hoist_top_seg in Hev by exact Hw1.
    rewrite eval_top_seg in Hev by exact Hw1. cbn [app] in Hl.
    destruct (lower_block true seg st0) as [[c st1]|] eqn:Hb; cbn [bind] in Hl; [|discriminate].
    destruct (lower_flush c st1) as [[b st2]|] eqn:Hf; cbn [bind] in Hl; [|discriminate].
    destruct (lower_top true (prog_of segs) [] st2) as [[rest st3]|] eqn:Hr; cbn [bind] in Hl; [|discriminate].
    inv_ok Hl.
    destruct (eval_block seg (with_arr e0 (hoist_block seg (e_arr e0)))) as [e1|] eqn:Eb; [|discriminate].
    cbn zeta in Hev.
    destruct (block_step seg st0 c st1 b st2 e0 e1 s0 Hw1 I0 B0 T0 Hb Hf Eb) as (s2 & Xb & I2 & B2 & T2).
    destruct (IH st2 rest stF (snap e1) eF s2 Hw2 I2 B2 T2 Hr Hev) as (fuel & sF & Hrun & TF).
    destruct b as [code|].
    + destruct (proj2 (flatten_correct code s0 s2 Xb)) as (f1 & F1). apply frun_frun3 in F1.
      exists (Nat.max f1 fuel), sF. split; [|exact TF]. cbn [run_blocks].
      rewrite (frun3_mono _ _ _ _ _ F1 (Nat.le_max_l _ _)).
      eapply run_blocks_mono; [exact Hrun|apply Nat.le_max_r].
    + subst s2. exists fuel, sF. split; [exact Hrun|exact TF].
Qed.

(* C05, whole programs: a program of well-formed statements, flushed any number of times (each
   segment followed by a flush), lowered by the builder model, flattened to labels and jumps and
   run block by block on the controller, ends with the gate trace and the arrays of direct
   evaluation *)
Theorem sdk_compile_correct_wfs : forall segs script e bs st,
  Forall (fun seg => bwfs seg = true) segs ->
  eval_prog (prog_of segs) script = Some e ->
  lower_prog true (prog_of segs) = Ok (bs, st) ->
  exists fuel s, run_blocks fuel bs (m0 script) = RDone s /\ agrees s e.
Proof.
  intros segs script e bs st Hw Hev Hl. unfold eval_prog in Hev. unfold lower_prog in Hl.
  assert (T0 : TRel l0 (e0 script) (m0 script)).
  { split; [exact (Rel_init script)|]. intros a _. reflexivity. }
  assert (B0 : BlockStart l0) by (constructor; cbn; auto; intros; discriminate).
  destruct (prog_sim segs l0 bs st (e0 script) e (m0 script) Hw Inv_l0 B0 T0 Hl Hev) as (fuel & s & Hrun & [R _]).
  exists fuel, s. split; [exact Hrun|]. unfold agrees. split.
  - rewrite (r_trace _ _ _ _ R). reflexivity.
  - apply (r_arr _ _ _ _ R).
Qed.
