(* SdkTopProofs.v — C05 over whole programs: flush blocks.  The arrays declared and initialised
   by the code prepended at a flush are the arrays the specification hoists to the start of
   the block (lower_array_init included); ret_arr / ret_reg do not fault; induction over blocks. *)
From Coq Require Import ZArith List Bool Arith Lia.
From NQ Require Import Sdk.SdkAst Sdk.Target Sdk.Eval Sdk.MemMgr Sdk.Lower Sdk.Flatten Sdk.SdkCheck Sdk.Wf Sdk.Writes.
From NQ Require Import Proofs.SdkRegProofs Proofs.SdkFrameProofs Proofs.SdkMapLemmas Proofs.SdkInvProofs
  Proofs.SdkWfProofs Proofs.SdkLowerProofs Proofs.SdkFlattenProofs Proofs.SdkSimProofs.
Import ListNotations.
Local Open Scope nat_scope.

Ltac inv_ok H := inversion H; subst; clear H.

(* ------------------------------------------------------------------ programs as lists of flush-free segments *)
Fixpoint prog_of (segs : list block) : block :=
  match segs with
  | [] => BNil
  | s :: r => bapp s (BCons SFlush (prog_of r))
  end.

Lemma wfs_not_flush : forall s, wfs s = true -> s <> SFlush.
Proof. intros s H E. subst. discriminate. Qed.

Lemma lower_top_seg : forall seg rest acc st,
  bwfs seg = true ->
  lower_top true (bapp seg (BCons SFlush rest)) acc st =
  (let* (c, st1) := lower_block true seg st in
   let* (b, st2) := lower_flush (acc ++ c) st1 in
   let* (r, st3) := lower_top true rest [] st2 in
   Ok (b :: r, st3)).
Proof.
  induction seg as [|s seg IH]; intros rest acc st Hw.
  - cbn. rewrite app_nil_r. reflexivity.
  - cbn [bwfs] in Hw. apply andb_prop in Hw. destruct Hw as [Hs Hw]. cbn [bapp lower_block].
    assert (E : lower_top true (BCons s (bapp seg (BCons SFlush rest))) acc st =
                (let* (c, st1) := lower_stmt true s st in lower_top true (bapp seg (BCons SFlush rest)) (acc ++ c) st1)).
    { destruct s; try reflexivity. discriminate. }
    rewrite E. destruct (lower_stmt true s st) as [[c1 s1]|]; cbn [bind]; [|reflexivity].
    rewrite IH by exact Hw. destruct (lower_block true seg s1) as [[c2 s2]|]; cbn [bind]; [|reflexivity].
    rewrite app_assoc. reflexivity.
Qed.

Lemma eval_top_seg : forall seg rest e,
  bwfs seg = true ->
  eval_top (bapp seg (BCons SFlush rest)) e =
  match eval_block seg e with
  | Some e1 => let e2 := snap e1 in eval_top rest (with_arr e2 (hoist_top rest (e_arr e2)))
  | None => None
  end.
Proof.
  induction seg as [|s seg IH]; intros rest e Hw.
  - reflexivity.
  - cbn [bwfs] in Hw. apply andb_prop in Hw. destruct Hw as [Hs Hw]. cbn [bapp eval_block].
    assert (E : eval_top (BCons s (bapp seg (BCons SFlush rest))) e =
                match eval_stmt s e with Some e' => eval_top (bapp seg (BCons SFlush rest)) e' | None => None end).
    { destruct s; try reflexivity. discriminate. }
    rewrite E. destruct (eval_stmt s e); [|reflexivity]. apply IH. exact Hw.
Qed.

Lemma hoist_top_seg : forall seg rest ar,
  bwfs seg = true -> hoist_top (bapp seg (BCons SFlush rest)) ar = hoist_block seg ar.
Proof.
  induction seg as [|s seg IH]; intros rest ar Hw.
  - reflexivity.
  - cbn [bwfs] in Hw. apply andb_prop in Hw. destruct Hw as [Hs Hw]. cbn [bapp hoist_block].
    assert (E : hoist_top (BCons s (bapp seg (BCons SFlush rest))) ar =
                hoist_top (bapp seg (BCons SFlush rest)) (hoist_stmt s ar)).
    { destruct s; try reflexivity. discriminate. }
    rewrite E. apply IH. exact Hw.
Qed.

(* ------------------------------------------------------------------ declarations of a block = what Eval hoists *)
Definition decl_content (d : arrdecl) : list (option Z) :=
  match d with (_, n, Some l) => l | (_, n, None) => repeat None n end.
Fixpoint declare_all (ds : list arrdecl) (ar : arrays) : arrays :=
  match ds with [] => ar | d :: r => declare_all r (aset (fst (fst d)) (decl_content d) ar) end.

Lemma declare_all_app : forall a b ar, declare_all (a ++ b) ar = declare_all b (declare_all a ar).
Proof. induction a as [|d a IH]; intros b ar; cbn; [reflexivity|apply IH]. Qed.

Definition fresh_above (n : nat) (ar : arrays) : Prop := forall a, n <= a -> alookup a ar = None.

(* the declarations made between two lowering states: consecutive fresh addresses, lengths
   consistent with the initial values *)
Definition decl_wf (d : arrdecl) : Prop :=
  match d with (_, n, Some l) => n = List.length l /\ n <> 0 | (_, n, None) => n <> 0 end.
Definition dwf (ds : list arrdecl) (n n' : nat) : Prop :=
  map (fun d : arrdecl => fst (fst d)) ds = seq n (List.length ds) /\ n' = n + List.length ds /\ Forall decl_wf ds.
Lemma dwf_nil : forall n, dwf [] n n.
Proof. intro n. unfold dwf. cbn. repeat split; [lia|constructor]. Qed.
Lemma dwf_app : forall a b n1 n2 n3, dwf a n1 n2 -> dwf b n2 n3 -> dwf (a ++ b) n1 n3.
Proof.
  unfold dwf. intros a b n1 n2 n3 (A1 & A2 & A3) (B1 & B2 & B3). rewrite map_app, app_length, seq_app, A1, B1.
  subst. repeat split; [lia|apply Forall_app; auto].
Qed.

Definition hf_stmt (s : stmt) : Prop :=
  wfs s = true -> forall st c st' ar,
  lower_stmt true s st = Ok (c, st') -> fresh_above (l_next st) ar ->
  exists ds, l_decl st' = l_decl st ++ ds /\ hoist_stmt s ar = declare_all ds ar /\
             fresh_above (l_next st') (declare_all ds ar) /\ dwf ds (l_next st) (l_next st').
Definition hf_block (b : block) : Prop :=
  bwfs b = true -> forall st c st' ar,
  lower_block true b st = Ok (c, st') -> fresh_above (l_next st) ar ->
  exists ds, l_decl st' = l_decl st ++ ds /\ hoist_block b ar = declare_all ds ar /\
             fresh_above (l_next st') (declare_all ds ar) /\ dwf ds (l_next st) (l_next st').

Lemma hf_nothing : forall s st st' ar,
  l_decl st' = l_decl st -> l_next st' = l_next st -> hoist_stmt s ar = ar -> fresh_above (l_next st) ar ->
  exists ds, l_decl st' = l_decl st ++ ds /\ hoist_stmt s ar = declare_all ds ar /\
             fresh_above (l_next st') (declare_all ds ar) /\ dwf ds (l_next st) (l_next st').
Proof.
  intros s st st' ar E1 E2 E3 F. exists []. rewrite app_nil_r. cbn. rewrite E2.
  split; [exact E1|]. split; [exact E3|]. split; [exact F|apply dwf_nil].
Qed.

Lemma hf_declare : forall a n init st st1 ar,
  declare a n init st = Ok st1 -> fresh_above (l_next st) ar ->
  alookup a ar = None /\ l_decl st1 = l_decl st ++ [(a, n, init)] /\
  fresh_above (l_next st1) (aset a (decl_content (a, n, init)) ar) /\
  (decl_wf (a, n, init) -> dwf [(a, n, init)] (l_next st) (l_next st1)).
Proof.
  intros a n init st st1 ar H F. destruct (declare_facts _ _ _ _ _ H) as (Ea & En & _ & Ed & _).
  split; [apply F; lia|]. split; [exact Ed|]. split.
  - intros a' Ha'. rewrite En in Ha'. rewrite alookup_aset_other by lia. apply F. lia.
  - intro W. unfold dwf. cbn. subst a. repeat split; [lia|constructor; [exact W|constructor]].
Qed.

Theorem hoist_facts : (forall s, hf_stmt s) /\ (forall b, hf_block b).
Proof.
  apply stmt_block_ind; unfold hf_stmt, hf_block.
  - intros q _ st c st' ar H F. cbn [lower_stmt] in H. destruct (alook q (l_q st)); [discriminate|]. inv_ok H.
    apply hf_nothing; auto.
  - intros g q _ st c st' ar H F. cbn [lower_stmt] in H.
    destruct (qubit_id q st); cbn [bind] in H; [|discriminate]. inv_ok H. apply hf_nothing; auto.
  - intros ax q n d _ st c st' ar H F. cbn [lower_stmt] in H.
    destruct (qubit_id q st); cbn [bind] in H; [|discriminate]. inv_ok H. apply hf_nothing; auto.
  - intros t q1 q2 _ st c st' ar H F. cbn [lower_stmt] in H.
    destruct (qubit_id q1 st); cbn [bind] in H; [|discriminate].
    destruct (qubit_id q2 st); cbn [bind] in H; [|discriminate]. inv_ok H. apply hf_nothing; auto.
  - intros q ip a ix _ st c st' ar H F. cbn [lower_stmt] in H.
    destruct (low_ix ix st); cbn [bind] in H; [|discriminate].
    destruct (low_meas q ip false st) as [[[m c0] s1]|] eqn:Em; cbn [bind] in H; [|discriminate]. inv_ok H.
    destruct (low_meas_facts _ _ _ _ _ _ _ Em) as (id & _ & _ & _ & _ & N1 & _ & _ & _ & D1 & _).
    apply hf_nothing; auto.
  - (* SMeasNew *) intros q ip a _ st c st' ar H F. cbn [lower_stmt] in H.
    destruct (declare a 1 None st) as [s0|] eqn:Ed; cbn [bind] in H; [|discriminate].
    destruct (low_meas q ip false s0) as [[[m c0] s1]|] eqn:Em; cbn [bind] in H; [|discriminate]. inv_ok H.
    destruct (low_meas_facts _ _ _ _ _ _ _ Em) as (id & _ & _ & _ & _ & N1 & _ & _ & _ & D1 & _).
    destruct (hf_declare _ _ _ _ _ _ Ed F) as (Hn & Hd & Hf & Hw).
    exists [(a, 1, None)]. rewrite D1, N1. split; [exact Hd|]. cbn [hoist_stmt declare_all fst decl_content].
    rewrite Hn. split; [reflexivity|]. split; [exact Hf|]. apply Hw. cbn. discriminate.
  - intros q ip r _ st c st' ar H F. cbn [lower_stmt] in H.
    destruct (alook r (l_rf st)); [discriminate|].
    destruct (low_meas q ip true st) as [[[m c0] s1]|] eqn:Em; cbn [bind] in H; [|discriminate]. inv_ok H.
    destruct (low_meas_facts _ _ _ _ _ _ _ Em) as (id & _ & _ & _ & _ & N1 & _ & _ & _ & D1 & _).
    apply hf_nothing; auto.
  - intros q _ st c st' ar H F. cbn [lower_stmt] in H.
    destruct (qubit_id q st); cbn [bind] in H; [|discriminate]. inv_ok H. apply hf_nothing; auto.
  - (* SNewArray *) intros a len init _ st c st' ar H F. cbn [lower_stmt] in H.
    destruct (Nat.eqb (match init with Some l => List.length l | None => len end) 0) eqn:Ez; [discriminate|].
    destruct (declare a _ init st) as [s1|] eqn:Ed; cbn [bind] in H; [|discriminate]. inv_ok H.
    destruct (hf_declare _ _ _ _ _ _ Ed F) as (Hn & Hd & Hf & Hw).
    eexists. split; [exact Hd|]. cbn [hoist_stmt declare_all fst decl_content]. rewrite Hn.
    apply Nat.eqb_neq in Ez.
    destruct init as [l|]; (destruct (Nat.eqb _ 0) eqn:Ez'; [apply Nat.eqb_eq in Ez'; contradiction|]);
      (split; [reflexivity|split; [exact Hf|apply Hw; cbn; auto]]).
  - (* SFutAdd *) intros a ix o m _ st c st' ar H F. cbn [lower_stmt] in H.
    destruct (low_ix ix st); cbn [bind] in H; [|discriminate].
    destruct (take st) as [[t s1]|] eqn:Ht; cbn [bind] in H; [|discriminate].
    destruct (low_src o s1) as [[[[lo y] ts] s2]|] eqn:Hs; cbn [bind] in H; [|discriminate].
    match type of H with Ok (_, ?X) = _ => assert (Es : st' = X) by (inversion H; reflexivity) end.
    assert (S : sba st st').
    { rewrite Es. eapply sba_trans; [eapply sba_take; eauto|].
      eapply sba_trans; [eapply low_src_sba; eauto|].
      eapply sba_trans; [apply sba_release|apply sba_release_all]. }
    destruct S as (_ & _ & N & _ & _ & _ & _ & D). apply hf_nothing; auto.
  - intros r o m _ st c st' ar H F. cbn [lower_stmt] in H.
    destruct (rf_lookup r st) as [[[] k]|]; try discriminate.
    destruct (low_src o st) as [[[[lo y] ts] s1]|] eqn:Hs; cbn [bind] in H; [|discriminate].
    match type of H with Ok (_, ?X) = _ => assert (Es : st' = X) by (inversion H; reflexivity) end.
    assert (S : sba st st').
    { rewrite Es. eapply sba_trans; [eapply low_src_sba; eauto|apply sba_release_all]. }
    destruct S as (_ & _ & N & _ & _ & _ & _ & D). apply hf_nothing; auto.
  - intros r init Hp. discriminate.
  - intros r o m Hp. discriminate.
  - (* SIf *) intros c cb x y body IH Hw st code st' ar H F. cbn [wfs] in Hw.
    apply andb_prop in Hw. destruct Hw as [_ Hwf]. cbn [lower_stmt] in H.
    destruct (lower_block true body st) as [[cbody s1]|] eqn:Hb; cbn [bind] in H; [|discriminate].
    destruct (IH Hwf _ _ _ ar Hb F) as (ds & D1 & H1 & F1 & W1).
    assert (Fin : forall sF, sba s1 sF -> exists ds0, l_decl sF = l_decl st ++ ds0 /\
               hoist_stmt (SIf c cb x y body) ar = declare_all ds0 ar /\ fresh_above (l_next sF) (declare_all ds0 ar) /\
               dwf ds0 (l_next st) (l_next sF)).
    { intros sF (_ & _ & N & _ & _ & _ & _ & D). exists ds. rewrite D, N. auto. }
    destruct (is_nil cbody); [inv_ok H; apply Fin, sba_refl|].
    destruct (low_cval x s1) as [[[[lx px] tx] s2]|] eqn:Hx; cbn [bind] in H; [|discriminate].
    assert (Sx := low_cval_sba _ _ _ _ _ _ Hx).
    destruct c;
      try (inv_ok H; apply Fin; eapply sba_trans; [exact Sx|apply sba_release_all]);
      (destruct (low_cval y s2) as [[[[ly py] ty] s3]|] eqn:Hy; cbn [bind] in H; [|discriminate];
       inv_ok H; apply Fin;
       eapply sba_trans; [exact Sx|eapply sba_trans; [eapply low_cval_sba; eauto|apply sba_release_all]]).
  - (* SLoop *) intros cb v oreg start stop step body IH Hw st code st' ar H F.
    destruct oreg; [discriminate|]. cbn [wfs] in Hw. apply andb_prop in Hw. destruct Hw as [Hw _].
    apply andb_prop in Hw. destruct Hw as [_ Hwf]. cbn [lower_stmt] in H.
    destruct (alook v (l_lv st)); [discriminate|].
    destruct (take st) as [[r s1]|] eqn:Ht; cbn [bind] in H; [|discriminate].
    destruct (lower_block true body (bind_lvr v r s1)) as [[cbody s2]|] eqn:Hb; cbn [bind] in H; [|discriminate].
    destruct (sba_take _ _ _ Ht) as (_ & _ & N0 & _ & _ & _ & _ & D0).
    destruct (IH Hwf _ _ _ ar Hb) as (ds & D1 & H1 & F1 & W1); [cbn; rewrite N0; exact F|].
    cbn in D1, F1, W1. rewrite N0 in W1. exists ds. destruct (is_nil cbody); inv_ok H; cbn; rewrite D1, D0; auto.
  - (* SForeach *) intros enum v a body IH Hw st code st' ar H F.
    cbn [wfs] in Hw. apply andb_prop in Hw. destruct Hw as [_ Hwf]. cbn [lower_stmt] in H.
    destruct (alook a (l_len st)); [|discriminate].
    destruct (alook v (l_lv st)); [discriminate|].
    destruct (take st) as [[r s1]|] eqn:Ht; cbn [bind] in H; [|discriminate].
    destruct (lower_block true body (bind_lvr v r s1)) as [[cbody s2]|] eqn:Hb; cbn [bind] in H; [|discriminate].
    destruct (sba_take _ _ _ Ht) as (_ & _ & N0 & _ & _ & _ & _ & D0).
    destruct (IH Hwf _ _ _ ar Hb) as (ds & D1 & H1 & F1 & W1); [cbn; rewrite N0; exact F|].
    cbn in D1, F1, W1. rewrite N0 in W1. exists ds. destruct (is_nil cbody); inv_ok H; cbn; rewrite D1, D0; auto.
  - (* SLoopUntil *) intros v maxit body IHb cx bound cleanup IHc Hw st code st' ar H F.
    cbn [wfs] in Hw.
    apply andb_prop in Hw. destruct Hw as [Hw Hem]. apply andb_prop in Hw. destruct Hw as [Hw _].
    apply andb_prop in Hw. destruct Hw as [Hw _]. apply andb_prop in Hw. destruct Hw as [Hw Hwf2].
    apply andb_prop in Hw. destruct Hw as [_ Hwf1]. cbn [lower_stmt] in H.
    destruct (alook v (l_lv st)); [discriminate|].
    destruct (take st) as [[r s1]|] eqn:Ht; cbn [bind] in H; [|discriminate].
    destruct (sba_take _ _ _ Ht) as (_ & _ & N0 & _ & _ & _ & _ & D0).
    destruct (lower_block true body (bind_lvr v r s1)) as [[cbody s2]|] eqn:Hb; cbn [bind] in H; [|discriminate].
    destruct (IHb Hwf1 _ _ _ ar Hb) as (ds1 & D1 & H1 & F1 & W1); [cbn; rewrite N0; exact F|]. cbn in D1, F1, W1.
    rewrite N0 in W1.
    assert (Hne := emits_nonnil _ _ _ _ Hem Hb).
    destruct cbody as [|c0 cr]; [contradiction|]. cbn [is_nil] in H.
    destruct (low_cval cx s2) as [[[[lx px] tx] s3]|] eqn:Hx; cbn [bind] in H; [|discriminate].
      assert (S3 : sba s2 (release_all tx s3)) by (eapply sba_trans; [eapply low_cval_sba; eauto|apply sba_release_all]).
      destruct S3 as (_ & _ & N3 & _ & _ & _ & _ & D3).
      destruct (lower_block true cleanup (release_all tx s3)) as [[ccl s4]|] eqn:Hc; cbn [bind] in H; [|discriminate].
      destruct (IHc Hwf2 _ _ _ (declare_all ds1 ar) Hc) as (ds2 & D2 & H2 & F2 & W2); [rewrite N3; exact F1|].
      rewrite N3 in W2.
      inv_ok H. exists (ds1 ++ ds2). cbn. rewrite D2, D3, D1, D0, app_assoc. cbn [hoist_stmt].
      rewrite H1, H2, declare_all_app. split; [auto|split; [auto|split; [auto|eapply dwf_app; eauto]]].
  - intros k body IH Hw. discriminate.
  - intros Hw. discriminate.
  - intros _ st c st' ar H F. inv_ok H. exists []. rewrite app_nil_r. cbn. split; [auto|split; [auto|split; [auto|apply dwf_nil]]].
  - intros s IHs b IHb Hw st c st' ar H F. cbn [bwfs] in Hw.
    apply andb_prop in Hw. destruct Hw as [Hw1 Hw2].
    cbn [lower_block] in H.
    destruct (lower_stmt true s st) as [[c1 s1]|] eqn:H1; cbn [bind] in H; [|discriminate].
    destruct (lower_block true b s1) as [[c2 s2]|] eqn:H2; cbn [bind] in H; [|discriminate]. inv_ok H.
    destruct (IHs Hw1 _ _ _ ar H1 F) as (d1 & D1 & E1 & F1 & W1).
    destruct (IHb Hw2 _ _ _ _ H2 F1) as (d2 & D2 & E2 & F2 & W2).
    exists (d1 ++ d2). rewrite D2, D1, app_assoc. cbn [hoist_block]. rewrite E1, E2, declare_all_app.
    split; [auto|split; [auto|split; [auto|eapply dwf_app; eauto]]].
Qed.
