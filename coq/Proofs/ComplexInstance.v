(* ComplexInstance.v — the complex numbers are an instance of the hypotheses of
   eval_hom / circuit_lift_all / mov_row_lifts.

   THIS FILE (and only this file, plus props/*_complex.v) depends on the axioms of
   Coq's real numbers; every ring-generic theorem stays axiom-free.

   C = Coquelicot.Complex.C (pairs of reals), omega := cos(pi/32) + i sin(pi/32),
   half := 1/2, conjugation := Cconj.  omega^32 = -1 by de Moivre. *)
From Coq Require Import Reals ZArith List Ring_theory Lra Lia.
From Coquelicot Require Import Complex.
From NQ Require Import Base.Cyclo Base.QMat Nv.NvSem Proofs.CycloProofs Proofs.QMatLift Proofs.NvLift.
Import ListNotations.
Local Open Scope R_scope.

Definition Comega : C := (cos (PI / 32), sin (PI / 32)).
Definition Chalf : C := RtoC (/ 2).
Definition C0 : C := RtoC 0.
Definition C1 : C := RtoC 1.
Definition Cpow (z : C) (k : nat) : C := opow C C1 Cmult z k.

(* de Moivre *)
Lemma de_moivre : forall x n, Cpow (cos x, sin x) n = (cos (INR n * x), sin (INR n * x)).
Proof.
  intros x. induction n as [|n IH].
  - unfold Cpow. cbn [opow INR]. rewrite Rmult_0_l, cos_0, sin_0. reflexivity.
  - unfold Cpow in *. cbn [opow]. rewrite IH. unfold Cmult. cbn [fst snd].
    rewrite S_INR. replace ((INR n + 1) * x) with (x + INR n * x) by ring.
    rewrite cos_plus, sin_plus. f_equal; ring.
Qed.

Lemma Comega_pow : forall k, Cpow Comega k = (cos (INR k * (PI / 32)), sin (INR k * (PI / 32))).
Proof. intros k. apply de_moivre. Qed.

Lemma Comega32 : Cpow Comega 32 = Copp C1.
Proof.
  rewrite Comega_pow. rewrite INR_IZR_INZ. cbn [Z.of_nat Pos.of_succ_nat Pos.succ].
  replace (32 * (PI / 32)) with PI by field. rewrite cos_PI, sin_PI.
  unfold Copp, C1, RtoC. cbn [fst snd]. f_equal; ring.
Qed.

Lemma Chalf2 : Cmult (Cplus C1 C1) Chalf = C1.
Proof. unfold Cmult, Cplus, Chalf, C1, RtoC. cbn [fst snd]. f_equal; field. Qed.

(* conjugation is a ring endomorphism sending omega to omega^63 and fixing 1/2 *)
Lemma Cconj_0 : Cconj C0 = C0.
Proof. unfold Cconj, C0, RtoC. cbn [fst snd]. f_equal; ring. Qed.
Lemma Cconj_1 : Cconj C1 = C1.
Proof. unfold Cconj, C1, RtoC. cbn [fst snd]. f_equal; ring. Qed.
Lemma Cconj_add : forall x y, Cconj (Cplus x y) = Cplus (Cconj x) (Cconj y).
Proof. intros [a b] [c d]. unfold Cconj, Cplus. cbn [fst snd]. f_equal; ring. Qed.
Lemma Cconj_mul : forall x y, Cconj (Cmult x y) = Cmult (Cconj x) (Cconj y).
Proof. intros [a b] [c d]. unfold Cconj, Cmult. cbn [fst snd]. f_equal; ring. Qed.
Lemma Cconj_opp : forall x, Cconj (Copp x) = Copp (Cconj x).
Proof. intros [a b]. unfold Cconj, Copp. cbn [fst snd]. reflexivity. Qed.
Lemma Cconj_half : Cconj Chalf = Chalf.
Proof. unfold Cconj, Chalf, RtoC. cbn [fst snd]. f_equal; ring. Qed.
Lemma Cconj_omega : Cconj Comega = Cpow Comega 63.
Proof.
  rewrite Comega_pow. rewrite INR_IZR_INZ. cbn [Z.of_nat Pos.of_succ_nat Pos.succ].
  replace (63 * (PI / 32)) with (2 * PI - PI / 32) by field.
  rewrite cos_minus, sin_minus, cos_2PI, sin_2PI.
  unfold Cconj, Comega. cbn [fst snd]. f_equal; ring.
Qed.

(* ---- the evaluation into C ---- *)
Definition cev : K32 -> C := keval C C0 C1 Cplus Cmult Copp Comega Chalf.
Definition cmev (A : mat) : list (list C) := map (map cev) A.
Definition Ccircuit (n : nat) (ops : list qop) : option (list (list C)) :=
  rcircuit C C0 C1 Cplus Cmult Copp Comega Chalf n ops.
Definition Cmscale (c : C) (A : list (list C)) : list (list C) := rmscale C Cmult c A.
Definition Cmmul (A B : list (list C)) : list (list C) := rmmul C C0 Cplus Cmult A B.

(* eval_hom at C: cev is a ring homomorphism K32 -> C with w |-> e^{i pi/32} *)
Theorem cev_hom :
  cev kzero = C0 /\ cev kone = C1 /\ cev khalf = Chalf /\
  (forall k, cev (kw k) = (cos (INR k * (PI / 32)), sin (INR k * (PI / 32)))) /\
  (forall a b, cev (kadd a b) = Cplus (cev a) (cev b)) /\
  (forall a b, cev (kmul a b) = Cmult (cev a) (cev b)) /\
  (forall a, cev (kneg a) = Copp (cev a)) /\
  (forall a b, cev (ksub a b) = Cminus (cev a) (cev b)) /\
  (forall a, (List.length (kc a) <= 64)%nat -> cev (kconj a) = Cconj (cev a)).
Proof.
  destruct (eval_hom C C0 C1 Cplus Cmult Cminus Copp C_ring_theory Comega Chalf Comega32 Chalf2)
    as [H0 [H1 [Hh [Hw [Ha [Hm [Hn Hs]]]]]]].
  repeat split; try assumption.
  - intros k. unfold cev. rewrite Hw. apply Comega_pow.
  - intros a Hl. exact (keval_kconj C C0 C1 Cplus Cmult Cminus Copp C_ring_theory Comega Chalf
                          Comega32 Chalf2 Cconj Cconj_0 Cconj_1 Cconj_add Cconj_mul Cconj_opp
                          Cconj_omega Cconj_half a Hl).
Qed.

(* familiar constants *)
Lemma cev_ki : cev ki = Ci.
Proof.
  destruct cev_hom as [_ [_ [_ [Hw _]]]]. unfold ki. rewrite Hw.
  rewrite INR_IZR_INZ. cbn [Z.of_nat Pos.of_succ_nat Pos.succ].
  replace (16 * (PI / 32)) with (PI / 2) by field. rewrite cos_PI2, sin_PI2. reflexivity.
Qed.

Lemma cev_krsqrt2 : cev krsqrt2 = RtoC (1 / sqrt 2).
Proof.
  destruct cev_hom as [_ [_ [Hh [Hw [Ha [Hm _]]]]]].
  unfold krsqrt2, ksqrt2. rewrite Hm, Ha, Hh, !Hw.
  rewrite !INR_IZR_INZ. cbn [Z.of_nat Pos.of_succ_nat Pos.succ].
  replace (8 * (PI / 32)) with (PI / 4) by field.
  replace (56 * (PI / 32)) with (2 * PI - PI / 4) by field.
  rewrite cos_minus, sin_minus, cos_2PI, sin_2PI, cos_PI4, sin_PI4.
  unfold Cmult, Cplus, Chalf, RtoC. cbn [fst snd]. f_equal; field;
    apply Rgt_not_eq; apply Rlt_gt; apply sqrt_lt_R0; lra.
Qed.

(* ---- circuits in C ---- *)
Theorem circuit_lift_C : forall n ops U G,
  circuit n ops = Some U -> phase_eq U G ->
  exists p, (p < 64)%nat /\
    Ccircuit n ops = Some (Cmscale (cos (INR p * (PI / 32)), sin (INR p * (PI / 32))) (cmev G)).
Proof.
  intros n ops U G Hc Hp.
  destruct (circuit_lift_all C C0 C1 Cplus Cmult Cminus Copp C_ring_theory Comega Chalf
              Comega32 Chalf2 n ops U G Hc Hp) as [p [Hp1 Hp2]].
  exists p. split; [exact Hp1|]. rewrite <- Comega_pow. exact Hp2.
Qed.

(* a non-MOV table row in C *)
Definition row_in_C (r : nvrow) : Prop :=
  exists G p, gate_spec (r_gate r) (r_place r) = Some G /\ (p < 64)%nat /\
    Ccircuit (n_wires (r_place r)) (r_seq r) =
      Some (Cmscale (cos (INR p * (PI / 32)), sin (INR p * (PI / 32))) (cmev G)).

Lemma row_in_every_ring_C : forall r, row_in_every_ring r -> row_in_C r.
Proof.
  intros r H.
  destruct (H C C0 C1 Cplus Cmult Cminus Copp C_ring_theory Comega Chalf Comega32 Chalf2)
    as [G [p [Hg [Hp He]]]].
  exists G, p. split; [exact Hg|]. split; [exact Hp|]. rewrite <- Comega_pow. exact He.
Qed.

(* a MOV row in C: the circuit computed in C maps psi (x) |0> to phi0 (x) psi with
   |a|^2 + |b|^2 = 1 for phi0 = (a, b) *)
Definition mov_row_in_C (r : nvrow) : Prop :=
  mov_transfers_in C C0 C1 Cplus Cmult Copp Comega Chalf Cconj r.

Lemma mov_row_lifts_C : forall r, r_gate r = VMov -> row_spec r -> mov_row_in_C r.
Proof.
  intros r Hg Hs.
  exact (mov_row_lifts C C0 C1 Cplus Cmult Cminus Copp C_ring_theory Comega Chalf Comega32 Chalf2
           Cconj Cconj_0 Cconj_1 Cconj_add Cconj_mul Cconj_opp Cconj_omega Cconj_half r Hg Hs).
Qed.

(* ---- the complex images of the rotation matrices are the textbook matrices ---- *)
Definition ang (k : nat) : R := INR k * (PI / 32).

Lemma trig_mod : forall k, cos (ang k) = cos (ang (k mod 64)) /\ sin (ang k) = sin (ang (k mod 64)).
Proof.
  intros k. unfold ang.
  assert (Hk : (k = 64 * (k / 64) + k mod 64)%nat) by (apply Nat.div_mod; lia).
  rewrite Hk at 1 3. rewrite plus_INR, mult_INR.
  replace (INR 64) with 64 by (rewrite INR_IZR_INZ; reflexivity).
  replace ((64 * INR (k / 64) + INR (k mod 64)) * (PI / 32))
    with (INR (k mod 64) * (PI / 32) + 2 * INR (k / 64) * PI) by field.
  split; [apply cos_period | apply sin_period].
Qed.

Lemma trig_compl : forall m, (m <= 64)%nat ->
  cos (ang (64 - m)) = cos (ang m) /\ sin (ang (64 - m)) = - sin (ang m).
Proof.
  intros m Hm. unfold ang. rewrite minus_INR by exact Hm.
  replace (INR 64) with 64 by (rewrite INR_IZR_INZ; reflexivity).
  replace ((64 - INR m) * (PI / 32)) with (2 * PI - INR m * (PI / 32)) by field.
  rewrite cos_minus, sin_minus, cos_2PI, sin_2PI. split; ring.
Qed.

Lemma cev_kw : forall k, cev (kw k) = (cos (ang k), sin (ang k)).
Proof. destruct cev_hom as [_ [_ [_ [Hw _]]]]. exact Hw. Qed.

(* w^-k *)
Lemma cev_kw_inv : forall k, cev (kw (64 - k mod 64)) = (cos (ang k), - sin (ang k)).
Proof.
  intros k. rewrite cev_kw.
  assert (Hm : (k mod 64 <= 64)%nat) by (apply Nat.lt_le_incl, Nat.mod_upper_bound; lia).
  destruct (trig_compl (k mod 64) Hm) as [Hc Hs]. destruct (trig_mod k) as [Hc' Hs'].
  rewrite Hc, Hs, <- Hc', <- Hs'. reflexivity.
Qed.

Lemma cev_kcos : forall k, cev (kcos k) = RtoC (cos (ang k)).
Proof.
  intros k. destruct cev_hom as [_ [_ [Hh [_ [Ha [Hm _]]]]]].
  unfold kcos. rewrite Hm, Ha, Hh, cev_kw, cev_kw_inv.
  unfold Cmult, Cplus, Chalf, RtoC. cbn [fst snd]. f_equal; field.
Qed.

Lemma cev_ksin : forall k, cev (ksin k) = RtoC (sin (ang k)).
Proof.
  intros k. destruct cev_hom as [_ [_ [Hh [_ [Ha [Hm [Hn [Hs _]]]]]]]].
  unfold ksin. rewrite Hm, Hm, Hs, Hh, (cev_kw k), cev_kw_inv, (cev_kw 48).
  unfold ang at 1 2. rewrite INR_IZR_INZ. cbn [Z.of_nat Pos.of_succ_nat Pos.succ].
  replace (48 * (PI / 32)) with (3 * (PI / 2)) by field. rewrite cos_3PI2, sin_3PI2.
  unfold Cmult, Cminus, Cplus, Copp, Chalf, RtoC. cbn [fst snd]. f_equal; field.
Qed.

(* exp(-i theta/2 sigma) with theta/2 = k pi/32, as complex matrices *)
Definition Crot (a : axis) (t : R) : list (list C) :=
  let c := RtoC (cos t) in let s := RtoC (sin t) in
  match a with
  | AX => [[c; Cmult (Copp Ci) s]; [Cmult (Copp Ci) s; c]]
  | AY => [[c; Copp s]; [s; c]]
  | AZ => [[(cos t, - sin t); C0]; [C0; (cos t, sin t)]]
  end.

Theorem cmev_rot_k : forall a k, cmev (rot_k a k) = Crot a (ang k).
Proof.
  intros a k. destruct cev_hom as [H0 [_ [_ [_ [_ [Hm [Hn _]]]]]]].
  unfold cmev, rot_k, Crot, kmi, k0. destruct a; cbn [map].
  - rewrite Hm, Hn, cev_ki, cev_kcos, cev_ksin. reflexivity.
  - rewrite Hn, cev_kcos, cev_ksin. reflexivity.
  - rewrite cev_kw_inv, cev_kw, H0. reflexivity.
Qed.

(* the NV conditional rotation |0><0| (x) R(theta) + |1><1| (x) R(-theta), for EVERY k *)
Definition Ccrot (a : axis) (t : R) : list (list C) :=
  match Crot a t, Crot a (- t) with
  | [[a1; b1]; [c1; d1]], [[e1; f1]; [g1; h1]] =>
      [[a1; b1; C0; C0]; [c1; d1; C0; C0]; [C0; C0; e1; f1]; [C0; C0; g1; h1]]
  | _, _ => []
  end.

Lemma ang_compl : forall k,
  cos (ang (64 - k mod 64)) = cos (- ang k) /\ sin (ang (64 - k mod 64)) = sin (- ang k).
Proof.
  intros k. assert (Hm : (k mod 64 <= 64)%nat) by (apply Nat.lt_le_incl, Nat.mod_upper_bound; lia).
  destruct (trig_compl (k mod 64) Hm) as [Hc Hs]. destruct (trig_mod k) as [Hc' Hs'].
  rewrite Hc, Hs, <- Hc', <- Hs', cos_neg, sin_neg. split; reflexivity.
Qed.

Theorem cmev_crot_k : forall a k, cmev (crot_k a k) = Ccrot a (ang k).
Proof.
  intros a k. destruct cev_hom as [H0 [_ [_ [_ [_ [Hm [Hn _]]]]]]].
  destruct (ang_compl k) as [Ec Es].
  unfold cmev, crot_k, rot_k, block_diag, Ccrot, Crot, kmi, k0. destruct a; cbn [map].
  - rewrite !Hm, !Hn, !cev_ki, !cev_kcos, !cev_ksin, !H0, Ec, Es. reflexivity.
  - rewrite !Hn, !cev_kcos, !cev_ksin, !H0, Ec, Es. reflexivity.
  - rewrite (cev_kw_inv k), (cev_kw k), (cev_kw_inv (64 - k mod 64)), !H0, Ec, Es.
    rewrite ?cos_neg, ?sin_neg, ?Ropp_involutive. reflexivity.
Qed.

(* complex images of the fixed gates *)
Definition Ch : C := RtoC (1 / sqrt 2).
Theorem cmev_fixed :
  cmev gX = [[C0; C1]; [C1; C0]] /\
  cmev gY = [[C0; Copp Ci]; [Ci; C0]] /\
  cmev gZ = [[C1; C0]; [C0; Copp C1]] /\
  cmev gH = [[Ch; Ch]; [Ch; Copp Ch]] /\
  cmev gK = [[Ch; Cmult (Copp Ci) Ch]; [Cmult Ci Ch; Copp Ch]] /\
  cmev gS = [[C1; C0]; [C0; Ci]] /\
  cmev gT = [[C1; C0]; [C0; (cos (PI / 4), sin (PI / 4))]] /\
  cmev gCNOT = [[C1;C0;C0;C0]; [C0;C1;C0;C0]; [C0;C0;C0;C1]; [C0;C0;C1;C0]] /\
  cmev gCPHASE = [[C1;C0;C0;C0]; [C0;C1;C0;C0]; [C0;C0;C1;C0]; [C0;C0;C0;Copp C1]].
Proof.
  destruct cev_hom as [H0 [H1 [_ [_ [_ [Hm [Hn _]]]]]]].
  unfold cmev, gX, gY, gZ, gH, gK, gS, gT, gCNOT, gCPHASE, k0, k1, km1, kmi, Ch. cbn [map].
  rewrite ?Hm, ?Hn, ?H0, ?H1, ?cev_ki, ?cev_krsqrt2, ?cev_kw.
  unfold ang. rewrite INR_IZR_INZ. cbn [Z.of_nat Pos.of_succ_nat Pos.succ].
  replace (8 * (PI / 32)) with (PI / 4) by field.
  repeat split; reflexivity.
Qed.

(* ---- C10 part (a) over C ---- *)
From NQ Require Import Epr.BellRing Proofs.BellProofs Proofs.BellLift.

Definition bell_fix_in_C (num : list (bell * Z)) (corr : list (Z * list qop)) : Prop :=
  bell_fix_in C C0 C1 Cplus Cmult Copp Comega Chalf num corr.

Lemma bell_fix_lifts_C : forall num corr, bell_fix_stmt num corr -> bell_fix_in_C num corr.
Proof.
  intros num corr H.
  exact (bell_fix_lifts C C0 C1 Cplus Cmult Cminus Copp C_ring_theory Comega Chalf Comega32 Chalf2 num corr H).
Qed.

(* the complex images of the Bell vectors are the textbook vectors *)
Lemma cmev_bell : forall b, cmev (bell_vec b) =
  match b with
  | BPhiPlus => [[Ch]; [C0]; [C0]; [Ch]]
  | BPsiPlus => [[C0]; [Ch]; [Ch]; [C0]]
  | BPsiMinus => [[C0]; [Ch]; [Copp Ch]; [C0]]
  | BPhiMinus => [[Ch]; [C0]; [C0]; [Copp Ch]]
  end.
Proof.
  destruct cev_hom as [H0 [_ [_ [_ [_ [_ [Hn _]]]]]]].
  intros b. unfold cmev, Ch. destruct b; cbn [bell_vec map]; rewrite ?Hn, ?H0, ?cev_krsqrt2; reflexivity.
Qed.
